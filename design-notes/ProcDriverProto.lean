import Proto.Proc

def obsStr : Obs → String
  | .tick id => s!"tick {id}"
  | .start => "start"
  | .write id => s!"write {id}"
  | .stop => "stop"

def parseEv (line : String) : Option Ev :=
  match line.trimAscii.toString.splitOn " " with
  | ["frame", m, g] => some (.frame (m == "1") (g == "1"))
  | ["bad"] => some .bad
  | ["reset"] => some .reset
  | _ => none

partial def loop (c : PCfg) (h out : IO.FS.Stream) (s : PState) : IO Unit := do
  let line ← h.getLine
  if line.isEmpty then return ()
  match parseEv line with
  | none => out.putStrLn "bad-op"; loop c h out s
  | some e =>
    let r := step c s e
    out.putStrLn (" ".intercalate (r.2.map obsStr |>.map (·.replace " " ":")))
    loop c h out r.1

def main (args : List String) : IO Unit := do
  match args.map String.toNat! with
  | [k, mn, mx, t] =>
    let c : PCfg := ⟨k, mn, mx, t⟩
    loop c (← IO.getStdin) (← IO.getStdout) (PState.init c)
  | _ => IO.eprintln "usage: K min max trig"
