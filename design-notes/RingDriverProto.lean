import Proto.Ring

def stepLine (r : Ring Nat) (line : String) : Ring Nat × String :=
  match (line.trimAscii.toString.splitOn " ") with
  | ["write", n] => (match n.toNat? with | some k => (r.write k, "ok") | none => (r, "bad-op"))
  | ["move"] => (r.move, "ok")
  | ["mark"] => (r.setAsOldest, "ok")
  | ["reset"] => (r.reset, "ok")
  | ["hist"] => (r, match r.history with | some l => toString l | none => "panic")
  | ["oldest"] => (r, toString r.oldestFrame)
  | _ => (r, "bad-op")

partial def loop (h : IO.FS.Stream) (out : IO.FS.Stream) (r : Ring Nat) : IO Unit := do
  let line ← h.getLine
  if line.isEmpty then return ()
  let (r', o) := stepLine r line
  out.putStrLn o
  loop h out r'

def main (args : List String) : IO Unit := do
  let size := (args.head?.bind String.toNat?).getD 5
  loop (← IO.getStdin) (← IO.getStdout) (Ring.new size 0)
