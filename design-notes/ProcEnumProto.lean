import Proto.Proc

def allEvs : List Ev := [.frame false true, .frame true true, .frame true false, .bad, .reset]

def seqs : Nat → List (List Ev)
  | 0 => [[]]
  | n + 1 => (seqs n).flatMap fun s => allEvs.map fun e => e :: s

def cfgs : List PCfg := Id.run do
  let mut out := []
  for K in [1, 2, 3, 4] do
    for trig in [0, 1, 2, 3] do
      if trig ≤ K then
        for minF in [0, 1, 2, 3] do
          for maxF in [0, 1, 2, 3, 5] do
            if minF ≤ maxF then out := ⟨K, minF, maxF, trig⟩ :: out
  return out

def failures (n : Nat) : List (Nat × Nat × Nat × Nat × Nat) := Id.run do
  let ss := seqs n
  let mut bad := []
  for c in cfgs do
    let mut k := 0
    for s in ss do
      if !(holds_C01_C02 c s) then k := k + 1
    if k > 0 then bad := (c.K, c.minF, c.maxF, c.trig, k) :: bad
  return bad

#eval (cfgs.length, (seqs 7).length)
#eval failures 7
