import RingProto  -- (was Proto.Ring in the scratch project)
/-! Scratch calibration: motion-sink part of MotionProcessor.process + C01/C02 monitor product. -/

structure PCfg where
  K : Nat
  minF : Nat
  maxF : Nat
  trig : Nat

inductive Obs
  | tick (id : Nat)      -- accepted frame `id` starts being processed
  | start                -- successful StartRecording on the motion sink
  | write (id : Nat)
  | stop
  deriving Repr, DecidableEq

structure PState where
  ring : Ring Nat
  isRec : Bool
  framesWritten : Nat
  writeUntil : Nat
  triggered : Nat
  nextId : Nat

namespace PState

def init (c : PCfg) : PState :=
  { ring := Ring.new c.K 0, isRec := false, framesWritten := 0, writeUntil := 0, triggered := 0, nextId := 0 }

def stopRec (s : PState) : PState × List Obs :=
  if !s.isRec then (s, [])
  else ({ s with framesWritten := 0, writeUntil := 0, isRec := false, triggered := 0,
                 ring := s.ring.setAsOldest }, [Obs.stop])

/-- `gate` = window open ∧ CheckCanRecord ok ∧ StartRecording ok for this attempt -/
def frame (c : PCfg) (s : PState) (motion gate : Bool) : PState × List Obs :=
  let id := s.nextId
  let s := { s with ring := s.ring.write id }
  let r1 : PState × List Obs :=
    if motion then
      let s := { s with triggered := s.triggered + 1 }
      if s.isRec then ({ s with writeUntil := min (s.framesWritten + c.minF) c.maxF }, [])
      else if s.triggered < c.trig then (s, [])
      else if !gate then (s, [])
      else
        let pre := match s.ring.history with
          | some h => h.dropLast
          | none => []           -- Go would panic; excluded by history_eq
        ({ s with isRec := true, writeUntil := c.minF }, Obs.start :: pre.map Obs.write)
    else ({ s with triggered := 0 }, [])
  let s := r1.1
  let r2 : PState × List Obs :=
    if s.isRec then ({ s with framesWritten := s.framesWritten + 1 }, [Obs.write id]) else (s, [])
  let s := r2.1
  let s := { s with ring := s.ring.move, nextId := id + 1 }
  let r3 : PState × List Obs :=
    if s.isRec && decide (s.framesWritten ≥ s.writeUntil) then s.stopRec else (s, [])
  (r3.1, Obs.tick id :: (r1.2 ++ r2.2 ++ r3.2))

end PState

inductive Ev
  | frame (motion gate : Bool)
  | bad
  | reset

def step (c : PCfg) (s : PState) : Ev → PState × List Obs
  | .frame m g => s.frame c m g
  | .bad => s.stopRec
  | .reset => s.stopRec

def run (c : PCfg) : PState → List Ev → List Obs
  | _, [] => []
  | s, e :: es => let r := step c s e; r.2 ++ run c r.1 es

/-- C01/C02 monitor over the observation stream -/
structure Mon where
  openRec : Bool := false
  cur : Nat := 0             -- id of the frame being processed (last tick)
  last : Option Nat := none  -- last id written in the open recording
  nextFree : Nat := 0        -- 1 + largest id written to any recording so far
  ok : Bool := true

def Mon.step (K : Nat) (m : Mon) : Obs → Mon
  | .tick id => { m with cur := id }
  | .start => { m with openRec := true, last := none, ok := m.ok && !m.openRec }
  | .write id =>
    let good := m.openRec &&
      (match m.last with
       | some l => id == l + 1                                   -- contiguous inside a recording
       | none => id == max (m.cur + 1 - K) m.nextFree)           -- C02 start boundary; ≥ nextFree ⇒ no overlap (C01)
    { m with last := some id, nextFree := id + 1, ok := m.ok && good }
  | .stop => { m with openRec := false, ok := m.ok && m.openRec }

def Mon.run (K : Nat) (m : Mon) (os : List Obs) : Mon := os.foldl (Mon.step K) m

def holds_C01_C02 (c : PCfg) (evs : List Ev) : Bool :=
  (Mon.run c.K {} (run c (PState.init c) evs)).ok

-- sanity: a concrete non-trivial run (re-trigger inside reach, cap hit)
#eval run ⟨3, 1, 2, 1⟩ (PState.init ⟨3, 1, 2, 1⟩)
  [.frame false true, .frame false true, .frame true true, .frame true true, .frame true true, .frame false true, .frame true false, .frame true true]
#eval holds_C01_C02 ⟨3, 1, 2, 1⟩
  [.frame false true, .frame false true, .frame true true, .frame true true, .frame true true, .frame false true, .frame true false, .frame true true]

/-! ### proof sketch: product invariant -/

theorem mon_run_append (K : Nat) (m : Mon) (a b : List Obs) :
    Mon.run K m (a ++ b) = Mon.run K (Mon.run K m a) b := by
  simp [Mon.run, List.foldl_append]

/-- contiguous continuation: writing l+1, l+2, … keeps the monitor happy -/
theorem mon_writes_cont (K : Nat) : ∀ (len : Nat) (m : Mon) (l : Nat),
    m.ok = true → m.openRec = true → m.last = some l →
    let m' := Mon.run K m ((List.range' (l + 1) len).map Obs.write)
    m'.ok = true ∧ m'.openRec = true ∧ m'.cur = m.cur ∧
    m'.last = some (l + len) ∧ m'.nextFree = (if len = 0 then m.nextFree else l + len + 1) := by
  intro len
  induction len with
  | zero => intro m l h1 h2 h3; simp [Mon.run, h1, h2, h3]
  | succ n ih =>
    intro m l h1 h2 h3
    simp only [List.range'_succ, List.map_cons, Mon.run, List.foldl_cons]
    have hstep : Mon.step K m (Obs.write (l + 1)) =
        { m with last := some (l + 1), nextFree := l + 1 + 1, ok := true } := by
      simp [Mon.step, h1, h2, h3]
    rw [hstep]
    have := ih { m with last := some (l + 1), nextFree := l + 1 + 1, ok := true } (l + 1) rfl h2 rfl
    simp only [Mon.run] at this
    obtain ⟨a, b, c, d, e⟩ := this
    refine ⟨a, b, c, ?_, ?_⟩
    · rw [d]; congr 1; omega
    · rw [e]; split <;> simp <;> omega
