/-! Scratch calibration: juju/ratelimit v1.0.1 bucket (tick arithmetic only) and the potential E. -/
structure Bucket where
  cap : Nat
  q : Nat
  avail : Nat
  latest : Nat

namespace Bucket
/-- adjustavailableTokens: note the early return that leaves `latest` stale when full -/
def adjust (b : Bucket) (tick : Nat) : Bucket :=
  if b.avail ≥ b.cap then b
  else { b with avail := min b.cap (b.avail + (tick - b.latest) * b.q), latest := tick }

def take1 (b : Bucket) (tick : Nat) : Bucket × Nat :=
  let b' := b.adjust tick
  if b'.avail = 0 then (b', 0) else ({ b' with avail := b'.avail - 1 }, 1)

def available (b : Bucket) (tick : Nat) : Bucket × Nat := (b.adjust tick, (b.adjust tick).avail)

/-- tokens obtainable "right now" -/
def E (b : Bucket) (t : Nat) : Nat :=
  if b.avail ≥ b.cap then (if b.latest < t then b.cap + 1 else b.cap)
  else min b.cap (b.avail + (t - b.latest) * b.q)

def WF (b : Bucket) (t : Nat) : Prop := 0 < b.cap ∧ 0 < b.q ∧ b.avail ≤ b.cap ∧ b.latest ≤ t

theorem E_le (b : Bucket) (t : Nat) : b.E t ≤ b.cap + 1 := by
  unfold E
  by_cases h : b.avail ≥ b.cap
  · simp only [h, if_true]; split <;> omega
  · simp only [h, if_false]; omega

theorem E_mono (b : Bucket) (t t' : Nat) (h : b.WF t) (htt : t ≤ t') :
    b.E t' ≤ b.E t + (t' - t) * b.q := by
  obtain ⟨hc, hq, ha, hl⟩ := h
  unfold E
  by_cases hf : b.avail ≥ b.cap
  · simp only [hf, if_true]
    by_cases h1 : b.latest < t
    · have h2 : b.latest < t' := by omega
      simp only [h1, h2, if_true]; omega
    · simp only [h1, if_false]
      by_cases h2 : b.latest < t'
      · simp only [h2, if_true]
        have : 1 ≤ (t' - t) * b.q := Nat.mul_pos (by omega) hq
        omega
      · simp only [h2, if_false]; omega
  · simp only [hf, if_false]
    have : (t' - b.latest) * b.q = (t - b.latest) * b.q + (t' - t) * b.q := by
      rw [← Nat.add_mul]; congr 1; omega
    omega

theorem take1_E (b : Bucket) (t : Nat) (h : b.WF t) :
    (b.take1 t).1.E t + (b.take1 t).2 = b.E t ∧ (b.take1 t).1.WF t := by
  obtain ⟨hc, hq, ha, hl⟩ := h
  unfold take1 adjust E WF
  by_cases hfull : b.avail ≥ b.cap
  · have hav : b.avail = b.cap := by omega
    simp only [hfull, if_true]
    have hne : ¬ b.avail = 0 := by omega
    simp only [hne, if_false]
    have hlt : ¬ (b.avail - 1 ≥ b.cap) := by omega
    simp only [hlt, if_false]
    by_cases hs : b.latest < t
    · simp only [hs, if_true]
      have : 1 ≤ (t - b.latest) * b.q := Nat.mul_pos (by omega) hq
      refine ⟨by omega, hc, hq, by omega, hl⟩
    · simp only [hs, if_false]
      have : t - b.latest = 0 := by omega
      simp only [this, Nat.zero_mul]
      refine ⟨by omega, hc, hq, by omega, hl⟩
  · simp only [hfull, if_false]
    generalize hx : min b.cap (b.avail + (t - b.latest) * b.q) = a'
    have ha' : a' ≤ b.cap := by omega
    by_cases hz : a' = 0
    · simp [hz]; omega
    · simp only [hz, if_false, Nat.sub_self, Nat.zero_mul, Nat.add_zero]
      have : ¬ (a' - 1 ≥ b.cap) := by omega
      simp only [this, if_false]
      refine ⟨by omega, hc, hq, by omega, Nat.le_refl _⟩
#print axioms take1_E
end Bucket
