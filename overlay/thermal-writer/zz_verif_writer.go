//go:build verif

package main

// Correspondence harness injected into package main of cmd/thermal-writer (stream "writer"):
// the real handleConn + writer goroutines fed through net.Pipe with arbitrary write
// segmentation; the files they produce are read back byte for byte.

import (
	"bufio"
	"encoding/hex"
	"fmt"
	"io"
	"log"
	"net"
	"os"
	"path/filepath"
	"runtime"
	"sort"
	"strconv"
	"strings"
	"time"
)

func init() {
	if os.Getenv("VERIF_HARNESS") != "writer" {
		return
	}
	log.SetOutput(io.Discard)
	w := bufio.NewWriterSize(os.Stdout, 1<<20)
	switch os.Args[1] {
	case "gen":
		seed, _ := strconv.ParseUint(os.Args[2], 10, 64)
		tier := "quick"
		if len(os.Args) > 3 {
			tier = os.Args[3]
		}
		vwGen(&vwRng{seed*0x9E3779B97F4A7C15 + 0x1234567}, tier, w)
	case "run":
		in := bufio.NewScanner(os.Stdin)
		in.Buffer(make([]byte, 1<<20), 1<<28)
		vwRun(in, w)
	}
	w.Flush()
	os.Exit(0)
}

type vwRng struct{ s uint64 }

func (r *vwRng) next() uint64 {
	r.s += 0x9E3779B97F4A7C15
	z := r.s
	z = (z ^ (z >> 30)) * 0xBF58476D1CE4E5B9
	z = (z ^ (z >> 27)) * 0x94D049BB133111EB
	return z ^ (z >> 31)
}
func (r *vwRng) intn(n int) int     { return int(r.next() % uint64(n)) }
func (r *vwRng) pick(xs ...int) int { return xs[r.intn(len(xs))] }
func (r *vwRng) chance(p int) bool  { return r.intn(100) < p }

// ops:
//   case <id> writer procs=<GOMAXPROCS> device=<name> id=<n>
//   b <hex>         write these bytes to the socket in one Write call
//   stall <ms>      sleep (lets the writer goroutine run ahead / lag)
//   end             close the connection, wait for handleConn and for the file to be closed, dump files
func vwRun(in *bufio.Scanner, w *bufio.Writer) {
	work := os.Getenv("VERIF_WORKDIR")
	if work == "" {
		work = os.TempDir()
	}
	var client net.Conn
	var done chan error
	var dir string
	caseNo := 0
	for in.Scan() {
		line := in.Text()
		fmt.Fprintln(w, ">", line)
		f := strings.Fields(line)
		if len(f) == 0 {
			continue
		}
		switch f[0] {
		case "case":
			caseNo++
			procs := 4
			name, id := "dev", 1
			for _, kv := range f[3:] {
				switch {
				case strings.HasPrefix(kv, "procs="):
					procs, _ = strconv.Atoi(kv[6:])
				case strings.HasPrefix(kv, "device="):
					name = kv[7:]
				case strings.HasPrefix(kv, "id="):
					id, _ = strconv.Atoi(kv[3:])
				}
			}
			runtime.GOMAXPROCS(procs)
			dir = filepath.Join(work, fmt.Sprintf("tw_out_%d", caseNo))
			os.RemoveAll(dir)
			os.MkdirAll(dir, 0755)
			conf := &Config{DeviceID: id, DeviceName: name, OutputDir: dir}
			var server net.Conn
			server, client = net.Pipe()
			done = make(chan error, 1)
			frameLogIntervalFirstMin, frameLogInterval = 15, 60*5 // handleConn multiplies these package variables by the fps
			go func() { done <- handleConn(server, conf, false) }()
		case "b":
			data, _ := hex.DecodeString(f[1])
			client.SetWriteDeadline(time.Now().Add(20 * time.Second))
			if _, err := client.Write(data); err != nil {
				fmt.Fprintln(w, "< write-error")
			}
		case "stall":
			ms, _ := strconv.Atoi(f[1])
			time.Sleep(time.Duration(ms) * time.Millisecond)
		case "end":
			client.Close()
			select {
			case err := <-done:
				if err == io.EOF {
					fmt.Fprintln(w, "< conn eof")
				} else if err == io.ErrUnexpectedEOF {
					fmt.Fprintln(w, "< conn truncated")
				} else {
					fmt.Fprintf(w, "< conn error %v\n", err)
				}
			case <-time.After(30 * time.Second):
				fmt.Fprintln(w, "< conn hang")
			}
			// the writer goroutine closes the file after draining the queue; poll until the
			// directory content is stable
			var last string
			stable := 0
			for i := 0; i < 1000 && stable < 3; i++ {
				time.Sleep(5 * time.Millisecond)
				cur := vwSnapshot(dir)
				if cur == last && cur != "" && !strings.Contains(cur, ":0;") {
					stable++
				} else {
					stable = 0
				}
				last = cur
			}
			names, _ := filepath.Glob(filepath.Join(dir, "*"))
			sort.Strings(names)
			for i, n := range names {
				data, _ := os.ReadFile(n)
				ext := filepath.Ext(n)
				// canonicalise: the 8 timestamp bytes of the header ("CPTR" 02 'H' n | 08 'T' <8 bytes>)
				if len(data) >= 17 && string(data[:4]) == "CPTR" && data[7] == 8 && data[8] == 'T' {
					for k := 9; k < 17; k++ {
						data[k] = 0
					}
				}
				fmt.Fprintf(w, "< file %d %s %s\n", i, ext, hex.EncodeToString(data))
			}
			fmt.Fprintf(w, "< files %d\n", len(names))
		}
	}
}

func vwSnapshot(dir string) string {
	names, _ := filepath.Glob(filepath.Join(dir, "*"))
	var sb strings.Builder
	for _, n := range names {
		st, err := os.Stat(n)
		if err == nil {
			fmt.Fprintf(&sb, "%s:%d;", n, st.Size())
		}
	}
	return sb.String()
}

func vwGen(r *vwRng, tier string, w *bufio.Writer) {
	cases := 40
	if tier == "thorough" {
		cases = 400
	}
	for id := 0; id < cases; id++ {
		procs := r.pick(1, 2, 4, 16)
		fmt.Fprintf(w, "case %d writer procs=%d device=dev%d id=%d\n", id, procs, id, r.pick(0, 1, 77, 65536))
		resx, resy := r.pick(1, 2, 4, 8, 160), r.pick(1, 2, 3, 120)
		fsize := r.pick(1, 2, 7, resx*resy*2, 39040)
		if id%7 != 3 && fsize > 4000 {
			fsize = resx * 2
		}
		hdr := fmt.Sprintf("Brand: flir\nFPS: %d\nFirmware: 1.2.3\nFrameSize: %d\nModel: %s\nResX: %d\nResY: %d\nCameraSerial: %d\n\n",
			r.pick(1, 9, 60), fsize, []string{"lepton3", "lepton3.5", "boson"}[r.intn(3)], resx, resy, r.intn(100000))
		nframes := r.pick(0, 1, 2, 5, 40, 300, 700)
		if fsize > 4000 && nframes > 40 {
			nframes = 40
		}
		var stream []byte
		stream = append(stream, hdr...)
		for k := 0; k < nframes; k++ {
			for j := 0; j < fsize; j++ {
				stream = append(stream, byte((k*31+j*7+id)%251))
			}
		}
		// optionally cut the stream inside the last frame
		if nframes > 0 && r.chance(30) {
			stream = stream[:len(stream)-1-r.intn(fsize)]
		}
		// segmentation
		for len(stream) > 0 {
			n := r.pick(1, 2, 3, 5, 64, fsize, fsize+1, 4096, 100000)
			if n > len(stream) {
				n = len(stream)
			}
			fmt.Fprintf(w, "b %s\n", hex.EncodeToString(stream[:n]))
			stream = stream[n:]
			if r.chance(3) {
				fmt.Fprintf(w, "stall %d\n", r.pick(1, 5, 20))
			}
		}
		fmt.Fprintln(w, "end")
	}
}
