//go:build verif

package main

// Stream parse: the parsers the daemon selects (frameParser: convertRawBosonFrame / lepton3.ParseRawFrame) on generated raw
// frames (zeros planted on both sides of the edge border).

import (
	"bufio"
	"encoding/hex"
	"fmt"
	"strings"
	"time"

	"github.com/TheCacophonyProject/go-cptv/cptvframe"
	"github.com/TheCacophonyProject/lepton3"
)

func init() { verifStreams["parse"] = verifStream{gen: genParse, run: runParse} }

func runParse(in *bufio.Scanner, w *bufio.Writer) {
	for in.Scan() {
		line := in.Text()
		fmt.Fprintln(w, ">", line)
		f := strings.Fields(line)
		if len(f) == 0 || f[0] != "p" {
			continue
		}
		// p <boson|lepton> <w> <h> <edge> <hex raw>
		cam := vCam{vAtoi(f[2]), vAtoi(f[3]), 9}
		edge := vAtoi(f[4])
		raw, _ := hex.DecodeString(f[5])
		out := cptvframe.NewFrame(cam)
		// pre-fill so that pixels a rejecting parser does not reach are visible as such
		for y := range out.Pix {
			for x := range out.Pix[y] {
				out.Pix[y][x] = 0xeeee
			}
		}
		vGuard(w, "parse", func() {
			// the parser the daemon itself selects for this camera (handleConn: frameParser(brand, model))
			model := f[1]
			if model == "lepton" {
				model = []string{lepton3.Model, lepton3.Model35}[len(raw)%2]
			}
			parse := frameParser("flir", model)
			if parse == nil {
				fmt.Fprintln(w, "< no-parser")
				return
			}
			err := parse(raw, out, edge)
			if err != nil {
				if _, isBad := err.(*lepton3.BadFrameErr); isBad {
					fmt.Fprintf(w, "< bad %s\n", hexOfPix(out.Pix))
				} else {
					fmt.Fprintln(w, "< error")
				}
				return
			}
			fmt.Fprintf(w, "< ok ton=%d lffc=%d t=%d tl=%d fc=%d fm=%d ffc=%s pix=%s\n",
				out.Status.TimeOn/time.Millisecond, out.Status.LastFFCTime/time.Millisecond,
				int(out.Status.TempC*100+27315.5), int(out.Status.LastFFCTempC*100+27315.5),
				out.Status.FrameCount, out.Status.FrameMean, out.Status.FFCState, hexOfPix(out.Pix))
		})
	}
}

func genParse(r *vRng, tier string, w *bufio.Writer) {
	cases := 40
	if tier == "thorough" {
		cases = 400
	}
	for id := 0; id < cases; id++ {
		fmt.Fprintf(w, "case %d parse\n", id)
		for k := 0; k < 12; k++ {
			lepton := r.chance(25)
			wd, ht := r.pick(3, 4, 5, 7, 9), r.pick(3, 4, 6, 8)
			if lepton {
				wd, ht = 160, 120
			}
			m := wd
			if ht < m {
				m = ht
			}
			edge := r.intn((m + 1) / 2)
			off := 0
			if lepton {
				off = 640
			}
			raw := make([]byte, off+wd*ht*2)
			for i := range raw {
				raw[i] = byte(r.next())
			}
			put := func(i int, v uint16) {
				if lepton {
					raw[off+2*i], raw[off+2*i+1] = byte(v>>8), byte(v)
				} else {
					raw[off+2*i], raw[off+2*i+1] = byte(v), byte(v>>8)
				}
			}
			for i := 0; i < wd*ht; i++ {
				if raw[off+2*i] == 0 && raw[off+2*i+1] == 0 {
					put(i, 1)
				}
			}
			// plant zeros: none / in the border / just inside the border / anywhere in the interior / both
			switch r.intn(6) {
			case 1: // border cells only (must be accepted)
				for j := 0; j < 3 && edge > 0; j++ {
					y, x := r.intn(ht), r.intn(edge)
					if r.chance(50) {
						x = wd - 1 - r.intn(edge)
					}
					if r.chance(30) {
						y, x = r.intn(edge), r.intn(wd)
					}
					if r.chance(20) {
						y, x = ht-1-r.intn(edge), r.intn(wd)
					}
					put(y*wd+x, 0)
				}
			case 2: // first interior column / row next to the border
				if wd-2*edge > 0 && ht-2*edge > 0 {
					y, x := edge+r.intn(ht-2*edge), edge
					switch r.intn(4) {
					case 1:
						x = wd - 1 - edge
					case 2:
						y, x = edge, edge+r.intn(wd-2*edge)
					case 3:
						y, x = ht-1-edge, edge+r.intn(wd-2*edge)
					}
					put(y*wd+x, 0)
				}
			case 3, 4: // anywhere in the interior
				if wd-2*edge > 0 && ht-2*edge > 0 {
					put((edge+r.intn(ht-2*edge))*wd+edge+r.intn(wd-2*edge), 0)
					if r.chance(30) {
						put((edge+r.intn(ht-2*edge))*wd+edge+r.intn(wd-2*edge), 0)
					}
				}
			}
			kind := "boson"
			if lepton {
				kind = "lepton"
			}
			fmt.Fprintf(w, "p %s %d %d %d %s\n", kind, wd, ht, edge, hex.EncodeToString(raw))
		}
	}
}
