//go:build verif && verif_nologvars

package main

func vResetLogVars() {}
