//go:build verif

package main

// Stream conc: the real handleConn (frame loop) running concurrently with the D-Bus service
// methods TakeSnapshot / TakeTestRecording / CameraInfo called at function level, across two
// camera connections.  Built with -race; data-race reports are read back from the race log.

import (
	"bufio"
	"encoding/binary"
	"fmt"
	"io"
	"net"
	"os"
	"path/filepath"
	"regexp"
	"sort"
	"strings"
	"sync"
	"sync/atomic"
	"time"

	"gopkg.in/yaml.v1"
)

func init() { verifStreams["conc"] = verifStream{gen: genConc, run: runConc} }

func genConc(r *vRng, tier string, w *bufio.Writer) {
	cases := 6
	if tier == "thorough" {
		cases = 40
	}
	for id := 0; id < cases; id++ {
		preview, trig := r.pick(0, 1, 1, 2), r.pick(1, 2)
		if id%6 == 1 {
			preview, trig = 0, 2 // the smallest ring that must still give whole snapshots: two slots
		}
		fmt.Fprintf(w, "case %d conc preview=%d trig=%d frames=%d requesters=%d procs=%d\n", id, preview, trig,
			r.pick(60, 150, 300), r.pick(1, 2, 4), r.pick(1, 2, 4, 16))
		fmt.Fprintln(w, "go")
	}
}

var raceTop = regexp.MustCompile(`^\s+((?:main|github\.com/TheCacophonyProject/thermal-recorder/[a-zA-Z]+)\.[^\s(]+(?:\([^)]*\))?[^\s(]*)\(`)

// readRaces extracts (function, function) pairs of the data-race reports written so far
func readRaces(seen map[string]bool) []string {
	logp := os.Getenv("VERIF_RACELOG")
	files, _ := filepath.Glob(logp + ".*")
	var out []string
	for _, fn := range files {
		data, _ := os.ReadFile(fn)
		for _, rep := range strings.Split(string(data), "WARNING: DATA RACE")[1:] {
			// the first repo-function of each of the two access stacks
			var tops []string
			for _, sec := range regexp.MustCompile(`(?m)^(?:Write|Read|Previous write|Previous read) at .*$`).Split(rep, -1)[1:] {
				lines := strings.Split(sec, "\n")
				for i := 1; i+1 < len(lines); i++ {
					fn := strings.TrimSpace(lines[i])
					loc := strings.TrimSpace(lines[i+1])
					if fn == "" {
						break // end of this stack
					}
					if !strings.HasPrefix(loc, "/repo/") || strings.Contains(loc, "zz_verif") {
						continue
					}
					if j := strings.LastIndex(fn, "("); j > 0 {
						fn = fn[:j]
					}
					fn = strings.TrimPrefix(fn, "github.com/TheCacophonyProject/thermal-recorder/")
					tops = append(tops, fn)
					break
				}
				if len(tops) == 2 {
					break
				}
			}
			sort.Strings(tops)
			key := strings.Join(tops, " ")
			if key != "" && !seen[key] {
				seen[key] = true
				out = append(out, key)
			}
		}
	}
	sort.Strings(out)
	return out
}

func runConc(in *bufio.Scanner, w *bufio.Writer) {
	work := os.Getenv("VERIF_WORKDIR")
	if work == "" {
		work = os.TempDir()
	}
	var f []string
	caseNo := 0
	seen := map[string]bool{}
	for in.Scan() {
		line := in.Text()
		fmt.Fprintln(w, ">", line)
		fl := strings.Fields(line)
		if len(fl) == 0 {
			continue
		}
		switch fl[0] {
		case "case":
			f = fl
			caseNo++
		case "go":
			dir := filepath.Join(work, fmt.Sprintf("conc_%d", caseNo))
			os.RemoveAll(dir)
			out := filepath.Join(dir, "out")
			os.MkdirAll(out, 0755)
			toml := fmt.Sprintf("[device]\nid = 1\nname = \"c\"\n[thermal-recorder]\noutput-dir = \"%s\"\nmin-secs = 1\nmax-secs = 2\npreview-secs = %s\nmin-disk-space-mb = 0\n[thermal-motion]\ndynamic-threshold = false\ntemp-thresh = 100\ndelta-thresh = 20\ncount-thresh = 1\nframe-compare-gap = 1\ntrigger-frames = %s\nuse-one-diff-only = true\nedge-pixels = 1\n[thermal-throttler]\nactivate = false\n[windows]\nstart-recording = \"12:00\"\nstop-recording = \"12:00\"\n",
				out, vKv(f, "preview"), vKv(f, "trig"))
			os.WriteFile(filepath.Join(dir, "config.toml"), []byte(toml), 0644)
			conf, err := ParseConfig(dir)
			if err != nil {
				fmt.Fprintln(w, "< config error")
				continue
			}
			nframes := vAtoi(vKv(f, "frames"))
			processor, headerInfo = nil, nil
			const resx, resy = 48, 43 // frame = 4128 bytes > bufio's 4096: at most one frame is buffered ahead
			var sent, started int64   // frames whose Write returned / started, over both connections
			var torn, outOfRange, okSnaps, errSnaps, infoCalls, blank, shown int64
			var connNo, connSent, connStarted, staleRefusals, polls int64 // per-connection frame counters for the polling client
			stop := make(chan struct{})
			var wg sync.WaitGroup
			s := &service{}
			for q := 0; q < vAtoi(vKv(f, "requesters")); q++ {
				wg.Add(1)
				go func(q int) {
					defer wg.Done()
					last := -1
					for i := 0; ; i++ {
						select {
						case <-stop:
							return
						default:
						}
						// requester 0 is a polling client: it passes the frame number of the snapshot it got last and may be
						// told "no new frames yet" only while the processor's frame counter really equals that number
						arg := -1
						if q == 0 {
							arg = last
						}
						cn0, loC := atomic.LoadInt64(&connNo), atomic.LoadInt64(&connSent)
						lo := atomic.LoadInt64(&sent) - 1
						fr, derr := s.TakeSnapshot(arg)
						hi := atomic.LoadInt64(&started)
						hiC, cn1 := atomic.LoadInt64(&connStarted), atomic.LoadInt64(&connNo)
						if q == 0 && arg >= 0 {
							atomic.AddInt64(&polls, 1)
							if derr != nil && strings.Contains(fmt.Sprint(derr.Body...), "no new frames") &&
								cn0 == cn1 && loC >= 1 && (int64(arg) < loC-2 || int64(arg) > hiC) {
								atomic.AddInt64(&staleRefusals, 1)
							}
						}
						if fr != nil && derr == nil {
							last = fr.Status.FrameCount
						}
						if derr != nil || fr == nil {
							atomic.AddInt64(&errSnaps, 1)
						} else {
							v := int64(fr.Pix[1][1])
							uniform := true
							for _, row := range fr.Pix {
								for _, p := range row {
									if int64(p) != v {
										uniform = false
									}
								}
							}
							switch {
							case !uniform:
								atomic.AddInt64(&torn, 1)
							case v == 0:
								atomic.AddInt64(&blank, 1)
							case v < lo || v > hi:
								atomic.AddInt64(&outOfRange, 1)
								if atomic.AddInt64(&shown, 1) <= 3 {
									fmt.Fprintf(os.Stderr, "outofrange v=%d lo=%d hi=%d\n", v, lo, hi)
								}
							default:
								atomic.AddInt64(&okSnaps, 1)
							}
						}
						if i%7 == q {
							s.TakeTestRecording()
						}
						if i%5 == 0 {
							s.CameraInfo()
							atomic.AddInt64(&infoCalls, 1)
						}
						time.Sleep(time.Duration(50+q*30) * time.Microsecond)
					}
				}(q)
			}
			// two connections one after the other (reconnect), frames numbered consecutively
			conns := ""
			k := int64(0)
			for c := 0; c < 2; c++ {
				server, client := net.Pipe()
				done := make(chan error, 1)
				atomic.StoreInt64(&connSent, 0)
				atomic.StoreInt64(&connStarted, 0)
				atomic.AddInt64(&connNo, 1)
				vResetLogVars()
				go func() {
					defer func() {
						if e := recover(); e != nil {
							done <- fmt.Errorf("panic: %v", e)
						}
					}()
					done <- handleConn(server, conf)
				}()
				hdr, _ := yaml.Marshal(map[string]interface{}{"ResX": resx, "ResY": resy, "FrameSize": resx * resy * 2,
					"Model": "boson", "Brand": "flir", "FPS": 9, "CameraSerial": 1, "Firmware": "1.0"})
				client.Write(append(hdr, '\n'))
				for i := 0; i < nframes/2; i++ {
					k++
					raw := make([]byte, resx*resy*2)
					for j := 0; j < resx*resy; j++ {
						binary.LittleEndian.PutUint16(raw[2*j:], uint16(k))
					}
					atomic.StoreInt64(&started, k)
					atomic.StoreInt64(&connStarted, int64(i+1))
					client.SetWriteDeadline(time.Now().Add(5 * time.Second))
					if _, err := client.Write(raw); err != nil {
						break
					}
					atomic.StoreInt64(&sent, k)
					atomic.StoreInt64(&connSent, int64(i+1))
				}
				client.Close()
				select {
				case err := <-done:
					if err == io.EOF {
						conns += " eof"
					} else {
						conns += " error"
					}
				case <-time.After(20 * time.Second):
					conns += " hang"
				}
			}
			close(stop)
			// a requester stuck in a service call (or a frame loop that never returns) must not hang the check
			waited := make(chan struct{})
			go func() { wg.Wait(); close(waited) }()
			select {
			case <-waited:
			case <-time.After(20 * time.Second):
				fmt.Fprintf(w, "< conn%s\n", conns)
				fmt.Fprintln(w, "< stalled service-request-never-returned")
				w.Flush()
				os.Exit(0)
			}
			processed := int64(0)
			if processor != nil {
				processed = int64(processor.CurrentFrame)
			}
			fmt.Fprintf(w, "< conn%s\n", conns)
			fmt.Fprintf(w, "< frames sent=%d lastconnprocessed=%d\n", k, processed)
			fmt.Fprintf(w, "< snap whole=%d torn=%d outofrange=%d blank=%d none=%d info=%d\n", okSnaps, torn, outOfRange, blank, errSnaps, infoCalls)
			fmt.Fprintf(w, "< poll requests=%d stalerefusals=%d\n", polls, staleRefusals)
			for _, r := range readRaces(seen) {
				fmt.Fprintf(w, "< race %s\n", r)
			}
		}
	}
}
