//go:build verif

package main

// Stream e2e: config.toml text + socket bytes → the real ParseConfig + handleConn → files in the
// output directory, decoded with the standard CPTV reader.

import (
	"bufio"
	"encoding/binary"
	"encoding/hex"
	"fmt"
	"io"
	"log"
	"math"
	"net"
	"os"
	"path/filepath"
	"runtime"
	"runtime/debug"
	"sort"
	"strings"
	"sync/atomic"
	"syscall"
	"time"

	goconfig "github.com/TheCacophonyProject/go-config"
	cptv "github.com/TheCacophonyProject/go-cptv"
	"github.com/TheCacophonyProject/lepton3"
	"gopkg.in/yaml.v1"

	"github.com/TheCacophonyProject/thermal-recorder/motion"
)

func init() { verifStreams["e2e"] = verifStream{gen: genE2E, run: runE2E} }

func runE2E(in *bufio.Scanner, w *bufio.Writer) {
	log.SetOutput(vLogTap{})
	work := os.Getenv("VERIF_WORKDIR")
	if work == "" {
		work = os.TempDir()
	}
	var client net.Conn
	var done chan error
	var out string
	caseNo := 0
	var curConf *Config
	valid := uint32(0) // valid frames announced by the generator so far (this connection)
	var stale *motion.MotionProcessor
	windowInitially, windowOpenNow := true, true
	active := false
	for in.Scan() {
		line := in.Text()
		fmt.Fprintln(w, ">", line)
		f := strings.Fields(line)
		if len(f) == 0 {
			continue
		}
		switch f[0] {
		case "case":
			caseNo++
			active = false
			valid = 0
			dir := filepath.Join(work, fmt.Sprintf("e2e_%d", caseNo))
			os.RemoveAll(dir)
			out = filepath.Join(dir, "out")
			os.MkdirAll(out, 0755)
			tomlHex := vKv(f, "toml")
			toml, _ := hex.DecodeString(tomlHex)
			text := strings.ReplaceAll(string(toml), "@OUT@", out)
			if strings.Contains(text, "@FREE-") {
				// the free space of the output file system, in the unit of min-disk-space-mb: 2 % below / above it
				var fs syscall.Statfs_t
				syscall.Statfs(out, &fs)
				free := fs.Bavail * uint64(fs.Bsize) / 1024 / 1024
				text = strings.ReplaceAll(text, "@FREE-BELOW@", fmt.Sprint(free-free/50))
				text = strings.ReplaceAll(text, "@FREE-ABOVE@", fmt.Sprint(free+free/50+1))
			}
			os.WriteFile(filepath.Join(dir, "config.toml"), []byte(text), 0644)
			conf, err := ParseConfig(dir)
			if err != nil {
				fmt.Fprintln(w, "< config error")
				continue
			}
			fmt.Fprintln(w, "< config ok")
			// injected clock for the recording window
			windowInitially = vKv(f, "window") == "1"
			windowOpenNow = windowInitially
			if vKv(f, "windowset") == "2" {
				// a window relative to sunset / sunrise: the clock shows solar midnight (open) or solar noon (closed) at the
				// longitude the window is computed for (the default location when latitude or longitude is not configured)
				lat, lon := float64(conf.Location.Latitude), float64(conf.Location.Longitude)
				if lat == 0 || lon == 0 {
					lon = float64(goconfig.DefaultWindowLocation().Longitude)
				}
				noon := time.Date(2021, 3, 4, 12, 0, 0, 0, time.UTC).Add(-time.Duration(lon / 15 * float64(time.Hour)))
				conf.Recorder.Window.Now = func() time.Time {
					if windowOpenNow {
						return noon.Add(12 * time.Hour)
					}
					return noon
				}
			} else if !conf.Recorder.Window.NoWindow {
				conf.Recorder.Window.Now = func() time.Time {
					if windowOpenNow {
						return time.Date(2021, 3, 4, 10, 50, 0, 0, time.UTC)
					}
					return time.Date(2021, 3, 4, 12, 30, 0, 0, time.UTC)
				}
			}
			processor = nil
			stale = nil
			headerInfo = nil
			vResetLogVars()
			curConf = conf
			client, done = vStartConn(conf)
			active = true
		case "n": // the camera daemon reconnects: same process, same Config, a new handleConn (as runMain's loop does)
			if !active {
				continue
			}
			client.Close()
			vReportConn(w, done)
			valid = 0
			headerInfo = nil
			windowOpenNow = windowInitially
			stale = processor // the previous connection's processor stays in the package variable until the new one is built
			client, done = vStartConn(curConf)
		case "b": // b <valid frames completed by the end of this segment> <hex>
			if !active {
				continue
			}
			data, _ := hex.DecodeString(f[2])
			client.SetWriteDeadline(time.Now().Add(2 * time.Second))
			if _, err := client.Write(data); err != nil {
				// the daemon side stopped reading (it returned or panicked): report once, skip the rest
				fmt.Fprintln(w, "< write-error")
				client.Close()
				select {
				case err := <-done:
					if err != nil && strings.HasPrefix(err.Error(), "panic") {
						fmt.Fprintln(os.Stderr, "handleConn:", err)
						fmt.Fprintln(w, "< conn panic")
					} else {
						fmt.Fprintln(w, "< conn error")
					}
				case <-time.After(5 * time.Second):
					fmt.Fprintln(w, "< conn hang")
				}
				active = false
				continue
			}
			valid = uint32(vAtoi(f[1]))
		case "t": // test-recording request once everything sent so far has been processed
			if !active {
				continue
			}
			// wait until the frame loop has processed everything sent so far and is blocked reading the socket
			vWaitQuiescent(func() bool { return processor != nil && processor != stale && processor.CurrentFrame >= valid })
			if err := newSnapshotRecording(); err != nil {
				fmt.Fprintln(w, "< testreq error")
			}
		case "win": // the clock passes a boundary of the recording window once everything sent so far has been processed
			if !active {
				continue
			}
			vWaitQuiescent(func() bool { return processor != nil && processor != stale && processor.CurrentFrame >= valid })
			windowOpenNow = f[1] == "1"
		case "end":
			if !active {
				continue
			}
			client.Close()
			vReportConn(w, done)
			active = false
			vDumpDir(w, out, "main")
			vDumpDir(w, filepath.Join(out, "constant-recordings"), "const")
		}
	}
}

// vWaitQuiescent polls until cond holds and the goroutine running handleConn is parked in the pipe read
// (so no frame is being processed): the request that follows takes effect exactly at the next frame.
func vWaitQuiescent(cond func() bool) {
	buf := make([]byte, 1<<20)
	for i := 0; i < 20000; i++ {
		if cond() {
			n := runtime.Stack(buf, true)
			for _, g := range strings.Split(string(buf[:n]), "\n\n") {
				if strings.Contains(g, "main.handleConn(") && strings.Contains(g, "net.(*pipe).read") {
					return
				}
			}
		}
		time.Sleep(200 * time.Microsecond)
	}
}

func vStartConn(conf *Config) (net.Conn, chan error) {
	server, client := net.Pipe()
	done := make(chan error, 1)
	go func() {
		defer func() {
			if e := recover(); e != nil {
				done <- fmt.Errorf("panic: %v\n%s", e, debug.Stack())
			}
		}()
		done <- handleConn(server, conf)
	}()
	return client, done
}

// vReportConn waits for handleConn to return and reports how the connection ended and what camera it saw
func vReportConn(w *bufio.Writer, done chan error) {
	select {
	case err := <-done:
		switch {
		case headerInfo == nil:
			// the connection ended before a complete camera header: must be an error, never a partial description
			fmt.Fprintf(w, "< conn header-error %v\n", err != nil)
		case err == io.EOF:
			fmt.Fprintln(w, "< conn eof")
		case err == io.ErrUnexpectedEOF:
			fmt.Fprintln(w, "< conn truncated")
		case err != nil && strings.HasPrefix(err.Error(), "panic"):
			fmt.Fprintln(os.Stderr, "handleConn:", err)
			fmt.Fprintln(w, "< conn panic")
		default:
			fmt.Fprintln(w, "< conn error")
		}
	case <-time.After(30 * time.Second):
		fmt.Fprintln(w, "< conn hang")
	}
	// how often the daemon reported a bad frame on this connection (log line + event + camera restart request)
	fmt.Fprintf(w, "< badreports %d\n", atomic.SwapInt64(&vBadReports, 0))
	if headerInfo != nil {
		fmt.Fprintf(w, "< header resx=%d resy=%d fps=%d framesize=%d brand=%s model=%s serial=%d firmware=%s\n",
			headerInfo.ResX(), headerInfo.ResY(), headerInfo.FPS(), headerInfo.FrameSize(),
			hex.EncodeToString([]byte(headerInfo.Brand())), hex.EncodeToString([]byte(headerInfo.Model())),
			headerInfo.CameraSerial(), hex.EncodeToString([]byte(headerInfo.Firmware())))
	} else {
		fmt.Fprintln(w, "< header none")
	}
}

func f32bits(x float32) uint32 { return math.Float32bits(x) }

var vBadReports int64

// vLogTap counts the daemon's "bad frame" log lines; everything else is dropped
type vLogTap struct{}

func (vLogTap) Write(p []byte) (int, error) {
	if strings.Contains(string(p), "bad frame") {
		atomic.AddInt64(&vBadReports, 1)
	}
	return len(p), nil
}

// vDumpSkip: names that were in the directory before the daemon started (stream daemon), reported separately
var vDumpSkip map[string]bool

func vDumpDir(w *bufio.Writer, dir, label string) {
	ents, _ := os.ReadDir(dir)
	var names []string
	temps := 0
	for _, e := range ents {
		if e.IsDir() || vDumpSkip[e.Name()] {
			continue
		}
		if strings.HasSuffix(e.Name(), ".cptv") {
			names = append(names, e.Name())
		} else {
			temps++
		}
	}
	sort.Strings(names)
	fmt.Fprintf(w, "< dir %s finished=%d unfinished=%d\n", label, len(names), temps)
	for k, n := range names {
		fr, err := cptv.NewFileReader(filepath.Join(dir, n))
		if err != nil {
			fmt.Fprintf(w, "< file %s %d undecodable\n", label, k)
			continue
		}
		fmt.Fprintf(w, "< file %s %d device=%s id=%d serial=%d firmware=%s brand=%s model=%s fps=%d preview=%d lat=%d lon=%d alt=%d acc=%d resx=%d resy=%d hasbg=%v nframes=%d motion=%s\n",
			label, k, hex.EncodeToString([]byte(fr.DeviceName())), fr.DeviceID(), fr.SerialNumber(),
			hex.EncodeToString([]byte(fr.FirmwareVersion())), hex.EncodeToString([]byte(fr.BrandName())),
			hex.EncodeToString([]byte(fr.ModelName())), fr.FPS(), fr.PreviewSecs(),
			f32bits(fr.Latitude()), f32bits(fr.Longitude()), f32bits(fr.Altitude()), f32bits(fr.Accuracy()),
			fr.ResX(), fr.ResY(), fr.HasBackgroundFrame(), fr.NumFrames(), hex.EncodeToString([]byte(fr.MotionConfig())))
		out := fr.EmptyFrame()
		i := 0
		for {
			err := fr.ReadFrame(out)
			if err == io.EOF {
				break
			}
			if err != nil {
				fmt.Fprintf(w, "< fr %s %d %d decode-error\n", label, k, i)
				break
			}
			bg := 0
			if out.Status.BackgroundFrame {
				bg = 1
			}
			fmt.Fprintf(w, "< fr %s %d %d bg=%d ton=%d lffc=%d t=%d tl=%d pix=%s\n", label, k, i, bg,
				out.Status.TimeOn/time.Millisecond, out.Status.LastFFCTime/time.Millisecond,
				f32bits(float32(out.Status.TempC)), f32bits(float32(out.Status.LastFFCTempC)), hexOfPix(out.Pix))
			i++
		}
		fr.Close()
	}
}

func hexOfPix(pix [][]uint16) string {
	const hexd = "0123456789abcdef"
	var sb strings.Builder
	for _, row := range pix {
		for _, v := range row {
			sb.WriteByte(hexd[v>>12&15])
			sb.WriteByte(hexd[v>>8&15])
			sb.WriteByte(hexd[v>>4&15])
			sb.WriteByte(hexd[v&15])
		}
	}
	return sb.String()
}

// ---------------------------------------------------------------------------------------

type e2eCfg struct {
	min, max, preview, constOn, diskOk, window, windowSet, power        int
	dyn, tmin, tmax, thresh, delta, count, gap, one, trig, warmer, edge int
	throttle, bucketSecs                                                int
	lepton                                                              int
	motionDefaults                                                      int
	w, h, fps                                                           int
	devID                                                               int
	devName                                                             string
	lat, lon, alt, acc                                                  float32
	locMode, diskNear                                                   int
	relMode, flick                                                      int
	tickBad                                                             int // a bad frame exactly on the frame the periodic frame-count log line is printed for
	serial                                                              int
	firmware                                                            string
	model                                                               string
	brand                                                               string
	unknownCam                                                          bool
}

func b2s(x int) string {
	if x != 0 {
		return "true"
	}
	return "false"
}

func (c e2eCfg) toml() string {
	// min-disk-space-mb: 0 / far beyond any disk, or measured at run time just below / just above the free space
	disk := "0"
	if c.diskOk == 0 {
		disk = "4000000000"
	}
	if c.diskNear == 1 {
		disk = "@FREE-BELOW@"
		if c.diskOk == 0 {
			disk = "@FREE-ABOVE@"
		}
	}
	// [location]: complete, absent, or latitude only (what is not configured is zero in the file header)
	loc := fmt.Sprintf("[location]\nlatitude = %v\nlongitude = %v\naltitude = %v\naccuracy = %v\n", c.lat, c.lon, c.alt, c.acc)
	switch c.locMode {
	case 1:
		loc = ""
	case 2:
		loc = fmt.Sprintf("[location]\nlatitude = %v\n", c.lat)
	}
	win := "start-recording = \"12:00\"\nstop-recording = \"12:00\"\n"
	if c.windowSet == 2 {
		// relative to sunset / sunrise; identical strings are an ordinary night window here (only identical ABSOLUTE times mean "no window")
		win = []string{"start-recording = \"30m\"\nstop-recording = \"30m\"\n", "start-recording = \"-30m\"\nstop-recording = \"+30m\"\n",
			"start-recording = \"0s\"\nstop-recording = \"0s\"\n"}[c.relMode]
	} else if c.windowSet == 1 {
		win = "start-recording = \"10:00\"\nstop-recording = \"11:00\"\n"
		// the power window (when the camera is switched on) is a different pair of settings and wider
		// than the recording window: 12:30, the "closed" clock, is inside it
		switch c.power {
		case 1:
			win += "power-on = \"09:00\"\npower-off = \"13:00\"\n"
		case 2:
			win += "power-on = \"12:00\"\npower-off = \"10:45\"\n"
		}
	}
	motion := ""
	if c.motionDefaults == 0 {
		motion = fmt.Sprintf("[thermal-motion]\ndynamic-threshold = %s\ntemp-thresh-min = %d\ntemp-thresh-max = %d\ntemp-thresh = %d\ndelta-thresh = %d\ncount-thresh = %d\nframe-compare-gap = %d\nuse-one-diff-only = %s\ntrigger-frames = %d\nwarmer-only = %s\nedge-pixels = %d\nverbose = %s\n",
			b2s(c.dyn), c.tmin, c.tmax, c.thresh, c.delta, c.count, c.gap, b2s(c.one), c.trig, b2s(c.warmer), c.edge, b2s(c.devID%2))
	}
	return fmt.Sprintf(`[device]
id = %d
name = "%s"
%s[thermal-recorder]
output-dir = "@OUT@"
min-secs = %d
max-secs = %d
preview-secs = %d
min-disk-space-mb = %s
constant-recorder = %s
%s[thermal-throttler]
activate = %s
bucket-size = "%ds"
min-refill = "100h"
[windows]
%s`, c.devID, c.devName, loc, c.min, c.max, c.preview, disk, b2s(c.constOn),
		motion, b2s(c.throttle), c.bucketSecs, win)
}

func (c e2eCfg) caseLine(id int) string {
	return fmt.Sprintf("case %d e2e min=%d max=%d preview=%d const=%d disk=%d window=%d windowset=%d dyn=%d tmin=%d tmax=%d thresh=%d delta=%d count=%d gap=%d one=%d trig=%d warmer=%d edge=%d throttle=%d bucketsecs=%d motiondefaults=%d verbose=%d devid=%d devname=%s lat=%d lon=%d alt=%d acc=%d toml=%s",
		id, c.min, c.max, c.preview, c.constOn, c.diskOk, c.window, c.windowSet, c.dyn, c.tmin, c.tmax, c.thresh, c.delta, c.count, c.gap,
		c.one, c.trig, c.warmer, c.edge, c.throttle, c.bucketSecs, c.motionDefaults, c.devID%2, c.devID, hex.EncodeToString([]byte(c.devName)),
		f32bits(c.lat), f32bits(c.lon), f32bits(c.alt), f32bits(c.acc), hex.EncodeToString([]byte(c.toml())))
}

func genE2E(r *vRng, tier string, w *bufio.Writer) {
	cases := 24
	if tier == "thorough" {
		cases = 240
	}
	for id := 0; id < cases; id++ {
		c := e2eCfg{fps: r.pick(1, 2, 3, 9), preview: r.pick(0, 1, 1, 2), trig: r.pick(0, 1, 2, 3),
			constOn: r.pick(0, 0, 1), diskOk: r.pick(1, 1, 1, 1, 0), windowSet: r.pick(0, 1), window: r.pick(1, 1, 1, 0),
			dyn: r.pick(0, 0, 1), thresh: r.pick(0, 1000, 2900), delta: r.pick(20, 50), count: r.pick(1, 1, 2),
			gap: r.pick(1, 2, 3), one: r.pick(0, 1), warmer: r.pick(0, 1), throttle: r.pick(0, 0, 1), bucketSecs: r.pick(1, 2, 3, 6),
			devID: r.pick(0, 1, 4242), devName: []string{"dev-x", "cacophonator-7", "a"}[r.intn(3)],
			lat: []float32{-43.5, 0, 12.25}[r.intn(3)], lon: []float32{172.5, 0, -70.125}[r.intn(3)],
			alt: []float32{0, 103.5}[r.intn(2)], acc: []float32{0, 5.5}[r.intn(2)],
			serial: r.pick(0, 1234, 99999, 4294967301), firmware: []string{"1.2.3", "3.3.26", "v9"}[r.intn(3)]}
		c.min = r.pick(0, 1, 2)
		c.max = c.min + r.pick(0, 1, 2)
		c.diskNear = r.pick(0, 1)
		switch c.locMode = r.pick(0, 0, 1, 2); c.locMode {
		case 1:
			c.lat, c.lon, c.alt, c.acc = 0, 0, 0, 0
		case 2:
			c.lon, c.alt, c.acc = 0, 0, 0
		}
		if c.preview*c.fps+c.trig == 0 {
			c.trig = 1
		}
		if id%12 == 5 {
			// max-secs below min-secs: the daemon must refuse the configuration
			c.min = r.pick(1, 2, 5)
			c.max = c.min - 1
		}
		if c.windowSet == 1 && r.chance(35) {
			c.windowSet, c.relMode = 2, r.pick(0, 1, 2)
		}
		if c.windowSet == 0 {
			c.window = 1
		} else {
			c.window = r.pick(1, 0)
			c.power = r.pick(0, 1, 2)
		}
		if c.throttle == 1 && c.min+c.preview == 0 {
			c.min, c.max = 1, c.max+1 // refill rate (min+preview)*fps/min-refill must be > 0
		}
		if id%6 == 4 {
			// throttled, motion on every frame (flickering warm pixels), short recordings back to back: the bucket runs
			// through every level, also the band between min-secs*fps and (min-secs+preview-secs)*fps
			c.throttle, c.flick, c.dyn, c.windowSet, c.window, c.diskOk, c.constOn = 1, 1, 0, 0, 1, 1, 0
			c.preview, c.min, c.max, c.bucketSecs = r.pick(1, 2), 1, r.pick(1, 2), r.pick(3, 6)
			c.thresh, c.fps = 1000, r.pick(2, 3)
		}
		directedCooling := id%6 == 2
		if directedCooling {
			// dynamic threshold on a cooling scene, motion from before the recording window opens until after it
			c.dyn, c.windowSet, c.window, c.throttle, c.diskOk, c.constOn = 1, 1, 0, 0, 1, 0
			c.power = r.pick(0, 1)
			c.min, c.max, c.trig = r.pick(1, 2), 3, r.pick(0, 1, 2, 3)
			if c.preview*c.fps+c.trig == 0 {
				c.trig = 1 // a pre-trigger ring of capacity 0 is outside every property's quantifier (the daemon panics on the first frame)
			}
		}
		if c.dyn == 1 {
			switch r.intn(4) {
			case 1:
				c.tmin = 3000
			case 2:
				c.tmax = 4000
			case 3:
				c.tmin, c.tmax = 3000, 4000
			}
		}
		// one or two camera connections in the same process; with motionDefaults the [thermal-motion] section is
		// left out of config.toml and the camera model of each connection selects the defaults
		c.motionDefaults = 0
		nconn := 1
		if r.chance(35) && !directedCooling && c.flick == 0 {
			nconn = 2
			if r.chance(60) {
				c.motionDefaults = 1
			}
		}
		if id%24 == 11 && nconn == 1 {
			nconn = 2 // a camera the recorder refuses, then a camera it serves (see below)
		}
		if c.motionDefaults == 1 {
			c.preview, c.min, c.max = r.pick(0, 1), r.pick(0, 1), 1
			if c.throttle == 1 && c.min+c.preview == 0 {
				c.min = 1
			}
			c.fps = 9
		}
		c.edge = r.pick(0, 1, 1, 2)
		fmt.Fprintln(w, c.caseLine(id))
		firstLepton := r.chance(50)
		headerDone := false
		for conn := 0; conn < nconn; conn++ {
			cc := c
			cc.lepton = 0
			cc.w, cc.h = r.pick(6, 8, 10), r.pick(5, 6, 8)
			cc.model = "boson"
			isLepton := (c.motionDefaults == 1 && (conn == 0) == firstLepton) || (c.motionDefaults == 0 && nconn == 1 && id%8 == 5)
			if isLepton {
				cc.lepton = 1
				cc.w, cc.h, cc.fps = 160, 120, 9
				cc.model = []string{"lepton3", "lepton3.5"}[r.intn(2)]
				if c.motionDefaults == 1 {
					cc.model = "lepton3.5"
				}
			}
			if c.motionDefaults == 1 {
				// effective settings = go-config's defaults for this camera model
				cc.dyn, cc.tmin, cc.tmax, cc.count, cc.gap, cc.one, cc.trig, cc.warmer, cc.edge = 1, 0, 0, 3, 45, 1, 2, 1, 1
				cc.thresh, cc.delta = 2900, 50
				if cc.model == "lepton3.5" {
					cc.thresh, cc.delta = 28000, 200
				}
			}
			if conn > 0 {
				fmt.Fprintln(w, "n")
			}
			// (with two connections the refused camera comes FIRST: the next camera and the requests made then must be served)
			if id%24 == 11 && ((nconn == 1) || (conn == 0)) && cc.lepton == 0 {
				cc.unknownCam = true
				switch r.intn(3) {
				case 0:
					cc.brand = "acme"
				case 1:
					cc.model = "lepton2"
				default:
					cc.model = "Boson"
				}
			}
			if conn == 0 && id%4 == 1 && cc.fps <= 3 && cc.lepton == 0 {
				cc.tickBad = 15 * cc.fps
			}
			if !headerDone {
				headerDone = true
			}
			genE2EConn(r, cc, w, conn == nconn-1)
		}
		fmt.Fprintln(w, "end")
	}
}

// genE2EConn emits the socket bytes of one camera connection (header, frames, markers, bad frames, test requests)
func genE2EConn(r *vRng, c e2eCfg, w *bufio.Writer, last bool) {
	fsize := c.w * c.h * 2
	if c.lepton == 1 {
		fsize = lepton3.BytesPerFrame
	}
	brand := "flir"
	if c.brand != "" {
		brand = c.brand
	}
	hdrMap := map[string]interface{}{"ResX": c.w, "ResY": c.h, "FrameSize": fsize, "Model": c.model,
		"Brand": brand, "FPS": c.fps, "CameraSerial": c.serial, "Firmware": c.firmware}
	hdr, _ := yaml.Marshal(hdrMap)
	stream := append([]byte{}, hdr...)
	stream = append(stream, '\n')
	if c.unknownCam {
		// a camera the recorder has no frame parser for: the connection is refused after the header, nothing is recorded
		fmt.Fprintf(w, "b 0 %s\n", hex.EncodeToString(stream))
		return
	}
	type seg struct {
		data  []byte
		valid int
		treq  bool
		win   int // 0: none, 1: window closes here, 2: window opens here
	}
	var segs []seg
	flushW := 0
	flush := func(valid int, treq bool) {
		for len(stream) > 0 {
			n := r.pick(1, 3, 7, 50, fsize, fsize+3, 5000, 100000)
			if n > len(stream) {
				n = len(stream)
			}
			segs = append(segs, seg{data: stream[:n], valid: -1})
			stream = stream[n:]
		}
		if len(segs) > 0 {
			segs[len(segs)-1].valid = valid
			segs[len(segs)-1].treq = treq
			segs[len(segs)-1].win = flushW
		}
		flushW = 0
	}
	emit := func() {
		for _, s := range segs {
			v := 0
			if s.valid >= 0 {
				v = s.valid
			}
			fmt.Fprintf(w, "b %d %s\n", v, hex.EncodeToString(s.data))
			if s.treq {
				fmt.Fprintln(w, "t")
			}
			if s.win > 0 {
				fmt.Fprintf(w, "win %d\n", s.win-1)
			}
		}
	}
	// sometimes the connection dies inside the header: mid-line, exactly at a line boundary, before the blank line, at byte 0
	if last && r.chance(12) {
		hl := len(hdr) + 1
		var at int
		switch r.intn(4) {
		case 0:
			at = r.intn(hl)
		case 1:
			nl := []int{0}
			for i, ch := range hdr {
				if ch == '\n' {
					nl = append(nl, i+1)
				}
			}
			at = nl[r.intn(len(nl))]
		case 2:
			at = hl - 1
		case 3:
			at = 0
		}
		stream = stream[:at]
		flush(0, false)
		emit()
		return
	}
	nItems := r.rng(10, 60)
	if c.lepton == 1 {
		nItems = r.rng(6, 14)
	}
	if c.tickBad > 0 && nItems < c.tickBad+3 {
		nItems = c.tickBad + 3
	}
	frameNo := 0
	base := r.pick(2000, 3000, 3500, 5000)
	if c.motionDefaults == 1 {
		base = 30000
	}
	hot := 0
	winNow := c.window
	cooling := c.dyn == 1 && c.windowSet != 0 && c.lepton == 0 && c.motionDefaults == 0
	validCount := 0
	tonMs := uint32(r.rng(20000, 900000))
	lastFFC := uint32(0)
	if tonMs > 200000 {
		lastFFC = tonMs - 150000
	}
	if c.lepton == 1 && r.chance(25) {
		// just switched on: the clock starts near zero and the power-on FFC (LastFFCTime 0) covers the first ten seconds
		tonMs, lastFFC = uint32(r.pick(0, 111, 1000, 5000, 9500)), 0
	}
	for k := 0; k < nItems || (c.tickBad > 0 && frameNo < c.tickBad+2); k++ {
		x := r.intn(100)
		if cooling && winNow == 0 && k == 6+c.trig && validCount > 0 && len(stream) > 0 {
			winNow = 1
			flushW = 2
			flush(validCount, false)
		}
		switch {
		case x < 5:
			stream = append(stream, "clear"...)
			// sometimes two or three markers in a row (every one must be recognised; nothing but markers and whole frames)
			for r.chance(30) {
				stream = append(stream, "clear"...)
			}
			continue
		case x < 9 && validCount > 0:
			flush(validCount, true)
			continue
		case x < 13 && validCount > 0 && c.windowSet != 0 && len(stream) > 0:
			// the recording window opens / closes while the camera is streaming
			winNow = 1 - winNow
			flushW = 1 + winNow
			flush(validCount, false)
			continue
		}
		bad := x < 14
		frameNo++
		forcedBad := c.tickBad > 0 && frameNo == c.tickBad
		if forcedBad {
			bad = true
		}
		if r.chance(50) {
			hot = 1 - hot
		}
		if c.flick == 1 {
			hot = 1
		}
		if cooling {
			// a scene that cools frame by frame with something warm in view most of the time: the dynamic threshold
			// follows the background down while motion continues
			base -= 12
			if r.chance(85) {
				hot = 1
			}
		}
		tonMs += uint32(r.pick(111, 111, 333, 1000))
		if c.lepton == 1 && r.chance(10) {
			lastFFC = tonMs - uint32(r.pick(0, 500, 9999, 10000))
		}
		raw := make([]byte, fsize)
		off := 0
		put := func(i int, v uint16) {
			if c.lepton == 1 {
				binary.BigEndian.PutUint16(raw[off+2*i:], v)
			} else {
				binary.LittleEndian.PutUint16(raw[off+2*i:], v)
			}
		}
		if c.lepton == 1 {
			off = 640
			be := func(word int, v uint16) { binary.BigEndian.PutUint16(raw[2*word:], v) }
			be(1, uint16(tonMs))
			be(2, uint16(tonMs>>16))
			be(30, uint16(lastFFC))
			be(31, uint16(lastFFC>>16))
			be(24, uint16(27315+r.rng(-500, 4000)))
			be(29, uint16(27315+r.rng(-500, 4000)))
			be(20, uint16(k))
			be(22, uint16(base))
		}
		for i := 0; i < c.w*c.h; i++ {
			put(i, uint16(base+(i%3)))
		}
		if hot == 1 {
			y, xx := c.h/2, c.w/2
			amp, flick := r.pick(1, 30, 400), 0
			if cooling || c.flick == 1 {
				// flickering: every frame differs from the previous ones, so motion persists frame after frame
				amp, flick = 1+399*(k%2), 300*(k%2)
			}
			put(y*c.w+xx, uint16(base+c.delta+amp))
			if c.count > 1 {
				put(y*c.w+xx-1, uint16(base+c.delta+50+flick))
			}
			if c.count > 2 {
				put(y*c.w+xx+1, uint16(base+c.delta+60+flick))
			}
		}
		if bad {
			if r.chance(70) || c.edge == 0 || forcedBad {
				put((c.h/2)*c.w+c.w/2+1, 0)
			} else {
				put(0, 0)
				bad = false
			}
		}
		stream = append(stream, raw...)
		if !bad {
			validCount++
		}
	}
	if last && r.chance(20) && len(stream) > 10 {
		stream = stream[:len(stream)-r.rng(1, 9)]
	}
	flush(validCount, false)
	emit()
}
