//go:build verif

package main

// Correspondence harness injected into package main of cmd/thermal-recorder with
// `go build -tags verif -overlay`.  When VERIF_HARNESS names a stream the binary acts as
//
//	<bin> gen <seed> <tier>   > ops.txt
//	<bin> run                 < ops.txt > real.txt
//
// instead of starting the daemon.  Nothing of this exists in /repo.

import (
	"bufio"
	"fmt"
	"io"
	"log"
	"os"
	"strconv"
	"strings"
)

type verifStream struct {
	gen func(r *vRng, tier string, w *bufio.Writer)
	run func(in *bufio.Scanner, w *bufio.Writer)
}

var verifStreams = map[string]verifStream{}

func init() {
	name := os.Getenv("VERIF_HARNESS")
	if name == "" {
		return
	}
	s, ok := verifStreams[name]
	if !ok || len(os.Args) < 2 {
		fmt.Fprintln(os.Stderr, "verif harness: unknown stream or missing mode:", name)
		os.Exit(2)
	}
	log.SetOutput(io.Discard)
	w := bufio.NewWriterSize(os.Stdout, 1<<20)
	switch os.Args[1] {
	case "gen":
		seed, _ := strconv.ParseUint(os.Args[2], 10, 64)
		tier := "quick"
		if len(os.Args) > 3 {
			tier = os.Args[3]
		}
		s.gen(newVRng(seed), tier, w)
	case "run":
		in := bufio.NewScanner(os.Stdin)
		in.Buffer(make([]byte, 1<<20), 1<<26)
		s.run(in, w)
	}
	w.Flush()
	os.Exit(0)
}

type vRng struct{ s uint64 }

// the state is the generator's own output for the seed: consecutive seeds must not give shifted copies of one sequence
func newVRng(seed uint64) *vRng {
	r := &vRng{seed ^ 0x1234567}
	r.s = r.next() ^ (seed << 32)
	return r
}
func (r *vRng) next() uint64 {
	r.s += 0x9E3779B97F4A7C15
	z := r.s
	z = (z ^ (z >> 30)) * 0xBF58476D1CE4E5B9
	z = (z ^ (z >> 27)) * 0x94D049BB133111EB
	return z ^ (z >> 31)
}
func (r *vRng) intn(n int) int     { return int(r.next() % uint64(n)) }
func (r *vRng) rng(a, b int) int   { return a + r.intn(b-a+1) }
func (r *vRng) chance(p int) bool  { return r.intn(100) < p }
func (r *vRng) pick(xs ...int) int { return xs[r.intn(len(xs))] }

func vAtoi(s string) int { n, _ := strconv.Atoi(s); return n }

func vKv(f []string, k string) string {
	for _, s := range f {
		if strings.HasPrefix(s, k+"=") {
			return s[len(k)+1:]
		}
	}
	return ""
}

func vGuard(w *bufio.Writer, where string, f func()) {
	defer func() {
		if e := recover(); e != nil {
			fmt.Fprintf(w, "< panic %s\n", where)
		}
	}()
	f()
}

type vCam struct{ x, y, fps int }

func (c vCam) ResX() int { return c.x }
func (c vCam) ResY() int { return c.y }
func (c vCam) FPS() int  { return c.fps }

func vOk(err error) string {
	if err == nil {
		return "ok"
	}
	return "err"
}
