//go:build verif && !verif_nologvars

package main

// handleConn multiplies these two package variables by the frame rate on every connection (they only steer a log line);
// the harness runs hundreds of connections in one process and puts them back before each.  If a rewrite of the daemon
// removes the variables, the build is retried with the tag verif_nologvars (tools/checklib.py) and this hook is empty.
func vResetLogVars() { frameLogIntervalFirstMin, frameLogInterval = 15, 60*5 }
