//go:build verif

package main

// Stream daemon: the real runMain — argument parsing, ParseConfig, the D-Bus service on a private bus daemon,
// start-up clean-up, the listen / accept / handleConn loop on a real unix socket — fed with the e2e stream's
// configurations and socket bytes.  One child process per case (the D-Bus name can be owned once per process).
//
//	case <id> daemon <e2e keys…> toml=<hex>     config.toml (@OUT@, @SOCK@ filled in), nothing started yet
//	pre <name>                                  a file left in the output directory by an earlier run
//	start                                       go runMain(); wait for the socket  -> "started" + "ls <names…>" | "start error"
//	second                                      a second camera connection while one is being served -> refused | accepted
//	b / t / n / end                             as in e2e; t goes through the real D-Bus method TakeTestRecording
//	info                                        the service's CameraInfo over D-Bus (after at least one frame)
//	ls                                          which of the pre files are still there

import (
	"bufio"
	"bytes"
	"encoding/hex"
	"fmt"
	"log"
	"net"
	"os"
	"os/exec"
	"path/filepath"
	"runtime"
	"sort"
	"strings"
	"sync/atomic"
	"syscall"
	"time"

	"github.com/godbus/dbus"

	"github.com/TheCacophonyProject/thermal-recorder/motion"
)

func init() { verifStreams["daemon"] = verifStream{gen: genDaemon, run: runDaemon} }

// ---- parent: one child per case

func runDaemon(in *bufio.Scanner, w *bufio.Writer) {
	if os.Getenv("VERIF_DAEMON_CHILD") == "1" {
		runDaemonCase(in, w)
		return
	}
	var cur []string
	flush := func() {
		if len(cur) == 0 {
			return
		}
		cmd := exec.Command(os.Args[0], "run")
		cmd.Env = append(os.Environ(), "VERIF_DAEMON_CHILD=1")
		cmd.Stdin = strings.NewReader(strings.Join(cur, "\n") + "\n")
		var out bytes.Buffer
		cmd.Stdout = &out
		var errb bytes.Buffer
		cmd.Stderr = &errb
		err := cmd.Run()
		w.Write(out.Bytes())
		// ops the child never got to (it died): echo them so the blocks stay aligned
		seen := 0
		for _, l := range strings.Split(out.String(), "\n") {
			if strings.HasPrefix(l, "> ") {
				seen++
			}
		}
		if seen > len(cur) {
			seen = len(cur)
		}
		if err != nil {
			if bytes.Contains(errb.Bytes(), []byte("panic:")) || bytes.Contains(errb.Bytes(), []byte("fatal error:")) {
				fmt.Fprintln(w, "< conn panic")
			} else {
				fmt.Fprintln(w, "< child-died")
			}
			os.Stderr.Write(errb.Bytes())
			for _, l := range cur[seen:] {
				fmt.Fprintln(w, ">", l)
			}
		}
		cur = nil
	}
	for in.Scan() {
		line := in.Text()
		if strings.HasPrefix(line, "case ") {
			flush()
		}
		cur = append(cur, line)
	}
	flush()
}

// ---- child

// the camera daemon's D-Bus service as the recorder sees it (leptondController): the harness owns the name on the
// private bus and counts the camera restarts the recorder asks for — what a bad frame must cause (C13), observed at
// the interface itself rather than in the wording of a log line
type vdLeptond struct{}

var vdRestarts int64

func (vdLeptond) RestartCamera() *dbus.Error        { atomic.AddInt64(&vdRestarts, 1); return nil }
func (vdLeptond) SetAutoFFC(automatic bool) *dbus.Error { return nil }
func (vdLeptond) RunFFC() *dbus.Error               { return nil }

// The daemon serves one camera at a time: it closes (and thereby unlinks) the listening socket once a connection is
// accepted and creates a new one only after handleConn has returned.  So the connection dialled through socket file X is
// over exactly when the path holds a socket file that is not X any more (another inode or a later change time).
var vdSockID string

func vdSockIdentity(sock string) string {
	var st syscall.Stat_t
	if syscall.Stat(sock, &st) != nil {
		return ""
	}
	return fmt.Sprintf("%d/%d.%d", st.Ino, st.Ctim.Sec, st.Ctim.Nsec)
}

func vdConnEnded(sock string) bool {
	id := vdSockIdentity(sock)
	return id != "" && id != vdSockID
}

type vDaemonTap struct{}

func (vDaemonTap) Write(p []byte) (int, error) { return len(p), nil } // nothing is read from the daemon's log

func vdFindBusDaemon() string {
	if p, err := exec.LookPath("dbus-daemon"); err == nil {
		return p
	}
	for _, p := range []string{"/root/miniconda/bin/dbus-daemon", "/usr/bin/dbus-daemon", "/bin/dbus-daemon"} {
		if _, err := os.Stat(p); err == nil {
			return p
		}
	}
	return ""
}

// vdQuiescent: everything sent has been processed and the frame loop is parked in the socket read
func vdQuiescent(cond func() bool) {
	buf := make([]byte, 1<<20)
	for i := 0; i < 20000; i++ {
		if cond() {
			n := runtime.Stack(buf, true)
			for _, g := range strings.Split(string(buf[:n]), "\n\n") {
				if strings.Contains(g, "main.handleConn(") && strings.Contains(g, "[IO wait") {
					return
				}
			}
		}
		time.Sleep(200 * time.Microsecond)
	}
}

func vdDial(sock string) net.Conn {
	for i := 0; i < 2000; i++ {
		id := vdSockIdentity(sock)
		c, err := net.Dial("unix", sock)
		if err == nil {
			vdSockID = id
			return c
		}
		time.Sleep(5 * time.Millisecond)
	}
	return nil
}

func vdList(dir string, only map[string]bool) string {
	ents, _ := os.ReadDir(dir)
	var names []string
	for _, e := range ents {
		if !e.IsDir() && (only == nil || only[e.Name()]) {
			names = append(names, hex.EncodeToString([]byte(e.Name())))
		}
	}
	sort.Strings(names)
	return strings.Join(names, " ")
}

var vdBusProc *exec.Cmd

func runDaemonCase(in *bufio.Scanner, w *bufio.Writer) {
	defer w.Flush()
	// no orphans when the run is killed on a time-out: the harness that started this process is gone when the parent
	// process id changes; take the private bus daemon along
	go func(parent int) {
		for {
			time.Sleep(500 * time.Millisecond)
			if os.Getppid() != parent {
				if vdBusProc != nil && vdBusProc.Process != nil {
					vdBusProc.Process.Kill()
				}
				os.Exit(3)
			}
		}
	}(os.Getppid())
	log.SetOutput(vDaemonTap{})
	tmp, err := os.MkdirTemp("", "vd")
	if err != nil {
		fmt.Fprintln(w, "< harness-error tempdir")
		return
	}
	var busProc *exec.Cmd
	defer func() {
		if busProc != nil {
			busProc.Process.Kill()
			busProc.Wait()
		}
		os.RemoveAll(tmp)
	}()
	work := os.Getenv("VERIF_WORKDIR")
	if work == "" {
		work = tmp
	}
	var dir, out, sock string
	pre := map[string]bool{}
	var client net.Conn
	var stale *motion.MotionProcessor
	valid := uint32(0)
	active := false
	var bus *dbus.Conn
	startErr := make(chan error, 1)

	report := func() {
		ended := false
		for k := 0; k < 6000 && !ended; k++ {
			select {
			case err := <-startErr:
				fmt.Fprintf(w, "< conn daemon-exited %v\n", err != nil)
				k = 6000
			default:
				if vdConnEnded(sock) {
					ended = true
				} else {
					time.Sleep(5 * time.Millisecond)
				}
			}
		}
		switch {
		case !ended:
			fmt.Fprintln(w, "< conn hang")
		case headerInfo == nil:
			fmt.Fprintln(w, "< conn header-error true")
		default:
			fmt.Fprintln(w, "< conn ended")
		}
		fmt.Fprintf(w, "< badreports %d\n", atomic.SwapInt64(&vdRestarts, 0))
		if headerInfo != nil {
			fmt.Fprintf(w, "< header resx=%d resy=%d fps=%d framesize=%d brand=%s model=%s serial=%d firmware=%s\n",
				headerInfo.ResX(), headerInfo.ResY(), headerInfo.FPS(), headerInfo.FrameSize(),
				hex.EncodeToString([]byte(headerInfo.Brand())), hex.EncodeToString([]byte(headerInfo.Model())),
				headerInfo.CameraSerial(), hex.EncodeToString([]byte(headerInfo.Firmware())))
		} else {
			fmt.Fprintln(w, "< header none")
		}
	}

	for in.Scan() {
		line := in.Text()
		fmt.Fprintln(w, ">", line)
		f := strings.Fields(line)
		if len(f) == 0 {
			continue
		}
		switch f[0] {
		case "case":
			dir = filepath.Join(work, "daemon_"+f[1])
			os.RemoveAll(dir)
			out = filepath.Join(dir, "out")
			os.MkdirAll(out, 0755)
			sock = filepath.Join(tmp, "frames.sock")
			toml, _ := hex.DecodeString(vKv(f, "toml"))
			// the same directory spelled in a non-canonical way (a trailing or a doubled slash): start-up clean-up and everything
			// else must behave as for the canonical spelling
			outSpelled := out
			switch vKv(f, "outstyle") {
			case "1":
				outSpelled = out + "/"
			case "2":
				outSpelled = filepath.Dir(out) + "//" + filepath.Base(out)
			}
			text := strings.ReplaceAll(string(toml), "@OUT@", outSpelled)
			text = strings.ReplaceAll(text, "@SOCK@", sock)
			if strings.Contains(text, "@FREE-") {
				var fs syscall.Statfs_t
				syscall.Statfs(out, &fs)
				free := fs.Bavail * uint64(fs.Bsize) / 1024 / 1024
				text = strings.ReplaceAll(text, "@FREE-BELOW@", fmt.Sprint(free-free/50))
				text = strings.ReplaceAll(text, "@FREE-ABOVE@", fmt.Sprint(free+free/50+1))
			}
			os.WriteFile(filepath.Join(dir, "config.toml"), []byte(text), 0644)
		case "pre":
			name, _ := hex.DecodeString(f[1])
			pre[string(name)] = true
			os.WriteFile(filepath.Join(out, string(name)), []byte("left behind by an earlier run"), 0644)
		case "start":
			bd := vdFindBusDaemon()
			if bd == "" {
				fmt.Fprintln(w, "< harness-error no-dbus-daemon")
				return
			}
			busSock := filepath.Join(tmp, "bus.sock")
			conf := `<!DOCTYPE busconfig PUBLIC "-//freedesktop//DTD D-Bus Bus Configuration 1.0//EN" "http://www.freedesktop.org/standards/dbus/1.0/busconfig.dtd">
<busconfig><type>system</type><listen>unix:path=` + busSock + `</listen><auth>EXTERNAL</auth>
<policy context="default"><allow send_destination="*" eavesdrop="true"/><allow eavesdrop="true"/><allow own="*"/><allow user="*"/></policy>
</busconfig>`
			os.WriteFile(filepath.Join(tmp, "bus.conf"), []byte(conf), 0644)
			busProc = exec.Command(bd, "--config-file="+filepath.Join(tmp, "bus.conf"), "--nofork")
			vdBusProc = busProc
			if err := busProc.Start(); err != nil {
				busProc = nil
				fmt.Fprintln(w, "< harness-error dbus-daemon", err)
				return
			}
			for i := 0; i < 1000; i++ {
				if c, err := net.Dial("unix", busSock); err == nil {
					c.Close()
					break
				}
				time.Sleep(5 * time.Millisecond)
			}
			// the harness's own connection to the bus: the camera daemon's service (fake) and, later, calls of the recorder's methods
			if c, err := dbus.Dial("unix:path=" + busSock); err == nil {
				if c.Auth(nil) == nil && c.Hello() == nil {
					bus = c
					if r, err := c.RequestName("org.cacophony.leptond", dbus.NameFlagDoNotQueue); err == nil && r == dbus.RequestNameReplyPrimaryOwner {
						c.Export(vdLeptond{}, "/org/cacophony/leptond", "org.cacophony.leptond")
					}
				}
			}
			os.Setenv("DBUS_SYSTEM_BUS_ADDRESS", busSock) // godbus v4.1.0 prefixes "unix:path=" itself
			os.Args = []string{"thermal-recorder", "-c", dir}
			go func() { startErr <- runMain() }()
			started := false
		wait:
			for i := 0; i < 6000; i++ {
				select {
				case e := <-startErr:
					fmt.Fprintln(os.Stderr, "runMain returned:", e)
					break wait
				default:
					if _, err := os.Stat(sock); err == nil {
						started = true
						break wait
					}
					time.Sleep(5 * time.Millisecond)
				}
			}
			if !started {
				fmt.Fprintln(w, "< start error")
				w.Flush()
				continue
			}
			fmt.Fprintln(w, "< started")
			fmt.Fprintln(w, strings.TrimSpace("< ls "+vdList(out, nil)))
			vDumpSkip = pre
			if client = vdDial(sock); client == nil {
				fmt.Fprintln(w, "< harness-error dial")
				return
			}
			active = true
		case "second":
			if !active {
				continue
			}
			vdQuiescent(func() bool { return true })
			c, err := net.DialTimeout("unix", sock, time.Second)
			if err != nil {
				fmt.Fprintln(w, "< second refused")
			} else {
				// connected: is anybody serving it?  (a served connection gets closed on the garbage header)
				c.Write([]byte("garbage\n\n"))
				c.SetReadDeadline(time.Now().Add(300 * time.Millisecond))
				_, rerr := c.Read(make([]byte, 1))
				if ne, ok := rerr.(net.Error); ok && ne.Timeout() {
					fmt.Fprintln(w, "< second unserved")
				} else {
					fmt.Fprintln(w, "< second accepted")
				}
				c.Close()
			}
		case "b":
			if !active {
				continue
			}
			data, _ := hex.DecodeString(f[2])
			client.SetWriteDeadline(time.Now().Add(5 * time.Second))
			if _, err := client.Write(data); err != nil {
				fmt.Fprintln(w, "< write-error")
				client.Close()
				ok := false
				for k := 0; k < 1000 && !ok; k++ {
					if ok = vdConnEnded(sock); !ok {
						time.Sleep(5 * time.Millisecond)
					}
				}
				if ok {
					fmt.Fprintln(w, "< conn ended")
				} else {
					fmt.Fprintln(w, "< conn hang")
				}
				active = false
				continue
			}
			valid = uint32(vAtoi(f[1]))
		case "t":
			if !active {
				continue
			}
			vdQuiescent(func() bool { return processor != nil && processor != stale && processor.CurrentFrame >= valid })
			if bus == nil {
				fmt.Fprintln(w, "< testreq no-bus")
			} else if err := bus.Object(dbusName, dbusPath).Call(dbusName+".TakeTestRecording", 0).Store(); err != nil {
				fmt.Fprintln(w, "< testreq error")
			}
		case "info": // what the service tells other programs about the camera (D-Bus method CameraInfo)
			if !active || bus == nil {
				continue
			}
			vdQuiescent(func() bool { return processor != nil && processor != stale && processor.CurrentFrame >= valid })
			var m map[string]dbus.Variant
			if err := bus.Object(dbusName, dbusPath).Call(dbusName+".CameraInfo", 0).Store(&m); err != nil {
				fmt.Fprintln(w, "< info none")
			} else {
				g := func(k string) interface{} { return m[k].Value() }
				fmt.Fprintf(w, "< info resx=%v resy=%v fps=%v framesize=%v brand=%s model=%s serial=%v firmware=%s\n",
					g("ResX"), g("ResY"), g("FPS"), g("FrameSize"), hex.EncodeToString([]byte(fmt.Sprint(g("Brand")))),
					hex.EncodeToString([]byte(fmt.Sprint(g("Model")))), g("CameraSerial"), hex.EncodeToString([]byte(fmt.Sprint(g("Firmware")))))
			}
		case "n":
			if !active {
				continue
			}
			client.Close()
			report()
			valid = 0
			headerInfo = nil
			stale = processor
			if client = vdDial(sock); client == nil {
				fmt.Fprintln(w, "< harness-error dial")
				return
			}
		case "end":
			if !active {
				continue
			}
			client.Close()
			report()
			active = false
			vDumpDir(w, out, "main")
			vDumpDir(w, filepath.Join(out, "constant-recordings"), "const")
		case "ls":
			fmt.Fprintln(w, strings.TrimSpace("< ls "+vdList(out, pre)))
		}
		w.Flush()
	}
}

// ---- generator: the e2e stream's cases that need no injected clock, through the real daemon

func genDaemon(r *vRng, tier string, w *bufio.Writer) {
	var buf bytes.Buffer
	bw := bufio.NewWriter(&buf)
	genE2E(r, tier, bw)
	bw.Flush()
	names := []string{"20200101.010101.000.cptv", "20200102.020202.000.cptv.temp", "20200102.020202.000.cptv.temp.tmp",
		"notes.txt", "x.cptv.temporary", "cptv.temp", ".cptv.temp", "a.cptv.tmp", "20200103.030303.000.cptv", "b.CPTV.TEMP", "c.cptv.tem"}
	skip := false
	refused := false
	sc := bufio.NewScanner(&buf)
	sc.Buffer(make([]byte, 1<<20), 1<<28)
	for sc.Scan() {
		line := sc.Text()
		f := strings.Fields(line)
		if len(f) > 0 && f[0] == "case" {
			skip = vKv(f, "windowset") != "0"
			if skip {
				continue
			}
			toml, _ := hex.DecodeString(vKv(f, "toml"))
			toml = append(toml, []byte("\n[lepton]\nframe-output = \"@SOCK@\"\n")...)
			for i := range f {
				if strings.HasPrefix(f[i], "toml=") {
					f[i] = "toml=" + hex.EncodeToString(toml)
				}
			}
			f[2] = "daemon"
			refused = false
			fmt.Fprintln(w, strings.Join(f, " ")+fmt.Sprintf(" outstyle=%d", r.pick(0, 0, 1, 2)))
			for _, n := range names {
				if r.chance(40) {
					fmt.Fprintln(w, "pre", hex.EncodeToString([]byte(n)))
				}
			}
			fmt.Fprintln(w, "start")
			continue
		}
		if skip || len(f) == 0 || f[0] == "win" {
			continue
		}
		fmt.Fprintln(w, line)
		if f[0] == "n" {
			refused = false
		}
		if f[0] == "b" {
			// a camera the recorder has no parser for: the daemon ends that connection itself after the header and is
			// free to accept the next one, so "a second connection while one is being served" cannot be asked any more
			if data, err := hex.DecodeString(f[2]); err == nil {
				txt := string(data)
				if strings.Contains(txt, "Brand: acme") || strings.Contains(txt, "Model: lepton2") || strings.Contains(txt, "Model: Boson") {
					refused = true
				}
			}
		}
		if f[0] == "b" && !refused && r.chance(10) {
			fmt.Fprintln(w, "second")
		}
		if f[0] == "b" && !refused && f[1] != "0" && r.chance(10) {
			fmt.Fprintln(w, "info")
		}
		if f[0] == "end" {
			fmt.Fprintln(w, "ls")
		}
	}
}
