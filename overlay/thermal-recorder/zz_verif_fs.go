//go:build verif

package main

// Stream fs: the real CPTVFileRecorder (motion + test recorders sharing the output
// directory, the continuous recorder in its sub-directory), start-up clean-up and the disk
// gate.  The binary is run under strace; a marker stat before every op lets the check script
// attribute the file-system calls to ops.

import (
	"encoding/hex"
	"bufio"
	"fmt"
	"io"
	"os"
	"path/filepath"
	"sort"
	"strings"
	"syscall"
	"time"

	goconfig "github.com/TheCacophonyProject/go-config"
	cptv "github.com/TheCacophonyProject/go-cptv"
	"github.com/TheCacophonyProject/go-cptv/cptvframe"
)

func init() { verifStreams["fs"] = verifStream{gen: genFS, run: runFS} }

func vRole(name string) string {
	switch {
	case strings.HasSuffix(name, ".cptv.temp.tmp"):
		return "S"
	case strings.HasSuffix(name, ".cptv.temp"):
		return "T"
	case strings.HasSuffix(name, ".cptv"):
		return "F"
	}
	return "other:" + name
}

func runFS(in *bufio.Scanner, w *bufio.Writer) {
	work := os.Getenv("VERIF_WORKDIR")
	if work == "" {
		work = os.TempDir()
	}
	cam := vCam{8, 6, 9}
	var dir string
	recs := map[string]*CPTVFileRecorder{}
	nframe := uint16(0)
	caseNo := 0
	opNo := 0
	// stamp -> index of the recording in its directory, in order of the successful starts
	stampIdx := map[string]int{}
	nextIdx := map[string]int{}
	register := func(r *CPTVFileRecorder) {
		if r.writer == nil {
			return
		}
		name := r.writer.Name()
		d := filepath.Dir(name)
		stampIdx[name[:len(name)-len(".cptv.temp")]] = nextIdx[d]
		nextIdx[d]++
	}
	listing := func(d string) []string {
		ents, _ := os.ReadDir(d)
		var names []string
		for _, e := range ents {
			if !e.IsDir() {
				names = append(names, e.Name())
			}
		}
		sort.Strings(names)
		var out []string
		for _, n := range names {
			st := filepath.Join(d, strings.SplitN(n, ".cptv", 2)[0])
			idx, ok := stampIdx[st]
			if !ok {
				out = append(out, "unknown:"+n)
				continue
			}
			out = append(out, fmt.Sprintf("%s%d", vRole(n), idx))
		}
		return out
	}
	for in.Scan() {
		line := in.Text()
		fmt.Fprintln(w, ">", line)
		f := strings.Fields(line)
		if len(f) == 0 {
			continue
		}
		opNo++
		os.Stat(fmt.Sprintf("/verif-marker/%d", opNo))
		switch f[0] {
		case "case":
			caseNo++
			stampIdx, nextIdx = map[string]int{}, map[string]int{}
			dir = filepath.Join(work, fmt.Sprintf("fs_out_%d", caseNo))
			os.RemoveAll(dir)
			os.MkdirAll(dir, 0755)
			conf := &Config{OutputDir: dir, DeviceName: "verif", DeviceID: 7, MinDiskSpace: 1,
				Motion: goconfig.DefaultThermalMotion("lepton3")}
			mk := func() *CPTVFileRecorder { return NewCPTVFileRecorder(conf, cam, "flir", "lepton3", 123, "1.2.3") }
			recs = map[string]*CPTVFileRecorder{"m": mk(), "t": mk()}
			if vKv(f, "const") == "1" {
				c := mk()
				c.SetAsConstantRecorder()
				recs["c"] = c
			}
		case "s":
			r := recs[f[1]]
			bg := cptvframe.NewFrame(cam)
			vGuard(w, "start", func() {
				err := r.StartRecording(bg, 1234)
				if err == nil {
					register(r)
				}
				fmt.Fprintf(w, "< ret %s\n", vOk(err))
			})
		case "ss":
			// two recorders started within the same millisecond (a test recording requested on the frame that
			// triggers a motion recording): names have millisecond resolution and must still differ
			a, b := recs[f[1]], recs[f[2]]
			bg := cptvframe.NewFrame(cam)
			vGuard(w, "start", func() {
				for time.Now().Nanosecond()%1000000 > 60000 {
				}
				e1 := a.StartRecording(bg, 1234)
				e2 := b.StartRecording(bg, 1234)
				if e1 == nil {
					register(a)
				}
				if e2 == nil {
					register(b)
				}
				fmt.Fprintf(w, "< ret %s\n< ret %s\n", vOk(e1), vOk(e2))
			})
		case "h":
			// a start whose header cannot be written (a header string longer than the format's 255 bytes):
			// StartRecording must fail cleanly and the recorder must stay usable
			r := recs[f[1]]
			bg := cptvframe.NewFrame(cam)
			vGuard(w, "start", func() {
				name := r.header.DeviceName
				r.header.DeviceName = strings.Repeat("x", 300)
				err := r.StartRecording(bg, 1234)
				r.header.DeviceName = name
				if err == nil {
					register(r)
				} else {
					// the failed start used up a name: the file it left behind is that recording's T
					ents, _ := os.ReadDir(r.outputDir)
					for _, e := range ents {
						if n := e.Name(); strings.HasSuffix(n, ".cptv.temp") {
							st := filepath.Join(r.outputDir, n[:len(n)-len(".cptv.temp")])
							if _, ok := stampIdx[st]; !ok {
								stampIdx[st] = nextIdx[r.outputDir]
								nextIdx[r.outputDir]++
							}
						}
					}
				}
				fmt.Fprintf(w, "< ret %s\n", vOk(err))
			})
		case "w":
			r := recs[f[1]]
			vGuard(w, "write", func() {
				for i := 0; i < vAtoi(f[2]); i++ {
					fr := cptvframe.NewFrame(cam)
					nframe++
					for y := range fr.Pix {
						for x := range fr.Pix[y] {
							fr.Pix[y][x] = 3000 + nframe + uint16(x*y)
						}
					}
					if err := r.WriteFrame(fr); err != nil {
						fmt.Fprintln(w, "< write-error")
					}
				}
				fmt.Fprintln(w, "< ret ok")
			})
		case "p":
			r := recs[f[1]]
			vGuard(w, "stop", func() { fmt.Fprintf(w, "< ret %s\n", vOk(r.StopRecording())) })
		case "a":
			r := recs[f[1]]
			vGuard(w, "abort", func() { r.Stop(); fmt.Fprintln(w, "< ret ok") })
		case "k":
			// disk gate: mb relative to the measured free space
			var fs syscall.Statfs_t
			syscall.Statfs(dir, &fs)
			free := fs.Bavail * uint64(fs.Bsize) / 1024 / 1024
			var mb uint64
			switch f[1] {
			case "zero":
				mb = 0
			case "huge":
				mb = 1 << 62
			case "below":
				mb = free - free/2
			case "above":
				mb = free + free/2 + 1000
			}
			ok, err := checkDiskSpace(mb, dir)
			fmt.Fprintf(w, "< gate %s %v %v\n", f[1], ok, err == nil)
		case "z":
			// "crash": whatever is open is abandoned.  Observe the directory, decode every finished
			// file with the standard reader, run the real start-up clean-up, observe again.
			fmt.Fprintln(w, strings.TrimSpace("< dir "+strings.Join(listing(dir), " ")))
			ents, _ := os.ReadDir(dir)
			var names []string
			for _, e := range ents {
				if strings.HasSuffix(e.Name(), ".cptv") {
					names = append(names, e.Name())
				}
			}
			sort.Strings(names)
			for i, n := range names {
				cnt, bgs, err := vDecodeCount(filepath.Join(dir, n))
				fmt.Fprintf(w, "< final %d frames=%d background=%d decode=%s\n", i, cnt, bgs, vOk(err))
			}
			err := deleteTempFiles(dir)
			fmt.Fprintf(w, "< cleanup %s\n", vOk(err))
			fmt.Fprintln(w, strings.TrimSpace("< dir-after-cleanup "+strings.Join(listing(dir), " ")))
		}
	}
}

func vDecodeCount(path string) (frames, backgrounds int, err error) {
	fr, err := cptv.NewFileReader(path)
	if err != nil {
		return 0, 0, err
	}
	defer fr.Close()
	out := fr.EmptyFrame()
	for {
		err := fr.ReadFrame(out)
		if err == io.EOF {
			break
		}
		if err != nil {
			return frames, backgrounds, err
		}
		if out.Status.BackgroundFrame {
			backgrounds++
		} else {
			frames++
		}
	}
	if int(fr.NumFrames()) != frames+backgrounds {
		return frames, backgrounds, fmt.Errorf("NumFrames header %d != %d", fr.NumFrames(), frames+backgrounds)
	}
	return frames, backgrounds, nil
}

func genFS(r *vRng, tier string, w *bufio.Writer) {
	cases := 12
	if tier == "thorough" {
		cases = 120
	}
	for id := 0; id < cases; id++ {
		constOn := r.chance(40)
		c := 0
		if constOn {
			c = 1
		}
		fmt.Fprintf(w, "case %d fs const=%d\n", id, c)
		open := map[string]bool{}
		who := []string{"m", "t"}
		if constOn {
			who = append(who, "c")
		}
		for j := 0; j < r.rng(8, 30); j++ {
			x := who[r.intn(len(who))]
			if !open[x] {
				if r.chance(12) {
					fmt.Fprintf(w, "k %s\n", []string{"zero", "huge", "below", "above"}[r.intn(4)])
					continue
				}
				if r.chance(10) {
					fmt.Fprintf(w, "h %s\n", x)
					continue
				}
				if x == "m" && !open["t"] && r.chance(25) {
					fmt.Fprintln(w, "ss m t")
					open["m"], open["t"] = true, true
					continue
				}
				fmt.Fprintf(w, "s %s\n", x)
				open[x] = true
				continue
			}
			switch v := r.intn(100); {
			case v < 55:
				fmt.Fprintf(w, "w %s %d\n", x, r.pick(1, 1, 2, 5, 30))
			case v < 90:
				fmt.Fprintf(w, "p %s\n", x)
				open[x] = false
			default:
				fmt.Fprintf(w, "a %s\n", x)
				open[x] = false
			}
		}
		// often leave something open: the crash
		for _, x := range who {
			if open[x] && r.chance(50) {
				fmt.Fprintf(w, "p %s\n", x)
			}
		}
		fmt.Fprintln(w, "z")
	}
}

// ---------------------------------------------------------------------------------------
// stream "names" (not under strace, so two starts fit into one millisecond): recording names have
// millisecond resolution; two recorders started in the same millisecond — a test recording requested on
// the frame that triggers a motion recording — must still get different files, both complete.

func init() { verifStreams["names"] = verifStream{gen: genNames, run: runNames} }

func runNames(in *bufio.Scanner, w *bufio.Writer) {
	work := os.Getenv("VERIF_WORKDIR")
	if work == "" {
		work = os.TempDir()
	}
	cam := vCam{8, 6, 9}
	caseNo := 0
	var a, b *CPTVFileRecorder
	var dir string
	nfull := 0
	nclash := 0
	for in.Scan() {
		line := in.Text()
		fmt.Fprintln(w, ">", line)
		f := strings.Fields(line)
		if len(f) == 0 {
			continue
		}
		switch f[0] {
		case "case":
			caseNo++
			dir = filepath.Join(work, fmt.Sprintf("names_out_%d", caseNo))
			os.RemoveAll(dir)
			os.MkdirAll(dir, 0755)
			conf := &Config{OutputDir: dir, DeviceName: "verif", DeviceID: 7, MinDiskSpace: 1,
				Motion: goconfig.DefaultThermalMotion("lepton3")}
			a = NewCPTVFileRecorder(conf, cam, "flir", "lepton3", 123, "1.2.3")
			b = NewCPTVFileRecorder(conf, cam, "flir", "lepton3", 123, "1.2.3")
		case "full": // full <k>: the continuous recorder starts on a file system with <= 30 % free; exactly k old files must go
			k := vAtoi(f[1])
			nfull++
			mnt := filepath.Join(work, fmt.Sprintf("names_full_%d_%d", caseNo, nfull))
			os.MkdirAll(mnt, 0755)
			if err := syscall.Mount("tmpfs", mnt, "tmpfs", 0, "size=10m"); err != nil {
				fmt.Fprintln(w, "< full skipped") // no permission to mount in this environment: nothing is claimed
				continue
			}
			func() {
				defer syscall.Unmount(mnt, syscall.MNT_DETACH) // lazy: go-cptv leaks a descriptor of every file it created until the next GC
				conf := &Config{OutputDir: mnt, DeviceName: "verif", DeviceID: 7, MinDiskSpace: 0,
					Motion: goconfig.DefaultThermalMotion("lepton3")}
				rec := NewCPTVFileRecorder(conf, cam, "flir", "lepton3", 123, "1.2.3")
				rec.SetAsConstantRecorder()
				cdir := filepath.Join(mnt, "constant-recordings")
				var fs syscall.Statfs_t
				syscall.Statfs(mnt, &fs)
				total := int64(fs.Blocks) * int64(fs.Bsize)
				old := total / 20 // every old continuous recording takes 5 % of the file system
				for i := 0; i < k+2; i++ {
					os.WriteFile(filepath.Join(cdir, fmt.Sprintf("20200101.00000%d.000.cptv", i)), make([]byte, old), 0644)
				}
				// a motion recording in the main directory fills the rest up to (27.5 - 5(k-1)) % free: deleting k old
				// continuous recordings brings the free space to 32.5 %, deleting k-1 only to 27.5 %
				syscall.Statfs(mnt, &fs)
				free := int64(fs.Bavail) * int64(fs.Bsize)
				target := total * (300 - 50*int64(k) + 25) / 1000
				mainFile := filepath.Join(mnt, "20190101.000000.000.cptv")
				os.WriteFile(mainFile, make([]byte, free-target), 0644)
				// what the file system looks like to deleteExcessRecordings (input of TR.Excess): blocks in all, blocks available,
				// and the files of the continuous recorder's directory in lexical order with the blocks each occupies
				{
					var sf syscall.Statfs_t
					syscall.Statfs(cdir, &sf)
					ents, _ := os.ReadDir(cdir)
					var parts []string
					for _, e := range ents {
						var st syscall.Stat_t
						if syscall.Stat(filepath.Join(cdir, e.Name()), &st) == nil {
							parts = append(parts, fmt.Sprintf("%s:%d", hex.EncodeToString([]byte(e.Name())), uint64(st.Blocks)*512/uint64(sf.Bsize)))
						}
					}
					fmt.Fprintf(w, "< fullstate total=%d avail=%d files=%s\n", sf.Blocks, sf.Bavail, strings.Join(parts, ","))
				}
				var err error
				vGuard(w, "full", func() {
					err = rec.StartRecording(cptvframe.NewFrame(cam), 0)
					if err == nil {
						rec.WriteFrame(cptvframe.NewFrame(cam))
						rec.StopRecording()
					}
				})
				left := 0
				ents, _ := os.ReadDir(cdir)
				for _, e := range ents {
					if strings.HasPrefix(e.Name(), "20200101.") {
						left++
					}
				}
				_, merr := os.Stat(mainFile)
				fmt.Fprintf(w, "< full k=%d ret=%s oldleft=%d mainkept=%v\n", k, vOk(err), left, merr == nil)
			}()
		case "clash": // clash <ms> <frames>: finished recordings already bear every name of the next <ms> milliseconds (the clock was set back)
			ms, n := vAtoi(f[1]), vAtoi(f[2])
			nclash++
			cdir := filepath.Join(dir, fmt.Sprintf("clash_%d", nclash))
			os.MkdirAll(cdir, 0755)
			conf := &Config{OutputDir: cdir, DeviceName: "verif", DeviceID: 7, MinDiskSpace: 1,
				Motion: goconfig.DefaultThermalMotion("lepton3")}
			rec := NewCPTVFileRecorder(conf, cam, "flir", "lepton3", 123, "1.2.3")
			vGuard(w, "clash", func() {
				t0 := time.Now()
				old := map[string]string{}
				for i := -2; i <= ms; i++ {
					name := t0.Add(time.Duration(i)*time.Millisecond).Format("20060102.150405.000") + ".cptv"
					old[name] = fmt.Sprintf("finished recording %d", i)
					os.WriteFile(filepath.Join(cdir, name), []byte(old[name]), 0644)
				}
				if err := rec.StartRecording(cptvframe.NewFrame(cam), 1234); err != nil {
					fmt.Fprintln(w, "< clash start-error")
					return
				}
				tn := rec.writer.Name()
				for i := 0; i < n; i++ {
					rec.WriteFrame(cptvframe.NewFrame(cam))
				}
				serr := rec.StopRecording()
				kept := true
				for name, want := range old {
					if got, err := os.ReadFile(filepath.Join(cdir, name)); err != nil || string(got) != want {
						kept = false
					}
				}
				fn := recordingFinalName(tn)
				_, clash := old[filepath.Base(fn)]
				c, _, derr := vDecodeCount(fn)
				ents, _ := os.ReadDir(cdir)
				fmt.Fprintf(w, "< clash kept=%v distinct=%v stop=%s decode=%s frames=%d files=%d\n", kept, !clash, vOk(serr), vOk(derr), c, len(ents)-len(old))
			})
		case "ss": // ss <frames for the first recorder> <frames for the second>
			bg := cptvframe.NewFrame(cam)
			vGuard(w, "pair", func() {
				for time.Now().Nanosecond()%1000000 > 50000 {
				}
				t0 := time.Now()
				e1 := a.StartRecording(bg, 1234)
				t1 := time.Now()
				e2 := b.StartRecording(bg, 1234)
				// was the second name chosen while the clock still showed the first one's millisecond?
				same := 0
				if t0.UnixNano()/1000000 == t1.UnixNano()/1000000 {
					same = 1
				}
				fmt.Fprintf(w, "< samems %d\n", same)
				if e1 != nil || e2 != nil {
					fmt.Fprintf(w, "< pair start-error\n")
					return
				}
				n1, n2 := a.writer.Name(), b.writer.Name()
				write := func(r *CPTVFileRecorder, n int, tag uint16) {
					for i := 0; i < n; i++ {
						fr := cptvframe.NewFrame(cam)
						for y := range fr.Pix {
							for x := range fr.Pix[y] {
								fr.Pix[y][x] = tag + uint16(i)
							}
						}
						r.WriteFrame(fr)
					}
				}
				write(a, vAtoi(f[1]), 1000)
				write(b, vAtoi(f[2]), 2000)
				s2 := b.StopRecording()
				s1 := a.StopRecording()
				c1, _, d1 := vDecodeCount(recordingFinalName(n1))
				c2, _, d2 := vDecodeCount(recordingFinalName(n2))
				fmt.Fprintf(w, "< pair distinct=%v stop=%s,%s decode=%s,%s frames=%d,%d\n", n1 != n2, vOk(s1), vOk(s2), vOk(d1), vOk(d2), c1, c2)
				ents, _ := os.ReadDir(dir)
				fin, other := 0, 0
				for _, e := range ents {
					if strings.HasSuffix(e.Name(), ".cptv") {
						fin++
					} else {
						other++
					}
				}
				fmt.Fprintf(w, "< dir finished=%d other=%d\n", fin, other)
			})
		}
	}
}

func genNames(r *vRng, tier string, w *bufio.Writer) {
	cases := 6
	if tier == "thorough" {
		cases = 60
	}
	for id := 0; id < cases; id++ {
		fmt.Fprintf(w, "case %d names\n", id)
		for k := 0; k < 8; k++ {
			fmt.Fprintf(w, "ss %d %d\n", r.pick(1, 3, 21), r.pick(1, 2, 21))
		}
		fmt.Fprintf(w, "full %d\n", 1+id%3)
		fmt.Fprintf(w, "clash %d %d\n", r.pick(20, 150, 400), r.pick(1, 5, 21))
	}
}
