// Replacement of cmd/leptond/service.go for the correspondence stream "leptondloop" (build overlay, tag verif):
// the same service object without the D-Bus registration (there is no system bus in the sandbox); the harness
// requests camera restarts through the same field the real RestartCamera method sets.
package main

import (
	"sync"

	"github.com/TheCacophonyProject/lepton3"
)

var mu sync.Mutex

type actions struct {
	reset bool
}

type leptondService struct {
	camera  *lepton3.Lepton3
	actions *actions
}

var vTheService *leptondService

func startService() (*leptondService, error) {
	s := &leptondService{actions: &actions{reset: false}}
	vTheService = s
	return s, nil
}

func (s *leptondService) setCamera(camera *lepton3.Lepton3) {
	mu.Lock()
	defer mu.Unlock()
	s.camera = camera
}

func (s *leptondService) removeCamera() {
	mu.Lock()
	defer mu.Unlock()
	s.camera = nil
}

// RestartCamera: as in the real service
func (s leptondService) RestartCamera() {
	mu.Lock()
	defer mu.Unlock()
	s.actions.reset = true
}
