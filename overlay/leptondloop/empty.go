// placeholder: the file of the real package it replaces in the build overlay is not part of the fake
package lepton3
