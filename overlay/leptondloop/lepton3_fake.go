// Fake of github.com/TheCacophonyProject/lepton3 for the correspondence stream "leptondloop" (build overlay, tag verif):
// the same exported surface cmd/leptond uses, with the camera replaced by a script.  The frame size is small on
// purpose (the loop under test never looks inside a frame); the value still travels through the camera header.
package lepton3

// (only packages the real lepton3 imports: the go command takes the import list of a module-cache package from its index)
import "errors"

const (
	FrameCols     = 160
	FrameRows     = 120
	FramesHz      = 9
	BytesPerFrame = 328
	Brand         = "flir"
	Model         = "lepton3"
	Model35       = "lepton3.5"
)

type LeptonSoftwareRevision struct {
	Gpp_major uint8
	Gpp_minor uint8
	Gpp_build uint8
	Dsp_major uint8
	Dsp_minor uint8
	Dsp_build uint8
	Reserved  [2]uint8
}

// FakeStep: "frames" (deliver N frames), "fail" (NextFrame returns an error: frame timeout), "reset" (a restart is
// requested through the service while a frame is being read), "end" (deliver the end-of-script frame, then wait
// until the harness has closed the socket)
type FakeStep struct {
	Kind string
	N    int
}

type FakeScript struct {
	Steps   []FakeStep
	Counter uint32
	OnReset func()        // called inside NextFrame for a "reset" step
	Closed  chan struct{} // closed by the harness once it has seen the end-of-script frame
	Opens   int           // cameras opened so far
}

var Fake = &FakeScript{}

type Lepton3 struct{ closed bool }

func New(spiSpeed int64) (*Lepton3, error) { return &Lepton3{}, nil }

func NewRawFrame() []byte { return make([]byte, BytesPerFrame) }

func (l *Lepton3) ResX() int { return FrameCols }
func (l *Lepton3) ResY() int { return FrameRows }
func (l *Lepton3) FPS() int  { return FramesHz }

func (d *Lepton3) SetLogFunc(log func(string))     {}
func (d *Lepton3) SetRadiometry(enable bool) error { return nil }
func (d *Lepton3) SetAutoFFC(auto bool) error      { return nil }
func (d *Lepton3) RunFFC() error                   { return nil }
func (d *Lepton3) GetSerial() (uint64, error)      { return 1234567, nil }
func (d *Lepton3) GetModel() (string, error)       { return Model35, nil }
func (d *Lepton3) Close()                          { d.closed = true }
func (d *Lepton3) GetSoftwareVersion() (LeptonSoftwareRevision, error) {
	return LeptonSoftwareRevision{Gpp_major: 3, Gpp_minor: 3, Gpp_build: 26}, nil
}

func (d *Lepton3) Open() error {
	Fake.Opens++
	return nil
}

func fill(out []byte, counter uint32) {
	out[0], out[1], out[2], out[3] = byte(counter>>24), byte(counter>>16), byte(counter>>8), byte(counter)
	for j := 4; j < len(out); j++ {
		out[j] = byte((int(counter)*7 + j) % 251)
	}
}

// EndCounter marks the end-of-script frame
const EndCounter = 0xFFFFFFFF

func (d *Lepton3) NextFrame(outFrame []byte) error {
	if d.closed {
		return errors.New("camera closed")
	}
	f := Fake
	for len(f.Steps) > 0 && f.Steps[0].Kind == "frames" && f.Steps[0].N == 0 {
		f.Steps = f.Steps[1:]
	}
	if len(f.Steps) == 0 {
		<-f.Closed
		fill(outFrame, EndCounter)
		return nil
	}
	st := &f.Steps[0]
	switch st.Kind {
	case "frames":
		st.N--
		f.Counter++
		fill(outFrame, f.Counter)
		return nil
	case "fail":
		f.Steps = f.Steps[1:]
		return errors.New("frame timeout")
	case "reset":
		f.Steps = f.Steps[1:]
		f.Counter++
		fill(outFrame, f.Counter)
		cb := f.OnReset
		if cb != nil {
			cb()
		}
		return nil
	default: // "end"
		f.Steps = nil
		fill(outFrame, EndCounter)
		return nil
	}
}
