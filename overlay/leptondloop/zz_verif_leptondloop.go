//go:build verif

package main

// Correspondence harness injected into package main of cmd/leptond (stream "leptondloop"): the real runMain /
// runCamera loop of the camera daemon, with the camera replaced by a scripted fake of the lepton3 package and the
// D-Bus service by its plain object, writing to a real unix socket.  The bytes that arrive are what the recorder
// would read: one camera header, then frames, with a 5-byte "clear" marker after every camera restart (C14).

import (
	"bufio"
	"encoding/hex"
	"fmt"
	"io"
	"log"
	"net"
	"os"
	"path/filepath"
	"strconv"
	"strings"
	"time"

	"github.com/TheCacophonyProject/lepton3"
)

func init() {
	if os.Getenv("VERIF_HARNESS") != "leptondloop" {
		return
	}
	log.SetOutput(io.Discard)
	w := bufio.NewWriterSize(os.Stdout, 1<<20)
	switch os.Args[1] {
	case "gen":
		seed, _ := strconv.ParseUint(os.Args[2], 10, 64)
		tier := "quick"
		if len(os.Args) > 3 {
			tier = os.Args[3]
		}
		vllGen(seed*0x9E3779B97F4A7C15+0x2468ace, tier, w)
	case "run":
		in := bufio.NewScanner(os.Stdin)
		in.Buffer(make([]byte, 1<<20), 1<<26)
		vllRun(in, w)
	}
	w.Flush()
	os.Exit(0)
}

// ops:   case <id> leptondloop script=<step>,<step>,...   with steps  f<n> | fail | reset
//
//	go      run the daemon's main loop on the script and print the bytes it wrote to the frame socket
func vllRun(in *bufio.Scanner, w *bufio.Writer) {
	work := os.Getenv("VERIF_WORKDIR")
	if work == "" {
		work = os.TempDir()
	}
	n := 0
	var script string
	for in.Scan() {
		line := in.Text()
		fmt.Fprintln(w, ">", line)
		f := strings.Fields(line)
		if len(f) == 0 {
			continue
		}
		switch f[0] {
		case "case":
			script = ""
			for _, kv := range f[3:] {
				if strings.HasPrefix(kv, "script=") {
					script = kv[7:]
				}
			}
		case "go":
			n++
			dir := filepath.Join(work, fmt.Sprintf("ll_%d", n))
			os.RemoveAll(dir)
			os.MkdirAll(dir, 0755)
			sock := filepath.Join(dir, "frames.sock")
			os.WriteFile(filepath.Join(dir, "config.toml"), []byte(fmt.Sprintf("[lepton]\nframe-output = \"%s\"\n[gpio]\nthermal-camera-power = \"\"\n", sock)), 0644)
			var steps []lepton3.FakeStep
			for _, s := range strings.Split(script, ",") {
				switch {
				case s == "fail" || s == "reset":
					steps = append(steps, lepton3.FakeStep{Kind: s})
				case strings.HasPrefix(s, "f"):
					k, _ := strconv.Atoi(s[1:])
					steps = append(steps, lepton3.FakeStep{Kind: "frames", N: k})
				}
			}
			steps = append(steps, lepton3.FakeStep{Kind: "end"})
			closed := make(chan struct{})
			*lepton3.Fake = lepton3.FakeScript{Steps: steps, Closed: closed, OnReset: func() {
				if vTheService != nil {
					vTheService.RestartCamera()
				}
			}}
			l, err := net.ListenUnix("unix", &net.UnixAddr{Name: sock, Net: "unix"})
			if err != nil {
				fmt.Fprintln(w, "< harness-error listen")
				continue
			}
			got := make(chan []byte, 1)
			go func() {
				c, err := l.Accept()
				if err != nil {
					got <- nil
					return
				}
				var data []byte
				buf := make([]byte, 1<<16)
				end := []byte{0xff, 0xff, 0xff, 0xff}
				for {
					c.SetReadDeadline(time.Now().Add(10 * time.Second))
					k, err := c.Read(buf)
					data = append(data, buf[:k]...)
					// the end-of-script frame has arrived completely: close, which makes the daemon's next write fail
					if i := strings.Index(string(data), string(end)); i >= 0 && len(data) >= i+lepton3.BytesPerFrame {
						break
					}
					if err != nil {
						break
					}
				}
				c.Close()
				close(closed)
				got <- data
			}()
			done := make(chan error, 1)
			go func() {
				defer func() {
					if e := recover(); e != nil {
						done <- fmt.Errorf("panic: %v", e)
					}
				}()
				os.Args = []string{"leptond", "--config", dir, "--quick"}
				done <- runMain()
			}()
			var data []byte
			select {
			case data = <-got:
			case <-time.After(30 * time.Second):
				fmt.Fprintln(w, "< stalled")
			}
			select {
			case err := <-done:
				if err != nil && strings.HasPrefix(err.Error(), "panic") {
					fmt.Fprintln(w, "< daemon panic")
				} else {
					fmt.Fprintln(w, "< daemon returned")
				}
			case <-time.After(20 * time.Second):
				fmt.Fprintln(w, "< daemon hang")
			}
			l.Close()
			fmt.Fprintf(w, "< stream %s\n", hex.EncodeToString(data))
		}
	}
}

func vllGen(s uint64, tier string, w *bufio.Writer) {
	next := func() uint64 { s ^= s << 13; s ^= s >> 7; s ^= s << 17; return s }
	cases := 12
	if tier == "thorough" {
		cases = 120
	}
	for id := 0; id < cases; id++ {
		var steps []string
		for k := 0; k < 2+int(next()%6); k++ {
			switch next() % 5 {
			case 0:
				steps = append(steps, "fail")
			case 1:
				steps = append(steps, "reset")
			default:
				steps = append(steps, fmt.Sprintf("f%d", next()%5))
			}
		}
		fmt.Fprintf(w, "case %d leptondloop script=%s\ngo\n", id, strings.Join(steps, ","))
	}
}
