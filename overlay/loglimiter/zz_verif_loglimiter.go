//go:build verif

package loglimiter

import "time"

// VerifSetClock replaces the limiter's time source (unexported nowFunc) for the
// correspondence harness.
func (limiter *LogLimiter) VerifSetClock(f func() time.Time) { limiter.nowFunc = f }
