//go:build verif

package main

// Correspondence harness injected into package main of cmd/leptond (stream "leptond"):
// the real sendCameraSpecs is run against a lepton3.Lepton3 whose I2C command interface (CCI) is
// answered by a register-level fake, over a real unix socket; the other end is read with the
// recorder's own headers.ReadHeaderInfo.  What the camera daemon says about the camera must be what
// the recorder understands (C14).

import (
	"bufio"
	"bytes"
	"encoding/hex"
	"fmt"
	"io"
	"log"
	"net"
	"os"
	"path/filepath"
	"strconv"
	"strings"
	"time"

	"periph.io/x/periph/conn/i2c"
	"periph.io/x/periph/conn/i2c/i2creg"

	lepton3 "github.com/TheCacophonyProject/lepton3"
	"github.com/TheCacophonyProject/thermal-recorder/headers"
)

func init() {
	if os.Getenv("VERIF_HARNESS") != "leptond" {
		return
	}
	log.SetOutput(io.Discard)
	w := bufio.NewWriterSize(os.Stdout, 1<<20)
	switch os.Args[1] {
	case "gen":
		seed, _ := strconv.ParseUint(os.Args[2], 10, 64)
		tier := "quick"
		if len(os.Args) > 3 {
			tier = os.Args[3]
		}
		vlGen(&vlRng{seed*0x9E3779B97F4A7C15 + 0x7654321}, tier, w)
	case "run":
		in := bufio.NewScanner(os.Stdin)
		in.Buffer(make([]byte, 1<<20), 1<<26)
		vlRun(in, w)
	}
	w.Flush()
	os.Exit(0)
}

type vlRng struct{ s uint64 }

func (r *vlRng) next() uint64 {
	r.s ^= r.s << 13
	r.s ^= r.s >> 7
	r.s ^= r.s << 17
	return r.s
}
func (r *vlRng) intn(n int) int { return int(r.next() % uint64(n)) }

// ---- the fake camera: CCI registers behind I2C address 0x2A

type vlBus struct {
	regs   map[uint16]byte
	serial uint64
	part   string // OEM part number
	fw     [3]byte
	noSer  bool // GetSerial fails
	noFw   bool // GetSoftwareVersion fails
}

func (b *vlBus) String() string          { return "verif-fake-i2c" }
func (b *vlBus) Close() error            { return nil }
func (b *vlBus) SetSpeed(hz int64) error { return nil }

const (
	vlRegStatus  = 2
	vlRegCommand = 4
	vlRegData0   = 8
)

func (b *vlBus) Tx(addr uint16, w, r []byte) error {
	if addr != 0x2A || len(w) < 2 {
		return fmt.Errorf("fake i2c: unexpected transaction")
	}
	reg := uint16(w[0])<<8 | uint16(w[1])
	for i, v := range w[2:] {
		b.regs[reg+uint16(i)] = v
	}
	if len(w) > 2 && reg == vlRegCommand {
		b.exec(uint16(w[2])<<8 | uint16(w[3]))
	}
	for i := range r {
		r[i] = b.regs[reg+uint16(i)]
	}
	return nil
}

func (b *vlBus) setStatus(errCode byte) {
	b.regs[vlRegStatus], b.regs[vlRegStatus+1] = errCode, 0x06 // booted, boot mode normal, not busy
}

func (b *vlBus) exec(cmd uint16) {
	b.setStatus(0)
	if cmd&3 != 0 {
		return // set / run: accepted
	}
	put := func(data []byte) {
		for i, v := range data {
			b.regs[vlRegData0+uint16(i)] = v
		}
	}
	swz := func(s []byte, n int) []byte { // the daemon swaps byte pairs of string-like answers
		out := make([]byte, n)
		copy(out, s)
		for i := 0; i+1 < n; i += 2 {
			out[i], out[i+1] = out[i+1], out[i]
		}
		return out
	}
	switch cmd {
	case 0x0208: // SYS serial number, 64 bit, 16-bit words least significant first, each big-endian
		if b.noSer {
			b.setStatus(0xFB)
			return
		}
		v := b.serial
		put([]byte{byte(v >> 8), byte(v), byte(v >> 24), byte(v >> 16), byte(v >> 40), byte(v >> 32), byte(v >> 56), byte(v >> 48)})
	case 0x481C: // OEM part number
		put(swz([]byte(b.part), 32))
	case 0x4820: // OEM software revision
		if b.noFw {
			b.setStatus(0xFB)
			return
		}
		put(swz([]byte{b.fw[0], b.fw[1], b.fw[2], 9, 9, 9, 0, 0}, 8))
	default:
		put(make([]byte, 64))
	}
}

var vlTheBus = &vlBus{regs: map[uint16]byte{}}

// ops:
//
//	case <id> leptond serial=<n> part=<hex> fw=<a>.<b>.<c> noserial=<0|1> nofw=<0|1>
//	spec       run sendCameraSpecs, print what headers.ReadHeaderInfo reads at the other end
func vlRun(in *bufio.Scanner, w *bufio.Writer) {
	work := os.Getenv("VERIF_WORKDIR")
	if work == "" {
		work = os.TempDir()
	}
	os.MkdirAll(work, 0755)
	vlTheBus.setStatus(0)
	if err := i2creg.Register("verif0", nil, 0, func() (i2c.BusCloser, error) { return vlTheBus, nil }); err != nil {
		fmt.Fprintln(w, "< harness-error register", err)
		return
	}
	n := 0
	for in.Scan() {
		line := in.Text()
		fmt.Fprintln(w, ">", line)
		f := strings.Fields(line)
		if len(f) == 0 {
			continue
		}
		switch f[0] {
		case "case":
			b := vlTheBus
			b.regs = map[uint16]byte{}
			b.setStatus(0)
			for _, kv := range f[3:] {
				switch {
				case strings.HasPrefix(kv, "serial="):
					b.serial, _ = strconv.ParseUint(kv[7:], 10, 64)
				case strings.HasPrefix(kv, "part="):
					p, _ := hex.DecodeString(kv[5:])
					b.part = string(p)
				case strings.HasPrefix(kv, "fw="):
					for i, s := range strings.Split(kv[3:], ".") {
						v, _ := strconv.Atoi(s)
						if i < 3 {
							b.fw[i] = byte(v)
						}
					}
				case strings.HasPrefix(kv, "noserial="):
					b.noSer = kv[9:] == "1"
				case strings.HasPrefix(kv, "nofw="):
					b.noFw = kv[5:] == "1"
				}
			}
		case "spec":
			n++
			func() {
				defer func() {
					if e := recover(); e != nil {
						fmt.Fprintln(w, "< panic spec")
					}
				}()
				camera, err := lepton3.New(2000000)
				if err != nil {
					fmt.Fprintln(w, "< camera-error", err)
					return
				}
				path := filepath.Join(work, fmt.Sprintf("ld_%d.sock", n))
				os.Remove(path)
				l, err := net.ListenUnix("unix", &net.UnixAddr{Name: path, Net: "unix"})
				if err != nil {
					fmt.Fprintln(w, "< harness-error listen", err)
					return
				}
				defer l.Close()
				defer os.Remove(path)
				got := make(chan []byte, 1)
				go func() {
					c, err := l.Accept()
					if err != nil {
						got <- nil
						return
					}
					defer c.Close()
					c.SetReadDeadline(time.Now().Add(10 * time.Second))
					data, _ := io.ReadAll(c)
					got <- data
				}()
				conn, err := net.DialUnix("unix", nil, &net.UnixAddr{Name: path, Net: "unix"})
				if err != nil {
					fmt.Fprintln(w, "< harness-error dial", err)
					return
				}
				err = sendCameraSpecs(&Config{}, camera, conn)
				conn.Close()
				data := <-got
				if err != nil {
					fmt.Fprintln(w, "< send error")
					return
				}
				fmt.Fprintf(w, "< hdr %s\n", hex.EncodeToString(data))
				h, err := headers.ReadHeaderInfo(bufio.NewReader(bytes.NewReader(data)))
				if err != nil {
					fmt.Fprintln(w, "< parsed error")
					return
				}
				fmt.Fprintf(w, "< parsed resx=%d resy=%d fps=%d framesize=%d brand=%s model=%s serial=%d firmware=%s\n",
					h.ResX(), h.ResY(), h.FPS(), h.FrameSize(), hex.EncodeToString([]byte(h.Brand())), hex.EncodeToString([]byte(h.Model())),
					h.CameraSerial(), hex.EncodeToString([]byte(h.Firmware())))
			}()
		}
	}
}

func vlGen(r *vlRng, tier string, w *bufio.Writer) {
	cases := 40
	if tier == "thorough" {
		cases = 400
	}
	serials := []uint64{0, 1, 1234, 99999, 1<<31 - 1, 1 << 31, 1<<32 - 1, 1 << 32, 1<<32 + 42, 0x12a0000002a, 1<<53 + 1, 1<<62 + 7, 1<<63 - 1}
	parts := []string{"500-0726-01", "500-0771-01", "500-0763-01", "", "500-0771-01x"}
	for id := 0; id < cases; id++ {
		s := serials[r.intn(len(serials))]
		if r.intn(3) == 0 {
			s = r.next() >> uint(r.intn(64))
			if s >= 1<<63 {
				s >>= 1
			}
		}
		noser, nofw := 0, 0
		if r.intn(10) == 0 {
			noser = 1
		}
		if r.intn(10) == 0 {
			nofw = 1
		}
		fmt.Fprintf(w, "case %d leptond serial=%d part=%s fw=%d.%d.%d noserial=%d nofw=%d\n", id, s,
			hex.EncodeToString([]byte(parts[r.intn(len(parts))])), r.intn(256), r.intn(256), r.intn(256), noser, nofw)
		fmt.Fprintln(w, "spec")
	}
}
