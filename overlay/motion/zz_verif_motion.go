//go:build verif

package motion

import "github.com/TheCacophonyProject/go-cptv/cptvframe"

// Accessors for the correspondence harness (unexported detector state).

func (d *motionDetector) VerifThresh() uint16               { return d.tempThresh }
func (d *motionDetector) VerifBackground() *cptvframe.Frame { return d.background }
func VerifFFCPeriodNs() int64                               { return int64(ffcPeriod) }
