//go:build verif

package motion

import "github.com/TheCacophonyProject/go-cptv/cptvframe"

// Accessors for the correspondence harness (unexported detector state).

func (d *motionDetector) VerifThresh() uint16               { return d.tempThresh }
func (d *motionDetector) VerifBackground() *cptvframe.Frame { return d.background }
func VerifFFCPeriodNs() int64                               { return int64(ffcPeriod) }

// VerifDetectorRestarted: the processor's detector has been reset and has not seen a frame since
// (a camera reset must always restart detection, whatever happened to the recording in progress)
func (mp *MotionProcessor) VerifDetectorRestarted() bool {
	d := mp.motionDetector
	return d.backgroundFrames == 0 && d.count == 0
}
