// Stream detector: two real motionDetector instances (A, B) fed in lockstep; per frame the
// motion verdict, the threshold and (dynamic mode) the background frame are observed through
// overlay accessors.
package main

import (
	"bufio"
	"fmt"
	"io"
	"log"
	"strings"
	"time"

	config "github.com/TheCacophonyProject/go-config"
	"github.com/TheCacophonyProject/go-cptv/cptvframe"
	"github.com/TheCacophonyProject/thermal-recorder/motion"

	"verifharness/common"
)

func main() {
	log.SetOutput(io.Discard)
	common.Main(common.Stream{Gen: gen, Run: run})
}

func kv(f []string, k string) int {
	for _, s := range f {
		if strings.HasPrefix(s, k+"=") {
			return common.Atoi(s[len(k)+1:])
		}
	}
	return 0
}

const hexd = "0123456789abcdef"

func hexOf(f *cptvframe.Frame) string {
	var sb strings.Builder
	for _, row := range f.Pix {
		for _, v := range row {
			sb.WriteByte(hexd[v>>12&15])
			sb.WriteByte(hexd[v>>8&15])
			sb.WriteByte(hexd[v>>4&15])
			sb.WriteByte(hexd[v&15])
		}
	}
	return sb.String()
}

func hv(c byte) uint16 {
	if c >= 'a' {
		return uint16(c-'a') + 10
	}
	return uint16(c - '0')
}

func fill(f *cptvframe.Frame, hex string) {
	i := 0
	for y := range f.Pix {
		for x := range f.Pix[y] {
			f.Pix[y][x] = hv(hex[i])<<12 | hv(hex[i+1])<<8 | hv(hex[i+2])<<4 | hv(hex[i+3])
			i += 4
		}
	}
}

func atoi64(s string) int64 {
	var n int64
	fmt.Sscan(s, &n)
	return n
}

func run(in *bufio.Scanner, w *bufio.Writer) {
	cam := common.Cam{}
	var dyn bool
	newDet := func(f []string) interface {
		Detect(*cptvframe.Frame) bool
		Reset(cptvframe.CameraSpec)
		VerifThresh() uint16
		VerifBackground() *cptvframe.Frame
	} {
		mc := config.ThermalMotion{
			DynamicThreshold: kv(f, "dyn") == 1, TempThreshMin: uint16(kv(f, "tmin")), TempThreshMax: uint16(kv(f, "tmax")),
			TempThresh: uint16(kv(f, "thresh")), DeltaThresh: uint16(kv(f, "delta")), CountThresh: kv(f, "count"),
			FrameCompareGap: kv(f, "gap"), UseOneDiffOnly: kv(f, "one") == 1, WarmerOnly: kv(f, "warmer") == 1,
			EdgePixels: kv(f, "edge"),
			Verbose: kv(f, "verbose") == 1, // the debug tracker must be an observer only
		}
		return motion.NewMotionDetector(mc, kv(f, "preview"), cam)
	}
	a, b := newDet(nil), newDet(nil)
	var fa, fb *cptvframe.Frame
	pend := false
	for in.Scan() {
		line := in.Text()
		fmt.Fprintln(w, ">", line)
		f := strings.Fields(line)
		if len(f) == 0 {
			continue
		}
		switch f[0] {
		case "case":
			cam = common.Cam{X: kv(f, "w"), Y: kv(f, "h"), Fps: 9}
			if int64(kv(f, "ffcns")) != motion.VerifFFCPeriodNs() {
				fmt.Fprintf(w, "< ffc-period-differs %d\n", motion.VerifFFCPeriodNs())
			}
			dyn = kv(f, "dyn") == 1
			a, b = newDet(f), newDet(f)
			fa, fb = cptvframe.NewFrame(cam), cptvframe.NewFrame(cam)
			pend = false
		case "e":
			fill(fb, f[3])
			fb.Status.TimeOn, fb.Status.LastFFCTime = time.Duration(atoi64(f[1])), time.Duration(atoi64(f[2]))
			pend = true
		case "d":
			fill(fa, f[3])
			fa.Status.TimeOn, fa.Status.LastFFCTime = time.Duration(atoi64(f[1])), time.Duration(atoi64(f[2]))
			if !pend {
				fb.Copy(fa)
			}
			pend = false
			one := func(who string, d interface {
				Detect(*cptvframe.Frame) bool
				VerifThresh() uint16
				VerifBackground() *cptvframe.Frame
			}, fr *cptvframe.Frame) {
				common.Guard(w, "detect-"+who, func() {
					m := d.Detect(fr)
					bg := "-"
					if dyn {
						bg = hexOf(d.VerifBackground())
					}
					mi := 0
					if m {
						mi = 1
					}
					fmt.Fprintf(w, "< %s %d %d %s\n", who, mi, d.VerifThresh(), bg)
				})
			}
			one("a", a, fa)
			one("b", b, fb)
		case "r":
			a.Reset(cam)
			b.Reset(cam)
		}
	}
}

// ---------------------------------------------------------------------------------------
// generators

type dcfg struct {
	w, h, edge, gap, one, delta, count, thresh, tmin, tmax, warmer, dyn, preview int
}

func (c dcfg) header(id int, kind string) string {
	return fmt.Sprintf("case %d detector kind=%s w=%d h=%d edge=%d gap=%d one=%d delta=%d count=%d thresh=%d tmin=%d tmax=%d warmer=%d dyn=%d preview=%d ffcns=10000000000 verbose=%d",
		id, kind, c.w, c.h, c.edge, c.gap, c.one, c.delta, c.count, c.thresh, c.tmin, c.tmax, c.warmer, c.dyn, c.preview, id%5/4)
}

type frame [][]int

func newFrame(c dcfg, v int) frame {
	f := make(frame, c.h)
	for y := range f {
		f[y] = make([]int, c.w)
		for x := range f[y] {
			f[y][x] = v
		}
	}
	return f
}
func (f frame) clone() frame {
	g := make(frame, len(f))
	for y := range f {
		g[y] = append([]int{}, f[y]...)
	}
	return g
}
func (f frame) hex() string {
	var sb strings.Builder
	for _, row := range f {
		for _, v := range row {
			if v < 0 {
				v = 0
			}
			if v > 65535 {
				v = 65535
			}
			sb.WriteByte(hexd[v>>12&15])
			sb.WriteByte(hexd[v>>8&15])
			sb.WriteByte(hexd[v>>4&15])
			sb.WriteByte(hexd[v&15])
		}
	}
	return sb.String()
}
func (c dcfg) interior(y, x int) bool {
	return y >= c.edge && y < c.h-c.edge && x >= c.edge && x < c.w-c.edge
}

const sec = int64(time.Second)

func randCfg(r *common.Rng, big bool) dcfg {
	sizes := [][2]int{{3, 3}, {4, 4}, {5, 4}, {8, 6}, {10, 8}, {6, 3}}
	s := sizes[r.Intn(len(sizes))]
	if big {
		s = [2]int{160, 120}
	}
	c := dcfg{w: s[0], h: s[1]}
	m := c.w
	if c.h < m {
		m = c.h
	}
	c.edge = r.Intn((m + 1) / 2)
	if 2*c.edge >= m {
		c.edge = (m - 1) / 2
	}
	c.gap = r.Range(1, 5)
	c.one = r.Intn(2)
	c.delta = r.Pick(0, 1, 20, 50, 200)
	c.count = r.Pick(1, 1, 2, 3)
	c.thresh = r.Pick(0, 1000, 2900, 2900, 28000, 40000, 60000) // also above 32767: 16-bit differences to the threshold must not wrap
	c.warmer = r.Intn(2)
	return c
}

func gen(r *common.Rng, tier string, w *bufio.Writer) {
	n := 260
	if tier == "thorough" {
		n = 2600
	}
	kinds := []string{"plain", "plain", "border", "cold", "ffc", "ffcpair", "resetpair", "dyn", "dyn", "ffcobj", "dynsat", "swing", "resetobj", "ffclevel"}
	for id := 0; id < n; id++ {
		kind := kinds[r.Intn(len(kinds))]
		c := randCfg(r, id == 7)
		if kind == "dyn" || ((kind == "border" || kind == "ffc" || kind == "ffcpair") && r.Chance(40)) {
			c.dyn = 1
			c.preview = r.Pick(0, 0, 1, 2, 5)
			switch r.Intn(4) {
			case 1:
				c.tmin = 3000
			case 2:
				c.tmax = 4000
			case 3:
				c.tmin, c.tmax = 3000, 4000
			}
		}
		if c.dyn == 0 && (kind == "plain" || kind == "swing" || kind == "cold") && r.Chance(40) {
			// fixed threshold with the dynamic threshold's bounds left in the configuration: they must be ignored
			switch r.Intn(3) {
			case 0:
				c.tmin = c.thresh + r.Pick(200, 500)
			case 1:
				c.tmax = c.thresh/2 + 1
			case 2:
				c.tmin, c.tmax = c.thresh+100, c.thresh+300
			}
		}
		if kind == "cold" || kind == "resetpair" {
			c.dyn = 0
			if c.thresh == 0 {
				c.thresh = 2900
			}
		}
		if kind == "ffcobj" {
			c.dyn, c.one = 0, r.Pick(0, 0, 1)
			if c.thresh == 0 {
				c.thresh = 1000
			}
			fmt.Fprintln(w, c.header(id, kind))
			genFFCObject(r, c, w)
			continue
		}
		if kind == "dynsat" {
			c.dyn, c.preview = 1, r.Pick(0, 1, 2)
			c.tmin, c.tmax = r.Pick(0, 3000), r.Pick(0, 31000)
			fmt.Fprintln(w, c.header(id, kind))
			genSaturated(r, c, w)
			continue
		}
		if kind == "resetobj" {
			// two-comparison mode, no FFC: something flickers right up to a camera reset; after the reset the scene is
			// still for one frame, then the object is back at the same place (the comparison of the frame before the
			// reset must not count as "the previous frame's comparison")
			c.dyn, c.one = 0, 0
			if c.thresh == 0 {
				c.thresh = 1000
			}
			fmt.Fprintln(w, c.header(id, kind))
			base := c.thresh + r.Pick(50, 300, 2000)
			amp := c.delta + r.Pick(1, 30, 400)
			y, x := c.h/2, c.w/2
			ton := int64(r.Range(20, 200)) * sec
			frameWith := func(on bool) frame {
				f := newFrame(c, base)
				if on {
					for k := 0; k < c.count+1; k++ {
						xx := x + k
						if xx >= c.w-c.edge {
							xx = x - k
						}
						if xx >= 0 && xx < c.w {
							f[y][xx] += amp
						}
					}
				}
				return f
			}
			for i := 0; i < c.gap+r.Range(3, 6); i++ {
				fmt.Fprintf(w, "d %d %d %s\n", ton, 0, frameWith(i%2 == 0).hex())
				ton += sec / 9
			}
			fmt.Fprintln(w, "r")
			for i := 0; i < r.Range(1, 2); i++ {
				fmt.Fprintf(w, "d %d %d %s\n", ton, 0, frameWith(false).hex())
				ton += sec / 9
			}
			for i := 0; i < r.Range(2, 5); i++ {
				fmt.Fprintf(w, "d %d %d %s\n", ton, 0, frameWith(i%3 != 2).hex())
				ton += sec / 9
			}
			continue
		}
		if kind == "ffclevel" {
			// dynamic threshold: two histories at different scene levels (so with different learnt thresholds) before a
			// short FFC period, identical from the period on, where something warm flickers at a level between the two
			// thresholds: the verdicts must agree (the threshold after the period is learnt from the frames after it)
			c.dyn, c.tmin, c.tmax, c.preview = 1, 0, 0, r.Pick(1, 2, 3)
			if c.delta > 200 {
				c.delta = 50
			}
			fmt.Fprintln(w, c.header(id, kind))
			lvlA, lvlB := 3100, 3600
			if r.Chance(50) {
				lvlA, lvlB = lvlB, lvlA
			}
			ton := int64(r.Range(20, 200)) * sec
			y, x := c.h/2, c.w/2
			for i := 0; i < c.preview+r.Range(2, 5); i++ {
				fmt.Fprintf(w, "e %d %d %s\n", ton, 0, newFrame(c, lvlB).hex())
				fmt.Fprintf(w, "d %d %d %s\n", ton, 0, newFrame(c, lvlA).hex())
				ton += sec / 9
			}
			ffc := ton
			for i := 0; i < r.Pick(1, 2, 3); i++ {
				fmt.Fprintf(w, "d %d %d %s\n", ton, ffc, newFrame(c, 3100).hex())
				ton += sec / 9
			}
			ton = ffc + 10*sec + int64(r.Pick(0, 1, int(sec)))
			fmt.Fprintln(w, "x C09 1")
			for i := 0; i < c.preview+r.Range(3, 7); i++ {
				f := newFrame(c, 3100)
				if i%2 == 1 {
					for k := 0; k < c.count+1; k++ {
						xx := x + k
						if xx >= c.w-c.edge {
							xx = x - k
						}
						if xx >= 0 && xx < c.w {
							f[y][xx] = 3100 + c.delta + 150
						}
					}
				}
				fmt.Fprintf(w, "d %d %d %s\n", ton, ffc, f.hex())
				ton += sec / 9
			}
			continue
		}
		if kind == "swing" {
			c.dyn = 0
			fmt.Fprintln(w, c.header(id, kind))
			genSwing(r, c, w)
			continue
		}
		fmt.Fprintln(w, c.header(id, kind))
		genCase(r, c, kind, w)
	}
}

// genSwing: fixed threshold, pixel values over the whole 16-bit range: differences of 32767, 32768, 65535 - delta ...
// (the arithmetic of the per-pixel difference must not wrap)
func genSwing(r *common.Rng, c dcfg, w *bufio.Writer) {
	levels := []int{0, 1, c.thresh, c.thresh + c.delta, c.thresh + c.delta + 1, 29000, 32767, 32768, 32769, 32768 + c.thresh, 40000,
		65535 - c.delta, 65534, 65535}
	lv := func() int {
		v := levels[r.Intn(len(levels))]
		if v > 65535 {
			v = 65535
		}
		return v
	}
	ton := int64(r.Range(20, 200)) * sec
	bg := lv()
	y, x := c.h/2, c.w/2
	for i := 0; i < r.Range(6, 20); i++ {
		if r.Chance(25) {
			bg = lv()
		}
		f := newFrame(c, bg)
		if r.Chance(70) {
			v := lv()
			for k := 0; k < c.count+r.Pick(-1, 0, 1); k++ {
				xx := x + k
				if xx >= c.w {
					xx = x - k
				}
				if xx >= 0 && xx < c.w {
					f[y][xx] = v
				}
			}
		}
		fmt.Fprintf(w, "d %d %d %s\n", ton, 0, f.hex())
		ton += sec / 9
	}
}

// genFFCObject: two histories that differ only BEFORE a short FFC period — a warm object is in view in A, not in B —
// and are identical from the period on, where the object (re)appears at the same place.  Verdicts must agree from the period on.
func genFFCObject(r *common.Rng, c dcfg, w *bufio.Writer) {
	base := c.thresh + r.Pick(50, 300, 2000)
	amp := c.delta + r.Pick(1, 30, 400)
	y, x := c.h/2, c.w/2
	obj := func(f frame) {
		for k := 0; k < c.count+1; k++ {
			xx := x + k
			if xx >= c.w-c.edge {
				xx = x - k
			}
			if xx >= 0 && xx < c.w {
				f[y][xx] += amp
			}
		}
	}
	ton := int64(r.Range(20, 200)) * sec
	lastFFC := int64(0)
	pre := r.Range(2, c.gap+4)
	period := r.Pick(1, 1, 2, 3)
	emit := func(fa, fb frame, lf int64) {
		if fb != nil {
			fmt.Fprintf(w, "e %d %d %s\n", ton, lf, fb.hex())
		}
		fmt.Fprintf(w, "d %d %d %s\n", ton, lf, fa.hex())
		ton += sec / 9
	}
	for i := 0; i < pre; i++ {
		fa, fb := newFrame(c, base), newFrame(c, base)
		if r.Chance(80) {
			obj(fa)
		}
		if ton-lastFFC < 10*sec {
			ton = lastFFC + 11*sec
		}
		emit(fa, fb, lastFFC)
	}
	ffc := ton
	for i := 0; i < period; i++ {
		f := newFrame(c, base)
		if r.Chance(50) {
			obj(f)
		}
		emit(f, nil, ffc)
	}
	ton = ffc + 10*sec + int64(r.Pick(0, 1, int(sec)))
	fmt.Fprintln(w, "x C09 1")
	for i := 0; i < r.Range(3, 8); i++ {
		f := newFrame(c, base)
		if i < 3 || r.Chance(50) {
			obj(f)
		}
		emit(f, nil, ffc)
	}
}

// genSaturated: dynamic threshold with pixels saturated at 65535 for a while, then cooling (background must follow)
func genSaturated(r *common.Rng, c dcfg, w *bufio.Writer) {
	ton := int64(r.Range(20, 200)) * sec
	hot := r.Range(11, 16)
	for i := 0; i < hot+r.Range(3, 8); i++ {
		f := newFrame(c, 30000)
		for y := 0; y < c.h/2+1; y++ {
			for x := range f[y] {
				if i < hot {
					f[y][x] = 65535
				} else {
					f[y][x] = 29500 + r.Pick(0, 5)
				}
			}
		}
		fmt.Fprintf(w, "d %d %d %s\n", ton, 0, f.hex())
		ton += sec / 9
	}
}

func genCase(r *common.Rng, c dcfg, kind string, w *bufio.Writer) {
	length := r.Range(6, 40)
	if c.w > 100 {
		length = 12
	}
	// base scene level relative to the threshold / the dynamic bounds
	base := c.thresh + r.Pick(-300, 0, 1, 300, 2000)
	if kind == "cold" {
		// scenes sitting just below the threshold, so that blobs cross it by about delta
		base = c.thresh - r.Pick(0, 1, c.delta/2, c.delta, c.delta+1, 300)
	}
	if c.dyn == 1 {
		base = r.Pick(2000, 2999, 3000, 3500, 4000, 4001, 5000, 65535, 65000)
	}
	if base < 1 {
		base = 1
	}
	ton := int64(r.Range(20, 2000)) * sec
	lastFFC := ton - 1000*sec
	if lastFFC < 0 {
		lastFFC = 0
		ton += 15 * sec
	}
	ffcLeft := 0
	// the power-on FFC: the camera's clock starts at zero, the first frames lie inside a period whose LastFFCTime is 0
	zeroPeriod := (kind == "ffc" || kind == "dyn") && r.Chance(25)
	if zeroPeriod {
		ton = r.Pick64(0, sec/9, sec, 3*sec)
		lastFFC = 0
		ffcLeft = r.Range(1, c.gap+3)
	}
	scene := newFrame(c, base)
	sceneB := scene.clone()
	diverge := kind == "ffcpair" || kind == "resetpair" // B's content differs until the pivot
	pivotDone := false
	pivotAt := r.Range(2, length-2)
	if kind == "border" || kind == "cold" {
		fmt.Fprintln(w, "x C08 1")
	}
	if diverge {
		for y := range sceneB {
			for x := range sceneB[y] {
				sceneB[y][x] = base + r.Pick(-500, 700, 3000, 0)
				if sceneB[y][x] < 1 {
					sceneB[y][x] = 1
				}
			}
		}
	}
	blob := func(f frame, on bool) {
		// k pixels around the count threshold, raised around the delta threshold
		if !on {
			return
		}
		k := c.count + r.Pick(-1, 0, 0, 1)
		amp := c.delta + r.Pick(-1, 0, 1, 1, 30)
		if kind == "cold" && base < c.thresh {
			amp += c.thresh - base // measured from the threshold, not from the cold scene
			if r.Chance(30) {
				amp = r.Pick(1, c.delta, c.delta+1) // stays below or just reaches the threshold
			}
		}
		if amp < 0 {
			amp = 0
		}
		if r.Chance(15) {
			amp = -amp
		}
		for i := 0; i < k; i++ {
			y, x := r.Intn(c.h), r.Intn(c.w)
			if r.Chance(85) && c.h-2*c.edge > 0 && c.w-2*c.edge > 0 {
				y, x = c.edge+r.Intn(c.h-2*c.edge), c.edge+r.Intn(c.w-2*c.edge)
			}
			f[y][x] += amp
			if f[y][x] < 0 {
				f[y][x] = 0
			}
		}
	}
	for i := 0; i < length; i++ {
		// time and FFC
		ton += sec / 9 * int64(r.Pick(1, 1, 1, 9, 30))
		if (kind == "ffc" || kind == "ffcpair" || (kind == "dyn" && r.Chance(30))) && ffcLeft == 0 && r.Chance(12) || (kind == "ffcpair" && i == pivotAt) {
			ffcLeft = r.Range(1, c.gap+3)
			if kind == "ffcpair" && r.Chance(45) {
				ffcLeft = r.Pick(1, 1, 2) // one- and two-frame periods at either parity of the first-diff flag
			}
		}
		lf := lastFFC
		if ffcLeft > 0 {
			// sometimes LastFFCTime ahead of TimeOn (the camera's millisecond uptime counter wrapped after an FFC): still inside the period
			lf = ton - r.Pick64(0, sec, 10*sec-1, 5*sec)
			if r.Chance(20) {
				lf = ton + r.Pick64(1, 3*sec)
			}
			if lf < 0 || zeroPeriod {
				lf = 0
			}
			ffcLeft--
			if ffcLeft == 0 {
				zeroPeriod = false
			}
			if kind == "ffcpair" && !pivotDone && i >= pivotAt {
				// from the first frame of this period on, both histories have the same content
				pivotDone = true
				sceneB = scene.clone()
				diverge = false
			}
			if ffcLeft == 0 {
				lastFFC = lf
				if kind == "ffcpair" && pivotDone {
					defer func() {}()
				}
			}
		} else {
			if ton-lf < 10*sec {
				ton = lf + r.Pick64(10*sec, 10*sec+1, 11*sec, 25*sec)
			}
		}
		if kind == "resetpair" && i == pivotAt {
			fmt.Fprintln(w, "r")
			sceneB = scene.clone()
			diverge = false
			pivotDone = true
			fmt.Fprintln(w, "x C09 1")
		} else if kind != "resetpair" && kind != "ffcpair" && r.Chance(4) {
			fmt.Fprintln(w, "r")
		} else if kind == "ffcpair" && !pivotDone && r.Chance(6) {
			fmt.Fprintln(w, "r") // reset before the period (F7 territory for dynamic thresholds)
		}
		// scene evolution: drift and occasional level change (dynamic threshold tracking)
		if c.dyn == 1 && r.Chance(25) {
			d := r.Pick(-40, -3, -1, 1, 3, 40)
			for y := range scene {
				for x := range scene[y] {
					scene[y][x] += d
					if scene[y][x] < 1 {
						scene[y][x] = 1
					}
					if !diverge {
						sceneB[y][x] = scene[y][x]
					}
				}
			}
		}
		fa := scene.clone()
		on := r.Chance(45)
		if kind == "ffcpair" && pivotDone && i <= pivotAt+6 {
			on = r.Chance(85) // something moves right after the period: the first real comparisons matter
		}
		blobSeed := *r
		blob(fa, on)
		if r.Chance(10) { // persistent change of the scene
			scene = fa.clone()
			if !diverge {
				sceneB = scene.clone()
			}
		}
		var fb frame
		switch {
		case diverge:
			fb = sceneB.clone()
			rb := blobSeed
			_ = rb
			if r.Chance(45) {
				blob(fb, true)
			}
		case kind == "border":
			fb = fa.clone()
			for y := range fb {
				for x := range fb[y] {
					if !c.interior(y, x) {
						fb[y][x] = r.Pick(0, 1, 65535, base, base+c.delta+5, 30000)
					}
				}
			}
		case kind == "cold":
			fb = fa.clone()
			for y := range fb {
				for x := range fb[y] {
					if fa[y][x] <= c.thresh && r.Chance(60) {
						fb[y][x] = r.Pick(1, c.thresh, c.thresh-1, c.thresh/2+1, 1)
						if fb[y][x] < 1 {
							fb[y][x] = 1
						}
						if fb[y][x] > c.thresh {
							fb[y][x] = c.thresh
						}
					}
				}
			}
		default:
			fb = nil
		}
		if fb != nil {
			fmt.Fprintf(w, "e %d %d %s\n", ton, lf, fb.hex())
		}
		fmt.Fprintf(w, "d %d %d %s\n", ton, lf, fa.hex())
		if kind == "ffcpair" && pivotDone && ffcLeft == 0 && !diverge {
			// period has passed: from the next frame on results must agree
			fmt.Fprintln(w, "x C09 1")
		}
	}
}
