// Stream processor: the real motion.MotionProcessor (with the real motionDetector inside),
// driven through its exported API: NewMotionProcessor with an injected parser, injected
// window clock, listener and three scripted recorder.Recorder sinks.  No overlay.
package main

import (
	"bufio"
	"errors"
	"fmt"
	"io"
	"log"
	"strings"
	"time"

	config "github.com/TheCacophonyProject/go-config"
	"github.com/TheCacophonyProject/go-cptv/cptvframe"
	"github.com/TheCacophonyProject/lepton3"
	"github.com/TheCacophonyProject/thermal-recorder/motion"
	"github.com/TheCacophonyProject/thermal-recorder/recorder"
	"github.com/TheCacophonyProject/window"

	"verifharness/common"
)

const garbage = 4000000000

func main() {
	log.SetOutput(io.Discard)
	common.Main(common.Stream{Gen: gen, Run: run})
}

// ---------------------------------------------------------------------------------------
// scripted sinks

type faults struct {
	win, can, ms, mp, cs, cw, cp, ts, tw, tp bool
	mwf                                      int
}

type env struct {
	w      *bufio.Writer
	f      faults
	mwrite int // motion-sink writes issued during the current event
}

type sink struct {
	e    *env
	name string
}

func okS(ok bool) string {
	if ok {
		return "ok"
	}
	return "err"
}
func res(ok bool) error {
	if ok {
		return nil
	}
	return errors.New("scripted failure")
}
func tagOf(f *cptvframe.Frame) uint32 { return uint32(f.Pix[0][0]) | uint32(f.Pix[0][1])<<16 }

func (s *sink) CheckCanRecord() error {
	ok := s.e.f.can
	fmt.Fprintf(s.e.w, "< %s.can %s\n", s.name, okS(ok))
	return res(ok)
}
func (s *sink) StartRecording(bg *cptvframe.Frame, thresh uint16) error {
	ok := map[string]bool{"m": s.e.f.ms, "c": s.e.f.cs, "t": s.e.f.ts}[s.name]
	fmt.Fprintf(s.e.w, "< %s.start %s\n", s.name, okS(ok))
	return res(ok)
}
func (s *sink) WriteFrame(f *cptvframe.Frame) error {
	ok := true
	switch s.name {
	case "m":
		s.e.mwrite++
		ok = s.e.mwrite != s.e.f.mwf
	case "c":
		ok = s.e.f.cw
	case "t":
		ok = s.e.f.tw
	}
	fmt.Fprintf(s.e.w, "< %s.write %d %s\n", s.name, tagOf(f), okS(ok))
	return res(ok)
}
func (s *sink) StopRecording() error {
	ok := map[string]bool{"m": s.e.f.mp, "c": s.e.f.cp, "t": s.e.f.tp}[s.name]
	fmt.Fprintf(s.e.w, "< %s.stop %s\n", s.name, okS(ok))
	return res(ok)
}

type lis struct{ e *env }

func (l lis) MotionDetected()   { fmt.Fprintln(l.e.w, "< md") }
func (l lis) RecordingStarted() { fmt.Fprintln(l.e.w, "< rs") }
func (l lis) RecordingEnded()   { fmt.Fprintln(l.e.w, "< re") }

// ---------------------------------------------------------------------------------------
// run

func kv(f []string, k string) int {
	for _, s := range f {
		if strings.HasPrefix(s, k+"=") {
			return common.Atoi(s[len(k)+1:])
		}
	}
	return 0
}

func b(s string) bool { return s == "1" }

func run(in *bufio.Scanner, w *bufio.Writer) {
	var p *motion.MotionProcessor
	e := &env{w: w}
	var winOpen bool
	n := uint32(0)
	cam := common.Cam{X: 4, Y: 4, Fps: 1}
	// raw frame: [bad, hot]; the parser writes the frame id (accepted-frame counter) into two pixels
	edgeSeen := -1 // the border width the processor hands to the parser (must be the detector's: edge-pixels = 1 here)
	parse := func(raw []byte, f *cptvframe.Frame, edge int) error {
		if edge != 1 {
			edgeSeen = edge
		}
		if raw[0] == 1 {
			// like the real parsers: scribble, then reject
			f.Pix[0][0] = uint16(garbage & 0xffff)
			f.Pix[0][1] = uint16(garbage >> 16)
			f.Pix[2][2] = 7
			return &lepton3.BadFrameErr{Cause: errors.New("bad")}
		}
		f.Pix[0][0] = uint16(n)
		f.Pix[0][1] = uint16(n >> 16)
		f.Pix[1][1] = uint16(raw[1])*100 + 1000
		f.Pix[1][2], f.Pix[2][1], f.Pix[2][2] = 1000, 1000, 1000
		f.Status.TimeOn = 1000 * time.Second
		f.Status.LastFFCTime = 0
		return nil
	}
	for in.Scan() {
		line := in.Text()
		fmt.Fprintln(w, ">", line)
		f := strings.Fields(line)
		if len(f) == 0 {
			continue
		}
		e.mwrite = 0
		switch f[0] {
		case "case":
			cam.Fps = kv(f, "fps")
			n = 0
			win, err := window.New("10:00", "11:00", 1, 1)
			if err != nil {
				panic(err)
			}
			win.Now = func() time.Time {
				if winOpen {
					return time.Date(2021, 3, 4, 10, 30, 0, 0, time.UTC)
				}
				return time.Date(2021, 3, 4, 12, 30, 0, 0, time.UTC)
			}
			rc := &recorder.RecorderConfig{MinSecs: kv(f, "min"), MaxSecs: kv(f, "max"), PreviewSecs: kv(f, "preview"), Window: *win}
			mc := &config.ThermalMotion{TempThresh: 0, DeltaThresh: 50, CountThresh: 1, FrameCompareGap: 1,
				TriggerFrames: kv(f, "trig"), UseOneDiffOnly: true, EdgePixels: 1}
			var cr recorder.Recorder
			if kv(f, "const") == 1 {
				cr = &sink{e, "c"}
			}
			p = motion.NewMotionProcessor(parse, mc, rc, &config.Location{}, lis{e}, &sink{e, "m"}, cam, cr, &sink{e, "t"})
		case "f":
			// f hot win can ms mwf mp cs cw cp ts tw tp
			e.f = faults{win: b(f[2]), can: b(f[3]), ms: b(f[4]), mwf: common.Atoi(f[5]), mp: b(f[6]),
				cs: b(f[7]), cw: b(f[8]), cp: b(f[9]), ts: b(f[10]), tw: b(f[11]), tp: b(f[12])}
			winOpen = e.f.win
			hot := byte(common.Atoi(f[1]))
			common.Guard(w, "process", func() {
				err := p.Process([]byte{0, hot})
				if err == nil {
					fmt.Fprintln(w, "< ret ok")
					n++
				} else {
					fmt.Fprintln(w, "< ret bad")
				}
			})
			if edgeSeen >= 0 {
				fmt.Fprintf(w, "< parser-edge got=%d want=1\n", edgeSeen)
				edgeSeen = -1
			}
		case "b":
			e.f = faults{win: true, can: true, ms: true, mp: b(f[1]), cs: true, cw: true, cp: b(f[2]), ts: true, tw: true, tp: true}
			common.Guard(w, "process", func() {
				err := p.Process([]byte{1, 0})
				if _, isBad := err.(*lepton3.BadFrameErr); isBad {
					fmt.Fprintln(w, "< ret bad")
				} else if err == nil {
					fmt.Fprintln(w, "< ret ok")
					n++
				} else {
					fmt.Fprintln(w, "< ret other-error")
				}
			})
		case "r":
			e.f = faults{win: true, can: true, ms: true, mp: b(f[1]), cs: true, cw: true, cp: true, ts: true, tw: true, tp: true}
			common.Guard(w, "reset", func() { p.Reset(cam) })
			fmt.Fprintf(w, "< det restarted=%v\n", p.VerifDetectorRestarted())
		case "t":
			p.StartSnapshot = true
		}
	}
}

// ---------------------------------------------------------------------------------------
// gen

type cfg struct{ fps, preview, min, max, trig, constOn int }

func (c cfg) header(id int) string {
	return fmt.Sprintf("case %d processor fps=%d preview=%d min=%d max=%d trig=%d const=%d testlast=20",
		id, c.fps, c.preview, c.min, c.max, c.trig, c.constOn)
}

func bit(x bool) int {
	if x {
		return 1
	}
	return 0
}

// frame op with all gates open and no faults
func plainFrame(hot int) string { return fmt.Sprintf("f %d 1 1 1 0 1 1 1 1 1 1 1", hot) }

func gen(r *common.Rng, tier string, w *bufio.Writer) {
	cases, length := 250, 90
	if tier == "thorough" {
		cases, length = 2500, 140
	}
	id := 0
	if tier == "thorough" {
		id = genExhaustive(w, id)
	}
	for i := 0; i < cases; i++ {
		c := cfg{fps: r.Range(1, 3), preview: r.Range(0, 3), trig: r.Range(0, 4)}
		c.min = r.Range(0, 3)
		c.max = c.min + r.Range(0, 3)
		c.constOn = bit(r.Chance(40))
		if c.preview*c.fps+c.trig == 0 {
			c.trig = 1
		}
		K := c.preview*c.fps + c.trig
		minF, maxF := c.min*c.fps, c.max*c.fps
		// fault profile of the case: 0 none, 1 gates only (refused starts), 2 everything
		profile := r.Pick(0, 0, 1, 1, 2)
		fmt.Fprintln(w, c.header(id))
		id++
		hot := 0
		// run-length motion model centred on the boundaries the proofs case on
		mode, left := 0, 0 // 0 quiet, 1 motion
		for j := 0; j < length; j++ {
			if left == 0 {
				mode = 1 - mode
				if mode == 1 {
					left = r.Pick(1, 1, 2, c.trig, c.trig+1, maxF+2, minF+1, 3, 2*maxF+3) + r.Intn(2)
				} else {
					left = r.Pick(1, 1, 2, minF, minF+1, K, K+1, K+2, 1) + r.Intn(2)
				}
				if left == 0 {
					left = 1
				}
			}
			left--
			x := r.Intn(1000)
			switch {
			case x < 25:
				fmt.Fprintf(w, "b %d %d\n", bit(profile < 2 || !r.Chance(30)), bit(profile < 2 || !r.Chance(30)))
				continue
			case x < 45:
				fmt.Fprintf(w, "r %d\n", bit(profile < 2 || !r.Chance(30)))
				continue
			case x < 60:
				fmt.Fprintln(w, "t")
			}
			if mode == 1 {
				hot = 1 - hot
			}
			if profile == 0 {
				fmt.Fprintln(w, plainFrame(hot))
				continue
			}
			ok := func(pct int) int { return bit(!r.Chance(pct)) }
			win, can, ms := ok(12), ok(12), ok(12)
			if profile == 1 {
				fmt.Fprintf(w, "f %d %d %d %d 0 1 1 1 1 1 1 1\n", hot, win, can, ms)
				continue
			}
			mwf := 0
			if r.Chance(10) {
				mwf = r.Range(1, K+1)
			}
			fmt.Fprintf(w, "f %d %d %d %d %d %d %d %d %d %d %d %d\n", hot, win, can, ms, mwf, ok(10),
				ok(8), ok(8), ok(8), ok(8), ok(8), ok(8))
		}
	}
}

// genExhaustive: every event string of length 6 over {motion, no motion, refused motion,
// bad, reset} for a grid of small configurations (fault-free sinks), plus single-fault
// placements on every sink-call class over a fixed busy scenario.
func genExhaustive(w *bufio.Writer, id int) int {
	cfgs := []cfg{}
	for _, preview := range []int{0, 1, 2} {
		for _, trig := range []int{0, 1, 2} {
			for _, mm := range [][2]int{{0, 0}, {0, 1}, {1, 1}, {1, 2}, {2, 3}} {
				if preview+trig == 0 {
					continue
				}
				cfgs = append(cfgs, cfg{fps: 1, preview: preview, min: mm[0], max: mm[1], trig: trig, constOn: (preview + trig) % 2})
			}
		}
	}
	alphabet := []string{"M", "N", "X", "B", "R"}
	for _, c := range cfgs {
		var rec func(prefix []string)
		rec = func(prefix []string) {
			if len(prefix) == 6 {
				fmt.Fprintln(w, c.header(id))
				id++
				hot := 0
				for _, a := range prefix {
					switch a {
					case "M":
						hot = 1 - hot
						fmt.Fprintln(w, plainFrame(hot))
					case "N":
						fmt.Fprintln(w, plainFrame(hot))
					case "X":
						hot = 1 - hot
						fmt.Fprintf(w, "f %d 1 0 1 0 1 1 1 1 1 1 1\n", hot)
					case "B":
						fmt.Fprintln(w, "b 1 1")
					case "R":
						fmt.Fprintln(w, "r 1")
					}
				}
				return
			}
			for _, a := range alphabet {
				rec(append(append([]string{}, prefix...), a))
			}
		}
		rec(nil)
	}
	// single and double fault placement: scenario of 14 frames with motion bursts, a bad frame,
	// a reset and a test request; fault k = (frame index, field index)
	scen := []string{"M", "M", "N", "M", "T", "M", "M", "B", "M", "M", "N", "R", "M", "M"}
	for _, c := range []cfg{{1, 1, 0, 1, 1, 1}, {1, 2, 1, 2, 2, 1}, {2, 1, 1, 1, 0, 1}} {
		nf := 0
		for _, a := range scen {
			if a == "M" || a == "N" {
				nf++
			}
		}
		fields := 11
		emit := func(f1, f2 int) {
			fmt.Fprintln(w, c.header(id))
			id++
			hot, k := 0, 0
			for _, a := range scen {
				switch a {
				case "M", "N":
					if a == "M" {
						hot = 1 - hot
					}
					v := []int{1, 1, 1, 0, 1, 1, 1, 1, 1, 1, 1}
					for _, ff := range []int{f1, f2} {
						if ff >= 0 && ff/fields == k {
							if ff%fields == 3 {
								v[3] = 1 + (k % 3)
							} else {
								v[ff%fields] = 0
							}
						}
					}
					fmt.Fprintf(w, "f %d %d %d %d %d %d %d %d %d %d %d %d\n", hot, v[0], v[1], v[2], v[3], v[4], v[5], v[6], v[7], v[8], v[9], v[10])
					k++
				case "B":
					fmt.Fprintln(w, "b 1 1")
				case "R":
					fmt.Fprintln(w, "r 1")
				case "T":
					fmt.Fprintln(w, "t")
				}
			}
		}
		for f1 := 0; f1 < nf*fields; f1++ {
			emit(f1, -1)
		}
		for f1 := 0; f1 < nf*fields; f1 += 3 {
			for f2 := f1 + 1; f2 < nf*fields; f2 += 5 {
				emit(f1, f2)
			}
		}
	}
	return id
}
