// Stream window: the real window.Window.Active() for absolute start/stop times with an
// injected clock (API level).
package main

import (
	"bufio"
	"fmt"
	"strings"
	"time"

	"github.com/TheCacophonyProject/window"

	"verifharness/common"
)

func main() { common.Main(common.Stream{Gen: gen, Run: run}) }

func hhmm(min int) string { return fmt.Sprintf("%02d:%02d", min/60, min%60) }

func run(in *bufio.Scanner, w *bufio.Writer) {
	var win *window.Window
	var now time.Time
	for in.Scan() {
		line := in.Text()
		fmt.Fprintln(w, ">", line)
		f := strings.Fields(line)
		if len(f) == 0 {
			continue
		}
		switch f[0] {
		case "case": // case id window <startMin> <stopMin>
			var err error
			win, err = window.New(hhmm(common.Atoi(f[3])), hhmm(common.Atoi(f[4])), -43.5, 172.6)
			if err != nil {
				fmt.Fprintln(w, "< new-error")
				continue
			}
			if !win.NoWindow {
				win.Now = func() time.Time { return now }
			}
		case "a": // a <day> <ns since midnight>
			var d, ns int64
			fmt.Sscan(f[1], &d)
			fmt.Sscan(f[2], &ns)
			now = time.Date(2021, 3, 1, 0, 0, 0, 0, time.UTC).Add(time.Duration(d) * 24 * time.Hour).Add(time.Duration(ns))
			common.Guard(w, "active", func() {
				if win.Active() {
					fmt.Fprintln(w, "< active 1")
				} else {
					fmt.Fprintln(w, "< active 0")
				}
			})
		}
	}
}

func gen(r *common.Rng, tier string, w *bufio.Writer) {
	cases := 300
	if tier == "thorough" {
		cases = 3000
	}
	const minute = int64(time.Minute)
	const day = 24 * 60 * minute
	for id := 0; id < cases; id++ {
		s := r.Pick(0, 1, 600, 1320, 1439, r.Intn(1440))
		e := r.Pick(0, 1, 360, 660, 1439, r.Intn(1440), s)
		fmt.Fprintf(w, "case %d window %d %d\n", id, s, e)
		for j := 0; j < 25; j++ {
			base := r.Pick64(int64(s)*minute, int64(e)*minute, 0, day-1, int64(r.Intn(1440))*minute)
			ns := base + r.Pick64(0, 0, -1, 1, int64(time.Second), -int64(time.Second), 59*int64(time.Second))
			// Pick64 clamps negatives to 0: apply the offset by hand
			off := []int64{0, -1, 1, int64(time.Second), -int64(time.Second), 30 * minute}[r.Intn(6)]
			ns = base + off
			if ns < 0 {
				ns += day
			}
			if ns >= day {
				ns -= day
			}
			fmt.Fprintf(w, "a %d %d\n", r.Intn(400), ns)
		}
	}
}
