// Stream ring: motion.FrameLoop (API level, no overlay).
package main

import (
	"bufio"
	"fmt"
	"strings"

	"github.com/TheCacophonyProject/go-cptv/cptvframe"
	"github.com/TheCacophonyProject/thermal-recorder/motion"
	"verifharness/common"
)

func tagOf(f *cptvframe.Frame) int { return int(f.Pix[0][0]) | int(f.Pix[0][1])<<16 }
func setTag(f *cptvframe.Frame, t int) {
	f.Pix[0][0] = uint16(t)
	f.Pix[0][1] = uint16(t >> 16)
}

func main() { common.Main(common.Stream{Gen: genRing, Run: runRing}) }

// ops: w <tag> (fill current), m (Move), k (SetAsOldest), r (Reset), h (GetHistory),
// o (Oldest), c (CopyRecent), u (Current)
func genRing(r *common.Rng, tier string, w *bufio.Writer) {
	cases, maxLen := 300, 60
	if tier == "thorough" {
		cases, maxLen = 3000, 120
	}
	id := 0
	emit := func(size int, ops []string) {
		fmt.Fprintf(w, "case %d ring %d\n", id, size)
		id++
		for _, o := range ops {
			fmt.Fprintln(w, o)
		}
	}
	if tier == "thorough" {
		// bounded-exhaustive: every sequence of protocol steps up to length 7 over
		// {push, mark, reset, bare move}, each step followed by all observations, sizes 1..4
		alphabet := []string{"P", "k", "r", "m"}
		for size := 1; size <= 4; size++ {
			var rec func(prefix []string)
			rec = func(prefix []string) {
				if len(prefix) > 0 {
					var ops []string
					tag := 1
					for _, a := range prefix {
						if a == "P" {
							ops = append(ops, fmt.Sprintf("w %d", tag), "m")
							tag++
						} else {
							ops = append(ops, a)
						}
						ops = append(ops, "h", "o", "c", "u")
					}
					emit(size, ops)
				}
				if len(prefix) == 7 {
					return
				}
				for _, a := range alphabet {
					rec(append(append([]string{}, prefix...), a))
				}
			}
			rec(nil)
		}
	}
	for i := 0; i < cases; i++ {
		size := r.Range(1, 9)
		n := r.Range(1, maxLen)
		var ops []string
		tag := 1
		for j := 0; j < n; j++ {
			c := r.Intn(100)
			switch {
			case c < 45: // protocol push
				ops = append(ops, fmt.Sprintf("w %d", tag), "m")
				tag++
			case c < 50:
				ops = append(ops, "m") // bare move over an unwritten slot
			case c < 55:
				ops = append(ops, fmt.Sprintf("w %d", tag))
				tag++
			case c < 65:
				ops = append(ops, "k")
			case c < 69:
				ops = append(ops, "r")
			case c < 85:
				ops = append(ops, "h")
			case c < 92:
				ops = append(ops, "o")
			case c < 97:
				ops = append(ops, "c")
			default:
				ops = append(ops, "u")
			}
		}
		ops = append(ops, "h", "o", "c")
		emit(size, ops)
	}
}

func runRing(in *bufio.Scanner, w *bufio.Writer) {
	var fl *motion.FrameLoop
	c := common.Cam{X: 2, Y: 1, Fps: 1}
	for in.Scan() {
		line := in.Text()
		fmt.Fprintln(w, ">", line)
		f := strings.Fields(line)
		if len(f) == 0 {
			continue
		}
		switch f[0] {
		case "case":
			fl = motion.NewFrameLoop(common.Atoi(f[3]), c)
		case "w":
			common.Guard(w, "write", func() { setTag(fl.Current(), common.Atoi(f[1])) })
		case "m":
			// the tag found in the new current slot (stale content) is an observation
			common.Guard(w, "move", func() { fmt.Fprintf(w, "< m %d\n", tagOf(fl.Move())) })
		case "k":
			common.Guard(w, "mark", func() { fl.SetAsOldest() })
		case "r":
			common.Guard(w, "reset", func() { fl.Reset(); fmt.Fprintf(w, "< r %d\n", tagOf(fl.Current())) })
		case "h":
			common.Guard(w, "history", func() {
				var sb strings.Builder
				for _, fr := range fl.GetHistory() {
					fmt.Fprintf(&sb, " %d", tagOf(fr))
				}
				fmt.Fprintf(w, "< h%s\n", sb.String())
			})
		case "o":
			common.Guard(w, "oldest", func() { fmt.Fprintf(w, "< o %d\n", tagOf(fl.Oldest())) })
		case "c":
			common.Guard(w, "recent", func() {
				if fr := fl.CopyRecent(); fr == nil {
					fmt.Fprintln(w, "< c none")
				} else {
					fmt.Fprintf(w, "< c %d\n", tagOf(fr))
				}
			})
		case "u":
			common.Guard(w, "current", func() { fmt.Fprintf(w, "< u %d\n", tagOf(fl.Current())) })
		}
	}
}
