// Stream throttle: the real throttle.ThrottledRecorder over the real juju/ratelimit bucket,
// with an injected clock, a scripted base recorder and a listener (API level, no overlay).
// The (quantum, fillInterval) pair the library derives from the configured rate is measured
// on a reference bucket and handed to the model on the case line; its 1 % contract is asserted.
package main

import (
	"bufio"
	"errors"
	"fmt"
	"io"
	"log"
	"math"
	"reflect"
	"strings"
	"time"

	config "github.com/TheCacophonyProject/go-config"
	"github.com/TheCacophonyProject/go-cptv/cptvframe"
	"github.com/TheCacophonyProject/thermal-recorder/throttle"
	"github.com/juju/ratelimit"

	"verifharness/common"
)

func main() {
	log.SetOutput(io.Discard)
	common.Main(common.Stream{Gen: gen, Run: run})
}

type clock struct{ now time.Time }

func (c *clock) Now() time.Time        { return c.now }
func (c *clock) Sleep(d time.Duration) {}

type base struct {
	w             *bufio.Writer
	sok, wok, pok bool
}

func okS(ok bool) string {
	if ok {
		return "ok"
	}
	return "err"
}
func res(ok bool) error {
	if ok {
		return nil
	}
	return errors.New("scripted failure")
}
func (b *base) CheckCanRecord() error { return nil }
func (b *base) StartRecording(bg *cptvframe.Frame, thresh uint16) error {
	if bg == nil || bg.Pix[0][0] != thresh {
		fmt.Fprintln(b.w, "< b.start-background-mismatch")
	}
	fmt.Fprintf(b.w, "< b.start %d %s\n", thresh, okS(b.sok))
	return res(b.sok)
}
func (b *base) WriteFrame(f *cptvframe.Frame) error {
	fmt.Fprintf(b.w, "< b.write %d %s\n", int(f.Pix[0][0])|int(f.Pix[0][1])<<16, okS(b.wok))
	return res(b.wok)
}
func (b *base) StopRecording() error {
	fmt.Fprintf(b.w, "< b.stop %s\n", okS(b.pok))
	return res(b.pok)
}

type lis struct{ w *bufio.Writer }

func (l lis) WhenThrottled() { fmt.Fprintln(l.w, "< throttled") }

func kv(f []string, k string) int {
	for _, s := range f {
		if strings.HasPrefix(s, k+"=") {
			return common.Atoi(s[len(k)+1:])
		}
	}
	return 0
}
func bl(s string) bool { return s == "1" }

// libParams measures what the library derives for this rate: (quantum, fillInterval ns, rate ok)
func libParams(rate float64, capacity int64) (q, fill int64, contract bool) {
	rb := ratelimit.NewBucketWithRateAndClock(rate, capacity, &clock{time.Unix(0, 0)})
	v := reflect.ValueOf(rb).Elem()
	q = v.FieldByName("quantum").Int()
	fill = v.FieldByName("fillInterval").Int()
	contract = math.Abs(rb.Rate()-rate)/rate <= 0.01
	return
}

func params(f []string) (capacity, minlen int64, rate float64) {
	fps := kv(f, "fps")
	capacity = int64(kv(f, "bucketsecs")) * int64(fps)
	minlen = int64(kv(f, "minsecs") * fps)
	rate = float64(minlen) / (time.Duration(kv(f, "refillms")) * time.Millisecond).Seconds()
	return
}

func run(in *bufio.Scanner, w *bufio.Writer) {
	var tr *throttle.ThrottledRecorder
	clk := &clock{}
	start := time.Date(2021, 1, 1, 0, 0, 0, 0, time.UTC)
	bs := &base{w: w}
	cam := common.Cam{X: 2, Y: 1, Fps: 1}
	upOpen := false
	for in.Scan() {
		line := in.Text()
		fmt.Fprintln(w, ">", line)
		f := strings.Fields(line)
		if len(f) == 0 {
			continue
		}
		switch f[0] {
		case "case":
			cam.Fps = kv(f, "fps")
			// the property's formulas: bucket = bucket-size*fps frames, refill = (min+preview)*fps per min-refill
			capacity, minlen, rate := params(f)
			q, fill, contract := libParams(rate, capacity)
			fmt.Fprintf(w, "< bucket cap=%d q=%d fill=%d minlen=%d contract=%v\n", capacity, q, fill, minlen, contract)
			clk.now = start
			conf := &config.ThermalThrottler{Activate: true, BucketSize: time.Duration(kv(f, "bucketsecs"))*time.Second + time.Duration(kv(f, "bucketfracms"))*time.Millisecond,
				MinRefill: time.Duration(kv(f, "refillms")) * time.Millisecond}
			tr = throttle.NewThrottledRecorderWithClock(bs, conf, kv(f, "minsecs"), lis{w}, clk, cam)
			upOpen = false
		case "s":
			if upOpen {
				fmt.Fprintln(w, "< skipped")
				continue
			}
			clk.now = start.Add(time.Duration(common.Atoi(f[1])))
			bs.sok = bl(f[3])
			tag := uint16(common.Atoi(f[2]))
			bg := cptvframe.NewFrame(cam)
			bg.Pix[0][0] = tag
			common.Guard(w, "start", func() {
				err := tr.StartRecording(bg, tag)
				fmt.Fprintf(w, "< ret %s\n", okS(err == nil))
				upOpen = err == nil
			})
		case "w":
			if !upOpen {
				fmt.Fprintln(w, "< skipped")
				continue
			}
			clk.now = start.Add(time.Duration(common.Atoi(f[1])))
			bs.sok, bs.wok, bs.pok = bl(f[3]), bl(f[4]), bl(f[5])
			fr := cptvframe.NewFrame(cam)
			id := common.Atoi(f[2])
			fr.Pix[0][0], fr.Pix[0][1] = uint16(id), uint16(id>>16)
			common.Guard(w, "write", func() {
				err := tr.WriteFrame(fr)
				fmt.Fprintf(w, "< ret %s\n", okS(err == nil))
			})
		case "p":
			if !upOpen {
				fmt.Fprintln(w, "< skipped")
				continue
			}
			bs.pok = bl(f[1])
			common.Guard(w, "stop", func() {
				err := tr.StopRecording()
				fmt.Fprintf(w, "< ret %s\n", okS(err == nil))
			})
			upOpen = false
		}
	}
}

func gen(r *common.Rng, tier string, w *bufio.Writer) {
	cases, length := 300, 160
	if tier == "thorough" {
		cases, length = 3000, 260
	}
	// the default configuration's sizes with cameras whose frame period is not a whole number of milliseconds:
	// one burst at a single instant must admit exactly bucket-size*fps frames
	{
		fps := r.Pick(60, 30, 48, 9)
		hdr := fmt.Sprintf("case big throttle bucketsecs=600 refillms=600000 minsecs=15 fps=%d", fps)
		fmt.Fprintln(w, hdr)
		capacity, _, _ := params(strings.Fields(hdr))
		fmt.Fprintf(w, "s 0 100 1\n")
		for k := int64(1); k <= capacity+40; k++ {
			fmt.Fprintf(w, "w 0 %d 1 1 1\n", k)
		}
		fmt.Fprintf(w, "p 1\n")
	}
	for id := 0; id < cases; id++ {
		fps := r.Pick(1, 1, 2, 3, 9)
		bucketsecs := r.Pick(1, 2, 3, 5, 8, 20)
		minsecs := r.Pick(1, 1, 2, 3, 4)
		if minsecs > bucketsecs && r.Chance(85) {
			minsecs = r.Range(1, bucketsecs)
		}
		refillms := r.Pick(1000, 1500, 3000, 7000, 10000, 60000, 600000)
		// a bucket-size with a fraction of a second: the frames of the fraction do not count (whole seconds times fps)
		hdr := fmt.Sprintf("case %d throttle bucketsecs=%d refillms=%d minsecs=%d fps=%d bucketfracms=%d", id, bucketsecs, refillms, minsecs, fps, r.Pick(0, 0, 0, 250, 500, 750, 999))
		fmt.Fprintln(w, hdr)
		capacity, minlen, rate := params(strings.Fields(hdr))
		_, fill, _ := libParams(rate, capacity)
		faulty := r.Chance(35)
		t := int64(0)
		fid := 1
		tag := 100
		// schedule style per phase
		phase, left := 0, 0
		for j := 0; j < length; j++ {
			if left == 0 {
				phase = r.Intn(5)
				left = r.Range(3, 40)
			}
			left--
			// clock advance
			switch phase {
			case 0: // burst: no time passes
			case 1: // camera-rate frames
				t += int64(time.Second) / int64(fps)
			case 2: // churn around the tick boundary
				t += r.Pick64(fill-1, fill, fill+1, 1, fill/2)
			case 3: // long idle now and then
				if r.Chance(15) {
					t += fill * int64(r.Range(1, int(capacity)+3))
				}
			case 4: // refill roughly one clip
				if r.Chance(20) {
					t += fill * minlen
				} else {
					t += r.Pick64(0, 1, fill)
				}
			}
			ok := func(pct int) int {
				if faulty && r.Chance(pct) {
					return 0
				}
				return 1
			}
			x := r.Intn(100)
			switch {
			case x < 8:
				fmt.Fprintf(w, "s %d %d %d\n", t, tag, ok(25))
				tag++
			case x < 16:
				fmt.Fprintf(w, "p %d\n", ok(20))
			default:
				fmt.Fprintf(w, "w %d %d %d %d %d\n", t, fid, ok(20), ok(10), ok(15))
				fid++
			}
		}
	}
}
