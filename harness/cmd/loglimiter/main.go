// Stream loglimiter: the real loglimiter.LogLimiter with an injected clock (overlay
// accessor for the unexported nowFunc) and captured log output.
package main

import (
	"bufio"
	"bytes"
	"fmt"
	"log"
	"strings"
	"time"

	"github.com/TheCacophonyProject/thermal-recorder/loglimiter"

	"verifharness/common"
)

func main() { common.Main(common.Stream{Gen: gen, Run: run}) }

// text of message <id>: the messages the recorder logs are formatted error strings, which may contain
// anything — per cent signs, format verbs, quotes
func text(id string) string {
	switch id {
	case "1":
		return "Recording not started: disk 97% used on /var/spool/cptv"
	case "2":
		return "Can't start recording file: open /tmp/a%20b/%s%d%v: no such file"
	// long messages (a path error with the recording's file name crosses 100 bytes); 3 and 4 share their first 120 bytes
	case "3":
		return "Failed to write to CPTV file write /var/spool/cptv/20210304.101112.123.cptv.temp.tmp: no space left on device; recording 20210304.101112.123 abandoned (A)"
	case "4":
		return "Failed to write to CPTV file write /var/spool/cptv/20210304.101112.123.cptv.temp.tmp: no space left on device; recording 20210304.101112.123 abandoned (B)"
	}
	return "message-" + id
}

func run(in *bufio.Scanner, w *bufio.Writer) {
	var l *loglimiter.LogLimiter
	var now time.Time
	base := time.Date(2021, 1, 1, 0, 0, 0, 0, time.UTC)
	var buf bytes.Buffer
	log.SetFlags(0)
	log.SetOutput(&buf)
	for in.Scan() {
		line := in.Text()
		fmt.Fprintln(w, ">", line)
		f := strings.Fields(line)
		if len(f) == 0 {
			continue
		}
		switch f[0] {
		case "case": // case id loglimiter interval=<ns>
			iv := common.Atoi(strings.TrimPrefix(f[3], "interval="))
			l = loglimiter.New(time.Duration(iv))
			l.VerifSetClock(func() time.Time { return now })
		case "m": // m <t ns> <message id> [f]  — "f" uses Printf
			now = base.Add(time.Duration(common.Atoi(f[1])))
			buf.Reset()
			msg := text(f[2])
			common.Guard(w, "print", func() {
				if len(f) > 3 {
					l.Printf("%s", msg)
				} else {
					l.Print(msg)
				}
			})
			out := buf.String()
			switch {
			case out == "":
				fmt.Fprintln(w, "< suppressed")
			case out == msg+"\n":
				fmt.Fprintln(w, "< printed", f[2])
			default:
				fmt.Fprintf(w, "< printed-modified %q\n", out)
			}
		}
	}
}

func gen(r *common.Rng, tier string, w *bufio.Writer) {
	id := 0
	emit := func(iv int64, ops []string) {
		fmt.Fprintf(w, "case %d loglimiter interval=%d\n", id, iv)
		id++
		for _, o := range ops {
			fmt.Fprintln(w, o)
		}
	}
	if tier == "thorough" {
		// exhaustive: histories of length <= 5 over 3 messages x 4 time steps, interval 10
		steps := []int64{0, 9, 10, 11}
		var rec func(ops []string, t int64)
		rec = func(ops []string, t int64) {
			if len(ops) > 0 {
				emit(10, ops)
			}
			if len(ops) == 5 {
				return
			}
			for m := 0; m < 3; m++ {
				for _, d := range steps {
					rec(append(append([]string{}, ops...), fmt.Sprintf("m %d %d", t+d, m)), t+d)
				}
			}
		}
		rec(nil, 100)
	}
	cases := 400
	if tier == "thorough" {
		cases = 4000
	}
	for i := 0; i < cases; i++ {
		iv := r.Pick64(1, 10, 1000, int64(time.Minute), int64(time.Minute))
		nm := r.Pick(1, 2, 3, 5, 5)
		long := nm == 5 && r.Chance(50) // only the two long messages: repeats of each, alternation between them
		t := int64(r.Pick(0, 5, int(time.Minute), 2*int(time.Minute)))
		var ops []string
		for j := 0; j < r.Range(5, 60); j++ {
			t += r.Pick64(0, 1, iv-1, iv, iv+1, iv/2, 2*iv, iv/3)
			pf := ""
			if r.Chance(30) {
				pf = " f"
			}
			id := r.Intn(nm)
			if long {
				id = 3 + r.Intn(2)
			}
			ops = append(ops, fmt.Sprintf("m %d %d%s", t, id, pf))
		}
		emit(iv, ops)
	}
}
