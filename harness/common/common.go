// Package common holds what every correspondence stream shares: the line protocol,
// the single PRNG all random choices derive from, and panic capture.
//
//	<stream> gen <seed> <tier>   > ops.txt
//	<stream> run                 < ops.txt > real.txt
//
// real.txt echoes every op line as "> op" followed by the implementation's canonicalised
// outputs as "< out" lines.
package common

import (
	"bufio"
	"fmt"
	"os"
	"strconv"
)

type Stream struct {
	Gen func(r *Rng, tier string, w *bufio.Writer)
	Run func(in *bufio.Scanner, w *bufio.Writer)
}

func Main(s Stream) {
	if len(os.Args) < 2 {
		fmt.Fprintln(os.Stderr, "usage: <stream> gen <seed> <tier> | run")
		os.Exit(2)
	}
	w := bufio.NewWriterSize(os.Stdout, 1<<20)
	defer w.Flush()
	switch os.Args[1] {
	case "gen":
		seed, _ := strconv.ParseUint(os.Args[2], 10, 64)
		tier := "quick"
		if len(os.Args) > 3 {
			tier = os.Args[3]
		}
		s.Gen(NewRng(seed), tier, w)
	case "run":
		in := bufio.NewScanner(os.Stdin)
		in.Buffer(make([]byte, 1<<20), 1<<26)
		s.Run(in, w)
	default:
		os.Exit(2)
	}
}

// Rng is splitmix64: every random choice of a run derives from one seed.
type Rng struct{ s uint64 }

// The state is the generator's own output for the seed: consecutive seeds must not give shifted copies of one sequence.
func NewRng(seed uint64) *Rng {
	r := &Rng{seed ^ 0x1234567}
	r.s = r.Next() ^ (seed << 32)
	return r
}
func (r *Rng) Next() uint64 {
	r.s += 0x9E3779B97F4A7C15
	z := r.s
	z = (z ^ (z >> 30)) * 0xBF58476D1CE4E5B9
	z = (z ^ (z >> 27)) * 0x94D049BB133111EB
	return z ^ (z >> 31)
}
func (r *Rng) Intn(n int) int      { return int(r.Next() % uint64(n)) }
func (r *Rng) Range(a, b int) int  { return a + r.Intn(b-a+1) }
func (r *Rng) Chance(pct int) bool { return r.Intn(100) < pct }
func (r *Rng) Pick(xs ...int) int  { return xs[r.Intn(len(xs))] }

func (r *Rng) Pick64(xs ...int64) int64 {
	v := xs[r.Intn(len(xs))]
	if v < 0 {
		return 0
	}
	return v
}

func Atoi(s string) int { n, _ := strconv.Atoi(s); return n }

// Guard runs f and converts a panic into an output line.
func Guard(w *bufio.Writer, where string, f func()) {
	defer func() {
		if e := recover(); e != nil {
			fmt.Fprintf(w, "< panic %s\n", where)
		}
	}()
	f()
}

// Cam is a cptvframe.CameraSpec.
type Cam struct{ X, Y, Fps int }

func (c Cam) ResX() int { return c.X }
func (c Cam) ResY() int { return c.Y }
func (c Cam) FPS() int  { return c.Fps }
