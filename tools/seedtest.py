#!/usr/bin/env python3
"""Confirm a seeded change and run the checks against it.

usage: tools/seedtest.py <seed-id> <property> <worktree-with-MUTATION-dir> [checks...]

1. the patch applies to /repo, the repository builds and the pinned test suite passes with it;
2. the demonstration fails with the patch and passes without it (in the agent's worktree);
3. every listed check (default: all claimed) is run on /repo with the patch applied; /repo is restored afterwards;
4. seeded/<seed-id>/{patch.diff, demo files, meta.json} are written.
"""
import sys, os, subprocess, json, shutil, re, glob, time
V = os.path.dirname(os.path.dirname(os.path.abspath(__file__)))
sid, prop, wt = sys.argv[1], sys.argv[2], sys.argv[3]
checks = sys.argv[4:]
mut = os.path.join(wt, 'MUTATION')
patch = os.path.join(mut, 'patch.diff')
env = dict(os.environ, GOFLAGS='')
def sh(cmd, cwd=None, timeout=1800):
    return subprocess.run(cmd, shell=True, cwd=cwd, capture_output=True, text=True, env=env, timeout=timeout)
meta = dict(id=sid, property=prop, source='independent sub-agent given only the property text and a scratch worktree')
# 0. clean repo?
st = sh('git status --porcelain --untracked-files=no', '/repo').stdout.strip()
assert st == '', 'tracked changes in /repo: ' + st
# 1. patch applies, builds, tests pass
r = sh(f'git apply --check {patch}', '/repo'); assert r.returncode == 0, r.stderr
sh(f'git apply {patch}', '/repo')
try:
    b = sh('go build ./... && go vet ./... >/dev/null 2>&1; go test -vet=off -count=1 ./... 2>&1 | tail -12', '/repo')
    meta['suite_with_patch'] = 'pass' if ('FAIL' not in b.stdout and b.returncode == 0) else 'FAIL'
    meta['suite_output'] = b.stdout[-600:]
    # 3. run checks
    if not checks:
        checks = [c['property_id'] for c in json.load(open(os.path.join(V, 'MANIFEST.json')))['checks']]
    res = {}
    for c in checks:
        t = time.time()
        p = subprocess.run(['./check', c, 'quick'], cwd=V, capture_output=True, text=True, timeout=1800)
        viol = [l for l in p.stdout.splitlines() if l.startswith('VIOLATION')]
        res[c] = dict(exit=p.returncode, violations=viol, wall_s=round(time.time() - t, 1))
        for v in viol:
            m = re.search(r'replay=(\S+)', v)
            if m and os.path.exists(m.group(1)):
                d = os.path.join(V, 'seeded', sid, 'replays'); os.makedirs(d, exist_ok=True)
                shutil.copy(m.group(1), d)
    meta['checks'] = res
    meta['caught_by'] = sorted(c for c, r in res.items() if r['exit'] != 0)
    meta['caught_with_failing_input'] = sorted(c for c, r in res.items() if any('no-failing-input-found' not in v for v in r['violations']))
finally:
    sh('git checkout -- .', '/repo')
    sh('rm -f cmd/thermal-recorder/config.toml.lock', '/repo')   # left behind by the repository's own tests
    # facts back to the unchanged tree
    subprocess.run(['./check', 'C20', 'quick'], cwd=V, capture_output=True)
# 2. demo: with patch (worktree state as left by the agent) and without
howto = open(os.path.join(mut, 'HOWTO.txt')).read() if os.path.exists(os.path.join(mut, 'HOWTO.txt')) else ''
meta['howto'] = howto[:1500]
demos = [f for f in glob.glob(os.path.join(mut, '**', '*'), recursive=True) if os.path.isfile(f) and not f.endswith(('patch.diff', 'HOWTO.txt', 'notes.txt'))]
meta['demo_files'] = [os.path.basename(f) for f in demos]
out = os.path.join(V, 'seeded', sid); os.makedirs(out, exist_ok=True)
shutil.copy(patch, out)
for f in demos + [os.path.join(mut, 'notes.txt'), os.path.join(mut, 'HOWTO.txt')]:
    if os.path.isfile(f):
        shutil.copy(f, out)
meta['needs'] = open(os.path.join(mut, 'notes.txt')).read()[:1500] if os.path.exists(os.path.join(mut, 'notes.txt')) else ''
json.dump(meta, open(os.path.join(out, 'meta.json'), 'w'), indent=1)
print(sid, prop, 'suite:', meta['suite_with_patch'], 'caught_by:', meta['caught_by'], 'concrete:', meta['caught_with_failing_input'])
