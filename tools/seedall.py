#!/usr/bin/env python3
"""Re-run, for every filed seeded change, the quick check of its target property (regression of the detection itself).

usage: tools/seedall.py [first-seed-number]   -> seeded/REGRESSION.txt
"""
import sys, os, subprocess, json, glob, re, time
V = os.path.dirname(os.path.dirname(os.path.abspath(__file__)))
start = int(sys.argv[1]) if len(sys.argv) > 1 else 1
rows = []
for d in sorted(glob.glob(os.path.join(V, 'seeded', 'S*')), key=lambda p: int(re.match(r'S(\d+)', os.path.basename(p)).group(1))):
    sid = os.path.basename(d)
    n = int(re.match(r'S(\d+)', sid).group(1))
    if n < start:
        continue
    meta = json.load(open(os.path.join(d, 'meta.json')))
    prop = meta['property']
    t = time.time()
    p = subprocess.run([sys.executable, os.path.join(V, 'tools', 'seedrecheck.py'), sid, prop], capture_output=True, text=True)
    line = (p.stdout.strip().splitlines() or ['?'])[-1]
    concrete = prop in line.split('concrete:')[-1] if 'concrete:' in line else False
    rows.append(f"{sid} {prop} {'concrete' if concrete else 'NOT-CONCRETE'} {round(time.time()-t)}s")
    print(rows[-1], flush=True)
open(os.path.join(V, 'seeded', 'REGRESSION.txt'), 'w').write('\n'.join(rows) + '\n')
