#!/usr/bin/env python3
"""Run every quick check against a change that is meant to PRESERVE all properties (false-alarm trial).

usage: tools/benigntest.py <id> <patch-file> [notes-file]

The patch is applied to /repo, the pinned test suite and all claimed checks are run, /repo is restored.
benign/<id>/{patch.diff, notes.txt, result.json}: per check: ok | violation with a failing input (= a FALSE ALARM unless the
change turns out not to be benign) | violation without one (proof obligation or correspondence broken by the rewrite:
allowed by the protocol, recorded as the price of the tie).
"""
import sys, os, subprocess, json, shutil, re, time
from concurrent.futures import ThreadPoolExecutor
V = os.path.dirname(os.path.dirname(os.path.abspath(__file__)))
bid, patch = sys.argv[1], os.path.abspath(sys.argv[2])
notes = sys.argv[3] if len(sys.argv) > 3 else None
env = dict(os.environ, GOFLAGS='')
REPO = os.environ.get('VERIF_REPO', '/repo')
OUT = os.environ.get('BENIGN_OUT', os.path.join(V, 'benign'))
def sh(cmd, cwd=None, timeout=1800):
    return subprocess.run(cmd, shell=True, cwd=cwd, capture_output=True, text=True, env=env, timeout=timeout)
st = sh('git status --porcelain --untracked-files=no', REPO).stdout.strip()
assert st == '', 'tracked changes in /repo: ' + st
r = sh(f'git apply --check {patch}', REPO); assert r.returncode == 0, r.stderr
sh(f'git apply {patch}', REPO)
out = os.path.join(OUT, bid); os.makedirs(out, exist_ok=True)
meta = dict(id=bid)
try:
    b = sh('go build ./... && go test -vet=off -count=1 ./... 2>&1 | tail -12', REPO)
    meta['suite_with_patch'] = 'pass' if ('FAIL' not in b.stdout and b.returncode == 0) else 'FAIL'
    checks = [c['property_id'] for c in json.load(open(os.path.join(V, 'MANIFEST.json')))['checks']]
    def run(c):
        t = time.time()
        p = subprocess.run(['./check', c, 'quick'], cwd=V, capture_output=True, text=True, timeout=3600)
        viol = [l for l in p.stdout.splitlines() if l.startswith('VIOLATION')]
        kept = []
        for v in viol:
            m = re.search(r'replay=(\S+)', v)
            if m and os.path.exists(m.group(1)):
                d = os.path.join(out, 'replays'); os.makedirs(d, exist_ok=True)
                shutil.copy(m.group(1), d)
                kept.append(os.path.basename(m.group(1)))
        return c, dict(exit=p.returncode, violations=viol, wall_s=round(time.time() - t, 1))
    # the first check regenerates the facts and rebuilds what depends on them; the rest can share that
    res = dict([run(checks[0])])
    with ThreadPoolExecutor(max_workers=3) as ex:
        res.update(dict(ex.map(run, checks[1:])))
    meta['checks'] = res
    meta['alarms_with_failing_input'] = sorted(c for c, r in res.items() if any('no-failing-input-found' not in v for v in r['violations']))
    meta['tie_broken_only'] = sorted(c for c, r in res.items() if r['violations'] and all('no-failing-input-found' in v for v in r['violations']))
    meta['quiet'] = sorted(c for c, r in res.items() if r['exit'] == 0)
finally:
    sh('git checkout -- .', REPO)
    sh('rm -f cmd/thermal-recorder/config.toml.lock', REPO)
    subprocess.run(['./check', 'C20', 'quick'], cwd=V, capture_output=True)   # facts back to the unchanged tree
shutil.copy(patch, os.path.join(out, 'patch.diff'))
if notes and os.path.exists(notes):
    shutil.copy(notes, os.path.join(out, 'notes.txt'))
json.dump(meta, open(os.path.join(out, 'result.json'), 'w'), indent=1)
print(bid, 'suite:', meta.get('suite_with_patch'), 'ALARMS:', meta.get('alarms_with_failing_input'), 'tie-broken:', meta.get('tie_broken_only'))
