#!/usr/bin/env python3
"""Re-run checks against an already filed seeded change (seeded/<id>/patch.diff) and update its meta.json.

usage: tools/seedrecheck.py <seed-id> [checks...]      (default: the checks recorded in meta.json)
"""
import sys, os, subprocess, json, shutil, re, time
V = os.path.dirname(os.path.dirname(os.path.abspath(__file__)))
sid = sys.argv[1]
d = os.path.join(V, 'seeded', sid)
meta = json.load(open(os.path.join(d, 'meta.json')))
checks = sys.argv[2:] or list(meta['checks'])
patch = os.path.join(d, 'patch.diff')
st = subprocess.run('git status --porcelain --untracked-files=no', shell=True, cwd='/repo', capture_output=True, text=True).stdout.strip()
assert st == '', 'tracked changes in /repo: ' + st
r = subprocess.run(['git', 'apply', patch], cwd='/repo', capture_output=True, text=True)
assert r.returncode == 0, r.stderr
try:
    for c in checks:
        t = time.time()
        p = subprocess.run(['./check', c, 'quick'], cwd=V, capture_output=True, text=True, timeout=3000)
        viol = [l for l in p.stdout.splitlines() if l.startswith('VIOLATION')]
        meta['checks'][c] = dict(exit=p.returncode, violations=viol, wall_s=round(time.time() - t, 1))
        for v in viol:
            m = re.search(r'replay=(\S+)', v)
            if m and os.path.exists(m.group(1)):
                rd = os.path.join(d, 'replays'); os.makedirs(rd, exist_ok=True)
                shutil.copy(m.group(1), rd)
finally:
    subprocess.run('git checkout -- .', shell=True, cwd='/repo')
    subprocess.run(['./check', 'C20', 'quick'], cwd=V, capture_output=True)
res = meta['checks']
meta['caught_by'] = sorted(c for c, r in res.items() if r['exit'] != 0)
meta['caught_with_failing_input'] = sorted(c for c, r in res.items() if any('no-failing-input-found' not in v for v in r['violations']))
json.dump(meta, open(os.path.join(d, 'meta.json'), 'w'), indent=1)
print(sid, 'caught_by:', meta['caught_by'], 'concrete:', meta['caught_with_failing_input'])
