#!/usr/bin/env python3
"""Which statements of the repository do the correspondence streams execute?  (blind-spot finder, not a check)

usage: tools/coverage.py [tier] -> prints per file the uncovered blocks of the anchored packages
Builds every stream with -cover, runs corpus + one generated run, merges the counters.
"""
import sys, os, subprocess, json, glob, shutil, re
sys.path.insert(0, os.path.dirname(os.path.abspath(__file__)))
import checklib
from registry import STREAMS
tier = sys.argv[1] if len(sys.argv) > 1 else 'quick'
V = checklib.VERIF; REPO = checklib.REPO
work = '/tmp/verif_cov'; shutil.rmtree(work, ignore_errors=True); os.makedirs(work)
MOD = 'github.com/TheCacophonyProject/thermal-recorder'
profiles = []
R = os.path.join(work, 'repo')
subprocess.run(['rsync', '-a', '--exclude', '.git', REPO + '/', R + '/'], check=True)
STREAMS = {k: v for k, v in STREAMS.items() if not any(d.startswith('@mod:') for d in (v.get('overlay') or {}))}  # module-cache overlays cannot be materialised in a copy
for st in STREAMS.values():
    for d, s in (st.get('overlay') or {}).items():
        shutil.copy(os.path.join(V, 'overlay', s), os.path.join(R, d))
mf = os.path.join(work, 'harness.go.mod')
open(mf, 'w').write(open(os.path.join(checklib.HARNESS, 'go.mod')).read().replace('=> /repo', '=> ' + R))
shutil.copy(os.path.join(REPO, 'go.sum'), os.path.join(work, 'harness.go.sum'))
for name, st in STREAMS.items():
    out = os.path.join(work, 'h_' + name)
    cmd = ['go', 'build', '-cover', '-coverpkg=' + ','.join(MOD + '/' + x for x in ('motion', 'throttle', 'loglimiter', 'recorder', 'headers', 'leptondController')) + (',' + MOD + '/' + st['daemon'][2:] if st.get('daemon') else ',verifharness/...'), '-tags', 'verif']
    env = checklib.goenv()
    cwd = checklib.HARNESS
    if st.get('daemon'):
        cwd = R; env['GOFLAGS'] = ''
        cmd += ['-o', out, st['daemon']]
    else:
        cmd += ['-modfile', mf, '-o', out, st['pkg']]
    p = subprocess.run(cmd, cwd=cwd, env=env, capture_output=True, text=True)
    if p.returncode != 0:
        print('build failed', name, p.stderr[-500:]); continue
    cd = os.path.join(work, 'cov_' + name); os.makedirs(cd)
    env2 = dict(os.environ, VERIF_HARNESS=name, GOCOVERDIR=cd, VERIF_WORKDIR=os.path.join(work, 'w_' + name))
    runs = sorted(glob.glob(os.path.join(V, 'corpus', name, '*.ops')))
    ops = os.path.join(work, name + '.ops')
    with open(ops, 'w') as fo:
        subprocess.run([out, 'gen', '1', tier], stdout=fo, env=env2, timeout=600)
    for o in runs + [ops]:
        with open(o) as fi, open(os.devnull, 'w') as dn:
            try:
                subprocess.run([out, 'run'], stdin=fi, stdout=dn, stderr=dn, env=env2, timeout=900)
            except subprocess.TimeoutExpired:
                print('timeout', name)
    prof = os.path.join(work, name + '.txt')
    subprocess.run(['go', 'tool', 'covdata', 'textfmt', '-i=' + cd, '-o', prof], cwd=R, env=dict(checklib.goenv(), GOFLAGS=''), capture_output=True)
    if os.path.exists(prof):
        profiles.append(prof)
cov = {}
for prof in profiles:
    for line in open(prof):
        if line.startswith('mode:'):
            continue
        m = re.match(r'(.+):(\d+)\.(\d+),(\d+)\.(\d+) (\d+) (\d+)', line)
        if not m or 'zz_verif' in m.group(1):
            continue
        key = (m.group(1), int(m.group(2)), int(m.group(3)), int(m.group(4)), int(m.group(5)), int(m.group(6)))
        cov[key] = cov.get(key, 0) + int(m.group(7))
byfile = {}
for (f, l1, c1, l2, c2, n), cnt in cov.items():
    d = byfile.setdefault(f, [0, 0, []])
    d[0] += n
    if cnt > 0:
        d[1] += n
    else:
        d[2].append((l1, l2))
for f in sorted(byfile):
    tot, hit, unc = byfile[f]
    print(f'{f.replace(MOD + "/", "")}: {hit}/{tot} statements')
    for l1, l2 in sorted(unc):
        print(f'    uncovered {l1}-{l2}')
if not os.environ.get("KEEP"): shutil.rmtree(work, ignore_errors=True)
