#!/bin/sh
# Re-run every quick check on the current /repo (rewrites every evidence file); prints one line per check.
cd "$(dirname "$0")/.."
st=$(git -C /repo status --porcelain --untracked-files=no)
[ -n "$st" ] && { echo "tracked changes in /repo: refusing to refresh evidence"; exit 1; }
fail=0
for p in $(python3 -c "import json;print(' '.join(c['property_id'] for c in json.load(open('MANIFEST.json'))['checks']))"); do
  out=$(./check $p quick 2>&1); rc=$?
  echo "$out" | grep -v '^KNOWN-FINDING' | tail -1
  [ $rc -ne 0 ] && fail=1
done
exit $fail
