#!/usr/bin/env python3
"""Regenerate seeded/README.md from seeded/*/meta.json."""
import json, glob, os
V = os.path.dirname(os.path.dirname(os.path.abspath(__file__)))
rows = []
notes = json.load(open(os.path.join(V, 'seeded', 'first_round_notes.json'))) if os.path.exists(os.path.join(V, 'seeded', 'first_round_notes.json')) else {}
for f in sorted(glob.glob(os.path.join(V, 'seeded', '*', 'meta.json'))):
    m = json.load(open(f))
    needs = ' '.join(m.get('needs', '').split())[:160]
    rows.append(f"| {m['id']} | {m['property']} | {m.get('suite_with_patch')} | {', '.join(m.get('caught_with_failing_input', [])) or '-'} | "
                f"{', '.join(c for c in m.get('caught_by', []) if c not in m.get('caught_with_failing_input', [])) or '-'} | {needs} | {notes.get(m['id'], 'caught as built')} |")
out = ["# Seeded changes", "",
       "Each directory holds a change to thermal-recorder written by an independent sub-agent that was given only the text of one property",
       "and a scratch worktree (nothing from /verif): `patch.diff`, the agent's demonstration (fails with the patch, passes without), `notes.txt`,",
       "`meta.json` (what was run) and the replay files the checks produced.  Confirmed with `tools/seedtest.py`: the patch applies to /repo, the",
       "pinned test suite still passes with it, the demonstration fails with / passes without it, then the listed checks were run on /repo with the",
       "patch applied and /repo was restored.", "",
       "| seed | property | suite with patch | caught with a failing input (VIOLATION + replay) | also flagged (no-failing-input-found) | what it needs to manifest | first-round result / what was strengthened |",
       "|---|---|---|---|---|---|---|"] + rows
open(os.path.join(V, 'seeded', 'README.md'), 'w').write('\n'.join(out) + '\n')
print(len(rows), 'seeds')
