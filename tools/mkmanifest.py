#!/usr/bin/env python3
"""Regenerate MANIFEST.json from tools/registry.py (single source of truth)."""
import json, os, sys
sys.path.insert(0, os.path.dirname(os.path.abspath(__file__)))
from registry import PROPS, STREAMS, MANIFEST_TEXT, NOT_APPLICABLE
V = os.path.dirname(os.path.dirname(os.path.abspath(__file__)))
ids = [json.loads(l)['id'] for l in open(os.path.join(V, 'properties.jsonl'))]
checks = []
for pid in ids:
    if pid not in PROPS:
        continue
    t = MANIFEST_TEXT[pid]
    checks.append(dict(
        property_id=pid,
        quick_cmd=f'./check {pid} quick',
        thorough_cmd=f'./check {pid} thorough',
        evidence_file=f'/verif/evidence/{pid}.json',
        replay_cmd_template=f'./check {pid} --replay {{path}}',
        engine='lean-proof+correspondence',
        level_claimed=dict(category='proof', text=t['text'], design_ref=t.get('design_ref', 'DESIGN.md section 5')),
        level_note=t['note'],
        technique=t['technique'],
    ))
na = [dict(property_id=p, reason=NOT_APPLICABLE.get(p, 'not yet covered by the framework at this commit (work in progress, see DESIGN.md section 9)'))
      for p in ids if p not in PROPS]
m = dict(
    version=1,
    setup_cmd='./setup.sh',
    hooks=dict(guard='verif',
               enable='go build -tags verif -overlay <generated overlay.json>: harness files kept under /verif/overlay are injected into /repo packages at build time; nothing is committed to /repo for instrumentation',
               baseline_off_cmd='cd /repo && go test -vet=off -count=1 ./...',
               source_commits=[], add_only=True),
    engines=[dict(name='lean-proof+correspondence', path='/verif/check',
                  serves_properties=[c['property_id'] for c in checks],
                  kind_free_text='Lean 4 theorems over a hand-written code-shaped model (lean/TR, Proofs, Props) + differential correspondence of the model with the real Go code (harness/, lean/Driver) + regenerated source facts (tools/gofacts)')],
    checks=checks,
    notes='See DESIGN.md. Every check regenerates source facts, rebuilds the theorem modules, rebuilds the Go harness from /repo and runs the correspondence streams.',
    not_applicable=na,
)
json.dump(m, open(os.path.join(V, 'MANIFEST.json'), 'w'), indent=1)
print('checks:', len(checks), 'not_applicable:', len(na))
