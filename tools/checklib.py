"""Machinery behind ./check — see DESIGN.md section 4."""
import sys, os, json, time, subprocess, hashlib, re, shutil, glob, tempfile
from concurrent.futures import ThreadPoolExecutor

VERIF = os.path.dirname(os.path.dirname(os.path.abspath(__file__)))
LEAN = os.path.join(VERIF, 'lean')
BUILD = os.path.join(VERIF, 'build')
HARNESS = os.path.join(VERIF, 'harness')
REPO = os.environ.get('VERIF_REPO', '/repo')
DRIVER = os.path.join(LEAN, '.lake', 'build', 'bin', 'driver')
ALLOWED_AXIOMS = {'propext', 'Classical.choice', 'Quot.sound'}
FORBIDDEN = re.compile(r'\bsorry\b|\badmit\b|^\s*axiom\s|native_decide|bv_decide|implemented_by|\bunsafe\s|maxHeartbeats\s+0')

sys.path.insert(0, os.path.join(VERIF, 'tools'))
from registry import PROPS, STREAMS  # noqa: E402


def goenv():
    e = dict(os.environ)
    e.update(GOFLAGS='-mod=mod', GOPROXY='off', GOSUMDB='off', GOTOOLCHAIN='local', CGO_ENABLED='0')
    return e


def sh(cmd, cwd=None, env=None, timeout=3600, stdin=None, stdout=None):
    p = subprocess.run(cmd, cwd=cwd, env=env, timeout=timeout, stdin=stdin,
                       stdout=stdout if stdout is not None else subprocess.PIPE,
                       stderr=subprocess.PIPE if stdout is None else subprocess.PIPE, text=stdout is None)
    return p


# ----------------------------------------------------------------------------------------
# Lean side: facts, build, audit
# ----------------------------------------------------------------------------------------

def regen_facts(log):
    """Re-extract Generated/Facts.lean from /repo's current source (translator tools/gofacts)."""
    src = os.path.join(VERIF, 'tools', 'gofacts')
    if not os.path.isdir(src):
        return True, 'no translator yet'
    out = os.path.join(LEAN, 'Generated', 'Facts.lean')
    p = subprocess.run(['go', 'run', '.', REPO], cwd=src, env=goenv(), capture_output=True, text=True, timeout=300)
    if p.returncode != 0:
        log.append('gofacts failed: ' + p.stderr[-2000:])
        return False, p.stderr[-2000:]
    new = p.stdout
    old = open(out).read() if os.path.exists(out) else None
    if new != old:
        with open(out, 'w') as f:
            f.write(new)
    return True, ''


def strip_comments(text):
    text = re.sub(r'/-.*?-/', '', text, flags=re.S)
    text = re.sub(r'--.*', '', text)
    return text


def lean_sources_of(mods):
    """Transitive local imports of the given modules (files under LEAN)."""
    seen, todo = {}, list(mods)
    while todo:
        m = todo.pop()
        if m in seen:
            continue
        path = os.path.join(LEAN, *m.split('.')) + '.lean'
        if not os.path.exists(path):
            continue
        txt = open(path).read()
        seen[m] = path
        for imp in re.findall(r'^import\s+([\w.]+)', txt, flags=re.M):
            todo.append(imp)
    return seen


def theorems_in(path):
    """(fully qualified) theorem names declared in a Props file, in order."""
    txt = strip_comments(open(path).read())
    names, ns = [], []
    for line in txt.splitlines():
        m = re.match(r'\s*namespace\s+([\w.]+)', line)
        if m:
            ns.append(m.group(1)); continue
        m = re.match(r'\s*end\s+([\w.]+)', line)
        if m and ns and ns[-1] == m.group(1):
            ns.pop(); continue
        m = re.match(r'\s*(?:private\s+|protected\s+)?theorem\s+([\w.\'?!₀-₉]+)', line)
        if m:
            names.append('.'.join(ns + [m.group(1)]))
    return names


def lean_check(prop, tier, log):
    """Build the property's theorem modules and audit them.  Returns dict."""
    spec = PROPS[prop]
    mods = spec['lean']
    res = dict(modules=mods, obligations=0, discharged=0, broken=[], axioms={}, build_ok=True)
    t0 = time.time()
    p = subprocess.run(['lake', 'build'] + mods + ['driver'], cwd=LEAN, capture_output=True, text=True, timeout=3000)
    res['build_s'] = round(time.time() - t0, 1)
    theorems = []
    for m in mods:
        path = os.path.join(LEAN, *m.split('.')) + '.lean'
        theorems += theorems_in(path)
    res['theorems'] = theorems
    res['obligations'] = len(theorems)
    if p.returncode != 0:
        res['build_ok'] = False
        errs = [l for l in (p.stdout + p.stderr).splitlines() if 'error' in l][:20]
        log.append('lake build failed:\n' + '\n'.join(errs))
        # which theorems still check?  try each Props module separately to localise
        res['broken'] = ['lake build ' + ' '.join(mods) + ': ' + (errs[0] if errs else 'failed')]
        res['build_errors'] = errs
        return res
    # forbidden constructs in every local source the theorems depend on
    srcs = lean_sources_of(mods)
    for m, path in srcs.items():
        for i, line in enumerate(strip_comments(open(path).read()).splitlines()):
            if FORBIDDEN.search(line):
                res['broken'].append(f'forbidden construct in {m}: {line.strip()[:80]}')
    # axiom audit
    if theorems:
        with tempfile.NamedTemporaryFile('w', suffix='.lean', dir=BUILD, delete=False) as f:
            for m in mods:
                f.write(f'import {m}\n')
            for t in theorems:
                f.write(f'#print axioms {t}\n')
            tmp = f.name
        q = subprocess.run(['lake', 'env', 'lean', tmp], cwd=LEAN, capture_output=True, text=True, timeout=1200)
        os.unlink(tmp)
        out = q.stdout + q.stderr
        for t in theorems:
            m = re.search(r"'" + re.escape(t) + r"' (depends on axioms: \[([^\]]*)\]|does not depend on any axioms)", out, flags=re.S)
            if not m:
                res['broken'].append(f'axiom audit: no report for {t}')
                continue
            axs = set(a.strip() for a in (m.group(2) or '').replace('\n', ' ').split(',') if a.strip())
            res['axioms'][t] = sorted(axs)
            if axs - ALLOWED_AXIOMS:
                res['broken'].append(f'{t} depends on non-standard axioms {sorted(axs - ALLOWED_AXIOMS)}')
            else:
                res['discharged'] += 1
    if tier == 'thorough':
        q = subprocess.run(['lake', 'env', 'leanchecker'] + mods, cwd=LEAN, capture_output=True, text=True, timeout=3000)
        res['leanchecker'] = 'ok' if q.returncode == 0 else (q.stdout + q.stderr)[-500:]
        if q.returncode != 0:
            res['broken'].append('leanchecker rejected ' + ' '.join(mods))
    return res


# ----------------------------------------------------------------------------------------
# Go side: build + run streams
# ----------------------------------------------------------------------------------------

def build_stream(name, log):
    st = STREAMS[name]
    os.makedirs(BUILD, exist_ok=True)
    final = os.path.join(BUILD, 'h_' + name)
    out = final + f'.{os.getpid()}'      # built under a private name, then moved into place atomically
    shutil.copy(os.path.join(REPO, 'go.sum'), os.path.join(HARNESS, 'go.sum'))
    cmd = ['go', 'build']
    if REPO != '/repo' and not st.get('daemon'):
        # a snapshot of the repository (vp run --with-repo): same module file with the replace path redirected
        mf = os.path.join(BUILD, 'harness.go.mod')
        open(mf, 'w').write(open(os.path.join(HARNESS, 'go.mod')).read().replace('=> /repo', '=> ' + REPO))
        shutil.copy(os.path.join(REPO, 'go.sum'), os.path.join(BUILD, 'harness.go.sum'))
        cmd += ['-modfile', mf]
    cwd = HARNESS
    env = goenv()
    if st.get('overlay'):
        ov = {'Replace': {}}
        for dst, src in st['overlay'].items():
            m = re.match(r'@mod:([^@]+)@/(.*)', dst)
            if m:
                # a file of a dependency (module cache): replaced or, with an empty source, removed from the build
                d = subprocess.run(['go', 'list', '-m', '-f', '{{.Dir}}', m.group(1)], cwd=REPO, env=dict(goenv(), GOFLAGS=''),
                                   capture_output=True, text=True).stdout.strip()
                target = os.path.join(d, m.group(2))
            else:
                target = os.path.join(REPO, dst)
            ov['Replace'][target] = os.path.join(VERIF, 'overlay', src) if src else ''

        ovp = os.path.join(BUILD, f'overlay_{name}.{os.getpid()}.json')
        json.dump(ov, open(ovp, 'w'))
        cmd += ['-tags', 'verif', '-overlay', ovp]
    if st.get('race'):
        cmd += ['-race']
        env['CGO_ENABLED'] = '1'
    if st.get('daemon'):
        # package main of a daemon in /repo, turned into a harness by an overlay init()
        cwd = REPO
        env['GOFLAGS'] = ''
        cmd += ['-o', out, st['daemon']]
    else:
        cmd += ['-o', out, st['pkg']]
    p = subprocess.run(cmd, cwd=cwd, env=env, capture_output=True, text=True, timeout=900)
    if p.returncode != 0 and re.search(r'undefined: frameLogInterval', p.stderr) and '-tags' in cmd:
        # optional hook: the daemon no longer has the package variables the harness puts back between connections
        cmd2 = list(cmd)
        cmd2[cmd2.index('-tags') + 1] = 'verif,verif_nologvars'
        p = subprocess.run(cmd2, cwd=cwd, env=env, capture_output=True, text=True, timeout=900)
    for tmp in glob.glob(os.path.join(BUILD, f'overlay_{name}.{os.getpid()}.json')):
        os.unlink(tmp)
    if p.returncode != 0:
        log.append(f'build of stream {name} failed:\n' + p.stderr[-3000:])
        return None, p.stderr[-3000:]
    os.replace(out, final)
    return final, ''


def split_cases(path):
    """real/model file -> list of (case_header, [lines])"""
    cases, cur = [], None
    with open(path, errors='replace') as f:
        for line in f:
            line = line.rstrip('\n')
            if line.startswith('> case '):
                cur = [line]
                cases.append(cur)
            elif cur is not None:
                cur.append(line)
    return cases


def ops_of_case(lines):
    return [l[2:] for l in lines if l.startswith('> ')]


def run_pipeline(name, binp, opsfile, workdir, tag, timeout=None):
    """ops -> real, model, mon.  Returns dict of paths + errors."""
    st = STREAMS[name]
    if timeout is None:
        timeout = 3000 if os.environ.get('VERIF_TIER_EFFECTIVE') == 'thorough' else 300
    try:
        res = _run_pipeline(name, binp, opsfile, workdir, tag, timeout)
    except subprocess.TimeoutExpired as e:
        return _run_cases_separately(name, binp, opsfile, workdir, tag, timeout)
    if any('harness run' in e and 'exited' in e for e in res['errors']) and sum(1 for l in open(opsfile) if l.startswith('case ')) > 1:
        # the harness process died (a Go "all goroutines are asleep - deadlock!", an unrecovered panic in a goroutine of
        # the daemon): find the input, as after a time-out
        sep = _run_cases_separately(name, binp, opsfile, workdir, tag, timeout)
        sep['errors'] = res['errors'] + sep['errors'][1:]
        return sep
    return res


# properties that speak about progress: an input on which the implementation never answers is a failing input for them
HANG_PROPS = ('C12', 'C14', 'C16', 'C18')


def _run_cases_separately(name, binp, opsfile, workdir, tag, timeout):
    """The run as a whole timed out: find the input.  Every case is re-run alone (a case that needed state leaked by an
    earlier case of the run is lost that way; the time-out itself stays reported).  A case that does not finish alone
    is a concrete input on which the implementation (or the model) hangs."""
    paths = {fn: os.path.join(workdir, f'{tag}.{fn}.txt') for fn in ('real', 'model', 'mon')}
    res = dict(errors=[f'timed out after {timeout}s: the implementation (or the model) hangs or stalls on an input of this run'], **paths)
    chunks, cur = [], None
    for line in open(opsfile):
        line = line.rstrip('\n')
        if line.startswith('case '):
            cur = [line]
            chunks.append(cur)
        elif cur is not None:
            cur.append(line)
    per_case = 60 if timeout <= 600 else 180

    def one(i):
        ch = chunks[i]
        f = os.path.join(workdir, f'{tag}.c{i}.ops.txt')
        open(f, 'w').write('\n'.join(ch) + '\n')
        try:
            r = _run_pipeline(name, binp, f, workdir, f'{tag}.c{i}', per_case)
            outs = [open(r[k]).read() for k in ('real', 'model', 'mon')]
            died = [e for e in r['errors'] if 'harness run' in e and 'exited' in e]
            if died:
                cid = ch[0].split()[1]
                outs[2] += ''.join(f'FAIL prop={p} reason=implementation-deadlocks-or-dies-on-this-input case={cid} block=0\n' for p in HANG_PROPS)
                return outs, f'case {cid} alone: ' + died[0][:200]
            return outs, None
        except subprocess.TimeoutExpired:
            echo = ''.join('> ' + l + '\n' for l in ch)
            cid = ch[0].split()[1]
            mon = ''.join(f'FAIL prop={p} reason=implementation-hangs-or-stalls-on-this-input case={cid} block=0\n' for p in HANG_PROPS)
            return [echo, echo, mon], f'case {cid} alone: no answer within {per_case}s'
    with ThreadPoolExecutor(max_workers=8) as ex:
        outs = list(ex.map(one, range(len(chunks))))
    for k, fn in enumerate(('real', 'model', 'mon')):
        with open(paths[fn], 'w') as fo:
            for o, _ in outs:
                fo.write(o[k])
    res['errors'] += [e for _, e in outs if e]
    for f in glob.glob(os.path.join(workdir, f'{tag}.c*.*')):
        if os.path.isfile(f):
            os.unlink(f)
    return res


def _run_pipeline(name, binp, opsfile, workdir, tag, timeout):
    st = STREAMS[name]
    real = os.path.join(workdir, f'{tag}.real.txt')
    model = os.path.join(workdir, f'{tag}.model.txt')
    mon = os.path.join(workdir, f'{tag}.mon.txt')
    res = dict(real=real, model=model, mon=mon, errors=[])
    env = dict(os.environ)
    env.setdefault('GOMEMLIMIT', '8GiB')
    env['VERIF_HARNESS'] = name
    env['VERIF_WORKDIR'] = os.path.join(workdir, tag + '.work')   # runs of several seeds go on in parallel
    os.makedirs(env['VERIF_WORKDIR'], exist_ok=True)
    if st.get('race'):
        rl = os.path.join(workdir, f'{tag}.racelog')
        for old in glob.glob(rl + '.*'):
            os.unlink(old)
        env['VERIF_RACELOG'] = rl
        env['GORACE'] = f'log_path={rl} halt_on_error=0 exitcode=0'
    if st.get('strace'):
        raw = os.path.join(workdir, f'{tag}.raw.txt')
        trace = os.path.join(workdir, f'{tag}.strace.txt')
        rundir = os.path.join(workdir, f'{tag}.dir')
        shutil.rmtree(rundir, ignore_errors=True)
        os.makedirs(rundir)
        env['VERIF_WORKDIR'] = rundir
        with open(opsfile) as fi, open(raw, 'w') as fo:
            p = subprocess.run(['strace', '-f', '-y', '-e', 'trace=openat,write,pwrite64,close,rename,renameat,renameat2,unlink,unlinkat,newfstatat',
                                '-o', trace, binp, 'run'], stdin=fi, stdout=fo, stderr=subprocess.PIPE, env=env, timeout=timeout)
        if p.returncode != 0:
            res['errors'].append(f'harness run (strace) exited {p.returncode}: ' + p.stderr.decode(errors='replace')[-1500:])
        try:
            merge_strace(raw, trace, real)
        except Exception as e:  # noqa
            res['errors'].append(f'strace merge failed: {e!r}')
            shutil.copy(raw, real)
        shutil.rmtree(rundir, ignore_errors=True)
        if os.environ.get('VERIF_KEEP_TRACE'):
            shutil.copy(trace, trace + '.keep')
        os.unlink(trace)
    else:
        with open(opsfile) as fi, open(real, 'w') as fo:
            p = subprocess.run(st.get('wrap', []) + [binp, 'run'], stdin=fi, stdout=fo, stderr=subprocess.PIPE, env=env, timeout=timeout)
        if p.returncode != 0:
            res['errors'].append(f'harness run exited {p.returncode}: ' + p.stderr.decode(errors='replace')[-1500:])
    with open(real) as fi, open(model, 'w') as fo:
        p = subprocess.run([DRIVER, 'model', name], stdin=fi, stdout=fo, stderr=subprocess.PIPE, timeout=timeout)
    if p.returncode != 0:
        res['errors'].append(f'driver model exited {p.returncode}: ' + p.stderr.decode(errors='replace')[-500:])
    with open(real) as fi, open(mon, 'w') as fo:
        p = subprocess.run([DRIVER, 'mon', name], stdin=fi, stdout=fo, stderr=subprocess.PIPE, timeout=timeout)
    if p.returncode != 0:
        res['errors'].append(f'driver mon exited {p.returncode}: ' + p.stderr.decode(errors='replace')[-500:])
    return res


_REC = re.compile(r'/(constant-recordings/)?(\d{8}\.\d{6}\.\d{3})\.cptv(\.temp\.tmp|\.temp)?$')


def merge_strace(raw, trace, out):
    """Attribute the file-system calls seen by strace to the op lines of the harness output.

    The harness issues stat("/verif-marker/<k>") before its k-th op line.  File names are
    canonicalised to roles: [c]{T,S,F}<index of the time stamp in its directory, by first appearance
    within the case>.  Consecutive writes to the same role are collapsed."""
    pending = {}
    events = {}          # marker k -> list of (kind, path[, path2])
    cur = 0
    created = set()
    fdkind = {}
    def handle(line):
        nonlocal cur
        m = re.match(r'newfstatat\(.*?"/verif-marker/(\d+)"', line)
        if m:
            cur = int(m.group(1)); return
        if ' = -1 ' in line and not line.startswith('unlinkat') and not line.startswith('renameat'):
            return
        ev = None
        m = re.match(r'openat\([^,]*, "([^"]*)", ([A-Z_|]+).* = (\d+)<', line)
        if m and 'O_CREAT' in m.group(2):
            ev = ('creat', m.group(1))
            if m.group(1).endswith('.cptv.temp'):
                # go-cptv creates the output file twice; the first descriptor (FileWriter.f) is never
                # used or closed by the library: a finaliser closes it at a GC-dependent time
                first = m.group(1) not in created
                created.add(m.group(1))
                fdkind[m.group(3)] = 'leak' if first else 'main'
            else:
                fdkind[m.group(3)] = 'main'
        m2 = re.match(r'(write|pwrite64)\(\d+<([^>]*)>', line)
        if m2:
            ev = ('write', m2.group(2))
        m3 = re.match(r'close\((\d+)<([^>]*)>', line)
        if m3:
            if fdkind.pop(m3.group(1), 'reader') != 'main':
                return      # leaked descriptor, or a descriptor that was opened read-only
            ev = ('close', m3.group(2))
        m4 = re.match(r'unlink(?:at)?\((?:[^,]*, )?"([^"]*)"', line)
        if m4 and ' = 0' in line:
            ev = ('unlink', m4.group(1))
        m5 = re.match(r'rename(?:at2?)?\((?:[^,]*, )?"([^"]*)", (?:[^,]*, )?"([^"]*)"', line)
        if m5 and ' = 0' in line:
            ev = ('rename', m5.group(1), m5.group(2))
        if ev and any(_REC.search(x) for x in ev[1:]):
            events.setdefault(cur, []).append(ev)
    with open(trace, errors='replace') as f:
        for line in f:
            m = re.match(r'(\d+)\s+(.*)$', line.rstrip('\n'))
            if not m:
                continue
            pid, rest = m.group(1), m.group(2)
            if rest.endswith('<unfinished ...>'):
                pending[pid] = rest[:-len('<unfinished ...>')]
                continue
            r = re.match(r'<\.\.\. \w+ resumed>(.*)$', rest)
            if r:
                rest = pending.pop(pid, '') + r.group(1)
            handle(rest)
    k = 0
    idx = {}
    gen = {}
    dead = set()
    casedir = None
    def role(path):
        m = _REC.search(path)
        if not m:
            return 'other:' + os.path.basename(path)
        d = 'c' if m.group(1) else ''
        # a time stamp can be reused once a discarded recording's files are gone (same millisecond):
        # every incarnation of a stamp is a recording of its own
        key = (d, m.group(2), gen.get((d, m.group(2)), 0))
        if key not in idx:
            idx[key] = sum(1 for kk in idx if kk[0] == d)
        kind = {None: 'F', '.temp': 'T', '.temp.tmp': 'S'}[m.group(3)]
        return f'{d}{kind}{idx[key]}'
    with open(raw) as fi, open(out, 'w') as fo:
        lines = fi.read().splitlines()
        i = 0
        while i < len(lines):
            line = lines[i]
            if line.startswith('> '):
                k += 1
                if line.startswith('> case '):
                    idx = {}
                    gen = {}
                    dead = set()
                fo.write(line + '\n')
                last = None
                if line.startswith('> case '):
                    casedir = None
                for ev in events.get(k, []):
                    # descriptors of recordings abandoned at a previous case's simulated crash are closed
                    # by finalisers later: only calls inside this case's own directory belong to it
                    bd = os.path.dirname(ev[1]).replace('/constant-recordings', '')
                    if casedir is None and ev[0] == 'creat':
                        casedir = bd
                    if bd != casedir:
                        continue
                    if ev[1].endswith('.cptv.temp') and ev[0] in ('unlink', 'creat'):
                        mm = _REC.search(ev[1])
                        kk = ('c' if mm.group(1) else '', mm.group(2))
                        if ev[0] == 'unlink':
                            dead.add(kk)                       # the discarded recording is gone: the stamp is free again
                        elif kk in dead:
                            dead.discard(kk)
                            gen[kk] = gen.get(kk, 0) + 1       # same millisecond, new recording
                    txt = 'sys ' + ev[0] + ' ' + ' '.join(role(x) for x in ev[1:])
                    if ev[0] == 'write' and txt == last:
                        continue
                    last = txt
                    fo.write('< ' + txt + '\n')
            else:
                fo.write(line + '\n')
            i += 1


def project(lines, rx):
    if rx is None:
        return lines
    return [l for l in lines if l.startswith('> ') or rx.search(l)]


def analyse(name, prop, pr, proj_rx):
    """Compare real/model per case (projected), collect monitor failures for prop."""
    real_cases = split_cases(pr['real'])
    model_cases = split_cases(pr['model'])
    div = []
    for i, rc in enumerate(real_cases):
        mc = model_cases[i] if i < len(model_cases) else []
        a, b = project(rc, proj_rx), project(mc, proj_rx)
        if a != b:
            k = next((j for j in range(min(len(a), len(b))) if a[j] != b[j]), min(len(a), len(b)))
            div.append(dict(case_index=i, header=rc[0], at=k,
                            real=a[k] if k < len(a) else '<end>', model=b[k] if k < len(b) else '<end>'))
    fails, stats = [], []
    with open(pr['mon']) as f:
        for line in f:
            line = line.rstrip('\n')
            if line.startswith('FAIL '):
                kv = dict(re.findall(r'(\w+)=(\S+)', line))
                if kv.get('prop') == prop:
                    fails.append(dict(line=line, case=kv.get('case'), reason=kv.get('reason', ''), kv=kv))
            elif line.startswith('STAT '):
                stats.append(dict(re.findall(r'(\w+)=(\S+)', line)))
    return real_cases, model_cases, div, fails, stats


def case_by_id(cases, cid):
    for c in cases:
        f = c[0].split()
        if len(f) > 2 and f[2] == str(cid):
            return c
    return None


def single_case_eval(name, binp, prop, header_and_ops, workdir, proj_rx, tag='shrink'):
    opsf = os.path.join(workdir, f'{tag}.ops.txt')
    with open(opsf, 'w') as f:
        f.write('\n'.join(header_and_ops) + '\n')
    pr = run_pipeline(name, binp, opsf, workdir, tag, timeout=120)
    rc, mc, div, fails, stats = analyse(name, prop, pr, proj_rx)
    return pr, div, fails


def shrink(name, binp, prop, ops, workdir, proj_rx, pred_kind, budget_s=60):
    """ddmin over the op lines of one case (ops[0] is the case header)."""
    header, body = ops[0], ops[1:]
    t0 = time.time()

    def bad(b):
        try:
            pr, div, fails = single_case_eval(name, binp, prop, [header] + b, workdir, proj_rx)
        except subprocess.TimeoutExpired:
            return False
        return bool(fails) if pred_kind == 'monitor' else bool(div)
    n = 2
    while len(body) >= 2 and time.time() - t0 < budget_s:
        chunk = max(1, len(body) // n)
        reduced = False
        for i in range(0, len(body), chunk):
            cand = body[:i] + body[i + chunk:]
            if cand and bad(cand):
                body = cand
                n = max(n - 1, 2)
                reduced = True
                break
            if time.time() - t0 > budget_s:
                break
        if not reduced:
            if chunk == 1:
                break
            n = min(n * 2, len(body))
    # drop a trailing tail after the failure point
    return [header] + body


# ----------------------------------------------------------------------------------------
# Known findings
# ----------------------------------------------------------------------------------------

def load_known():
    p = os.path.join(VERIF, 'known_findings.json')
    if not os.path.exists(p):
        return []
    return json.load(open(p)).get('findings', [])


def match_known(prop, stream, fail, known):
    for k in known:
        if k.get('status') != 'known' or k['property'] != prop:
            continue
        m = k.get('matcher', {})
        if m.get('stream') and m['stream'] != stream:
            continue
        if m.get('reason_regex') and not re.search(m['reason_regex'], fail['line']):
            continue
        return k
    return None


# ----------------------------------------------------------------------------------------
# main
# ----------------------------------------------------------------------------------------

def write_evidence(prop, ev):
    os.makedirs(os.path.join(VERIF, 'evidence'), exist_ok=True)
    with open(os.path.join(VERIF, 'evidence', prop + '.json'), 'w') as f:
        json.dump(ev, f, indent=1)


def write_replay(prop, payload):
    d = os.path.join(VERIF, 'replays')
    os.makedirs(d, exist_ok=True)
    h = hashlib.sha1(json.dumps(payload, sort_keys=True).encode()).hexdigest()[:10]
    p = os.path.join(d, f'{prop}_{h}.json')
    with open(p, 'w') as f:
        json.dump(payload, f, indent=1)
    return p


def main(argv):
    if not argv or argv[0] not in PROPS:
        print('usage: ./check <Cxx> [quick|thorough] | ./check <Cxx> --replay <file>', file=sys.stderr)
        print('known properties:', ' '.join(sorted(PROPS)), file=sys.stderr)
        return 2
    prop = argv[0]
    replay = None
    tier = os.environ.get('VERIF_TIER', 'quick')
    if len(argv) >= 3 and argv[1] == '--replay':
        replay = argv[2]
    elif len(argv) >= 2:
        tier = argv[1]
    seed = int(os.environ.get('VERIF_SEED', '1'))
    os.environ['VERIF_TIER_EFFECTIVE'] = tier
    t0 = time.time()
    spec = PROPS[prop]
    log = []
    os.makedirs(BUILD, exist_ok=True)
    workdir = os.path.join(BUILD, 'run_' + prop)
    shutil.rmtree(workdir, ignore_errors=True)
    os.makedirs(workdir, exist_ok=True)
    known = load_known()
    violations = []      # (replay_path, concrete: bool)
    known_hits = {}
    obligations_broken = []

    # 1. Lean
    ok, msg = regen_facts(log)
    if not ok:
        obligations_broken.append('fact extraction from /repo failed: ' + msg[:300])
    lres = lean_check(prop, tier, log)
    obligations_broken += lres['broken']

    # 2. streams
    seeds = [seed] if tier == 'quick' else [seed + i for i in range(spec.get('thorough_seeds', 3))]
    stream_reports = {}
    total_cases = 0
    nontrivial = set()
    samples = []
    stats_acc = {}
    concrete = []       # (stream, fail dict, case lines)
    prefix_of = {}      # id(case) -> ops of all cases of its run up to and including it
    diverged = []       # (stream, div dict, case lines)
    stream_broken = []
    if replay:
        rp = json.load(open(replay))
        streams_to_run = [rp['stream']] if rp.get('stream') else []
    else:
        streams_to_run = list(spec['streams'])
    for sname in streams_to_run:
        proj = spec.get('project', {}).get(sname)
        proj_rx = re.compile(proj) if proj else None
        binp, err = build_stream(sname, log)
        if binp is None:
            stream_broken.append(f'correspondence harness for stream {sname} no longer builds against /repo: ' + err[-600:])
            continue
        runs = []
        if replay:
            opsf = os.path.join(workdir, 'replay.ops.txt')
            open(opsf, 'w').write('\n'.join(rp['ops']) + '\n')
            runs.append(('replay', opsf))
        else:
            # corpus first
            corp = sorted(glob.glob(os.path.join(VERIF, 'corpus', sname, '*.ops')))
            if corp:
                opsf = os.path.join(workdir, f'{sname}.corpus.ops.txt')
                with open(opsf, 'w') as fo:
                    for i, c in enumerate(corp):
                        lines = open(c).read().splitlines()
                        # renumber case id to keep ids unique
                        hdr = lines[0].split()
                        hdr[1] = f'c{i}'
                        fo.write(' '.join(hdr) + '\n' + '\n'.join(lines[1:]) + '\n')
                runs.append(('corpus', opsf))
            for s in seeds:
                opsf = os.path.join(workdir, f'{sname}.{s}.ops.txt')
                with open(opsf, 'w') as fo:
                    p = subprocess.run([binp, 'gen', str(s), tier], stdout=fo, stderr=subprocess.PIPE,
                                       env=dict(os.environ, VERIF_HARNESS=sname), timeout=600)
                if p.returncode != 0:
                    stream_broken.append(f'stream {sname}: generator failed: ' + p.stderr.decode()[-300:])
                    continue
                runs.append((str(s), opsf))

        def do(run):
            tag, opsf = run
            return tag, run_pipeline(sname, binp, opsf, workdir, f'{sname}.{tag}')
        with ThreadPoolExecutor(max_workers=min(8, max(1, len(runs)))) as ex:
            results = list(ex.map(do, runs))
        rep = dict(runs=[], cases=0, divergences=0, monitor_failures=0)
        for tag, pr in results:
            for e in pr['errors']:
                stream_broken.append(f'stream {sname} run {tag}: {e}')
            real_cases, model_cases, div, fails, stats = analyse(sname, prop, pr, proj_rx)
            rep['runs'].append(dict(tag=tag, cases=len(real_cases), divergences=len(div), monitor_failures=len(fails)))
            rep['cases'] += len(real_cases)
            rep['divergences'] += len(div)
            rep['monitor_failures'] += len(fails)
            total_cases += len(real_cases)
            for s in stats:
                for k, v in s.items():
                    if k in ('case', 'stream'):
                        continue
                    try:
                        stats_acc[f'{sname}.{k}'] = stats_acc.get(f'{sname}.{k}', 0) + int(v)
                    except ValueError:
                        pass
            nt_ids = set(s.get('case') for s in stats if s.get('nontrivial', '1') != '0')
            for c in real_cases:
                cid = c[0].split()[2]
                if cid in nt_ids:
                    nontrivial.add(hashlib.sha1('\n'.join(ops_of_case(c)[1:]).encode() + c[0].split(' ', 3)[-1].encode()).hexdigest())
            if real_cases and len(samples) < 3:
                c = real_cases[min(len(real_cases) - 1, 1)]
                samples.append(dict(stream=sname, run=tag, trace=c[:40]))
            for fl in fails:
                c = case_by_id(real_cases, fl['case'])
                if c is not None and STREAMS[sname].get('confirm') and id(c) not in prefix_of and len(prefix_of) < 6:
                    k = next(i for i, rc in enumerate(real_cases) if rc is c)
                    prefix_of[id(c)] = [o for rc in real_cases[:k + 1] for o in ops_of_case(rc)]
                concrete.append((sname, fl, c, binp, proj_rx))
            for d in div:
                diverged.append((sname, d, real_cases[d['case_index']], binp, proj_rx))
        stream_reports[sname] = rep

    # 3. verdict
    transients = []
    if not replay:
        kept = []
        for item in diverged:
            sname, d, c, binp, proj_rx = item
            if STREAMS[sname].get('confirm') and len(kept) == 0:
                ops = ops_of_case(c)
                hits = 0
                for _ in range(3):
                    _pr, _div, _fails = single_case_eval(sname, binp, prop, ops, workdir, proj_rx, tag='confirm')
                    if _div:
                        hits += 1
                    if hits >= 2:
                        break
                again = hits >= 2
                if not again:
                    transients.append(dict(stream=sname, divergence=d, ops=len(ops)))
                    continue
            kept.append(item)
        diverged = kept
    out_lines = []
    n_viol = 0
    seen_reason = set()
    for sname, fl, c, binp, proj_rx in concrete:
        k = match_known(prop, sname, fl, known)
        if k:
            known_hits.setdefault(k['id'], k)
            continue
        key = (sname, re.sub(r'\d+', 'N', fl['reason']))
        if key in seen_reason:
            continue
        seen_reason.add(key)
        ops = ops_of_case(c) if c else []
        no_shrink = False
        if ops and not replay and STREAMS[sname].get('confirm'):
            # streams that involve the wall clock / the scheduler: a failure must reproduce when the case is re-run alone
            # (two of three: a deterministic defect reproduces every time; what shows once under load does not count)
            hits = 0
            for _ in range(3):
                _pr, _div, _fails = single_case_eval(sname, binp, prop, ops, workdir, proj_rx, tag='confirm')
                if any(match_known(prop, sname, x, known) is None for x in _fails):
                    hits += 1
                if hits >= 2:
                    break
            again = hits >= 2
            if not again and c is not None and prefix_of.get(id(c)):
                # process-level state can leak from earlier cases of the same run (package variables of the daemon):
                # re-run the run's cases up to and including this one
                pre_ops = prefix_of[id(c)]
                _pr, _div, _fails = single_case_eval(sname, binp, prop, pre_ops, workdir, proj_rx, tag='confirm')
                if any(match_known(prop, sname, x, known) is None and x['case'] == fl['case'] for x in _fails):
                    again = True
                    ops = pre_ops
                    no_shrink = True
            if not again:
                transients.append(dict(stream=sname, failure=fl['line'], ops=len(ops)))
                continue
        small = shrink(sname, binp, prop, ops, workdir, proj_rx, 'monitor') if ops and not replay and not no_shrink else ops
        pr, div, fails = single_case_eval(sname, binp, prop, small, workdir, proj_rx, tag='final') if small else (None, [], [])
        path = write_replay(prop, dict(property=prop, kind='monitor-failure-on-implementation', stream=sname,
                                       monitor=fl['line'], ops=small, original_ops=len(ops),
                                       real_trace=open(pr['real']).read().splitlines() if pr else [],
                                       model_trace=open(pr['model']).read().splitlines() if pr else [],
                                       monitor_output=[f['line'] for f in fails],
                                       how_to_replay=f'./check {prop} --replay <this file>'))
        out_lines.append(f'VIOLATION property={prop} replay={path}')
        n_viol += 1
        if n_viol >= 5:
            break
    if n_viol == 0 and (obligations_broken or diverged or stream_broken):
        payload = dict(property=prop, kind='proof-or-correspondence-broken',
                       broken_obligations=obligations_broken, broken_streams=stream_broken,
                       note='no monitor failed on any real trace explored; the property is no longer shown to hold')
        if diverged:
            sname, d, c, binp, proj_rx = diverged[0]
            ops = ops_of_case(c)
            small = shrink(sname, binp, prop, ops, workdir, proj_rx, 'divergence') if not replay else ops
            pr, div, fails = single_case_eval(sname, binp, prop, small, workdir, proj_rx, tag='final')
            payload.update(stream=sname, correspondence=f'stream {sname}: model and implementation differ',
                           first_difference=div[0] if div else d, ops=small,
                           real_trace=open(pr['real']).read().splitlines(),
                           model_trace=open(pr['model']).read().splitlines(),
                           diverging_cases=len(diverged))
        path = write_replay(prop, payload)
        out_lines.append(f'VIOLATION property={prop} replay={path} no-failing-input-found')
        n_viol += 1
    for kid, k in known_hits.items():
        print(f"KNOWN-FINDING: property={prop} {k['id']}: {k['what']}")
    for l in out_lines:
        print(l)

    # 4. evidence
    wall = round(time.time() - t0, 1)
    ev = dict(
        property_id=prop, tier=tier if tier in ('quick', 'thorough') else 'quick', seed=seed, level='proof',
        coverage=dict(
            obligations=lres['obligations'] + len(spec.get('extra_obligations', [])),
            discharged=lres['discharged'] + (len(spec.get('extra_obligations', [])) if lres['build_ok'] else 0),
            checker_cmd=f"cd lean && lake build {' '.join(spec['lean'])} && #print axioms on every theorem"
                        + (' && lake env leanchecker ' + ' '.join(spec['lean']) if tier == 'thorough' else ''),
            trusted_base=["Lean 4.33.0 kernel", "axioms: " + ', '.join(sorted(set(a for v in lres['axioms'].values() for a in v)) or ['none']),
                          "hand-written model tied to /repo by differential correspondence (streams: " + ', '.join(spec['streams']) + ")",
                          ] + spec.get('trusted', []),
            theorems=lres.get('theorems', []),
            axioms_per_theorem=lres['axioms'],
            lean_build_s=lres.get('build_s'),
            evaluations=max(total_cases, 1),
            distinct_nontrivial=len(nontrivial),
            rule=spec.get('rule', 'cases generated by the stream generators; distinct by op text; non-trivial as flagged by the monitor'),
            samples=samples or [dict(note='no stream case (proof-only run)')],
            streams=stream_reports,
            distribution=stats_acc,
            traces_validated_against_impl=total_cases,
            broken_obligations=obligations_broken,
            broken_streams=stream_broken,
            known_findings_hit=sorted(known_hits),
            unconfirmed_transients=transients,
            exhaustive=False,
        ),
        assumptions=spec.get('assumptions', []),
        wall_s=wall,
        violations=n_viol,
    )
    write_evidence(prop, ev)
    if log:
        sys.stderr.write('\n'.join(log) + '\n')
    print(f'{prop}: {"FAIL" if n_viol else "ok"}  obligations {ev["coverage"]["discharged"]}/{ev["coverage"]["obligations"]}  '
          f'cases {total_cases}  nontrivial {len(nontrivial)}  {wall}s')
    return 1 if n_viol else 0
