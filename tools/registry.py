"""Which theorem modules, correspondence streams and facts each property depends on."""

STREAMS = {
    # name: pkg (under /verif/harness) | daemon (package main under /repo), optional overlay {repo-relative dst: overlay-relative src}
    'ring': dict(pkg='./cmd/ring'),
    'processor': dict(pkg='./cmd/processor'),
    'throttle': dict(pkg='./cmd/throttle'),
    'loglimiter': dict(pkg='./cmd/loglimiter', overlay={'loglimiter/zz_verif_loglimiter.go': 'loglimiter/zz_verif_loglimiter.go'}),
}

PROPS = {
    'C19': dict(
        lean=['Props.C19'],
        streams=['ring'],
        rule='random op sequences over write/move/mark/reset/observe for capacities 1..9 (thorough: plus every '
             'protocol-step sequence up to length 7 for capacities 1..4); a case is non-trivial when the buffer '
             'wrapped (completed frames >= capacity); distinct by op text',
        trusted=['motion.FrameLoop driven through its exported API; frame identity = tag stored in two pixels'],
        assumptions=['capacity >= 1 (NewFrameLoop(0) divides by zero on the first Move; the daemon sizes it preview*fps+trigger-frames)'],
    ),
    'C20': dict(
        lean=['Props.C20'],
        streams=['loglimiter'],
        rule='histories of (time, message) arrivals over 1-3 messages with steps in {0,1,iv-1,iv,iv+1,iv/2,2iv,iv/3} '
             '(thorough: plus every history of length <= 6 over 3 messages x 4 time steps); non-trivial = at least one '
             'suppression and two prints; distinct by op text',
        trusted=['overlay accessor VerifSetClock (sets the unexported nowFunc); log output captured via log.SetOutput'],
        assumptions=['non-decreasing clock', 'the zero time.Time of a fresh limiter is further than any interval before the first arrival'],
    ),
    'C05': dict(
        lean=['Props.C05'],
        streams=['throttle'],
        rule='request/clock schedules in five phase styles (burst at one instant, camera-rate, churn at the tick boundary +-1 ns, long idles, '
             'one-clip refills) with scripted base-recorder failures in 35% of cases; the window monitor checks all O(n^2) windows of each case; '
             'non-trivial = at least one throttled event; distinct by op text',
        trusted=['juju/ratelimit (quantum, fillInterval) for the configured rate measured on a reference bucket by reflection; its 1% rate contract asserted per case',
                 'upstream obeys the recorder protocol (enforced identically by harness and model)'],
        assumptions=['non-decreasing clock', 'bucket-size*fps >= 1 and (min+preview)*fps >= 1 (the library panics on capacity 0; rate 0 is undefined)'],
    ),
}

NOT_APPLICABLE = {}

_COMMON_NOTE = ('Trusted: Lean kernel (axioms propext, Classical.choice, Quot.sound only; audited on every run); the model is '
                'hand-written and tied to /repo by the differential correspondence streams and regenerated facts named in '
                'the evidence file; ')

MANIFEST_TEXT = {
    'C19': dict(
        text='Theorems for every capacity >= 1 and every operation sequence: GetHistory/Oldest/CopyRecent of the FrameLoop model equal a '
             'three-line list specification (refinement through a ghost state, proved by induction over the operation list); the model is '
             'compared op-for-op with the real motion.FrameLoop on generated and bounded-exhaustive operation sequences.',
        note=_COMMON_NOTE + 'frames are identified by a tag in two pixels; capacity 1 "recent" is stated as what the code does.',
        technique='Lean 4 refinement proof (ghost invariant, induction over op list) + differential correspondence',
        design_ref='DESIGN.md 5/C19'),
    'C05': dict(
        text='Theorem for every capacity/quantum >= 1, every minimum length, every upstream request list with a non-decreasing clock and every base-failure '
             'pattern: in every window of requests the frames forwarded to storage are at most cap + 1 + q*(tick_j - tick_i) (potential argument over the '
             'tick-level model of juju/ratelimit incl. its stale-latestTick early return; the +1 is shown attained). The model is compared call-for-call '
             'with the real ThrottledRecorder over the real bucket under an injected clock; the formulas cap = bucket-size*fps and rate = (min+preview)*fps/min-refill '
             'are applied by the harness and must reproduce the real behaviour.',
        note=_COMMON_NOTE + "the library's float loop choosing (quantum, fillInterval) is measured, not modelled; main.go wiring is covered by regenerated facts / the e2e stream.",
        technique='Lean 4 proof (potential function, induction over the request list) + differential correspondence',
        design_ref='DESIGN.md 5/C05'),
    'C20': dict(
        text='Theorems for every history of (message, time) arrivals and every interval: a message is suppressed iff it equals the last '
             'printed message and arrives less than the interval after that print; suppressed repeats leave the state unchanged; distinct '
             'messages and messages at/after the interval are always printed; the whole run equals a specification threading "last printed". '
             'The model is compared arrival-for-arrival with the real LogLimiter under an injected clock.',
        note=_COMMON_NOTE + 'log output is captured through the standard logger; the interval constant used by the processor is a regenerated fact.',
        technique='Lean 4 proof (case analysis + induction over the history) + differential correspondence',
        design_ref='DESIGN.md 5/C20'),
}
