"""Which theorem modules, correspondence streams and facts each property depends on."""

STREAMS = {
    # name: pkg (under /verif/harness) | daemon (package main under /repo), optional overlay {repo-relative dst: overlay-relative src}
    'ring': dict(pkg='./cmd/ring'),
    'processor': dict(pkg='./cmd/processor', overlay={'motion/zz_verif_motion.go': 'motion/zz_verif_motion.go'}),
    'throttle': dict(pkg='./cmd/throttle'),
    'window': dict(pkg='./cmd/window'),
    'detector': dict(pkg='./cmd/detector', overlay={'motion/zz_verif_motion.go': 'motion/zz_verif_motion.go'}),
    'fs': dict(daemon='./cmd/thermal-recorder', strace=True, confirm=True,
               overlay={'cmd/thermal-recorder/zz_verif_zz_main.go': 'thermal-recorder/zz_verif_main.go',
                'cmd/thermal-recorder/zz_verif_logvars.go': 'thermal-recorder/zz_verif_logvars.go', 'cmd/thermal-recorder/zz_verif_nologvars.go': 'thermal-recorder/zz_verif_nologvars.go',
                        'cmd/thermal-recorder/zz_verif_fs.go': 'thermal-recorder/zz_verif_fs.go',
                        'cmd/thermal-recorder/zz_verif_e2e.go': 'thermal-recorder/zz_verif_e2e.go'}),
    'names': dict(daemon='./cmd/thermal-recorder', confirm=True,
                  overlay={'cmd/thermal-recorder/zz_verif_zz_main.go': 'thermal-recorder/zz_verif_main.go',
                'cmd/thermal-recorder/zz_verif_logvars.go': 'thermal-recorder/zz_verif_logvars.go', 'cmd/thermal-recorder/zz_verif_nologvars.go': 'thermal-recorder/zz_verif_nologvars.go',
                           'cmd/thermal-recorder/zz_verif_fs.go': 'thermal-recorder/zz_verif_fs.go',
                           'cmd/thermal-recorder/zz_verif_e2e.go': 'thermal-recorder/zz_verif_e2e.go'}),
    'e2e': dict(daemon='./cmd/thermal-recorder', confirm=True,
                overlay={'cmd/thermal-recorder/zz_verif_zz_main.go': 'thermal-recorder/zz_verif_main.go',
                'cmd/thermal-recorder/zz_verif_logvars.go': 'thermal-recorder/zz_verif_logvars.go', 'cmd/thermal-recorder/zz_verif_nologvars.go': 'thermal-recorder/zz_verif_nologvars.go',
                         'cmd/thermal-recorder/zz_verif_fs.go': 'thermal-recorder/zz_verif_fs.go',
                         'cmd/thermal-recorder/zz_verif_e2e.go': 'thermal-recorder/zz_verif_e2e.go'}),
    'daemon': dict(daemon='./cmd/thermal-recorder', confirm=True,
                   overlay={'cmd/thermal-recorder/zz_verif_zz_main.go': 'thermal-recorder/zz_verif_main.go',
                'cmd/thermal-recorder/zz_verif_logvars.go': 'thermal-recorder/zz_verif_logvars.go', 'cmd/thermal-recorder/zz_verif_nologvars.go': 'thermal-recorder/zz_verif_nologvars.go',
                            'cmd/thermal-recorder/zz_verif_fs.go': 'thermal-recorder/zz_verif_fs.go',
                            'cmd/thermal-recorder/zz_verif_e2e.go': 'thermal-recorder/zz_verif_e2e.go',
                            'cmd/thermal-recorder/zz_verif_daemon.go': 'thermal-recorder/zz_verif_daemon.go'}),
    'conc': dict(daemon='./cmd/thermal-recorder', race=True,
                 overlay={'cmd/thermal-recorder/zz_verif_zz_main.go': 'thermal-recorder/zz_verif_main.go',
                'cmd/thermal-recorder/zz_verif_logvars.go': 'thermal-recorder/zz_verif_logvars.go', 'cmd/thermal-recorder/zz_verif_nologvars.go': 'thermal-recorder/zz_verif_nologvars.go',
                          'cmd/thermal-recorder/zz_verif_fs.go': 'thermal-recorder/zz_verif_fs.go',
                          'cmd/thermal-recorder/zz_verif_e2e.go': 'thermal-recorder/zz_verif_e2e.go',
                          'cmd/thermal-recorder/zz_verif_conc.go': 'thermal-recorder/zz_verif_conc.go'}),
    'parse': dict(daemon='./cmd/thermal-recorder',
                  overlay={'cmd/thermal-recorder/zz_verif_zz_main.go': 'thermal-recorder/zz_verif_main.go',
                'cmd/thermal-recorder/zz_verif_logvars.go': 'thermal-recorder/zz_verif_logvars.go', 'cmd/thermal-recorder/zz_verif_nologvars.go': 'thermal-recorder/zz_verif_nologvars.go',
                          'cmd/thermal-recorder/zz_verif_fs.go': 'thermal-recorder/zz_verif_fs.go',
                          'cmd/thermal-recorder/zz_verif_e2e.go': 'thermal-recorder/zz_verif_e2e.go',
                          'cmd/thermal-recorder/zz_verif_parse.go': 'thermal-recorder/zz_verif_parse.go'}),
    'writer': dict(daemon='./cmd/thermal-writer', confirm=True, overlay={'cmd/thermal-writer/zz_verif_writer.go': 'thermal-writer/zz_verif_writer.go', 'cmd/thermal-writer/zz_verif_logvars.go': 'thermal-writer/zz_verif_logvars.go', 'cmd/thermal-writer/zz_verif_nologvars.go': 'thermal-writer/zz_verif_nologvars.go'}),
    'leptond': dict(daemon='./cmd/leptond', overlay={'cmd/leptond/zz_verif_leptond.go': 'leptond/zz_verif_leptond.go'}),
    'leptondloop': dict(daemon='./cmd/leptond', overlay=dict(
        [('cmd/leptond/zz_verif_leptondloop.go', 'leptondloop/zz_verif_leptondloop.go'),
         ('cmd/leptond/service.go', 'leptondloop/service_fake.go'),
         ('@mod:github.com/TheCacophonyProject/lepton3@/lepton3.go', 'leptondloop/lepton3_fake.go')] +
        [('@mod:github.com/TheCacophonyProject/lepton3@/' + f, 'leptondloop/empty.go') for f in
         ('big16.go', 'framebuilder.go', 'periphtypes.go', 'rawframe.go', 'ring.go', 'telemetry.go')])),
    'loglimiter': dict(pkg='./cmd/loglimiter', overlay={'loglimiter/zz_verif_loglimiter.go': 'loglimiter/zz_verif_loglimiter.go'}),
}

PROC_RULE = 'event sequences from a run-length motion model centred on trigger-frames, min/max frames and ring capacity, with bad frames, resets, test requests, refused starts (window / disk check / file creation) and, in one fifth of the cases, faults on every sink call class (thorough: plus every event string of length 6 over {motion, quiet, refused motion, bad, reset} for 40 small configurations and single/double fault placement over a busy 14-event scenario); non-trivial = at least one recording started; distinct by op text'
PROC_TRUSTED = ['real MotionProcessor with the real motionDetector inside, driven through NewMotionProcessor with an injected parser, window clock, listener and three scripted sinks (API level, no overlay)', "the detector's verdict is taken from the MotionDetected callback (input of the processor model); frame identity = accepted-frame counter stored in two pixels"]
PROC_ASSUME = {
    'C01': ['ring capacity preview*fps+trigger-frames >= 1', 'motion-sink writes succeed (write failures belong to C12)'],
    'C02': ['ring capacity >= 1', 'motion-sink writes succeed'],
    'C03': ['ring capacity >= 1', 'min-secs <= max-secs (enforced by recorder config validation)', 'motion-sink writes succeed'],
    'C04': ['window boundary arithmetic is covered by the window stream / Props.C04 window theorems'],
    'C12': ['ring capacity >= 1'],
    'C13': ['ring capacity >= 1', 'fewer than 4e9 events (frame ids stay below the sentinel used for rejected content)'],
    'C17': ['no faults on the continuous/test sink and non-overlapping requests (outside that the monitor claims nothing; C12 covers faults)'],
}

DET_RULE = 'paired streams for two detectors in lockstep over small resolutions (3x3..10x8, one 160x120), pixel values at threshold / delta / count boundaries, kinds: plain (C07 spec), border and cold pairs (C08), FFC periods of length 1..gap+3 with times at 10s-1ns/10s/10s+1ns (C09a), pairs differing only before an FFC period or a reset (C09b/c), dynamic-threshold scenes with bounds unset/set and the mean below/inside/above (C15); non-trivial = motion reported on some but not all frames; distinct by op text'
DET_TRUSTED = ['overlay accessors VerifThresh / VerifBackground / VerifFFCPeriodNs read unexported detector state', "IEEE arithmetic: the driver instantiates FloatOps with Lean's Float32/Float (bit-identical with Go on amd64 in every run so far); theorems hold for every FloatOps instance"]

E2E_RULE = ('generated config.toml (min/max/preview secs, trigger frames, motion overrides, throttler on/off, window set/open, disk gate, constant recorder, device, location) read by the real '
            'ParseConfig + a generated socket byte stream (YAML header from the real encoder, Boson frames of 5x6..10x8 and Lepton 160x120 frames with telemetry, clear markers, bad frames, '
            'test-recording requests, optional cut inside the last item) written in random segments through net.Pipe into the real handleConn; every finished file decoded with the '
            'standard reader and compared field by field and pixel by pixel with the composed model; non-trivial = at least one finished file; distinct by op text')
E2E_TRUSTED = ['overlay harness in package main of cmd/thermal-recorder (init() hijack); window clock injected through Window.Now', 'D-Bus calls fail fast in the sandbox',
               'daemon stream: the real runMain in a child process per case, with a private dbus-daemon (system-bus configuration, everything allowed) as the system bus, a real unix socket, real clock (cases without a recording window only); test-recording requests go through the real D-Bus method']

PROPS = {
    'C19': dict(
        lean=['Props.C19'],
        streams=['ring'],
        rule='random op sequences over write/move/mark/reset/observe for capacities 1..9 (thorough: plus every '
             'protocol-step sequence up to length 7 for capacities 1..4); a case is non-trivial when the buffer '
             'wrapped (completed frames >= capacity); distinct by op text',
        trusted=['motion.FrameLoop driven through its exported API; frame identity = tag stored in two pixels'],
        assumptions=['capacity >= 1 (NewFrameLoop(0) divides by zero on the first Move; the daemon sizes it preview*fps+trigger-frames)'],
    ),
    'C20': dict(
        lean=['Props.C20', 'Props.FactsLog'],
        streams=['loglimiter'],
        rule='histories of (time, message) arrivals over 1-3 messages with steps in {0,1,iv-1,iv,iv+1,iv/2,2iv,iv/3} '
             '(thorough: plus every history of length <= 5 over 3 messages x 4 time steps); non-trivial = at least one '
             'suppression and two prints; distinct by op text',
        trusted=['overlay accessor VerifSetClock (sets the unexported nowFunc); log output captured via log.SetOutput'],
        assumptions=['non-decreasing clock', 'the zero time.Time of a fresh limiter is further than any interval before the first arrival'],
    ),
    'C05': dict(
        lean=['Props.C05', 'Props.C05Composed', 'Props.PipeThr', 'Props.FactsThrottleWiring'],
        streams=['throttle', 'e2e'],
        rule='request/clock schedules in five phase styles (burst at one instant, camera-rate, churn at the tick boundary +-1 ns, long idles, '
             'one-clip refills) with scripted base-recorder failures in 35% of cases; the window monitor checks all O(n^2) windows of each case; '
             'non-trivial = at least one throttled event; distinct by op text',
        trusted=['juju/ratelimit (quantum, fillInterval) for the configured rate measured on a reference bucket by reflection; its 1% rate contract asserted per case',
                 'upstream obeys the recorder protocol (enforced identically by harness and model)'],
        assumptions=['non-decreasing clock', 'bucket-size*fps >= 1 and (min+preview)*fps >= 1 (the library panics on capacity 0; rate 0 is undefined)'],
    ),
    'C01': dict(
        lean=['Props.C01', 'Props.C01Spec', 'Props.PipeThr', 'Props.FactsRing'],
        streams=['processor'],
        project={'processor': r'^< (md|m\.|re|rs|ret|panic)'}, rule=PROC_RULE, trusted=PROC_TRUSTED,
        assumptions=PROC_ASSUME['C01'],
    ),
    'C02': dict(
        lean=['Props.C02', 'Props.PipeC03', 'Props.FactsRing'],
        streams=['processor'],
        project={'processor': r'^< (md|m\.|re|rs|ret|panic)'}, rule=PROC_RULE, trusted=PROC_TRUSTED,
        assumptions=PROC_ASSUME['C02'],
    ),
    'C03': dict(
        lean=['Props.C03', 'Props.C03Spec', 'Props.PipeC03', 'Props.FactsRing', 'Props.FactsLimits', 'Props.FactsRecorderConfig'],
        streams=['processor', 'e2e', 'daemon'],
        project={'processor': r'^< (md|m\.|re|rs|ret|panic)', 'e2e': r'^< config', 'daemon': r'^< start'}, rule=PROC_RULE, trusted=PROC_TRUSTED,
        assumptions=PROC_ASSUME['C03'],
    ),
    'C04': dict(
        lean=['Props.C04', 'Props.C04Spec', 'Props.PipeC04', 'Props.C04Window', 'Props.FactsGates', 'Props.FactsRecorderConfig'],
        streams=['processor', 'window', 'fs', 'e2e'],
        project={'processor': r'^< (md|m\.|re|rs|ret|panic)', 'fs': r'^< gate', 'e2e': r'^$'}, rule=PROC_RULE, trusted=PROC_TRUSTED,
        assumptions=PROC_ASSUME['C04'],
    ),
    'C12': dict(
        lean=['Props.C12', 'Props.C12Spec', 'Props.FactsRing'],
        streams=['processor', 'fs', 'throttle', 'e2e'],
        project={'fs': r'^< (ret|panic)', 'throttle': r'^$', 'e2e': r'^$'},
        rule=PROC_RULE, trusted=PROC_TRUSTED,
        assumptions=PROC_ASSUME['C12'],
    ),
    'C13': dict(
        lean=['Props.C13', 'Props.C13Spec', 'Props.C13Parse', 'Props.FactsRing', 'Props.FactsParserSel', 'Props.Pipeline'],
        streams=['processor', 'e2e', 'parse'],
        rule=PROC_RULE, trusted=PROC_TRUSTED,
        assumptions=PROC_ASSUME['C13'],
    ),
    'C17': dict(
        lean=['Props.C17', 'Props.C17Spec', 'Props.PipeC17', 'Props.Excess', 'Props.FactsExcess', 'Props.FactsRing', 'Props.FactsLimits', 'Props.FactsTestRec', 'Props.Pipeline'],
        streams=['processor', 'e2e', 'names', 'daemon'],
        project={'processor': r'^< (c\.|t\.|ret|panic)', 'daemon': r'^$'}, rule=PROC_RULE, trusted=PROC_TRUSTED,
        assumptions=PROC_ASSUME['C17'],
    ),
    'C06': dict(
        lean=['Props.C06', 'Props.C06Spec', 'Props.C11Thr', 'Props.PipeThr', 'Props.FactsThrottleWiring'],
        streams=['throttle', 'e2e'],
        project={'e2e': r'^$'},
        rule='same schedules as C05 (five phase styles, base-recorder start/write/stop failures in 35% of cases, restarts in the middle of a trigger); '
             'non-trivial = at least one throttled event; distinct by op text',
        trusted=['upstream obeys the recorder protocol (start write* stop)* - proved for the processor in C12 - enforced identically by harness and model'],
        assumptions=['at the excluded point "start; start" the real code forwards two starts (unreachable from the daemon)'],
    ),
    'C07': dict(
        lean=['Props.C07', 'Props.FactsReset', 'Props.FactsFFC', 'Props.PipeC09'],
        streams=['detector', 'processor'],
        project={'processor': r'^< det'},
        rule=DET_RULE, trusted=DET_TRUSTED,
        assumptions=['fixed threshold, no FFC-affected frame (C09 covers FFC)', 'count-thresh >= 1', 'pixel values < 65536 (uint16 in the real code)'],
    ),
    'C08': dict(
        lean=['Props.C08', 'Props.C13Parse', 'Props.FactsFFC'],
        streams=['detector', 'parse', 'processor'],
        project={'parse': r'^$', 'processor': r'^< parser-edge'},
        rule=DET_RULE, trusted=DET_TRUSTED,
        assumptions=['same event skeleton (resets, FFC flags) in both streams'],
    ),
    'C09': dict(
        lean=['Props.C09', 'Props.PipeC09', 'Props.FactsReset', 'Props.FactsFFC'],
        streams=['detector', 'processor'],
        project={'processor': r'^< det'},
        rule=DET_RULE, trusted=DET_TRUSTED,
        assumptions=['same event skeleton in both histories', 'dynamic threshold: no reset before/inside the FFC period (KNOWN-FINDING F7 otherwise)'],
    ),
    'C15': dict(
        lean=['Props.C15', 'Props.PipeC15', 'Props.C11Thr', 'Props.FactsReset', 'Props.Pipeline'],
        streams=['detector', 'e2e', 'throttle', 'processor'],
        project={'throttle': r'^$', 'processor': r'^< det'},
        rule=DET_RULE, trusted=DET_TRUSTED,
        assumptions=['LowerLaw: new < bg -> float32(new) - w < float32(bg), true for the non-negative weights that occur', 'the float64 mean is within one count of the exact mean (validated by the monitor, not proved)', 'the clause "background and threshold stored with a recording are those at the trigger" is covered by the e2e stream'],
    ),
    'C10': dict(
        lean=['Props.C10', 'Props.C10Gen', 'Props.C10Glob', 'Props.C10Pipe', 'Props.C10PipeThr', 'Props.Daemon', 'Props.FactsMain'],
        streams=['fs', 'names', 'e2e', 'daemon'],
        project={'fs': r'^< (?!sys write)', 'e2e': r'^$', 'daemon': r'^< (ls|start|dir)'},
        rule='op sequences of the real motion, test and continuous CPTVFileRecorders (start / write n frames / stop / discard) run under strace; every '
             'system call is a crash point at which the directory model is checked; each case ends with a simulated crash (open recordings abandoned), '
             'decoding of every finished file with the standard reader and the real start-up clean-up; non-trivial = at least one rename; distinct by op text',
        trusted=['strace -f -y report of openat/write/close/renameat/unlinkat; process kill only (no power-loss claim)',
                 'overlay harness injected into package main of cmd/thermal-recorder (init() hijack under VERIF_HARNESS)'],
        assumptions=['time stamps of recordings in one directory are pairwise distinct (enforced by the F9 fix)', 'constant-recordings/ is not the output directory proper'],
    ),
    'C14': dict(
        lean=['Props.C14', 'Props.C14Daemons', 'Props.FactsMarker', 'Props.FactsParserSel', 'Props.FactsMain', 'Props.Pipeline'],
        streams=['e2e', 'leptond', 'leptondloop', 'processor', 'detector', 'daemon'],
        project={'processor': r'^< det', 'detector': r'^$', 'daemon': r'^< (second|conn|header|start|info)'},
        rule=E2E_RULE + '; leptond stream: the real sendCameraSpecs of the camera daemon run on a lepton3.Lepton3 whose I2C command interface is a register-level fake (serials up to 2^63-1, '
             'both part numbers and unknown ones, firmware bytes 0..255, failing serial / firmware queries), sent over a unix socket and read with the real ReadHeaderInfo and with the Lean decoder',
        trusted=E2E_TRUSTED + ['yaml.v1 (camera header): the model uses a decoder for the image of the encoder on flat maps, validated against the real decoder',
                               'leptond stream: fake CCI register file behind periph i2creg', 'leptondloop stream: the real runMain/runCamera loop of cmd/leptond built against a scripted fake of the lepton3 package and a service object without D-Bus (build overlay); power cycling is skipped by an empty power pin'],
        assumptions=['frames do not begin with the bytes "clear" (indistinguishable from the marker in the wire format itself)', 'frame size >= 5'],
    ),
    'C11': dict(
        lean=['Props.C11', 'Props.C13Parse', 'Props.FactsThrottleWiring', 'Props.FactsParserSel', 'Props.FactsRing', 'Props.FactsLimits', 'Props.FactsTestRec', 'Props.Pipeline', 'Props.C11Thr'],
        streams=['e2e', 'throttle', 'parse', 'daemon'],
        project={'parse': r'^$'},
        rule=E2E_RULE,
        trusted=E2E_TRUSTED + ['go-cptv compression + gzip: validated by decoding every produced file with the standard reader, not proved'],
        assumptions=['in-range settings (fps, preview-secs < 256; strings <= 255 bytes; motion YAML <= 255 bytes)', 'throttle refill disabled in e2e runs (min-refill 100 h, real clock)'],
    ),
    'C18': dict(
        lean=['Props.C18', 'Props.C18Roll', 'Props.FactsWriterHandoff', 'Props.FactsWriterMain'],
        streams=['writer'],
        rule='socket byte streams (YAML header + frames of 1 B .. 39 KiB, 0..700 frames, optionally cut inside the last frame) written in random segments with stalls, '
             'GOMAXPROCS 1/2/4/16, through net.Pipe into the real thermal-writer handleConn + writer goroutines; the file is read back byte for byte; '
             'non-trivial = at least one frame; distinct by op text',
        trusted=['Go channel semantics and scheduler are modelled (transition system), not verified', 'overlay harness in package main of cmd/thermal-writer',
                 'file roll-over after one minute is not exercised in the quick tier'],
        assumptions=['none on frame contents: frames that begin with the recorder protocol\'s clear marker are generated too (thermal-writer must store them like any other frame)'],
    ),
    'C16': dict(
        lean=['Props.C16'],
        streams=['conc', 'e2e'],
        project={'conc': r'^$', 'e2e': r'^$'},
        rule='the real handleConn (two camera connections in a row, Boson frames larger than the bufio buffer, uniform pixel value = frame number) run concurrently with 1..4 goroutines calling '
             'service.TakeSnapshot / TakeTestRecording / CameraInfo, GOMAXPROCS 1..16, built with -race; every snapshot is checked to be uniform (a whole frame) and not older than the last frame '
             'completed when the request was made; data-race reports are read back and attributed to function pairs; non-trivial = at least 10 whole snapshots; the model side is the interleaving '
             'transition system proved in Props/C16.lean (not executed: which frame a concurrent snapshot returns is not deterministic)',
        trusted=['Go memory model, scheduler and the race detector are trusted/modelled, not verified', 'lockset table regenerated from the source by tools/gofacts (receiver types resolved by naming convention)',
                 'the service layer is called at function level (no D-Bus daemon in the sandbox)'],
        assumptions=['ring capacity >= 2 (capacity 1 tears: KNOWN-FINDING F10)'],
    ),
}

NOT_APPLICABLE = {}

_COMMON_NOTE = ('Trusted: Lean kernel (axioms propext, Classical.choice, Quot.sound only; audited on every run); the model is '
                'hand-written and tied to /repo by the differential correspondence streams and regenerated facts named in '
                'the evidence file; ')

MANIFEST_TEXT = {
    'C01': dict(
        text='Theorem for every configuration with ring capacity >= 1, every event list (frames with any motion bits, refused starts of all three kinds, bad frames, resets, test requests) and every fault placement except failing motion-sink writes: the trace of the MotionProcessor model is accepted by the C01/C02 monitor - every recording is a consecutive ascending id run, recordings never overlap, and each starts at max(trigger+1-K, 1+last id of the previous recording) (tiling). Proved by a product invariant of model state, ring ghost state and monitor state; the ring part rests on the C19 refinement. The monitor itself is proved sound against a plain list specification for ANY trace (Props.C01Spec.monitor_sound: acceptance implies every recording is a List.range run and the concatenation of all recordings is strictly increasing), and the composed pipeline model inherits it from socket bytes to file contents (pipe_c01).',
        note=_COMMON_NOTE + 'the executable monitor used on real traces is proved equivalent to (C01: sound for) a monitor-free list-level statement for every trace (Props/C01Spec, C03Spec, C12Spec), so it is no longer part of the trusted reading.',
        technique='Lean 4 proof (product invariant of model x ghost x monitor, induction over the event list) + differential correspondence',
        design_ref='DESIGN.md 5/C01'),
    'C02': dict(
        text='Same invariant as C01, read for the start of a recording: the observations of a triggering event are exactly start, then the writes lo..n with lo = max(n+1-K, nextFree); arithmetic corollary: exactly K-1 pre-trigger frames unless fewer were accepted since start-up / the previous recording.',
        note=_COMMON_NOTE + 'the executable monitor that states the property is part of the trusted reading of the statement (lean/TR/ProcMon.lean, lean/TR/ThrMon.lean).',
        technique='Lean 4 proof (product invariant of model x ghost x monitor, induction over the event list) + differential correspondence',
        design_ref='DESIGN.md 5/C02'),
    'C03': dict(
        text='Theorem for all motion patterns, refused starts, bad frames, resets, all 0 <= minF <= maxF: a recording ends exactly at the first post-trigger frame p with p >= min(maxF, L(p)-1+minF); corollaries: post-trigger length < maxF while open, sustained motion yields max-length recordings that tile. The length monitor is proved EQUIVALENT, for any trace, to a monitor-free rule (Props.C03Spec.monitor_exact: at every frame of every recording, the recording is stopped at that frame iff the frame count since the trigger has reached min(maxF, index of the last motion frame - 1 + minF)); c03_recording_bounds: with 1 <= minF <= maxF a stopped recording has minF..maxF post-trigger frames, exactly min(maxF, L-1+minF).',
        note=_COMMON_NOTE + 'the executable monitor used on real traces is proved equivalent to (C01: sound for) a monitor-free list-level statement for every trace (Props/C01Spec, C03Spec, C12Spec), so it is no longer part of the trusted reading.',
        technique='Lean 4 proof (product invariant of model x ghost x monitor, induction over the event list) + differential correspondence',
        design_ref='DESIGN.md 5/C03'),
    'C04': dict(
        text='Theorem for every event list and EVERY fault placement: a successful start occurs at a frame iff no recording is active, the frame has motion, the run counter reached trigger-frames, the window is open, CheckCanRecord passes and StartRecording succeeds; the disk check is consulted only with the window open; a refusal does not reset the run counter (retry on the next motion frame).',
        note=_COMMON_NOTE + 'the executable monitor used on real traces is proved equivalent, for every trace, to a monitor-free rule (Props/C04Spec.monC04_iff: at every frame, a successful start iff no recording open, motion, run >= trigger-frames, window, disk check, start ok; disk check / start attempted only when due), so it is no longer part of the trusted reading.',
        technique='Lean 4 proof (product invariant of model x ghost x monitor, induction over the event list) + differential correspondence',
        design_ref='DESIGN.md 5/C04'),
    'C12': dict(
        text='Theorem for every event list over {frame, bad frame, reset, test request} and every fault placement on every call of every sink, continuous recorder on or off: each of the three sinks sees a call sequence accepted by the protocol automaton and the GetHistory slice expression never panics; recovery theorem: from every reachable state max(trigger-frames,1) fault-free motion frames lead to a successful write on the motion sink.',
        note=_COMMON_NOTE + 'the executable monitor used on real traces is proved equivalent to (C01: sound for) a monitor-free list-level statement for every trace (Props/C01Spec, C03Spec, C12Spec), so it is no longer part of the trusted reading.',
        technique='Lean 4 proof (product invariant of model x ghost x monitor, induction over the event list) + differential correspondence',
        design_ref='DESIGN.md 5/C12'),
    'C13': dict(
        text='Theorem for every event list and fault placement: a rejected frame produces no write on any sink, ends an open motion recording (stop observed), never starts one, and the content a rejecting parser scribbled into the ring slot is never written to any sink later. Parsing (zero pixel <-> bad frame, pixel-exact decode) is covered by the parse stream and theorems.',
        note=_COMMON_NOTE + 'the executable monitor used on real traces is proved equivalent, for every trace, to a monitor-free rule (Props/C13Spec.monC13_iff, badFrameRule_plain), so it is no longer part of the trusted reading; C13Parse ties the parsers.',
        technique='Lean 4 proof (product invariant of model x ghost x monitor, induction over the event list) + differential correspondence',
        design_ref='DESIGN.md 5/C13'),
    'C17': dict(
        text='Theorem for every event list: the continuous sink receives every accepted frame exactly once, in order, in files of maxF+1 frames (restarting after a bad frame), independent of motion, window and faults on the motion sink; a pending test request yields one file with the next testLast+1 = 21 accepted frames.',
        note=_COMMON_NOTE + 'monitor soundness is proved (Props/C17Spec: acceptance implies the continuous files are exactly the chunks of max-secs*fps+1 frames of the segments between bad frames, their concatenation is every frame id once in order, and every test file is the run of testLast+1 frames starting at the first frame after its request) under side conditions the driver also checks on real traces (no sink call outside frame processing).',
        technique='Lean 4 proof (product invariant of model x ghost x monitor, induction over the event list) + differential correspondence',
        design_ref='DESIGN.md 5/C17'),
    'C06': dict(
        text='Theorem for every bucket, minimum length, upstream request list obeying the recorder protocol, any clock and every base-failure pattern: base calls are properly paired, a stop is forwarded iff a file is open, a throttle-cut file holds >= minLen frames, exactly one throttled event per suppressed start or cut (none per frame), and until the first throttling every request is forwarded unchanged.',
        note=_COMMON_NOTE + 'the executable monitors used on real traces are proved equivalent, for every trace, to monitor-free statements (Props/C06Spec.monC06_iff: base calls properly paired, every cut file holds >= minimum-length frames, exactly one event per suppressed start or cut and none otherwise, transparent until the first throttling, stops forwarded iff a file is open; monC11Thr_iff: every file is started with the arguments of the latest upstream start); budget decisions are judged against the bucket model run in lockstep on the real requests.',
        technique='Lean 4 proof (product invariant of model x ghost x monitor, induction over the event list) + differential correspondence',
        design_ref='DESIGN.md 5/C06'),
    'C07': dict(
        text='Theorem for every resolution, edge, gap, threshold configuration with count-thresh >= 1, every frame sequence with resets anywhere and every instance of the floating-point parameter: with a fixed threshold and no FFC-affected frame the detector model reports motion exactly per the declarative specification (count of interior pixels whose clamped difference to the frame gap earlier exceeds delta, in this and - unless one-diff - the previous comparison); first frame of the stream / after a reset never motion. Refinement through the ring ghost (C19).',
        note=_COMMON_NOTE + 'floating point (float32 weights, float64 mean) is a parameter of the model: executed bit-exactly in the driver, opaque to the kernel.',
        technique='Lean 4 proof (ghost-state refinement / relational invariant over two runs, induction over the event list) + differential correspondence',
        design_ref='DESIGN.md 5/C07'),
    'C08': dict(
        text='Relational theorems over two runs of the detector model: streams with the same skeleton that agree on every interior pixel give equal verdicts, thresholds and interior background (fixed or dynamic threshold, any edge); with a fixed threshold, streams that agree after raising pixels to temp-thresh give equal verdicts; the stored background frame depends on interior pixels only.',
        note=_COMMON_NOTE + 'floating point (float32 weights, float64 mean) is a parameter of the model: executed bit-exactly in the driver, opaque to the kernel.',
        technique='Lean 4 proof (ghost-state refinement / relational invariant over two runs, induction over the event list) + differential correspondence',
        design_ref='DESIGN.md 5/C08'),
    'C09': dict(
        text='(a) every frame that is FFC-affected or follows an affected frame is reported as no motion, for all configurations and runs; (b) two histories with the same skeleton and arbitrary different contents before an FFC period give equal verdicts from the period on (fixed threshold: always; dynamic: without resets - the full dynamic statement is refuted by a decide-checked counterexample = known finding F7); (c) with a fixed threshold, verdicts after a reset do not depend on frames before it.',
        note=_COMMON_NOTE + 'floating point (float32 weights, float64 mean) is a parameter of the model: executed bit-exactly in the driver, opaque to the kernel.',
        technique='Lean 4 proof (ghost-state refinement / relational invariant over two runs, induction over the event list) + differential correspondence',
        design_ref='DESIGN.md 5/C09'),
    'C15': dict(
        text='Theorems for one detect step from an arbitrary state (hence every reachable state) and for whole runs, for every FloatOps instance satisfying LowerLaw: interior background <= current non-FFC frame; stored border = nearest interior pixel; re-seeded from the frame after FFC / first frame after reset; threshold is either unchanged or clampThresh(trunc(mean of interior background)), recomputed exactly when changed and backgroundFrames > previewFrames; clamp stays within set bounds and is the identity inside them; FFC frames leave background and threshold untouched.',
        note=_COMMON_NOTE + 'floating point (float32 weights, float64 mean) is a parameter of the model: executed bit-exactly in the driver, opaque to the kernel.',
        technique='Lean 4 proof (ghost-state refinement / relational invariant over two runs, induction over the event list) + differential correspondence',
        design_ref='DESIGN.md 5/C15'),
    'C10': dict(
        text='Theorems over a model of the file-system calls of the file recorder (names T = .cptv.temp, S = .cptv.temp.tmp, F = .cptv; start/write/stop/discard '
             'step lists as go-cptv really issues them): for every interleaving of recordings obeying the recorder protocol and EVERY prefix of the resulting call '
             'sequence (= every crash point) every .cptv name is a complete recording never written in place; after start-up clean-up of any crash state only complete '
             '.cptv files remain; the same over EVERY HISTORY OF LIVES of the daemon (Props.C10Gen: any number of runs, each killed at an arbitrary system call and followed by the start-up clean-up of the next start, ids fresh: at every instant of every life every .cptv name is complete, every clean-up leaves complete recordings only, and a finished recording is never lost by later lives); the clean-up glob (regenerated from the source) matches every T and S name and no F name for all time stamps. The model is compared with '
             'the real recorder under strace (every system call a crash point), finished files are decoded with the standard reader, the real clean-up runs on the crash state.',
        note=_COMMON_NOTE + 'process kill only, no power-loss durability; the kernel rename/unlink atomicity and strace are trusted; gzip/CPTV codec validated by decoding, not proved.',
        technique='Lean 4 proof (invariant over operation boundaries + all prefixes of the step lists; glob matcher lemmas) + differential correspondence under strace',
        design_ref='DESIGN.md 5/C10'),
    'C14': dict(
        text='Theorems over the byte-level socket model: the header text before the blank line is returned exactly and nothing beyond it is consumed; every proper prefix of header + blank line is an error; for every frame size >= 5 and every list of frames/markers the frame loop returns exactly that list (each item once, in order, alignment never lost); a stream cut inside an item yields the complete items before it, then truncation. Facts: both daemons use the same marker, the probe length equals the marker length, header keys agree. The real ReadHeaderInfo/handleConn are exercised end to end with random read segmentations.',
        note=_COMMON_NOTE + 'see trusted base in the evidence file.',
        technique='Lean 4 proof (induction / invariants over byte lists and transition systems) + differential correspondence end to end',
        design_ref='DESIGN.md 5/C14'),
    'C11': dict(
        text='Theorems: Lepton telemetry times fit the 32-bit millisecond fields and survive ms<->ns conversion, sub-millisecond parts would be lost (never produced), pixels are 16-bit, one-byte header fields survive iff < 256, rejected frames are never accepted by the composed pipeline. The composition socket -> parser -> detector -> processor -> throttle -> files is an executable model whose files (header fields, background, every frame pixel for pixel with telemetry) are compared with the files the real daemon writes for generated config.toml + socket bytes, decoded by the standard reader.',
        note=_COMMON_NOTE + 'see trusted base in the evidence file.',
        technique='Lean 4 proof (induction / invariants over byte lists and transition systems) + differential correspondence end to end',
        design_ref='DESIGN.md 5/C11'),
    'C18': dict(
        text='Theorems: decodeFile(encodeFile h frames) = (header fields, frames) for all headers and frames < 2^32 bytes (magic, version, H section, field table, F sections with length field); for EVERY interleaving of the reader/writer transition system with a pool of cap buffers and two channels of capacity cap: written frames are a prefix of the input, buffer ids stay distinct (no aliasing of a buffer being filled with one queued or being written), sends never block, progress, and when the file is closed everything received has been written. The real handleConn/writer pair is run on generated streams and its file compared byte for byte with the model encoding.',
        note=_COMMON_NOTE + 'see trusted base in the evidence file.',
        technique='Lean 4 proof (induction / invariants over byte lists and transition systems) + differential correspondence end to end',
        design_ref='DESIGN.md 5/C18'),
    'C16': dict(
        text='Theorems over an interleaving transition system of the frame thread (fills the current slot word by word without the lock, then lock+Move+unlock) and a requester (lock, copy the previous slot word by word, unlock): '
             'for every capacity >= 2, every frame size and contents and EVERY schedule a finished request holds exactly frame nAtLock-1 - the last frame completed when the lock was taken, never a mixture - and it is not older '
             'than the last frame completed at request time; capacity 1 provably tears (known finding F10). Lockset instance decided in Lean over the access table regenerated from the source: the racy variables are exactly '
             'CurrentFrame, StartSnapshot, headerInfo, processor (known findings F8, confirmed by the race detector); every FrameLoop field is protected. The real code is stressed under -race.',
        note=_COMMON_NOTE + 'PARTIAL: the Go scheduler and memory model are modelled, not verified; which snapshot is returned is nondeterministic, so the stream is monitor-only.',
        technique='Lean 4 proof (invariant over an interleaving transition system; decided lockset instance over regenerated facts) + race-detector stress of the real code',
        design_ref='DESIGN.md 5/C16'),
    'C19': dict(
        text='Theorems for every capacity >= 1 and every operation sequence: GetHistory/Oldest/CopyRecent of the FrameLoop model equal a '
             'three-line list specification (refinement through a ghost state, proved by induction over the operation list); the model is '
             'compared op-for-op with the real motion.FrameLoop on generated and bounded-exhaustive operation sequences.',
        note=_COMMON_NOTE + 'frames are identified by a tag in two pixels; capacity 1 "recent" is stated as what the code does.',
        technique='Lean 4 refinement proof (ghost invariant, induction over op list) + differential correspondence',
        design_ref='DESIGN.md 5/C19'),
    'C05': dict(
        text='Theorem for every capacity/quantum >= 1, every minimum length, every upstream request list with a non-decreasing clock and every base-failure '
             'pattern: in every window of requests the frames forwarded to storage are at most cap + 1 + q*(tick_j - tick_i) (potential argument over the '
             'tick-level model of juju/ratelimit incl. its stale-latestTick early return; the +1 is shown attained). The model is compared call-for-call '
             'with the real ThrottledRecorder over the real bucket under an injected clock; the formulas cap = bucket-size*fps and rate = (min+preview)*fps/min-refill '
             'are applied by the harness and must reproduce the real behaviour. Props.C05Composed states the instance for the request sequences the motion-processor model produces on any frame stream (continuous motion included).',
        note=_COMMON_NOTE + "the library's float loop choosing (quantum, fillInterval) is measured, not modelled; main.go wiring is covered by regenerated facts / the e2e stream.",
        technique='Lean 4 proof (potential function, induction over the request list) + differential correspondence',
        design_ref='DESIGN.md 5/C05'),
    'C20': dict(
        text='Theorems for every history of (message, time) arrivals and every interval: a message is suppressed iff it equals the last '
             'printed message and arrives less than the interval after that print; suppressed repeats leave the state unchanged; distinct '
             'messages and messages at/after the interval are always printed; the whole run equals a specification threading "last printed". '
             'The model is compared arrival-for-arrival with the real LogLimiter under an injected clock.',
        note=_COMMON_NOTE + 'log output is captured through the standard logger; the interval constant used by the processor is a regenerated fact.',
        technique='Lean 4 proof (case analysis + induction over the history) + differential correspondence',
        design_ref='DESIGN.md 5/C20'),
}
