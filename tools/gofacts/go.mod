module gofacts

go 1.15
