package main

import (
	"fmt"
	"go/ast"
	"go/token"
	"sort"
	"strings"
)

// locksetFacts: a small lockset analysis of the snapshot/service paths versus the frame
// loop.  For each thread root, walk the call graph (functions of the repository resolved
// by name), tracking which mutexes are held (`X.Lock()` … `X.Unlock()` / `defer X.Unlock()`),
// and record every access to a shared variable as (root, thread, variable, R/W, locks).
//
// Shared variables: package variables of cmd/thermal-recorder (processor, headerInfo,
// previousSnapshotTime, previousSnapshotID), exported MotionProcessor fields written by
// other goroutines (StartSnapshot, CurrentFrame, SnapshotRecording) and the FrameLoop
// fields (currentIndex, bufferFull, oldest, frames).

type access struct {
	thread, root, fn, variable, mode, locks string
}

var sharedPkgVars = map[string]bool{"processor": true, "headerInfo": true, "previousSnapshotTime": true, "previousSnapshotID": true}
var sharedFields = map[string]bool{"StartSnapshot": true, "CurrentFrame": true, "SnapshotRecording": true,
	"currentIndex": true, "bufferFull": true, "oldest": true, "frames": true}

func locksetFacts(repo string) string {
	files := []string{"cmd/thermal-recorder/main.go", "cmd/thermal-recorder/snapshot.go", "cmd/thermal-recorder/service.go",
		"motion/motionprocessor.go", "motion/frameloop.go"}
	funcs := map[string]*ast.FuncDecl{}
	for _, rel := range files {
		f := parse(repo, rel)
		for _, d := range f.Decls {
			if fd, ok := d.(*ast.FuncDecl); ok && fd.Body != nil {
				funcs[recvOf(fd)+fd.Name.Name] = fd
			}
		}
	}
	roots := []struct{ thread, name string }{
		{"frame", "handleConn"},
		{"service", "TakeSnapshot"}, {"service", "TakeTestRecording"}, {"service", "CameraInfo"},
		{"service", "snapshotRecordingTriggers"},
	}
	var acc []access
	seen := map[string]bool{}
	var walk func(thread, root, fn, inst string, held []string, depth int)
	lockName := func(e ast.Expr) string {
		s := src(e)
		switch {
		case s == "mu":
			return "snapshot.mu"
		case strings.HasSuffix(s, ".mu"):
			return "FrameLoop.mu"
		}
		return s
	}
	walk = func(thread, root, fn, inst string, held []string, depth int) {
		fd := funcs[fn]
		if fd == nil || depth > 8 {
			return
		}
		key := thread + "|" + root + "|" + fn + "|" + inst + "|" + strings.Join(held, ",")
		if seen[key] {
			return
		}
		seen[key] = true
		cur := append([]string{}, held...)
		writes := map[ast.Node]bool{}
		record := func(v, mode string) {
			l := append([]string{}, cur...)
			sort.Strings(l)
			acc = append(acc, access{thread, root, fn, v, mode, strings.Join(l, "+")})
		}
		var visit func(n ast.Node) bool
		visit = func(n ast.Node) bool {
			switch x := n.(type) {
			case *ast.FuncLit:
				return false // closures run elsewhere (checkConfigChanges etc.)
			case *ast.GoStmt:
				return false
			case *ast.DeferStmt:
				if c := x.Call; strings.HasSuffix(src(c.Fun), ".Unlock") {
					return false // deferred unlock: held until return
				}
			case *ast.AssignStmt:
				for _, l := range x.Lhs {
					writes[l] = true
				}
			case *ast.IncDecStmt:
				writes[x.X] = true
			case *ast.CallExpr:
				f := src(x.Fun)
				if strings.HasSuffix(f, ".Lock") {
					cur = append(cur, lockName(x.Fun.(*ast.SelectorExpr).X))
					return false
				}
				if strings.HasSuffix(f, ".Unlock") {
					ln := lockName(x.Fun.(*ast.SelectorExpr).X)
					for i, h := range cur {
						if h == ln {
							cur = append(cur[:i:i], cur[i+1:]...)
							break
						}
					}
					return false
				}
				// arguments first, then the callee
				for _, a := range x.Args {
					ast.Inspect(a, visit)
				}
				name, callee := f, inst
				if se, ok := x.Fun.(*ast.SelectorExpr); ok {
					ast.Inspect(se.X, visit)
					recv := src(se.X)
					t := guessType(recv)
					name = t + se.Sel.Name
					if t == "FrameLoop." {
						callee = instanceOf(recv, inst)
					} else {
						callee = ""
					}
				}
				if _, ok := funcs[name]; ok && name != fn {
					walk(thread, root, name, callee, cur, depth+1)
				}
				return false
			case *ast.SelectorExpr:
				if sharedFields[x.Sel.Name] {
					mode := "R"
					if writes[x] {
						mode = "W"
					}
					v := x.Sel.Name
					if strings.HasPrefix(fn, "FrameLoop.") {
						v = inst + "." + v
					}
					record(v, mode)
				}
			case *ast.Ident:
				if sharedPkgVars[x.Name] {
					mode := "R"
					if writes[x] {
						mode = "W"
					}
					record(x.Name, mode)
				}
			}
			return true
		}
		ast.Inspect(fd.Body, visit)
		_ = token.NoPos
	}
	for _, r := range roots {
		name := r.name
		if _, ok := funcs[name]; !ok {
			name = "service." + name
		}
		walk(r.thread, r.name, name, "", nil, 0)
	}
	// canonical, de-duplicated table: (thread, variable, mode, locks)
	set := map[string]bool{}
	for _, a := range acc {
		set[fmt.Sprintf("(%q, %q, %q, %q)", a.thread, a.variable, a.mode, a.locks)] = true
	}
	var rows []string
	for k := range set {
		rows = append(rows, k)
	}
	sort.Strings(rows)
	var b strings.Builder
	b.WriteString("/-- lockset table: (thread, shared variable, R/W, locks held) for every access reachable from the\nframe-loop root (handleConn) and the service roots (TakeSnapshot, TakeTestRecording, CameraInfo,\nsnapshotRecordingTriggers) -/\ndef accesses : List (String × String × String × String) := [\n")
	for i, r := range rows {
		sep := ","
		if i == len(rows)-1 {
			sep = ""
		}
		b.WriteString("  " + r + sep + "\n")
	}
	b.WriteString("]\n\n")
	return b.String()
}

// recvOf: "Type." for methods, "" for functions
func recvOf(fd *ast.FuncDecl) string {
	if fd.Recv == nil || len(fd.Recv.List) == 0 {
		return ""
	}
	t := fd.Recv.List[0].Type
	if st, ok := t.(*ast.StarExpr); ok {
		t = st.X
	}
	return src(t) + "."
}

// guessType maps a receiver expression to its type by the naming conventions of this code
// base (no type checker is available offline for the module's dependencies).
func guessType(recv string) string {
	switch {
	case recv == "fl" || strings.HasSuffix(recv, "frameLoop") || strings.HasSuffix(recv, "flooredFrames") || strings.HasSuffix(recv, "diffFrames"):
		return "FrameLoop."
	case recv == "mp" || recv == "processor":
		return "MotionProcessor."
	case recv == "s":
		return "service."
	}
	return recv + "?."
}

// instanceOf: which FrameLoop a method call addresses ("fl" inside a FrameLoop method keeps the caller's instance)
func instanceOf(recv, inst string) string {
	if recv == "fl" {
		return inst
	}
	if i := strings.LastIndex(recv, "."); i >= 0 {
		return recv[i+1:]
	}
	return recv
}
