// Command gofacts re-extracts, from the CURRENT source of thermal-recorder, the constants
// and structural facts that the Lean theorems in Props/ are stated about, and prints
// Generated/Facts.lean.  Standard library only (go/ast, go/parser, go/printer).
//
// A fact that can no longer be found is emitted with a sentinel value, so that the theorem
// depending on it fails at `lake build` (a broken proof obligation, handled by ./check).
package main

import (
	"bytes"
	"fmt"
	"go/ast"
	"go/parser"
	"go/printer"
	"go/token"
	"os"
	"path/filepath"
	"sort"
	"strconv"
	"strings"
)

var fset = token.NewFileSet()

func parse(repo, rel string) *ast.File {
	f, err := parser.ParseFile(fset, filepath.Join(repo, rel), nil, parser.ParseComments)
	if err != nil {
		return &ast.File{Name: ast.NewIdent("missing")}
	}
	return f
}

func src(n ast.Node) string {
	if n == nil {
		return "<missing>"
	}
	var b bytes.Buffer
	printer.Fprint(&b, fset, n)
	return strings.Join(strings.Fields(b.String()), " ")
}

func runMainSkeleton(f *ast.File) string {
	skeleton := "<missing>"
	if fd := funcDecl(f, "runMain"); fd != nil {
		var seq []string
		var walk func(n ast.Node, deferred bool)
		walk = func(n ast.Node, deferred bool) {
			ast.Inspect(n, func(n ast.Node) bool {
				switch x := n.(type) {
				case *ast.ForStmt:
					seq = append(seq, "for{")
					walk(x.Body, deferred)
					seq = append(seq, "}")
					return false
				case *ast.DeferStmt:
					walk(x.Call, true)
					return false
				case *ast.GoStmt:
					return false
				case *ast.CallExpr:
					f := src(x.Fun)
					switch f {
					case "ParseConfig", "startService", "deleteTempFiles", "net.Listen", "listener.Accept", "listener.Close", "handleConn", "os.Remove":
						if deferred {
							f = "defer " + f
						}
						seq = append(seq, f+"("+strings.Join(mapSrc(x.Args), ",")+")")
					}
				}
				return true
			})
		}
		walk(fd.Body, false)
		skeleton = strings.Join(seq, ";")
	}
	return skeleton
}

func mapSrc(es []ast.Expr) []string {
	var out []string
	for _, e := range es {
		out = append(out, src(e))
	}
	return out
}

func funcDecl(f *ast.File, name string) *ast.FuncDecl {
	for _, d := range f.Decls {
		if fd, ok := d.(*ast.FuncDecl); ok && fd.Name.Name == name {
			return fd
		}
	}
	return nil
}

// constExpr returns the initialiser of a package-level const/var.
func constExpr(f *ast.File, name string) ast.Expr {
	for _, d := range f.Decls {
		gd, ok := d.(*ast.GenDecl)
		if !ok {
			continue
		}
		for _, s := range gd.Specs {
			vs, ok := s.(*ast.ValueSpec)
			if !ok {
				continue
			}
			for i, n := range vs.Names {
				if n.Name == name && i < len(vs.Values) {
					return vs.Values[i]
				}
			}
		}
	}
	return nil
}

func strLit(e ast.Expr) string {
	if bl, ok := e.(*ast.BasicLit); ok && bl.Kind == token.STRING {
		s, err := strconv.Unquote(bl.Value)
		if err == nil {
			return s
		}
	}
	return "<missing>"
}

const missingNat = 999999999999

func intLit(e ast.Expr) int64 {
	if bl, ok := e.(*ast.BasicLit); ok && bl.Kind == token.INT {
		n, err := strconv.ParseInt(bl.Value, 0, 64)
		if err == nil {
			return n
		}
	}
	return missingNat
}

// durationNs evaluates expressions like `10 * time.Second`, `time.Minute`, `500 * time.Millisecond`.
func durationNs(e ast.Expr) int64 {
	units := map[string]int64{"Nanosecond": 1, "Microsecond": 1e3, "Millisecond": 1e6, "Second": 1e9, "Minute": 60e9, "Hour": 3600e9}
	switch x := e.(type) {
	case *ast.SelectorExpr:
		if id, ok := x.X.(*ast.Ident); ok && id.Name == "time" {
			if u, ok := units[x.Sel.Name]; ok {
				return u
			}
		}
	case *ast.BinaryExpr:
		if x.Op == token.MUL {
			a, b := durationNs(x.X), durationNs(x.Y)
			if a != missingNat && b != missingNat {
				return a * b
			}
		}
	case *ast.BasicLit:
		return intLit(x)
	case *ast.ParenExpr:
		return durationNs(x.X)
	}
	return missingNat
}

func lstr(s string) string { return strconv.Quote(s) }

type out struct{ b strings.Builder }

func (o *out) def(name, typ, val, comment string) {
	fmt.Fprintf(&o.b, "/-- %s -/\ndef %s : %s := %s\n\n", comment, name, typ, val)
}

// find the first node satisfying pred inside root
func find(root ast.Node, pred func(ast.Node) bool) ast.Node {
	var res ast.Node
	if root == nil {
		return nil
	}
	ast.Inspect(root, func(n ast.Node) bool {
		if res != nil || n == nil {
			return false
		}
		if pred(n) {
			res = n
			return false
		}
		return true
	})
	return res
}

func findAll(root ast.Node, pred func(ast.Node) bool) []ast.Node {
	var res []ast.Node
	if root == nil {
		return nil
	}
	ast.Inspect(root, func(n ast.Node) bool {
		if n != nil && pred(n) {
			res = append(res, n)
		}
		return true
	})
	return res
}

func isCall(n ast.Node, fun string) (*ast.CallExpr, bool) {
	c, ok := n.(*ast.CallExpr)
	if !ok {
		return nil, false
	}
	return c, src(c.Fun) == fun
}

func main() {
	repo := "/repo"
	if len(os.Args) > 1 {
		repo = os.Args[1]
	}
	o := &out{}
	o.b.WriteString("/-!\n# Generated.Facts — regenerated from the current thermal-recorder source by tools/gofacts\n\nDo not edit: rewritten by every ./check run.\n-/\nnamespace Facts\n\n")

	trMain := parse(repo, "cmd/thermal-recorder/main.go")
	ldMain := parse(repo, "cmd/leptond/main.go")
	twMain := parse(repo, "cmd/thermal-writer/main.go")
	motionGo := parse(repo, "motion/motion.go")
	procGo := parse(repo, "motion/motionprocessor.go")
	cfrGo := parse(repo, "cmd/thermal-recorder/cptvfilerecorder.go")
	hdrInfo := parse(repo, "headers/headerinfo.go")

	// ---- markers and probe (C14)
	o.def("recorderClear", "String", lstr(strLit(constExpr(trMain, "clearBuffer"))), "cmd/thermal-recorder/main.go: const clearBuffer")
	o.def("leptondClear", "String", lstr(strLit(constExpr(ldMain, "clearBuffer"))), "cmd/leptond/main.go: const clearBuffer")
	hc := funcDecl(trMain, "handleConn")
	probe := int64(missingNat)
	probeCmp := "<missing>"
	readFulls := 0
	if hc != nil {
		// io.ReadFull(reader, rawFrame[:N]) — the probe; io.ReadFull(reader, rawFrame[N:]) — the rest
		for _, n := range findAll(hc, func(n ast.Node) bool { _, ok := isCall(n, "io.ReadFull"); return ok }) {
			c := n.(*ast.CallExpr)
			readFulls++
			if len(c.Args) == 2 {
				if se, ok := c.Args[1].(*ast.SliceExpr); ok && se.Low == nil && se.High != nil {
					probe = intLit(se.High)
				}
			}
		}
		if n := find(hc, func(n ast.Node) bool {
			be, ok := n.(*ast.BinaryExpr)
			return ok && be.Op == token.EQL && src(be.Y) == "clearBuffer"
		}); n != nil {
			probeCmp = src(n)
		}
	}
	o.def("probeLen", "Nat", fmt.Sprint(probe), "handleConn: io.ReadFull(reader, rawFrame[:N])")
	o.def("recorderReadFullCalls", "Nat", fmt.Sprint(readFulls), "handleConn: number of io.ReadFull calls (probe + rest of frame)")
	o.def("recorderMarkerTest", "String", lstr(probeCmp), "handleConn: the comparison that recognises the marker")
	// leptond sends the marker with conn.Write([]byte(clearBuffer))
	ldSend := "<missing>"
	if n := find(ldMain, func(n ast.Node) bool {
		c, ok := n.(*ast.CallExpr)
		return ok && strings.HasSuffix(src(c.Fun), ".Write") && strings.Contains(src(c), "clearBuffer")
	}); n != nil {
		ldSend = src(n)
	}
	o.def("leptondMarkerSend", "String", lstr(ldSend), "leptond: how the marker is written to the socket")
	// header keys written by leptond / read by the recorder
	keys := func(root ast.Node) string {
		set := map[string]bool{}
		for _, n := range findAll(root, func(n ast.Node) bool {
			se, ok := n.(*ast.SelectorExpr)
			if !ok {
				return false
			}
			id, ok := se.X.(*ast.Ident)
			return ok && id.Name == "headers"
		}) {
			set[n.(*ast.SelectorExpr).Sel.Name] = true
		}
		var ks []string
		for k := range set {
			ks = append(ks, k)
		}
		sort.Strings(ks)
		return strings.Join(ks, ",")
	}
	o.def("leptondHeaderKeys", "String", lstr(keys(funcDecl(ldMain, "sendCameraSpecs"))), "leptond sendCameraSpecs: headers.* keys written")
	// ... and the value given to each key
	ldVals := "<missing>"
	if fd := funcDecl(ldMain, "sendCameraSpecs"); fd != nil {
		if n := find(fd, func(n ast.Node) bool {
			cl, ok := n.(*ast.CompositeLit)
			return ok && strings.HasPrefix(src(cl.Type), "map[string]")
		}); n != nil {
			var parts []string
			for _, e := range n.(*ast.CompositeLit).Elts {
				parts = append(parts, strings.Join(strings.Fields(src(e)), ""))
			}
			sort.Strings(parts)
			ldVals = strings.Join(parts, ";")
		}
	}
	o.def("leptondHeaderValues", "String", lstr(ldVals), "leptond sendCameraSpecs: the header map literal")
	rk := map[string]bool{}
	if rh := funcDecl(hdrInfo, "ReadHeaderInfo"); rh != nil {
		for _, n := range findAll(rh, func(n ast.Node) bool { _, ok := n.(*ast.IndexExpr); return ok }) {
			ie := n.(*ast.IndexExpr)
			if id, ok := ie.Index.(*ast.Ident); ok && src(ie.X) == "h" {
				rk[id.Name] = true
			}
		}
	}
	var rks []string
	for k := range rk {
		rks = append(rks, k)
	}
	sort.Strings(rks)
	o.def("recorderHeaderKeys", "String", lstr(strings.Join(rks, ",")), "headers.ReadHeaderInfo: keys read from the YAML map")
	blank := "<missing>"
	if rh := funcDecl(hdrInfo, "ReadHeaderInfo"); rh != nil {
		if n := find(rh, func(n ast.Node) bool {
			be, ok := n.(*ast.BinaryExpr)
			return ok && be.Op == token.EQL && strings.Contains(src(be), "Trim")
		}); n != nil {
			blank = src(n)
		}
	}
	o.def("headerBlankLineTest", "String", lstr(blank), "headers.ReadHeaderInfo: end-of-header test")

	// ---- detector / processor constants
	o.def("ffcPeriodNs", "Nat", fmt.Sprint(durationNs(constExpr(motionGo, "ffcPeriod"))), "motion/motion.go: const ffcPeriod")
	ffcTest := "<missing>"
	if fd := funcDecl(motionGo, "isAffectedByFFC"); fd != nil {
		if n := find(fd, func(n ast.Node) bool { _, ok := n.(*ast.ReturnStmt); return ok }); n != nil {
			ffcTest = src(n.(*ast.ReturnStmt).Results[0])
		}
	}
	o.def("ffcTest", "String", lstr(ffcTest), "motion/motion.go: isAffectedByFFC")
	o.def("minLogIntervalNs", "Nat", fmt.Sprint(durationNs(constExpr(procGo, "minLogInterval"))), "motion/motionprocessor.go: const minLogInterval")
	logInit := "<missing>"
	if fd := funcDecl(procGo, "NewMotionProcessor"); fd != nil {
		if n := find(fd, func(n ast.Node) bool {
			kv, ok := n.(*ast.KeyValueExpr)
			return ok && src(kv.Key) == "log"
		}); n != nil {
			logInit = src(n.(*ast.KeyValueExpr).Value)
		}
	}
	o.def("processorLogInit", "String", lstr(logInit), "NewMotionProcessor: log field")
	kvOf := func(fn, key string) string {
		if fd := funcDecl(procGo, fn); fd != nil {
			if n := find(fd, func(n ast.Node) bool {
				kv, ok := n.(*ast.KeyValueExpr)
				return ok && src(kv.Key) == key
			}); n != nil {
				return src(n.(*ast.KeyValueExpr).Value)
			}
		}
		return "<missing>"
	}
	o.def("ringSizeExpr", "String", lstr(kvOf("NewMotionProcessor", "frameLoop")), "NewMotionProcessor: frameLoop field")
	o.def("minFramesExpr", "String", lstr(kvOf("NewMotionProcessor", "minFrames")), "NewMotionProcessor: minFrames field")
	o.def("maxFramesExpr", "String", lstr(kvOf("NewMotionProcessor", "maxFrames")), "NewMotionProcessor: maxFrames field")
	condOf := func(f *ast.File, fn, contains string) string {
		if fd := funcDecl(f, fn); fd != nil {
			if n := find(fd, func(n ast.Node) bool {
				is, ok := n.(*ast.IfStmt)
				return ok && strings.Contains(src(is.Cond), contains)
			}); n != nil {
				return src(n.(*ast.IfStmt).Cond)
			}
		}
		return "<missing>"
	}
	snapCond := condOf(procGo, "processSnapshot", "snapshotFrames")
	o.def("testRecStopTest", "String", lstr(snapCond), "processSnapshot: when the test recording stops")
	last := int64(missingNat)
	if fd := funcDecl(procGo, "processSnapshot"); fd != nil {
		if n := find(fd, func(n ast.Node) bool {
			be, ok := n.(*ast.BinaryExpr)
			return ok && be.Op == token.GTR && strings.Contains(src(be.X), "snapshotFrames")
		}); n != nil {
			last = intLit(n.(*ast.BinaryExpr).Y)
		}
	}
	o.def("testRecLast", "Nat", fmt.Sprint(last), "processSnapshot: N in `snapshotFrames > N`")
	o.def("constRecStopTest", "String", lstr(condOf(procGo, "processConstantRecorder", "crFrames >")), "processConstantRecorder: when the continuous file is cut")
	o.def("windowGate", "String", lstr(condOf(procGo, "canStartWriting", "window")), "canStartWriting: the window test")
	o.def("triggerTest", "String", lstr(condOf(procGo, "process", "triggerFrames")), "process: the trigger-frames test")

	// ---- recorder/recorderconfig.go: how config.toml becomes the recorder's settings (C03, C04)
	rcGo := parse(repo, "recorder/recorderconfig.go")
	winArgs := "<missing>"
	if fd := funcDecl(rcGo, "NewConfig"); fd != nil {
		if n := find(fd, func(n ast.Node) bool { _, ok := isCall(n, "window.New"); return ok }); n != nil {
			var parts []string
			for _, a := range n.(*ast.CallExpr).Args {
				parts = append(parts, src(a))
			}
			winArgs = strings.Join(parts, ";")
		}
	}
	o.def("windowCtorArgs", "String", lstr(winArgs), "recorder.NewConfig: arguments of window.New")
	rcFields := "<missing>"
	if fd := funcDecl(rcGo, "NewConfig"); fd != nil {
		if n := find(fd, func(n ast.Node) bool {
			cl, ok := n.(*ast.CompositeLit)
			return ok && src(cl.Type) == "RecorderConfig"
		}); n != nil {
			var parts []string
			for _, e := range n.(*ast.CompositeLit).Elts {
				parts = append(parts, strings.Join(strings.Fields(src(e)), ""))
			}
			rcFields = strings.Join(parts, ";")
		}
	}
	o.def("recorderConfigFields", "String", lstr(rcFields), "recorder.NewConfig: the RecorderConfig literal")
	o.def("recorderConfigValidate", "String", lstr(condOf(rcGo, "validate", "MaxSecs")), "RecorderConfig.validate: the rejected case")

	// ---- MotionProcessor.Reset: a camera reset ends the recording and ALWAYS restarts the detector (C09, C15)
	resetBody := "<missing>"
	if fd := funcDecl(procGo, "Reset"); fd != nil && fd.Body != nil {
		var parts []string
		for _, st := range fd.Body.List {
			parts = append(parts, strings.Join(strings.Fields(src(st)), " "))
		}
		resetBody = strings.Join(parts, ";")
	}
	o.def("processorResetBody", "String", lstr(resetBody), "MotionProcessor.Reset: the statements of its body")

	// ---- frameParser: which parser handles which camera (C13)
	fpMap := "<missing>"
	if fd := funcDecl(trMain, "frameParser"); fd != nil {
		var parts []string
		for _, n := range findAll(fd, func(n ast.Node) bool { _, ok := n.(*ast.CaseClause); return ok }) {
			cc := n.(*ast.CaseClause)
			var keys []string
			for _, e := range cc.List {
				keys = append(keys, src(e))
			}
			body := ""
			for _, st := range cc.Body {
				body += strings.Join(strings.Fields(src(st)), " ")
			}
			parts = append(parts, strings.Join(keys, ",")+"=>"+body)
		}
		fpMap = strings.Join(parts, ";")
	}
	o.def("frameParserMap", "String", lstr(fpMap), "frameParser: camera model -> parser")

	// ---- main.go wiring (C05, C11)
	o.def("throttleGuardExpr", "String", lstr(condOf(trMain, "handleConn", "Throttler")), "handleConn: condition under which the throttle wraps the recorder")
	minSecs := "<missing>"
	if hc != nil {
		if n := find(hc, func(n ast.Node) bool {
			as, ok := n.(*ast.AssignStmt)
			return ok && len(as.Lhs) == 1 && src(as.Lhs[0]) == "minRecordingLength"
		}); n != nil {
			minSecs = src(n.(*ast.AssignStmt).Rhs[0])
		}
	}
	o.def("throttleMinSecsExpr", "String", lstr(minSecs), "handleConn: minimum recording length handed to the throttle")
	constRec := "<missing>"
	if hc != nil {
		if n := find(hc, func(n ast.Node) bool {
			as, ok := n.(*ast.AssignStmt)
			return ok && len(as.Lhs) == 1 && src(as.Lhs[0]) == "constantRecorder" && strings.Contains(src(as.Rhs[0]), "New")
		}); n != nil {
			constRec = strings.SplitN(src(n.(*ast.AssignStmt).Rhs[0]), "(", 2)[0]
		}
	}
	o.def("constantRecorderCtor", "String", lstr(constRec), "handleConn: the continuous recorder is a plain file recorder (never throttled)")

	// ---- file recorder (C10)
	o.def("cptvTempExt", "String", lstr(strLit(constExpr(trMain, "cptvTempExt"))), "cmd/thermal-recorder/main.go: const cptvTempExt")
	glob := "<missing>"
	if fd := funcDecl(cfrGo, "deleteTempFiles"); fd != nil {
		if n := find(fd, func(n ast.Node) bool { _, ok := isCall(n, "filepath.Glob"); return ok }); n != nil {
			c := n.(*ast.CallExpr)
			if j, ok := c.Args[0].(*ast.CallExpr); ok && len(j.Args) == 2 {
				glob = src(j.Args[1])
			}
		}
	}
	o.def("cleanupGlobExpr", "String", lstr(glob), "deleteTempFiles: the glob pattern expression")
	// the continuous recorder's disk management (C17; model TR/Excess): the pattern, the test that ends the loop, which match goes
	exGlob, exTest, exVictim := "<missing>", "<missing>", "<missing>"
	if fd := funcDecl(cfrGo, "deleteExcessRecordings"); fd != nil {
		if n := find(fd, func(n ast.Node) bool { _, ok := isCall(n, "filepath.Glob"); return ok }); n != nil {
			c := n.(*ast.CallExpr)
			if j, ok := c.Args[0].(*ast.CallExpr); ok && len(j.Args) == 2 {
				exGlob = src(j.Args[1])
			}
		}
		if n := find(fd, func(n ast.Node) bool {
			i, ok := n.(*ast.IfStmt)
			return ok && strings.Contains(src(i.Cond), "percentageLeft")
		}); n != nil {
			exTest = src(n.(*ast.IfStmt).Cond)
		}
		if n := find(fd, func(n ast.Node) bool { _, ok := isCall(n, "os.Remove"); return ok }); n != nil {
			exVictim = src(n.(*ast.CallExpr).Args[0])
		}
	}
	o.def("excessGlobExpr", "String", lstr(exGlob), "deleteExcessRecordings: the glob pattern")
	o.def("excessStopTest", "String", lstr(exTest), "deleteExcessRecordings: the condition under which nothing (more) is deleted")
	o.def("excessVictimExpr", "String", lstr(exVictim), "deleteExcessRecordings: the file removed in one pass of the loop")
	layout := "<missing>"
	if fd := funcDecl(cfrGo, "newRecordingTempName"); fd != nil {
		if n := find(fd, func(n ast.Node) bool {
			c, ok := n.(*ast.CallExpr)
			return ok && strings.HasSuffix(src(c.Fun), ".Format")
		}); n != nil {
			layout = src(n.(*ast.CallExpr).Args[0])
		}
	}
	o.def("tempNameLayoutExpr", "String", lstr(layout), "newRecordingTempName: time layout expression")
	o.def("finalNameRegex", "String", lstr(func() string {
		if e := constExpr(cfrGo, "reTempName"); e != nil {
			if c, ok := e.(*ast.CallExpr); ok && len(c.Args) == 1 {
				return strLit(c.Args[0])
			}
		}
		return "<missing>"
	}()), "cptvfilerecorder.go: reTempName")
	// order of effects in StopRecording: Close before rename
	stopOrder := "<missing>"
	if fd := funcDecl(cfrGo, "StopRecording"); fd != nil {
		var seq []string
		ast.Inspect(fd, func(n ast.Node) bool {
			if c, ok := n.(*ast.CallExpr); ok {
				s := src(c.Fun)
				if strings.HasSuffix(s, ".Close") || s == "renameTempRecording" {
					seq = append(seq, s)
				}
			}
			return true
		})
		stopOrder = strings.Join(seq, ";")
	}
	o.def("stopRecordingOrder", "String", lstr(stopOrder), "CPTVFileRecorder.StopRecording: Close happens before the rename")
	deferStop := "<missing>"
	if hc != nil {
		if n := find(hc, func(n ast.Node) bool { _, ok := n.(*ast.DeferStmt); return ok }); n != nil {
			deferStop = src(n.(*ast.DeferStmt).Call)
		}
	}
	o.def("handleConnDefer", "String", lstr(deferStop), "handleConn: deferred clean-up of an unfinished recording")
	// runMain: the start-up steps and the accept loop, in source order (calls that matter, with their arguments)
	skeleton := runMainSkeleton(trMain)
	o.def("runMainSkeleton", "String", lstr(skeleton), "runMain: configuration, service, clean-up of the output directory, then the loop listen / accept / close the listener / handleConn")

	// ---- thermal-writer (C18)
	inflight := int64(missingNat)
	twHC := funcDecl(twMain, "handleConn")
	if twHC != nil {
		if n := find(twHC, func(n ast.Node) bool {
			vs, ok := n.(*ast.ValueSpec)
			return ok && len(vs.Names) == 1 && vs.Names[0].Name == "inFlight"
		}); n != nil {
			inflight = intLit(n.(*ast.ValueSpec).Values[0])
		}
	}
	o.def("writerRunMainSkeleton", "String", lstr(runMainSkeleton(twMain)), "thermal-writer runMain: configuration, then the loop listen / accept / close the listener / handleConn")
	o.def("inFlight", "Nat", fmt.Sprint(inflight), "thermal-writer handleConn: const inFlight")
	chans := []string{}
	if twHC != nil {
		for _, n := range findAll(twHC, func(n ast.Node) bool { _, ok := isCall(n, "make"); return ok }) {
			c := n.(*ast.CallExpr)
			if _, ok := c.Args[0].(*ast.ChanType); ok {
				chans = append(chans, src(c))
			}
		}
	}
	o.def("writerChannels", "String", lstr(strings.Join(chans, ";")), "thermal-writer handleConn: channel creation")
	// reader loop order: take spent buffer, ReadFull, (close on error), send to writer
	order := []string{}
	if twHC != nil {
		ast.Inspect(twHC, func(n ast.Node) bool {
			switch x := n.(type) {
			case *ast.UnaryExpr:
				if x.Op == token.ARROW {
					order = append(order, "recv "+src(x.X))
				}
			case *ast.SendStmt:
				order = append(order, "send "+src(x.Chan))
			case *ast.CallExpr:
				s := src(x.Fun)
				if s == "io.ReadFull" || s == "close" {
					order = append(order, s+" "+src(x.Args[len(x.Args)-1]))
				}
			}
			return true
		})
	}
	o.def("writerReaderOrder", "String", lstr(strings.Join(order, ";")), "thermal-writer handleConn: order of channel operations and reads")
	worder := []string{}
	if fd := funcDecl(twMain, "writer"); fd != nil {
		ast.Inspect(fd, func(n ast.Node) bool {
			switch x := n.(type) {
			case *ast.SendStmt:
				worder = append(worder, "send "+src(x.Chan))
			case *ast.CallExpr:
				s := src(x.Fun)
				if s == "writeFrame" || strings.HasSuffix(s, ".Close") {
					worder = append(worder, s)
				}
			case *ast.CommClause:
				if x.Comm != nil {
					worder = append(worder, "case "+src(x.Comm))
				}
			}
			return true
		})
	}
	o.def("writerWriterOrder", "String", lstr(strings.Join(worder, ";")), "thermal-writer writer: order of writes, buffer returns and closes")

	o.b.WriteString(locksetFacts(repo))
	o.b.WriteString("end Facts\n")
	fmt.Print(o.b.String())
}
