#!/bin/sh
# Build the framework offline from files on disk: Lean model, proofs, native driver; Go harness warm-up.
set -e
cd "$(dirname "$0")"
mkdir -p build evidence
(cd lean && lake build 2>&1 | tail -5)
export GOFLAGS=-mod=mod GOPROXY=off GOSUMDB=off GOTOOLCHAIN=local
cp /repo/go.sum harness/go.sum
(cd harness && go build -o ../build/ ./cmd/... )
echo setup done
