#!/bin/sh
# Build the framework offline from files on disk: Lean model, proofs, native driver; Go harness warm-up.
set -e
cd "$(dirname "$0")"
mkdir -p build evidence
(cd lean && lake build 2>&1 | tail -3)
python3 - <<'PY'
import sys
sys.path.insert(0, 'tools')
import checklib
from registry import STREAMS
bad = 0
for name in STREAMS:
    log = []
    out, err = checklib.build_stream(name, log)
    print('stream', name, 'ok' if out else 'FAILED')
    if not out:
        print(err)
        bad += 1
sys.exit(1 if bad else 0)
PY
echo setup done
