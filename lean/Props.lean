import Props.C19
