/-!
# TR.Handoff — the reader/writer buffer hand-off of thermal-writer as a transition system

`handleConn` (reader goroutine) and `writer` (writer goroutine) exchange a fixed pool of
buffers through two buffered channels of capacity `cap` (= `inFlight`, the pool size):

reader:  frame := <-spentFrames ; io.ReadFull(conn, frame) ; writeFrames <- frame      (loop)
         on read error: close(writeFrames) and return
writer:  frame, ok := <-writeFrames ; if !ok { builder.Close(); return }
         writeFrame(builder, frame) ; spentFrames <- frame                             (loop)

A state records where every buffer is and what it contains; `Step` is one atomic action of one
goroutine (Go channel semantics: a send blocks while the channel is full, a receive blocks
while it is empty and open).  Every interleaving is a path of `Step`.
-/
namespace TR.Handoff

structure Buf where
  id : Nat
  content : List Nat        -- current bytes of the buffer
  deriving DecidableEq, Repr

inductive RPhase
  | idle                    -- about to take a spent buffer
  | holding (b : Buf)       -- has a buffer, about to ReadFull into it
  | filled (b : Buf)        -- buffer holds a frame, about to send it
  | done                    -- read error seen, queue closed, returned
  deriving DecidableEq, Repr

inductive WPhase
  | idle                    -- about to receive from the queue
  | holding (b : Buf)       -- has a frame, about to write it to the file
  | written (b : Buf)       -- frame written, about to return the buffer
  | done                    -- queue closed and drained, file closed
  deriving DecidableEq, Repr

structure St where
  cap : Nat
  spent : List Buf          -- spentFrames channel, head = next to receive
  queue : List Buf          -- writeFrames channel
  closed : Bool             -- writeFrames closed
  reader : RPhase
  writer : WPhase
  input : List (List Nat)   -- complete frames still to arrive on the socket
  out : List (List Nat)     -- frames written to the file so far
  fileClosed : Bool
  deriving Repr

/-- pool of `cap` zeroed buffers, nothing read or written yet -/
def init (cap : Nat) (input : List (List Nat)) : St :=
  { cap := cap, spent := (List.range cap).map fun i => ⟨i, []⟩, queue := [], closed := false,
    reader := .idle, writer := .idle, input := input, out := [], fileClosed := false }

inductive Step : St → St → Prop
  /-- reader: `frame := <-spentFrames` -/
  | rTake (s : St) (b : Buf) (rest : List Buf) : s.reader = .idle → s.spent = b :: rest →
      Step s { s with spent := rest, reader := .holding b }
  /-- reader: `io.ReadFull` delivers the next complete frame into the held buffer -/
  | rFill (s : St) (b : Buf) (f : List Nat) (more : List (List Nat)) : s.reader = .holding b → s.input = f :: more →
      Step s { s with input := more, reader := .filled { b with content := f } }
  /-- reader: the connection ended (possibly inside a frame, which may scribble over the held buffer) -/
  | rEOF (s : St) (b : Buf) : s.reader = .holding b → s.input = [] →
      Step s { s with closed := true, reader := .done }
  /-- reader: `writeFrames <- frame` (blocks while the channel is full) -/
  | rSend (s : St) (b : Buf) : s.reader = .filled b → s.queue.length < s.cap →
      Step s { s with queue := s.queue ++ [b], reader := .idle }
  /-- writer: `frame, ok := <-writeFrames` with a frame available -/
  | wRecv (s : St) (b : Buf) (rest : List Buf) : s.writer = .idle → s.queue = b :: rest →
      Step s { s with queue := rest, writer := .holding b }
  /-- writer: queue closed and drained: close the file and return -/
  | wClose (s : St) : s.writer = .idle → s.queue = [] → s.closed = true →
      Step s { s with writer := .done, fileClosed := true }
  /-- writer: `writeFrame(builder, frame)` -/
  | wWrite (s : St) (b : Buf) : s.writer = .holding b →
      Step s { s with out := s.out ++ [b.content], writer := .written b }
  /-- writer: `spentFrames <- frame` (blocks while the channel is full) -/
  | wReturn (s : St) (b : Buf) : s.writer = .written b → s.spent.length < s.cap →
      Step s { s with spent := s.spent ++ [b], writer := .idle }

inductive Reach (s0 : St) : St → Prop
  | refl : Reach s0 s0
  | step {s t : St} : Reach s0 s → Step s t → Reach s0 t

end TR.Handoff
