/-!
# TR.Window — model of `window.Window.Active()` for absolute start/stop times

`nextAbsTime(now, t)`: today's `hh:mm:00` if that is after `now`, else tomorrow's.  Times of
day are nanoseconds since local midnight (fixed-offset zones: a day has 86400 s).
`window.New` returns `NoWindow` (always active) when start = stop.
-/
namespace TR.Window

def DAY : Nat := 86400 * 1000000000

/-- offset of `nextAbsTime(now, abs)` from today's midnight -/
def nextAbs (tod abs : Nat) : Nat := if abs > tod then abs else abs + DAY

/-- `Active()` with start `S`, stop `E` (ns since midnight), current time of day `tod` -/
def active (S E tod : Nat) : Bool := if S = E then true else decide (nextAbs tod E < nextAbs tod S)

/-- the disk gate: `Bavail*Bsize/1024/1024 >= mb` -/
def enoughSpace (bavail bsize mb : Nat) : Bool := decide (bavail * bsize / 1024 / 1024 ≥ mb)

end TR.Window
