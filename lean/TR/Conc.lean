/-!
# TR.Conc — snapshots concurrent with frame processing (C16)

## The ring under its mutex

The frame thread fills the current slot word by word WITHOUT holding the lock (the parser
writes into `frameLoop.Current()`), then takes `FrameLoop.mu`, advances (`Move`) and releases.
A requester (`GetRecentFrame` → `CopyRecent`) takes the lock, copies the slot before the
current one word by word, releases.  `Step` is one atomic action; every interleaving is a
path.  Frame `k` has content `content k i` in word `i`.

## Locksets

`racyVars` decides, for a table of accesses (thread, variable, R/W, locks held) such as the one
regenerated from the source in `Generated.Facts`, which variables have two conflicting
accesses on different threads (or on two service threads) with no lock in common.
-/
namespace TR.Conc

inductive RPhase
  | idle
  | reading (slot pos : Nat)     -- holds the lock, has copied `pos` words of `slot`
  | done
  deriving DecidableEq, Repr

structure St where
  size : Nat
  words : Nat                    -- words per frame
  slots : Nat → Nat → Nat        -- slot → word → value
  cur : Nat := 0
  n : Nat := 0                   -- frames completed (= number of Moves)
  fpos : Nat := 0                -- frame thread: words of frame `n` already written into slot `cur`
  lockedByReq : Bool := false    -- the requester holds FrameLoop.mu (the frame thread holds it only inside the atomic Move)
  r : RPhase := .idle
  copy : Nat → Nat := fun _ => 0
  nAtLock : Nat := 0

def init (size words : Nat) : St := { size := size, words := words, slots := fun _ _ => 0 }

inductive Step (content : Nat → Nat → Nat) : St → St → Prop
  /-- frame thread: write the next word of frame `n` into the current slot (no lock) -/
  | fWrite (s : St) : s.fpos < s.words →
      Step content s { s with slots := fun sl w => if sl = s.cur ∧ w = s.fpos then content s.n s.fpos else s.slots sl w,
                              fpos := s.fpos + 1 }
  /-- frame thread: frame complete; lock, Move, unlock (blocked while the requester holds the lock) -/
  | fMove (s : St) : s.fpos = s.words → s.lockedByReq = false →
      Step content s { s with cur := (s.cur + 1) % s.size, n := s.n + 1, fpos := 0 }
  /-- requester: take the lock and pick the slot before the current one -/
  | rLock (s : St) : s.r = .idle → s.lockedByReq = false →
      Step content s { s with lockedByReq := true, r := .reading ((s.cur + s.size - 1) % s.size) 0, nAtLock := s.n }
  /-- requester: copy one word -/
  | rRead (s : St) (slot pos : Nat) : s.r = .reading slot pos → pos < s.words →
      Step content s { s with copy := fun w => if w = pos then s.slots slot pos else s.copy w, r := .reading slot (pos + 1) }
  /-- requester: done copying, release the lock -/
  | rUnlock (s : St) (slot : Nat) : s.r = .reading slot s.words →
      Step content s { s with lockedByReq := false, r := .done }

inductive Reach (content : Nat → Nat → Nat) (s0 : St) : St → Prop
  | refl : Reach content s0 s0
  | step {s t : St} : Reach content s0 s → Step content s t → Reach content s0 t

/-! ## Locksets -/

abbrev Access := String × String × String × String     -- thread, variable, mode (R/W), locks joined by '+'

def locksOf (a : Access) : List String := if a.2.2.2 == "" then [] else a.2.2.2.splitOn "+"

/-- two accesses can run concurrently: different threads, or two service requests -/
def concurrent (a b : Access) : Bool := a.1 != b.1 || (a.1 == "service" && b.1 == "service")

def conflict (a b : Access) : Bool :=
  a.2.1 == b.2.1 && (a.2.2.1 == "W" || b.2.2.1 == "W") && concurrent a b &&
  !((locksOf a).any fun l => (locksOf b).contains l)

/-- variables with an unprotected conflicting pair -/
def racyVars (t : List Access) : List String :=
  (t.filterMap fun a => if t.any (conflict a) then some a.2.1 else none).eraseDups

end TR.Conc
