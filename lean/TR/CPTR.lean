/-!
# TR.CPTR — the thermal-writer file format (`cmd/thermal-writer/thermalraw.go` over go-cptv's FieldWriter)

```
"CPTR" 0x02 'H' <numFields> field*          -- header section
('F' <numFields=1> field('f', u32 len) <len bytes>)*   -- one section per frame
field = <size:1> <code:1> <size bytes>
```
Integers are little-endian.  A string field longer than 255 bytes is silently dropped by
`newThermalRaw` (the error of `fields.String` is ignored) — the model encodes the same.
-/
namespace TR.CPTR

def le (n : Nat) (v : Nat) : List Nat := (List.range n).map fun i => (v / 256 ^ i) % 256

def fromLe (bs : List Nat) : Nat := bs.foldr (fun b acc => b + 256 * acc) 0

structure Field where
  code : Nat
  data : List Nat
  deriving DecidableEq, Repr

def encodeField (f : Field) : List Nat := f.data.length :: f.code :: f.data

def encodeFields (fs : List Field) : List Nat := fs.flatMap encodeField

/-- header fields in the order `newThermalRaw` writes them -/
structure Header where
  timestampUs : Nat        -- 'T' u64
  model : List Nat         -- 'E'
  brand : List Nat         -- 'B'
  fps : Nat                -- 'Z' u8
  resX : Nat               -- 'X' u32
  resY : Nat               -- 'Y' u32
  deviceName : List Nat    -- 'D'
  deviceID : Nat           -- 'I' u32
  deriving DecidableEq, Repr

def strField (code : Nat) (s : List Nat) : List Field := if s.length > 255 then [] else [⟨code, s⟩]

def headerFields (h : Header) : List Field :=
  [⟨84, le 8 h.timestampUs⟩] ++ strField 69 h.model ++ strField 66 h.brand ++
  [⟨90, le 1 h.fps⟩, ⟨88, le 4 h.resX⟩, ⟨89, le 4 h.resY⟩, ⟨67, [0]⟩] ++ strField 68 h.deviceName ++
  [⟨73, le 4 h.deviceID⟩]

def magic : List Nat := [67, 80, 84, 82]      -- "CPTR"

def encodeHeader (h : Header) : List Nat :=
  let fs := headerFields h
  magic ++ [2, 72, fs.length] ++ encodeFields fs

def encodeFrame (frame : List Nat) : List Nat :=
  [70, 1] ++ encodeField ⟨102, le 4 frame.length⟩ ++ frame

def encodeFile (h : Header) (frames : List (List Nat)) : List Nat :=
  encodeHeader h ++ frames.flatMap encodeFrame

/-! ## decoder -/

def decodeFields : Nat → List Nat → Option (List Field × List Nat)
  | 0, bs => some ([], bs)
  | n + 1, size :: code :: rest =>
    if rest.length < size then none
    else match decodeFields n (rest.drop size) with
      | some (fs, r) => some (⟨code, rest.take size⟩ :: fs, r)
      | none => none
  | _ + 1, _ => none

def decodeFrames : Nat → List Nat → Option (List (List Nat))
  | _, [] => some []
  | 0, _ :: _ => none
  | fuel + 1, 70 :: n :: rest =>
    match decodeFields n rest with
    | some ([⟨102, lenb⟩], r) =>
      let len := fromLe lenb
      if lenb.length ≠ 4 ∨ r.length < len then none
      else (decodeFrames fuel (r.drop len)).map (r.take len :: ·)
    | _ => none
  | _ + 1, _ => none

/-- raw decode: header field list and the frames -/
def decodeFile (bs : List Nat) : Option (List Field × List (List Nat)) :=
  match bs with
  | 67 :: 80 :: 84 :: 82 :: 2 :: 72 :: n :: rest =>
    match decodeFields n rest with
    | some (fs, r) => (decodeFrames (r.length + 1) r).map (fs, ·)
    | none => none
  | _ => none

end TR.CPTR
