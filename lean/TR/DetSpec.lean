import TR.Detector
/-!
# TR.DetSpec — detector event streams and the declarative specification of motion (C07)
-/
namespace TR

/-- what the detector is fed -/
inductive DEv
  | frame (f : Frame) (ffc : Bool)     -- `Detect(frame)`; `ffc` = isAffectedByFFC(frame)
  | reset                              -- `Reset`

def DEv.ffc : DEv → Bool
  | .frame _ b => b
  | .reset => false

namespace Det
variable {F : FloatOps}

def stepEv (c : DCfg) (d : Det F) : DEv → Det F × Option Bool
  | .frame f ffc => let r := detect c d f ffc; (r.1, some r.2)
  | .reset => (d.reset, none)

/-- motion verdicts, one per frame event -/
def outputs (c : DCfg) : Det F → List DEv → List Bool
  | _, [] => []
  | d, e :: es =>
    match stepEv c d e with
    | (d', some m) => m :: outputs c d' es
    | (d', none) => outputs c d' es

def after (c : DCfg) : Det F → List DEv → Det F
  | d, [] => d
  | d, e :: es => after c (stepEv c d e).1 es

end Det

/-! ## Declarative specification (fixed threshold, FFC-free)

`h k` = the k-th frame since start-up / the last reset (the *epoch*).  Frame `n` of the epoch
is compared with frame `n − gap` (truncated subtraction: the first frame of the epoch when
fewer exist). -/

def specDiff (c : DCfg) (h : Nat → Frame) (n y x : Nat) : Nat :=
  pixDiff c.warmerOnly c.tempThresh (h n y x) (h (n - c.gap) y x)

def specCount (c : DCfg) (h : Nat → Frame) (n : Nat) : Nat :=
  (c.interior.filter fun p =>
    decide (specDiff c h n p.1 p.2 > c.deltaThresh) &&
      (c.useOneDiff || decide (specDiff c h (n - 1) p.1 p.2 > c.deltaThresh))).length

/-- motion is reported for frame `n` of an epoch -/
def specMotion (c : DCfg) (h : Nat → Frame) (n : Nat) : Bool :=
  decide (n ≥ 1) && decide (specCount c h n ≥ c.countThresh)

/-- specification outputs over an event list: `h`/`n` = frames of the current epoch so far -/
def specOutputs (c : DCfg) : (Nat → Frame) → Nat → List DEv → List Bool
  | _, _, [] => []
  | h, n, .frame f _ :: es =>
    let h' : Nat → Frame := fun k => if k = n then f else h k
    specMotion c h' n :: specOutputs c h' (n + 1) es
  | _, _, .reset :: es => specOutputs c (fun _ => Det.zeroFrame) 0 es

end TR
