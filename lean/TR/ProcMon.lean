import TR.Processor
/-!
# TR.ProcMon — executable monitors for the processor properties (C01–C04, C12, C13, C17)

Each monitor is a fold over an *observed* trace: the list of events together with the
observations each event produced.  The same functions are evaluated by the native driver on
traces recorded from the real `MotionProcessor` and are the subject of the theorems in
`Props/` ("the model's trace is accepted for every input").
A monitor returns the list of reason codes of the violations it saw (empty = accepted).
-/
namespace TR

structure Step where
  ev  : Ev
  obs : List Obs

def Obs.isWrite : Obs → Sink → Option (Nat × Bool)
  | .call s (.write id) ok, s' => if s = s' then some (id, ok) else none
  | _, _ => none

def Ev.isFrame : Ev → Bool
  | .frame _ _ => true
  | _ => false

def Ev.motion : Ev → Bool
  | .frame m _ => m
  | _ => false

def Ev.faults : Ev → Faults
  | .frame _ f => f
  | .bad f => f
  | .reset f => f
  | .testReq => {}

/-- does the case dictate any failing write on the motion sink? (outside C01–C03's quantifier) -/
def Step.motionWriteFault (s : Step) : Bool :=
  s.obs.any fun o => match o with
    | .call .motion (.write _) false => true
    | _ => false

/-! ## C01 / C02 — gap-free, duplicate-free, in-order recordings; pre-trigger start -/

structure M12 where
  openRec : Bool := false
  cur : Nat := 0                 -- id of the frame being processed
  n : Nat := 0                   -- accepted frames so far
  last : Option Nat := none      -- last id written in the open recording
  nextFree : Nat := 0            -- 1 + largest id written to any motion recording so far
  tainted : Bool := false        -- a motion-sink write was made to fail: C01–C03 do not apply from here on
  fails : List String := []

def M12.obs (K : Nat) (m : M12) : Obs → M12
  | .call .motion .start true => { m with openRec := true, last := none }
  | .call .motion (.write id) _ =>
    let f : List String :=
      match m.last with
      | some l => if id = l + 1 then [] else ["C01:not-contiguous"]
      | none =>
        (if id < m.nextFree then ["C01:overlaps-previous-recording"] else []) ++
        (if id = max (m.cur + 1 - K) m.nextFree then []
         else if m.cur + 1 - K ≤ m.nextFree ∧ m.nextFree ≤ id then ["C01:does-not-tile", "C02:wrong-first-frame"]
         else ["C02:wrong-first-frame"])
    { m with last := some id, nextFree := max m.nextFree (id + 1),
             fails := m.fails ++ (if m.tainted then [] else f) }
  | .call .motion .stop _ => { m with openRec := false }
  | _ => m

def M12.step (K : Nat) (m : M12) (s : Step) : M12 :=
  let m := if s.motionWriteFault then { m with tainted := true } else m
  let m := { m with cur := m.n }
  let m := s.obs.foldl (M12.obs K) m
  if s.ev.isFrame then { m with n := m.n + 1 } else m

def monC01C02 (K : Nat) (tr : List Step) : List String := (tr.foldl (M12.step K) {}).fails

/-! ## C03 — recording length -/

structure M3 where
  openRec : Bool := false
  p : Nat := 0            -- post-trigger frames written so far (trigger frame = 1)
  l : Nat := 0            -- index of the last motion frame within the recording
  tainted : Bool := false
  fails : List String := []

def hasStop (obs : List Obs) : Bool :=
  obs.any fun o => match o with | .call .motion .stop _ => true | _ => false
def hasStartOk (obs : List Obs) : Bool :=
  obs.any fun o => match o with | .call .motion .start true => true | _ => false

def M3.step (minF maxF : Nat) (m : M3) (s : Step) : M3 :=
  let m := if s.motionWriteFault then { m with tainted := true } else m
  match s.ev with
  | .frame motion _ =>
    let started := hasStartOk s.obs
    let m := if started then { m with openRec := true, p := 0, l := 0 } else m
    if m.openRec then
      let p := m.p + 1
      let l := if motion then p else m.l
      let shouldStop := decide (p ≥ min maxF (l - 1 + minF))
      let stopped := hasStop s.obs
      let f := if m.tainted then [] else
        if shouldStop && !stopped then ["C03:ran-past-limit"]
        else if !shouldStop && stopped then ["C03:stopped-early"] else []
      { m with p := p, l := l, openRec := !stopped, fails := m.fails ++ f }
    else m
  | .bad _ => { m with openRec := false }
  | .reset _ => { m with openRec := false }
  | .testReq => m

def monC03 (minF maxF : Nat) (tr : List Step) : List String := (tr.foldl (M3.step minF maxF) {}).fails

/-! ## C04 — a recording starts iff motion persisted, window open, storage OK -/

structure M4 where
  openRec : Bool := false
  run : Nat := 0       -- consecutive motion frames since the last motionless frame / recording end
  fails : List String := []

def hasCan (obs : List Obs) : Bool :=
  obs.any fun o => match o with | .call .motion .can _ => true | _ => false
def hasStartAny (obs : List Obs) : Bool :=
  obs.any fun o => match o with | .call .motion .start _ => true | _ => false

def M4.step (trig : Nat) (m : M4) (s : Step) : M4 :=
  match s.ev with
  | .frame motion f =>
    let run := if motion then m.run + 1 else 0
    let attempt := !m.openRec && motion && decide (run ≥ trig)
    let expectStart := attempt && f.win && f.can && f.mStart
    let started := hasStartOk s.obs
    let fl : List String :=
      (if started && !expectStart then
         (if !motion then ["C04:start-without-motion"]
          else if m.openRec then ["C04:start-while-recording"]
          else if !f.win then ["C04:start-outside-window"]
          else if !f.can then ["C04:start-despite-disk-check"]
          else if !decide (run ≥ trig) then ["C04:start-before-trigger-frames"]
          else ["C04:unexpected-start"]) else []) ++
      (if !started && expectStart then ["C04:start-missing"] else []) ++
      (if hasCan s.obs && !(attempt && f.win) then ["C04:disk-check-consulted-unexpectedly"] else []) ++
      (if hasStartAny s.obs && !(attempt && f.win && f.can) then ["C04:start-attempted-unexpectedly"] else [])
    let openNow := (m.openRec || started) && !hasStop s.obs
    let ended := (m.openRec || started) && hasStop s.obs
    { openRec := openNow, run := if ended then 0 else run, fails := m.fails ++ fl }
  | .bad _ => { m with openRec := false, run := if m.openRec then 0 else m.run }
  | .reset _ => { m with openRec := false, run := if m.openRec then 0 else m.run }
  | .testReq => m

def monC04 (trig : Nat) (tr : List Step) : List String := (tr.foldl (M4.step trig) {}).fails

/-! ## C12 — every sink sees a well-formed call sequence; nothing panics -/

structure M12s where
  mo : Bool := false
  co : Bool := false
  te : Bool := false
  fails : List String := []

def sinkName : Sink → String
  | .motion => "motion" | .const => "const" | .test => "test"

def M12s.get (m : M12s) : Sink → Bool
  | .motion => m.mo | .const => m.co | .test => m.te
def M12s.set (m : M12s) (s : Sink) (b : Bool) : M12s :=
  match s with
  | .motion => { m with mo := b } | .const => { m with co := b } | .test => { m with te := b }

def M12s.obs (m : M12s) : Obs → M12s
  | .panic => { m with fails := m.fails ++ ["C12:panic"] }
  | .call s .start ok =>
    let m := if m.get s then { m with fails := m.fails ++ ["C12:start-while-open-" ++ sinkName s] } else m
    if ok then m.set s true else m
  | .call s (.write _) _ =>
    if m.get s then m else { m with fails := m.fails ++ ["C12:write-outside-recording-" ++ sinkName s] }
  | .call s .stop _ => m.set s false
  | _ => m

def monC12 (tr : List Step) : List String :=
  (tr.foldl (fun m s => s.obs.foldl M12s.obs m) ({} : M12s)).fails

/-! ## C13 — bad frames are never recorded or buffered and end the recording cleanly -/

structure M13 where
  openRec : Bool := false
  fails : List String := []

def anyWrite (obs : List Obs) : Bool :=
  obs.any fun o => match o with | .call _ (.write _) _ => true | _ => false
def writesGarbage (obs : List Obs) : Bool :=
  obs.any fun o => match o with | .call _ (.write id) _ => id == garbage | _ => false

def M13.step (m : M13) (s : Step) : M13 :=
  let g := if writesGarbage s.obs then ["C13:rejected-frame-content-written"] else []
  let openAfter := (m.openRec || hasStartOk s.obs) && !hasStop s.obs
  match s.ev with
  | .bad _ =>
    let f := (if anyWrite s.obs then ["C13:write-during-bad-frame"] else []) ++
             (if m.openRec && !hasStop s.obs then ["C13:recording-not-ended"] else []) ++
             (if hasStartAny s.obs then ["C13:start-during-bad-frame"] else [])
    { openRec := false, fails := m.fails ++ g ++ f }
  | _ => { openRec := openAfter, fails := m.fails ++ g }

def monC13 (tr : List Step) : List String := (tr.foldl M13.step {}).fails

/-! ## C17 — continuous recorder tiles the stream; a test recording is `testLast+1` frames -/

structure M17 where
  n : Nat := 0              -- accepted frames so far
  cPos : Nat := 0           -- frames in the current continuous file
  tOpen : Bool := false
  tCount : Nat := 0
  pending : Bool := false
  tainted : Bool := false   -- a fault on the continuous / test sink or an overlapping request: outside C17's quantifier
  fails : List String := []

def obsOf (s : Sink) (obs : List Obs) : List Obs :=
  obs.filter fun o => match o with | .call s' _ _ => s' == s | _ => false

def sinkFault (obs : List Obs) : Bool :=
  obs.any fun o => match o with
    | .call .const _ false => true
    | .call .test _ false => true
    | _ => false

def M17.step (c : PCfg) (m : M17) (s : Step) : M17 :=
  let m := if sinkFault s.obs then { m with tainted := true } else m
  match s.ev with
  | .frame _ _ =>
    let id := m.n
    -- continuous sink
    let expC : List Obs :=
      if !c.constOn then [] else
        (if m.cPos = 0 then [Obs.call .const .start true] else []) ++
        [Obs.call .const (.write id) true] ++
        (if m.cPos + 1 > c.maxF then [Obs.call .const .stop true] else [])
    let cPos := if !c.constOn then 0 else if m.cPos + 1 > c.maxF then 0 else m.cPos + 1
    let fc := if obsOf .const s.obs = expC then [] else ["C17:continuous-file-layout"]
    -- test sink
    let starting := m.pending && !m.tOpen
    let tOpen := m.tOpen || starting
    let tCount := if tOpen then m.tCount + 1 else m.tCount
    let closing := tOpen && decide (tCount > c.testLast)
    let expT : List Obs :=
      (if starting then [Obs.call .test .start true] else []) ++
      (if tOpen then [Obs.call .test (.write id) true] else []) ++
      (if closing then [Obs.call .test .stop true] else [])
    let ft := if obsOf .test s.obs = expT then [] else ["C17:test-recording-layout"]
    { m with n := m.n + 1, cPos := cPos, tOpen := tOpen && !closing, tCount := if closing then 0 else tCount,
             pending := false, fails := m.fails ++ (if m.tainted then [] else fc ++ ft) }
  | .bad _ =>
    let expC : List Obs := if c.constOn then [Obs.call .const .stop true] else []
    let fc := if obsOf .const s.obs = expC then [] else ["C17:continuous-file-layout"]
    { m with cPos := 0, fails := m.fails ++ (if m.tainted then [] else fc) }
  | .reset _ => m
  | .testReq =>
    if m.tOpen || m.pending then { m with tainted := true, pending := true } else { m with pending := true }

def monC17 (c : PCfg) (tr : List Step) : List String := (tr.foldl (M17.step c) {}).fails

end TR

namespace TR
/-- the observed trace of the model: every event paired with the observations it produced -/
def PState.trace (c : PCfg) : PState → List Ev → List Step
  | _, [] => []
  | s, e :: es => let r := PState.step c s e; { ev := e, obs := r.2 } :: PState.trace c r.1 es

/-- the state reached after a list of events -/
def PState.after (c : PCfg) : PState → List Ev → PState
  | s, [] => s
  | s, e :: es => PState.after c (PState.step c s e).1 es
end TR
