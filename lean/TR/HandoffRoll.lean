import TR.Handoff

/-!
# TR.HandoffRoll — the thermal-writer hand-off with the one-minute file roll-over

`TR.Handoff` models `handleConn` / `writer` of cmd/thermal-writer/main.go with ONE output file.
The real writer goroutine also starts a new file whenever the `changeFile` timer fires:

writer:  builder := newThermalRaw(...)                       -- file 0
         select {
         case <-changeFile:  builder.Close(); builder = newThermalRaw(...)          (`wRoll`)
         case frame, ok := <-inFrames:
              if !ok { builder.Close(); return }                                    (`wClose`)
              writeFrame(builder, frame) ; outFrames <- frame                       (`wWrite`, `wReturn`)
         }

Here the output is a list of files: `done` (the files already rolled over, oldest first) followed by
`cur` (the file `builder` points to).  The timer is nondeterministic: `wRoll` is enabled whenever the
writer is at the `select` (phase `.idle`), any number of times, also twice in a row (an empty file).
The reader side and the channel semantics are exactly those of `TR.Handoff`; `erase` forgets the
file boundaries and gives a `TR.Handoff.St`.
-/
namespace TR.HandoffRoll
open TR.Handoff (Buf RPhase WPhase)

/-- one output file: the frames written into it so far, and whether it has been flushed and closed -/
structure FileRec where
  frames : List (List Nat)
  closed : Bool
  deriving DecidableEq, Repr

structure St where
  cap : Nat
  spent : List Buf          -- spentFrames channel, head = next to receive
  queue : List Buf          -- writeFrames channel
  closed : Bool             -- writeFrames closed
  reader : RPhase
  writer : WPhase
  input : List (List Nat)   -- complete frames still to arrive on the socket
  done : List FileRec       -- files already rolled over, oldest first
  cur : FileRec             -- the file `builder` refers to
  deriving Repr

/-- all output files in creation order; the LAST one is the current file -/
def files (s : St) : List FileRec := s.done ++ [s.cur]

/-- every frame stored so far, file boundaries erased -/
def allOut (s : St) : List (List Nat) := (files s).flatMap (·.frames)

/-- pool of `cap` zeroed buffers, file 0 open and empty -/
def init (cap : Nat) (input : List (List Nat)) : St :=
  { cap := cap, spent := (List.range cap).map fun i => ⟨i, []⟩, queue := [], closed := false,
    reader := .idle, writer := .idle, input := input, done := [], cur := ⟨[], false⟩ }

inductive Step : St → St → Prop
  /-- reader: `frame := <-spentFrames` -/
  | rTake (s : St) (b : Buf) (rest : List Buf) : s.reader = .idle → s.spent = b :: rest →
      Step s { s with spent := rest, reader := .holding b }
  /-- reader: `io.ReadFull` delivers the next complete frame into the held buffer -/
  | rFill (s : St) (b : Buf) (f : List Nat) (more : List (List Nat)) : s.reader = .holding b →
      s.input = f :: more → Step s { s with input := more, reader := .filled { b with content := f } }
  /-- reader: the connection ended -/
  | rEOF (s : St) (b : Buf) : s.reader = .holding b → s.input = [] →
      Step s { s with closed := true, reader := .done }
  /-- reader: `writeFrames <- frame` (blocks while the channel is full) -/
  | rSend (s : St) (b : Buf) : s.reader = .filled b → s.queue.length < s.cap →
      Step s { s with queue := s.queue ++ [b], reader := .idle }
  /-- writer: `frame, ok := <-inFrames` with a frame available -/
  | wRecv (s : St) (b : Buf) (rest : List Buf) : s.writer = .idle → s.queue = b :: rest →
      Step s { s with queue := rest, writer := .holding b }
  /-- writer: `<-changeFile`: close the current file and open a fresh empty one -/
  | wRoll (s : St) : s.writer = .idle →
      Step s { s with done := s.done ++ [{ s.cur with closed := true }], cur := ⟨[], false⟩ }
  /-- writer: queue closed and drained: close the CURRENT file and return -/
  | wClose (s : St) : s.writer = .idle → s.queue = [] → s.closed = true →
      Step s { s with writer := .done, cur := { s.cur with closed := true } }
  /-- writer: `writeFrame(builder, frame)` into the CURRENT file -/
  | wWrite (s : St) (b : Buf) : s.writer = .holding b →
      Step s { s with cur := { s.cur with frames := s.cur.frames ++ [b.content] },
                      writer := .written b }
  /-- writer: `outFrames <- frame` (blocks while the channel is full) -/
  | wReturn (s : St) (b : Buf) : s.writer = .written b → s.spent.length < s.cap →
      Step s { s with spent := s.spent ++ [b], writer := .idle }

inductive Reach (s0 : St) : St → Prop
  | refl : Reach s0 s0
  | step {s t : St} : Reach s0 s → Step s t → Reach s0 t

/-- forget the file boundaries: the one-file state with `out = allOut` and `fileClosed` = "the current
file is closed" -/
def erase (s : St) : TR.Handoff.St :=
  { cap := s.cap, spent := s.spent, queue := s.queue, closed := s.closed, reader := s.reader,
    writer := s.writer, input := s.input, out := allOut s, fileClosed := s.cur.closed }

/-! ## a faulty variant: `defer builder.Close()` bound at the first file

`closeFirst` closes file 0 (which is the current file only if no roll-over happened). -/

def closeFirst (s : St) : St :=
  match s.done with
  | [] => { s with cur := { s.cur with closed := true } }
  | f :: rest => { s with done := { f with closed := true } :: rest }

/-- `Step` with the final close applied to the FIRST file instead of the current one -/
inductive StepBad : St → St → Prop
  | rTake (s : St) (b : Buf) (rest : List Buf) : s.reader = .idle → s.spent = b :: rest →
      StepBad s { s with spent := rest, reader := .holding b }
  | rFill (s : St) (b : Buf) (f : List Nat) (more : List (List Nat)) : s.reader = .holding b →
      s.input = f :: more →
      StepBad s { s with input := more, reader := .filled { b with content := f } }
  | rEOF (s : St) (b : Buf) : s.reader = .holding b → s.input = [] →
      StepBad s { s with closed := true, reader := .done }
  | rSend (s : St) (b : Buf) : s.reader = .filled b → s.queue.length < s.cap →
      StepBad s { s with queue := s.queue ++ [b], reader := .idle }
  | wRecv (s : St) (b : Buf) (rest : List Buf) : s.writer = .idle → s.queue = b :: rest →
      StepBad s { s with queue := rest, writer := .holding b }
  | wRoll (s : St) : s.writer = .idle →
      StepBad s { s with done := s.done ++ [{ s.cur with closed := true }], cur := ⟨[], false⟩ }
  /-- the deferred `Close` of the builder created first -/
  | wCloseFirst (s : St) : s.writer = .idle → s.queue = [] → s.closed = true →
      StepBad s (closeFirst { s with writer := .done })
  | wWrite (s : St) (b : Buf) : s.writer = .holding b →
      StepBad s { s with cur := { s.cur with frames := s.cur.frames ++ [b.content] },
                         writer := .written b }
  | wReturn (s : St) (b : Buf) : s.writer = .written b → s.spent.length < s.cap →
      StepBad s { s with spent := s.spent ++ [b], writer := .idle }

inductive ReachBad (s0 : St) : St → Prop
  | refl : ReachBad s0 s0
  | step {s t : St} : ReachBad s0 s → StepBad s t → ReachBad s0 t

end TR.HandoffRoll
