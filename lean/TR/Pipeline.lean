import TR.Socket
import TR.Parse
import TR.Detector
import TR.Processor
import TR.ThrMon
/-!
# TR.Pipeline — composition: socket items → parser → detector → processor → (throttle) → files

The composed model of `handleConn` in cmd/thermal-recorder: what ends up in which recording
file for a given configuration and socket byte stream.  Files are abstract: a header record
(threshold, background snapshot) and the list of accepted-frame ids written to them.
The sinks never fail here (file creation and writes succeed); refusals come from the window
and the disk gate, cuts from the throttle.
-/
namespace TR

inductive FileKind | motion | test | const
  deriving DecidableEq, Repr

structure RecFile where
  kind : FileKind
  thresh : Nat                 -- `tempThreshold` handed to StartRecording (0 for test / continuous)
  bg : Frame                   -- background frame content at the time of the start
  bgSeeded : Bool
  frames : List Nat := []      -- accepted-frame ids, in write order
  closed : Bool := false       -- StopRecording reached the file (it bears the final name)

structure Accepted where
  pix : Frame
  tel : Parse.Telemetry

structure PipeCfg where
  det : DCfg
  proc : PCfg
  fps : Nat
  lepton : Bool                -- Lepton (big-endian + telemetry) or Boson frames
  windowOpen : Bool
  diskOk : Bool
  throttle : Bool
  bucketFrames : Nat           -- bucket-size * fps
  minLenFrames : Nat           -- (min-secs + preview-secs) * fps

structure Pipe (F : FloatOps) where
  det : Det F
  proc : PState
  thr : TState
  threshOfStart : Nat := 0     -- threshold stored by the throttle at the upstream start
  accepted : List Accepted := []    -- reversed: head = latest
  files : List RecFile := []        -- reversed: head = most recently started
  badFrames : Nat := 0
  resets : Nat := 0

namespace Pipe
variable {F : FloatOps}

def init (F : FloatOps) (c : PipeCfg) : Pipe F :=
  { det := Det.init F c.det, proc := PState.init c.proc,
    thr := TState.init c.bucketFrames 1 c.minLenFrames }

/-- apply a function to the most recently started file of a kind that is still open -/
def updOpen (files : List RecFile) (k : FileKind) (f : RecFile → RecFile) : List RecFile :=
  match files with
  | [] => []
  | x :: xs => if x.kind == k && !x.closed then f x :: xs else x :: updOpen xs k f

def startFile (c : PipeCfg) (p : Pipe F) (k : FileKind) (thresh : Nat) : Pipe F :=
  { p with files := { kind := k, thresh := thresh, bg := p.det.background c.det, bgSeeded := p.det.bgSeeded } :: p.files }

def writeFile (p : Pipe F) (k : FileKind) (id : Nat) : Pipe F :=
  { p with files := updOpen p.files k fun f => { f with frames := f.frames ++ [id] } }

def stopFile (p : Pipe F) (k : FileKind) : Pipe F :=
  { p with files := updOpen p.files k fun f => { f with closed := true } }

/-- base-recorder calls of the (possibly throttled) motion recorder -/
def applyTObs (c : PipeCfg) (p : Pipe F) : TObs → Pipe F
  | .bStart _ _ => startFile c p .motion p.threshOfStart
  | .bWrite id _ => writeFile p .motion id
  | .bStop _ => stopFile p .motion
  | _ => p

/-- one call of the processor on the motion sink -/
def motionCall (c : PipeCfg) (p : Pipe F) (call : Call) : Pipe F :=
  if c.throttle then
    let req : Option TReq := match call with
      | .start => some (.start 0 0 true)
      | .write id => some (.write 0 id true true true)
      | .stop => some (.stop true)
      | .can => none
    match req with
    | none => p
    | some r =>
      let p := match call with
        | .start => { p with threshOfStart := p.det.tempThresh }
        | _ => p
      let x := p.thr.step r
      x.2.foldl (applyTObs c) { p with thr := x.1 }
  else
    match call with
    | .start => startFile c p .motion p.det.tempThresh
    | .write id => writeFile p .motion id
    | .stop => stopFile p .motion
    | .can => p

def applyObs (c : PipeCfg) (p : Pipe F) : Obs → Pipe F
  | .call .motion call true => motionCall c p call
  | .call .const .start true => startFile c p .const 0
  | .call .const (.write id) _ => writeFile p .const id
  | .call .const .stop _ => stopFile p .const
  | .call .test .start true => startFile c p .test 0
  | .call .test (.write id) _ => writeFile p .test id
  | .call .test .stop _ => stopFile p .test
  | _ => p

def faults (c : PipeCfg) : Faults := { win := c.windowOpen, can := c.diskOk }

/-- one socket item -/
def item (c : PipeCfg) (p : Pipe F) : Socket.Item → Pipe F
  | .clear =>
    let r := PState.step c.proc p.proc (.reset (faults c))
    let p := r.2.foldl (applyObs c) { p with proc := r.1 }
    { p with det := p.det.reset, resets := p.resets + 1 }
  | .frame bytes =>
    let arr := bytes.toArray
    let raw : Parse.Raw := fun i => arr.getD i 0
    let res := if c.lepton then Parse.parseLepton raw c.det.resX c.det.resY c.det.edge
               else Parse.parseBoson raw c.det.resX c.det.resY c.det.edge
    match res with
    | .bad _ _ =>
      let r := PState.step c.proc p.proc (.bad (faults c))
      let p := r.2.foldl (applyObs c) { p with proc := r.1 }
      { p with badFrames := p.badFrames + 1 }
    | .ok pix tel =>
      let ffc := Det.affectedBy c.det ((tel.timeOnMs : Int) * 1000000) ((tel.lastFFCMs : Int) * 1000000)
      let d := Det.detect c.det p.det pix ffc
      let p := { p with det := d.1, accepted := { pix := pix, tel := tel } :: p.accepted }
      let r := PState.step c.proc p.proc (.frame d.2 (faults c))
      r.2.foldl (applyObs c) { p with proc := r.1 }

/-- a test-recording request (`TakeTestRecording`) between two items -/
def testRequest (c : PipeCfg) (p : Pipe F) : Pipe F :=
  { p with proc := (PState.step c.proc p.proc .testReq).1 }

end Pipe
end TR
