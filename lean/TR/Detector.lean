import TR.Ring
/-!
# TR.Detector — model of `motion/motion.go` (motionDetector)

Frames are functions `row → column → count`.  The two pieces of floating point in the Go code
(the `float32` per-pixel weights of the background and the `float64` running mean) are a
parameter `FloatOps`: the native driver instantiates it with Lean's `Float32`/`Float`
(bit-identical with Go on amd64), the theorems hold for every instance, the ones about the
background additionally under the single law `new < bg → lower new w bg` which Go's
`float32(new) − weight < float32(bg)` satisfies for the non-negative weights that occur.
-/
namespace TR

abbrev Frame := Nat → Nat → Nat

structure FloatOps where
  ω : Type                            -- float32 weight
  w0 : ω                              -- 0
  lower : Nat → ω → Nat → Bool        -- float32(new) − w < float32(bg)
  bump : ω → ω                        -- w + 0.1, capped at MaxFloat32
  α : Type                            -- float64 accumulator
  a0 : α
  add : Nat → α → Nat → α             -- numPixels, average, pixel ↦ average + float64(pixel)/numPixels
  trunc : α → Nat                     -- uint16(average)

structure DCfg where
  resX : Nat
  resY : Nat
  edge : Nat                 -- EdgePixels (`start`)
  gap : Nat                  -- FrameCompareGap
  useOneDiff : Bool
  deltaThresh : Nat
  countThresh : Nat
  tempThresh : Nat           -- initial / fixed threshold
  threshMin : Nat            -- TempThreshMin (0 = unset)
  threshMax : Nat            -- TempThreshMax (0 = unset)
  warmerOnly : Bool
  dynamic : Bool
  previewFrames : Nat
  ffcPeriod : Nat            -- nanoseconds
  deriving Repr

namespace DCfg
def rowStop (c : DCfg) : Nat := c.resY - c.edge
def colStop (c : DCfg) : Nat := c.resX - c.edge
/-- interior rows / columns in loop order -/
def rows (c : DCfg) : List Nat := List.range' c.edge (c.rowStop - c.edge)
def cols (c : DCfg) : List Nat := List.range' c.edge (c.colStop - c.edge)
/-- interior pixels in the (row-major) order of the Go loops -/
def interior (c : DCfg) : List (Nat × Nat) := c.rows.flatMap fun y => c.cols.map fun x => (y, x)
def inI (c : DCfg) (y x : Nat) : Bool :=
  decide (c.edge ≤ y) && decide (y < c.rowStop) && decide (c.edge ≤ x) && decide (x < c.colStop)
/-- `numPixels` -/
def numPixels (c : DCfg) : Nat := (c.rowStop - c.edge) * (c.colStop - c.edge)
/-- nearest interior coordinate (border replication) -/
def clampY (c : DCfg) (y : Nat) : Nat := if y < c.edge then c.edge else if y ≥ c.rowStop then c.rowStop - 1 else y
def clampX (c : DCfg) (x : Nat) : Nat := if x < c.edge then c.edge else if x ≥ c.colStop then c.colStop - 1 else x
end DCfg

/-- `absDiff` / `warmerDiff` after both operands were raised to the threshold -/
def pixDiff (warmerOnly : Bool) (thresh a b : Nat) : Nat :=
  let va := max a thresh
  let vb := max b thresh
  if warmerOnly then va - vb else (if va ≥ vb then va - vb else vb - va)

structure Det (F : FloatOps) where
  floored : Ring Frame
  diffs : Ring Frame
  firstDiff : Bool := false
  tempThresh : Nat
  bg : Frame                       -- background, interior values (border derived by replication)
  bgSeeded : Bool := false         -- background frame ever written (before that it is all zero)
  weight : Nat → Nat → F.ω
  backgroundFrames : Nat := 0
  affected : Bool := false         -- affectedByFCC

namespace Det
variable {F : FloatOps}

def zeroFrame : Frame := fun _ _ => 0

def init (F : FloatOps) (c : DCfg) : Det F :=
  { floored := Ring.new (c.gap + 1) zeroFrame, diffs := Ring.new 2 zeroFrame,
    tempThresh := c.tempThresh, bg := zeroFrame, weight := fun _ _ => F.w0 }

/-- the background frame as stored (`d.background`): interior + replicated border -/
def background (c : DCfg) (d : Det F) : Frame :=
  fun y x => if d.bgSeeded then d.bg (c.clampY y) (c.clampX x) else 0

/-- `Reset` -/
def reset (d : Det F) : Det F :=
  { d with backgroundFrames := 0, floored := d.floored.reset, diffs := d.diffs.reset }

/-- `calculateThreshold(backAverage)` given `A = uint16(backAverage)` -/
def clampThresh (c : DCfg) (a : Nat) : Nat :=
  let t := if c.threshMin ≠ 0 then max a c.threshMin else a
  if c.threshMax ≠ 0 then min t c.threshMax else t

/-- mean of the interior of a background, accumulated in loop order -/
def meanOf (F : FloatOps) (c : DCfg) (bg : Frame) : F.α :=
  c.interior.foldl (fun acc p => F.add c.numPixels acc (bg p.1 p.2)) F.a0

/-- `updateBackground(new_frame, prevFFC)`: new detector, the average and `changed` -/
def updateBackground (c : DCfg) (d : Det F) (f : Frame) (prevFFC : Bool) : Det F × F.α × Bool :=
  let n := d.backgroundFrames + 1
  if n = 1 then
    let bg : Frame := fun y x => if c.inI y x then f y x else d.bg y x
    ({ d with backgroundFrames := n, bg := bg, bgSeeded := true }, meanOf F c bg, true)
  else
    let repl : Nat → Nat → Bool := fun y x => prevFFC || F.lower (f y x) (d.weight y x) (d.bg y x)
    let bg : Frame := fun y x => if c.inI y x && repl y x then f y x else d.bg y x
    let w : Nat → Nat → F.ω := fun y x =>
      if c.inI y x then (if repl y x then F.w0 else F.bump (d.weight y x)) else d.weight y x
    let changed := c.interior.any fun p => repl p.1 p.2
    ({ d with backgroundFrames := n, bg := bg, bgSeeded := true, weight := w }, meanOf F c bg, changed)

/-- number of interior pixels over the delta threshold (in `diff`, and in `prev` too unless one-diff) -/
def countChanged (c : DCfg) (diff : Frame) (prev : Option Frame) : Nat :=
  (c.interior.filter fun p =>
    decide (diff p.1 p.2 > c.deltaThresh) &&
      (match prev with
       | none => true
       | some pf => decide (pf p.1 p.2 > c.deltaThresh))).length

/-- `pixelsChanged(frame, prevFFC)` -/
def pixelsChanged (c : DCfg) (d : Det F) (f : Frame) (ffc prevFFC : Bool) : Det F × Bool :=
  -- setFloor: copy the frame into the current slot of flooredFrames
  let fl := d.floored.write f
  let compare := fl.oldestFrame
  -- diff into the current slot of diffFrames (interior only), then Move: the new current is the previous diff
  let diff : Frame := fun y x =>
    if c.inI y x then pixDiff c.warmerOnly d.tempThresh (f y x) (compare y x) else d.diffs.current y x
  let dfs := (d.diffs.write diff).move
  let prevDiff := dfs.current
  if !d.firstDiff then
    ({ d with floored := fl.move, diffs := dfs, firstDiff := true }, false)
  else if ffc || prevFFC then
    ({ d with floored := fl.setAsOldest.move, diffs := dfs, firstDiff := false }, false)
  else
    let cnt := countChanged c diff (if c.useOneDiff then none else some prevDiff)
    ({ d with floored := fl.move, diffs := dfs }, decide (cnt ≥ c.countThresh))

/-- `isAffectedByFFC`: `TimeOn − LastFFCTime < ffcPeriod` (durations in ns, may be negative) -/
def affectedBy (c : DCfg) (timeOn lastFFC : Int) : Bool := decide (timeOn - lastFFC < (c.ffcPeriod : Int))

/-- `Detect(frame)` -/
def detect (c : DCfg) (d : Det F) (f : Frame) (ffc : Bool) : Det F × Bool :=
  let prevFFC := d.affected
  let d := { d with affected := ffc }
  let d :=
    if c.dynamic && !ffc then
      let r := updateBackground c d f prevFFC
      if r.2.2 && decide (r.1.backgroundFrames > c.previewFrames) then
        { r.1 with tempThresh := clampThresh c (F.trunc r.2.1) }
      else r.1
    else d
  pixelsChanged c d f ffc prevFFC

end Det
end TR
