/-!
# TR.Throttle — model of `throttle/throttled_recorder.go` over `juju/ratelimit` v1.0.1

The token bucket is modelled at *tick* level exactly as the library computes it:
`currentTick = (now − startTime) / fillInterval`, `adjustavailableTokens` with its early
return when the bucket is full (which leaves `latestTick` stale), `TakeAvailable(1)`,
`Available()`.  How the library picks `(quantum, fillInterval)` for a rate is not modelled:
both are read from the real bucket by the harness.
-/
namespace TR

structure Bucket where
  cap : Nat
  q : Nat            -- quantum
  avail : Nat        -- availableTokens (never negative with TakeAvailable/Available only)
  latest : Nat       -- latestTick
  deriving Repr, DecidableEq

namespace Bucket

def new (cap q : Nat) : Bucket := { cap := cap, q := q, avail := cap, latest := 0 }

/-- `adjustavailableTokens(tick)` -/
def adjust (b : Bucket) (tick : Nat) : Bucket :=
  if b.avail ≥ b.cap then b
  else { b with avail := min b.cap (b.avail + (tick - b.latest) * b.q), latest := tick }

/-- `TakeAvailable(1)`: new bucket and the number of tokens taken (0 or 1) -/
def take1 (b : Bucket) (tick : Nat) : Bucket × Nat :=
  let b' := b.adjust tick
  if b'.avail = 0 then (b', 0) else ({ b' with avail := b'.avail - 1 }, 1)

/-- `Available()` -/
def available (b : Bucket) (tick : Nat) : Bucket × Nat := (b.adjust tick, (b.adjust tick).avail)

end Bucket

/-- observable effects of the throttled recorder -/
inductive TObs
  | bStart (tag : Nat) (ok : Bool)     -- base.StartRecording(background/threshold identified by tag)
  | bWrite (id : Nat) (ok : Bool)      -- base.WriteFrame
  | bStop (ok : Bool)                  -- base.StopRecording
  | throttled                          -- listener.WhenThrottled()
  | ret (ok : Bool)                    -- error result of the upstream call
  deriving Repr, DecidableEq

/-- upstream requests; every request carries the tick at which it is made and the outcomes
the base recorder will give during it -/
inductive TReq
  | start (tick tag : Nat) (bStartOk : Bool)
  | write (tick id : Nat) (bStartOk bWriteOk bStopOk : Bool)
  | stop (bStopOk : Bool)
  deriving Repr

structure TState where
  bucket : Bucket
  recording : Bool := false
  tag : Nat := 0            -- stored backgroundFrame / tempThresh
  minLen : Nat              -- minRecordingLength
  deriving Repr

namespace TState

def init (cap q minLen : Nat) : TState := { bucket := Bucket.new cap q, minLen := minLen }

/-- `maybeStartRecording`: returns the state, the observations and whether an error is returned -/
def maybeStart (s : TState) (tick tag : Nat) (bStartOk : Bool) : TState × List TObs × Bool :=
  let a := s.bucket.available tick
  let s := { s with bucket := a.1 }
  if a.2 ≥ s.minLen then
    if !bStartOk then (s, [TObs.bStart tag false], false)
    else ({ s with recording := true }, [TObs.bStart tag true], true)
  else (s, [], true)

/-- `StopRecording` -/
def stopRec (s : TState) (bStopOk : Bool) : TState × List TObs × Bool :=
  if s.recording then ({ s with recording := false }, [TObs.bStop bStopOk], bStopOk)
  else (s, [], true)

/-- the tail of `WriteFrame` once recording: take one token and forward the frame, or
notify and stop (`pre` = observations already made during this call) -/
def takeAndWrite (s : TState) (tick id : Nat) (bWriteOk bStopOk : Bool) (pre : List TObs) : TState × List TObs :=
  let t := s.bucket.take1 tick
  let s := { s with bucket := t.1 }
  if t.2 > 0 then (s, pre ++ [TObs.bWrite id bWriteOk, TObs.ret bWriteOk])
  else
    let r := s.stopRec bStopOk
    (r.1, pre ++ [TObs.throttled] ++ r.2.1 ++ [TObs.ret r.2.2])

def step (s : TState) : TReq → TState × List TObs
  | .start tick tag bStartOk =>
    let r := s.maybeStart tick tag bStartOk
    if !r.2.2 then (r.1, r.2.1 ++ [TObs.ret false])
    else
      let ev := if !r.1.recording then [TObs.throttled] else []
      ({ r.1 with tag := tag }, r.2.1 ++ ev ++ [TObs.ret true])
  | .stop bStopOk =>
    let r := s.stopRec bStopOk
    (r.1, r.2.1 ++ [TObs.ret r.2.2])
  | .write tick id bStartOk bWriteOk bStopOk =>
    if s.recording then s.takeAndWrite tick id bWriteOk bStopOk []
    else
      -- not recording: try to (re)start with the stored background
      let r := s.maybeStart tick s.tag bStartOk
      if !r.2.2 then (r.1, r.2.1 ++ [TObs.ret false])
      else if !r.1.recording then (r.1, r.2.1 ++ [TObs.ret true])
      else r.1.takeAndWrite tick id bWriteOk bStopOk r.2.1

end TState
end TR
