/-!
# TR.Yaml — decoder for the flat YAML map the camera daemon's encoder (yaml.v1) emits

`Key: value` per line; a value is a plain scalar (an integer if it consists of digits, else a
string), a "double-quoted" or a 'single-quoted' string.  This is NOT a YAML implementation:
it covers the image of the encoder on flat maps of ints and printable ASCII strings, and is
validated against the real decoder by the correspondence streams (the YAML library itself is a
trusted dependency).
-/
namespace TR.Yaml

inductive Val
  | int (n : Nat)
  | str (s : String)
  deriving DecidableEq, Repr

def isDigits (s : String) : Bool := !s.isEmpty && s.toList.all Char.isDigit

def unquoteDouble (cs : List Char) : List Char :=
  match cs with
  | '\\' :: '"' :: rest => '"' :: unquoteDouble rest
  | '\\' :: '\\' :: rest => '\\' :: unquoteDouble rest
  | c :: rest => c :: unquoteDouble rest
  | [] => []

def unquoteSingle (cs : List Char) : List Char :=
  match cs with
  | '\'' :: '\'' :: rest => '\'' :: unquoteSingle rest
  | c :: rest => c :: unquoteSingle rest
  | [] => []

def parseVal (raw : String) : Val :=
  let cs := raw.toList
  match cs with
  | '"' :: rest =>
    if rest.getLast? == some '"' then .str (String.ofList (unquoteDouble rest.dropLast)) else .str raw
  | '\'' :: rest =>
    if rest.getLast? == some '\'' then .str (String.ofList (unquoteSingle rest.dropLast)) else .str raw
  | _ => if isDigits raw then .int raw.toNat! else .str raw

/-- split "Key: value" at the first ": " -/
def parseLine (line : String) : Option (String × Val) :=
  match line.splitOn ": " with
  | k :: v :: more => some (k, parseVal (": ".intercalate (v :: more)))
  | _ => none

def parse (text : String) : List (String × Val) :=
  (text.splitOn "\n").filterMap fun l => if l.isEmpty then none else parseLine l

def getInt (m : List (String × Val)) (k : String) : Nat :=
  match m.find? (·.1 == k) with
  | some (_, .int n) => n
  | _ => 0            -- toInt: anything that is not an int gives 0

def getStr (m : List (String × Val)) (k : String) : String :=
  match m.find? (·.1 == k) with
  | some (_, .str s) => s
  | _ => ""           -- toStr: anything that is not a string gives ""

end TR.Yaml
