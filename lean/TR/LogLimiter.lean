/-!
# TR.LogLimiter — model of `loglimiter/loglimiter.go`

`Print(s)`: suppressed iff `now − previousTime < interval ∧ s = previousEntry`; otherwise
printed and `(previousTime, previousEntry) := (now, s)`.  Times are nanoseconds since an
arbitrary origin; the zero `time.Time` of a fresh limiter lies (by centuries) more than any
interval before every real clock reading, which the model expresses with `last = none`.
`previousEntry` of a fresh limiter is the empty string, which no caller prints… but the model
does not rely on that: with `last = none` the time test fails whatever the message.
-/
namespace TR

structure LogLim (μ : Type) where
  interval : Nat
  last : Option (Nat × μ) := none      -- (time, message) of the last line actually printed

namespace LogLim
variable {μ : Type} [DecidableEq μ]

/-- `Print`: new state and whether the message was printed -/
def print (l : LogLim μ) (now : Nat) (msg : μ) : LogLim μ × Bool :=
  match l.last with
  | some (t, m) =>
    if now - t < l.interval ∧ msg = m then (l, false)
    else ({ l with last := some (now, msg) }, true)
  | none => ({ l with last := some (now, msg) }, true)

/-- run a history of (time, message) arrivals; result: printed? per arrival -/
def run : LogLim μ → List (Nat × μ) → List Bool
  | _, [] => []
  | l, (t, m) :: rest => let r := l.print t m; r.2 :: run r.1 rest

end LogLim
end TR
