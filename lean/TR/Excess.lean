import TR.FS

/-!
# TR.Excess — `deleteExcessRecordings` of the continuous ("constant") recorder

Source: `/repo/cmd/thermal-recorder/cptvfilerecorder.go`, `deleteExcessRecordings(dir)`, called by
`StartRecording` of the constant recorder before every new recording, on its own directory
`<output-dir>/constant-recordings`:

```go
for {
    statfs(dir, &fs)
    percentageLeft := (fs.Bavail * 100) / fs.Blocks
    if percentageLeft > 30 { return nil }
    matches := filepath.Glob(dir/"*.cptv*")          // lexical order = age order (names are time stamps)
    if len(matches) == 0 { return errors.New("no more recordings to delete …") }
    os.Remove(matches[0])
}
```

What is modelled and how.

* The file system is three numbers and a list: `total` = `fs.Blocks`, `other` = the blocks that are neither
  available nor in the directory (the motion recordings of the main output directory, the rest of the file
  system, the blocks reserved for root), `files` = the directory in lexical order of names, every file with
  the number of blocks it occupies.  `fs.Bavail` is `total - other - (blocks of the directory)` with
  TRUNCATED subtraction (`Nat`): an over-committed disk has 0 blocks available (Linux clamps `f_bavail` the
  same way when fewer blocks are free than are reserved).
* Numbers are `Nat`.  Go computes in `uint64`; `Disk.percentLeftU64` is the wrapping computation and
  `Props.Excess.percentLeftU64_eq` shows that it is the same number whenever `total * 100 < 2^64`.
* `fs.Blocks = 0` (pseudo file systems report it): Go panics with an integer division by zero BEFORE anything
  is deleted.  The model has a third outcome, `Result.divideByZero`, for it, and the disk is unchanged.
  (`Disk.percentLeft` itself is `0` then — Lean's `x / 0 = 0` — but the loop does not look at it.)
* `os.Remove` always succeeds, removes the first directory entry of that name and frees its blocks at once;
  `statfs` and `Glob` never fail (the three `return err` paths of the Go code are not modelled).
* `Disk.remove` is by NAME, as in Go.  (The names of a real directory are distinct; no theorem needs it.)

`Disk.stepBy` is one pass through the body of the Go loop; `loopBy` repeats it, with fuel so that the
recursion is structural; `deleteExcess` starts it with fuel = the number of files.
`Props.Excess.deleteExcess_loop_equation` shows that `deleteExcess` satisfies the equation of the Go loop, with
no fuel in it, for every disk.

The loop is written for an ARBITRARY test `isRec` on names; `deleteExcess` is the loop with
`isRec := matchesGlob`, the pattern `*.cptv*`.  Two reasons: nothing in the loop depends on what the pattern
is (the theorems 1–6 of `Props.Excess` hold for every test), and `TR.FS.globMatch` is defined by well-founded
recursion, which the kernel does not unfold under `decide` — the examples of `Props.Excess` are evaluated
with a structurally recursive test that is PROVED equal to `matchesGlob`.

Core Lean only.
-/
namespace TR.Excess
open TR.FS

/-- a file of the continuous recorder's directory: its name and the number of blocks it occupies -/
structure File where
  name : String
  blocks : Nat
deriving DecidableEq, Repr

structure Disk where
  /-- `fs.Blocks`: size of the file system in blocks -/
  total : Nat
  /-- blocks neither available nor in the directory: other directories, reserved blocks (never changes here) -/
  other : Nat
  /-- the directory, in lexical order of names -/
  files : List File
deriving DecidableEq, Repr

/-- blocks occupied by a list of files -/
def used (fs : List File) : Nat := (fs.map (·.blocks)).sum

/-- `fs.Bavail` — TRUNCATED subtraction: `0` when `other` and the directory together exceed `total` -/
def Disk.avail (d : Disk) : Nat := d.total - d.other - used d.files

/-- `(fs.Bavail * 100) / fs.Blocks` over the natural numbers (`0` when `total = 0`) -/
def Disk.percentLeft (d : Disk) : Nat := d.avail * 100 / d.total

/-- the same expression with Go's wrapping `uint64` multiplication -/
def Disk.percentLeftU64 (d : Disk) : Nat := (d.avail * 100 % 2 ^ 64) / d.total

/-- `os.Remove(dir/n)`: the first entry called `n` goes, everything else stays in place -/
def Disk.remove (d : Disk) (n : String) : Disk :=
  { d with files := d.files.eraseP (fun f => f.name == n) }

inductive Result
  /-- `return nil`: more than 30 % left -/
  | ok
  /-- `errors.New("no more recordings to delete and not enough space for new recordings")` -/
  | noMoreRecordings
  /-- `fs.Blocks = 0`: run-time panic in Go -/
  | divideByZero
deriving DecidableEq, Repr

/-- what a call does: the disk afterwards, the outcome, the names deleted in the order of deletion -/
structure Run where
  disk : Disk
  result : Result
  deleted : List String
deriving DecidableEq, Repr

/-- how one pass through the loop body ends: a `return`, or `os.Remove(matches[0])` and round again -/
inductive Step
  | stop (r : Result)
  | delete (name : String)
deriving DecidableEq, Repr

/-! ## The loop, for an arbitrary test `isRec` on names -/

section Loop
variable (isRec : String → Bool)

/-- `filepath.Glob`: the names the test accepts, in directory (= lexical) order -/
def Disk.globBy (d : Disk) : List String := (d.files.map (·.name)).filter isRec

/-- one pass through the body of the Go loop -/
def Disk.stepBy (d : Disk) : Step :=
  if d.total = 0 then .stop .divideByZero              -- `/ fs.Blocks` panics
  else if d.percentLeft > 30 then .stop .ok            -- tested FIRST: enough room, nothing is touched
  else
    match d.globBy isRec with
    | [] => .stop .noMoreRecordings
    | n :: _ => .delete n                              -- `matches[0]`

/-- the Go loop.  The branch `0, .delete _` is never reached from `deleteExcessBy` (every deletion makes the
directory one entry shorter; `Props.Excess.deleteExcess_loop_equation` has no fuel in it). -/
def loopBy : Nat → Disk → Run
  | 0, d =>
    match d.stepBy isRec with
    | .stop r => ⟨d, r, []⟩
    | .delete _ => ⟨d, .noMoreRecordings, []⟩
  | fuel + 1, d =>
    match d.stepBy isRec with
    | .stop r => ⟨d, r, []⟩
    | .delete n =>
      let r := loopBy fuel (d.remove n)
      { r with deleted := n :: r.deleted }

def deleteExcessBy (d : Disk) : Run := loopBy isRec d.files.length d

/-! ### Vocabulary of the theorems (not used by the loop) -/

/-- the files the test accepts, in directory order: oldest first -/
def Disk.matchingBy (d : Disk) : List File := d.files.filter (fun f => isRec f.name)

/-- the files the test does not accept, in directory order -/
def Disk.unrelatedBy (d : Disk) : List File := d.files.filter (fun f => !isRec f.name)

/-- a directory without its first `k` accepted files; everything else stays, in the same order -/
def dropOldestBy : Nat → List File → List File
  | 0, fs => fs
  | _ + 1, [] => []
  | k + 1, f :: fs => if isRec f.name then dropOldestBy k fs else f :: dropOldestBy (k + 1) fs

/-- the disk after the `k` oldest accepted files have been deleted -/
def Disk.afterDeletingBy (d : Disk) (k : Nat) : Disk := { d with files := dropOldestBy isRec k d.files }

end Loop

/-! ## The Go function: the loop with the pattern `*.cptv*` -/

/-- the pattern of the Go code, `*.cptv*`, with the `filepath.Match` model of `TR.FS` -/
def matchesGlob (name : String) : Bool := globMatch "*.cptv*".toList name.toList

/-- `deleteExcessRecordings(dir)` -/
def deleteExcess (d : Disk) : Run := deleteExcessBy matchesGlob d

/-- `filepath.Glob(dir/"*.cptv*")` -/
def Disk.glob (d : Disk) : List String := d.globBy matchesGlob
/-- one pass through the loop body of `deleteExcessRecordings` -/
def Disk.step (d : Disk) : Step := d.stepBy matchesGlob
/-- the files `*.cptv*` matches, oldest first -/
def Disk.matching (d : Disk) : List File := d.matchingBy matchesGlob
/-- the files `*.cptv*` does not match -/
def Disk.unrelated (d : Disk) : List File := d.unrelatedBy matchesGlob
/-- the disk after the `k` oldest files matching `*.cptv*` have been deleted -/
def Disk.afterDeleting (d : Disk) (k : Nat) : Disk := d.afterDeletingBy matchesGlob k

/-! ## For the differential test driver -/

/-- number of files deleted and whether the call returned `nil`, for a file system of `total` blocks of which
`other` are used outside the directory, the directory being `files` (name, blocks) in lexical order -/
def expectDeleted (total other : Nat) (files : List (String × Nat)) : Nat × Bool :=
  let r := deleteExcess ⟨total, other, files.map fun p => ⟨p.1, p.2⟩⟩
  (r.deleted.length, r.result == .ok)

end TR.Excess
