/-!
# TR.Parse — raw frame decoding: `lepton3.ParseRawFrame` and `convertRawBosonFrame`

A raw frame is a byte accessor `raw : Nat → Nat` (index ↦ byte; the driver backs it by an array,
the theorems hold for every accessor).  Both parsers walk the pixel words row-major, store each in
the output frame and stop with a bad-frame error at the first zero pixel that is not in the
edge border (`edge` pixels wide).  Lepton: big-endian words after 640 telemetry bytes;
Boson: little-endian words, constant telemetry.
-/
namespace TR.Parse

abbrev Raw := Nat → Nat

def byteAt (raw : Raw) (i : Nat) : Nat := raw i

/-- accessor of a byte list (out-of-range reads as 0; the real parsers are only handed full frames) -/
def ofList (l : List Nat) : Raw := fun i => l.getD i 0

/-- big-endian 16-bit word at byte offset `i` -/
def be16 (raw : Raw) (i : Nat) : Nat := byteAt raw i * 256 + byteAt raw (i + 1)
/-- little-endian 16-bit word at byte offset `i` -/
def le16 (raw : Raw) (i : Nat) : Nat := byteAt raw i + byteAt raw (i + 1) * 256

def onEdge (w h edge y x : Nat) : Bool :=
  decide (y < edge) || decide (x < edge) || decide (y ≥ h - edge) || decide (x ≥ w - edge)

/-- pixel (y,x) of a frame whose pixel words start at byte `off` -/
def pixel (word : Raw → Nat → Nat) (raw : Raw) (off w y x : Nat) : Nat :=
  word raw (off + 2 * (y * w + x))

/-- coordinates in the order the parsers visit them -/
def coords (w h : Nat) : List (Nat × Nat) := (List.range h).flatMap fun y => (List.range w).map fun x => (y, x)

/-- first interior zero pixel in scan order, if any -/
def firstBad (word : Raw → Nat → Nat) (raw : Raw) (off w h edge : Nat) : Option (Nat × Nat) :=
  (coords w h).find? fun p => !onEdge w h edge p.1 p.2 && pixel word raw off w p.1 p.2 == 0

structure Telemetry where
  timeOnMs : Nat
  lastFFCMs : Nat
  fpaTempCK : Nat          -- centi-kelvin
  fpaTempLastFFCCK : Nat
  frameCounter : Nat
  frameMean : Nat
  ffcStateBits : Nat       -- (status >> 4) & 3
  deriving DecidableEq, Repr

/-- Big16 32-bit value at word index `k`: low half first -/
def big16u32 (raw : Raw) (k : Nat) : Nat := be16 raw (2 * k) + be16 raw (2 * k + 2) * 65536

def leptonTelemetryBytes : Nat := 640

/-- `lepton3.ParseTelemetry` (fields the recorder uses) -/
def leptonTelemetry (raw : Raw) : Telemetry :=
  { timeOnMs := big16u32 raw 1,
    lastFFCMs := big16u32 raw 30,
    fpaTempCK := be16 raw (2 * 24),
    fpaTempLastFFCCK := be16 raw (2 * 29),
    frameCounter := big16u32 raw 20,
    frameMean := be16 raw (2 * 22),
    ffcStateBits := (big16u32 raw 3 / 16) % 4 }

/-- `convertRawBosonFrame`: LastFFCTime = 1 s, TimeOn = 1 min -/
def bosonTelemetry : Telemetry :=
  { timeOnMs := 60000, lastFFCMs := 1000, fpaTempCK := 0, fpaTempLastFFCCK := 0, frameCounter := 0,
    frameMean := 0, ffcStateBits := 0 }

inductive Result
  | ok (pix : Nat → Nat → Nat) (t : Telemetry)
  | bad (y x : Nat)                      -- BadFrameErr at this pixel

def parseLepton (raw : Raw) (w h edge : Nat) : Result :=
  match firstBad be16 raw leptonTelemetryBytes w h edge with
  | some p => .bad p.1 p.2
  | none => .ok (fun y x => pixel be16 raw leptonTelemetryBytes w y x) (leptonTelemetry raw)

def parseBoson (raw : Raw) (w h edge : Nat) : Result :=
  match firstBad le16 raw 0 w h edge with
  | some p => .bad p.1 p.2
  | none => .ok (fun y x => pixel le16 raw 0 w y x) bosonTelemetry

/-- what the output frame holds after a rejected parse: pixels before the bad one (inclusive)
are overwritten, later ones keep the old content — the "scribble" -/
def scribble (word : Raw → Nat → Nat) (raw : Raw) (off w : Nat) (bad : Nat × Nat)
    (old : Nat → Nat → Nat) : Nat → Nat → Nat :=
  fun y x => if y * w + x ≤ bad.1 * w + bad.2 then pixel word raw off w y x else old y x

end TR.Parse
