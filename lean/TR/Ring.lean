/-!
# TR.Ring — model of `motion/frameloop.go` (FrameLoop)

Line-for-line functional model: a mutation through the pointer receiver becomes a function
returning the new ring, slots are `Nat → α` (slot index ↦ frame content), `oldest = none`
models `NO_OLDEST_SET`, and `history` returns `none` exactly where the Go slice expression
`fullHistory[len(fullHistory)-historyLength:]` would panic.
Core Lean only (this file is linked into the native driver).
-/

namespace TR

structure Ring (α : Type) where
  size   : Nat
  cur    : Nat
  slots  : Nat → α
  full   : Bool
  oldest : Option Nat          -- none = NO_OLDEST_SET

namespace Ring
variable {α : Type}

/-- `NewFrameLoop(size, camera)`: `oldest` is the zero value 0. -/
def new (size : Nat) (blank : α) : Ring α :=
  { size := size, cur := 0, slots := fun _ => blank, full := false, oldest := some 0 }

/-- `Reset()` — note: slot contents are kept. -/
def reset (r : Ring α) : Ring α := { r with cur := 0, oldest := some 0, full := false }

/-- `nextIndexAfter` -/
def next (r : Ring α) (i : Nat) : Nat := (i + 1) % r.size

/-- `Move()` -/
def move (r : Ring α) : Ring α :=
  let c := r.next r.cur
  { r with cur := c,
           full := r.full || c == 0,
           oldest := if r.oldest = some c then none else r.oldest }

/-- writing into `Current()` (the frame object is filled in place by the caller) -/
def write (r : Ring α) (v : α) : Ring α :=
  { r with slots := fun i => if i = r.cur then v else r.slots i }

/-- `Current()` -/
def current (r : Ring α) : α := r.slots r.cur

/-- `SetAsOldest()` -/
def setAsOldest (r : Ring α) : Ring α := { r with oldest := some r.cur }

/-- slot indices returned by `getFullHistory`, in order -/
def fullIdx (r : Ring α) : List Nat :=
  if r.cur = r.size - 1 then List.range r.size
  else if !r.full then List.range (r.cur + 1)
  else (List.range r.size).drop (r.cur + 1) ++ (List.range r.size).take (r.cur + 1)

/-- `historyLength := (currentIndex-oldest+size)%size + 1` -/
def histLen (r : Ring α) (o : Nat) : Nat := (r.cur + r.size - o) % r.size + 1

/-- `GetHistory()` as a list of slot indices; `none` models the Go slice-bounds panic. -/
def historyIdx (r : Ring α) : Option (List Nat) :=
  match r.oldest with
  | none => some r.fullIdx
  | some o =>
    if r.histLen o ≤ r.fullIdx.length then some (r.fullIdx.drop (r.fullIdx.length - r.histLen o))
    else none

def history (r : Ring α) : Option (List α) := r.historyIdx.map (·.map r.slots)

/-- slot index used by `Oldest()` -/
def oldestIdx (r : Ring α) : Nat :=
  match r.oldest with
  | some o => o
  | none => r.next r.cur

/-- `Oldest()` -/
def oldestFrame (r : Ring α) : α := r.slots r.oldestIdx

/-- slot index used by `CopyRecent()`: `(currentIndex - 1 + size) % size` -/
def recentIdx (r : Ring α) : Nat := (r.cur + r.size - 1) % r.size

/-- `CopyRecent()`: `none` (nil) until a frame has been completed since creation / reset -/
def recent (r : Ring α) : Option α :=
  if r.cur = 0 ∧ r.full = false then none else some (r.slots r.recentIdx)

end Ring
end TR
