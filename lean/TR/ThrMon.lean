import TR.Throttle
/-!
# TR.ThrMon — upstream protocol wrapper and executable monitors for C05 / C06
-/
namespace TR

/-- The upstream client (the motion processor) obeys the `recorder.Recorder` protocol
`(start write* stop)*`: it writes and stops only after a start that returned no error.
`ustep` returns `none` for a request the protocol forbids in the current state (not issued). -/
structure UState where
  t : TState
  upOpen : Bool := false

def retOk (obs : List TObs) : Bool := obs.contains (TObs.ret true)

def ustep (u : UState) (r : TReq) : UState × Option (List TObs) :=
  match r with
  | .start .. =>
    if u.upOpen then (u, none)
    else let x := u.t.step r; ({ t := x.1, upOpen := retOk x.2 }, some x.2)
  | .write .. =>
    if !u.upOpen then (u, none)
    else let x := u.t.step r; ({ u with t := x.1 }, some x.2)
  | .stop _ =>
    if !u.upOpen then (u, none)
    else let x := u.t.step r; ({ t := x.1, upOpen := false }, some x.2)

structure TStep where
  req : TReq
  obs : List TObs     -- observations of an issued request

/-- trace of issued requests -/
def utrace : UState → List TReq → List TStep
  | _, [] => []
  | u, r :: rs =>
    match ustep u r with
    | (u', some obs) => { req := r, obs := obs } :: utrace u' rs
    | (u', none) => utrace u' rs

def TReq.tick? : TReq → Option Nat
  | .start t _ _ => some t
  | .write t _ _ _ _ => some t
  | .stop _ => none

def fwdCount (obs : List TObs) : Nat :=
  (obs.filter fun o => match o with | .bWrite _ _ => true | _ => false).length

/-- (tick, forwarded frames) per step; a stop inherits the tick of the previous request -/
def tickFwd : Nat → List TStep → List (Nat × Nat)
  | _, [] => []
  | last, s :: rest =>
    let t := (s.req.tick?).getD last
    (t, fwdCount s.obs) :: tickFwd t rest

/-! ## C05 — in every window of requests the forwarded frames are bounded by the bucket -/

/-- all windows starting at the head: `acc` frames so far since tick `t0` -/
def windowsFrom (cap q t0 : Nat) : Nat → List (Nat × Nat) → Bool
  | _, [] => true
  | acc, (t, f) :: rest =>
    decide (acc + f ≤ cap + 1 + q * (t - t0)) && windowsFrom cap q t0 (acc + f) rest

def allWindows (cap q : Nat) : List (Nat × Nat) → Bool
  | [] => true
  | (t0, f0) :: rest => windowsFrom cap q t0 0 ((t0, f0) :: rest) && allWindows cap q rest

def monC05 (cap q : Nat) (tr : List TStep) : List String :=
  if allWindows cap q (tickFwd 0 tr) then [] else ["C05:window-exceeds-bucket-plus-refill"]

/-! ## C06 — transparency, pairing, clean cuts, one event per incident -/

structure M6 where
  baseOpen : Bool := false
  sinceStart : Nat := 0          -- frames forwarded into the open base file
  throttledSoFar : Bool := false
  fails : List String := []

def countThrottled (obs : List TObs) : Nat := (obs.filter (· == TObs.throttled)).length
def hasBStart (obs : List TObs) : Bool := obs.any fun o => match o with | .bStart _ _ => true | _ => false
def hasBStop (obs : List TObs) : Bool := obs.any fun o => match o with | .bStop _ => true | _ => false

def M6.obs (minLen : Nat) (inWrite : Bool) (m : M6) : TObs → M6
  | .bStart _ ok =>
    let f := if m.baseOpen then ["C06:base-start-while-open"] else []
    { m with baseOpen := m.baseOpen || ok, sinceStart := if ok then 0 else m.sinceStart, fails := m.fails ++ f }
  | .bWrite _ _ =>
    let f := if m.baseOpen then [] else ["C06:base-write-outside-file"]
    { m with sinceStart := m.sinceStart + 1, fails := m.fails ++ f }
  | .bStop _ =>
    let f := (if m.baseOpen then [] else ["C06:base-stop-without-file"]) ++
             (if inWrite && decide (m.sinceStart < minLen) then ["C06:cut-file-shorter-than-minimum"] else [])
    { m with baseOpen := false, fails := m.fails ++ f }
  | _ => m

def M6.step (minLen : Nat) (m : M6) (s : TStep) : M6 :=
  let isWrite := match s.req with | .write .. => true | _ => false
  let m1 := s.obs.foldl (M6.obs minLen isWrite) m
  let ev := countThrottled s.obs
  -- (d) exactly one event per suppressed start or cut, none otherwise
  let expectEv : Nat := match s.req with
    | .start .. => if hasBStart s.obs then 0 else 1
    | .write .. => if hasBStop s.obs then 1 else 0
    | .stop _ => 0
  let f1 := if ev = expectEv then [] else ["C06:throttled-event-count"]
  -- (a) transparency: nothing throttled so far (including now) ⇒ the request is forwarded unchanged
  let f2 : List String :=
    if m.throttledSoFar || ev > 0 then [] else
    match s.req with
    | .start _ tag ok => if s.obs = [TObs.bStart tag ok, TObs.ret ok] then [] else ["C06:start-not-transparent"]
    | .write _ id _ wok _ => if s.obs = [TObs.bWrite id wok, TObs.ret wok] then [] else ["C06:write-not-transparent"]
    | .stop ok => if s.obs = [TObs.bStop ok, TObs.ret ok] then [] else ["C06:stop-not-transparent"]
  -- a stop request is forwarded iff a file is open
  let f3 : List String := match s.req with
    | .stop _ => if hasBStop s.obs = m.baseOpen then [] else ["C06:stop-forwarding"]
    | _ => []
  { m1 with throttledSoFar := m.throttledSoFar || ev > 0, fails := m1.fails ++ f1 ++ f2 ++ f3 }

def monC06 (minLen : Nat) (tr : List TStep) : List String := (tr.foldl (M6.step minLen) {}).fails

/-! ## C11 (threshold at trigger time): every file the throttle starts — immediately or deferred, in the
middle of a trigger — is started with the background / threshold of the most recent upstream start -/

structure M11 where
  lastTag : Option Nat := none
  fails : List String := []

/-- a base start whose tag is not the one of the latest upstream start -/
def staleStart (last : Option Nat) : TObs → Bool
  | .bStart tag _ => some tag != last
  | _ => false

/-- tag of the latest upstream start after this request -/
def M11.tagAfter (m : M11) : TReq → Option Nat
  | .start _ tag _ => some tag
  | _ => m.lastTag

def M11.step (m : M11) (s : TStep) : M11 :=
  let m := { m with lastTag := m.tagAfter s.req }
  let bad := s.obs.any (staleStart m.lastTag)
  if bad then { m with fails := m.fails ++ ["C11:file-started-with-stale-threshold-or-background",
                                           "C06:deferred-start-not-forwarded-with-the-arguments-of-the-latest-start"] } else m

def monC11Thr (tr : List TStep) : List String := (tr.foldl M11.step {}).fails

end TR
