/-!
# TR.Socket — the frame socket as a flat byte list

`headers.ReadHeaderInfo`: read lines (up to and including '\n') until one that is blank after
trimming spaces; the lines before it are the YAML text.  If the stream ends before the blank
line the result is an error (never a partial description).
`handleConn` loop: read 5 bytes (`io.ReadFull`); if they are the marker "clear" it is a camera
reset, otherwise read the remaining `frameSize − 5` bytes of the frame.
Segmentation into socket reads does not exist at this level: `bufio.Reader` + `io.ReadFull`
present the stream as one byte sequence (trusted; exercised with random segmentations).
-/
namespace TR.Socket

def NL : Nat := 10
def SP : Nat := 32

/-- split off the first line, newline included; `none` if there is no newline (EOF first) -/
def takeLine : List Nat → Option (List Nat × List Nat)
  | [] => none
  | b :: rest =>
    if b = NL then some ([b], rest)
    else match takeLine rest with
      | some (l, r) => some (b :: l, r)
      | none => none

/-- `strings.Trim(line, " ") == "\n"` -/
def isBlank (line : List Nat) : Bool := line.dropWhile (· == SP) == [NL]

/-- `ReadHeaderInfo` up to the YAML decoder: the header text and the unread remainder -/
def readHeader : List Nat → Option (List Nat × List Nat)
  | bytes =>
    match h : takeLine bytes with
    | none => none
    | some (line, rest) =>
      if isBlank line then some ([], rest)
      else
        have : rest.length < bytes.length := by
          have : ∀ (bs l r : List Nat), takeLine bs = some (l, r) → r.length < bs.length := by
            intro bs
            induction bs with
            | nil => intro l r h; simp [takeLine] at h
            | cons b t ih =>
              intro l r h
              simp only [takeLine] at h
              split at h
              · simp only [Option.some.injEq, Prod.mk.injEq] at h; rw [← h.2]; simp
              · split at h
                · next l' r' heq =>
                  simp only [Option.some.injEq, Prod.mk.injEq] at h
                  have := ih l' r' heq
                  rw [← h.2]; simp; omega
                · cases h
          exact this bytes line rest h
        match readHeader rest with
        | some (text, rest') => some (line ++ text, rest')
        | none => none
termination_by bytes => bytes.length

def clearMarker : List Nat := [99, 108, 101, 97, 114]      -- "clear"

inductive Item
  | frame (bytes : List Nat)
  | clear
  deriving DecidableEq, Repr

/-- how the frame loop ends -/
inductive Ending
  | eofAtBoundary        -- connection closed between items (io.EOF)
  | truncated            -- connection closed inside a probe or a frame (io.ErrUnexpectedEOF)
  deriving DecidableEq, Repr

/-- the frame loop of `handleConn` over the remaining bytes (`fuel` = an upper bound on the items) -/
def parseFrames (frameSize : Nat) : Nat → List Nat → List Item × Ending
  | 0, _ => ([], .truncated)
  | fuel + 1, bytes =>
    if bytes = [] then ([], .eofAtBoundary)
    else if bytes.length < 5 then ([], .truncated)
    else if bytes.take 5 = clearMarker then
      let r := parseFrames frameSize fuel (bytes.drop 5)
      (Item.clear :: r.1, r.2)
    else if bytes.length < frameSize then ([], .truncated)
    else
      let r := parseFrames frameSize fuel (bytes.drop frameSize)
      (Item.frame (bytes.take frameSize) :: r.1, r.2)

/-- what the camera daemon writes for an item -/
def encodeItem : Item → List Nat
  | .frame b => b
  | .clear => clearMarker

def encode (items : List Item) : List Nat := items.flatMap encodeItem

end TR.Socket
