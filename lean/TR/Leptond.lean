import TR.Socket
/-!
# TR.Leptond — the camera daemon's side of the frame socket (cmd/leptond/main.go)

```
runMain:   sendCameraSpecs            conn.Write(cameraYAML) ; conn.Write("\n")
           for {
             runCamera                for { camera.NextFrame(frame)   -- error: return (restart)
                                            if service.actions.reset { return }   -- frame NOT written
                                            conn.Write(frame[:]) }
             camera.Close ; cycleCameraPower ; startCamera
             conn.Write("clear")
           }
```

The only input of the loop is what each call of `camera.NextFrame` does (`CamEv`); everything
the daemon writes to the socket is a function of the header text and that history.  Two
descriptions are given:

* `sent` / `stream` — the declarative one: the items in order, and the whole byte stream;
* `DState` / `step` / `run` — the operational one, a transcription of the two nested loops; it is
  proved equal to the first in `Proofs.C14Daemons` (`run_eq`, `run_eq_stream`).

Not modelled (the daemon exits, the connection closes — the recorder side of that is
`c14_header_truncated` / `c14_frames_truncated`): a failing `conn.Write`, a failing power cycle or
`startCamera`.  `conn.Write` on a unix stream socket writes the whole slice or fails (trusted).
-/
namespace TR.Leptond
open TR.Socket

/-- what the camera does on one call of `NextFrame` -/
inductive CamEv
  | frame (bytes : List Nat)          -- a frame is delivered
  | timeout                           -- NextFrame fails: the camera is restarted
  | resetRequested (bytes : List Nat) -- a frame is delivered but a restart was requested through
                                      -- the service: the frame is dropped
  deriving DecidableEq, Repr

/-- the one item that ends up on the socket because of an event: the frame itself, or the
`clear` that follows the camera restart the event causes -/
def CamEv.item : CamEv → Item
  | .frame b => .frame b
  | .timeout => .clear
  | .resetRequested _ => .clear

/-- the items the daemon puts on the socket after the header, in order -/
def sent (evs : List CamEv) : List Item := evs.map CamEv.item

/-- `conn.Write([]byte("\n"))` in `sendCameraSpecs` -/
def blankLine : List Nat := [NL]

/-- the whole byte stream: header lines, blank line, then the encoded items -/
def stream (headerLines : List (List Nat)) (evs : List CamEv) : List Nat :=
  headerLines.flatten ++ blankLine ++ encode (sent evs)

/-! ## classification of events (used to state the corollaries) -/

def CamEv.isTimeout : CamEv → Bool
  | .timeout => true
  | _ => false

def CamEv.isResetRequested : CamEv → Bool
  | .resetRequested _ => true
  | _ => false

/-- the payload of a frame that is written to the socket -/
def CamEv.delivered? : CamEv → Option (List Nat)
  | .frame b => some b
  | _ => none

/-- the payload of a frame item read from the socket -/
def itemFrame? : Item → Option (List Nat)
  | .frame b => some b
  | .clear => none

/-! ## the operational version

The state is the place where control is between two calls of `NextFrame`.  -/

inductive DState
  | inCamera     -- inside `runCamera`'s loop (main.go:241), about to call `NextFrame`
  | restarting   -- `runCamera` has returned; `runMain` is at "closing camera" (main.go:162)
  deriving DecidableEq, Repr

/-- The rest of `runMain`'s loop body once `runCamera` has returned (main.go:162–176):
`camera.Close()`, `cycleCameraPower`, `startCamera`, `conn.Write([]byte("clear"))`, and back to
`runCamera`.  `NextFrame` is not called on the way, so this consumes no event; the bytes it writes
are attributed to whatever happens next. -/
def pending : DState → List Nat
  | .inCamera => []
  | .restarting => clearMarker

/-- one iteration of the loop in `runCamera` (main.go:241–260) -/
def cameraIter : CamEv → DState × List Nat
  | .frame b => (.inCamera, b)              -- `conn.Write(frame[:])`, next iteration
  | .timeout => (.restarting, [])           -- `return &nextFrameErr{err}`
  | .resetRequested _ => (.restarting, [])  -- `service.actions.reset`: `return nil` before the Write

/-- one `NextFrame` call: finish a restart if one is under way, then one iteration of
`runCamera`; the result is the new state and the bytes written -/
def step (s : DState) (ev : CamEv) : DState × List Nat :=
  ((cameraIter ev).1, pending s ++ (cameraIter ev).2)

/-- everything written from state `s` over the history `evs`, up to the moment the daemon is
blocked in the next `NextFrame` call (so a restart caused by the last event is completed) -/
def run : DState → List CamEv → List Nat
  | s, [] => pending s
  | s, ev :: evs => (step s ev).2 ++ run (step s ev).1 evs

/-- `sendCameraSpecs` (main.go:225–232): the YAML text, then a newline -/
def sendCameraSpecs (headerLines : List (List Nat)) : List Nat :=
  headerLines.flatten ++ blankLine

/-- `runMain` from `sendCameraSpecs` on -/
def runMain (headerLines : List (List Nat)) (evs : List CamEv) : List Nat :=
  sendCameraSpecs headerLines ++ run .inCamera evs

end TR.Leptond
