/-!
# TR.FS — file-system effects of `CPTVFileRecorder` (through go-cptv's FileWriter) and the
start-up clean-up

Names.  A recording with time stamp `s` uses three names in its directory:
`T = s.cptv.temp` (compressed output, created twice by go-cptv: `os.Create` in
`NewFileWriter` and again in `NewDualFileWriter`), `S = s.cptv.temp.tmp` (uncompressed
scratch file all frames are first written to) and `F = s.cptv` (final name).

Operations and the file-system calls they make, in order (writes to S happen whenever the
4 KiB buffer fills and are not part of the skeleton):

* start  : creat T, creat S, creat T
* write  : (buffered) write S*
* stop   : write S* (flush, header patch), write T* (gzip), close T, close S, unlink S, rename T → F
* discard: write S*, write T*, close T, close S, unlink S, unlink T      (`Stop()`, deferred in handleConn)
* start that fails while writing the header (`WriteHeader` error, e.g. a header string over 255 bytes):
  creat T, creat S, creat T, then `writer.Close()`: write S*, write T*, close T, close S, unlink S —
  the partial T stays until the next start-up clean-up and the recorder holds no writer

A crash (process kill) can happen between any two calls.
-/
namespace TR.FS

inductive Kind | T | S | F
  deriving DecidableEq, Repr

/-- a name: recording index (stands for the time stamp) and kind -/
structure Name where
  idx : Nat
  kind : Kind
  deriving DecidableEq, Repr

inductive Sys
  | creat (n : Name)
  | write (n : Name)
  | close (n : Name)
  | unlink (n : Name)
  | rename (a b : Name)
  deriving DecidableEq, Repr

def startSteps (i : Nat) : List Sys := [.creat ⟨i, .T⟩, .creat ⟨i, .S⟩, .creat ⟨i, .T⟩]
def writeSteps (i : Nat) : List Sys := [.write ⟨i, .S⟩]
def stopSteps (i : Nat) : List Sys :=
  [.write ⟨i, .S⟩, .write ⟨i, .T⟩, .close ⟨i, .T⟩, .close ⟨i, .S⟩, .unlink ⟨i, .S⟩, .rename ⟨i, .T⟩ ⟨i, .F⟩]
def discardSteps (i : Nat) : List Sys :=
  [.write ⟨i, .S⟩, .write ⟨i, .T⟩, .close ⟨i, .T⟩, .close ⟨i, .S⟩, .unlink ⟨i, .S⟩, .unlink ⟨i, .T⟩]
def startFailSteps (i : Nat) : List Sys :=
  [.creat ⟨i, .T⟩, .creat ⟨i, .S⟩, .creat ⟨i, .T⟩,
   .write ⟨i, .S⟩, .write ⟨i, .T⟩, .close ⟨i, .T⟩, .close ⟨i, .S⟩, .unlink ⟨i, .S⟩]

/-- recorder-level operations on one directory; `i` identifies the recording (fresh per start) -/
inductive Op
  | start (i : Nat)
  | write (i : Nat)
  | stop (i : Nat)
  | discard (i : Nat)
  | startFail (i : Nat)
  deriving Repr

def Op.steps : Op → List Sys
  | .start i => startSteps i
  | .write i => writeSteps i
  | .stop i => stopSteps i
  | .discard i => discardSteps i
  | .startFail i => startFailSteps i

/-! ## Directory model -/

inductive Status
  | partialData       -- exists, content incomplete or still being written
  | complete          -- a whole recording: compressed stream finished and closed
  deriving DecidableEq, Repr

/-- directory: association list name ↦ status; `dirty` marks a complete file written to afterwards -/
structure Dir where
  files : List (Name × Status) := []
  /-- a `.cptv` name was ever created/written/overwritten in a way that is not "rename of a complete file" -/
  bad : Bool := false
  /-- T files whose compressed stream has been written and closed (ready to be renamed) -/
  sealed : List Nat := []
  deriving Repr

def Dir.has (d : Dir) (n : Name) : Bool := d.files.any (·.1 == n)
def Dir.remove (d : Dir) (n : Name) : Dir := { d with files := d.files.filter (·.1 != n) }
def Dir.put (d : Dir) (n : Name) (s : Status) : Dir := { (d.remove n) with files := (n, s) :: (d.remove n).files }

def Dir.step (d : Dir) : Sys → Dir
  | .creat n =>
    let d := if n.kind == .F then { d with bad := true } else d
    let d := if n.kind == .T then { d with sealed := d.sealed.filter (· != n.idx) } else d
    d.put n .partialData
  | .write n =>
    let d := if n.kind == .F then { d with bad := true } else d
    if n.kind == .T then { d with sealed := d.sealed.filter (· != n.idx) } else d
  | .close n => if n.kind == .T then { d with sealed := n.idx :: d.sealed } else d
  | .unlink n => d.remove n
  | .rename a b =>
    -- renaming anything but a sealed T of the same recording onto an F name is a violation
    let ok := a.kind == .T && b.kind == .F && a.idx == b.idx && d.sealed.contains a.idx && !d.has b
    let d := if b.kind == .F && !ok then { d with bad := true } else d
    (d.remove a).put b (if ok then .complete else .partialData)

def Dir.run (d : Dir) (steps : List Sys) : Dir := steps.foldl Dir.step d

/-- C10 (i): every name ending in `.cptv` is a complete recording and was never written in place -/
def Dir.ok (d : Dir) : Bool :=
  !d.bad && d.files.all fun p => if p.1.kind == .F then p.2 == .complete else true

/-! ## Start-up clean-up: `filepath.Glob(dir/"*." + cptvTempExt + "*")` then remove -/

/-- `filepath.Match` for patterns made of literal characters and `*` (no separators in names) -/
def globMatch : List Char → List Char → Bool
  | [], [] => true
  | [], _ :: _ => false
  | '*' :: ps, [] => globMatch ps []
  | '*' :: ps, c :: cs => globMatch ps (c :: cs) || globMatch ('*' :: ps) cs
  | _ :: _, [] => false
  | p :: ps, c :: cs => p == c && globMatch ps cs
termination_by p s => p.length + s.length

def suffixOf : Kind → String
  | .T => ".cptv.temp"
  | .S => ".cptv.temp.tmp"
  | .F => ".cptv"

/-- the file name of a recording with time stamp `stamp` -/
def fileName (stamp : String) (k : Kind) : String := stamp ++ suffixOf k

/-- what clean-up removes, by kind (decided by `cleanup_glob_*` in Props.C10 for all stamps) -/
def removedByCleanup (pattern : String) (stamp : String) (k : Kind) : Bool :=
  globMatch pattern.toList (fileName stamp k).toList

/-- clean-up on the directory model when the pattern removes exactly the T and S kinds -/
def Dir.cleanup (d : Dir) : Dir := { d with files := d.files.filter fun p => p.1.kind == .F }

end TR.FS
