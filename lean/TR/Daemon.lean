import TR.FS
/-!
# TR.Daemon — the recorder daemon's `runMain` above `handleConn`

`runMain` (cmd/thermal-recorder/main.go): parse the configuration (an invalid one — max-secs below min-secs — is
refused and the daemon exits before touching anything), start the service, remove from the output directory every
name the clean-up pattern matches, then serve camera connections one at a time (`FactsMain.run_main_skeleton`).
What a connection does to the directory is the pipeline model's business (`TR.Pipeline`, file level) and `TR.FS`'s
(system-call level); this module is the part around it: which names of an earlier life survive the start.
-/
namespace TR.Daemon
open TR.FS

/-- `filepath.Glob(dir/pattern)` restricted to the names of one directory -/
def removed (pattern name : String) : Bool := globMatch pattern.toList name.toList

/-- the directory listing after start-up; `none`: the daemon refused to start and nothing was touched -/
def startUp (pattern : String) (configValid : Bool) (dir : List String) : Option (List String) :=
  if configValid then some (dir.filter fun n => !removed pattern n) else none

/-- listing seen by an observer at any later time of this life as far as the OLD names are concerned: connections
only ever add names carrying fresh time stamps (`TR.C10Gen`), so the survivors of the start stay -/
def oldNamesAfter (pattern : String) (configValid : Bool) (dir : List String) : List String :=
  (startUp pattern configValid dir).getD dir

end TR.Daemon
