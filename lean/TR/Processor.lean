import TR.Ring
/-!
# TR.Processor — model of `motion/motionprocessor.go` (MotionProcessor)

Function-by-function model of `Process`, `process`, `processConstantRecorder`,
`processSnapshot`, `stopRecording`, `stopConstantRecorder`, `startRecording`,
`recordPreTriggerFrames`, `canStartWriting`, `Reset`.

* A frame is identified by its index in the stream of *accepted* (successfully parsed)
  frames: `PState.n` counts them and the ring stores that index.
* The detector's verdict (`motionDetector.Detect`) is an input (`motion`); it is modelled
  separately in `TR.Detector`.
* Every call on one of the three `recorder.Recorder` sinks is an observable `Obs.call`
  whose outcome (ok / error) is dictated by a per-event fault record — the model is total
  over all fault placements.
* `Obs.panic` marks the point where the Go code would panic on the slice expression in
  `GetHistory`; `Proofs.Processor` shows it is never emitted.
-/
namespace TR

structure PCfg where
  K : Nat            -- ring capacity: PreviewSecs*fps + TriggerFrames
  minF : Nat         -- MinSecs*fps
  maxF : Nat         -- MaxSecs*fps
  trig : Nat         -- TriggerFrames
  constOn : Bool     -- continuous recorder configured
  testLast : Nat     -- the literal in `snapshotFrames > 20`
  deriving Repr

inductive Sink | motion | const | test
  deriving DecidableEq, Repr

inductive Call
  | can                   -- CheckCanRecord
  | start                 -- StartRecording
  | write (id : Nat)      -- WriteFrame(frame with this id)
  | stop                  -- StopRecording
  deriving DecidableEq, Repr

inductive Obs
  | md | rs | re                              -- listener: MotionDetected / RecordingStarted / RecordingEnded
  | call (s : Sink) (c : Call) (ok : Bool)
  | panic
  deriving DecidableEq, Repr

/-- outcomes dictated to the environment during one event -/
structure Faults where
  win : Bool := true          -- recording window open
  can : Bool := true          -- CheckCanRecord succeeds
  mStart : Bool := true       -- motion sink StartRecording succeeds
  mWriteFail : Nat := 0       -- the k-th WriteFrame on the motion sink during this event fails (0 = none)
  mStop : Bool := true
  cStart : Bool := true
  cWrite : Bool := true
  cStop : Bool := true
  tStart : Bool := true
  tWrite : Bool := true
  tStop : Bool := true
  deriving Repr

inductive Ev
  | frame (motion : Bool) (f : Faults)     -- a raw frame that parses
  | bad (f : Faults)                       -- a raw frame the parser rejects
  | reset (f : Faults)                     -- `Reset` (camera sent "clear")
  | testReq                                -- `StartSnapshot = true`
  deriving Repr

structure PState where
  ring : Ring Nat
  n : Nat := 0                  -- accepted frames so far (= index of the frame being filled)
  isRec : Bool := false
  framesWritten : Nat := 0
  writeUntil : Nat := 0
  triggered : Nat := 0
  crFrames : Nat := 0
  startSnap : Bool := false
  snapRec : Bool := false
  snapFrames : Nat := 0

/-- content scribbled into the current slot by a parser that rejects a frame -/
def garbage : Nat := 4000000000

namespace PState

def init (c : PCfg) : PState := { ring := Ring.new c.K 0 }

abbrev R := PState × List Obs

def andThen (r : R) (f : PState → R) : R :=
  let r2 := f r.1
  (r2.1, r.2 ++ r2.2)

/-- `stopRecording` -/
def stopRecording (s : PState) (stopOk : Bool) : R :=
  if !s.isRec then (s, [])
  else ({ s with framesWritten := 0, writeUntil := 0, isRec := false, triggered := 0,
                 ring := s.ring.setAsOldest },
        [Obs.re, Obs.call .motion .stop stopOk])

/-- `recordPreTriggerFrames`: writes all but the last history entry, stops at the first
failing write (`k` counts the motion-sink writes of this event so far).  Returns the
observations, whether every write succeeded, and the updated write counter. -/
def preTrigger (failAt : Nat) : List Nat → Nat → List Obs × Bool × Nat
  | [], k => ([], true, k)
  | id :: rest, k =>
    if k + 1 = failAt then ([Obs.call .motion (.write id) false], false, k + 1)
    else
      let r := preTrigger failAt rest (k + 1)
      (Obs.call .motion (.write id) true :: r.1, r.2.1, r.2.2)

/-- `process(frame)`; the frame (id `s.n`) has already been parsed into the current slot -/
def process (c : PCfg) (s : PState) (motion : Bool) (f : Faults) : R :=
  let id := s.n
  -- detection branch; carries the number of motion-sink writes issued so far in this event
  let r1 : R × Nat :=
    if motion then
      let s := { s with triggered := s.triggered + 1 }
      if s.isRec then (({ s with writeUntil := min (s.framesWritten + c.minF) c.maxF }, [Obs.md]), 0)
      else if s.triggered < c.trig then ((s, [Obs.md]), 0)
      else if !f.win then ((s, [Obs.md]), 0)                               -- canStartWriting: window closed
      else if !f.can then ((s, [Obs.md, Obs.call .motion .can false]), 0)  -- CheckCanRecord failed
      else if !f.mStart then ((s, [Obs.md, Obs.call .motion .can true, Obs.call .motion .start false]), 0)
      else
        -- startRecording succeeded
        let s := { s with isRec := true }
        let pre := [Obs.md, Obs.call .motion .can true, Obs.call .motion .start true, Obs.rs]
        match s.ring.history with
        | none => ((s, pre ++ [Obs.panic]), 0)
        | some h =>
          let w := preTrigger f.mWriteFail h.dropLast 0
          if w.2.1 then (({ s with writeUntil := c.minF }, pre ++ w.1), w.2.2)
          else ((s, pre ++ w.1), w.2.2)        -- error returned: writeUntil keeps its value
    else (({ s with triggered := 0 }, []), 0)
  let s := r1.1.1
  let k := r1.2
  -- if recording, write the frame
  let r2 : R :=
    if s.isRec then
      ({ s with framesWritten := s.framesWritten + 1 },
       [Obs.call .motion (.write id) (decide (k + 1 ≠ f.mWriteFail))])
    else (s, [])
  let s := r2.1
  let s := { s with ring := s.ring.move }
  let r3 : R :=
    if s.isRec && decide (s.framesWritten ≥ s.writeUntil) then s.stopRecording f.mStop else (s, [])
  (r3.1, r1.1.2 ++ r2.2 ++ r3.2)

/-- `stopConstantRecorder` -/
def stopConstantRecorder (c : PCfg) (s : PState) (f : Faults) : R :=
  if !c.constOn then (s, [])
  else ({ s with crFrames := 0 }, [Obs.call .const .stop f.cStop])

/-- `processConstantRecorder(frame)` -/
def processConstantRecorder (c : PCfg) (s : PState) (id : Nat) (f : Faults) : R :=
  if !c.constOn then (s, [])
  else if s.crFrames = 0 ∧ !f.cStart then (s, [Obs.call .const .start false])
  else
    let pre := if s.crFrames = 0 then [Obs.call .const .start true] else []
    let s := { s with crFrames := s.crFrames + 1 }
    let w := [Obs.call .const (.write id) f.cWrite]
    if s.crFrames > c.maxF then ({ s with crFrames := 0 }, pre ++ w ++ [Obs.call .const .stop f.cStop])
    else (s, pre ++ w)

/-- `processSnapshot(frame)` -/
def processSnapshot (c : PCfg) (s : PState) (id : Nat) (f : Faults) : R :=
  let s := if s.startSnap && s.snapRec then { s with startSnap := false } else s
  let r1 : R × Bool :=     -- Bool: continue (false = early return)
    if s.startSnap then
      let s := { s with startSnap := false }
      if !f.tStart then ((s, [Obs.call .test .start false]), false)
      else (({ s with snapRec := true }, [Obs.call .test .start true]), true)
    else ((s, []), true)
  let s := r1.1.1
  if !r1.2 then r1.1
  else if !s.snapRec then r1.1
  else
    let s := { s with snapFrames := s.snapFrames + 1 }
    let w := [Obs.call .test (.write id) f.tWrite]
    if s.snapFrames > c.testLast then
      let s := { s with snapRec := false }
      if !f.tStop then (s, r1.1.2 ++ w ++ [Obs.call .test .stop false])
      else ({ s with snapFrames := 0 }, r1.1.2 ++ w ++ [Obs.call .test .stop true])
    else (s, r1.1.2 ++ w)

/-- `Process(rawFrame)` with a frame that parses -/
def processFrame (c : PCfg) (s : PState) (motion : Bool) (f : Faults) : R :=
  let id := s.n
  let s := { s with ring := s.ring.write id }
  let r := andThen (andThen (process c s motion f) (fun s => processConstantRecorder c s id f))
                   (fun s => processSnapshot c s id f)
  ({ r.1 with n := id + 1 }, r.2)

/-- `Process(rawFrame)` with a frame the parser rejects (it may have scribbled over the
current slot) -/
def processBad (c : PCfg) (s : PState) (f : Faults) : R :=
  let s := { s with ring := s.ring.write garbage }
  andThen (s.stopRecording f.mStop) (fun s => stopConstantRecorder c s f)

def step (c : PCfg) (s : PState) : Ev → R
  | .frame m f => processFrame c s m f
  | .bad f => processBad c s f
  | .reset f => s.stopRecording f.mStop
  | .testReq => ({ s with startSnap := true }, [])

def run (c : PCfg) : PState → List Ev → List (List Obs)
  | _, [] => []
  | s, e :: es => let r := step c s e; r.2 :: run c r.1 es

end PState
end TR
