import TR.Ring
import TR.Leptond
import TR.HandoffRoll
