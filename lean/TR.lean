import TR.Ring
import TR.Leptond
import TR.HandoffRoll
import TR.Daemon
import TR.Excess
