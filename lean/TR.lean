import TR.Ring
