import Driver.Main
