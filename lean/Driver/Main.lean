import Driver.Proto
import Driver.RingStream
open Driver

def main (args : List String) : IO UInt32 := do
  let stdin ← IO.getStdin
  let lines ← readAll stdin #[]
  let blocks := parseBlocks lines
  match args with
  | ["model", "ring"] => runModel RingStream.init RingStream.step blocks; return 0
  | ["mon", "ring"] => runMon RingStream.monInit RingStream.monStep RingStream.monFinish blocks; return 0
  | _ => IO.eprintln "usage: driver model|mon <stream>"; return 2
