import Driver.Proto
import Driver.RingStream
import Driver.ProcStream
import Driver.ThrStream
import Driver.LogStream
import Driver.DetStream
import Driver.WinStream
import Driver.FsStream
import Driver.WriterStream
import Driver.E2EStream
import Driver.ConcStream
import Driver.ParseStream
import Driver.LeptondStream
import Driver.NamesStream
import Driver.LeptondLoopStream
import Driver.DaemonStream
open Driver

def main (args : List String) : IO UInt32 := do
  match args with
  | ["model", "ring"] => runModel RingStream.init RingStream.step; return 0
  | ["mon", "ring"] => runMon RingStream.monInit RingStream.monStep RingStream.monFinish; return 0
  | ["model", "processor"] => runModel ProcStream.init ProcStream.step; return 0
  | ["mon", "processor"] => runMon ProcStream.monInit ProcStream.monStep ProcStream.monFinish; return 0
  | ["model", "throttle"] => runModel ThrStream.init ThrStream.step; return 0
  | ["mon", "throttle"] => runMon ThrStream.monInit ThrStream.monStep ThrStream.monFinish; return 0
  | ["model", "loglimiter"] => runModel LogStream.init LogStream.step; return 0
  | ["mon", "loglimiter"] => runMon LogStream.monInit LogStream.monStep LogStream.monFinish; return 0
  | ["model", "detector"] => runModel DetStream.init DetStream.step; return 0
  | ["mon", "detector"] => runMon DetStream.monInit DetStream.monStep DetStream.monFinish; return 0
  | ["model", "window"] => runModel WinStream.init WinStream.step; return 0
  | ["mon", "window"] => runMon WinStream.init WinStream.monStep WinStream.monFinish; return 0
  | ["model", "fs"] => runModel FsStream.init FsStream.step; return 0
  | ["mon", "fs"] => runMon FsStream.monInit FsStream.monStep FsStream.monFinish; return 0
  | ["model", "writer"] => runModel WriterStream.init WriterStream.step; return 0
  | ["mon", "writer"] => runMon WriterStream.monInit WriterStream.monStep WriterStream.monFinish; return 0
  | ["model", "e2e"] => runModel E2EStream.init E2EStream.step; return 0
  | ["mon", "e2e"] => runMon E2EStream.monInit E2EStream.monStep E2EStream.monFinish; return 0
  | ["model", "conc"] => runModel ConcStream.monInit ConcStream.step; return 0
  | ["mon", "conc"] => runMon ConcStream.monInit ConcStream.monStep ConcStream.monFinish; return 0
  | ["model", "parse"] => runModel ParseStream.init ParseStream.step; return 0
  | ["mon", "parse"] => runMon ParseStream.init ParseStream.monStep ParseStream.monFinish; return 0
  | ["model", "leptond"] => runModel LeptondStream.init LeptondStream.step; return 0
  | ["mon", "leptond"] => runMon LeptondStream.init LeptondStream.monStep LeptondStream.monFinish; return 0
  | ["model", "names"] => runModel NamesStream.init NamesStream.step; return 0
  | ["mon", "names"] => runMon NamesStream.init NamesStream.monStep NamesStream.monFinish; return 0
  | ["model", "leptondloop"] => runModel LeptondLoopStream.init LeptondLoopStream.step; return 0
  | ["mon", "leptondloop"] => runMon LeptondLoopStream.init LeptondLoopStream.monStep LeptondLoopStream.monFinish; return 0
  | ["model", "daemon"] => runModel DaemonStream.init DaemonStream.step; return 0
  | ["mon", "daemon"] => runMon DaemonStream.init DaemonStream.monStep DaemonStream.monFinish; return 0
  | _ => IO.eprintln "usage: driver model|mon <stream>"; return 2
