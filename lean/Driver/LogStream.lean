import TR.LogLimiter
import Driver.Proto
/-! Log limiter stream. Monitor = the property read literally over the history of arrivals. -/
namespace Driver.LogStream
open TR Driver

def kv (f : List String) (k : String) : Nat :=
  match f.find? (fun s => s.startsWith (k ++ "=")) with
  | some s => nat ((s.drop (k.length + 1)).toString)
  | none => 0

def init (f : List String) : LogLim Nat := { interval := kv f "interval" }

def step (l : LogLim Nat) (bl : Block) : LogLim Nat × List String :=
  match bl.op with
  | "m" :: t :: msg :: _ =>
    let r := l.print (nat t) (nat msg)
    (r.1, [if r.2 then s!"printed {msg}" else "suppressed"])
  | _ => (l, ["bad-op"])

/-- specification state: the last *printed* (time, message), reconstructed from the real output -/
structure MSt where
  interval : Nat
  lastPrinted : Option (Nat × Nat) := none
  arrivals : Nat := 0
  printed : Nat := 0
  suppressed : Nat := 0
  boundary : Nat := 0     -- arrivals exactly at interval-1 / interval after the last print of the same message

def monInit (f : List String) : MSt := { interval := kv f "interval" }

def monStep (m : MSt) (bl : Block) : MSt × List String :=
  match bl.op with
  | "m" :: t :: msg :: _ =>
    let now := nat t
    let id := nat msg
    -- C20: suppressed iff identical to the last printed message and < interval after that print
    let expectSuppressed := match m.lastPrinted with
      | some (tp, mp) => id == mp && decide (now - tp < m.interval)
      | none => false
    let isBoundary := match m.lastPrinted with
      | some (tp, mp) => id == mp && (now - tp + 1 == m.interval || now - tp == m.interval)
      | none => false
    let m0 := { m with arrivals := m.arrivals + 1, boundary := m.boundary + (if isBoundary then 1 else 0) }
    match bl.outs with
    | [["suppressed"]] =>
      ({ m0 with suppressed := m.suppressed + 1 },
       if expectSuppressed then [] else ["prop=C20 reason=message-lost"])
    | [["printed", got]] =>
      ({ m0 with lastPrinted := some (now, id), printed := m.printed + 1 },
       (if expectSuppressed then ["prop=C20 reason=repeat-inside-interval-printed"] else []) ++
       (if got == msg then [] else ["prop=C20 reason=printed-other-message"]))
    | _ => (m0, ["prop=C20 reason=modified-or-missing-output"])
  | _ => (m, [])

def monFinish (m : MSt) : List String :=
  [s!"STAT stream=loglimiter arrivals={m.arrivals} printed={m.printed} suppressed={m.suppressed} boundary={m.boundary} " ++
   s!"nontrivial={if m.suppressed ≥ 1 && m.printed ≥ 2 then 1 else 0}"]

end Driver.LogStream
