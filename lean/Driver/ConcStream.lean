import Driver.Proto
/-! conc stream: monitor only (which frame a concurrent snapshot returns is not deterministic);
the model side echoes nothing. -/
namespace Driver.ConcStream
open Driver

def kvN (f : List String) (k : String) : Nat :=
  match f.find? (fun s => s.startsWith (k ++ "=")) with
  | some s => nat ((s.drop (k.length + 1)).toString)
  | none => 0

structure MSt where
  cap : Nat
  snaps : Nat := 0
  races : Nat := 0

def monInit (f : List String) : MSt := { cap := kvN f "preview" * 9 + kvN f "trig" }

def step (m : MSt) (_ : Block) : MSt × List String := (m, [])

def monStep (m : MSt) (bl : Block) : MSt × List String :=
  match bl.op with
  | ["go"] =>
    let get (line key : String) : Nat :=
      match bl.outs.find? (fun o => o.head? == some line) with
      | some o => kvN o key
      | none => 0
    let torn : Nat := get "snap" "torn"
    let oor : Nat := get "snap" "outofrange"
    let nblank : Nat := get "snap" "blank"
    let whole : Nat := get "snap" "whole"
    let conn := (bl.outs.find? (fun o => o.head? == some "conn")).getD []
    let races := bl.outs.filter fun o => o.head? == some "race"
    let f1 := if torn != 0 then
      [if m.cap == 1 then "prop=C16 reason=torn-snapshot-with-ring-capacity-1" else "prop=C16 reason=torn-snapshot"] else []
    let f2 := if oor != 0 then ["prop=C16 reason=snapshot-older-than-last-completed-frame-or-from-the-future"] else []
    let f3 := if nblank != 0 then ["prop=C16 reason=blank-frame-returned-before-first-frame"] else []
    let stalled := bl.outs.any fun o => o.head? == some "stalled"
    let f4 := (if conn == ["conn", "eof", "eof"] then [] else ["prop=C16 reason=frame-loop-stalled-or-crashed"]) ++
      (if stalled then ["prop=C16 reason=service-request-stalled"] else [])
    let f5 := if get "frames" "sent" == 2 * get "frames" "lastconnprocessed" then [] else ["prop=C16 reason=frames-lost-under-concurrent-requests"]
    let f6 := races.map fun r => "prop=C16 reason=data-race-" ++ "-vs-".intercalate (r.drop 1) ++
      (if m.cap == 1 then "-with-ring-capacity-1" else "")
    let f7 := if get "poll" "stalerefusals" != 0
      then ["prop=C16 reason=snapshot-refused-as-no-new-frames-although-newer-frames-had-been-processed"] else []
    ({ m with snaps := whole, races := races.length }, f1 ++ f2 ++ f3 ++ f4 ++ f5 ++ f6 ++ f7)
  | _ => (m, [])

def monFinish (m : MSt) : List String :=
  [s!"STAT stream=conc wholesnapshots={m.snaps} racereports={m.races} nontrivial={if m.snaps ≥ 10 then 1 else 0}"]

end Driver.ConcStream
