import TR.DetSpec
import Driver.Proto
/-! Detector stream: two detectors (A, B) in lockstep; model = `TR.Det.detect` with IEEE floats;
monitors = declarative specification of C07, C08/C09 pair equalities, C09a, C15. -/
namespace Driver.DetStream
open TR Driver

def kv (f : List String) (k : String) : Nat :=
  match f.find? (fun s => s.startsWith (k ++ "=")) with
  | some s => nat ((s.drop (k.length + 1)).toString)
  | none => 0

/-- IEEE instance: `float32` weights, `float64` mean — as in motion.go -/
def maxF32 : Float32 := Float32.ofBits 0x7f7fffff

def ieee : FloatOps where
  ω := Float32
  w0 := 0
  lower := fun new w bg => decide (Float32.ofNat new - w < Float32.ofNat bg)
  bump := fun w => let w' := w + (0.1 : Float32); if w' > maxF32 then maxF32 else w'
  α := Float
  a0 := 0
  add := fun n acc px => acc + Float.ofNat px / Float.ofNat n
  trunc := fun a => a.toUInt16.toNat

def cfgOf (f : List String) : DCfg :=
  { resX := kv f "w", resY := kv f "h", edge := kv f "edge", gap := kv f "gap", useOneDiff := kv f "one" == 1,
    deltaThresh := kv f "delta", countThresh := kv f "count", tempThresh := kv f "thresh",
    threshMin := kv f "tmin", threshMax := kv f "tmax", warmerOnly := kv f "warmer" == 1,
    dynamic := kv f "dyn" == 1, previewFrames := kv f "preview", ffcPeriod := kv f "ffcns" }

def hexVal (c : Char) : Nat :=
  if c.isDigit then c.toNat - '0'.toNat else if 'a' ≤ c ∧ c ≤ 'f' then c.toNat - 'a'.toNat + 10 else 0

/-- 4 hex digits per pixel, row-major -/
def parseHex (s : String) : Array Nat := Id.run do
  let cs := s.toList.toArray
  let mut out : Array Nat := Array.mkEmpty (cs.size / 4)
  let mut i := 0
  while i + 3 < cs.size do
    out := out.push (hexVal cs[i]! * 4096 + hexVal cs[i+1]! * 256 + hexVal cs[i+2]! * 16 + hexVal cs[i+3]!)
    i := i + 4
  return out

def hexDigit (n : Nat) : Char := if n < 10 then Char.ofNat (n + 48) else Char.ofNat (n + 87)
def toHex4 (n : Nat) : String :=
  String.ofList [hexDigit (n / 4096 % 16), hexDigit (n / 256 % 16), hexDigit (n / 16 % 16), hexDigit (n % 16)]

def frameOf (w : Nat) (a : Array Nat) : Frame := fun y x => a.getD (y * w + x) 0

/-- NB: these return arrays, not closures — a definition of type `… → Frame` would be compiled
as a 5-ary function and rebuild its table on every pixel access. -/
def tabulateArr (w h : Nat) (f : Frame) : Array Nat := Id.run do
  let mut a := Array.mkEmpty (w * h)
  for y in [0:h] do
    for x in [0:w] do
      a := a.push (f y x)
  return a

def tabWArr (w h : Nat) (f : Nat → Nat → Float32) : Array Float32 := Id.run do
  let mut a := Array.mkEmpty (w * h)
  for y in [0:h] do
    for x in [0:w] do
      a := a.push (f y x)
  return a

def tabRing (w h : Nat) (r : Ring Frame) : Ring Frame :=
  let arr : Array (Array Nat) := (List.range r.size).toArray.map (fun i => tabulateArr w h (r.slots i))
  { r with slots := fun i => frameOf w (arr.getD i #[]) }

/-- rebuild every function-valued field from arrays (same functions on the coordinates in use) -/
def compact (c : DCfg) (d : Det ieee) : Det ieee :=
  let bgA := tabulateArr c.resX c.resY d.bg
  let wA := tabWArr c.resX c.resY d.weight
  let w := c.resX
  { d with floored := tabRing c.resX c.resY d.floored, diffs := tabRing c.resX c.resY d.diffs,
           bg := frameOf w bgA, weight := fun y x => wA.getD (y * w + x) 0 }

def hexOfFrame (w h : Nat) (f : Frame) : String := Id.run do
  let mut s := ""
  for y in [0:h] do
    for x in [0:w] do
      s := s ++ toHex4 (f y x)
  return s

structure St where
  cfg : DCfg
  a : Det ieee
  b : Det ieee
  pendB : Option (Int × Int × Array Nat) := none

def init (f : List String) : St := let c := cfgOf f; { cfg := c, a := Det.init ieee c, b := Det.init ieee c }

def int (s : String) : Int := s.toInt?.getD 0

def outLine (c : DCfg) (who : String) (d : Det ieee) (m : Bool) : String :=
  let bg := if c.dynamic then hexOfFrame c.resX c.resY (d.background c) else "-"
  s!"{who} {if m then 1 else 0} {d.tempThresh} {bg}"

def step (st : St) (bl : Block) : St × List String :=
  let c := st.cfg
  match bl.op with
  | ["d", ton, lf, hex] =>
    let fa := parseHex hex
    let (tb, lb, fb) := match st.pendB with
      | some p => p
      | none => (int ton, int lf, fa)
    let ra := Det.detect c st.a (frameOf c.resX fa) (Det.affectedBy c (int ton) (int lf))
    let rb := Det.detect c st.b (frameOf c.resX fb) (Det.affectedBy c tb lb)
    let a' := compact c ra.1
    let b' := compact c rb.1
    ({ st with a := a', b := b', pendB := none }, [outLine c "a" a' ra.2, outLine c "b" b' rb.2])
  | ["e", ton, lf, hex] => ({ st with pendB := some (int ton, int lf, parseHex hex) }, [])
  | ["r"] => ({ st with a := st.a.reset, b := st.b.reset }, [])
  | "x" :: _ => (st, [])
  | _ => (st, ["bad-op"])

/-! ## monitors -/

/-- what the monitor tracks per detector -/
structure DM where
  hist : Array (Array Nat) := #[]      -- frames of the current epoch
  prevAffected : Bool := false
  everAffected : Bool := false
  bgFrames : Nat := 0                  -- non-affected frames since reset (dynamic mode)
  lastThresh : Nat
  lastBg : Array Nat := #[]
  motionCount : Nat := 0

structure MSt where
  cfg : DCfg
  a : DM
  b : DM
  pendB : Option (Int × Int × Array Nat) := none
  eqC08 : Bool := false
  eqC09 : Bool := false
  frames : Nat := 0
  ffcFrames : Nat := 0
  resets : Nat := 0
  recomputes : Nat := 0
  pairChecks : Nat := 0
  specChecks : Nat := 0
  orc : Option St := none       -- the detector model in lockstep on the real inputs; dropped after the first disagreement

def monInit (f : List String) : MSt :=
  let c := cfgOf f
  { cfg := c, a := { lastThresh := c.tempThresh }, b := { lastThresh := c.tempThresh }, orc := some (init f) }

/-- the first frame on which the real detector's output differs from the model's, named after what differs and in which
regime (this also judges what the declarative monitors leave alone, e.g. verdicts after an FFC period) -/
def lockstepVerdict (c : DCfg) (who : String) (ffcOrReset paired : Bool) (exp got : List String) : List String :=
  if exp == got then [] else
  match exp, got with
  | [_, me, te, be], [_, mg, tg, bg] =>
    (if te != tg || be != bg then
       [if c.dynamic then s!"prop=C15 reason=threshold-or-background-differs-from-the-model-{who}"
        else s!"prop=C07 reason=fixed-threshold-changed-{who}"] else []) ++
    (if me != mg then
       [if ffcOrReset then s!"prop=C09 reason=verdict-differs-from-the-model-after-an-ffc-period-or-reset-{who}"
        else if c.dynamic then s!"prop=C15 reason=verdict-under-the-dynamic-threshold-differs-from-the-model-{who}"
        else s!"prop=C07 reason=verdict-differs-from-the-model-{who}"] ++
       (if paired then [s!"prop=C08 reason=verdict-differs-from-the-model-in-a-border-or-cold-pixel-pair-{who}"] else [])
     else [])
  | _, _ => [s!"prop=C07 reason=no-output-{who}"]

def px (c : DCfg) (a : Array Nat) (y x : Nat) : Nat := a.getD (y * c.resX + x) 0

/-- the epoch history as the function the TR-level specification expects -/
def histFn (c : DCfg) (h : Array (Array Nat)) : Nat → Frame := fun k => frameOf c.resX (h.getD k #[])

/-- exact interior sum of a background -/
def bgSum (c : DCfg) (bg : Array Nat) : Nat := (c.interior.map fun p => px c bg p.1 p.2).foldl (· + ·) 0

def checkOne (c : DCfg) (who : String) (m : DM) (affected : Bool) (frame : Array Nat) (out : List String) :
    DM × List String × Bool × Nat × Array Nat × Nat :=
  -- returns new monitor state, failures, motion, thresh, bg, recomputed(0/1)
  match out with
  | [_, mo, th, bgs] =>
    let motion := mo == "1"
    let thresh := nat th
    let bg := if c.dynamic then parseHex bgs else #[]
    let n := m.hist.size
    let hist := m.hist.push frame
    let ever := m.everAffected || affected
    -- C09a: never motion during the period nor on the frame after it
    let f9 := if (affected || m.prevAffected) && motion then [s!"prop=C09 reason=motion-during-or-right-after-ffc-{who}"] else []
    -- C07: fixed threshold, FFC-free so far
    let f7 := if !c.dynamic && !ever then
        (if TR.specMotion c (histFn c hist) n == motion then [] else [s!"prop=C07 reason=motion-differs-from-thresholds-{who}"]) else []
    -- C15
    let (f15, bgFrames, recomputed) :=
      if c.dynamic && !affected then
        let bgFrames := m.bgFrames + 1
        let warmer := c.interior.any fun p => decide (px c bg p.1 p.2 > px c frame p.1 p.2)
        let borderBad := (List.range c.resY).any fun y => (List.range c.resX).any fun x =>
          px c bg y x != px c bg (c.clampY y) (c.clampX x)
        let reseed := m.prevAffected || bgFrames == 1
        let notReseeded := reseed && c.interior.any fun p => px c bg p.1 p.2 != px c frame p.1 p.2
        let sum := bgSum c bg
        let np := c.numPixels
        let ex := sum / np
        let cands := [Det.clampThresh c ex, Det.clampThresh c (ex - 1), Det.clampThresh c (ex + 1)]
        let bgChanged := bg != m.lastBg
        let threshChanged := thresh != m.lastThresh
        let mustRecompute := bgChanged && decide (bgFrames > c.previewFrames)
        let badThresh := (threshChanged || mustRecompute) && !cands.contains thresh
        ((if warmer then [s!"prop=C15 reason=background-warmer-than-frame-{who}"] else []) ++
         (if borderBad then [s!"prop=C15 reason=border-not-replicated-{who}"] else []) ++
         (if notReseeded then [s!"prop=C15 reason=not-reseeded-{who}"] else []) ++
         (if badThresh then [s!"prop=C15 reason=threshold-not-bounded-mean-{who} thresh={thresh} mean={ex}"] else []),
         bgFrames, if threshChanged || mustRecompute then 1 else 0)
      else
        -- affected frame or fixed threshold: nothing may change
        ((if c.dynamic && (thresh != m.lastThresh || (m.lastBg.size > 0 && bg != m.lastBg)) then [s!"prop=C15 reason=background-updated-during-ffc-{who}"] else []) ++
         (if !c.dynamic && thresh != c.tempThresh then [s!"prop=C07 reason=fixed-threshold-changed-{who}"] else []),
         m.bgFrames, 0)
    ({ m with hist := hist, prevAffected := affected, everAffected := ever, bgFrames := bgFrames,
              lastThresh := thresh, lastBg := bg, motionCount := m.motionCount + (if motion then 1 else 0) },
     f9 ++ f7 ++ f15, motion, thresh, bg, recomputed)
  | _ => (m, [s!"prop=C07 reason=no-output-{who}"], false, 0, #[], 0)

def monStep (m : MSt) (bl : Block) : MSt × List String :=
  let c := m.cfg
  match bl.op with
  | ["d", ton, lf, hex] =>
    let fa := parseHex hex
    let (tb, lb, fb) := match m.pendB with
      | some p => p
      | none => (int ton, int lf, fa)
    let oa := (bl.outs.find? (fun o => o.head? == some "a")).getD []
    let ob := (bl.outs.find? (fun o => o.head? == some "b")).getD []
    let panics := bl.outs.filter (fun o => o.head? == some "panic")
    let (a', fa', ma, ta, bga, ra) := checkOne c "a" m.a (Det.affectedBy c (int ton) (int lf)) fa oa
    let (b', fb', mb, tb', bgb, rb) := checkOne c "b" m.b (Det.affectedBy c tb lb) fb ob
    let interiorEq := c.interior.all fun p => px c bga p.1 p.2 == px c bgb p.1 p.2
    let f8 := if m.eqC08 && (ma != mb || ta != tb' || !interiorEq) then ["prop=C08 reason=paired-streams-diverge"] else []
    let f9 := if m.eqC09 && ma != mb then
        [if c.dynamic && m.resets > 0 then "prop=C09 reason=result-depends-on-frames-before-ffc-dynamic-threshold-kept-across-reset"
         else "prop=C09 reason=result-depends-on-frames-before-ffc-or-reset"] else []
    let fp := if panics.isEmpty then [] else ["prop=C07 reason=panic"]
    -- C14: a camera reset (the clear marker) restarts detection — with a fixed threshold the verdicts after it must not
    -- depend on what came before (the dynamic-threshold case is known finding F7 and reported under C09 only)
    let f14 := if m.eqC09 && ma != mb && m.resets > 0 && !c.dynamic
      then ["prop=C14 reason=detection-after-a-camera-reset-depends-on-frames-before-it"] else []
    let (orc, fo) : Option St × List String := match m.orc with
      | none => (none, [])
      | some st =>
        let (st', exp) := step st bl
        let ex (w : String) := ((exp.map fields).find? (fun o => o.head? == some w)).getD []
        let fr := m.a.everAffected || m.b.everAffected || m.resets > 0 ||
                  Det.affectedBy c (int ton) (int lf) || Det.affectedBy c tb lb
        let v := lockstepVerdict c "a" fr m.eqC08 (ex "a") oa ++ lockstepVerdict c "b" fr m.eqC08 (ex "b") ob
        (if v.isEmpty then some st' else none, v)
    ({ m with a := a', b := b', pendB := none, orc := orc, frames := m.frames + 1,
              ffcFrames := m.ffcFrames + (if Det.affectedBy c (int ton) (int lf) then 1 else 0),
              recomputes := m.recomputes + ra + rb,
              pairChecks := m.pairChecks + (if m.eqC08 || m.eqC09 then 1 else 0),
              specChecks := m.specChecks + (if !c.dynamic && !a'.everAffected then 1 else 0) },
     fa' ++ fb' ++ f8 ++ f9 ++ fp ++ fo ++ f14)
  | ["e", ton, lf, hex] =>
    ({ m with pendB := some (int ton, int lf, parseHex hex), orc := m.orc.map fun st => (step st bl).1 }, [])
  | ["r"] =>
    ({ m with a := { m.a with hist := #[], bgFrames := 0 }, b := { m.b with hist := #[], bgFrames := 0 },
              resets := m.resets + 1, orc := m.orc.map fun st => (step st bl).1 }, [])
  | ["x", "C08", v] => ({ m with eqC08 := v == "1" }, [])
  | ["x", "C09", v] => ({ m with eqC09 := v == "1" }, [])
  | _ => (m, [])

def monFinish (m : MSt) : List String :=
  [s!"STAT stream=detector frames={m.frames} motionA={m.a.motionCount} ffcframes={m.ffcFrames} resets={m.resets} " ++
   s!"threshrecomputes={m.recomputes} pairchecks={m.pairChecks} specchecks={m.specChecks} " ++
   s!"nontrivial={if m.a.motionCount ≥ 1 && m.a.motionCount < m.frames then 1 else 0}"]

end Driver.DetStream
