import TR.Pipeline
import TR.Yaml
import Generated.Facts
import Driver.Proto
import Driver.DetStream
import Driver.WriterStream
/-! e2e stream: config + socket bytes → files (C11, and the file-level side of C05/C13/C14/C15/C17). -/
namespace Driver.E2EStream
open TR Driver

def kvS (f : List String) (k : String) : String :=
  match f.find? (fun s => s.startsWith (k ++ "=")) with
  | some s => (s.drop (k.length + 1)).toString
  | none => ""
def kvN (f : List String) (k : String) : Nat := nat (kvS f k)

structure St where
  f : List String                     -- the case line fields (structured settings)
  bytes : Array Nat := #[]            -- bytes of the current connection
  reqOffsets : List Nat := []         -- byte offsets at which a test recording was requested (reversed)
  wins : List (Nat × Bool) := []      -- byte offsets at which the recording window opened / closed (reversed)
  prev : List (Array Nat × List Nat × List (Nat × Bool)) := []   -- earlier connections of this case (reversed)
  dead : Bool := false

def init (f : List String) : St := { f := f }

def hexStr (s : String) : String := WriterStream.toHex (WriterStream.strBytes s)

structure Hdr where
  resx : Nat
  resy : Nat
  fps : Nat
  fsize : Nat
  brand : String
  model : String
  serial : Nat
  firmware : String

def hdrOf (text : List Nat) : Hdr :=
  let m := Yaml.parse (String.fromUTF8! (ByteArray.mk (text.toArray.map (·.toUInt8))))
  { resx := Yaml.getInt m "ResX", resy := Yaml.getInt m "ResY", fps := Yaml.getInt m "FPS",
    fsize := Yaml.getInt m "FrameSize", brand := Yaml.getStr m "Brand", model := Yaml.getStr m "Model",
    serial := Yaml.getInt m "CameraSerial", firmware := Yaml.getStr m "Firmware" }

/-- go-config's `DefaultThermalMotion(model)`: used when config.toml has no [thermal-motion] section -/
def motionKv (f : List String) (model : String) : List String :=
  if kvN f "motiondefaults" == 1 then
    (if model == "lepton3.5" then ["thresh=28000", "delta=200"] else ["thresh=2900", "delta=50"]) ++
    ["dyn=1", "tmin=0", "tmax=0", "count=3", "gap=45", "one=1", "trig=2", "warmer=1", "edge=1", "verbose=0"] ++
    f.filter fun s => !(["thresh=", "delta=", "dyn=", "tmin=", "tmax=", "count=", "gap=", "one=", "trig=", "warmer=", "edge=", "verbose="].any (s.startsWith ·))
  else f

def cfgOf (f0 : List String) (h : Hdr) : PipeCfg :=
  let f := motionKv f0 h.model
  let det : DCfg :=
    { resX := h.resx, resY := h.resy, edge := kvN f "edge", gap := kvN f "gap", useOneDiff := kvN f "one" == 1,
      deltaThresh := kvN f "delta", countThresh := kvN f "count", tempThresh := kvN f "thresh",
      threshMin := kvN f "tmin", threshMax := kvN f "tmax", warmerOnly := kvN f "warmer" == 1,
      dynamic := kvN f "dyn" == 1, previewFrames := kvN f "preview" * h.fps, ffcPeriod := Facts.ffcPeriodNs }
  let proc : PCfg :=
    { K := kvN f "preview" * h.fps + kvN f "trig", minF := kvN f "min" * h.fps, maxF := kvN f "max" * h.fps,
      trig := kvN f "trig", constOn := kvN f "const" == 1, testLast := Facts.testRecLast }
  { det := det, proc := proc, fps := h.fps, lepton := h.model == "lepton3" || h.model == "lepton3.5",
    windowOpen := kvN f "windowset" == 0 || kvN f "window" == 1, diskOk := kvN f "disk" == 1,
    throttle := kvN f "throttle" == 1, bucketFrames := kvN f "bucketsecs" * h.fps,
    minLenFrames := (kvN f "min" + kvN f "preview") * h.fps }

def motionYaml (f0 : List String) (model : String) (thresh : Nat) : String :=
  let f := motionKv f0 model
  let b (k : String) : String := if kvN f k == 1 then "true" else "false"
  s!"dynamicthreshold: {b "dyn"}\ntempthreshmin: {kvN f "tmin"}\ntempthreshmax: {kvN f "tmax"}\ntempthresh: {kvN f "thresh"}\n" ++
  s!"deltathresh: {kvN f "delta"}\ncountthresh: {kvN f "count"}\nframecomparegap: {kvN f "gap"}\nuseonediffonly: {b "one"}\n" ++
  s!"triggerframes: {kvN f "trig"}\nwarmeronly: {b "warmer"}\nedgepixels: {kvN f "edge"}\nverbose: {b "verbose"}\ntriggeredthresh: {thresh}\n"

/-- float32 bits of `(centiK − 27315)/100` computed in float64, as lepton3 + go-cptv do -/
def tempBits (ck : Nat) : Nat :=
  ((Float.ofInt ((ck : Int) - 27315)) / 100).toFloat32.toBits.toNat

/-- compact the pipeline's function-valued fields (see DetStream.compact) -/
def compactPipe (c : PipeCfg) (p : Pipe DetStream.ieee) : Pipe DetStream.ieee :=
  let ring := p.proc.ring
  let arr := (List.range ring.size).toArray.map ring.slots
  { p with det := DetStream.compact c.det p.det,
           proc := { p.proc with ring := { ring with slots := fun i => arr.getD i 0 } } }

structure Frz where           -- an accepted frame frozen into arrays
  pix : Array Nat
  tel : Parse.Telemetry

/-- run all items; test requests take effect before the first item that ends after their offset -/
def runItems (c0 : PipeCfg) (items : List Socket.Item) (reqs : List Nat) (wins : List (Nat × Bool)) (fsize : Nat) :
    Pipe DetStream.ieee × Array Frz × Array (Array Nat) := Id.run do
  let mut c := c0
  let mut pendingW := wins
  let mut p := Pipe.init DetStream.ieee c
  let mut pos := 0
  let mut pending := reqs
  let mut frozen : Array Frz := #[]
  let mut bgs : Array (Array Nat) := #[]       -- background snapshot per started file, in start order
  for it in items do
    let endPos := pos + (match it with | .clear => 5 | .frame _ => fsize)
    -- the recording window opens / closes (the clock passes a boundary) before the first item that ends after the change
    let dueW := pendingW.filter (·.1 < endPos)
    match dueW.getLast? with
    | some (_, v) =>
      c := { c with windowOpen := v }
      pendingW := pendingW.filter (·.1 ≥ endPos)
    | none => pure ()
    let due := pending.filter (· < endPos)
    if !due.isEmpty then
      p := Pipe.testRequest c p
      pending := pending.filter (· ≥ endPos)
    let nAcc := p.accepted.length
    let nFiles := p.files.length
    p := Pipe.item c p it
    -- freeze newly accepted frame and newly started files' backgrounds (closures → arrays)
    if p.accepted.length > nAcc then
      match p.accepted.head? with
      | some a => frozen := frozen.push { pix := DetStream.tabulateArr c.det.resX c.det.resY a.pix, tel := a.tel }
      | none => pure ()
    let started := p.files.length - nFiles
    for k in [0:started] do
      -- files are stored newest first: the k-th oldest of the new ones is at index started-1-k
      match p.files[started - 1 - k]? with
      | some fl => bgs := bgs.push (DetStream.tabulateArr c.det.resX c.det.resY fl.bg)
      | none => pure ()
    p := compactPipe c p
    p := { p with accepted := p.accepted.map fun a => { a with pix := fun _ _ => 0 },
                  files := p.files.map fun fl => { fl with bg := fun _ _ => 0 } }
    pos := endPos
  return (p, frozen, bgs)

def pixHex (a : Array Nat) : String := String.join (a.toList.map DetStream.toHex4)

def fileLines (f : List String) (h : Hdr) (label : String) (k : Nat) (fl : RecFile) (bg : Array Nat)
    (frozen : Array Frz) (lepton : Bool) : List String :=
  let hasBg := true
  let nframes := fl.frames.length + 1
  let head := s!"file {label} {k} device={kvS f "devname"} id={kvN f "devid"} serial={h.serial % 4294967296} firmware={hexStr h.firmware} " ++
    s!"brand={hexStr h.brand} model={hexStr h.model} fps={h.fps} preview={kvN f "preview"} lat={kvN f "lat"} lon={kvN f "lon"} " ++
    s!"alt={kvN f "alt"} acc={kvN f "acc"} resx={h.resx} resy={h.resy} hasbg={hasBg} nframes={nframes} motion={hexStr (motionYaml f h.model fl.thresh)}"
  let bgLine := s!"fr {label} {k} 0 bg=1 ton=0 lffc=0 t=0 tl=0 pix={pixHex bg}"
  let frames := (List.range fl.frames.length).zip fl.frames |>.map fun (i, id) =>
    match frozen[id]? with
    | some z =>
      let (t, tl) := if lepton then (tempBits z.tel.fpaTempCK, tempBits z.tel.fpaTempLastFFCCK) else (0, 0)
      s!"fr {label} {k} {i + 1} bg=0 ton={z.tel.timeOnMs} lffc={z.tel.lastFFCMs} t={t} tl={tl} pix={pixHex z.pix}"
    | none => s!"fr {label} {k} {i + 1} missing"
  head :: bgLine :: frames

structure ConnOut where
  lines : List String                 -- conn / header lines
  mainFiles : List (List String → Nat → List String)    -- given (label, k) produce lines
  constFiles : List (List String → Nat → List String)
  unfinishedMain : Nat
  unfinishedConst : Nat

/-- one camera connection: how it ends, the camera it announced, the finished files it leaves -/
def runConn (f : List String) (bytes : Array Nat) (reqOffsets : List Nat) (wins : List (Nat × Bool) := []) : ConnOut :=
  match Socket.readHeader bytes.toList with
  | none => { lines := ["conn header-error true", "badreports 0", "header none"], mainFiles := [], constFiles := [],
              unfinishedMain := 0, unfinishedConst := 0 }
  | some (text, rest) =>
    let h := hdrOf text
    let hdrLine := s!"header resx={h.resx} resy={h.resy} fps={h.fps} framesize={h.fsize} brand={hexStr h.brand} " ++
      s!"model={hexStr h.model} serial={h.serial} firmware={hexStr h.firmware}"
    -- `frameParser` (regenerated fact `Facts.frameParserMap`, `Props.FactsWiring.frame_parser_selection`): flir lepton3 /
    -- lepton3.5 / boson; for any other camera the connection is refused after the header and nothing is recorded
    if !(h.brand == "flir" && (h.model == "lepton3" || h.model == "lepton3.5" || h.model == "boson")) then
      { lines := ["conn error", "badreports 0", hdrLine], mainFiles := [], constFiles := [], unfinishedMain := 0, unfinishedConst := 0 }
    else
    let c := cfgOf f h
    let (items, ending) := Socket.parseFrames h.fsize (rest.length + 2) rest
    let hdrLen := bytes.size - rest.length
    let reqs := reqOffsets.reverse.map (· - hdrLen)
    let winsRel := if kvN f "windowset" != 0 then wins.reverse.map (fun (o, v) => (o - hdrLen, v)) else []
    let (p, frozen, bgs) := runItems c items reqs winsRel h.fsize
    let files := p.files.reverse
    let idx := (List.range files.length).zip files
    let sel (pred : RecFile → Bool) := idx.filter fun (_, fl) => pred fl
    let mainDone := sel fun fl => fl.kind != .const && fl.closed
    let constDone := sel fun fl => fl.kind == .const && fl.closed
    let testOpen := (sel fun fl => fl.kind == .test && !fl.closed).length
    let constOpen := (sel fun fl => fl.kind == .const && !fl.closed).length
    let conn := match ending with | .eofAtBoundary => "conn eof" | .truncated => "conn truncated"
    { lines := [conn, s!"badreports {p.badFrames}", hdrLine],
      mainFiles := mainDone.map fun (i, fl) => fun lab k => fileLines f h (lab.headD "main") k fl (bgs.getD i #[]) frozen c.lepton,
      constFiles := constDone.map fun (i, fl) => fun lab k => fileLines f h (lab.headD "const") k fl (bgs.getD i #[]) frozen c.lepton,
      unfinishedMain := 2 * testOpen, unfinishedConst := 2 * constOpen }

/-- the whole case: every connection in order; files of all connections accumulate in the output directory -/
def finish (st : St) : List String :=
  let conns := (st.prev.reverse ++ [(st.bytes, st.reqOffsets, st.wins)]).map fun (b, r, wn) => runConn st.f b r wn
  let last := conns.getLast?.map (·.lines) |>.getD []
  let mains := conns.flatMap (·.mainFiles)
  let consts := conns.flatMap (·.constFiles)
  let um := (conns.map (·.unfinishedMain)).foldl (· + ·) 0
  let uc := (conns.map (·.unfinishedConst)).foldl (· + ·) 0
  last ++ [s!"dir main finished={mains.length} unfinished={um}"] ++
  ((List.range mains.length).zip mains).flatMap (fun (k, g) => g ["main"] k) ++
  [s!"dir const finished={consts.length} unfinished={uc}"] ++
  ((List.range consts.length).zip consts).flatMap (fun (k, g) => g ["const"] k)

/-- the daemon refused the configuration (`ParseConfig` returned an error): nothing else happens in the case -/
def configRejected (st : St) : Bool := st.f.getLast? == some "error"

def step (st : St) (bl : Block) : St × List String :=
  if configRejected st then (st, []) else
  match bl.op with
  | ["b", _, hex] => ({ st with bytes := st.bytes ++ WriterStream.parseHexBytes hex }, [])
  | ["t"] => ({ st with reqOffsets := st.bytes.size :: st.reqOffsets }, [])
  | ["win", v] => ({ st with wins := (st.bytes.size, v == "1") :: st.wins }, [])
  | ["n"] =>
    let out := (runConn st.f st.bytes st.reqOffsets st.wins).lines
    ({ st with prev := (st.bytes, st.reqOffsets, st.wins) :: st.prev, bytes := #[], reqOffsets := [], wins := [] }, out)
  | ["end"] => (st, finish st)
  | _ => (st, ["bad-op"])

/-- the model's case line output -/
def caseOut : List String := ["config ok"]

/-! monitor: C11/C14/C13/C17 at file level = the decoded files equal what the composed model says.
The monitor re-runs the model on the inputs and compares the decoded content line by line, attributing a
difference to the property that speaks about that part. -/
structure MSt where
  st : St
  files : Nat := 0
  frames : Nat := 0
  items : Nat := 0
  sawPanic : Bool := false     -- the daemon panicked while bytes were being sent (reported in a `b` block)

def monInit (f : List String) : MSt := { st := init f }

def classify (exp got : List String) : String :=
  match exp, got with
  | "conn" :: _, _ => "prop=C14 reason=connection-end-differs"
  | "header" :: _, _ => "prop=C14 reason=camera-header-differs"
  | "badreports" :: _, _ => "prop=C13 reason=number-of-bad-frames-reported-to-the-operator-differs"
  | "dir" :: _, _ => "prop=C11 reason=set-of-finished-files-differs"
  | "file" :: _, _ => "prop=C11 reason=file-header-differs"
  | "fr" :: _, _ => "prop=C11 reason=frame-content-or-telemetry-differs"
  | _, _ => "prop=C11 reason=output-differs"

def setKv (f : List String) (k v : String) : List String :=
  f.map fun s => if s.startsWith (k ++ "=") then k ++ "=" ++ v else s

/-- counterfactual configurations of the two start gates (C04): if the real files equal what the model
produces with a gate forced the other way, the difference is the gate's -/
def gateVariants (f : List String) : List (String × List String) :=
  [("window-were-open", setKv f "windowset" "0"),
   ("window-were-closed", setKv (setKv f "windowset" "1") "window" "0"),
   ("disk-check-passed", setKv f "disk" "1"),
   ("disk-check-failed", setKv f "disk" "0")]

def monStep' (m0 : MSt) (bl : Block) : MSt × List String :=
  let m := { m0 with sawPanic := m0.sawPanic || bl.outs.any (fun l => l == ["conn", "panic"]) }
  let (st', _) := step m.st bl
  match bl.op with
  | ["end"] =>
    let exp := (finish m.st).map fields
    let got := bl.outs
    let rec firstDiff : List (List String) → List (List String) → Option (List String × List String)
      | [], [] => none
      | e :: _, [] => some (e, [])
      | [], g :: _ => some ([], g)
      | e :: es, g :: gs => if e == g then firstDiff es gs else some (e, g)
    let nfiles := (got.filter fun o => o.head? == some "file").length
    let nfr := (got.filter fun o => o.head? == some "fr").length
    let m' := { m with st := st', files := nfiles, frames := nfr }
    match firstDiff exp got with
    | none => (m', [])
    | some (e, g) =>
      let c := classify (if e.isEmpty then g else e) g
      -- with the throttle on, what reaches storage is decided by the bucket size and the minimum clip
      -- length (min-secs + preview-secs) the daemon hands to the throttle: a difference is C05's as well
      let thr := if kvN m.st.f "throttle" == 1 && (!c.startsWith "prop=C14" || m.sawPanic)
        then ["prop=C05 reason=throttled-recordings-differ-from-bucket-and-minimum-length-formulas",
              "prop=C06 reason=throttled-recordings-differ-from-bucket-and-minimum-length-formulas"] else []
      let c04 := (gateVariants m.st.f).filterMap fun (nm, f') =>
        if f' != m.st.f && (finish { m.st with f := f' }).map fields == got
        then some s!"prop=C04 reason=recordings-are-those-expected-if-{nm}" else none
      -- the continuous recorder's files (C17) / a test recording's file count (main directory holds both kinds)
      let e' := if e.isEmpty then g else e
      let c17 := if e'.getD 1 "" == "const" then ["prop=C17 reason=continuous-recording-files-differ-from-the-tiling-of-the-stream"] else []
      -- C15: what is stored with a recording (threshold in the header's motion settings, background frame) must be the
      -- detector's at the trigger
      let c15 := if (e'.headD "" == "file" && g.length == e'.length &&
                      ((e'.zip g).filter fun (a, b) => a != b).all fun (a, _) => a.startsWith "motion=")
                    || (e'.headD "" == "fr" && e'.contains "bg=1")
        then ["prop=C15 reason=threshold-or-background-stored-with-the-recording-is-not-the-one-in-force-at-its-trigger"] else []
      -- C10: temporary files left in the output directory when the connection has ended (the model knows which: an
      -- unfinished test / continuous recording stays until the next start-up, a motion recording is discarded)
      let unf (l : List String) := l.filter (·.startsWith "unfinished=")
      let c10 := if e'.headD "" == "dir" && g.headD "" == "dir" && unf e' != unf g &&
                    e'.filter (·.startsWith "finished=") == g.filter (·.startsWith "finished=")
        then ["prop=C10 reason=temporary-files-left-behind-differ-after-the-connection-ended"] else []
      -- C12: the frame loop must survive everything (a panic inside handleConn ends the connection abnormally)
      let c12 := if m.sawPanic then
          ["prop=C12 reason=frame-processing-panicked"] ++
          (if m.st.reqOffsets.isEmpty && m.st.prev.all (fun c => c.2.1.isEmpty) then []
           else ["prop=C16 reason=frame-processing-crashed-in-a-connection-with-a-test-recording-request"])
        else []
      -- C17: a test recording is one file of testLast+1 frames (plus the background frame the file starts with)
      let testN := s!"nframes={Facts.testRecLast + 2}"
      let cnt (ls : List (List String)) := (ls.filter fun l => l.take 2 == ["file", "main"] && l.contains testN).length
      let c17t := if cnt exp != cnt got then ["prop=C17 reason=test-recording-file-of-21-frames-missing-or-of-another-length"] else []
      (m', c :: thr ++ c04 ++ c17 ++ c15 ++ c10 ++ c12 ++ c17t)
  | ["n"] =>
    let exp := ((runConn m.st.f m.st.bytes m.st.reqOffsets m.st.wins).lines).map fields
    if exp == bl.outs then ({ m with st := st' }, [])
    else ({ m with st := st' }, [classify (exp.headD []) []] ++
            (if bl.outs.any (fun l => l == ["conn", "panic"]) then ["prop=C12 reason=frame-processing-panicked"] else []))
  | _ => ({ m with st := st' }, [])

/-- the daemon stopped taking bytes or never finished the connection: the pipeline stalled (C16: "a request never
corrupts or stalls the recording pipeline"; C12: processing goes on after any failure; C14: an error rather than a hang) -/
def stallFails (bl : Block) : List String :=
  if bl.outs.any (fun l => l == ["conn", "hang"]) then
    ["prop=C16 reason=recording-pipeline-stalled", "prop=C12 reason=frame-processing-stalled", "prop=C14 reason=connection-hangs"]
  else []

def monStep (m : MSt) (bl : Block) : MSt × List String :=
  -- recorder.NewConfig: a configuration is refused exactly when max-secs < min-secs (C03's premise min <= max)
  let cfgFail : List String :=
    if m.items != 0 then [] else
    let invalid := kvN m.st.f "max" < kvN m.st.f "min"
    if configRejected m.st && !invalid then ["prop=C11 reason=valid-configuration-refused"]
    else if !configRejected m.st && invalid then ["prop=C03 reason=configuration-with-max-secs-below-min-secs-accepted"]
    else []
  let m := { m with items := m.items + 1 }
  if configRejected m.st then (m, cfgFail) else
  let (m, fl) := monStep' m bl
  (m, cfgFail ++ fl ++ stallFails bl)

def monFinish (m : MSt) : List String :=
  [s!"STAT stream=e2e files={m.files} decodedframes={m.frames} bytes={m.st.bytes.size} testrequests={m.st.reqOffsets.length} " ++
   s!"nontrivial={if m.files ≥ 1 then 1 else 0}"]

end Driver.E2EStream
