import TR.Window
import Driver.Proto
/-! Window stream: model = `TR.Window.active`; monitor = the cyclic-interval reading of C04. -/
namespace Driver.WinStream
open TR.Window Driver

structure St where
  s : Nat
  e : Nat
  checks : Nat := 0
  boundary : Nat := 0
  actives : Nat := 0

def minuteNs : Nat := 60 * 1000000000

def init (f : List String) : St := { s := nat (f.getD 2 "0") * minuteNs, e := nat (f.getD 3 "0") * minuteNs }

def step (st : St) (bl : Block) : St × List String :=
  match bl.op with
  | ["a", _, ns] => (st, [s!"active {if active st.s st.e (nat ns) then 1 else 0}"])
  | _ => (st, ["bad-op"])

/-- C04 read literally: open iff no window or time of day in [start, stop) cyclically -/
def specOpen (s e t : Nat) : Bool :=
  if s = e then true else if s < e then decide (s ≤ t ∧ t < e) else decide (s ≤ t ∨ t < e)

def monStep (st : St) (bl : Block) : St × List String :=
  match bl.op with
  | ["a", _, ns] =>
    let t := nat ns
    let exp := specOpen st.s st.e t
    let isB := t == st.s || t == st.e || t + 1 == st.s || t + 1 == st.e
    let st' := { st with checks := st.checks + 1, boundary := st.boundary + (if isB then 1 else 0),
                         actives := st.actives + (if exp then 1 else 0) }
    match bl.outs with
    | [["active", v]] =>
      if (v == "1") == exp then (st', []) else (st', [s!"prop=C04 reason=window-open-state-wrong expected={exp} tod={t}"])
    | _ => (st', ["prop=C04 reason=window-no-output"])
  | _ => (st, [])

def monFinish (st : St) : List String :=
  [s!"STAT stream=window checks={st.checks} boundary={st.boundary} open={st.actives} " ++
   s!"nontrivial={if st.actives ≥ 1 && st.actives < st.checks then 1 else 0}"]

end Driver.WinStream
