import TR.Socket
import TR.Leptond
import Driver.Proto
import Driver.E2EStream
/-! leptondloop stream: the camera daemon's real `runMain` / `runCamera` loop on a scripted camera.  What arrives on
the frame socket, read the way the recorder reads it (`TR.Socket.readHeader`, `TR.Socket.parseFrames`), must be:
one camera header, then exactly the frames the camera delivered, in order, with one `clear` marker per camera
restart and nothing else (C14: "both daemons agree", "without ever losing frame alignment"). -/
namespace Driver.LeptondLoopStream
open TR Driver
open Driver.E2EStream (kvS hdrOf)

structure St where
  script : List String
  runs : Nat := 0
  restarts : Nat := 0
  frames : Nat := 0

def init (f : List String) : St := { script := (kvS f "script").splitOn "," }

/-- what the recorder must see for a script: `f<k>` frames by counter, `c` markers, the end-of-script frame -/
def expected (script : List String) : List String :=
  let r := script.foldl (fun (acc : List String × Nat) s =>
    let (out, k) := acc
    if s == "fail" then (out ++ ["c"], k)                      -- frame timeout: camera restarted, marker sent
    else if s == "reset" then (out ++ ["c"], k + 1)            -- restart requested: the frame just read is dropped
    else if s.startsWith "f" then
      let n := nat ((s.drop 1).toString)
      (out ++ (List.range n).map (fun i => s!"f{k + i + 1}"), k + n)
    else (out, k)) ([], 0)
  r.1 ++ ["fend"]

/-- the scripted camera's frame with counter `c` (as the fake lepton3 package fills it) -/
def frameBytes (c : Nat) (n : Nat := 328) : List Nat :=
  [c / 16777216 % 256, c / 65536 % 256, c / 256 % 256, c % 256] ++ (List.range (n - 4)).map fun j => (c * 7 + (j + 4)) % 251

/-- the camera history of a script, as events of the daemon model `TR.Leptond` (ending with the end-of-script frame) -/
def camEvents (script : List String) : List Leptond.CamEv :=
  let r := script.foldl (fun (acc : List Leptond.CamEv × Nat) s =>
    let (out, k) := acc
    if s == "fail" then (out ++ [.timeout], k)
    else if s == "reset" then (out ++ [.resetRequested (frameBytes (k + 1))], k + 1)
    else if s.startsWith "f" then
      let n := nat ((s.drop 1).toString)
      (out ++ (List.range n).map (fun i => Leptond.CamEv.frame (frameBytes (k + i + 1))), k + n)
    else (out, k)) ([], 0)
  r.1 ++ [.frame (frameBytes 4294967295)]

def frameName (bytes : List Nat) : String :=
  let c := bytes.getD 0 0 * 16777216 + bytes.getD 1 0 * 65536 + bytes.getD 2 0 * 256 + bytes.getD 3 0
  let okPattern := ((List.range bytes.length).drop 4).all fun j => bytes.getD j 0 == (c * 7 + j) % 251
  if c == 4294967295 then "fend" else if okPattern then s!"f{c}" else s!"f{c}!corrupt"

def seen (hex : String) : Option (List String × Bool) :=
  match Socket.readHeader (WriterStream.parseHexBytes hex).toList with
  | none => none
  | some (text, rest) =>
    let h := hdrOf text
    let (items, ending) := Socket.parseFrames h.fsize (rest.length + 2) rest
    some (items.map (fun it => match it with | .clear => "c" | .frame b => frameName b), ending == .eofAtBoundary)

def step (st : St) (bl : Block) : St × List String :=
  match bl.op with
  | ["go"] =>
    -- the bytes are an observation (echoed); the monitor reads them with the recorder's reader
    (st, ["daemon returned"] ++ (bl.outs.filter fun o => o.head? == some "stream").map joinSp)
  | _ => (st, ["bad-op"])

def monStep (st : St) (bl : Block) : St × List String :=
  match bl.op with
  | ["go"] =>
    let exp := expected st.script
    let st' := { st with runs := st.runs + 1, restarts := st.restarts + (exp.filter (· == "c")).length,
                         frames := st.frames + (exp.filter (·.startsWith "f")).length }
    let f0 := if bl.outs.contains ["daemon", "returned"] then [] else ["prop=C14 reason=camera-daemon-loop-crashed-or-hung"]
    match bl.outs.find? (fun o => o.head? == some "stream") with
    | some ["stream", hex] =>
      match seen hex with
      | none => (st', f0 ++ ["prop=C14 reason=no-camera-header-on-the-frame-socket"])
      | some (got, clean) =>
        -- byte for byte against the daemon model: after the header, exactly `encode (sent events)`
        let body := match Socket.readHeader (WriterStream.parseHexBytes hex).toList with
          | some (_, rest) => rest
          | none => []
        let fm := if body == Socket.encode (Leptond.sent (camEvents st.script)) then []
          else ["prop=C14 reason=bytes-on-the-frame-socket-differ-from-the-camera-daemon-model"]
        (st', f0 ++ fm ++ (if got == exp then [] else
                  [s!"prop=C14 reason=recorder-would-read-{"-".intercalate (got.take 12)}-instead-of-{"-".intercalate (exp.take 12)}"]) ++
              (if clean then [] else ["prop=C14 reason=stream-ends-inside-a-frame-or-marker"]))
    | _ => (st', f0 ++ ["prop=C14 reason=nothing-written-to-the-frame-socket"])
  | _ => (st, [])

def monFinish (st : St) : List String :=
  [s!"STAT stream=leptondloop runs={st.runs} restarts={st.restarts} frames={st.frames} nontrivial={if st.restarts ≥ 1 then 1 else 0}"]

end Driver.LeptondLoopStream
