import TR.Socket
import TR.Yaml
import Driver.Proto
import Driver.E2EStream
/-! leptond stream: the camera daemon's `sendCameraSpecs` (real code, fake CCI registers) read back by the
recorder's `ReadHeaderInfo`.  Model: what the recorder must understand = what the camera is
(resolution / frame size / fps / brand are those of a Lepton 3.x; model from the OEM part number; 64-bit
serial; firmware a.b.c).  Monitor: the same comparison, and the Lean header/YAML decoder (`TR.Socket.readHeader`,
`TR.Yaml`) applied to the real header bytes gives the same fields. -/
namespace Driver.LeptondStream
open TR Driver
open Driver.E2EStream (kvS kvN hexStr hdrOf Hdr)

structure St where
  f : List String
  specs : Nat := 0
  big : Nat := 0

def init (f : List String) : St := { f := f }

def partOf (f : List String) : String :=
  String.fromUTF8! (ByteArray.mk ((WriterStream.parseHexBytes (kvS f "part")).map (·.toUInt8)))

/-- lepton3.GetModel: 500-0771-01 is a Lepton 3.5, everything else is reported as a Lepton 3 -/
def modelOf (f : List String) : String := if partOf f == "500-0771-01" then "lepton3.5" else "lepton3"

def expected (f : List String) : String :=
  let serial := if kvN f "noserial" == 1 then 0 else kvN f "serial"
  let fw := if kvN f "nofw" == 1 then "0.0.0" else kvS f "fw"
  s!"parsed resx=160 resy=120 fps=9 framesize=39040 brand={hexStr "flir"} model={hexStr (modelOf f)} serial={serial} firmware={hexStr fw}"

def step (st : St) (bl : Block) : St × List String :=
  match bl.op with
  | ["spec"] =>
    -- the header bytes are an observation the model does not predict byte for byte (map order, quoting):
    -- echoed, then decoded by the monitor
    let hdr := (bl.outs.filter fun o => o.head? == some "hdr").map joinSp
    (st, hdr ++ [expected st.f])
  | _ => (st, ["bad-op"])

def showHdr (h : Hdr) : String :=
  s!"parsed resx={h.resx} resy={h.resy} fps={h.fps} framesize={h.fsize} brand={hexStr h.brand} model={hexStr h.model} serial={h.serial} firmware={hexStr h.firmware}"

def monStep (st : St) (bl : Block) : St × List String :=
  match bl.op with
  | ["spec"] =>
    let exp := fields (expected st.f)
    let st' := { st with specs := st.specs + 1, big := st.big + (if kvN st.f "serial" ≥ 4294967296 then 1 else 0) }
    let got := bl.outs.find? fun o => o.head? == some "parsed"
    let f1 : List String := match got with
      | none => ["prop=C14 reason=camera-daemon-header-not-readable-by-the-recorder"]
      | some g =>
        if g == exp then [] else
          let names := ["", "resx", "resy", "fps", "framesize", "brand", "model", "serial", "firmware"]
          let bad := ((names.zip g).zip exp).filterMap fun ((n, a), b) => if a == b then none else some n
          [s!"prop=C14 reason=recorder-reads-a-different-{"-".intercalate bad}-than-the-camera-has"]
    -- the Lean reader/decoder on the same bytes
    let f2 : List String := match bl.outs.find? fun o => o.head? == some "hdr" with
      | some ["hdr", hex] =>
        match Socket.readHeader (WriterStream.parseHexBytes hex).toList with
        | some (text, rest) =>
          (if fields (showHdr (hdrOf text)) == exp then [] else ["prop=C14 reason=model-decoder-reads-different-fields-from-the-daemon-header"]) ++
          (if rest.isEmpty then [] else ["prop=C14 reason=bytes-after-the-header-blank-line"])
        | none => ["prop=C14 reason=daemon-header-has-no-blank-line-terminator"]
      | _ => ["prop=C14 reason=no-header-bytes"]
    (st', f1 ++ f2)
  | _ => (st, [])

def monFinish (st : St) : List String :=
  [s!"STAT stream=leptond specs={st.specs} serial64={st.big} nontrivial={if st.specs ≥ 1 then 1 else 0}"]

end Driver.LeptondStream
