import TR.Ring
import Driver.Proto
/-! Ring stream: model = `TR.Ring Nat`; monitor = ghost specification of C19. -/
namespace Driver.RingStream
open TR Driver

def init (f : List String) : Ring Nat :=
  -- f = [id, "ring", size]
  Ring.new (nat (f.getD 2 "1")) 0

def step (r : Ring Nat) (b : Block) : Ring Nat × List String :=
  match b.op with
  | ["w", v] => (r.write (nat v), [])
  | ["m"] => let r' := r.move; (r', [s!"m {r'.current}"])
  | ["k"] => (r.setAsOldest, [])
  | ["r"] => let r' := r.reset; (r', [s!"r {r'.current}"])
  | ["h"] =>
    match r.history with
    | some h => (r, [joinSp ("h" :: h.map toString)])
    | none => (r, ["panic history"])
  | ["o"] => (r, [s!"o {r.oldestFrame}"])
  | ["c"] => (r, [match r.recent with | some v => s!"c {v}" | none => "c none"])
  | ["u"] => (r, [s!"u {r.current}"])
  | _ => (r, ["bad-op"])

/-- ghost specification state (C19): `vals` indexed by global frame index -/
structure Mon where
  size : Nat
  n : Nat := 0
  mark : Nat := 0
  vals : Array Nat := #[0]
  wrapped : Bool := false

def monInit (f : List String) : Mon := { size := nat (f.getD 2 "1") }

def Mon.lo (m : Mon) : Nat := max m.mark (m.n + 1 - m.size)

def monStep (m : Mon) (b : Block) : Mon × List String :=
  let bad := b.outs.filter (fun o => o.head? == some "panic")
  let fails0 := bad.map (fun o => "prop=C19 reason=panic-" ++ joinSp (o.drop 1))
  match b.op with
  | ["w", v] => ({ m with vals := m.vals.set! m.n (nat v) }, fails0)
  | ["m"] =>
    match b.outs with
    | [["m", stale]] => ({ m with n := m.n + 1, vals := (m.vals.push 0).set! (m.n + 1) (nat stale), wrapped := m.wrapped || m.n + 1 ≥ m.size }, fails0)
    | _ => (m, fails0 ++ ["prop=C19 reason=move-no-output"])
  | ["k"] => ({ m with mark := m.n }, fails0)
  | ["r"] =>
    match b.outs with
    | [["r", stale]] => ({ m with n := 0, mark := 0, vals := #[nat stale], wrapped := m.wrapped }, fails0)
    | _ => (m, fails0 ++ ["prop=C19 reason=reset-no-output"])
  | ["h"] =>
    let expect := ((List.range' m.lo (m.n + 1 - m.lo)).map (fun k => m.vals.getD k 0)).map toString
    match b.outs with
    | [("h" :: got)] =>
      if got == expect then (m, fails0)
      else (m, fails0 ++ [s!"prop=C19 reason=history expected=[{joinSp expect}] got=[{joinSp got}]"])
    | _ => (m, fails0 ++ ["prop=C19 reason=history-no-output"])
  | ["o"] =>
    let e := toString (m.vals.getD m.lo 0)
    match b.outs with
    | [["o", got]] => if got == e then (m, fails0) else (m, fails0 ++ [s!"prop=C19 reason=oldest expected={e} got={got}"])
    | _ => (m, fails0 ++ ["prop=C19 reason=oldest-no-output"])
  | ["c"] =>
    -- "recent" is specified when a previous frame exists and capacity ≥ 2; capacity 1: the only slot
    -- "recent": the frame before the current one (capacity 1: the only slot); nil while nothing was completed
    let e : String :=
      if m.n == 0 then "none"
      else if m.size == 1 then toString (m.vals.getD m.n 0)
      else toString (m.vals.getD (m.n - 1) 0)
    match b.outs with
    | [["c", got]] =>
      if got == e then (m, fails0) else (m, fails0 ++ [s!"prop=C19 reason=recent expected={e} got={got}"])
    | _ => (m, fails0 ++ ["prop=C19 reason=recent-no-output"])
  | ["u"] =>
    let e := toString (m.vals.getD m.n 0)
    match b.outs with
    | [["u", got]] => if got == e then (m, fails0) else (m, fails0 ++ [s!"prop=C19 reason=current expected={e} got={got}"])
    | _ => (m, fails0 ++ ["prop=C19 reason=current-no-output"])
  | _ => (m, fails0)

def monFinish (m : Mon) : List String :=
  [s!"STAT stream=ring wrapped={if m.wrapped then 1 else 0} nontrivial={if m.wrapped then 1 else 0}"]

end Driver.RingStream
