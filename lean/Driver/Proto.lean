/-!
# Driver.Proto — line protocol shared with the Go harness

Input (`real.txt`): blocks of one op line `> f1 f2 …` followed by the implementation's output
lines `< …`.  `model` mode re-emits every op line and the *model's* outputs; `mon` mode
evaluates the property monitors on the implementation's outputs and prints `FAIL …` lines.
-/
namespace Driver

structure Block where
  op   : List String            -- fields of the op line
  outs : List (List String)     -- fields of each real output line
  raw  : String                 -- the op line as written

def fields (s : String) : List String :=
  (s.splitOn " ").filter (· ≠ "")

/-- group lines into blocks -/
def parseBlocks (lines : Array String) : Array Block := Id.run do
  let mut out : Array Block := #[]
  let mut cur : Option Block := none
  for l in lines do
    if l.startsWith "> " || l == ">" then
      if let some b := cur then out := out.push { b with outs := b.outs.reverse }
      let body := (l.drop 2).toString
      cur := some { op := fields body, outs := [], raw := body }
    else if l.startsWith "< " then
      if let some b := cur then
        cur := some { b with outs := fields ((l.drop 2).toString) :: b.outs }
    else pure ()
  if let some b := cur then out := out.push { b with outs := b.outs.reverse }
  return out

partial def readAll (h : IO.FS.Stream) (acc : Array String) : IO (Array String) := do
  let line ← h.getLine
  if line.isEmpty then return acc
  let l := if line.endsWith "\n" then (line.dropEnd 1).toString else line
  readAll h (acc.push l)

def nat (s : String) : Nat := s.toNat?.getD 0

def joinSp (xs : List String) : String := " ".intercalate xs

/-- streaming block reader: calls `f` on every complete block -/
partial def forBlocks {σ : Type} (h : IO.FS.Stream) (init : σ) (f : σ → Block → IO σ) : IO σ := do
  let rec loop (st : σ) (cur : Option Block) : IO σ := do
    let line ← h.getLine
    if line.isEmpty then
      match cur with
      | some b => f st { b with outs := b.outs.reverse }
      | none => pure st
    else
      let l := if line.endsWith "\n" then (line.dropEnd 1).toString else line
      if l.startsWith "> " || l == ">" then
        let st ← match cur with
          | some b => f st { b with outs := b.outs.reverse }
          | none => pure st
        let body := (l.drop 2).toString
        loop st (some { op := fields body, outs := [], raw := body })
      else if l.startsWith "< " then
        match cur with
        | some b => loop st (some { b with outs := fields ((l.drop 2).toString) :: b.outs })
        | none => loop st cur
      else loop st cur
  loop init none

structure RunSt (σ : Type) where
  st : Option σ := none
  buf : String := ""
  caseId : String := "?"
  k : Nat := 0

def flushIf (out : IO.FS.Stream) (buf : String) : IO String := do
  if buf.utf8ByteSize > 65536 then
    out.putStr buf
    pure ""
  else pure buf

/-- generic model runner: `init` builds the state from a `case` line, `step` consumes a block -/
def runModel {σ : Type} (init : List String → σ) (step : σ → Block → σ × List String) : IO Unit := do
  let out ← IO.getStdout
  let inp ← IO.getStdin
  let fin ← forBlocks inp ({} : RunSt σ) fun rs b => do
    let buf := rs.buf ++ "> " ++ b.raw ++ "\n"
    match b.op with
    | "case" :: rest =>
      -- output lines of a case block are inputs measured by the harness (e.g. library parameters): echo them
      let buf := b.outs.foldl (fun acc o => acc ++ "< " ++ joinSp o ++ "\n") buf
      pure { rs with st := some (init (rest ++ b.outs.flatten)), buf := ← flushIf out buf }
    | _ =>
      match rs.st with
      | none => pure { rs with buf := buf }
      | some s =>
        let (s', outs) := step s b
        let buf := outs.foldl (fun acc o => acc ++ "< " ++ o ++ "\n") buf
        pure { rs with st := some s', buf := ← flushIf out buf }
  out.putStr fin.buf
  out.flush

/-- generic monitor runner: prints `FAIL prop=<id> <reason> case=<n> block=<k>` lines and the
`STAT` lines produced by `finish` at the end of each case. -/
def runMon {μ : Type} (init : List String → μ) (step : μ → Block → μ × List String)
    (finish : μ → List String) : IO Unit := do
  let out ← IO.getStdout
  let inp ← IO.getStdin
  let fin ← forBlocks inp ({} : RunSt μ) fun rs b => do
    match b.op with
    | "case" :: rest =>
      let buf := match rs.st with
        | some s => (finish s).foldl (fun acc l => acc ++ l ++ " case=" ++ rs.caseId ++ "\n") rs.buf
        | none => rs.buf
      pure { st := some (init (rest ++ b.outs.flatten)), buf := ← flushIf out buf, caseId := rest.headD "?", k := 1 }
    | _ =>
      match rs.st with
      | none => pure { rs with k := rs.k + 1 }
      | some s =>
        let (s', fails) := step s b
        let buf := fails.foldl (fun acc f => acc ++ "FAIL " ++ f ++ " case=" ++ rs.caseId ++ " block=" ++ toString rs.k ++ "\n") rs.buf
        pure { rs with st := some s', buf := ← flushIf out buf, k := rs.k + 1 }
  let buf := match fin.st with
    | some s => (finish s).foldl (fun acc l => acc ++ l ++ " case=" ++ fin.caseId ++ "\n") fin.buf
    | none => fin.buf
  out.putStr buf
  out.flush

end Driver
