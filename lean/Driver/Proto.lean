/-!
# Driver.Proto — line protocol shared with the Go harness

Input (`real.txt`): blocks of one op line `> f1 f2 …` followed by the implementation's output
lines `< …`.  `model` mode re-emits every op line and the *model's* outputs; `mon` mode
evaluates the property monitors on the implementation's outputs and prints `FAIL …` lines.
-/
namespace Driver

structure Block where
  op   : List String            -- fields of the op line
  outs : List (List String)     -- fields of each real output line
  raw  : String                 -- the op line as written

def fields (s : String) : List String :=
  (s.splitOn " ").filter (· ≠ "")

/-- group lines into blocks -/
def parseBlocks (lines : Array String) : Array Block := Id.run do
  let mut out : Array Block := #[]
  let mut cur : Option Block := none
  for l in lines do
    if l.startsWith "> " || l == ">" then
      if let some b := cur then out := out.push { b with outs := b.outs.reverse }
      let body := (l.drop 2).toString
      cur := some { op := fields body, outs := [], raw := body }
    else if l.startsWith "< " then
      if let some b := cur then
        cur := some { b with outs := fields ((l.drop 2).toString) :: b.outs }
    else pure ()
  if let some b := cur then out := out.push { b with outs := b.outs.reverse }
  return out

partial def readAll (h : IO.FS.Stream) (acc : Array String) : IO (Array String) := do
  let line ← h.getLine
  if line.isEmpty then return acc
  let l := if line.endsWith "\n" then (line.dropEnd 1).toString else line
  readAll h (acc.push l)

def nat (s : String) : Nat := s.toNat?.getD 0

def joinSp (xs : List String) : String := " ".intercalate xs

/-- generic model runner: `init` builds the state from a `case` line, `step` consumes a block -/
def runModel {σ : Type} (init : List String → σ) (step : σ → Block → σ × List String)
    (blocks : Array Block) : IO Unit := do
  let out ← IO.getStdout
  let mut st : Option σ := none
  for b in blocks do
    out.putStrLn ("> " ++ b.raw)
    match b.op with
    | "case" :: rest => st := some (init rest)
    | _ =>
      match st with
      | none => pure ()
      | some s =>
        let (s', outs) := step s b
        st := some s'
        for o in outs do out.putStrLn ("< " ++ o)
  out.flush

/-- generic monitor runner: prints `FAIL prop=<id> case=<n> block=<k> <reason>` lines and a
`STAT` line per case produced by `finish`. -/
def runMon {μ : Type} (init : List String → μ) (step : μ → Block → μ × List String)
    (finish : μ → List String) (blocks : Array Block) : IO Unit := do
  let out ← IO.getStdout
  let mut st : Option μ := none
  let mut caseId := "?"
  let mut k := 0
  for b in blocks do
    match b.op with
    | "case" :: rest =>
      if let some s := st then
        for l in finish s do out.putStrLn (l ++ " case=" ++ caseId)
      caseId := rest.headD "?"
      st := some (init rest)
      k := 0
    | _ =>
      match st with
      | none => pure ()
      | some s =>
        let (s', fails) := step s b
        st := some s'
        for f in fails do out.putStrLn ("FAIL " ++ f ++ " case=" ++ caseId ++ " block=" ++ toString k)
    k := k + 1
  if let some s := st then
    for l in finish s do out.putStrLn (l ++ " case=" ++ caseId)
  out.flush

end Driver
