import Driver.Proto
import TR.Excess
/-! names stream: two recorders started within the same millisecond get different files, both complete (C10). -/
namespace Driver.NamesStream
open Driver

def hexVal (c : Char) : Nat :=
  if c.isDigit then c.toNat - 48 else if 'a' ≤ c ∧ c ≤ 'f' then c.toNat - 87 else 0
def hexBytes (h : String) : List Nat :=
  let rec go : List Char → List Nat
    | a :: b :: r => (hexVal a * 16 + hexVal b) :: go r
    | _ => []
  go h.toList

structure St where
  pairs : Nat := 0          -- finished recordings so far = 2 * pairs
  sameMs : Nat := 0
  fulls : Nat := 0
  clashes : Nat := 0

def init (_ : List String) : St := {}

def step (st : St) (bl : Block) : St × List String :=
  match bl.op with
  | ["ss", n1, n2] =>
    -- whether both names were chosen within one millisecond is an observation (echoed)
    let same := (bl.outs.filter fun o => o.head? == some "samems").map joinSp
    ({ st with pairs := st.pairs + 1 },
     same ++ [s!"pair distinct=true stop=ok,ok decode=ok,ok frames={nat n1},{nat n2}", s!"dir finished={2 * (st.pairs + 1)} other=0"])
  | ["full", k] =>
    -- whether a small file system can be mounted is the environment's business (echoed); if it can, the continuous
    -- recorder deletes exactly the k oldest of its own recordings, keeps the rest and the main directory, and starts
    if bl.outs.contains ["full", "skipped"] then (st, ["full skipped"])
    else match bl.outs.find? (fun o => o.head? == some "fullstate") with
      | some o =>
        -- the file system as measured by the harness is the input of the model of deleteExcessRecordings (`TR.Excess`,
        -- theorems in `Props.Excess`: the oldest recordings go first, as few as possible, nothing else is touched)
        let kv (key : String) : String := match o.find? (·.startsWith (key ++ "=")) with
          | some s => (s.drop (key.length + 1)).toString | none => ""
        let files : List (String × Nat) := ((kv "files").splitOn ",").filterMap fun e =>
          match e.splitOn ":" with
          | [h, b] => some (String.ofList ((hexBytes h).map Char.ofNat), nat b)
          | _ => none
        let total := nat (kv "total")
        let used := (files.map (·.2)).foldl (· + ·) 0
        let (cnt, ok) := TR.Excess.expectDeleted total (total - nat (kv "avail") - used) files
        let nOld := (files.filter fun f => f.1.startsWith "20200101.").length
        let gone := ((files.take cnt).filter fun f => f.1.startsWith "20200101.").length
        (st, [joinSp o, s!"full k={nat k} ret={if ok then "ok" else "err"} oldleft={nOld - gone} mainkept=true"])
      | none => (st, [s!"full k={nat k} ret=ok oldleft=2 mainkept=true"])
  | ["clash", _, n] =>
    -- finished recordings already bear every name of the next milliseconds: the new recording takes another name, all
    -- of them are kept as they are, and exactly one file is added (`TR.C10Gen`: ids are fresh; the wait loop of the F9 fix)
    ({ st with clashes := st.clashes + 1 }, [s!"clash kept=true distinct=true stop=ok decode=ok frames={nat n} files=1"])
  | _ => (st, ["bad-op"])

def monStep (st : St) (bl : Block) : St × List String :=
  match bl.op with
  | ["ss", n1, n2] =>
    let (st', exp) := step st bl
    let same := bl.outs.contains ["samems", "1"]
    let st' := { st' with sameMs := st.sameMs + (if same then 1 else 0) }
    let got := (bl.outs.filter fun o => o.head? != some "samems").map joinSp
    let want := exp.filter fun l => !l.startsWith "samems"
    if got == want then (st', []) else
      let _ := (n1, n2)
      let r := match bl.outs.find? (fun o => o.head? == some "pair") with
        | some o =>
          if o.contains "distinct=false" then "two-recordings-share-one-file-name"
          else if !(o.contains "decode=ok,ok") then "finished-file-does-not-decode"
          else if !(o.contains "stop=ok,ok") then "recording-could-not-be-given-its-final-name"
          else "recording-pair-differs"
        | none => "recording-pair-not-completed"
      (st', [s!"prop=C10 reason={r}"])
  | ["full", k] =>
    if bl.outs.contains ["full", "skipped"] then (st, []) else
    let want := fields (((step st bl).2.filter (·.startsWith "full k=")).headD "")
    match bl.outs.find? (fun o => o.head? == some "full") with
    | some o =>
      if o == want then ({ st with fulls := st.fulls + 1 }, []) else
      let r := if !(o.contains "mainkept=true") then "prop=C17 reason=continuous-recorder-deleted-a-recording-of-the-main-directory"
        else if !(o.contains "ret=ok") then "prop=C17 reason=continuous-recording-not-started-although-old-recordings-could-be-deleted"
        else "prop=C17 reason=continuous-recorder-deleted-the-wrong-number-of-old-recordings"
      (st, [r, "prop=C10 reason=finished-recordings-deleted-or-kept-wrongly-when-the-disk-is-nearly-full"])
    | none => (st, ["prop=C17 reason=continuous-recorder-start-on-a-nearly-full-disk-did-not-complete"])
  | ["clash", _, _] =>
    let (st', exp) := step st bl
    if bl.outs.map joinSp == exp then (st', []) else
    let r := match bl.outs.find? (fun o => o.head? == some "clash") with
      | some o =>
        if o.contains "kept=false" || o.contains "distinct=false" then "finished-recording-overwritten-by-a-new-one-of-the-same-name"
        else if !(o.contains "decode=ok") then "finished-file-does-not-decode"
        else "recording-next-to-finished-files-of-the-same-time-differs"
      | none => "recording-next-to-finished-files-of-the-same-time-not-completed"
    (st', [s!"prop=C10 reason={r}"])
  | _ => (st, [])

def monFinish (st : St) : List String :=
  [s!"STAT stream=names pairs={st.pairs} samemillisecond={st.sameMs} nearlyfulldisk={st.fulls} nameclashes={st.clashes} nontrivial={if st.sameMs ≥ 1 then 1 else 0}"]

end Driver.NamesStream
