import TR.Daemon
import Driver.E2EStream
/-! daemon stream: the real `runMain` (argument parsing, ParseConfig, D-Bus service, start-up clean-up, the
listen / accept / handleConn loop on a unix socket).  Model: `runMain = refuse an invalid configuration;
remove what the clean-up pattern matches from the output directory; then serve one camera connection at a
time, each exactly as the e2e model says` (C10 start-up clean-up, C03 configuration validation, C14 one
connection at a time, C16 test request through the service; everything the e2e stream compares). -/
namespace Driver.DaemonStream
open TR Driver

structure St where
  e : E2EStream.MSt
  pre : List String := []        -- hex-encoded names present before start-up
  started : Bool := false
  dead : Bool := false           -- the environment could not run the daemon (no bus daemon): nothing is claimed
  seconds : Nat := 0
  removed : Nat := 0

def init (f : List String) : St := { e := E2EStream.monInit f }

def hexToStr (h : String) : String :=
  String.ofList ((WriterStream.parseHexBytes h).toList.map Char.ofNat)

/-- the pattern built from the regenerated constant; what survives a start is `TR.Daemon.startUp` (theorems in
`Props.Daemon`: no survivor contains `.cptv.temp`, every other name survives, in order; `Props.C10Glob`) -/
def pattern : String := "*." ++ Facts.cptvTempExt ++ "*"

/-- the hex-encoded names of the listing after start-up -/
def afterStart (valid : Bool) (preHex : List String) : Option (List String) :=
  (Daemon.startUp pattern valid (preHex.map hexToStr)).map fun names => names.map E2EStream.hexStr

def invalid (f : List String) : Bool := E2EStream.kvN f "max" < E2EStream.kvN f "min"

def lsLine (names : List String) : String :=
  joinSp ("ls" :: (names.toArray.qsort (· < ·)).toList)

def envFailed (bl : Block) : Bool := bl.outs.any fun o => o.head? == some "harness-error"

/-- how a connection ended is observed at the daemon only as "it ended and the daemon accepts the next camera" (the
value `handleConn` returns is just logged by `runMain`; eof / truncated / refused are told apart by the e2e stream) -/
def connLine (l : String) : String :=
  if l == "conn eof" || l == "conn truncated" || l == "conn error" then "conn ended" else l

def withCfg (st : St) (v : String) : St :=
  { st with e := { st.e with st := { st.e.st with f := st.e.st.f ++ ["config", v] } } }

def step (st : St) (bl : Block) : St × List String :=
  if st.dead then (st, []) else
  match bl.op with
  | ["pre", h] => ({ st with pre := st.pre ++ [h] }, [])
  | ["start"] =>
    if envFailed bl then ({ st with dead := true }, (bl.outs.map joinSp)) else
    if invalid st.e.st.f then (withCfg st "error", ["start error"])
    else
      let keep := (afterStart true st.pre).getD []
      (withCfg { st with started := true, removed := st.pre.length - keep.length } "ok", ["started", lsLine keep])
  | ["second"] =>
    if st.started then ({ st with seconds := st.seconds + 1 }, ["second refused"]) else (st, [])
  | ["info"] =>
    if !st.started then (st, []) else
    (match Socket.readHeader st.e.st.bytes.toList with
     | some (text, _) =>
       let h := E2EStream.hdrOf text
       (st, [s!"info resx={h.resx} resy={h.resy} fps={h.fps} framesize={h.fsize} brand={E2EStream.hexStr h.brand} " ++
             -- godbus marshals the Go `int` of the serial as a 32-bit D-Bus integer: the service reports it modulo 2^32
             -- (an observation about CameraInfo; the header itself round-trips in full, which is what C14 speaks about)
             s!"model={E2EStream.hexStr h.model} serial={h.serial % 4294967296} firmware={E2EStream.hexStr h.firmware}"])
     | none => (st, ["info none"]))
  | ["ls"] => (st, [lsLine ((afterStart st.started st.pre).getD st.pre)])
  | _ =>
    if !st.started then (st, []) else      -- nothing is served before `start`
    let (s', outs) := E2EStream.step st.e.st bl
    ({ st with e := { st.e with st := s' } }, outs.map connLine)

def monStep (st : St) (bl : Block) : St × List String :=
  if st.dead then (st, []) else
  match bl.op with
  | ["start"] =>
    let (st', exp) := step st bl
    if st'.dead then (st', []) else
    let got := bl.outs.map joinSp
    if got == exp then (st', []) else
    let r :=
      if exp == ["start error"] then ["prop=C03 reason=configuration-with-max-secs-below-min-secs-accepted"]
      else if got.head? != some "started" then
        ["prop=C11 reason=valid-configuration-refused-or-daemon-did-not-come-up", "prop=C14 reason=daemon-never-listens-for-the-camera"]
      else ["prop=C10 reason=start-up-clean-up-left-temporary-files-or-removed-something-else"]
    (st', r)
  | ["second"] =>
    let (st', exp) := step st bl
    if bl.outs.map joinSp == exp then (st', []) else
      (st', ["prop=C14 reason=second-camera-connection-taken-while-one-is-being-served"])
  | ["info"] =>
    let (st', exp) := step st bl
    if bl.outs.map joinSp == exp then (st', []) else
      (st', ["prop=C14 reason=camera-description-offered-by-the-service-differs-from-the-header-sent"])
  | ["ls"] =>
    let (st', exp) := step st bl
    if bl.outs.map joinSp == exp then (st', []) else
      (st', ["prop=C10 reason=files-present-before-start-up-lost-or-temporary-files-kept"])
  | ["pre", _] => (step st bl).1 |> fun s => (s, [])
  | _ =>
    if E2EStream.configRejected st.e.st || !st.started then (st, []) else
    -- put the model's own connection-end line where the daemon reports "conn ended" (see `connLine`)
    let exp := (E2EStream.step st.e.st bl).2
    let bl := match exp.find? (fun l => connLine l == "conn ended" && l != "conn ended") with
      | some l => { bl with outs := bl.outs.map fun o => if o == ["conn", "ended"] then fields l else o }
      | none => bl
    let (e', fl) := E2EStream.monStep' st.e bl
    ({ st with e := e' }, fl ++ E2EStream.stallFails bl)

def monFinish (st : St) : List String :=
  [s!"STAT stream=daemon started={if st.started then 1 else 0} files={st.e.files} decodedframes={st.e.frames} prefiles={st.pre.length} " ++
   s!"removedatstartup={st.removed} secondconnections={st.seconds} skipped={if st.dead then 1 else 0} " ++
   s!"nontrivial={if st.started && st.removed ≥ 1 then 1 else 0}"]

end Driver.DaemonStream
