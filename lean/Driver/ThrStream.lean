import TR.ThrMon
import Driver.Proto
/-! Throttle stream: model = `TR.ustep`; monitors = `TR.ThrMon`. -/
namespace Driver.ThrStream
open TR Driver

def kv (f : List String) (k : String) : Nat :=
  match f.find? (fun s => s.startsWith (k ++ "=")) with
  | some s => nat ((s.drop (k.length + 1)).toString)
  | none => 0

def b (s : String) : Bool := s == "1"

structure St where
  u : UState
  fill : Nat

/-- case line: `… bucketsecs= refillms= minsecs= fps=` + measured `bucket cap= q= fill= minlen=` -/
def init (f : List String) : St :=
  { u := { t := TState.init (kv f "cap") (kv f "q") (kv f "minlen") }, fill := max 1 (kv f "fill") }

def reqOf (fill : Nat) : List String → Option TReq
  | ["s", t, tag, ok] => some (.start (nat t / fill) (nat tag) (b ok))
  | ["w", t, id, sok, wok, pok] => some (.write (nat t / fill) (nat id) (b sok) (b wok) (b pok))
  | ["p", pok] => some (.stop (b pok))
  | _ => none

def okStr (ok : Bool) : String := if ok then "ok" else "err"

def showObs : TObs → String
  | .bStart tag ok => s!"b.start {tag} {okStr ok}"
  | .bWrite id ok => s!"b.write {id} {okStr ok}"
  | .bStop ok => s!"b.stop {okStr ok}"
  | .throttled => "throttled"
  | .ret ok => s!"ret {okStr ok}"

def parseObs : List String → Option TObs
  | ["b.start", tag, ok] => some (.bStart (nat tag) (ok == "ok"))
  | ["b.write", id, ok] => some (.bWrite (nat id) (ok == "ok"))
  | ["b.stop", ok] => some (.bStop (ok == "ok"))
  | ["throttled"] => some .throttled
  | ["ret", ok] => some (.ret (ok == "ok"))
  | _ => none

def step (st : St) (bl : Block) : St × List String :=
  match reqOf st.fill bl.op with
  | none => (st, ["bad-op"])
  | some r =>
    match ustep st.u r with
    | (u', some obs) => ({ st with u := u' }, obs.map showObs)
    | (u', none) => ({ st with u := u' }, ["skipped"])

structure MSt where
  cap : Nat
  q : Nat
  fill : Nat
  minLen : Nat
  steps : List TStep := []     -- reversed
  m6 : M6 := {}
  m11 : M11 := {}
  oracle : Option UState := none   -- the model run in lockstep on the real requests; dropped after the first disagreement
  issued : Nat := 0
  fwd : Nat := 0
  events : Nat := 0
  cuts : Nat := 0
  baseFails : Nat := 0

def monInit (f : List String) : MSt :=
  { cap := kv f "cap", q := kv f "q", fill := max 1 (kv f "fill"), minLen := kv f "minlen",
    oracle := some { t := TState.init (kv f "cap") (kv f "q") (kv f "minlen") } }

def hasBWrite (obs : List TObs) : Bool := obs.any fun o => match o with | .bWrite .. => true | _ => false

/-- budget decisions, judged against the bucket state the history so far implies (the model run in lockstep
on the real requests): the first request on which the real throttle decides otherwise, classified by what it did -/
def budgetVerdict (r : TReq) (exp got : List TObs) : List String :=
  if exp == got then [] else
  match r with
  | .start .. =>
    if hasBStart got && !hasBStart exp then ["C06:file-started-without-a-minimum-clip-of-budget", "C05:start-forwarded-beyond-the-budget"]
    else if !hasBStart got && hasBStart exp then ["C06:start-suppressed-although-the-budget-suffices"]
    else ["C06:start-handled-differently-from-the-budget-rules"]
  | .write .. =>
    if hasBWrite got && !hasBWrite exp then ["C05:frame-forwarded-beyond-the-budget", "C06:frame-forwarded-beyond-the-budget"]
    else if hasBStop got && !hasBStop exp then ["C06:file-cut-although-the-budget-suffices"]
    else if !hasBWrite got && hasBWrite exp then ["C06:frame-dropped-although-the-budget-suffices"]
    else if hasBStart got && !hasBStart exp then ["C06:file-restarted-without-a-minimum-clip-of-budget"]
    else ["C06:frame-handled-differently-from-the-budget-rules"]
  | .stop _ => ["C06:stop-handled-differently-from-the-budget-rules"]

def fmt (fs : List String) : List String :=
  fs.map fun s => match s.splitOn ":" with
    | [p, r] => s!"prop={p} reason={r}"
    | _ => s!"prop=? reason={s}"

def monStep (m : MSt) (bl : Block) : MSt × List String :=
  match reqOf m.fill bl.op with
  | none => (m, [])
  | some r =>
    if bl.outs == [["skipped"]] then (m, []) else
    let obs := bl.outs.filterMap parseObs
    let unparsed := bl.outs.any (fun o => (parseObs o).isNone)
    let st : TStep := { req := r, obs := obs }
    let m6 := M6.step m.minLen m.m6 st
    let m11 := M11.step m.m11 st
    let (oracle, fb) : Option UState × List String := match m.oracle with
      | none => (none, [])
      | some u =>
        match ustep u r with
        | (u', some exp) => let v := budgetVerdict r exp obs; (if v.isEmpty then some u' else none, v)
        | (_, none) => (none, ["C06:request-outside-the-recorder-protocol"])
    -- the storage layer is a recorder sink too (C12): calls outside the start..stop pairing
    let f12 := (m6.fails.drop m.m6.fails.length).filterMap fun r =>
      if r == "C06:base-write-outside-file" || r == "C06:base-start-while-open" || r == "C06:base-stop-without-file"
      then some ("C12:storage-recorder-called-outside-start-stop-pairing-" ++ (r.drop 4).toString) else none
    -- what is stored with a recording (C15: background and threshold at its trigger) is what the file is started with
    let f15 := if (m11.fails.drop m.m11.fails.length).isEmpty then []
      else ["C15:file-started-with-a-background-or-threshold-that-is-not-the-one-at-its-trigger"]
    let fails := m6.fails.drop m.m6.fails.length ++ m11.fails.drop m.m11.fails.length ++ fb ++ f12 ++ f15
    let isWrite := match r with | .write .. => true | _ => false
    ({ m with steps := st :: m.steps, m6 := m6, m11 := m11, oracle := oracle, issued := m.issued + 1, fwd := m.fwd + fwdCount obs,
              events := m.events + countThrottled obs,
              cuts := m.cuts + (if isWrite && hasBStop obs then 1 else 0),
              baseFails := m.baseFails + (if obs.any (fun o => match o with | .bStart _ false => true | _ => false) then 1 else 0) },
     fmt fails ++ (if unparsed then ["prop=C06 reason=unparsed-output"] else []))

def monFinish (m : MSt) : List String :=
  let f5 := monC05 m.cap m.q m.steps.reverse
  (fmt f5).map (fun s => "FAIL " ++ s) ++
  [s!"STAT stream=throttle requests={m.issued} forwarded={m.fwd} events={m.events} cuts={m.cuts} basestartfails={m.baseFails} " ++
   s!"nontrivial={if m.events ≥ 1 then 1 else 0}"]

end Driver.ThrStream
