import TR.ProcMon
import Driver.Proto
/-! Processor stream: model = `TR.PState.step`; monitors = `TR.ProcMon`. -/
namespace Driver.ProcStream
open TR Driver

def kv (f : List String) (k : String) : Nat :=
  match f.find? (fun s => s.startsWith (k ++ "=")) with
  | some s => nat ((s.drop (k.length + 1)).toString)
  | none => 0

/-- `case <id> processor fps= preview= min= max= trig= const= testlast=` -/
def cfgOf (f : List String) : PCfg :=
  let fps := kv f "fps"
  { K := kv f "preview" * fps + kv f "trig", minF := kv f "min" * fps, maxF := kv f "max" * fps,
    trig := kv f "trig", constOn := kv f "const" == 1, testLast := kv f "testlast" }

def b (s : String) : Bool := s == "1"

def faultsOfFrame : List String → Faults
  | [win, can, ms, mwf, mp, cs, cw, cp, ts, tw, tp] =>
    { win := b win, can := b can, mStart := b ms, mWriteFail := nat mwf, mStop := b mp,
      cStart := b cs, cWrite := b cw, cStop := b cp, tStart := b ts, tWrite := b tw, tStop := b tp }
  | _ => {}

def hasMd (bl : Block) : Bool := bl.outs.any (· == ["md"])

def evOf (bl : Block) : Option Ev :=
  match bl.op with
  | "f" :: _hot :: rest => some (.frame (hasMd bl) (faultsOfFrame rest))
  | ["b", mp, cp] => some (.bad { mStop := b mp, cStop := b cp })
  | ["r", mp] => some (.reset { mStop := b mp })
  | ["t"] => some .testReq
  | _ => none

def okStr (ok : Bool) : String := if ok then "ok" else "err"
def sinkCh : Sink → String
  | .motion => "m" | .const => "c" | .test => "t"

def showObs : Obs → String
  | .md => "md" | .rs => "rs" | .re => "re" | .panic => "panic"
  | .call s .can ok => s!"{sinkCh s}.can {okStr ok}"
  | .call s .start ok => s!"{sinkCh s}.start {okStr ok}"
  | .call s (.write id) ok => s!"{sinkCh s}.write {id} {okStr ok}"
  | .call s .stop ok => s!"{sinkCh s}.stop {okStr ok}"

def sinkOf : String → Option Sink
  | "m" => some .motion | "c" => some .const | "t" => some .test | _ => none

def parseObs (f : List String) : Option Obs :=
  match f with
  | ["md"] => some .md | ["rs"] => some .rs | ["re"] => some .re
  | "panic" :: _ => some .panic
  | [sc, ok] =>
    match sc.splitOn "." with
    | [s, "can"] => (sinkOf s).map (fun s => .call s .can (ok == "ok"))
    | [s, "start"] => (sinkOf s).map (fun s => .call s .start (ok == "ok"))
    | [s, "stop"] => (sinkOf s).map (fun s => .call s .stop (ok == "ok"))
    | _ => none
  | [sc, id, ok] =>
    match sc.splitOn "." with
    | [s, "write"] => (sinkOf s).map (fun s => .call s (.write (nat id)) (ok == "ok"))
    | _ => none
  | _ => none

structure St where
  cfg : PCfg
  s : PState
  steps : Nat := 0

def init (f : List String) : St := let c := cfgOf f; { cfg := c, s := PState.init c }

/-- every 64 steps rebuild the ring's slot function from a snapshot (same function on the
slots in use; keeps closure chains short) -/
def compact (s : PState) : PState :=
  let arr := (List.range s.ring.size).toArray.map s.ring.slots
  { s with ring := { s.ring with slots := fun i => if i < arr.size then arr.getD i 0 else s.ring.slots i } }

def step (st : St) (bl : Block) : St × List String :=
  match evOf bl with
  | none => (st, ["bad-op"])
  | some ev =>
    let r := PState.step st.cfg st.s ev
    let ret : List String := match ev with
      | .frame _ _ => ["ret ok"]
      | .bad _ => ["ret bad"]
      | .reset _ => ["det restarted=true"]       -- a camera reset always restarts detection (`Pipe.item .clear`: `det.reset`)
      | _ => []
    let s' := if (st.steps + 1) % 64 == 0 then compact r.1 else r.1
    ({ st with s := s', steps := st.steps + 1 }, r.2.map showObs ++ ret)

/-! monitors: all of `TR.ProcMon` run side by side on the real trace -/
structure MSt where
  cfg : PCfg
  m12 : M12 := {}
  m3 : M3 := {}
  m4 : M4 := {}
  m12s : M12s := {}
  m13 : M13 := {}
  m17 : M17 := {}
  orc : Option PState := none      -- the model in lockstep on the real events; dropped after the first disagreement
  osteps : Nat := 0
  -- statistics for the evidence file
  frames : Nat := 0
  motion : Nat := 0
  bads : Nat := 0
  resets : Nat := 0
  treqs : Nat := 0
  recs : Nat := 0
  refused : Nat := 0
  faults : Nat := 0
  capStops : Nat := 0

def monInit (f : List String) : MSt := let c := cfgOf f; { cfg := c, orc := some (PState.init c) }

/-- the first event on which the real processor's calls differ from the model's, named after what differs (this also
judges the regimes the trace monitors leave alone, e.g. recording lengths when a storage write has failed) -/
def lockstepVerdict (exp got : List Obs) : List String :=
  if exp == got then [] else
  let onSink (s : Sink) (l : List Obs) := l.filter fun o => match o with | .call s' _ _ => s' == s | _ => false
  let stops (l : List Obs) := (onSink .motion l).filter fun o => match o with | .call _ .stop _ => true | _ => false
  let starts (l : List Obs) := (onSink .motion l).filter fun o => match o with | .call _ .start _ => true | .call _ .can _ => true | _ => false
  let writes (l : List Obs) := (onSink .motion l).filter fun o => match o with | .call _ (.write _) _ => true | _ => false
  if got.contains .panic then ["C12:frame-processing-panicked"]
  else if onSink .const exp != onSink .const got || onSink .test exp != onSink .test got then
    ["C17:continuous-or-test-recorder-calls-differ-from-the-model", "C12:recorder-calls-differ-from-the-model-after-a-fault"]
  else if starts exp != starts got then ["C04:recording-start-decision-differs-from-the-model"]
  else if stops exp != stops got then ["C03:recording-ends-at-a-different-frame-than-the-model", "C12:recording-not-ended-as-the-model-after-a-fault"]
  else if writes exp != writes got then ["C01:frames-written-differ-from-the-model", "C02:frames-written-differ-from-the-model"]
  else ["C12:observations-differ-from-the-model"]

def newFails (old new : List String) : List String := new.drop old.length

def fmt (fs : List String) : List String :=
  fs.map fun s => match s.splitOn ":" with
    | [p, r] => s!"prop={p} reason={r}"
    | _ => s!"prop=? reason={s}"

def monStep (m : MSt) (bl : Block) : MSt × List String :=
  match evOf bl with
  | none => (m, [])
  | some ev =>
    let obs := bl.outs.filterMap parseObs
    let unparsed := bl.outs.filter (fun o => (parseObs o).isNone && o.head? != some "ret" && o.head? != some "det" && o.head? != some "parser-edge")
    let st : Step := { ev := ev, obs := obs }
    let c := m.cfg
    let m12 := M12.step c.K m.m12 st
    let m3 := M3.step c.minF c.maxF m.m3 st
    let m4 := M4.step c.trig m.m4 st
    let m12s := st.obs.foldl M12s.obs m.m12s
    let m13 := M13.step m.m13 st
    let m17 := M17.step c m.m17 st
    -- return value of Process (C12: never crashes; C13: bad frame reported)
    let retF : List String := match ev with
      | .frame _ _ => if bl.outs.contains ["ret", "ok"] then [] else ["C12:process-did-not-return-ok", "C13:valid-frame-not-processed"]
      | .bad _ => if bl.outs.contains ["ret", "bad"] then [] else ["C13:bad-frame-not-reported"]
      | _ => []
    -- C17 side condition of `Props.C17Spec` (the monitor itself looks at the continuous / test sinks only while a frame
    -- is processed): no call on those sinks during a reset or a test request, none on the test sink during a bad frame
    let quiet : Bool := match ev with
      | .frame _ _ => true
      | .bad _ => (obsOf .test obs).isEmpty
      | _ => (obsOf .const obs).isEmpty && (obsOf .test obs).isEmpty
    let fq := (if quiet then [] else ["C17:recorder-call-outside-frame-processing"]) ++
      (if bl.outs.any (fun o => o.head? == some "parser-edge") then
         ["C08:parser-ignores-a-different-border-than-the-detector-edge-pixels", "C13:parser-called-with-the-wrong-border-width"] else []) ++
      (match ev with
       | .reset _ => if bl.outs.contains ["det", "restarted=true"] then [] else
           ["C15:detector-not-restarted-on-camera-reset-background-not-re-seeded", "C09:detector-not-restarted-on-camera-reset",
            "C14:camera-reset-marker-did-not-restart-detection",
            "C07:compare-frames-from-before-the-camera-reset-are-still-in-use"]
       | _ => [])
    let (orc, fo) : Option PState × List String := match m.orc with
      | none => (none, [])
      | some s =>
        let r := PState.step c s ev
        let v := lockstepVerdict r.2 obs
        (if v.isEmpty then some (if (m.osteps + 1) % 64 == 0 then compact r.1 else r.1) else none, v)
    let fails := fo ++ fq ++ newFails m.m12.fails m12.fails ++ newFails m.m3.fails m3.fails ++ newFails m.m4.fails m4.fails
      ++ newFails m.m12s.fails m12s.fails ++ newFails m.m13.fails m13.fails ++ newFails m.m17.fails m17.fails
      ++ retF ++ (if unparsed.isEmpty then [] else ["C12:unparsed-output"])
    let anyFault := obs.any fun o => match o with | .call _ _ false => true | _ => false
    let stoppedAtCap := match ev with
      | .frame _ _ => hasStop obs && m3.p ≥ c.maxF
      | _ => false
    let one (c : Bool) : Nat := if c then 1 else 0
    let isBad := match ev with | .bad _ => true | _ => false
    let isReset := match ev with | .reset _ => true | _ => false
    let isReq := match ev with | .testReq => true | _ => false
    let refusedNow := ev.isFrame && ev.motion && !hasStartOk obs && !m.m4.openRec && decide (m4.run ≥ c.trig)
    let m1 : MSt := { m with m12 := m12, m3 := m3, m4 := m4, m12s := m12s, m13 := m13, m17 := m17, orc := orc, osteps := m.osteps + 1 }
    let m' : MSt := { m1 with
      frames := m.frames + one ev.isFrame
      motion := m.motion + one ev.motion
      bads := m.bads + one isBad
      resets := m.resets + one isReset
      treqs := m.treqs + one isReq
      recs := m.recs + one (hasStartOk obs)
      refused := m.refused + one refusedNow
      faults := m.faults + one anyFault
      capStops := m.capStops + one stoppedAtCap }
    (m', fmt fails)

def monFinish (m : MSt) : List String :=
  [s!"STAT stream=processor frames={m.frames} motion={m.motion} bad={m.bads} resets={m.resets} testreqs={m.treqs} " ++
   s!"recordings={m.recs} refused={m.refused} faultevents={m.faults} capstops={m.capStops} " ++
   s!"nontrivial={if m.recs ≥ 1 then 1 else 0}"]

end Driver.ProcStream
