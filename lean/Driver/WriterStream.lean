import TR.Socket
import TR.Yaml
import TR.CPTR
import Driver.Proto
/-! writer stream: socket bytes → CPTR file, model and monitor (C18). -/
namespace Driver.WriterStream
open TR Driver

def hexVal (c : Char) : Nat :=
  if c.isDigit then c.toNat - '0'.toNat else if 'a' ≤ c ∧ c ≤ 'f' then c.toNat - 'a'.toNat + 10 else 0

def parseHexBytes (s : String) : Array Nat := Id.run do
  let cs := s.toList.toArray
  let mut out : Array Nat := Array.mkEmpty (cs.size / 2)
  let mut i := 0
  while i + 1 < cs.size do
    out := out.push (hexVal cs[i]! * 16 + hexVal cs[i+1]!)
    i := i + 2
  return out

def hexDigit (n : Nat) : Char := if n < 10 then Char.ofNat (n + 48) else Char.ofNat (n + 87)
def toHex (bs : List Nat) : String := String.ofList (bs.flatMap fun b => [hexDigit (b / 16), hexDigit (b % 16)])

def kvS (f : List String) (k : String) : String :=
  match f.find? (fun s => s.startsWith (k ++ "=")) with
  | some s => (s.drop (k.length + 1)).toString
  | none => ""

structure St where
  device : String
  devId : Nat
  bytes : Array Nat := #[]
  gens : List (Nat × Nat × Nat) := []     -- (count, frame size, pattern id) of generated bursts, in order
  roll : Bool := false                    -- the connection lasts longer than the one-minute file interval
  prev : List (Array Nat) := []           -- bytes of earlier connections of this case (the camera reconnected)

def init (f : List String) : St := { device := kvS f "device", devId := nat (kvS f "id"), roll := kvS f "roll" == "1" }

def strBytes (s : String) : List Nat := s.toUTF8.toList.map (·.toNat)

/-- chunk the remaining bytes into frames of size `n`; the Bool tells whether a partial frame was left -/
partial def chunks (n : Nat) (bs : List Nat) (acc : List (List Nat)) : List (List Nat) × Bool :=
  if n = 0 then (acc.reverse, false)
  else if bs.isEmpty then (acc.reverse, false)
  else if bs.length < n then (acc.reverse, true)
  else chunks n (bs.drop n) (bs.take n :: acc)

structure Expect where
  hdr : CPTR.Header
  frames : List (List Nat)
  truncated : Bool
  headerOk : Bool

def expect (st : St) : Expect :=
  match Socket.readHeader st.bytes.toList with
  | none => { hdr := ⟨0, [], [], 0, 0, 0, [], 0⟩, frames := [], truncated := false, headerOk := false }
  | some (text, rest) =>
    let m := Yaml.parse (String.fromUTF8! (ByteArray.mk (text.toArray.map (·.toUInt8))))
    let fsize := Yaml.getInt m "FrameSize"
    let (frames, part) := chunks fsize rest []
    { hdr := { timestampUs := 0, model := strBytes (Yaml.getStr m "Model"), brand := strBytes (Yaml.getStr m "Brand"),
               fps := Yaml.getInt m "FPS" % 256, resX := Yaml.getInt m "ResX", resY := Yaml.getInt m "ResY",
               deviceName := strBytes st.device, deviceID := st.devId },
      frames := frames, truncated := part, headerOk := true }

def hashP : UInt64 := 2305843009213693951

def hashStep (h : UInt64) (b : UInt64) : UInt64 := (h * 1000003 + b + 1) % hashP

def hashBytes (h : UInt64) (bs : List Nat) : UInt64 := bs.foldl (fun acc b => hashStep acc b.toUInt64) h

/-- hash and length of header ++ generated frame sections, without materialising the file -/
def hashGenerated (hdrBytes : List Nat) (gens : List (Nat × Nat × Nat)) : UInt64 × Nat := Id.run do
  let mut h := hashBytes 0 hdrBytes
  let mut len := hdrBytes.length
  for (cnt, fsize, pid) in gens do
    let sec := [70, 1] ++ CPTR.encodeField ⟨102, CPTR.le 4 fsize⟩
    for k in [0:cnt] do
      h := hashBytes h sec
      for j in [0:fsize] do
        h := hashStep h ((k * 31 + j * 7 + pid) % 251).toUInt64
      len := len + sec.length + fsize
  return (h, len)

def step (st : St) (bl : Block) : St × List String :=
  match bl.op with
  | ["g", cnt, fsize, pid] => ({ st with gens := st.gens ++ [(nat cnt, nat fsize, nat pid)] }, [])
  | ["b", hex] => ({ st with bytes := st.bytes ++ parseHexBytes hex }, [])
  | ["stall", _] => (st, [])
  | ["n"] =>
    let e := expect st
    ({ st with prev := st.prev ++ [st.bytes], bytes := #[] },
     [if !e.headerOk then "conn error" else if e.truncated then "conn truncated" else "conn eof"])
  | ["end"] =>
    let e := expect st
    if !e.headerOk then (st, ["conn error"]) else
    if !st.prev.isEmpty then
      -- one file per connection, in the order of the connections, each holding exactly that connection's frames — however far
      -- the writer of an earlier connection lagged when the next one began (`Props.C18`: every queued frame is flushed before
      -- the file is closed; nothing is shared between the files of two connections)
      let es := (st.prev ++ [st.bytes]).map fun b => expect { st with bytes := b }
      (st, [if e.truncated then "conn truncated" else "conn eof"] ++
        ((List.range es.length).zip es).map (fun (i, x) => s!"file {i} .cptr {toHex (CPTR.encodeFile x.hdr x.frames)}") ++ [s!"files {es.length}"]) else
    if st.roll then
      -- where the stream is cut into files depends on the wall clock: the file lines are observations
      -- (echoed); the monitor checks that together they hold every frame once, in order
      (st, ["conn eof"] ++ ((bl.outs.filter fun o => o.head? == some "file" || o.head? == some "files").map joinSp)) else
    if !st.gens.isEmpty then
      let (h, len) := hashGenerated (CPTR.encodeHeader e.hdr) st.gens
      (st, ["conn eof", s!"file 0 .cptr hash={h} len={len}", "files 1"]) else
    (st, [if e.truncated then "conn truncated" else "conn eof",
          s!"file 0 .cptr {toHex (CPTR.encodeFile e.hdr e.frames)}", "files 1"])
  | _ => (st, ["bad-op"])

/-! monitor: decode the real file with the model's decoder and compare with what was sent -/
structure MSt where
  st : St
  frames : Nat := 0
  bytesIn : Nat := 0
  segs : Nat := 0
  reconnects : Nat := 0

def monInit (f : List String) : MSt := { st := init f }

def monStep (m : MSt) (bl : Block) : MSt × List String :=
  match bl.op with
  | ["b", hex] =>
    let b := parseHexBytes hex
    ({ m with st := { m.st with bytes := m.st.bytes ++ b }, bytesIn := m.bytesIn + b.size, segs := m.segs + 1 }, [])
  | ["g", cnt, fsize, pid] =>
    ({ m with st := { m.st with gens := m.st.gens ++ [(nat cnt, nat fsize, nat pid)] }, bytesIn := m.bytesIn + nat cnt * nat fsize }, [])
  | ["n"] => ({ m with st := (step m.st bl).1 }, [])
  | ["end"] =>
    let e := expect m.st
    let files := bl.outs.filter fun o => o.head? == some "file"
    let m := { m with frames := e.frames.length + (m.st.gens.map (·.1)).foldl (· + ·) 0 }
    if !e.headerOk then (m, []) else
    if !m.st.prev.isEmpty then
      let want := ((step m.st bl).2.filter (·.startsWith "file ")).map fields
      if files == want then ({ m with reconnects := m.reconnects + 1 }, [])
      else (m, ["prop=C18 reason=frames-of-a-connection-missing-or-misplaced-after-a-reconnect-while-the-writer-lagged"]) else
    if m.st.roll then
      let strip (fs : List CPTR.Field) := fs.filter (·.code != 84)
      let dec := files.map fun o => match o with
        | [_, _, _, hex] => CPTR.decodeFile (parseHexBytes hex).toList
        | _ => none
      let bad := dec.any (·.isNone)
      let all := dec.filterMap id
      let frames := all.flatMap (·.2)
      let hdrBad := all.any fun p => strip p.1 != strip (CPTR.headerFields e.hdr)
      (m, (if bad then ["prop=C18 reason=file-not-well-formed-cptr-after-roll-over"] else []) ++
          (if hdrBad then ["prop=C18 reason=header-fields-differ-after-roll-over"] else []) ++
          (if !bad && frames != e.frames then
             [if frames.length < e.frames.length then "prop=C18 reason=frames-lost-at-file-roll-over"
              else if frames.length > e.frames.length then "prop=C18 reason=frames-duplicated-at-file-roll-over"
              else "prop=C18 reason=frame-content-or-order-differs-across-files"] else []) ++
          (if files.length < 2 then ["prop=C18 reason=no-new-file-after-the-file-interval"] else [])) else
    if !m.st.gens.isEmpty then
      let (h, len) := hashGenerated (CPTR.encodeHeader e.hdr) m.st.gens
      if files == [["file", "0", ".cptr", s!"hash={h}", s!"len={len}"]] then (m, [])
      else (m, ["prop=C18 reason=large-file-bytes-differ-from-the-format"]) else
    match files with
    | [[_, _, ext, hex]] =>
      let data := (parseHexBytes hex).toList
      let extF := if ext == ".cptr" then [] else ["prop=C18 reason=wrong-file-extension"]
      match CPTR.decodeFile data with
      | none => (m, extF ++ ["prop=C18 reason=file-not-well-formed-cptr"])
      | some (fields, frames) =>
        let f1 := if frames == e.frames then [] else
          [if frames.length < e.frames.length then "prop=C18 reason=frames-missing-from-file"
           else if frames.length > e.frames.length then "prop=C18 reason=extra-or-duplicated-frames"
           else "prop=C18 reason=frame-content-or-order-differs"]
        -- header fields except the timestamp
        let strip (fs : List CPTR.Field) := fs.filter (·.code != 84)
        let f2 := if strip fields == strip (CPTR.headerFields e.hdr) then [] else ["prop=C18 reason=header-fields-differ"]
        (m, extF ++ f1 ++ f2)
    | [] => (m, ["prop=C18 reason=no-file-written"])
    | _ => (m, ["prop=C18 reason=more-than-one-file"])
  | _ => (m, [])

def monFinish (m : MSt) : List String :=
  [s!"STAT stream=writer frames={m.frames} bytes={m.bytesIn} segments={m.segs} reconnects={m.reconnects} nontrivial={if m.frames ≥ 1 then 1 else 0}"]

end Driver.WriterStream
