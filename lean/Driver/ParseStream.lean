import TR.Parse
import Driver.Proto
import Driver.DetStream
import Driver.WriterStream
/-! parse stream: raw frame → parser result; monitor = C13 read literally (rejected iff an interior zero pixel). -/
namespace Driver.ParseStream
open TR TR.Parse Driver

structure St where
  n : Nat := 0
  bad : Nat := 0
  borderZero : Nat := 0

def init (_ : List String) : St := {}

def ffcName : Nat → String
  | 0 => "never" | 1 => "imminent" | 2 => "running" | _ => "complete"

def result (kind : String) (w h edge : Nat) (arr : Array Nat) : Result :=
  let raw : Raw := fun i => arr.getD i 0
  if kind == "boson" then parseBoson raw w h edge else parseLepton raw w h edge

def outOf (kind : String) (w h edge : Nat) (arr : Array Nat) : String :=
  let raw : Raw := fun i => arr.getD i 0
  match result kind w h edge arr with
  | .ok pix t =>
    let px := DetStream.tabulateArr w h pix
    let (tc, tl) := if kind == "boson" then (27315, 27315) else (t.fpaTempCK, t.fpaTempLastFFCCK)
    s!"ok ton={t.timeOnMs} lffc={t.lastFFCMs} t={tc} tl={tl} fc={t.frameCounter} fm={t.frameMean} " ++
    s!"ffc={if kind == "boson" then "" else ffcName t.ffcStateBits} pix={String.join (px.toList.map DetStream.toHex4)}"
  | .bad y x =>
    let word := if kind == "boson" then le16 else be16
    let off := if kind == "boson" then 0 else leptonTelemetryBytes
    let px := DetStream.tabulateArr w h (scribble word raw off w (y, x) (fun _ _ => 0xeeee))
    s!"bad {String.join (px.toList.map DetStream.toHex4)}"

def step (st : St) (bl : Block) : St × List String :=
  match bl.op with
  | ["p", kind, w, h, edge, hex] => (st, [outOf kind (nat w) (nat h) (nat edge) (WriterStream.parseHexBytes hex)])
  | _ => (st, ["bad-op"])

def monStep (st : St) (bl : Block) : St × List String :=
  match bl.op with
  | ["p", kind, ws, hs, es, hex] =>
    let w := nat ws; let h := nat hs; let edge := nat es
    let arr := WriterStream.parseHexBytes hex
    let raw : Raw := fun i => arr.getD i 0
    let word := if kind == "boson" then le16 else be16
    let off := if kind == "boson" then 0 else leptonTelemetryBytes
    -- C13 literally: rejected iff some pixel outside the edge border is zero
    let interiorZero := (coords w h).any fun p => !onEdge w h edge p.1 p.2 && pixel word raw off w p.1 p.2 == 0
    let borderZ := (coords w h).any fun p => onEdge w h edge p.1 p.2 && pixel word raw off w p.1 p.2 == 0
    let st' := { st with n := st.n + 1, bad := st.bad + (if interiorZero then 1 else 0),
                         borderZero := st.borderZero + (if borderZ && !interiorZero then 1 else 0) }
    match bl.outs with
    | [("bad" :: _)] => (st', if interiorZero then [] else
        ["prop=C13 reason=frame-without-interior-zero-rejected"] ++
        (if borderZ then ["prop=C08 reason=border-pixel-made-the-parser-reject-the-frame"] else []))
    | [("ok" :: rest)] =>
      let pixHex := (rest.find? (·.startsWith "pix=")).map (fun s => (s.drop 4).toString)
      let expPix := String.join ((DetStream.tabulateArr w h (fun y x => pixel word raw off w y x)).toList.map DetStream.toHex4)
      (st', (if interiorZero then ["prop=C13 reason=zero-pixel-outside-border-accepted"] else []) ++
            (if pixHex == some expPix then [] else
               ["prop=C13 reason=pixels-not-decoded-exactly", "prop=C11 reason=accepted-frame-not-decoded-pixel-for-pixel"]))
    | _ => (st', ["prop=C13 reason=parser-crashed-or-no-output"])
  | _ => (st, [])

def monFinish (st : St) : List String :=
  [s!"STAT stream=parse frames={st.n} rejected={st.bad} borderzeroaccepted={st.borderZero} nontrivial={if st.bad ≥ 1 && st.bad < st.n then 1 else 0}"]

end Driver.ParseStream
