import TR.FS
import Generated.Facts
import Driver.Proto
/-! fs stream: model of the recorder's file-system calls, directory listing, clean-up and disk
gate; monitor = C10 over the REAL system-call trace (every prefix is a crash state). -/
namespace Driver.FsStream
open TR.FS Driver

structure Rec where
  idx : Nat
  frames : Nat

structure St where
  constOn : Bool
  nextMain : Nat := 0
  nextConst : Nat := 0
  openM : Option Rec := none
  openT : Option Rec := none
  openC : Option Rec := none
  finished : List (Nat × Nat) := []      -- main directory: (idx, frames) of finished recordings
  abandoned : List Nat := []             -- main directory: recordings left open at the crash
  failedStarts : List Nat := []          -- main directory: starts that failed while writing the header (T stays)

def init (f : List String) : St := { constOn := f.contains "const=1" }

def pre (who : String) : String := if who == "c" then "c" else ""
def kindCh : Kind → String
  | .T => "T" | .S => "S" | .F => "F"
def showSys (p : String) : Sys → Option String
  | .creat n => some s!"sys creat {p}{kindCh n.kind}{n.idx}"
  | .write _ => none                       -- buffered writes are not part of the skeleton
  | .close n => some s!"sys close {p}{kindCh n.kind}{n.idx}"
  | .unlink n => some s!"sys unlink {p}{kindCh n.kind}{n.idx}"
  | .rename a b => some s!"sys rename {p}{kindCh a.kind}{a.idx} {p}{kindCh b.kind}{b.idx}"

def getOpen (st : St) (who : String) : Option Rec :=
  if who == "m" then st.openM else if who == "t" then st.openT else st.openC
def setOpen (st : St) (who : String) (r : Option Rec) : St :=
  if who == "m" then { st with openM := r } else if who == "t" then { st with openT := r } else { st with openC := r }

/-- the pattern start-up clean-up uses, from the regenerated facts -/
def cleanupPattern : String := "*." ++ Facts.cptvTempExt ++ "*"

def insertSorted (x : Nat × Nat) : List (Nat × Nat) → List (Nat × Nat)
  | [] => [x]
  | y :: ys => if x.1 < y.1 then x :: y :: ys else y :: insertSorted x ys

def step (st : St) (bl : Block) : St × List String :=
  match bl.op with
  | ["s", who] =>
    let isC := who == "c"
    let idx := if isC then st.nextConst else st.nextMain
    let st := if isC then { st with nextConst := idx + 1 } else { st with nextMain := idx + 1 }
    -- a start while the previous recording of this recorder is still open abandons it (files stay)
    let st := match getOpen st who with
      | some r => if isC then st else { st with abandoned := r.idx :: st.abandoned }
      | none => st
    let st := setOpen st who (some { idx := idx, frames := 0 })
    (st, (startSteps idx).filterMap (showSys (pre who)) ++ ["ret ok"])
  | ["ss", a, b'] =>
    -- two main-directory recorders started back to back: two fresh names
    let i1 := st.nextMain
    let i2 := st.nextMain + 1
    let st := { st with nextMain := st.nextMain + 2 }
    let st := setOpen (setOpen st a (some { idx := i1, frames := 0 })) b' (some { idx := i2, frames := 0 })
    (st, (startSteps i1 ++ startSteps i2).filterMap (showSys "") ++ ["ret ok", "ret ok"])
  | ["h", who] =>
    -- start whose header cannot be written: uses up a name, leaves a closed partial T, opens nothing
    let isC := who == "c"
    let idx := if isC then st.nextConst else st.nextMain
    let st := if isC then { st with nextConst := idx + 1 } else { st with nextMain := idx + 1, failedStarts := idx :: st.failedStarts }
    (st, (startFailSteps idx).filterMap (showSys (pre who)) ++ ["ret err"])
  | ["w", who, n] =>
    match getOpen st who with
    | some r => (setOpen st who (some { r with frames := r.frames + nat n }), ["ret ok"])
    | none => (st, ["panic write"])
  | ["p", who] =>
    match getOpen st who with
    | some r =>
      let st := setOpen st who none
      let st := if who == "c" then st else { st with finished := insertSorted (r.idx, r.frames) st.finished }
      (st, (stopSteps r.idx).filterMap (showSys (pre who)) ++ ["ret ok"])
    | none => (st, ["ret ok"])
  | ["a", who] =>
    match getOpen st who with
    | some r => (setOpen st who none, (discardSteps r.idx).filterMap (showSys (pre who)) ++ ["ret ok"])
    | none => (st, ["ret ok"])
  | ["k", "zero"] => (st, ["gate zero true true"])
  | ["k", "huge"] => (st, ["gate huge false true"])
  | ["k", "below"] => (st, ["gate below true true"])
  | ["k", "above"] => (st, ["gate above false true"])
  | ["z"] =>
    -- main directory at the crash: finished recordings (F) and abandoned ones (T then S), by index
    let openIdx := ([st.openM, st.openT].filterMap (·.map (·.idx))) ++ st.abandoned
    let entries : List (Nat × List String) :=
      (st.finished.map fun p => (p.1, [s!"F{p.1}"])) ++ (openIdx.map fun i => (i, [s!"T{i}", s!"S{i}"])) ++
      (st.failedStarts.map fun i => (i, [s!"T{i}"]))
    let sorted := (List.range st.nextMain).flatMap fun i => (entries.filter (·.1 == i)).flatMap (·.2)
    let finals := (List.range st.finished.length).zip st.finished |>.map fun (k, p) =>
      s!"final {k} frames={p.2} background=1 decode=ok"
    -- clean-up: remove what the glob matches
    let kept := (List.range st.nextMain).flatMap fun i =>
      (entries.filter (·.1 == i)).flatMap fun e => e.2.filter fun nm =>
        let k : Kind := if nm.startsWith "F" then .F else if nm.startsWith "T" then .T else .S
        !removedByCleanup cleanupPattern "20210304.101112.123" k
    let constDir : List String := if st.constOn then [] else []
    let _ := constDir
    let removed := sorted.filter fun nm => !kept.contains nm
    (st, removed.map (fun nm => s!"sys unlink {nm}") ++
         [joinSp ("dir" :: sorted)] ++ finals ++ ["cleanup ok", joinSp ("dir-after-cleanup" :: kept)])
  | _ => (st, ["bad-op"])

/-! ## monitor: C10 over the real call trace -/

structure MSt where
  main : Dir := {}
  cdir : Dir := {}
  fails : List String := []
  steps : Nat := 0
  renames : Nat := 0
  crashStates : Nat := 0
  leftovers : Nat := 0

def monInit (_ : List String) : MSt := {}

def parseName (s : String) : Option (Bool × Name) :=
  let (isC, body) := if s.startsWith "c" then (true, (s.drop 1).toString) else (false, s)
  let k : Option Kind := if body.startsWith "T" then some .T else if body.startsWith "S" then some .S
    else if body.startsWith "F" then some .F else none
  k.map fun k => (isC, { idx := nat ((body.drop 1).toString), kind := k })

def parseSys : List String → Option (Bool × Sys)
  | ["sys", "creat", a] => (parseName a).map fun (c, n) => (c, .creat n)
  | ["sys", "write", a] => (parseName a).map fun (c, n) => (c, .write n)
  | ["sys", "close", a] => (parseName a).map fun (c, n) => (c, .close n)
  | ["sys", "unlink", a] => (parseName a).map fun (c, n) => (c, .unlink n)
  | ["sys", "rename", a, b] =>
    match parseName a, parseName b with
    | some (c, x), some (_, y) => some (c, .rename x y)
    | _, _ => none
  | _ => none

def monStep (m : MSt) (bl : Block) : MSt × List String :=
  -- every system call is a possible crash point: check the directory after each of them
  let (m, fails) := bl.outs.foldl (fun (acc : MSt × List String) o =>
    let (m, fs) := acc
    match parseSys o with
    | some (isC, sys) =>
      let d := if isC then m.cdir else m.main
      let d' := d.step sys
      let f := if d'.ok then [] else
        (if d.ok then ["prop=C10 reason=cptv-name-not-a-complete-recording-after-" ++ joinSp (o.drop 1 |>.take 1)] else [])
      let m := if isC then { m with cdir := d' } else { m with main := d' }
      ({ m with steps := m.steps + 1, crashStates := m.crashStates + 1,
                renames := m.renames + (match sys with | .rename .. => 1 | _ => 0) }, fs ++ f)
    | none =>
      if o.head? == some "sys" then (m, fs ++ ["prop=C10 reason=unrecognised-file-name " ++ joinSp o]) else (m, fs)) (m, [])
  match bl.op with
  | ["z"] =>
    let finalsBad := bl.outs.filter fun o => o.head? == some "final" && !o.contains "decode=ok"
    let after := (bl.outs.find? (fun o => o.head? == some "dir-after-cleanup")).getD []
    let debris := (after.drop 1).filter fun n => !n.startsWith "F"
    let dirNow := (bl.outs.find? (fun o => o.head? == some "dir")).getD []
    let left := ((dirNow.drop 1).filter fun n => !n.startsWith "F").length
    ({ m with leftovers := m.leftovers + left },
     fails ++ (if finalsBad.isEmpty then [] else ["prop=C10 reason=finished-file-does-not-decode"]) ++
     (if debris.isEmpty then [] else ["prop=C10 reason=debris-survives-cleanup " ++ joinSp debris]) ++
     (if bl.outs.contains ["cleanup", "ok"] then [] else ["prop=C10 reason=cleanup-failed"]))
  | ["k", what] =>
    -- C04: the disk gate
    let exp := if what == "zero" || what == "below" then "true" else "false"
    match bl.outs.find? (fun o => o.head? == some "gate") with
    | some ["gate", _, got, _] => (m, fails ++ (if got == exp then [] else ["prop=C04 reason=disk-gate-wrong-" ++ what]))
    | _ => (m, fails ++ ["prop=C04 reason=disk-gate-no-output"])
  | _ =>
    -- C12: no call of the file recorder panics, whatever failed before (the generator never writes to a
    -- recorder that has no open recording)
    match bl.outs.find? (fun o => o.head? == some "panic") with
    | some o => (m, fails ++ ["prop=C12 reason=file-recorder-panics-in-" ++ joinSp (o.drop 1)])
    | none => (m, fails)

def monFinish (m : MSt) : List String :=
  [s!"STAT stream=fs syscalls={m.steps} crashstates={m.crashStates} renames={m.renames} abandonedfiles={m.leftovers} " ++
   s!"nontrivial={if m.renames ≥ 1 then 1 else 0}"]

end Driver.FsStream
