import Proofs.PipeC04
import Proofs.PipeC15
import Proofs.DetC09
/-!
# Proofs.PipeC09 — the detector inside the composed pipeline (C09 end to end)

`Proofs.DetC09` proves C09 for the detector alone (`Det.outputs` over `DEv` lists).  Here the detector is the
`det` field of the composed pipeline of `TR.Pipeline`, driven by whole socket histories with changing gates
(`Proofs.PipeC04`: `GOp`, `Pipe.gop`, `runG`, `evsFrom`, `evsG`).

* §A  the detector event a pipeline step induces (`devOf`, `devsG`): an accepted frame with the FFC flag computed
      from its telemetry, a `Reset` for the `clear` marker, nothing for a rejected frame or a test request; the
      detector field of the pipeline is `Det.after` of those events (`fold_det`, `runG_det`);
* §B  the verdicts carried by the induced processor events are `Det.outputs` of those events (`verdictsOf_evsFrom`);
      two pipeline states whose detectors give the same outputs induce the SAME processor events (`evsFrom_congr`);
* §C  the two flags that survive `Det.reset` (`firstDiff`, `affected`) as a function of the event shape
      (`flagsAfter`), the ring invariant along every run (`Wf`), the relation of `Proofs.DetC09` right after a
      reset from two arbitrary reachable states with equal flags (`rel_after_reset`);
* §D  fixed threshold: the content-independent fields of every reachable detector (`Fixed`);
* §E  the first frame after a reset is compared with itself (`Fresh`, `fresh_quiet`);
* §F  the processor on equal events from two states that agree on the start-relevant fields (`CoreQ`, `proc_sim`,
      `proc_sim_stop`): recordings start and stop at the same events;
* §G  which steps of a history start a motion file (`startFlags`) in terms of the processor run.
-/
namespace TR.PipeC09
open TR TR.C01Spec TR.PipeC04 TR.PipeLemmas

/-! ## (A) the detector events of a history -/

/-- `isAffectedByFFC` of an accepted frame: computed from the frame's own telemetry (ms → ns) -/
def ffcOf (c : PipeCfg) (tel : Parse.Telemetry) : Bool :=
  Det.affectedBy c.det ((tel.timeOnMs : Int) * 1000000) ((tel.lastFFCMs : Int) * 1000000)

/-- the detector event one pipeline step induces (the gates play no role) -/
def devOfOp (c : PipeCfg) : PipeOp → Option DEv
  | .testReq => none
  | .item .clear => some .reset
  | .item (.frame bytes) =>
    match parseItem c bytes with
    | .bad _ _ => none
    | .ok pix tel => some (.frame pix (ffcOf c tel))

def devOf (c : PipeCfg) (g : GOp) : Option DEv := devOfOp c g.op

/-- the detector events of a list of steps -/
def devsG (c : PipeCfg) (gs : List GOp) : List DEv := gs.filterMap (devOf c)

theorem devsG_nil (c : PipeCfg) : devsG c [] = [] := rfl

theorem devsG_cons (c : PipeCfg) (g : GOp) (gs : List GOp) :
    devsG c (g :: gs) = (devOf c g).toList ++ devsG c gs := by
  unfold devsG
  rw [List.filterMap_cons]
  cases devOf c g <;> rfl

theorem devsG_append (c : PipeCfg) (a b : List GOp) : devsG c (a ++ b) = devsG c a ++ devsG c b := by
  simp only [devsG, List.filterMap_append]

theorem devOf_clear (c : PipeCfg) (g : GOp) (h : g.op = .item .clear) : devOf c g = some .reset := by
  unfold devOf; rw [h]; rfl

theorem devOf_testReq (c : PipeCfg) (g : GOp) (h : g.op = .testReq) : devOf c g = none := by
  unfold devOf; rw [h]; rfl

theorem devOf_bad (c : PipeCfg) (g : GOp) (bytes : List Nat) (y x : Nat) (h : g.op = .item (.frame bytes))
    (hp : parseItem c bytes = .bad y x) : devOf c g = none := by
  unfold devOf; rw [h]; simp only [devOfOp, hp]

theorem devOf_ok (c : PipeCfg) (g : GOp) (bytes : List Nat) (pix : Frame) (tel : Parse.Telemetry)
    (h : g.op = .item (.frame bytes)) (hp : parseItem c bytes = .ok pix tel) :
    devOf c g = some (.frame pix (ffcOf c tel)) := by
  unfold devOf; rw [h]; simp only [devOfOp, hp]

section det
variable {F : FloatOps}

theorem det_after_append (c : DCfg) : ∀ (a b : List DEv) (d : Det F),
    Det.after c d (a ++ b) = Det.after c (Det.after c d a) b := by
  intro a
  induction a with
  | nil => intro b d; rfl
  | cons e a ih => intro b d; simp only [List.cons_append, Det.after, ih]

theorem outputs_append (c : DCfg) : ∀ (a b : List DEv) (d : Det F),
    Det.outputs c d (a ++ b) = Det.outputs c d a ++ Det.outputs c (Det.after c d a) b := by
  intro a
  induction a with
  | nil => intro b d; rfl
  | cons e a ih =>
    intro b d
    cases e with
    | frame f ffc => simp only [List.cons_append, Det.outputs, Det.after, Det.stepEv, ih]
    | reset => simp only [List.cons_append, Det.outputs, Det.after, Det.stepEv, ih]

/-- the observation fold leaves the detector alone -/
theorem fold_obs_det (c : PipeCfg) (obs : List Obs) (p : Pipe F) : (obs.foldl (Pipe.applyObs c) p).det = p.det :=
  (applyObs_fold_started c obs p).1

/-- **the detector after a `clear` marker is the old detector, `Reset`** -/
theorem item_clear_det (c : PipeCfg) (p : Pipe F) : (Pipe.item c p .clear).det = p.det.reset := by
  rw [item_clear]
  show (Pipe.det (List.foldl _ _ _)).reset = _
  rw [fold_obs_det]

theorem item_bad_det (c : PipeCfg) (p : Pipe F) (bytes : List Nat) (y x : Nat)
    (h : parseItem c bytes = .bad y x) : (Pipe.item c p (.frame bytes)).det = p.det := by
  rw [item_bad c p bytes y x h]
  show Pipe.det (List.foldl _ _ _) = _
  rw [fold_obs_det]

theorem item_ok_det (c : PipeCfg) (p : Pipe F) (bytes : List Nat) (pix : Frame) (tel : Parse.Telemetry)
    (h : parseItem c bytes = .ok pix tel) :
    (Pipe.item c p (.frame bytes)).det = (Det.detect c.det p.det pix (ffcOf c tel)).1 := by
  rw [item_ok c p bytes pix tel h]
  show Pipe.det (List.foldl _ _ _) = _
  rw [fold_obs_det]
  rfl

/-- one step of the pipeline moves the detector by the induced detector event (or not at all) -/
theorem gop_det (c : PipeCfg) (p : Pipe F) (g : GOp) :
    (Pipe.gop c p g).det = Det.after c.det p.det (devOf c g).toList := by
  obtain ⟨w, d, o⟩ := g
  cases o with
  | testReq => rfl
  | item it =>
    cases it with
    | clear => exact item_clear_det (withGates c ⟨w, d, .item .clear⟩) p
    | frame bytes =>
      cases hres : parseItem c bytes with
      | bad y x =>
        rw [devOf_bad c _ bytes y x rfl hres]
        exact item_bad_det (withGates c ⟨w, d, .item (.frame bytes)⟩) p bytes y x hres
      | ok pix tel =>
        rw [devOf_ok c _ bytes pix tel rfl hres]
        exact item_ok_det (withGates c ⟨w, d, .item (.frame bytes)⟩) p bytes pix tel hres

theorem fold_det (c : PipeCfg) : ∀ (gs : List GOp) (p : Pipe F),
    (gs.foldl (Pipe.gop c) p).det = Det.after c.det p.det (devsG c gs) := by
  intro gs
  induction gs with
  | nil => intro p; rfl
  | cons g gs ih =>
    intro p
    rw [List.foldl_cons, ih, gop_det, devsG_cons, det_after_append]

/-- **the detector of the pipeline after a history is the detector model after the induced events** -/
theorem runG_det (c : PipeCfg) (gs : List GOp) :
    (runG F c gs).det = Det.after c.det (Det.init F c.det) (devsG c gs) :=
  fold_det c gs (Pipe.init F c)

end det

/-! ## (B) the verdicts inside the induced processor events -/

/-- the detector verdicts carried by a list of processor events: the motion bits of its frame events -/
def verdictsOf (evs : List Ev) : List Bool := (evs.filter Ev.isFrame).map Ev.motion

theorem verdictsOf_nil : verdictsOf [] = [] := rfl

theorem verdictsOf_cons_nonframe (e : Ev) (es : List Ev) (h : e.isFrame = false) :
    verdictsOf (e :: es) = verdictsOf es := by
  simp only [verdictsOf, List.filter_cons, h, Bool.false_eq_true, if_false]

theorem verdictsOf_cons_frame (m : Bool) (f : Faults) (es : List Ev) :
    verdictsOf (.frame m f :: es) = m :: verdictsOf es := by
  simp only [verdictsOf, List.filter_cons, Ev.isFrame, if_true, List.map_cons, Ev.motion]

theorem verdictsOf_append (a b : List Ev) : verdictsOf (a ++ b) = verdictsOf a ++ verdictsOf b := by
  simp only [verdictsOf, List.filter_append, List.map_append]

section verdicts
variable {F : FloatOps}

/-- **one step, uniformly in the pipeline state**: what the step means to the detector and which processor
event it induces.  Only the verdict inside a frame event depends on the state, and only through `det`. -/
theorem step_kind (c : PipeCfg) (g : GOp) :
    (devOf c g = none ∧ ∃ e : Ev, e.isFrame = false ∧
      ∀ q : Pipe F, Pipe.evOf c q g = e ∧ (Pipe.gop c q g).det = q.det) ∨
    (devOf c g = some .reset ∧ g.op = .item .clear ∧ ∃ e : Ev, e.isFrame = false ∧
      ∀ q : Pipe F, Pipe.evOf c q g = e ∧ (Pipe.gop c q g).det = q.det.reset) ∨
    (∃ pix ffc, devOf c g = some (.frame pix ffc) ∧
      ∀ q : Pipe F, Pipe.evOf c q g = .frame (Det.detect c.det q.det pix ffc).2 (gfaults g) ∧
        (Pipe.gop c q g).det = (Det.detect c.det q.det pix ffc).1) := by
  obtain ⟨w, d, o⟩ := g
  cases o with
  | testReq => exact Or.inl ⟨rfl, .testReq, rfl, fun q => ⟨rfl, rfl⟩⟩
  | item it =>
    cases it with
    | clear =>
      refine Or.inr (Or.inl ⟨rfl, rfl, .reset (gfaults ⟨w, d, .item .clear⟩), rfl, fun q => ⟨rfl, ?_⟩⟩)
      exact item_clear_det (withGates c ⟨w, d, .item .clear⟩) q
    | frame bytes =>
      cases hres : parseItem c bytes with
      | bad y x =>
        refine Or.inl ⟨devOf_bad c _ bytes y x rfl hres, .bad (gfaults ⟨w, d, .item (.frame bytes)⟩), rfl,
          fun q => ⟨?_, ?_⟩⟩
        · exact evOfOp_bad (withGates c ⟨w, d, .item (.frame bytes)⟩) q bytes y x hres
        · exact item_bad_det (withGates c ⟨w, d, .item (.frame bytes)⟩) q bytes y x hres
      | ok pix tel =>
        refine Or.inr (Or.inr ⟨pix, ffcOf c tel, devOf_ok c _ bytes pix tel rfl hres, fun q => ⟨?_, ?_⟩⟩)
        · exact evOfOp_ok (withGates c ⟨w, d, .item (.frame bytes)⟩) q bytes pix tel hres
        · exact item_ok_det (withGates c ⟨w, d, .item (.frame bytes)⟩) q bytes pix tel hres

/-- **the verdicts in the processor events a list of steps induces are the detector model's outputs on the
induced detector events** -/
theorem verdictsOf_evsFrom (c : PipeCfg) : ∀ (gs : List GOp) (p : Pipe F),
    verdictsOf (evsFrom c p gs) = Det.outputs c.det p.det (devsG c gs) := by
  intro gs
  induction gs with
  | nil => intro p; rfl
  | cons g gs ih =>
    intro p
    rw [devsG_cons]
    simp only [evsFrom]
    rcases step_kind (F := F) c g with ⟨hd, e, he, hq⟩ | ⟨hd, _, e, he, hq⟩ | ⟨pix, ffc, hd, hq⟩
    · rw [hd, (hq p).1, verdictsOf_cons_nonframe e _ he, ih, (hq p).2]; rfl
    · rw [hd, (hq p).1, verdictsOf_cons_nonframe e _ he, ih, (hq p).2]; rfl
    · rw [hd, (hq p).1, verdictsOf_cons_frame, ih, (hq p).2]; rfl

/-- the verdicts of a whole history -/
theorem verdictsOf_evsG (c : PipeCfg) (gs : List GOp) :
    verdictsOf (evsG F c gs) = Det.outputs c.det (Det.init F c.det) (devsG c gs) :=
  verdictsOf_evsFrom c gs (Pipe.init F c)

/-- two pipeline states whose detectors give the same verdicts on the detector events of `gs` induce the same
processor events on `gs` (same steps, same gates) -/
theorem evsFrom_congr (c : PipeCfg) : ∀ (gs : List GOp) (p q : Pipe F),
    Det.outputs c.det p.det (devsG c gs) = Det.outputs c.det q.det (devsG c gs) →
    evsFrom c p gs = evsFrom c q gs := by
  intro gs
  induction gs with
  | nil => intro p q _; rfl
  | cons g gs ih =>
    intro p q h
    rw [devsG_cons] at h
    simp only [evsFrom]
    rcases step_kind (F := F) c g with ⟨hd, e, _, hq⟩ | ⟨hd, _, e, _, hq⟩ | ⟨pix, ffc, hd, hq⟩
    · rw [hd] at h
      rw [(hq p).1, (hq q).1]
      congr 1
      apply ih
      rw [(hq p).2, (hq q).2]
      exact h
    · rw [hd] at h
      rw [(hq p).1, (hq q).1]
      congr 1
      apply ih
      rw [(hq p).2, (hq q).2]
      exact h
    · rw [hd] at h
      have h' : (Det.detect c.det p.det pix ffc).2 :: Det.outputs c.det (Det.detect c.det p.det pix ffc).1 (devsG c gs) =
          (Det.detect c.det q.det pix ffc).2 :: Det.outputs c.det (Det.detect c.det q.det pix ffc).1 (devsG c gs) := h
      obtain ⟨h1, h2⟩ := List.cons.inj h'
      rw [(hq p).1, (hq q).1, h1]
      congr 1
      apply ih
      rw [(hq p).2, (hq q).2]
      exact h2

theorem evsG_append (c : PipeCfg) (a b : List GOp) :
    evsG F c (a ++ b) = evsG F c a ++ evsFrom c (runG F c a) b :=
  evsFrom_append c a b (Pipe.init F c)

/-- the events of the steps after a prefix, cut out of the events of the whole history -/
theorem evsG_drop (c : PipeCfg) (a b : List GOp) :
    (evsG F c (a ++ b)).drop a.length = evsFrom c (runG F c a) b := by
  rw [evsG_append, ← evsG_length (F := F) c a, List.drop_left]

end verdicts

/-! ## (C) what survives `Det.reset`; two reachable detectors right after a reset -/

open TR.P09

/-- `(firstDiff, affected)` after one detector event -/
def flagStep (fl : Bool × Bool) : DEv → Bool × Bool
  | .frame _ ffc => (!(fl.1 && (ffc || fl.2)), ffc)
  | .reset => fl

/-- `(firstDiff, affected)` after a list of detector events from a fresh detector: a function of the SHAPE of the
list (constructors and FFC flags) only — `firstDiff` is false until the first frame and toggles while an FFC
period lasts, `affected` is the FFC flag of the last frame; `Reset` changes neither -/
def flagsAfter (evs : List DEv) : Bool × Bool := evs.foldl flagStep (false, false)

section reset
variable {F : FloatOps}

theorem after_flags (c : DCfg) : ∀ (evs : List DEv) (d : Det F),
    ((Det.after c d evs).firstDiff, (Det.after c d evs).affected) = evs.foldl flagStep (d.firstDiff, d.affected) := by
  intro evs
  induction evs with
  | nil => intro d; rfl
  | cons e es ih =>
    intro d
    cases e with
    | frame f ffc =>
      simp only [Det.after, Det.stepEv, List.foldl_cons, flagStep]
      rw [ih, det_firstDiff, detect_affected]
    | reset =>
      simp only [Det.after, Det.stepEv, List.foldl_cons, flagStep]
      rw [ih]
      rfl

/-- the ring invariants of every reachable detector -/
structure Wf (c : DCfg) (d : Det F) : Prop where
  ds : d.diffs.size = 2
  dc : d.diffs.cur < 2
  fs : d.floored.size = c.gap + 1
  ri : ∃ g, RInv d.floored g

theorem wf_init (F : FloatOps) (c : DCfg) : Wf c (Det.init F c) :=
  ⟨rfl, by simp [Det.init, Ring.new], rfl, ⟨_, inv_new _ _ (Nat.succ_pos _)⟩⟩

theorem wf_detect (c : DCfg) (d : Det F) (f : Frame) (ffc : Bool) (w : Wf c d) : Wf c (Det.detect c d f ffc).1 := by
  obtain ⟨g, hg⟩ := w.ri
  have pA := prev_after d.diffs (newDiff c d f ffc) w.ds w.dc
  refine ⟨?_, ?_, ?_, ⟨_, gstep_inv c d g f ffc hg⟩⟩
  · rw [det_diffs]; exact pA.2.2
  · rw [det_diffs, pA.2.1]; omega
  · rw [det_floored_size]; exact w.fs

theorem wf_reset (c : DCfg) (d : Det F) (w : Wf c d) : Wf c d.reset := by
  obtain ⟨g, hg⟩ := w.ri
  exact ⟨w.ds, by simp [Det.reset, Ring.reset], w.fs, ⟨_, inv_reset _ _ hg⟩⟩

theorem wf_after (c : DCfg) : ∀ (evs : List DEv) (d : Det F), Wf c d → Wf c (Det.after c d evs) := by
  intro evs
  induction evs with
  | nil => intro d w; exact w
  | cons e es ih =>
    intro d w
    cases e with
    | frame f ffc => exact ih _ (wf_detect c d f ffc w)
    | reset => exact ih _ (wf_reset c d w)

/-- two well-formed detectors with the same two flags, right after `Reset`: same shape -/
theorem shape_after_reset (c : DCfg) (dA dB : Det F) (wA : Wf c dA) (wB : Wf c dB)
    (hfd : dA.firstDiff = dB.firstDiff) (haff : dA.affected = dB.affected) :
    Shape dA.reset dB.reset (Ghost.reset (dA.floored.slots 0)) (Ghost.reset (dB.floored.slots 0)) := by
  obtain ⟨gA, hA⟩ := wA.ri
  obtain ⟨gB, hB⟩ := wB.ri
  exact ⟨hfd, haff, rfl, rfl, by simp [Det.reset, Ring.reset], wA.ds, wB.ds, wA.fs.trans wB.fs.symm,
    inv_reset _ _ hA, inv_reset _ _ hB, rfl, rfl⟩

/-- … and, when the background / threshold state agrees, related by the invariant of `Proofs.DetC09` -/
theorem rel_after_reset (c : DCfg) (dA dB : Det F) (wA : Wf c dA) (wB : Wf c dB)
    (hfd : dA.firstDiff = dB.firstDiff) (haff : dA.affected = dB.affected) (hd : DynOK c dA dB) :
    Rel c dA.reset dB.reset (Ghost.reset (dA.floored.slots 0)) (Ghost.reset (dB.floored.slots 0)) :=
  ⟨shape_after_reset c dA dB wA wB hfd haff, Or.inl (fun k _ hk => absurd hk (Nat.not_lt_zero k)),
    Or.inl (dyn_reset c dA dB hd), Or.inr (Or.inr (Or.inl rfl))⟩

/-! ## (D) fixed threshold: the fields no frame ever touches -/

/-- with `dynamic = false` the threshold and the background state of every reachable detector are those of a
fresh one -/
structure Fixed (c : DCfg) (d : Det F) : Prop where
  t : d.tempThresh = c.tempThresh
  bg : d.bg = Det.zeroFrame
  seeded : d.bgSeeded = false
  w : d.weight = fun _ _ => F.w0
  bf : d.backgroundFrames = 0

theorem fixed_init (F : FloatOps) (c : DCfg) : Fixed c (Det.init F c) := ⟨rfl, rfl, rfl, rfl, rfl⟩

theorem fixed_detect (c : DCfg) (hdyn : c.dynamic = false) (d : Det F) (f : Frame) (ffc : Bool) (h : Fixed c d) :
    Fixed c (Det.detect c d f ffc).1 := by
  have hs : (c.dynamic && !ffc) = false := by simp [hdyn]
  rw [detect_eq, dpre_skip c d f ffc hs, pc_eq]
  exact ⟨h.t, h.bg, h.seeded, h.w, h.bf⟩

theorem fixed_reset (c : DCfg) (d : Det F) (h : Fixed c d) : Fixed c d.reset := ⟨h.t, h.bg, h.seeded, h.w, rfl⟩

theorem fixed_after (c : DCfg) (hdyn : c.dynamic = false) : ∀ (evs : List DEv) (d : Det F), Fixed c d →
    Fixed c (Det.after c d evs) := by
  intro evs
  induction evs with
  | nil => intro d h; exact h
  | cons e es ih =>
    intro d h
    cases e with
    | frame f ffc => exact ih _ (fixed_detect c hdyn d f ffc h)
    | reset => exact ih _ (fixed_reset c d h)

theorem fixed_dynOK (c : DCfg) (dA dB : Det F) (hA : Fixed c dA) (hB : Fixed c dB) : DynOK c dA dB :=
  ⟨fun _ _ => by rw [hA.bg, hB.bg], fun _ _ => by rw [hA.w, hB.w], fun _ _ => hA.t.trans hB.t.symm⟩

/-- **fixed threshold: after `Reset`, two reachable detectors with the same two flags give the same verdicts on
every event list** (frames, FFC periods, further resets) -/
theorem outputs_after_reset (c : DCfg) (hdyn : c.dynamic = false) (preA preB post : List DEv)
    (hfl : flagsAfter preA = flagsAfter preB) :
    Det.outputs c (Det.after c (Det.init F c) preA).reset post =
    Det.outputs c (Det.after c (Det.init F c) preB).reset post := by
  have fA := after_flags c preA (Det.init F c)
  have fB := after_flags c preB (Det.init F c)
  have e : ((Det.after c (Det.init F c) preA).firstDiff, (Det.after c (Det.init F c) preA).affected) =
      ((Det.after c (Det.init F c) preB).firstDiff, (Det.after c (Det.init F c) preB).affected) := by
    rw [fA, fB]; exact hfl
  have hd := fixed_dynOK c _ _ (fixed_after c hdyn preA _ (fixed_init F c)) (fixed_after c hdyn preB _ (fixed_init F c))
  exact rel_run c post _ _ _ _
    (rel_after_reset c _ _ (wf_after c preA _ (wf_init F c)) (wf_after c preB _ (wf_init F c))
      (congrArg Prod.fst e) (congrArg Prod.snd e) hd)
    (Or.inl (dyn_reset c _ _ hd))

/-- prefixes of the same shape leave the same flags -/
theorem sameShape_flags : ∀ (a b : List DEv) (fl : Bool × Bool), sameShape a b →
    a.foldl flagStep fl = b.foldl flagStep fl := by
  intro a
  induction a with
  | nil =>
    intro b fl h
    cases b with
    | nil => rfl
    | cons _ _ => exact absurd h (by simp [sameShape])
  | cons x xs ih =>
    intro b fl h
    cases b with
    | nil => cases x <;> exact absurd h (by simp [sameShape])
    | cons y ys =>
      cases x with
      | frame f fa =>
        cases y with
        | frame g fb =>
          simp only [sameShape] at h
          obtain ⟨rfl, h⟩ := h
          exact ih ys _ h
        | reset => exact absurd h (by simp [sameShape])
      | reset =>
        cases y with
        | frame g fb => exact absurd h (by simp [sameShape])
        | reset =>
          simp only [sameShape] at h
          exact ih ys _ h

/-! ## (E) the first frame after a reset is compared with itself -/

/-- the floored ring holds no frame `Oldest()` could return but the one about to be written -/
def Fresh (d : Det F) : Prop := ∃ g, RInv d.floored g ∧ g.mark = g.n

theorem fresh_reset (c : DCfg) (d : Det F) (w : Wf c d) : Fresh d.reset := by
  obtain ⟨g, hg⟩ := w.ri
  exact ⟨_, inv_reset _ _ hg, rfl⟩

/-- with `countThresh ≥ 1` such a frame is never motion -/
theorem fresh_quiet (c : DCfg) (hc : 1 ≤ c.countThresh) (d : Det F) (f : Frame) (ffc : Bool) (h : Fresh d) :
    (Det.detect c d f ffc).2 = false := by
  obtain ⟨g, hg, hm⟩ := h
  rw [det_out]
  have z : Det.countChanged c (newDiff c d f ffc)
      (if c.useOneDiff then none else some ((d.diffs.write (newDiff c d f ffc)).move).current) = 0 := by
    apply countChanged_zero
    unfold newDiff
    rw [cmp_self _ _ f hg hm]
    exact diffOf_self c _ f _
  rw [z]
  have : ¬ (0 ≥ c.countThresh) := by omega
  simp [this]

/-- the first verdict after a reset, whenever it comes, is "no motion" -/
theorem fresh_head (c : DCfg) (hc : 1 ≤ c.countThresh) : ∀ (evs : List DEv) (d : Det F), Wf c d → Fresh d →
    ∀ m, (Det.outputs c d evs).head? = some m → m = false := by
  intro evs
  induction evs with
  | nil => intro d _ _ m h; cases h
  | cons e es ih =>
    intro d w fr m h
    cases e with
    | frame f ffc =>
      simp only [Det.outputs, Det.stepEv, List.head?_cons, Option.some.injEq] at h
      rw [← h]
      exact fresh_quiet c hc d f ffc fr
    | reset =>
      simp only [Det.outputs, Det.stepEv] at h
      exact ih _ (wf_reset c d w) (fresh_reset c d w) m h

end reset

/-! ## (F) the processor on the same events from two states that agree on the start-relevant fields -/

open TR.P03 in
/-- the summary functions of `Proofs.ProcProto03` read the state through these five values only -/
theorem summary_congr (c : PCfg) (a b : PState) (m : Bool) (f : Faults) (hr : a.isRec = b.isRec)
    (hfw : a.framesWritten = b.framesWritten) (hwu : a.writeUntil = b.writeUntil)
    (hatt : attempt c a m = attempt c b m) (hsw : startWU c a f = startWU c b f) :
    starts c a m f = starts c b m f ∧ rec1 c a m f = rec1 c b m f ∧ wu1 c a m f = wu1 c b m f ∧
    stops c a m f = stops c b m f := by
  have h1 : starts c a m f = starts c b m f := by unfold starts; rw [hatt]
  have h2 : rec1 c a m f = rec1 c b m f := by unfold rec1; rw [hr, h1]
  have h3 : wu1 c a m f = wu1 c b m f := by unfold wu1; rw [hr, hfw, hwu, h1, hsw]
  have h4 : stops c a m f = stops c b m f := by unfold stops; rw [h2, h3, hfw]
  exact ⟨h1, h2, h3, h4⟩

/-- under the ring invariant and without write faults a successful start always sets `writeUntil := minF` -/
theorem startWU_good (c : PCfg) (s : PState) (f : Faults) (hg : Good c s) (hf : f.mWriteFail = 0) :
    P03.startWU c (P03.pre s) f = c.minF := by
  obtain ⟨lo, _, hh⟩ := good_history hg
  unfold P03.startWU
  show (match (s.ring.write s.n).history with
    | none => s.writeUntil
    | some h => if (PState.preTrigger f.mWriteFail h.dropLast 0).2.1 then c.minF else s.writeUntil) = c.minF
  rw [hh, hf]
  simp only [(P03.pt_nofault _ 0).1, if_true]

theorem stopRecording_core (s : PState) (ok : Bool) :
    (s.stopRecording ok).1.isRec = false ∧
    (s.stopRecording ok).1.framesWritten = (if s.isRec then 0 else s.framesWritten) ∧
    (s.stopRecording ok).1.writeUntil = (if s.isRec then 0 else s.writeUntil) ∧
    (s.stopRecording ok).1.triggered = (if s.isRec then 0 else s.triggered) := by
  unfold PState.stopRecording
  cases h : s.isRec <;> simp [h]

/-- the four fields after an event that is not an accepted frame -/
theorem nonframe_core (c : PCfg) (s : PState) (e : Ev) (he : e.isFrame = false) :
    (PState.step c s e).1.isRec = (match e with | .testReq => s.isRec | _ => false) ∧
    (PState.step c s e).1.framesWritten = (match e with | .testReq => s.framesWritten | _ => if s.isRec then 0 else s.framesWritten) ∧
    (PState.step c s e).1.writeUntil = (match e with | .testReq => s.writeUntil | _ => if s.isRec then 0 else s.writeUntil) ∧
    (PState.step c s e).1.triggered = (match e with | .testReq => s.triggered | _ => if s.isRec then 0 else s.triggered) := by
  cases e with
  | frame m f => cases he
  | bad f =>
    simp only [PState.step, PState.processBad, andThen_fst]
    obtain ⟨k, hk⟩ := scr_shape c (PState.stopRecording { s with ring := s.ring.write garbage } f.mStop).1 f
    rw [hk]
    exact stopRecording_core { s with ring := s.ring.write garbage } f.mStop
  | reset f => exact stopRecording_core s f.mStop
  | testReq => exact ⟨rfl, rfl, rfl, rfl⟩

theorem stopRecording_hasStop (s : PState) (ok : Bool) : hasStop (s.stopRecording ok).2 = s.isRec := by
  unfold PState.stopRecording
  cases h : s.isRec <;> simp [P03.hasStop_cons, P03.hasStop_nil]

theorem stopConstantRecorder_hasStop (c : PCfg) (s : PState) (f : Faults) :
    hasStop (PState.stopConstantRecorder c s f).2 = false := by
  unfold PState.stopConstantRecorder
  split <;> simp [P03.hasStop_cons, P03.hasStop_nil]

/-- an event that is not an accepted frame stops the recording that is open, if any (a test request does not) -/
theorem nonframe_hasStop (c : PCfg) (s : PState) (e : Ev) (he : e.isFrame = false) :
    hasStop (PState.step c s e).2 = (match e with | .testReq => false | _ => s.isRec) := by
  cases e with
  | frame m f => cases he
  | bad f =>
    simp only [PState.step, PState.processBad, andThen_snd, P03.hasStop_append, stopRecording_hasStop,
      stopConstantRecorder_hasStop, Bool.or_false]
  | reset f => exact stopRecording_hasStop s f.mStop
  | testReq => rfl

/-- while no recording is open, the two counters of a recording are zero (every reachable state) -/
def Idle0 (s : PState) : Prop := s.isRec = false → s.framesWritten = 0 ∧ s.writeUntil = 0

theorem idle0_init (c : PCfg) : Idle0 (PState.init c) := fun _ => ⟨rfl, rfl⟩

theorem idle0_step (c : PCfg) (s : PState) (e : Ev) (h : Idle0 s) : Idle0 (PState.step c s e).1 := by
  cases e with
  | frame m f =>
    obtain ⟨_, _, h3, _, h5, h6⟩ := P03.frame_summary c s m f
    intro hr
    rw [h3] at hr
    rw [h5, h6]
    cases hrec : P03.rec1 c (P03.pre s) m f
    · simp only [Bool.false_eq_true, if_false]
      apply h
      have : (s.isRec || P03.starts c (P03.pre s) m f) = false := hrec
      simp only [Bool.or_eq_false_iff] at this
      exact this.1
    · rw [hrec] at hr
      have hs : P03.stops c (P03.pre s) m f = true := by simpa using hr
      simp only [hs, if_true]
      exact ⟨trivial, trivial⟩
  | bad f =>
    obtain ⟨_, h2, h3, _⟩ := nonframe_core c s (.bad f) rfl
    intro _
    rw [h2, h3]
    cases hr : s.isRec
    · simpa using h hr
    · simp
  | reset f =>
    obtain ⟨_, h2, h3, _⟩ := nonframe_core c s (.reset f) rfl
    intro _
    rw [h2, h3]
    cases hr : s.isRec
    · simpa using h hr
    · simp
  | testReq => exact h

theorem idle0_after (c : PCfg) : ∀ (evs : List Ev) (s : PState), Idle0 s → Idle0 (PState.after c s evs) := by
  intro evs
  induction evs with
  | nil => intro s h; exact h
  | cons e es ih => intro s h; exact ih _ (idle0_step c s e h)

theorem good_after (c : PCfg) : ∀ (evs : List Ev) (s : PState), Good c s → Good c (PState.after c s evs) := by
  intro evs
  induction evs with
  | nil => intro s h; exact h
  | cons e es ih => intro s h; exact ih _ (good_step c s e h)

/-- the first verdict in an event list, if there is one, is "no motion" -/
def FirstQuiet (es : List Ev) : Prop := ∀ m, (verdictsOf es).head? = some m → m = false

/-- two processor states agree on what decides where recordings start and stop from here on, given the events
to come: the `triggered` counters may differ if `trig ≤ 1` (the counter is then irrelevant) or if the next accepted
frame carries no motion (it zeroes both) -/
structure CoreQ (c : PCfg) (s t : PState) (es : List Ev) : Prop where
  r : s.isRec = t.isRec
  fw : s.framesWritten = t.framesWritten
  wu : s.writeUntil = t.writeUntil
  tg : c.trig ≤ 1 ∨ s.triggered = t.triggered ∨ FirstQuiet es

theorem coreq_step (c : PCfg) (s t : PState) (e : Ev) (es : List Ev) (gs : Good c s) (gt : Good c t)
    (he : e.faults.mWriteFail = 0) (h : CoreQ c s t (e :: es)) :
    CoreQ c (PState.step c s e).1 (PState.step c t e).1 es ∧
    hasStartOk (PState.step c s e).2 = hasStartOk (PState.step c t e).2 ∧
    hasStop (PState.step c s e).2 = hasStop (PState.step c t e).2 := by
  cases e with
  | frame m f =>
    obtain ⟨a1, a2, a3, a4, a5, a6⟩ := P03.frame_summary c s m f
    obtain ⟨b1, b2, b3, b4, b5, b6⟩ := P03.frame_summary c t m f
    have hatt : P03.attempt c (P03.pre s) m = P03.attempt c (P03.pre t) m := by
      show (!s.isRec && m && decide (c.trig ≤ s.triggered + 1)) = (!t.isRec && m && decide (c.trig ≤ t.triggered + 1))
      rw [h.r]
      rcases h.tg with h1 | h1 | h1
      · have e1 : c.trig ≤ s.triggered + 1 := by omega
        have e2 : c.trig ≤ t.triggered + 1 := by omega
        simp [e1, e2]
      · rw [h1]
      · have : m = false := h1 m (by rw [verdictsOf_cons_frame]; rfl)
        subst this
        simp
    have hsw : P03.startWU c (P03.pre s) f = P03.startWU c (P03.pre t) f := by
      rw [startWU_good c s f gs he, startWU_good c t f gt he]
    obtain ⟨e1, e2, e3, e4⟩ := summary_congr c (P03.pre s) (P03.pre t) m f h.r h.fw h.wu hatt hsw
    refine ⟨⟨?_, ?_, ?_, ?_⟩, ?_, ?_⟩
    · rw [a3, b3, e2, e4]
    · rw [a5, b5, e2, e4, h.fw]
    · rw [a6, b6, e2, e4, e3, h.wu]
    · rcases h.tg with h1 | h1 | h1
      · exact Or.inl h1
      · exact Or.inr (Or.inl (by rw [a4, b4, e4, h1]))
      · have : m = false := h1 m (by rw [verdictsOf_cons_frame]; rfl)
        subst this
        refine Or.inr (Or.inl ?_)
        rw [a4, b4]
        simp
    · show hasStartOk (PState.step c s (.frame m f)).2 = hasStartOk (PState.step c t (.frame m f)).2
      rw [a1, b1, e1]
    · show hasStop (PState.step c s (.frame m f)).2 = hasStop (PState.step c t (.frame m f)).2
      rw [a2, b2, e4]
  | bad f =>
    obtain ⟨a1, a2, a3, a4⟩ := nonframe_core c s (.bad f) rfl
    obtain ⟨b1, b2, b3, b4⟩ := nonframe_core c t (.bad f) rfl
    refine ⟨⟨by rw [a1, b1], by rw [a2, b2, h.r, h.fw], by rw [a3, b3, h.r, h.wu], ?_⟩, ?_, ?_⟩
    · rcases h.tg with h1 | h1 | h1
      · exact Or.inl h1
      · exact Or.inr (Or.inl (by rw [a4, b4, h.r, h1]))
      · exact Or.inr (Or.inr (by rw [FirstQuiet, verdictsOf_cons_nonframe _ _ rfl] at h1; exact h1))
    · rw [(startCount_eq_zero_iff _).mp (step_startCount_nonframe c s _ rfl),
        (startCount_eq_zero_iff _).mp (step_startCount_nonframe c t _ rfl)]
    · rw [nonframe_hasStop c s _ rfl, nonframe_hasStop c t _ rfl]
      exact h.r
  | reset f =>
    obtain ⟨a1, a2, a3, a4⟩ := nonframe_core c s (.reset f) rfl
    obtain ⟨b1, b2, b3, b4⟩ := nonframe_core c t (.reset f) rfl
    refine ⟨⟨by rw [a1, b1], by rw [a2, b2, h.r, h.fw], by rw [a3, b3, h.r, h.wu], ?_⟩, ?_, ?_⟩
    · rcases h.tg with h1 | h1 | h1
      · exact Or.inl h1
      · exact Or.inr (Or.inl (by rw [a4, b4, h.r, h1]))
      · exact Or.inr (Or.inr (by rw [FirstQuiet, verdictsOf_cons_nonframe _ _ rfl] at h1; exact h1))
    · rw [(startCount_eq_zero_iff _).mp (step_startCount_nonframe c s _ rfl),
        (startCount_eq_zero_iff _).mp (step_startCount_nonframe c t _ rfl)]
    · rw [nonframe_hasStop c s _ rfl, nonframe_hasStop c t _ rfl]
      exact h.r
  | testReq =>
    refine ⟨⟨h.r, h.fw, h.wu, ?_⟩, rfl, rfl⟩
    rcases h.tg with h1 | h1 | h1
    · exact Or.inl h1
    · exact Or.inr (Or.inl h1)
    · exact Or.inr (Or.inr (by rw [FirstQuiet, verdictsOf_cons_nonframe _ _ rfl] at h1; exact h1))

/-- **the same events from two such states: a recording starts at the same events** -/
theorem proc_sim (c : PCfg) : ∀ (es : List Ev) (s t : PState), Good c s → Good c t → (∀ e ∈ es, PipeEv e) →
    CoreQ c s t es → (PState.run c s es).map hasStartOk = (PState.run c t es).map hasStartOk := by
  intro es
  induction es with
  | nil => intro s t _ _ _ _; rfl
  | cons e es ih =>
    intro s t gs gt hev h
    obtain ⟨h', ho, _⟩ := coreq_step c s t e es gs gt (hev e (List.mem_cons_self ..)).1 h
    simp only [PState.run, List.map_cons]
    rw [ho, ih _ _ (good_step c s e gs) (good_step c t e gt) (fun x hx => hev x (List.mem_cons_of_mem _ hx)) h']

/-- … and stops at the same events -/
theorem proc_sim_stop (c : PCfg) : ∀ (es : List Ev) (s t : PState), Good c s → Good c t → (∀ e ∈ es, PipeEv e) →
    CoreQ c s t es → (PState.run c s es).map hasStop = (PState.run c t es).map hasStop := by
  intro es
  induction es with
  | nil => intro s t _ _ _ _; rfl
  | cons e es ih =>
    intro s t gs gt hev h
    obtain ⟨h', _, ho⟩ := coreq_step c s t e es gs gt (hev e (List.mem_cons_self ..)).1 h
    simp only [PState.run, List.map_cons]
    rw [ho, ih _ _ (good_step c s e gs) (good_step c t e gt) (fun x hx => hev x (List.mem_cons_of_mem _ hx)) h']

/-! ## (G) which steps of a history start a motion file -/

section starts
variable {F : FloatOps}

/-- for each step of `gs`, run from pipeline state `p`: did the step start a motion file? -/
def startFlags (c : PipeCfg) : Pipe F → List GOp → List Bool
  | _, [] => []
  | p, g :: gs => decide (motionStarts (Pipe.gop c p g) > motionStarts p) :: startFlags c (Pipe.gop c p g) gs

theorem startFlags_length (c : PipeCfg) : ∀ (gs : List GOp) (p : Pipe F), (startFlags c p gs).length = gs.length := by
  intro gs
  induction gs with
  | nil => intro p; rfl
  | cons g gs ih => intro p; simp only [startFlags, List.length_cons, ih]

/-- throttle off: a step starts a motion file iff the processor step on the induced event makes a successful
`StartRecording` call on the motion sink -/
theorem startFlags_eq (c : PipeCfg) (hK : 0 < c.proc.K) (hthr : c.throttle = false) :
    ∀ (gs : List GOp) (p : Pipe F) (evs : List Ev), PIE c p evs →
      startFlags c p gs = (PState.run c.proc p.proc (evsFrom c p gs)).map hasStartOk := by
  intro gs
  induction gs with
  | nil => intro p evs _; rfl
  | cons g gs ih =>
    intro p evs h
    have hs := motionStarts_gop c hK hthr p evs g h
    rw [step_startCount_eq] at hs
    simp only [startFlags, evsFrom, PState.run, List.map_cons]
    rw [ih _ _ (pie_gop c hK hthr p evs g h), gop_proc c p g]
    congr 1
    rw [hs]
    cases hasStartOk (PState.step c.proc p.proc (Pipe.evOf c p g)).2 <;> simp

/-- the number of motion files after the steps `gs`: one more for every step that started one -/
theorem motionStarts_fold (c : PipeCfg) (hK : 0 < c.proc.K) (hthr : c.throttle = false) :
    ∀ (gs : List GOp) (p : Pipe F) (evs : List Ev), PIE c p evs →
      motionStarts (gs.foldl (Pipe.gop c) p) = motionStarts p + (startFlags c p gs).count true := by
  intro gs
  induction gs with
  | nil => intro p evs _; rfl
  | cons g gs ih =>
    intro p evs h
    have hs := motionStarts_gop c hK hthr p evs g h
    rw [step_startCount_eq] at hs
    rw [List.foldl_cons, ih _ _ (pie_gop c hK hthr p evs g h)]
    simp only [startFlags, List.count_cons]
    rw [hs]
    split <;> simp <;> omega

/-- the processor state of every reachable pipeline state satisfies the ring invariant and `Idle0` -/
theorem pie_good (c : PipeCfg) (hK : 0 < c.proc.K) (p : Pipe F) (evs : List Ev) (h : PIE c p evs) :
    Good c.proc p.proc ∧ Idle0 p.proc := by
  rw [h.2.1]
  exact ⟨good_after c.proc evs _ (good_init c.proc hK), idle0_after c.proc evs _ (idle0_init c.proc)⟩

theorem evsFrom_pipeEv (c : PipeCfg) : ∀ (gs : List GOp) (p : Pipe F), ∀ e ∈ evsFrom c p gs, PipeEv e := by
  intro gs
  induction gs with
  | nil => intro p e he; cases he
  | cons g gs ih =>
    intro p e he
    simp only [evsFrom, List.mem_cons] at he
    rcases he with rfl | he
    · exact evOfOp_pipeEv (withGates c g) p g.op
    · exact ih _ e he

end starts

end TR.PipeC09
