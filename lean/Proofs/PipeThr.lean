import Proofs.C01Spec
/-!
# Proofs.PipeThr — the composed pipeline WITH the throttle

`Pipe.motionCall` turns every processor call on the motion sink into a throttle request at tick 0
(the bucket `TState.init c.bucketFrames 1 c.minLenFrames` is never refilled); the base-recorder
calls the throttle emits create / extend / close the motion files.

* §A  what `TState.step` does at tick 0, with exact token accounting;
* §B  the invariant `TInv` between the motion files, the accumulator of upstream recordings
  (`C01Spec.RecAcc`) and the throttle state: every file holds a prefix of an upstream recording,
  the concatenation of the files is a sublist of the concatenation of the recordings, frames
  written + tokens left = bucket size, every file was started with `minLen` tokens in hand;
* §C  one processor observation / one observation list preserves it;
* §D  the pipeline and the processor trace it induces (`PIT`, the throttled analogue of `C01Spec.PI`).
-/
namespace TR.PipeThr
open TR TR.C01Spec

/-! ## (A) the throttle at tick 0 -/

theorem adjust0_avail (b : Bucket) : (b.adjust 0).avail = b.avail := by
  unfold Bucket.adjust
  split
  · rfl
  · next h =>
    simp only [Nat.zero_sub, Nat.zero_mul, Nat.add_zero]
    omega

/-- an upstream start while the throttle is idle, enough tokens: forwarded, no token taken -/
theorem start0_yes (s : TState) (tag : Nat) (h : s.minLen ≤ s.bucket.avail) :
    (s.step (.start 0 tag true)).2 = [TObs.bStart tag true, TObs.ret true] ∧
    (s.step (.start 0 tag true)).1.recording = true ∧
    (s.step (.start 0 tag true)).1.bucket.avail = s.bucket.avail ∧
    (s.step (.start 0 tag true)).1.minLen = s.minLen := by
  have ha := adjust0_avail s.bucket
  simp only [TState.step, TState.maybeStart, Bucket.available, ha, ge_iff_le, h, if_true, Bool.not_true,
    Bool.false_eq_true, if_false, List.cons_append, List.nil_append, List.append_nil]
  exact ⟨trivial, trivial, trivial, trivial⟩

/-- an upstream start while the throttle is idle, too few tokens: suppressed -/
theorem start0_no (s : TState) (tag : Nat) (hr : s.recording = false) (h : s.bucket.avail < s.minLen) :
    (s.step (.start 0 tag true)).2 = [TObs.throttled, TObs.ret true] ∧
    (s.step (.start 0 tag true)).1.recording = false ∧
    (s.step (.start 0 tag true)).1.bucket.avail = s.bucket.avail ∧
    (s.step (.start 0 tag true)).1.minLen = s.minLen := by
  have ha := adjust0_avail s.bucket
  have h' : ¬ s.minLen ≤ s.bucket.avail := by omega
  simp only [TState.step, TState.maybeStart, Bucket.available, ha, ge_iff_le, h', if_false, Bool.not_true,
    Bool.false_eq_true, hr, Bool.not_false, if_true, List.cons_append, List.nil_append]
  exact ⟨trivial, trivial, trivial, trivial⟩

/-- a write while the throttle is recording and holds a token: forwarded, one token taken -/
theorem write0_rec_yes (s : TState) (id : Nat) (hr : s.recording = true) (h : 0 < s.bucket.avail) :
    (s.step (.write 0 id true true true)).2 = [TObs.bWrite id true, TObs.ret true] ∧
    (s.step (.write 0 id true true true)).1.recording = true ∧
    (s.step (.write 0 id true true true)).1.bucket.avail + 1 = s.bucket.avail ∧
    (s.step (.write 0 id true true true)).1.minLen = s.minLen := by
  have ha := adjust0_avail s.bucket
  have h' : ¬ s.bucket.avail = 0 := by omega
  simp only [TState.step, hr, if_true, TState.takeAndWrite, Bucket.take1, ha, h', if_false, gt_iff_lt,
    Nat.zero_lt_one, List.nil_append]
  exact ⟨trivial, trivial, by omega, trivial⟩

/-- a write while the throttle is recording and the bucket is empty: the recording is cut -/
theorem write0_rec_no (s : TState) (id : Nat) (hr : s.recording = true) (h : s.bucket.avail = 0) :
    (s.step (.write 0 id true true true)).2 = [TObs.throttled, TObs.bStop true, TObs.ret true] ∧
    (s.step (.write 0 id true true true)).1.recording = false ∧
    (s.step (.write 0 id true true true)).1.bucket.avail = 0 ∧
    (s.step (.write 0 id true true true)).1.minLen = s.minLen := by
  have ha := adjust0_avail s.bucket
  simp only [TState.step, hr, if_true, TState.takeAndWrite, Bucket.take1, ha, h, gt_iff_lt,
    Nat.lt_irrefl, if_false, TState.stopRec, List.nil_append, List.cons_append]
  exact ⟨trivial, trivial, trivial, trivial⟩

/-- a write while the throttle is idle and holds fewer than `minLen` tokens: dropped silently -/
theorem write0_idle_lt (s : TState) (id : Nat) (hr : s.recording = false) (h : s.bucket.avail < s.minLen) :
    (s.step (.write 0 id true true true)).2 = [TObs.ret true] ∧
    (s.step (.write 0 id true true true)).1.recording = false ∧
    (s.step (.write 0 id true true true)).1.bucket.avail = s.bucket.avail ∧
    (s.step (.write 0 id true true true)).1.minLen = s.minLen := by
  have ha := adjust0_avail s.bucket
  have h' : ¬ s.minLen ≤ s.bucket.avail := by omega
  simp only [TState.step, hr, Bool.false_eq_true, if_false, TState.maybeStart, Bucket.available, ha, ge_iff_le,
    h', Bool.not_true, Bool.not_false, if_true, List.nil_append]
  exact ⟨trivial, trivial, trivial, trivial⟩

/-- a write while the throttle is idle, `minLen = 0` and the bucket is empty: the restart path opens a
base file and cuts it at once (an empty file) -/
theorem write0_idle_zero (s : TState) (id : Nat) (hr : s.recording = false) (h : s.minLen ≤ s.bucket.avail)
    (hz : s.bucket.avail = 0) :
    (s.step (.write 0 id true true true)).2 =
      [TObs.bStart s.tag true, TObs.throttled, TObs.bStop true, TObs.ret true] ∧
    (s.step (.write 0 id true true true)).1.recording = false ∧
    (s.step (.write 0 id true true true)).1.bucket.avail = 0 ∧
    (s.step (.write 0 id true true true)).1.minLen = s.minLen := by
  have ha := adjust0_avail s.bucket
  have ha2 := adjust0_avail (s.bucket.adjust 0)
  have h0 : s.minLen ≤ 0 := by omega
  simp only [TState.step, hr, Bool.false_eq_true, if_false, TState.maybeStart, Bucket.available, ha, ge_iff_le,
    h0, if_true, Bool.not_true, TState.takeAndWrite, Bucket.take1, ha2, hz, gt_iff_lt, Nat.lt_irrefl,
    TState.stopRec, List.cons_append, List.nil_append]
  exact ⟨trivial, trivial, trivial, trivial⟩

theorem stop0_rec (s : TState) (hr : s.recording = true) :
    (s.step (.stop true)).2 = [TObs.bStop true, TObs.ret true] ∧
    (s.step (.stop true)).1.recording = false ∧
    (s.step (.stop true)).1.bucket.avail = s.bucket.avail ∧
    (s.step (.stop true)).1.minLen = s.minLen := by
  simp only [TState.step, TState.stopRec, hr, if_true, List.cons_append, List.nil_append]
  exact ⟨trivial, trivial, trivial, trivial⟩

theorem stop0_idle (s : TState) (hr : s.recording = false) :
    (s.step (.stop true)).2 = [TObs.ret true] ∧
    (s.step (.stop true)).1.recording = false ∧
    (s.step (.stop true)).1.bucket.avail = s.bucket.avail ∧
    (s.step (.stop true)).1.minLen = s.minLen := by
  simp only [TState.step, TState.stopRec, hr, Bool.false_eq_true, if_false, List.nil_append]
  exact ⟨trivial, trivial, trivial, trivial⟩

/-! ## list facts -/

/-- a prefix of a contiguous ascending run is a contiguous ascending run with the same first element -/
theorem prefix_range' : ∀ (g : List Nat) (s n : Nat), g <+: List.range' s n → g = List.range' s g.length
  | [], _, _, _ => rfl
  | x :: g, s, 0, h => by
    rw [List.range'_zero] at h
    exact absurd (List.prefix_nil.mp h) (by simp)
  | x :: g, s, n + 1, h => by
    rw [List.range'_succ, List.cons_prefix_cons] at h
    obtain ⟨rfl, h⟩ := h
    rw [List.length_cons, List.range'_succ, ← prefix_range' g (x + 1) n h]

/-! ## (B) the invariant between motion files, upstream recordings and the throttle state -/

/-- frame lists of a newest-first file list, oldest first -/
def G (ms : List RecFile) : List (List Nat) := (ms.map (·.frames)).reverse

theorem G_cons (x : RecFile) (ms : List RecFile) : G (x :: ms) = G ms ++ [x.frames] := by
  simp [G]

theorem G_mem {ms : List RecFile} {g : List Nat} (h : g ∈ G ms) : ∃ f ∈ ms, f.frames = g := by
  simpa [G] using h

/-- every file was started with `M` tokens in hand: the frames of all earlier files plus `M` fit in `B` -/
def Tok (B M : Nat) (L : List (List Nat)) : Prop := ∀ k, k < L.length → M + (L.take k).flatten.length ≤ B

theorem tok_snoc {B M : Nat} {L : List (List Nat)} (y : List Nat) (h : Tok B M L)
    (hl : M + L.flatten.length ≤ B) : Tok B M (L ++ [y]) := by
  intro k hk
  simp only [List.length_append, List.length_singleton] at hk
  by_cases hk' : k < L.length
  · rw [List.take_append_of_le_length (Nat.le_of_lt hk')]
    exact h k hk'
  · have hk'' : k = L.length := by omega
    subst hk''
    rw [List.take_left']
    · exact hl
    · rfl

theorem tok_last {B M : Nat} {L : List (List Nat)} (y y' : List Nat) (h : Tok B M (L ++ [y])) :
    Tok B M (L ++ [y']) := by
  intro k hk
  simp only [List.length_append, List.length_singleton] at hk
  have hk' : k ≤ L.length := by omega
  have := h k (by simp only [List.length_append, List.length_singleton]; omega)
  rw [List.take_append_of_le_length hk'] at this ⊢
  exact this

structure TInv (B M : Nat) (ms : List RecFile) (a : RecAcc) (t : TState) : Prop where
  ml : t.minLen = M
  /-- every file holds a prefix of an upstream recording -/
  pre : ∀ f ∈ ms, ∃ r ∈ a.all, f.frames <+: r
  /-- all files, concatenated, are a sublist of all recordings, concatenated -/
  sub : (G ms).flatten.Sublist a.all.flatten
  /-- token accounting: every forwarded frame cost exactly one token, nothing was refilled -/
  tot : (G ms).flatten.length + t.bucket.avail = B
  tok : Tok B M (G ms)
  /-- while the throttle records, the newest file is open and holds the whole open recording -/
  recd : t.recording = true → ∃ x rest r, ms = x :: rest ∧ x.closed = false ∧ a.cur = some r ∧ x.frames = r ∧
    ∀ f ∈ rest, f.closed = true
  idle : t.recording = false → ∀ f ∈ ms, f.closed = true
  /-- upstream records, the throttle does not: the restart path of `WriteFrame` cannot forward a frame -/
  cut : t.recording = false → ∀ r, a.cur = some r → t.bucket.avail < M ∨ t.bucket.avail = 0

theorem pre_mono {ms : List RecFile} {A A' : List (List Nat)}
    (hA : ∀ r ∈ A, ∃ r' ∈ A', r <+: r') (h : ∀ f ∈ ms, ∃ r ∈ A, f.frames <+: r) :
    ∀ f ∈ ms, ∃ r ∈ A', f.frames <+: r := by
  intro f hf
  obtain ⟨r, hr, hp⟩ := h f hf
  obtain ⟨r', hr', hp'⟩ := hA r hr
  exact ⟨r', hr', List.IsPrefix.trans hp hp'⟩

theorem all_start (a : RecAcc) (hc : a.cur = none) :
    (RecAcc.all { done := a.all, cur := some [] }) = a.all ++ [[]] := by
  simp [RecAcc.all, hc]

theorem all_stop (a : RecAcc) : (RecAcc.all { done := a.all, cur := none }) = a.all := by
  simp [RecAcc.all]

theorem all_write (a : RecAcc) (r : List Nat) (id : Nat) :
    (RecAcc.all { done := a.done, cur := some (r ++ [id]) }) = a.done ++ [r ++ [id]] := by
  simp [RecAcc.all]

theorem all_write_mono (a : RecAcc) (r : List Nat) (id : Nat) (hc : a.cur = some r) :
    ∀ r' ∈ a.all, ∃ r'' ∈ (RecAcc.all { done := a.done, cur := some (r ++ [id]) }), r' <+: r'' := by
  intro r' hr'
  rw [all_some a r hc, List.mem_append, List.mem_singleton] at hr'
  rw [all_write]
  rcases hr' with hr' | rfl
  · exact ⟨r', List.mem_append_left _ hr', List.prefix_refl _⟩
  · exact ⟨r' ++ [id], List.mem_append_right _ (List.mem_singleton.mpr rfl), List.prefix_append _ _⟩

theorem all_write_flatten (a : RecAcc) (r : List Nat) (id : Nat) (hc : a.cur = some r) :
    (RecAcc.all { done := a.done, cur := some (r ++ [id]) }).flatten = a.all.flatten ++ [id] := by
  rw [all_write, all_some a r hc]
  simp

section steps
variable {B M : Nat} {ms : List RecFile} {a : RecAcc} {t t' : TState}

theorem tinv_idle_of_none (h : TInv B M ms a t) (hc : a.cur = none) : t.recording = false := by
  cases hr : t.recording with
  | false => rfl
  | true =>
    obtain ⟨_, _, r, _, _, hcur, _⟩ := h.recd hr
    rw [hc] at hcur; cases hcur

theorem tinv_start_yes (h : TInv B M ms a t) (hc : a.cur = none) (x : RecFile) (hxf : x.frames = [])
    (hxc : x.closed = false) (hr' : t'.recording = true) (hav : t'.bucket.avail = t.bucket.avail)
    (hml : t'.minLen = t.minLen) (hge : t.minLen ≤ t.bucket.avail) :
    TInv B M (x :: ms) { done := a.all, cur := some [] } t' := by
  have hidle := h.idle (tinv_idle_of_none h hc)
  have htot := h.tot
  have hM := h.ml
  refine ⟨hml.trans h.ml, ?_, ?_, ?_, ?_, ?_, ?_, ?_⟩
  · rw [all_start a hc]
    intro f hf
    rcases List.mem_cons.mp hf with rfl | hf
    · exact ⟨[], List.mem_append_right _ (List.mem_singleton.mpr rfl), by rw [hxf]; exact List.prefix_refl _⟩
    · obtain ⟨r, hr, hp⟩ := h.pre f hf
      exact ⟨r, List.mem_append_left _ hr, hp⟩
  · rw [all_start a hc, G_cons, hxf]
    simpa using h.sub
  · rw [G_cons, hxf, hav]
    simpa using htot
  · rw [G_cons]
    exact tok_snoc _ h.tok (by omega)
  · intro _
    exact ⟨x, ms, [], rfl, hxc, rfl, hxf, hidle⟩
  · intro hf; rw [hr'] at hf; cases hf
  · intro hf; rw [hr'] at hf; cases hf

theorem tinv_start_no (h : TInv B M ms a t) (hc : a.cur = none) (hr' : t'.recording = false)
    (hav : t'.bucket.avail = t.bucket.avail) (hml : t'.minLen = t.minLen) (hlt : t.bucket.avail < t.minLen) :
    TInv B M ms { done := a.all, cur := some [] } t' := by
  have hidle := h.idle (tinv_idle_of_none h hc)
  have hM := h.ml
  refine ⟨hml.trans h.ml, ?_, ?_, ?_, h.tok, ?_, ?_, ?_⟩
  · rw [all_start a hc]
    intro f hf
    obtain ⟨r, hr, hp⟩ := h.pre f hf
    exact ⟨r, List.mem_append_left _ hr, hp⟩
  · rw [all_start a hc]
    simpa using h.sub
  · rw [hav]; exact h.tot
  · intro hf; rw [hr'] at hf; cases hf
  · intro _; exact hidle
  · intro _ _ _
    left; rw [hav]; omega

theorem tinv_write_fwd (h : TInv B M ms a t) (id : Nat) (ms' : List RecFile) (hr : t.recording = true)
    (hms : ∀ x rest, ms = x :: rest → x.closed = false → ms' = { x with frames := x.frames ++ [id] } :: rest)
    (hr' : t'.recording = true) (hav : t'.bucket.avail + 1 = t.bucket.avail) (hml : t'.minLen = t.minLen) :
    TInv B M ms' (a.obs (.call .motion (.write id) true)) t' := by
  obtain ⟨x, rest, r, hx, hxc, hcur, hxf, hrest⟩ := h.recd hr
  have htot := h.tot
  have hG : G ms = G rest ++ [r] := by rw [hx, G_cons, hxf]
  have hG' : G ms' = G rest ++ [r ++ [id]] := by rw [hms x rest hx hxc, G_cons, hxf]
  rw [acc_write_some a id true r hcur]
  refine ⟨hml.trans h.ml, ?_, ?_, ?_, ?_, ?_, ?_, ?_⟩
  · rw [hms x rest hx hxc]
    intro f hf
    rcases List.mem_cons.mp hf with rfl | hf
    · refine ⟨r ++ [id], ?_, ?_⟩
      · rw [all_write]; exact List.mem_append_right _ (List.mem_singleton.mpr rfl)
      · show x.frames ++ [id] <+: r ++ [id]
        rw [hxf]; exact List.prefix_refl _
    · exact pre_mono (all_write_mono a r id hcur) h.pre f (by rw [hx]; exact List.mem_cons_of_mem _ hf)
  · rw [all_write_flatten a r id hcur]
    have e : (G ms').flatten = (G ms).flatten ++ [id] := by rw [hG, hG']; simp
    rw [e]
    exact List.Sublist.append h.sub (List.Sublist.refl _)
  · have e : (G ms').flatten.length = (G ms).flatten.length + 1 := by rw [hG, hG']; simp; omega
    rw [e]; omega
  · rw [hG']
    exact tok_last r _ (hG ▸ h.tok)
  · intro _
    exact ⟨_, rest, r ++ [id], hms x rest hx hxc, hxc, rfl, by rw [← hxf], hrest⟩
  · intro hf; rw [hr'] at hf; cases hf
  · intro hf; rw [hr'] at hf; cases hf

theorem tinv_write_cut (h : TInv B M ms a t) (id : Nat) (ms' : List RecFile) (hr : t.recording = true)
    (hms : ∀ x rest, ms = x :: rest → x.closed = false → ms' = { x with closed := true } :: rest)
    (hr' : t'.recording = false) (hav : t'.bucket.avail = 0) (hz : t.bucket.avail = 0) (hml : t'.minLen = t.minLen) :
    TInv B M ms' (a.obs (.call .motion (.write id) true)) t' := by
  obtain ⟨x, rest, r, hx, hxc, hcur, hxf, hrest⟩ := h.recd hr
  have hG' : G ms' = G ms := by rw [hms x rest hx hxc, hx, G_cons, G_cons]
  rw [acc_write_some a id true r hcur]
  refine ⟨hml.trans h.ml, ?_, ?_, ?_, ?_, ?_, ?_, ?_⟩
  · rw [hms x rest hx hxc]
    intro f hf
    have hp := pre_mono (all_write_mono a r id hcur) h.pre
    rcases List.mem_cons.mp hf with rfl | hf
    · exact hp x (by rw [hx]; exact List.mem_cons_self ..)
    · exact hp f (by rw [hx]; exact List.mem_cons_of_mem _ hf)
  · rw [all_write_flatten a r id hcur, hG']
    exact List.Sublist.trans h.sub (List.sublist_append_left _ _)
  · rw [hG', hav, ← hz]; exact h.tot
  · rw [hG']; exact h.tok
  · intro hf; rw [hr'] at hf; cases hf
  · intro _ f hf
    rw [hms x rest hx hxc] at hf
    rcases List.mem_cons.mp hf with rfl | hf
    · rfl
    · exact hrest f hf
  · intro _ _ _
    right; exact hav

theorem tinv_write_drop (h : TInv B M ms a t) (id : Nat) (r : List Nat) (hcur : a.cur = some r)
    (hr : t.recording = false) (hr' : t'.recording = false) (hav : t'.bucket.avail = t.bucket.avail)
    (hml : t'.minLen = t.minLen) :
    TInv B M ms (a.obs (.call .motion (.write id) true)) t' := by
  rw [acc_write_some a id true r hcur]
  refine ⟨hml.trans h.ml, pre_mono (all_write_mono a r id hcur) h.pre, ?_, ?_, h.tok, ?_, ?_, ?_⟩
  · rw [all_write_flatten a r id hcur]
    exact List.Sublist.trans h.sub (List.sublist_append_left _ _)
  · rw [hav]; exact h.tot
  · intro hf; rw [hr'] at hf; cases hf
  · intro _; exact h.idle hr
  · intro _ _ _
    rw [hav]; exact h.cut hr r hcur

theorem tinv_write_empty (h : TInv B M ms a t) (id : Nat) (r : List Nat) (hcur : a.cur = some r)
    (x : RecFile) (hxf : x.frames = []) (hxc : x.closed = true)
    (hr : t.recording = false) (hr' : t'.recording = false) (hav : t'.bucket.avail = 0)
    (hz : t.bucket.avail = 0) (hge : t.minLen ≤ t.bucket.avail) (hml : t'.minLen = t.minLen) :
    TInv B M (x :: ms) (a.obs (.call .motion (.write id) true)) t' := by
  have htot := h.tot
  have hM := h.ml
  rw [acc_write_some a id true r hcur]
  refine ⟨hml.trans h.ml, ?_, ?_, ?_, ?_, ?_, ?_, ?_⟩
  · intro f hf
    rcases List.mem_cons.mp hf with rfl | hf
    · refine ⟨r ++ [id], ?_, ?_⟩
      · rw [all_write]; exact List.mem_append_right _ (List.mem_singleton.mpr rfl)
      · rw [hxf]; exact List.nil_prefix
    · exact pre_mono (all_write_mono a r id hcur) h.pre f hf
  · rw [all_write_flatten a r id hcur, G_cons, hxf]
    have e : (G ms ++ [[]]).flatten = (G ms).flatten := by simp
    rw [e]
    exact List.Sublist.trans h.sub (List.sublist_append_left _ _)
  · rw [G_cons, hxf, hav, ← hz]
    simpa using htot
  · rw [G_cons]
    exact tok_snoc _ h.tok (by omega)
  · intro hf; rw [hr'] at hf; cases hf
  · intro _ f hf
    rcases List.mem_cons.mp hf with rfl | hf
    · exact hxc
    · exact h.idle hr f hf
  · intro _ _ _
    right; exact hav

theorem tinv_stop_rec (h : TInv B M ms a t) (ok : Bool) (ms' : List RecFile) (hr : t.recording = true)
    (hms : ∀ x rest, ms = x :: rest → x.closed = false → ms' = { x with closed := true } :: rest)
    (hr' : t'.recording = false) (hav : t'.bucket.avail = t.bucket.avail) (hml : t'.minLen = t.minLen) :
    TInv B M ms' (a.obs (.call .motion .stop ok)) t' := by
  obtain ⟨x, rest, r, hx, hxc, hcur, hxf, hrest⟩ := h.recd hr
  have hG' : G ms' = G ms := by rw [hms x rest hx hxc, hx, G_cons, G_cons]
  rw [acc_stop]
  refine ⟨hml.trans h.ml, ?_, ?_, ?_, ?_, ?_, ?_, ?_⟩
  · rw [hms x rest hx hxc, all_stop]
    intro f hf
    rcases List.mem_cons.mp hf with rfl | hf
    · exact h.pre x (by rw [hx]; exact List.mem_cons_self ..)
    · exact h.pre f (by rw [hx]; exact List.mem_cons_of_mem _ hf)
  · rw [all_stop, hG']; exact h.sub
  · rw [hG', hav]; exact h.tot
  · rw [hG']; exact h.tok
  · intro hf; rw [hr'] at hf; cases hf
  · intro _ f hf
    rw [hms x rest hx hxc] at hf
    rcases List.mem_cons.mp hf with rfl | hf
    · rfl
    · exact hrest f hf
  · intro _ r hr; cases hr

theorem tinv_stop_idle (h : TInv B M ms a t) (ok : Bool) (hr : t.recording = false)
    (hr' : t'.recording = false) (hav : t'.bucket.avail = t.bucket.avail) (hml : t'.minLen = t.minLen) :
    TInv B M ms (a.obs (.call .motion .stop ok)) t' := by
  rw [acc_stop]
  refine ⟨hml.trans h.ml, ?_, ?_, ?_, h.tok, ?_, ?_, ?_⟩
  · rw [all_stop]; exact h.pre
  · rw [all_stop]; exact h.sub
  · rw [hav]; exact h.tot
  · intro hf; rw [hr'] at hf; cases hf
  · intro _; exact h.idle hr
  · intro _ r hr; cases hr

end steps

/-! ## (C) one processor observation, applied to the throttled pipeline and to the accumulator -/

section pipeline
variable {F : FloatOps}

theorem mc_can (c : PipeCfg) (hthr : c.throttle = true) (p : Pipe F) : Pipe.motionCall c p .can = p := by
  simp only [Pipe.motionCall, hthr, if_true]

theorem mc_start (c : PipeCfg) (hthr : c.throttle = true) (p : Pipe F) :
    Pipe.motionCall c p .start = (p.thr.step (.start 0 0 true)).2.foldl (Pipe.applyTObs c)
      { p with threshOfStart := p.det.tempThresh, thr := (p.thr.step (.start 0 0 true)).1 } := by
  simp only [Pipe.motionCall, hthr, if_true]

theorem mc_write (c : PipeCfg) (hthr : c.throttle = true) (p : Pipe F) (id : Nat) :
    Pipe.motionCall c p (.write id) = (p.thr.step (.write 0 id true true true)).2.foldl (Pipe.applyTObs c)
      { p with thr := (p.thr.step (.write 0 id true true true)).1 } := by
  simp only [Pipe.motionCall, hthr, if_true]

theorem mc_stop (c : PipeCfg) (hthr : c.throttle = true) (p : Pipe F) :
    Pipe.motionCall c p .stop = (p.thr.step (.stop true)).2.foldl (Pipe.applyTObs c)
      { p with thr := (p.thr.step (.stop true)).1 } := by
  simp only [Pipe.motionCall, hthr, if_true]

/-- the invariant, for a pipeline state -/
def TI (c : PipeCfg) (p : Pipe F) (a : RecAcc) : Prop :=
  TInv c.bucketFrames c.minLenFrames (mot p.files) a p.thr

theorem ti_congr (c : PipeCfg) (p q : Pipe F) (a : RecAcc) (hf : mot q.files = mot p.files)
    (ht : q.thr = p.thr) (h : TI c p a) : TI c q a := by
  unfold TI at *
  rw [hf, ht]; exact h

theorem mot_updOpen_head (fs : List RecFile) (u : RecFile → RecFile) (hu : ∀ x, (u x).kind = x.kind) :
    ∀ x rest, mot fs = x :: rest → x.closed = false → mot (Pipe.updOpen fs .motion u) = u x :: rest := by
  intro x rest hx hxc
  have hk : x.kind = .motion := mot_kind (by rw [hx]; exact List.mem_cons_self ..)
  rw [updOpen_mot_motion fs u hu, hx, updOpen_head_open x rest u hk hxc]

theorem write_open (m : M12s) (a : RecAcc) (id : Nat) (ok : Bool) (hm : m.mo = a.cur.isSome)
    (hf : (M12s.obs m (.call .motion (.write id) ok)).fails = []) : ∃ r, a.cur = some r := by
  obtain ⟨mo, co, te, fails⟩ := m
  simp only at hm
  cases hc : a.cur with
  | some r => exact ⟨r, rfl⟩
  | none =>
    rw [hc] at hm
    simp only [Option.isSome_none] at hm
    subst hm
    simp [M12s.obs, M12s.get] at hf

theorem ti_start (c : PipeCfg) (hthr : c.throttle = true) (p : Pipe F) (a : RecAcc) (hc : a.cur = none)
    (h : TI c p a) : TI c (Pipe.motionCall c p .start) (a.obs (.call .motion .start true)) := by
  rw [mc_start c hthr, acc_start]
  by_cases hge : p.thr.minLen ≤ p.thr.bucket.avail
  · obtain ⟨ho, hr', hav, hml⟩ := start0_yes p.thr 0 hge
    rw [ho]
    show TInv _ _ (mot (_ :: p.files)) _ (p.thr.step (.start 0 0 true)).1
    rw [mot_cons_motion _ _ rfl]
    exact tinv_start_yes h hc _ rfl rfl hr' hav hml hge
  · have hr := tinv_idle_of_none h hc
    obtain ⟨ho, hr', hav, hml⟩ := start0_no p.thr 0 hr (by omega)
    rw [ho]
    show TInv _ _ (mot p.files) _ (p.thr.step (.start 0 0 true)).1
    exact tinv_start_no h hc hr' hav hml (by omega)

theorem ti_write (c : PipeCfg) (hthr : c.throttle = true) (p : Pipe F) (a : RecAcc) (id : Nat) (r : List Nat)
    (hcur : a.cur = some r) (h : TI c p a) :
    TI c (Pipe.motionCall c p (.write id)) (a.obs (.call .motion (.write id) true)) := by
  rw [mc_write c hthr]
  cases hr : p.thr.recording with
  | true =>
    by_cases hz : p.thr.bucket.avail = 0
    · obtain ⟨ho, hr', hav, hml⟩ := write0_rec_no p.thr id hr hz
      rw [ho]
      show TInv _ _ (mot (Pipe.updOpen p.files .motion _)) _ (p.thr.step (.write 0 id true true true)).1
      exact tinv_write_cut h id _ hr
        (mot_updOpen_head p.files (fun f => { f with closed := true }) (fun _ => rfl)) hr' hav hz hml
    · obtain ⟨ho, hr', hav, hml⟩ := write0_rec_yes p.thr id hr (by omega)
      rw [ho]
      show TInv _ _ (mot (Pipe.updOpen p.files .motion _)) _ (p.thr.step (.write 0 id true true true)).1
      exact tinv_write_fwd h id _ hr
        (mot_updOpen_head p.files (fun f => { f with frames := f.frames ++ [id] }) (fun _ => rfl)) hr' hav hml
  | false =>
    have hM := h.ml
    by_cases hlt : p.thr.bucket.avail < p.thr.minLen
    · obtain ⟨ho, hr', hav, hml⟩ := write0_idle_lt p.thr id hr hlt
      rw [ho]
      show TInv _ _ (mot p.files) _ (p.thr.step (.write 0 id true true true)).1
      exact tinv_write_drop h id r hcur hr hr' hav hml
    · have hz : p.thr.bucket.avail = 0 := by
        rcases h.cut hr r hcur with h1 | h1
        · omega
        · exact h1
      obtain ⟨ho, hr', hav, hml⟩ := write0_idle_zero p.thr id hr (by omega) hz
      rw [ho]
      show TInv _ _ (mot (_ :: p.files)) _ (p.thr.step (.write 0 id true true true)).1
      rw [mot_cons_motion _ _ rfl]
      exact tinv_write_empty h id r hcur _ rfl rfl hr hr' hav hz (by omega) hml

theorem ti_stop (c : PipeCfg) (hthr : c.throttle = true) (p : Pipe F) (a : RecAcc) (h : TI c p a) :
    TI c (Pipe.motionCall c p .stop) (a.obs (.call .motion .stop true)) := by
  rw [mc_stop c hthr]
  cases hr : p.thr.recording with
  | true =>
    obtain ⟨ho, hr', hav, hml⟩ := stop0_rec p.thr hr
    rw [ho]
    show TInv _ _ (mot (Pipe.updOpen p.files .motion _)) _ (p.thr.step (.stop true)).1
    exact tinv_stop_rec h true _ hr
      (mot_updOpen_head p.files (fun f => { f with closed := true }) (fun _ => rfl)) hr' hav hml
  | false =>
    obtain ⟨ho, hr', hav, hml⟩ := stop0_idle p.thr hr
    rw [ho]
    show TInv _ _ (mot p.files) _ (p.thr.step (.stop true)).1
    exact tinv_stop_idle h true hr hr' hav hml

theorem ti_other_start (c : PipeCfg) (p : Pipe F) (a : RecAcc) (k : FileKind) (t : Nat) (hk : k ≠ .motion)
    (h : TI c p a) : TI c (Pipe.startFile c p k t) a :=
  ti_congr c p _ a (by show mot (_ :: p.files) = _; exact mot_cons_other _ _ hk) rfl h

theorem ti_other_write (c : PipeCfg) (p : Pipe F) (a : RecAcc) (k : FileKind) (id : Nat) (hk : k ≠ .motion)
    (h : TI c p a) : TI c (Pipe.writeFile p k id) a :=
  ti_congr c p _ a
    (updOpen_mot_other p.files k (fun f => { f with frames := f.frames ++ [id] }) hk (fun _ => rfl)) rfl h

theorem ti_other_stop (c : PipeCfg) (p : Pipe F) (a : RecAcc) (k : FileKind) (hk : k ≠ .motion)
    (h : TI c p a) : TI c (Pipe.stopFile p k) a :=
  ti_congr c p _ a (updOpen_mot_other p.files k (fun f => { f with closed := true }) hk (fun _ => rfl)) rfl h

theorem ti_obs (c : PipeCfg) (hthr : c.throttle = true) (p : Pipe F) (a : RecAcc) (m : M12s) (o : Obs)
    (hcl : clean o = true) (hm : m.mo = a.cur.isSome) (hf : (M12s.obs m o).fails = [])
    (h : TI c p a) : TI c (Pipe.applyObs c p o) (a.obs o) := by
  cases o with
  | md => exact h
  | rs => exact h
  | re => exact h
  | panic => exact h
  | call s cl ok =>
    cases s with
    | const =>
      rw [acc_quiet a _ (by cases cl <;> rfl)]
      cases cl with
      | can => cases ok <;> exact h
      | start =>
        cases ok with
        | false => exact h
        | true => exact ti_other_start c p a .const 0 (by simp) h
      | write id => exact ti_other_write c p a .const id (by simp) h
      | stop => exact ti_other_stop c p a .const (by simp) h
    | test =>
      rw [acc_quiet a _ (by cases cl <;> rfl)]
      cases cl with
      | can => cases ok <;> exact h
      | start =>
        cases ok with
        | false => exact h
        | true => exact ti_other_start c p a .test 0 (by simp) h
      | write id => exact ti_other_write c p a .test id (by simp) h
      | stop => exact ti_other_stop c p a .test (by simp) h
    | motion =>
      cases ok with
      | false =>
        cases cl with
        | can => exact h
        | start => exact h
        | write id => exact absurd hcl (by simp [clean])
        | stop => exact absurd hcl (by simp [clean])
      | true =>
        cases cl with
        | can =>
          show TI c (Pipe.motionCall c p .can) a
          rw [mc_can c hthr]; exact h
        | start => exact ti_start c hthr p a (start_not_open m a hm hf) h
        | write id =>
          obtain ⟨r, hcur⟩ := write_open m a id true hm hf
          exact ti_write c hthr p a id r hcur h
        | stop => exact ti_stop c hthr p a h

theorem ti_fold (c : PipeCfg) (hthr : c.throttle = true) : ∀ (os : List Obs) (p : Pipe F) (a : RecAcc) (m : M12s),
    os.all clean = true → m.mo = a.cur.isSome → (os.foldl M12s.obs m).fails = [] →
    TI c p a → TI c (os.foldl (Pipe.applyObs c) p) (os.foldl RecAcc.obs a) := by
  intro os
  induction os with
  | nil => intro p a m _ _ _ h; exact h
  | cons o os ih =>
    intro p a m hcl hm hf h
    simp only [List.all_cons, Bool.and_eq_true] at hcl
    simp only [List.foldl_cons] at hf ⊢
    exact ih _ _ (M12s.obs m o) hcl.2 (mo_obs m a o hm) hf
      (ti_obs c hthr p a m o hcl.1 hm (m12s_fold_fails os _ hf) h)

/-! ## (D) the throttled pipeline and the processor trace it induces -/

/-- the pipeline state is the one induced by a processor event list, and its motion files and throttle
state are related to the recordings of that trace by `TInv` -/
def PIT (c : PipeCfg) (p : Pipe F) : Prop :=
  ∃ evs : List Ev, (∀ e ∈ evs, PipeEv e) ∧
    p.proc = PState.after c.proc (PState.init c.proc) evs ∧
    TI c p (recAcc (PState.trace c.proc (PState.init c.proc) evs)) ∧
    (evs.filter Ev.isFrame).length = p.accepted.length

theorem tinv_init (B M : Nat) : TInv B M [] {} (TState.init B 1 M) := by
  refine ⟨rfl, ?_, ?_, ?_, ?_, ?_, ?_, ?_⟩
  · intro f hf; cases hf
  · simp [G, RecAcc.all]
  · simp [G, TState.init, Bucket.new]
  · intro k hk; simp [G] at hk
  · intro hf; cases hf
  · intro _ f hf; cases hf
  · intro _ r hr; cases hr

theorem pit_init (c : PipeCfg) : PIT c (Pipe.init F c) := by
  refine ⟨[], ?_, rfl, tinv_init _ _, rfl⟩
  intro e he; cases he

theorem pit_event (c : PipeCfg) (hK : 0 < c.proc.K) (hthr : c.throttle = true) (p p' p₀ : Pipe F) (e : Ev)
    (he : PipeEv e) (h : PIT c p) (h0 : p₀.files = p.files) (h0t : p₀.thr = p.thr)
    (hproc : p'.proc = (PState.step c.proc p.proc e).1)
    (hfiles : p'.files = ((PState.step c.proc p.proc e).2.foldl (Pipe.applyObs c) p₀).files)
    (hthrS : p'.thr = ((PState.step c.proc p.proc e).2.foldl (Pipe.applyObs c) p₀).thr)
    (hacc : p'.accepted.length = p.accepted.length + (if e.isFrame then 1 else 0)) : PIT c p' := by
  obtain ⟨evs, hev, hp, hfr, hcount⟩ := h
  refine ⟨evs ++ [e], ?_, ?_, ?_, ?_⟩
  · intro e' he'
    rcases List.mem_append.mp he' with he' | he'
    · exact hev e' he'
    · rw [List.mem_singleton] at he'; subst he'; exact he
  · rw [after_append, ← hp, hproc]; rfl
  · rw [trace_snoc, recAcc_append, ← hp]
    have h12 := c12_protocol_all c.proc hK (evs ++ [e])
    rw [trace_snoc, ← hp] at h12
    simp only [monC12, List.foldl_append, List.foldl_cons, List.foldl_nil] at h12
    refine ti_congr c _ p' _ (by rw [hfiles]) hthrS ?_
    refine ti_fold c hthr _ p₀ _ _ (step_clean c.proc p.proc e he.1 he.2) ?_ h12
      (ti_congr c p p₀ _ (by rw [h0]) h0t hfr)
    rw [recAcc_eq]
    exact mo_trace _ {} {} rfl
  · rw [List.filter_append, List.length_append, hcount, hacc]
    cases e <;> rfl

theorem pit_of_fold (c : PipeCfg) (hK : 0 < c.proc.K) (hthr : c.throttle = true) (p p' p₀ : Pipe F) (e : Ev)
    (he : PipeEv e) (h : PIT c p)
    (hq : p' = (PState.step c.proc p.proc e).2.foldl (Pipe.applyObs c) p₀)
    (h0 : p₀.files = p.files) (h0t : p₀.thr = p.thr) (h1 : p₀.proc = (PState.step c.proc p.proc e).1)
    (h2 : p₀.accepted.length = p.accepted.length + (if e.isFrame then 1 else 0)) : PIT c p' := by
  subst hq
  have hfr := fold_proc_accepted c (PState.step c.proc p.proc e).2 p₀
  exact pit_event c hK hthr p _ p₀ e he h h0 h0t (hfr.1.trans h1) rfl rfl (by rw [hfr.2]; exact h2)

theorem pit_testRequest (c : PipeCfg) (hK : 0 < c.proc.K) (hthr : c.throttle = true) (p : Pipe F) (h : PIT c p) :
    PIT c (Pipe.testRequest c p) :=
  pit_event c hK hthr p _ p .testReq ⟨rfl, rfl⟩ h rfl rfl rfl rfl rfl rfl

theorem pit_item (c : PipeCfg) (hK : 0 < c.proc.K) (hthr : c.throttle = true) (p : Pipe F) (it : Socket.Item)
    (h : PIT c p) : PIT c (Pipe.item c p it) := by
  cases it with
  | clear =>
    have hfr := fold_proc_accepted c (PState.stopRecording p.proc true).2
      { p with proc := (PState.stopRecording p.proc true).1 }
    refine pit_event c hK hthr p _ { p with proc := (PState.stopRecording p.proc true).1 }
      (.reset (Pipe.faults c)) ⟨rfl, rfl⟩ h rfl rfl ?_ ?_ ?_ ?_
    · rw [PipeLemmas.item_clear]; exact hfr.1
    · rw [PipeLemmas.item_clear]; rfl
    · rw [PipeLemmas.item_clear]; rfl
    · rw [PipeLemmas.item_clear]
      show (Pipe.accepted (List.foldl _ _ _)).length = _
      rw [hfr.2]; rfl
  | frame bytes =>
    cases hres : (if c.lepton then Parse.parseLepton (fun i => bytes.toArray.getD i 0) c.det.resX c.det.resY c.det.edge
             else Parse.parseBoson (fun i => bytes.toArray.getD i 0) c.det.resX c.det.resY c.det.edge) with
    | bad y x =>
      have hfr := fold_proc_accepted c (PState.processBad c.proc p.proc (Pipe.faults c)).2
        { p with proc := (PState.processBad c.proc p.proc (Pipe.faults c)).1 }
      refine pit_event c hK hthr p _ { p with proc := (PState.processBad c.proc p.proc (Pipe.faults c)).1 }
        (.bad (Pipe.faults c)) ⟨rfl, rfl⟩ h rfl rfl ?_ ?_ ?_ ?_
      · rw [PipeLemmas.item_bad c p bytes y x hres]; exact hfr.1
      · rw [PipeLemmas.item_bad c p bytes y x hres]; rfl
      · rw [PipeLemmas.item_bad c p bytes y x hres]; rfl
      · rw [PipeLemmas.item_bad c p bytes y x hres]
        show (Pipe.accepted (List.foldl _ _ _)).length = _
        rw [hfr.2]; rfl
    | ok pix tel =>
      have hq := PipeLemmas.item_ok c p bytes pix tel hres
      simp only at hq
      exact pit_of_fold c hK hthr p _ _ (.frame _ (Pipe.faults c)) ⟨rfl, rfl⟩ h hq (by rfl) (by rfl) (by rfl) (by rfl)

theorem pit_ops (c : PipeCfg) (hK : 0 < c.proc.K) (hthr : c.throttle = true) :
    ∀ (ops : List PipeOp) (p : Pipe F), PIT c p → PIT c (ops.foldl (Pipe.op c) p) := by
  intro ops
  induction ops with
  | nil => intro p h; exact h
  | cons o ops ih =>
    intro p h
    rw [List.foldl_cons]
    refine ih _ ?_
    cases o with
    | item it => exact pit_item c hK hthr p it h
    | testReq => exact pit_testRequest c hK hthr p h

end pipeline

end TR.PipeThr
