import Proofs.C10Pipe
import Proofs.ThrottleC06
/-!
# Proofs.C10PipeThr — helper lemmas for `Props.C10PipeThr` (the throttle between the processor's motion sink and the
motion file recorder: the calls that reach the file recorder obey the recorder protocol)

Nothing here mentions the translation `thrObs` itself (it is defined, readably, in `Props.C10PipeThr`).  The lemmas
are about ONE request of the throttle (`TState.step`), read through the vocabulary of `Proofs.C12Spec`:

* `baseCall` / `baseCallsOf` — the base-recorder calls (`bStart / bWrite / bStop`) among the observations of a step,
  as `Call × Bool` (what `callsOf .motion` gives once they are turned into `Obs.call .motion …`);
* `step_start_base`, `step_write_base`, `step_stop_base` — whatever the bucket, the tick and the base outcomes: the
  base calls of the step are in order (`wfFrom`) starting from the flag `s.recording`, they leave the flag
  `(s.step r).1.recording`, and every `bStop` carries the outcome the request dictates.  A start request needs
  `s.recording = false` (the upstream protocol: no start while the upstream recording is open); a write and a stop
  request need nothing.  After a start request the throttle records only if the request carried `ok = true`.

They are read off the case lists of `Proofs.ThrottleC06` (`step_start_cases` …).
-/
namespace TR.C10PipeThr
open TR TR.C12Spec TR.C10Pipe

/-- a base-recorder call, in the vocabulary of the processor's sinks -/
def baseCall : TObs → Option (Call × Bool)
  | .bStart _ ok => some (.start, ok)
  | .bWrite id ok => some (.write id, ok)
  | .bStop ok => some (.stop, ok)
  | _ => none

/-- the base-recorder calls among the observations of a throttle step, in order -/
def baseCallsOf (l : List TObs) : List (Call × Bool) := l.filterMap baseCall

/-- no base `StopRecording` with outcome `b` among these observations -/
def NoStopWith (b : Bool) (l : List TObs) : Prop := (Call.stop, b) ∉ baseCallsOf l

/-- closes `NoStopWith b [explicit observations]` once the Booleans are constants -/
local macro "nostop" : tactic =>
  `(tactic| simp [NoStopWith, baseCallsOf, baseCall])

/-- a start request, made while the throttle is not recording: one `bStart` (or none), never a stop; the throttle
records afterwards only if the request's `ok` was `true` -/
theorem step_start_base (s : TState) (tk tag : Nat) (ok : Bool) (hr : s.recording = false) :
    wfFrom false (baseCallsOf (s.step (.start tk tag ok)).2) = true ∧
    (baseCallsOf (s.step (.start tk tag ok)).2).foldl nextOpen false = (s.step (.start tk tag ok)).1.recording ∧
    ((s.step (.start tk tag ok)).1.recording = true → ok = true) ∧
    ∀ b, NoStopWith b (s.step (.start tk tag ok)).2 := by
  obtain ⟨_, h⟩ := step_start_cases s tk tag ok hr
  rcases h with ⟨ho, hrec, _⟩ | ⟨ho, hrec⟩
  · rw [ho, hrec]
    refine ⟨?_, ?_, fun h => h, fun b => by nostop⟩ <;> cases ok <;> rfl
  · rw [ho, hrec]
    refine ⟨rfl, rfl, ?_, ?_⟩
    · intro h; cases h
    · intro b; nostop

/-- a start request never stops the base recorder, whatever the throttle's state -/
theorem step_start_noStop (s : TState) (tk tag : Nat) (ok b : Bool) :
    NoStopWith b (s.step (.start tk tag ok)).2 := by
  unfold TState.step TState.maybeStart
  simp only
  split
  · split <;> nostop
  · nostop

/-- a write request, whatever the throttle's state: forwarded, cut, dropped, or restarted — always in order from
`s.recording`; a `bStop` carries `pok` -/
theorem step_write_base (s : TState) (tk id : Nat) (sok wok pok : Bool) :
    wfFrom s.recording (baseCallsOf (s.step (.write tk id sok wok pok)).2) = true ∧
    (baseCallsOf (s.step (.write tk id sok wok pok)).2).foldl nextOpen s.recording =
      (s.step (.write tk id sok wok pok)).1.recording ∧
    NoStopWith (!pok) (s.step (.write tk id sok wok pok)).2 := by
  cases hr : s.recording with
  | true =>
    obtain ⟨_, h⟩ := step_write_rec_cases s tk id sok wok pok hr
    rcases h with ⟨ho, hrec, _⟩ | ⟨ho, hrec, _⟩
    · rw [ho, hrec]; exact ⟨rfl, rfl, by nostop⟩
    · rw [ho, hrec]; exact ⟨rfl, rfl, by cases pok <;> nostop⟩
  | false =>
    obtain ⟨_, h⟩ := step_write_idle_cases s tk id sok wok pok hr
    rcases h with ⟨ho, hrec⟩ | ⟨ho, hrec⟩ | ⟨ho, hrec, _⟩ | ⟨ho, hrec, _⟩
    · rw [ho, hrec]; exact ⟨rfl, rfl, by nostop⟩
    · rw [ho, hrec]; exact ⟨rfl, rfl, by nostop⟩
    · rw [ho, hrec]; exact ⟨rfl, rfl, by nostop⟩
    · rw [ho, hrec]; exact ⟨rfl, rfl, by cases pok <;> nostop⟩

/-- a stop request: forwarded iff the throttle is recording; the throttle does not record afterwards -/
theorem step_stop_base (s : TState) (pok : Bool) :
    wfFrom s.recording (baseCallsOf (s.step (.stop pok)).2) = true ∧
    (s.step (.stop pok)).1.recording = false ∧
    (baseCallsOf (s.step (.stop pok)).2).foldl nextOpen s.recording = false ∧
    NoStopWith (!pok) (s.step (.stop pok)).2 := by
  obtain ⟨_, hrec, h⟩ := step_stop_cases s pok
  rcases h with ⟨hr, ho⟩ | ⟨hr, ho⟩
  · rw [ho, hr]; exact ⟨rfl, hrec, rfl, by cases pok <;> nostop⟩
  · rw [ho, hr]; exact ⟨rfl, hrec, rfl, by nostop⟩

end TR.C10PipeThr
