import TR.ProcMon
import Proofs.ProcBase
set_option linter.unusedSimpArgs false
/-!
# Proofs.ProcProto03 — helper lemmas and invariants for C03 (recording length) and C04 (start condition)
-/
namespace TR.P03
open TR TR.PState

/-! ## observation predicates as list homomorphisms -/

/-- the predicate behind `Step.motionWriteFault` -/
def mwf (obs : List Obs) : Bool :=
  obs.any fun o => match o with
    | .call .motion (.write _) false => true
    | _ => false

theorem motionWriteFault_eq (e : Ev) (obs : List Obs) : Step.motionWriteFault ⟨e, obs⟩ = mwf obs := rfl

theorem hasStop_nil : hasStop [] = false := rfl
theorem hasStartOk_nil : hasStartOk [] = false := rfl
theorem hasCan_nil : hasCan [] = false := rfl
theorem hasStartAny_nil : hasStartAny [] = false := rfl
theorem mwf_nil : mwf [] = false := rfl

theorem hasStop_cons (o : Obs) (l : List Obs) :
    hasStop (o :: l) = ((match o with | .call .motion .stop _ => true | _ => false) || hasStop l) := rfl
theorem hasStartOk_cons (o : Obs) (l : List Obs) :
    hasStartOk (o :: l) = ((match o with | .call .motion .start true => true | _ => false) || hasStartOk l) := rfl
theorem hasCan_cons (o : Obs) (l : List Obs) :
    hasCan (o :: l) = ((match o with | .call .motion .can _ => true | _ => false) || hasCan l) := rfl
theorem hasStartAny_cons (o : Obs) (l : List Obs) :
    hasStartAny (o :: l) = ((match o with | .call .motion .start _ => true | _ => false) || hasStartAny l) := rfl
theorem mwf_cons (o : Obs) (l : List Obs) :
    mwf (o :: l) = ((match o with | .call .motion (.write _) false => true | _ => false) || mwf l) := rfl

theorem hasStop_append (a b : List Obs) : hasStop (a ++ b) = (hasStop a || hasStop b) := by
  simp [hasStop, List.any_append]
theorem hasStartOk_append (a b : List Obs) : hasStartOk (a ++ b) = (hasStartOk a || hasStartOk b) := by
  simp [hasStartOk, List.any_append]
theorem hasCan_append (a b : List Obs) : hasCan (a ++ b) = (hasCan a || hasCan b) := by
  simp [hasCan, List.any_append]
theorem hasStartAny_append (a b : List Obs) : hasStartAny (a ++ b) = (hasStartAny a || hasStartAny b) := by
  simp [hasStartAny, List.any_append]
theorem mwf_append (a b : List Obs) : mwf (a ++ b) = (mwf a || mwf b) := by
  simp [mwf, List.any_append]

/-- all five predicates vanish on a list -/
def Silent (l : List Obs) : Prop :=
  hasStop l = false ∧ hasStartOk l = false ∧ hasCan l = false ∧ hasStartAny l = false ∧ mwf l = false

/-! ## `recordPreTriggerFrames` -/

theorem pt_quiet (fa : Nat) (ids : List Nat) (k : Nat) :
    hasStop (preTrigger fa ids k).1 = false ∧ hasStartOk (preTrigger fa ids k).1 = false ∧
    hasCan (preTrigger fa ids k).1 = false ∧ hasStartAny (preTrigger fa ids k).1 = false := by
  induction ids generalizing k with
  | nil => simp [preTrigger, hasStop_nil, hasStartOk_nil, hasCan_nil, hasStartAny_nil]
  | cons id rest ih =>
    unfold preTrigger
    split
    · simp [hasStop_cons, hasStartOk_cons, hasCan_cons, hasStartAny_cons, hasStop_nil, hasStartOk_nil,
        hasCan_nil, hasStartAny_nil]
    · simp [hasStop_cons, hasStartOk_cons, hasCan_cons, hasStartAny_cons, ih (k + 1)]

theorem pt_nofault (ids : List Nat) (k : Nat) :
    (preTrigger 0 ids k).2.1 = true ∧ mwf (preTrigger 0 ids k).1 = false := by
  induction ids generalizing k with
  | nil => simp [preTrigger, mwf_nil]
  | cons id rest ih =>
    unfold preTrigger
    simp [mwf_cons, ih (k + 1)]

/-! ## summary of `process` -/

def attempt (c : PCfg) (s : PState) (motion : Bool) : Bool :=
  !s.isRec && motion && decide (c.trig ≤ s.triggered + 1)

def starts (c : PCfg) (s : PState) (motion : Bool) (f : Faults) : Bool :=
  attempt c s motion && f.win && f.can && f.mStart

/-- `writeUntil` right after a successful `StartRecording` -/
def startWU (c : PCfg) (s : PState) (f : Faults) : Nat :=
  match s.ring.history with
  | none => s.writeUntil
  | some h => if (preTrigger f.mWriteFail h.dropLast 0).2.1 then c.minF else s.writeUntil

/-- `writeUntil` at the point of the stop test -/
def wu1 (c : PCfg) (s : PState) (motion : Bool) (f : Faults) : Nat :=
  if s.isRec then (if motion then min (s.framesWritten + c.minF) c.maxF else s.writeUntil)
  else if starts c s motion f then startWU c s f else s.writeUntil

def rec1 (c : PCfg) (s : PState) (motion : Bool) (f : Faults) : Bool := s.isRec || starts c s motion f

def stops (c : PCfg) (s : PState) (motion : Bool) (f : Faults) : Bool :=
  rec1 c s motion f && decide (wu1 c s motion f ≤ s.framesWritten + 1)

theorem process_spec (c : PCfg) (s : PState) (motion : Bool) (f : Faults) :
    hasStartOk (process c s motion f).2 = starts c s motion f ∧
    hasCan (process c s motion f).2 = (attempt c s motion && f.win) ∧
    hasStartAny (process c s motion f).2 = (attempt c s motion && f.win && f.can) ∧
    hasStop (process c s motion f).2 = stops c s motion f ∧
    (process c s motion f).1.isRec = (rec1 c s motion f && !stops c s motion f) ∧
    (process c s motion f).1.triggered =
      (if stops c s motion f then 0 else if motion then s.triggered + 1 else 0) ∧
    (process c s motion f).1.framesWritten =
      (if rec1 c s motion f then (if stops c s motion f then 0 else s.framesWritten + 1) else s.framesWritten) ∧
    (process c s motion f).1.writeUntil =
      (if rec1 c s motion f then (if stops c s motion f then 0 else wu1 c s motion f) else s.writeUntil) ∧
    (process c s motion f).1.ring =
      (if stops c s motion f then s.ring.move.setAsOldest else s.ring.move) ∧
    (process c s motion f).1.n = s.n := by
  unfold process
  cases motion
  · cases hr : s.isRec
    · simp [starts, attempt, rec1, stops, wu1, hr, hasStop_nil, hasStartOk_nil, hasCan_nil, hasStartAny_nil]
    · by_cases hs : s.writeUntil ≤ s.framesWritten + 1 <;>
        simp [starts, attempt, rec1, stops, wu1, hr, hs, stopRecording, hasStop_nil, hasStartOk_nil, hasCan_nil,
          hasStartAny_nil, hasStop_cons, hasStartOk_cons, hasCan_cons, hasStartAny_cons]
  · cases hr : s.isRec
    · by_cases ht : c.trig ≤ s.triggered + 1
      · cases hw : f.win
        · simp [starts, attempt, rec1, stops, wu1, hr, ht, hw, Nat.not_lt.mpr ht, hasStop_nil, hasStartOk_nil,
            hasCan_nil, hasStartAny_nil, hasStop_cons, hasStartOk_cons, hasCan_cons, hasStartAny_cons]
        · cases hc : f.can
          · simp [starts, attempt, rec1, stops, wu1, hr, ht, hw, hc, Nat.not_lt.mpr ht, hasStop_nil, hasStartOk_nil,
              hasCan_nil, hasStartAny_nil, hasStop_cons, hasStartOk_cons, hasCan_cons, hasStartAny_cons]
          · cases hm : f.mStart
            · simp [starts, attempt, rec1, stops, wu1, hr, ht, hw, hc, hm, Nat.not_lt.mpr ht, hasStop_nil,
                hasStartOk_nil, hasCan_nil, hasStartAny_nil, hasStop_cons, hasStartOk_cons, hasCan_cons,
                hasStartAny_cons]
            · cases hh : s.ring.history with
              | none =>
                by_cases hs : s.writeUntil ≤ s.framesWritten + 1 <;>
                simp [starts, attempt, rec1, stops, wu1, startWU, stopRecording, hr, ht, hw, hc, hm, hh, hs,
                  Nat.not_lt.mpr ht, hasStop_nil,
                  hasStartOk_nil, hasCan_nil, hasStartAny_nil, hasStop_cons, hasStartOk_cons, hasCan_cons,
                  hasStartAny_cons]
              | some h =>
                have hq := pt_quiet f.mWriteFail h.dropLast 0
                cases hp : (preTrigger f.mWriteFail h.dropLast 0).2.1
                · by_cases hs : s.writeUntil ≤ s.framesWritten + 1 <;>
                  simp [starts, attempt, rec1, stops, wu1, startWU, stopRecording, hr, ht, hw, hc, hm, hh, hs, hp, hq,
                    Nat.not_lt.mpr ht, hasStop_nil, hasStop_append, hasStartOk_append, hasCan_append,
                    hasStartAny_append,
                    hasStartOk_nil, hasCan_nil, hasStartAny_nil, hasStop_cons, hasStartOk_cons, hasCan_cons,
                    hasStartAny_cons]
                · by_cases hs : c.minF ≤ s.framesWritten + 1 <;>
                  simp [starts, attempt, rec1, stops, wu1, startWU, stopRecording, hr, ht, hw, hc, hm, hh, hs, hp, hq,
                    Nat.not_lt.mpr ht, hasStop_nil, hasStop_append, hasStartOk_append, hasCan_append,
                    hasStartAny_append,
                    hasStartOk_nil, hasCan_nil, hasStartAny_nil, hasStop_cons, hasStartOk_cons, hasCan_cons,
                    hasStartAny_cons]
      · simp [starts, attempt, rec1, stops, wu1, hr, ht, Nat.lt_of_not_le ht, hasStop_nil, hasStartOk_nil, hasCan_nil,
          hasStartAny_nil, hasStop_cons, hasStartOk_cons, hasCan_cons, hasStartAny_cons]
    · by_cases hs : min (s.framesWritten + c.minF) c.maxF ≤ s.framesWritten + 1 <;>
        simp [starts, attempt, rec1, stops, wu1, hr, hs, stopRecording, hasStop_nil, hasStartOk_nil, hasCan_nil,
          hasStartAny_nil, hasStop_cons, hasStartOk_cons, hasCan_cons, hasStartAny_cons]

theorem stopRecording_mwf (s : PState) (b : Bool) : mwf (s.stopRecording b).2 = false := by
  unfold stopRecording; split <;> simp [mwf_cons, mwf_nil]

theorem process_nofault (c : PCfg) (s : PState) (motion : Bool) (f : Faults) (hf : f.mWriteFail = 0) :
    mwf (process c s motion f).2 = false := by
  unfold process
  cases motion
  · cases hr : s.isRec
    · simp [hr, mwf_nil, mwf_append]
    · by_cases hs : s.writeUntil ≤ s.framesWritten + 1 <;>
        simp [hr, hs, hf, stopRecording, mwf_nil, mwf_cons, mwf_append]
  · cases hr : s.isRec
    · by_cases ht : c.trig ≤ s.triggered + 1
      · cases hw : f.win
        · simp [hr, ht, hw, Nat.not_lt.mpr ht, mwf_nil, mwf_cons, mwf_append]
        · cases hc : f.can
          · simp [hr, ht, hw, hc, Nat.not_lt.mpr ht, mwf_nil, mwf_cons, mwf_append]
          · cases hm : f.mStart
            · simp [hr, ht, hw, hc, hm, Nat.not_lt.mpr ht, mwf_nil, mwf_cons, mwf_append]
            · cases hh : s.ring.history with
              | none =>
                by_cases hs : s.writeUntil ≤ s.framesWritten + 1 <;>
                simp [stopRecording, hr, ht, hw, hc, hm, hh, hs, hf, Nat.not_lt.mpr ht, mwf_nil, mwf_cons,
                  mwf_append]
              | some h =>
                have hq := pt_nofault h.dropLast 0
                by_cases hs : c.minF ≤ s.framesWritten + 1 <;>
                  simp [stopRecording, hr, ht, hw, hc, hm, hh, hs, hf, hq, Nat.not_lt.mpr ht, mwf_nil, mwf_cons,
                    mwf_append]
      · simp [hr, ht, Nat.lt_of_not_le ht, mwf_nil, mwf_cons, mwf_append]
    · by_cases hs : min (s.framesWritten + c.minF) c.maxF ≤ s.framesWritten + 1 <;>
        simp [hr, hs, hf, stopRecording, mwf_nil, mwf_cons, mwf_append]

/-! ## the continuous and test recorders are invisible to C03 / C04 -/

/-- same recording-relevant fields -/
def SameCore (s t : PState) : Prop :=
  t.isRec = s.isRec ∧ t.framesWritten = s.framesWritten ∧ t.writeUntil = s.writeUntil ∧
  t.triggered = s.triggered ∧ t.ring = s.ring ∧ t.n = s.n

local macro "obs_simp" : tactic =>
  `(tactic| simp [hasStop_cons, hasStartOk_cons, hasCan_cons, hasStartAny_cons, mwf_cons, hasStop_nil,
    hasStartOk_nil, hasCan_nil, hasStartAny_nil, mwf_nil, hasStop_append, hasStartOk_append, hasCan_append,
    hasStartAny_append, mwf_append])

theorem cr_spec (c : PCfg) (s : PState) (id : Nat) (f : Faults) :
    SameCore s (processConstantRecorder c s id f).1 ∧ Silent (processConstantRecorder c s id f).2 := by
  unfold processConstantRecorder SameCore Silent
  repeat' split
  all_goals (try obs_simp)
  all_goals (try (split <;> obs_simp))

theorem snap_spec (c : PCfg) (s : PState) (id : Nat) (f : Faults) :
    SameCore s (processSnapshot c s id f).1 ∧ Silent (processSnapshot c s id f).2 := by
  unfold processSnapshot SameCore Silent
  cases h1 : s.startSnap <;> cases h2 : s.snapRec <;> cases h3 : f.tStart <;> cases h4 : f.tStop <;>
    by_cases h5 : c.testLast < s.snapFrames + 1 <;>
    simp [h1, h2, h3, h4, h5, hasStop_cons, hasStartOk_cons, hasCan_cons, hasStartAny_cons, mwf_cons, hasStop_nil,
      hasStartOk_nil, hasCan_nil, hasStartAny_nil, mwf_nil, hasStop_append, hasStartOk_append, hasCan_append,
      hasStartAny_append, mwf_append]

/-- the state `process` runs on: the frame has been parsed into the current slot -/
def pre (s : PState) : PState := { s with ring := s.ring.write s.n }

theorem frame_spec (c : PCfg) (s : PState) (motion : Bool) (f : Faults) :
    hasStop (processFrame c s motion f).2 = hasStop (process c (pre s) motion f).2 ∧
    hasStartOk (processFrame c s motion f).2 = hasStartOk (process c (pre s) motion f).2 ∧
    hasCan (processFrame c s motion f).2 = hasCan (process c (pre s) motion f).2 ∧
    hasStartAny (processFrame c s motion f).2 = hasStartAny (process c (pre s) motion f).2 ∧
    mwf (processFrame c s motion f).2 = mwf (process c (pre s) motion f).2 ∧
    (processFrame c s motion f).1.isRec = (process c (pre s) motion f).1.isRec ∧
    (processFrame c s motion f).1.framesWritten = (process c (pre s) motion f).1.framesWritten ∧
    (processFrame c s motion f).1.writeUntil = (process c (pre s) motion f).1.writeUntil ∧
    (processFrame c s motion f).1.triggered = (process c (pre s) motion f).1.triggered ∧
    (processFrame c s motion f).1.ring = (process c (pre s) motion f).1.ring ∧
    (processFrame c s motion f).1.n = s.n + 1 := by
  obtain ⟨⟨a1, a2, a3, a4, a5, a6⟩, b1, b2, b3, b4, b5⟩ := cr_spec c (process c (pre s) motion f).1 s.n f
  obtain ⟨⟨d1, d2, d3, d4, d5, d6⟩, e1, e2, e3, e4, e5⟩ :=
    snap_spec c (processConstantRecorder c (process c (pre s) motion f).1 s.n f).1 s.n f
  simp only [processFrame, andThen, pre] at *
  simp only [hasStop_append, hasStartOk_append, hasCan_append, hasStartAny_append, mwf_append, *]
  simp

/-! ## C04 invariant -/

structure I4 (s : PState) (m : M4) : Prop where
  fails : m.fails = []
  openEq : m.openRec = s.isRec
  runEq : s.isRec = false → m.run = s.triggered

theorem i4_frame (c : PCfg) (s : PState) (m : M4) (motion : Bool) (f : Faults) (h : I4 s m) :
    I4 (processFrame c s motion f).1
       (M4.step c.trig m ⟨.frame motion f, (processFrame c s motion f).2⟩) := by
  obtain ⟨hf, ho, hr⟩ := h
  obtain ⟨f1, f2, f3, f4, _, f6, _, _, f9, _, _⟩ := frame_spec c s motion f
  obtain ⟨p1, p2, p3, p4, p5, p6, _⟩ := process_spec c (pre s) motion f
  rw [p4] at f1; rw [p1] at f2; rw [p2] at f3; rw [p3] at f4; rw [p5] at f6; rw [p6] at f9
  simp only [stops] at f1 f6 f9
  generalize decide (wu1 c (pre s) motion f ≤ (pre s).framesWritten + 1) = d at *
  simp only [rec1, starts, attempt, pre] at f1 f2 f3 f4 f6 f9
  constructor
  · simp only [M4.step, f1, f2, f3, f4, hf, ho]
    trace_state
    sorry
  · sorry
  · sorry

end TR.P03
