import TR.ProcMon
import Proofs.ProcBase
set_option linter.unusedSimpArgs false
/-!
# Proofs.ProcProto03 — helper lemmas and invariants for C03 (recording length) and C04 (start condition)
-/
namespace TR.P03
open TR TR.PState

/-! ## observation predicates as list homomorphisms -/

/-- the predicate behind `Step.motionWriteFault` -/
def mwf (obs : List Obs) : Bool :=
  obs.any fun o => match o with
    | .call .motion (.write _) false => true
    | _ => false

theorem motionWriteFault_eq (e : Ev) (obs : List Obs) : Step.motionWriteFault ⟨e, obs⟩ = mwf obs := rfl

theorem hasStop_nil : hasStop [] = false := rfl
theorem hasStartOk_nil : hasStartOk [] = false := rfl
theorem hasCan_nil : hasCan [] = false := rfl
theorem hasStartAny_nil : hasStartAny [] = false := rfl
theorem mwf_nil : mwf [] = false := rfl

theorem hasStop_cons (o : Obs) (l : List Obs) :
    hasStop (o :: l) = ((match o with | .call .motion .stop _ => true | _ => false) || hasStop l) := rfl
theorem hasStartOk_cons (o : Obs) (l : List Obs) :
    hasStartOk (o :: l) = ((match o with | .call .motion .start true => true | _ => false) || hasStartOk l) := rfl
theorem hasCan_cons (o : Obs) (l : List Obs) :
    hasCan (o :: l) = ((match o with | .call .motion .can _ => true | _ => false) || hasCan l) := rfl
theorem hasStartAny_cons (o : Obs) (l : List Obs) :
    hasStartAny (o :: l) = ((match o with | .call .motion .start _ => true | _ => false) || hasStartAny l) := rfl
theorem mwf_cons (o : Obs) (l : List Obs) :
    mwf (o :: l) = ((match o with | .call .motion (.write _) false => true | _ => false) || mwf l) := rfl

theorem hasStop_append (a b : List Obs) : hasStop (a ++ b) = (hasStop a || hasStop b) := by
  simp [hasStop, List.any_append]
theorem hasStartOk_append (a b : List Obs) : hasStartOk (a ++ b) = (hasStartOk a || hasStartOk b) := by
  simp [hasStartOk, List.any_append]
theorem hasCan_append (a b : List Obs) : hasCan (a ++ b) = (hasCan a || hasCan b) := by
  simp [hasCan, List.any_append]
theorem hasStartAny_append (a b : List Obs) : hasStartAny (a ++ b) = (hasStartAny a || hasStartAny b) := by
  simp [hasStartAny, List.any_append]
theorem mwf_append (a b : List Obs) : mwf (a ++ b) = (mwf a || mwf b) := by
  simp [mwf, List.any_append]

/-- all five predicates vanish on a list -/
def Silent (l : List Obs) : Prop :=
  hasStop l = false ∧ hasStartOk l = false ∧ hasCan l = false ∧ hasStartAny l = false ∧ mwf l = false

/-! ## `recordPreTriggerFrames` -/

theorem pt_quiet (fa : Nat) (ids : List Nat) (k : Nat) :
    hasStop (preTrigger fa ids k).1 = false ∧ hasStartOk (preTrigger fa ids k).1 = false ∧
    hasCan (preTrigger fa ids k).1 = false ∧ hasStartAny (preTrigger fa ids k).1 = false := by
  induction ids generalizing k with
  | nil => simp [preTrigger, hasStop_nil, hasStartOk_nil, hasCan_nil, hasStartAny_nil]
  | cons id rest ih =>
    unfold preTrigger
    split
    · simp [hasStop_cons, hasStartOk_cons, hasCan_cons, hasStartAny_cons, hasStop_nil, hasStartOk_nil,
        hasCan_nil, hasStartAny_nil]
    · simp [hasStop_cons, hasStartOk_cons, hasCan_cons, hasStartAny_cons, ih (k + 1)]

theorem pt_nofault (ids : List Nat) (k : Nat) :
    (preTrigger 0 ids k).2.1 = true ∧ mwf (preTrigger 0 ids k).1 = false := by
  induction ids generalizing k with
  | nil => simp [preTrigger, mwf_nil]
  | cons id rest ih =>
    unfold preTrigger
    simp [mwf_cons, ih (k + 1)]

/-! ## summary of `process` -/

def attempt (c : PCfg) (s : PState) (motion : Bool) : Bool :=
  !s.isRec && motion && decide (c.trig ≤ s.triggered + 1)

def starts (c : PCfg) (s : PState) (motion : Bool) (f : Faults) : Bool :=
  attempt c s motion && f.win && f.can && f.mStart

/-- `writeUntil` right after a successful `StartRecording` -/
def startWU (c : PCfg) (s : PState) (f : Faults) : Nat :=
  match s.ring.history with
  | none => s.writeUntil
  | some h => if (preTrigger f.mWriteFail h.dropLast 0).2.1 then c.minF else s.writeUntil

/-- `writeUntil` at the point of the stop test -/
def wu1 (c : PCfg) (s : PState) (motion : Bool) (f : Faults) : Nat :=
  if s.isRec then (if motion then min (s.framesWritten + c.minF) c.maxF else s.writeUntil)
  else if starts c s motion f then startWU c s f else s.writeUntil

def rec1 (c : PCfg) (s : PState) (motion : Bool) (f : Faults) : Bool := s.isRec || starts c s motion f

def stops (c : PCfg) (s : PState) (motion : Bool) (f : Faults) : Bool :=
  rec1 c s motion f && decide (wu1 c s motion f ≤ s.framesWritten + 1)

theorem process_spec (c : PCfg) (s : PState) (motion : Bool) (f : Faults) :
    hasStartOk (process c s motion f).2 = starts c s motion f ∧
    hasCan (process c s motion f).2 = (attempt c s motion && f.win) ∧
    hasStartAny (process c s motion f).2 = (attempt c s motion && f.win && f.can) ∧
    hasStop (process c s motion f).2 = stops c s motion f ∧
    (process c s motion f).1.isRec = (rec1 c s motion f && !stops c s motion f) ∧
    (process c s motion f).1.triggered =
      (if stops c s motion f then 0 else if motion then s.triggered + 1 else 0) ∧
    (process c s motion f).1.framesWritten =
      (if rec1 c s motion f then (if stops c s motion f then 0 else s.framesWritten + 1) else s.framesWritten) ∧
    (process c s motion f).1.writeUntil =
      (if rec1 c s motion f then (if stops c s motion f then 0 else wu1 c s motion f) else s.writeUntil) ∧
    (process c s motion f).1.ring =
      (if stops c s motion f then s.ring.move.setAsOldest else s.ring.move) ∧
    (process c s motion f).1.n = s.n := by
  unfold process
  cases motion
  · cases hr : s.isRec
    · simp [starts, attempt, rec1, stops, wu1, hr, hasStop_nil, hasStartOk_nil, hasCan_nil, hasStartAny_nil]
    · by_cases hs : s.writeUntil ≤ s.framesWritten + 1 <;>
        simp [starts, attempt, rec1, stops, wu1, hr, hs, stopRecording, hasStop_nil, hasStartOk_nil, hasCan_nil,
          hasStartAny_nil, hasStop_cons, hasStartOk_cons, hasCan_cons, hasStartAny_cons]
  · cases hr : s.isRec
    · by_cases ht : c.trig ≤ s.triggered + 1
      · cases hw : f.win
        · simp [starts, attempt, rec1, stops, wu1, hr, ht, hw, Nat.not_lt.mpr ht, hasStop_nil, hasStartOk_nil,
            hasCan_nil, hasStartAny_nil, hasStop_cons, hasStartOk_cons, hasCan_cons, hasStartAny_cons]
        · cases hc : f.can
          · simp [starts, attempt, rec1, stops, wu1, hr, ht, hw, hc, Nat.not_lt.mpr ht, hasStop_nil, hasStartOk_nil,
              hasCan_nil, hasStartAny_nil, hasStop_cons, hasStartOk_cons, hasCan_cons, hasStartAny_cons]
          · cases hm : f.mStart
            · simp [starts, attempt, rec1, stops, wu1, hr, ht, hw, hc, hm, Nat.not_lt.mpr ht, hasStop_nil,
                hasStartOk_nil, hasCan_nil, hasStartAny_nil, hasStop_cons, hasStartOk_cons, hasCan_cons,
                hasStartAny_cons]
            · cases hh : s.ring.history with
              | none =>
                by_cases hs : s.writeUntil ≤ s.framesWritten + 1 <;>
                simp [starts, attempt, rec1, stops, wu1, startWU, stopRecording, hr, ht, hw, hc, hm, hh, hs,
                  Nat.not_lt.mpr ht, hasStop_nil,
                  hasStartOk_nil, hasCan_nil, hasStartAny_nil, hasStop_cons, hasStartOk_cons, hasCan_cons,
                  hasStartAny_cons]
              | some h =>
                have hq := pt_quiet f.mWriteFail h.dropLast 0
                cases hp : (preTrigger f.mWriteFail h.dropLast 0).2.1
                · by_cases hs : s.writeUntil ≤ s.framesWritten + 1 <;>
                  simp [starts, attempt, rec1, stops, wu1, startWU, stopRecording, hr, ht, hw, hc, hm, hh, hs, hp, hq,
                    Nat.not_lt.mpr ht, hasStop_nil, hasStop_append, hasStartOk_append, hasCan_append,
                    hasStartAny_append,
                    hasStartOk_nil, hasCan_nil, hasStartAny_nil, hasStop_cons, hasStartOk_cons, hasCan_cons,
                    hasStartAny_cons]
                · by_cases hs : c.minF ≤ s.framesWritten + 1 <;>
                  simp [starts, attempt, rec1, stops, wu1, startWU, stopRecording, hr, ht, hw, hc, hm, hh, hs, hp, hq,
                    Nat.not_lt.mpr ht, hasStop_nil, hasStop_append, hasStartOk_append, hasCan_append,
                    hasStartAny_append,
                    hasStartOk_nil, hasCan_nil, hasStartAny_nil, hasStop_cons, hasStartOk_cons, hasCan_cons,
                    hasStartAny_cons]
      · simp [starts, attempt, rec1, stops, wu1, hr, ht, Nat.lt_of_not_le ht, hasStop_nil, hasStartOk_nil, hasCan_nil,
          hasStartAny_nil, hasStop_cons, hasStartOk_cons, hasCan_cons, hasStartAny_cons]
    · by_cases hs : min (s.framesWritten + c.minF) c.maxF ≤ s.framesWritten + 1 <;>
        simp [starts, attempt, rec1, stops, wu1, hr, hs, stopRecording, hasStop_nil, hasStartOk_nil, hasCan_nil,
          hasStartAny_nil, hasStop_cons, hasStartOk_cons, hasCan_cons, hasStartAny_cons]

theorem stopRecording_mwf (s : PState) (b : Bool) : mwf (s.stopRecording b).2 = false := by
  unfold stopRecording; split <;> simp [mwf_cons, mwf_nil]

theorem process_nofault (c : PCfg) (s : PState) (motion : Bool) (f : Faults) (hf : f.mWriteFail = 0) :
    mwf (process c s motion f).2 = false := by
  unfold process
  cases motion
  · cases hr : s.isRec
    · simp [hr, mwf_nil, mwf_append]
    · by_cases hs : s.writeUntil ≤ s.framesWritten + 1 <;>
        simp [hr, hs, hf, stopRecording, mwf_nil, mwf_cons, mwf_append]
  · cases hr : s.isRec
    · by_cases ht : c.trig ≤ s.triggered + 1
      · cases hw : f.win
        · simp [hr, ht, hw, Nat.not_lt.mpr ht, mwf_nil, mwf_cons, mwf_append]
        · cases hc : f.can
          · simp [hr, ht, hw, hc, Nat.not_lt.mpr ht, mwf_nil, mwf_cons, mwf_append]
          · cases hm : f.mStart
            · simp [hr, ht, hw, hc, hm, Nat.not_lt.mpr ht, mwf_nil, mwf_cons, mwf_append]
            · cases hh : s.ring.history with
              | none =>
                by_cases hs : s.writeUntil ≤ s.framesWritten + 1 <;>
                simp [stopRecording, hr, ht, hw, hc, hm, hh, hs, hf, Nat.not_lt.mpr ht, mwf_nil, mwf_cons,
                  mwf_append]
              | some h =>
                have hq := pt_nofault h.dropLast 0
                by_cases hs : c.minF ≤ s.framesWritten + 1 <;>
                  simp [stopRecording, hr, ht, hw, hc, hm, hh, hs, hf, hq, Nat.not_lt.mpr ht, mwf_nil, mwf_cons,
                    mwf_append]
      · simp [hr, ht, Nat.lt_of_not_le ht, mwf_nil, mwf_cons, mwf_append]
    · by_cases hs : min (s.framesWritten + c.minF) c.maxF ≤ s.framesWritten + 1 <;>
        simp [hr, hs, hf, stopRecording, mwf_nil, mwf_cons, mwf_append]

/-! ## the continuous and test recorders are invisible to C03 / C04 -/

/-- same recording-relevant fields -/
def SameCore (s t : PState) : Prop :=
  t.isRec = s.isRec ∧ t.framesWritten = s.framesWritten ∧ t.writeUntil = s.writeUntil ∧
  t.triggered = s.triggered ∧ t.ring = s.ring ∧ t.n = s.n

local macro "obs_simp" : tactic =>
  `(tactic| simp [hasStop_cons, hasStartOk_cons, hasCan_cons, hasStartAny_cons, mwf_cons, hasStop_nil,
    hasStartOk_nil, hasCan_nil, hasStartAny_nil, mwf_nil, hasStop_append, hasStartOk_append, hasCan_append,
    hasStartAny_append, mwf_append])

theorem cr_spec (c : PCfg) (s : PState) (id : Nat) (f : Faults) :
    SameCore s (processConstantRecorder c s id f).1 ∧ Silent (processConstantRecorder c s id f).2 := by
  unfold processConstantRecorder SameCore Silent
  repeat' split
  all_goals (try obs_simp)
  all_goals (try (split <;> obs_simp))

theorem snap_spec (c : PCfg) (s : PState) (id : Nat) (f : Faults) :
    SameCore s (processSnapshot c s id f).1 ∧ Silent (processSnapshot c s id f).2 := by
  unfold processSnapshot SameCore Silent
  cases h1 : s.startSnap <;> cases h2 : s.snapRec <;> cases h3 : f.tStart <;> cases h4 : f.tStop <;>
    by_cases h5 : c.testLast < s.snapFrames + 1 <;>
    simp [h1, h2, h3, h4, h5, hasStop_cons, hasStartOk_cons, hasCan_cons, hasStartAny_cons, mwf_cons, hasStop_nil,
      hasStartOk_nil, hasCan_nil, hasStartAny_nil, mwf_nil, hasStop_append, hasStartOk_append, hasCan_append,
      hasStartAny_append, mwf_append]

/-- the state `process` runs on: the frame has been parsed into the current slot -/
def pre (s : PState) : PState := { s with ring := s.ring.write s.n }

theorem frame_spec (c : PCfg) (s : PState) (motion : Bool) (f : Faults) :
    hasStop (processFrame c s motion f).2 = hasStop (process c (pre s) motion f).2 ∧
    hasStartOk (processFrame c s motion f).2 = hasStartOk (process c (pre s) motion f).2 ∧
    hasCan (processFrame c s motion f).2 = hasCan (process c (pre s) motion f).2 ∧
    hasStartAny (processFrame c s motion f).2 = hasStartAny (process c (pre s) motion f).2 ∧
    mwf (processFrame c s motion f).2 = mwf (process c (pre s) motion f).2 ∧
    (processFrame c s motion f).1.isRec = (process c (pre s) motion f).1.isRec ∧
    (processFrame c s motion f).1.framesWritten = (process c (pre s) motion f).1.framesWritten ∧
    (processFrame c s motion f).1.writeUntil = (process c (pre s) motion f).1.writeUntil ∧
    (processFrame c s motion f).1.triggered = (process c (pre s) motion f).1.triggered ∧
    (processFrame c s motion f).1.ring = (process c (pre s) motion f).1.ring ∧
    (processFrame c s motion f).1.n = s.n + 1 := by
  obtain ⟨⟨a1, a2, a3, a4, a5, a6⟩, b1, b2, b3, b4, b5⟩ := cr_spec c (process c (pre s) motion f).1 s.n f
  obtain ⟨⟨d1, d2, d3, d4, d5, d6⟩, e1, e2, e3, e4, e5⟩ :=
    snap_spec c (processConstantRecorder c (process c (pre s) motion f).1 s.n f).1 s.n f
  simp only [processFrame, andThen, pre] at *
  simp only [hasStop_append, hasStartOk_append, hasCan_append, hasStartAny_append, mwf_append, *]
  simp

theorem attempt_pre (c : PCfg) (s : PState) (motion : Bool) : attempt c (pre s) motion = attempt c s motion := rfl
theorem starts_pre (c : PCfg) (s : PState) (motion : Bool) (f : Faults) :
    starts c (pre s) motion f = starts c s motion f := rfl
theorem rec1_pre (c : PCfg) (s : PState) (motion : Bool) (f : Faults) :
    rec1 c (pre s) motion f = rec1 c s motion f := rfl

/-- one accepted frame, start to end, in terms of the summary functions -/
theorem frame_summary (c : PCfg) (s : PState) (motion : Bool) (f : Faults) :
    hasStartOk (PState.step c s (.frame motion f)).2 = starts c (pre s) motion f ∧
    hasStop (PState.step c s (.frame motion f)).2 = stops c (pre s) motion f ∧
    (PState.step c s (.frame motion f)).1.isRec = (rec1 c (pre s) motion f && !stops c (pre s) motion f) ∧
    (PState.step c s (.frame motion f)).1.triggered =
      (if stops c (pre s) motion f then 0 else if motion then s.triggered + 1 else 0) ∧
    (PState.step c s (.frame motion f)).1.framesWritten =
      (if rec1 c (pre s) motion f then (if stops c (pre s) motion f then 0 else s.framesWritten + 1)
       else s.framesWritten) ∧
    (PState.step c s (.frame motion f)).1.writeUntil =
      (if rec1 c (pre s) motion f then (if stops c (pre s) motion f then 0 else wu1 c (pre s) motion f)
       else s.writeUntil) := by
  obtain ⟨f1, f2, _, _, _, f6, f7, f8, f9, _, _⟩ := frame_spec c s motion f
  obtain ⟨p1, _, _, p4, p5, p6, p7, p8, _, _⟩ := process_spec c (pre s) motion f
  exact ⟨f2.trans p1, f1.trans p4, f6.trans p5, f9.trans p6, f7.trans p7, f8.trans p8⟩

/-! ## C04 invariant -/

structure I4 (s : PState) (m : M4) : Prop where
  fails : m.fails = []
  openEq : m.openRec = s.isRec
  runEq : s.isRec = false → m.run = s.triggered

/-- the monitor side of one frame event, against an abstract summary of the observations -/
theorem m4_frame (trig : Nat) (m : M4) (motion : Bool) (f : Faults) (obs : List Obs) (A d : Bool) (t : Nat)
    (hf : m.fails = []) (ho : m.openRec = A) (hr : A = false → m.run = t)
    (h1 : hasStop obs = ((A || !A && motion && decide (trig ≤ t + 1) && f.win && f.can && f.mStart) && d))
    (h2 : hasStartOk obs = (!A && motion && decide (trig ≤ t + 1) && f.win && f.can && f.mStart))
    (h3 : hasCan obs = (!A && motion && decide (trig ≤ t + 1) && f.win))
    (h4 : hasStartAny obs = (!A && motion && decide (trig ≤ t + 1) && f.win && f.can)) :
    (M4.step trig m ⟨.frame motion f, obs⟩).fails = [] ∧
    (M4.step trig m ⟨.frame motion f, obs⟩).openRec =
      ((A || !A && motion && decide (trig ≤ t + 1) && f.win && f.can && f.mStart) &&
       !((A || !A && motion && decide (trig ≤ t + 1) && f.win && f.can && f.mStart) && d)) ∧
    ((M4.step trig m ⟨.frame motion f, obs⟩).openRec = false →
      (M4.step trig m ⟨.frame motion f, obs⟩).run =
        if ((A || !A && motion && decide (trig ≤ t + 1) && f.win && f.can && f.mStart) && d) then 0
        else if motion then t + 1 else 0) := by
  simp only [M4.step, h1, h2, h3, h4, hf, ho]
  clear h1 h2 h3 h4 hf ho
  cases A
  · have := hr rfl
    subst this
    cases motion <;> cases d <;> cases f.win <;> cases f.can <;> cases f.mStart <;>
      by_cases ht : trig ≤ m.run + 1 <;> simp [ht]
  · cases motion <;> cases d <;> simp

theorem i4_frame (c : PCfg) (s : PState) (m : M4) (motion : Bool) (f : Faults) (h : I4 s m) :
    I4 (processFrame c s motion f).1
       (M4.step c.trig m ⟨.frame motion f, (processFrame c s motion f).2⟩) := by
  obtain ⟨hf, ho, hr⟩ := h
  obtain ⟨f1, f2, f3, f4, _, f6, _, _, f9, _, _⟩ := frame_spec c s motion f
  obtain ⟨p1, p2, p3, p4, p5, p6, _⟩ := process_spec c (pre s) motion f
  rw [p4] at f1; rw [p1] at f2; rw [p2] at f3; rw [p3] at f4; rw [p5] at f6; rw [p6] at f9
  obtain ⟨d, hd⟩ : ∃ d, stops c (pre s) motion f = (rec1 c (pre s) motion f && d) := ⟨_, rfl⟩
  rw [hd] at f1 f6 f9
  clear p1 p2 p3 p4 p5 p6 hd
  simp only [rec1, starts, attempt, pre] at f1 f2 f3 f4 f6 f9
  obtain ⟨g1, g2, g3⟩ := m4_frame c.trig m motion f _ s.isRec d s.triggered hf ho hr f1 f2 f3 f4
  exact ⟨g1, g2.trans f6.symm, fun hn => (g3 (g2.trans (f6.symm.trans hn))).trans f9.symm⟩

theorem i4_step (c : PCfg) (s : PState) (m : M4) (ev : Ev) (h : I4 s m) :
    I4 (PState.step c s ev).1 (M4.step c.trig m ⟨ev, (PState.step c s ev).2⟩) := by
  cases ev with
  | frame motion f => exact i4_frame c s m motion f h
  | bad f =>
    obtain ⟨hf, ho, hr⟩ := h
    cases hrec : s.isRec <;>
      constructor <;>
      simp_all [PState.step, processBad, andThen, stopRecording, stopConstantRecorder, M4.step] <;>
      split <;> simp_all
  | reset f =>
    obtain ⟨hf, ho, hr⟩ := h
    cases hrec : s.isRec <;>
      constructor <;> simp_all [PState.step, stopRecording, M4.step]
  | testReq =>
    obtain ⟨hf, ho, hr⟩ := h
    constructor <;> simp_all [PState.step, M4.step]

theorem i4_init (c : PCfg) : I4 (PState.init c) {} := by
  constructor <;> simp [PState.init]

theorem i4_trace (c : PCfg) (evs : List Ev) (s : PState) (m : M4) (h : I4 s m) :
    I4 (PState.after c s evs) ((PState.trace c s evs).foldl (M4.step c.trig) m) := by
  induction evs generalizing s m with
  | nil => exact h
  | cons e es ih =>
    simp only [PState.after, PState.trace, List.foldl_cons]
    exact ih _ _ (i4_step c s m e h)

/-! ## C03 invariant -/

theorem m3_frame (minF maxF : Nat) (hmm : minF ≤ maxF) (m : M3) (motion : Bool) (f : Faults) (obs : List Obs)
    (A st : Bool) (fw wu w : Nat)
    (ht : m.tainted = false) (hf : m.fails = []) (ho : m.openRec = A)
    (hidle : A = false → fw = 0)
    (hrec : A = true → fw = m.p ∧ 1 ≤ m.l ∧ m.l ≤ m.p ∧ wu = min maxF (m.l - 1 + minF) ∧ m.p < wu)
    (hst : st = true → A = false ∧ motion = true)
    (hwA : A = true → w = if motion then min (fw + minF) maxF else wu)
    (hwS : st = true → w = minF)
    (h0 : mwf obs = false) (h1 : hasStartOk obs = st)
    (h2 : hasStop obs = ((A || st) && decide (w ≤ fw + 1))) :
    (M3.step minF maxF m ⟨.frame motion f, obs⟩).tainted = false ∧
    (M3.step minF maxF m ⟨.frame motion f, obs⟩).fails = [] ∧
    (M3.step minF maxF m ⟨.frame motion f, obs⟩).openRec = ((A || st) && !((A || st) && decide (w ≤ fw + 1))) ∧
    ((M3.step minF maxF m ⟨.frame motion f, obs⟩).openRec = true →
      fw + 1 = (M3.step minF maxF m ⟨.frame motion f, obs⟩).p ∧
      1 ≤ (M3.step minF maxF m ⟨.frame motion f, obs⟩).l ∧
      (M3.step minF maxF m ⟨.frame motion f, obs⟩).l ≤ (M3.step minF maxF m ⟨.frame motion f, obs⟩).p ∧
      w = min maxF ((M3.step minF maxF m ⟨.frame motion f, obs⟩).l - 1 + minF) ∧
      (M3.step minF maxF m ⟨.frame motion f, obs⟩).p < w) := by
  simp only [M3.step, motionWriteFault_eq, h0, h1, h2, ho]
  cases A
  · cases st
    · simp [ho, ht, hf]
    · obtain ⟨-, rfl⟩ := hst rfl
      have := hidle rfl
      subst this
      have hw := hwS rfl
      subst hw
      by_cases hd : w ≤ 0 + 1 <;> simp [hd, ht, hf, ho]
      all_goals omega
  · obtain ⟨rfl, hl1, hl2, rfl, hp⟩ := hrec rfl
    have hst' : st = false := by cases st <;> simp_all
    subst hst'
    cases motion
    · have hw := hwA rfl
      simp only [Bool.false_eq_true, if_false] at hw
      subst hw
      by_cases hd : min maxF (m.l - 1 + minF) ≤ m.p + 1 <;> simp [hd, ht, hf, ho]
      all_goals omega
    · have hw := hwA rfl
      simp only [if_true] at hw
      subst hw
      by_cases hd : min (m.p + minF) maxF ≤ m.p + 1 <;> simp [hd, ht, hf, ho]
      all_goals omega

structure I3 (c : PCfg) (s : PState) (m : M3) : Prop where
  ring : ∃ mark, RBase c.K s.ring s.n mark
  taint : m.tainted = false
  fails : m.fails = []
  openEq : m.openRec = s.isRec
  idle : s.isRec = false → s.framesWritten = 0 ∧ s.writeUntil = 0
  recd : s.isRec = true → s.framesWritten = m.p ∧ 1 ≤ m.l ∧ m.l ≤ m.p ∧
    s.writeUntil = min c.maxF (m.l - 1 + c.minF) ∧ m.p < s.writeUntil

theorem i3_frame (c : PCfg) (hmm : c.minF ≤ c.maxF) (s : PState) (m : M3) (motion : Bool) (f : Faults)
    (hfz : f.mWriteFail = 0) (h : I3 c s m) :
    I3 c (processFrame c s motion f).1
       (M3.step c.minF c.maxF m ⟨.frame motion f, (processFrame c s motion f).2⟩) := by
  obtain ⟨⟨mark, hring⟩, ht, hf, ho, hidle, hrec⟩ := h
  obtain ⟨f1, f2, _, _, f5, f6, f7, f8, _, f10, f11⟩ := frame_spec c s motion f
  obtain ⟨p1, _, _, p4, p5, _, p7, p8, p9, _⟩ := process_spec c (pre s) motion f
  have p0 := process_nofault c (pre s) motion f hfz
  rw [p4] at f1; rw [p1] at f2; rw [p0] at f5; rw [p5] at f6; rw [p7] at f7; rw [p8] at f8; rw [p9] at f10
  clear p0 p1 p4 p5 p7 p8 p9
  have hst : starts c (pre s) motion f = true → s.isRec = false ∧ motion = true := by
    simp only [starts, attempt, pre]
    cases s.isRec <;> cases motion <;> simp
  have hwA : s.isRec = true → wu1 c (pre s) motion f =
      if motion then min (s.framesWritten + c.minF) c.maxF else s.writeUntil := by
    intro hA; simp [wu1, pre, hA]
  have hwS : starts c (pre s) motion f = true → wu1 c (pre s) motion f = c.minF := by
    intro hS
    have hA := (hst hS).1
    have hh : (pre s).ring.history = some _ := rbase_history hring
    unfold wu1 startWU
    rw [hS, hh]
    simp [pre, hA, hfz, pt_nofault]
  have f1' : hasStop (processFrame c s motion f).2 =
      ((s.isRec || starts c (pre s) motion f) && decide (wu1 c (pre s) motion f ≤ s.framesWritten + 1)) := f1
  obtain ⟨g1, g2, g3, g4⟩ := m3_frame c.minF c.maxF hmm m motion f _ s.isRec (starts c (pre s) motion f)
    s.framesWritten s.writeUntil (wu1 c (pre s) motion f) ht hf ho (fun h => (hidle h).1) hrec hst hwA hwS f5 f2 f1'
  have hopen := g3.trans f6.symm
  refine ⟨?_, g1, g2, hopen, ?_, ?_⟩
  · rw [f10, f11]
    have h1 : RBase c.K (pre s).ring.move (s.n + 1) mark := rbase_accept hring
    split
    · exact ⟨_, rbase_mark h1⟩
    · exact ⟨_, h1⟩
  · intro hn
    rw [f6] at hn; rw [f7, f8]
    cases hR : rec1 c (pre s) motion f
    · have hA : s.isRec = false := by
        simp only [rec1, pre, Bool.or_eq_false_iff] at hR; exact hR.1
      simpa [pre] using hidle hA
    · rw [hR] at hn
      have hS : stops c (pre s) motion f = true := by simpa using hn
      simp [hS]
  · intro hn
    have g := g4 (hopen.trans hn)
    rw [f6] at hn
    have hR : rec1 c (pre s) motion f = true := by
      cases hR : rec1 c (pre s) motion f <;> simp_all
    have hS : stops c (pre s) motion f = false := by
      cases hS : stops c (pre s) motion f <;> simp_all
    rw [f7, f8, hR, hS]
    exact g

theorem i3_step (c : PCfg) (hmm : c.minF ≤ c.maxF) (s : PState) (m : M3) (ev : Ev)
    (hfz : ev.faults.mWriteFail = 0) (h : I3 c s m) :
    I3 c (PState.step c s ev).1 (M3.step c.minF c.maxF m ⟨ev, (PState.step c s ev).2⟩) := by
  cases ev with
  | frame motion f => exact i3_frame c hmm s m motion f hfz h
  | bad f =>
    obtain ⟨⟨mark, hring⟩, ht, hf, ho, hidle, hrec⟩ := h
    have hw := rbase_write garbage hring
    cases hA : s.isRec
    · refine ⟨⟨mark, ?_⟩, ?_, ?_, ?_, ?_, ?_⟩ <;>
        simp_all [PState.step, processBad, andThen, stopRecording, stopConstantRecorder, M3.step,
          motionWriteFault_eq] <;>
        split <;> simp_all [mwf_cons, mwf_nil]
    · refine ⟨⟨s.n, ?_⟩, ?_, ?_, ?_, ?_, ?_⟩
      · have := rbase_mark hw
        cases hc : c.constOn <;>
          simpa [PState.step, processBad, andThen, stopRecording, stopConstantRecorder, hA, hc] using this
      all_goals
        simp_all [PState.step, processBad, andThen, stopRecording, stopConstantRecorder, M3.step,
          motionWriteFault_eq, mwf_cons, mwf_nil, mwf_append] <;>
        split <;> simp_all [mwf_cons, mwf_nil]
  | reset f =>
    obtain ⟨⟨mark, hring⟩, ht, hf, ho, hidle, hrec⟩ := h
    cases hA : s.isRec
    · refine ⟨⟨mark, ?_⟩, ?_, ?_, ?_, ?_, ?_⟩ <;>
        simp_all [PState.step, stopRecording, M3.step, motionWriteFault_eq, mwf_nil]
    · refine ⟨⟨s.n, ?_⟩, ?_, ?_, ?_, ?_, ?_⟩
      · have := rbase_mark hring
        simpa [PState.step, stopRecording, hA] using this
      all_goals
        simp_all [PState.step, stopRecording, M3.step, motionWriteFault_eq, mwf_cons, mwf_nil]
  | testReq =>
    have hm : M3.step c.minF c.maxF m ⟨.testReq, (PState.step c s .testReq).2⟩ = m := by
      simp [PState.step, M3.step, motionWriteFault_eq, mwf_nil]
    rw [hm]
    exact ⟨h.ring, h.taint, h.fails, h.openEq, h.idle, h.recd⟩

theorem i3_init (c : PCfg) (hK : 0 < c.K) : I3 c (PState.init c) {} := by
  refine ⟨⟨0, rbase_init c.K hK⟩, ?_, ?_, ?_, ?_, ?_⟩ <;> simp [PState.init]

theorem i3_trace (c : PCfg) (hmm : c.minF ≤ c.maxF) (evs : List Ev) (s : PState) (m : M3)
    (hw : ∀ ev ∈ evs, ev.faults.mWriteFail = 0) (h : I3 c s m) :
    I3 c (PState.after c s evs) ((PState.trace c s evs).foldl (M3.step c.minF c.maxF) m) := by
  induction evs generalizing s m with
  | nil => exact h
  | cons e es ih =>
    simp only [PState.after, PState.trace, List.foldl_cons]
    exact ih _ _ (fun ev hev => hw ev (List.mem_cons_of_mem _ hev))
      (i3_step c hmm s m e (hw e (List.mem_cons_self ..)) h)

/-! ## sustained motion -/

/-- a motion frame while a recording is open -/
theorem rec_motion_step (c : PCfg) (s : PState) (f : Faults) (hrec : s.isRec = true) :
    hasStartOk (PState.step c s (.frame true f)).2 = false ∧
    hasStop (PState.step c s (.frame true f)).2
      = decide (min (s.framesWritten + c.minF) c.maxF ≤ s.framesWritten + 1) ∧
    (PState.step c s (.frame true f)).1.isRec
      = !decide (min (s.framesWritten + c.minF) c.maxF ≤ s.framesWritten + 1) ∧
    (PState.step c s (.frame true f)).1.framesWritten
      = if decide (min (s.framesWritten + c.minF) c.maxF ≤ s.framesWritten + 1) then 0 else s.framesWritten + 1 := by
  obtain ⟨h1, h2, h3, _, h5, _⟩ := frame_summary c s true f
  have hs : starts c (pre s) true f = false := by rw [starts_pre]; simp [starts, attempt, hrec]
  have hr : rec1 c (pre s) true f = true := by rw [rec1_pre]; simp [rec1, hrec]
  have hw : wu1 c (pre s) true f = min (s.framesWritten + c.minF) c.maxF := by simp [wu1, pre, hrec]
  have hst : stops c (pre s) true f = decide (min (s.framesWritten + c.minF) c.maxF ≤ s.framesWritten + 1) := by
    unfold stops; rw [hr, hw]; exact Bool.true_and _
  rw [h1, h2, h3, h5, hs, hr, hst]
  simp

/-- a motion frame that starts a recording (no write faults, gate open) -/
theorem start_step (c : PCfg) (s : PState) (f : Faults) (mark : Nat) (hring : RBase c.K s.ring s.n mark)
    (hrec : s.isRec = false) (hfw : s.framesWritten = 0) (htrig : c.trig ≤ s.triggered + 1)
    (hgate : f.win = true ∧ f.can = true ∧ f.mStart = true) (hfz : f.mWriteFail = 0) :
    hasStartOk (PState.step c s (.frame true f)).2 = true ∧
    hasStop (PState.step c s (.frame true f)).2 = decide (c.minF ≤ 1) ∧
    (PState.step c s (.frame true f)).1.isRec = !decide (c.minF ≤ 1) ∧
    (PState.step c s (.frame true f)).1.framesWritten = if decide (c.minF ≤ 1) then 0 else 1 := by
  obtain ⟨h1, h2, h3, _, h5, _⟩ := frame_summary c s true f
  have hs : starts c (pre s) true f = true := by
    rw [starts_pre]; simp [starts, attempt, hrec, htrig, hgate.1, hgate.2.1, hgate.2.2]
  have hr : rec1 c (pre s) true f = true := by rw [rec1, hs]; simp
  have hw : wu1 c (pre s) true f = c.minF := by
    have hh : (pre s).ring.history = some _ := rbase_history hring
    unfold wu1 startWU
    rw [hs, hh]
    simp [pre, hrec, hfz, pt_nofault]
  have hst : stops c (pre s) true f = decide (c.minF ≤ 1) := by
    unfold stops; rw [hr, hw]
    have : (pre s).framesWritten = 0 := hfw
    rw [this]; simp
  rw [h1, h2, h3, h5, hs, hr, hst, hfw]
  simp

/-- the sustained-motion event -/
abbrev fr : Ev := .frame true {}

theorem sustained_tail (c : PCfg) (h2 : 2 ≤ c.minF) : ∀ (j : Nat) (s : PState),
    s.isRec = true → s.framesWritten + (j + 1) = c.maxF →
    (PState.trace c s (List.replicate (j + 1) fr)).map (fun st => hasStartOk st.obs) = List.replicate (j + 1) false ∧
    (PState.trace c s (List.replicate (j + 1) fr)).map (fun st => hasStop st.obs) = List.replicate j false ++ [true] ∧
    (∀ i, i ≤ j → (PState.after c s (List.replicate i fr)).isRec = true ∧
      (PState.after c s (List.replicate i fr)).framesWritten = s.framesWritten + i) ∧
    (PState.after c s (List.replicate (j + 1) fr)).isRec = false := by
  intro j
  induction j with
  | zero =>
    intro s hrec hk
    obtain ⟨a1, a2, a3, _⟩ := rec_motion_step c s {} hrec
    have hd : min (s.framesWritten + c.minF) c.maxF ≤ s.framesWritten + 1 := by omega
    simp only [hd, decide_true] at a2 a3
    refine ⟨?_, ?_, ?_, ?_⟩
    · simp [PState.trace, fr, a1]
    · simp [PState.trace, fr, a2]
    · intro i hi
      have : i = 0 := by omega
      subst this
      simp [PState.after, hrec]
    · simpa [PState.after, fr] using a3
  | succ j ih =>
    intro s hrec hk
    obtain ⟨a1, a2, a3, a4⟩ := rec_motion_step c s {} hrec
    have hd : ¬ min (s.framesWritten + c.minF) c.maxF ≤ s.framesWritten + 1 := by omega
    simp only [hd, decide_false, Bool.not_false, if_false, Bool.false_eq_true] at a2 a3 a4
    obtain ⟨b1, b2, b3, b4⟩ := ih (PState.step c s fr).1 a3 (by rw [a4]; omega)
    refine ⟨?_, ?_, ?_, ?_⟩
    · rw [List.replicate_succ, PState.trace, List.map_cons, b1, a1]; rfl
    · rw [List.replicate_succ, PState.trace, List.map_cons, b2, a2]; rfl
    · intro i hi
      cases i with
      | zero => simp [PState.after, hrec]
      | succ i =>
        obtain ⟨e1, e2⟩ := b3 i (by omega)
        rw [List.replicate_succ, PState.after]
        refine ⟨e1, ?_⟩
        rw [e2, a4]; omega
    · rw [List.replicate_succ, PState.after]; exact b4

/-- sustained motion from a non-recording state whose motion run is about to reach `trig` -/
theorem sustained (c : PCfg) (h2 : 2 ≤ c.minF) (j : Nat) (hj : c.maxF = j + 2) (s : PState) (mark : Nat)
    (hring : RBase c.K s.ring s.n mark) (hrec : s.isRec = false) (hfw : s.framesWritten = 0)
    (htrig : c.trig ≤ s.triggered + 1) :
    (PState.trace c s (List.replicate (j + 2) fr)).map (fun st => hasStartOk st.obs)
      = true :: List.replicate (j + 1) false ∧
    (PState.trace c s (List.replicate (j + 2) fr)).map (fun st => hasStop st.obs)
      = List.replicate (j + 1) false ++ [true] ∧
    (∀ i, 1 ≤ i → i ≤ j + 1 → (PState.after c s (List.replicate i fr)).isRec = true ∧
      (PState.after c s (List.replicate i fr)).framesWritten = i) ∧
    (PState.after c s (List.replicate (j + 2) fr)).isRec = false := by
  obtain ⟨a1, a2, a3, a4⟩ := start_step c s {} mark hring hrec hfw htrig ⟨rfl, rfl, rfl⟩ rfl
  have hd : ¬ c.minF ≤ 1 := by omega
  simp only [hd, decide_false, Bool.not_false, if_false, Bool.false_eq_true] at a2 a3 a4
  obtain ⟨b1, b2, b3, b4⟩ := sustained_tail c h2 j (PState.step c s fr).1 a3 (by rw [a4]; omega)
  refine ⟨?_, ?_, ?_, ?_⟩
  · rw [List.replicate_succ, PState.trace, List.map_cons, b1, a1]
  · rw [List.replicate_succ, PState.trace, List.map_cons, b2, a2]; rfl
  · intro i h1 hi
    obtain ⟨i, rfl⟩ : ∃ i', i = i' + 1 := ⟨i - 1, by omega⟩
    obtain ⟨e1, e2⟩ := b3 i (by omega)
    rw [List.replicate_succ, PState.after]
    refine ⟨e1, ?_⟩
    rw [e2, a4]; omega
  · rw [List.replicate_succ, PState.after]; exact b4

end TR.P03
