import TR.Handoff

/-!
# C18 (hand-off part) — the inductive invariant of the reader/writer buffer hand-off

Core library only.  `HInv cap input s` holds in every state reachable from `init cap input`
(`hinv_reach`), whatever the interleaving of the two goroutines.
-/
namespace TR.C18
open TR.Handoff

/-- the frame the writer has received but not written yet -/
def pendingW : WPhase → List (List Nat)
  | .holding b => [b.content]
  | _ => []

/-- the frame the reader has read but not sent yet -/
def pendingR : RPhase → List (List Nat)
  | .filled b => [b.content]
  | _ => []

/-- id of the buffer the reader holds -/
def held : RPhase → List Nat
  | .holding b => [b.id]
  | .filled b => [b.id]
  | _ => []

/-- id of the buffer the writer holds -/
def heldW : WPhase → List Nat
  | .holding b => [b.id]
  | .written b => [b.id]
  | _ => []

/-- where the buffers are: spent channel, reader, queue channel, writer -/
def idsOf (s : St) : List Nat :=
  s.spent.map (·.id) ++ held s.reader ++ s.queue.map (·.id) ++ heldW s.writer

/-- the frames taken off the socket so far, oldest first -/
def consumedOf (s : St) : List (List Nat) :=
  s.out ++ pendingW s.writer ++ s.queue.map (·.content) ++ pendingR s.reader

structure HInv (cap : Nat) (input : List (List Nat)) (s : St) : Prop where
  cap_eq : s.cap = cap
  content : input = consumedOf s ++ s.input
  /-- `lost` = the buffer the reader goroutine still held when it returned (at most one) -/
  ids : ∃ lost, (idsOf s ++ lost).Perm (List.range cap) ∧ (s.reader ≠ .done → lost = []) ∧
    lost.length ≤ 1
  closed_iff : s.closed = true ↔ s.reader = .done
  done_input : s.reader = .done → s.input = []
  fileClosed_iff : s.fileClosed = true ↔ s.writer = .done
  wdone : s.writer = .done → s.closed = true ∧ s.queue = []

theorem hinv_init (cap : Nat) (input : List (List Nat)) : HInv cap input (init cap input) := by
  refine ⟨rfl, ?_, ⟨[], ?_, fun _ => rfl, Nat.zero_le _⟩, ?_, ?_, ?_, ?_⟩
  · simp only [init, consumedOf, pendingW, pendingR, List.map_nil, List.append_nil, List.nil_append]
  · simp only [init, idsOf, held, heldW, List.map_nil, List.append_nil, List.map_map]
    simp only [Function.comp_def, List.map_id']
    exact List.Perm.refl _
  · show false = true ↔ RPhase.idle = RPhase.done
    constructor <;> intro h <;> cases h
  · intro h; cases h
  · show false = true ↔ WPhase.idle = WPhase.done
    constructor <;> intro h <;> cases h
  · intro h; cases h

theorem hinv_step {cap : Nat} {input : List (List Nat)} {s t : St} (h : HInv cap input s)
    (hstep : Step s t) : HInv cap input t := by
  obtain ⟨hcap, hcont, ⟨lost, hperm, hlost, hlen⟩, hcl, hdi, hfc, hwd⟩ := h
  rw [List.perm_iff_count] at hperm
  cases hstep with
  | rTake b rest h1 h2 =>
    refine ⟨hcap, ?_, ⟨lost, ?_, fun _ => hlost (by rw [h1]; exact fun h => by cases h), hlen⟩,
      ?_, ?_, hfc, hwd⟩
    · simp only [consumedOf, pendingR, h1] at hcont ⊢
      exact hcont
    · rw [List.perm_iff_count]; intro i; have := hperm i
      simp only [idsOf, held, h1, h2, List.map_cons, List.count_append, List.count_cons,
        List.count_nil] at this ⊢
      omega
    · simp only [h1, reduceCtorEq] at hcl ⊢; exact hcl
    · intro h; cases h
  | rFill b f more h1 h2 =>
    refine ⟨hcap, ?_, ⟨lost, ?_, fun _ => hlost (by rw [h1]; exact fun h => by cases h), hlen⟩,
      ?_, ?_, hfc, hwd⟩
    · simp only [consumedOf, pendingR, h1, h2, List.append_nil] at hcont ⊢
      rw [hcont]; simp only [List.append_assoc, List.cons_append, List.nil_append]
    · rw [List.perm_iff_count]; intro i; have := hperm i
      simp only [idsOf, held, h1] at this ⊢
      exact this
    · simp only [h1, reduceCtorEq] at hcl ⊢; exact hcl
    · intro h; cases h
  | rEOF b h1 h2 =>
    have hl : lost = [] := hlost (by rw [h1]; exact fun h => by cases h)
    subst hl
    refine ⟨hcap, ?_, ⟨[b.id], ?_, fun h => absurd rfl h, Nat.le_refl _⟩, ?_, ?_, hfc, ?_⟩
    · simp only [consumedOf, pendingR, h1] at hcont ⊢
      exact hcont
    · rw [List.perm_iff_count]; intro i; have := hperm i
      simp only [idsOf, held, h1, List.count_append, List.count_cons, List.count_nil] at this ⊢
      omega
    · exact ⟨fun _ => rfl, fun _ => rfl⟩
    · intro _; exact h2
    · intro h; exact ⟨rfl, (hwd h).2⟩
  | rSend b h1 h2 =>
    have hwnd : s.writer ≠ .done := by
      intro h
      have := hcl.mp (hwd h).1
      rw [h1] at this; cases this
    refine ⟨hcap, ?_, ⟨lost, ?_, fun _ => hlost (by rw [h1]; exact fun h => by cases h), hlen⟩,
      ?_, ?_, hfc, fun h => absurd h hwnd⟩
    · simp only [consumedOf, pendingR, h1, List.map_append, List.map_cons, List.map_nil,
        List.append_nil] at hcont ⊢
      rw [hcont]; simp only [List.append_assoc]
    · rw [List.perm_iff_count]; intro i; have := hperm i
      simp only [idsOf, held, h1, List.map_append, List.map_cons, List.map_nil, List.count_append,
        List.count_cons, List.count_nil] at this ⊢
      omega
    · simp only [h1, reduceCtorEq] at hcl ⊢; exact hcl
    · intro h; cases h
  | wRecv b rest h1 h2 =>
    refine ⟨hcap, ?_, ⟨lost, ?_, hlost, hlen⟩, hcl, hdi, ?_, ?_⟩
    · simp only [consumedOf, pendingW, h1, h2, List.map_cons, List.append_nil] at hcont ⊢
      rw [hcont]; simp only [List.append_assoc, List.cons_append, List.nil_append]
    · rw [List.perm_iff_count]; intro i; have := hperm i
      simp only [idsOf, heldW, h1, h2, List.map_cons, List.count_append, List.count_cons,
        List.count_nil] at this ⊢
      omega
    · simp only [h1, reduceCtorEq] at hfc ⊢; exact hfc
    · intro h; cases h
  | wClose h1 h2 h3 =>
    refine ⟨hcap, ?_, ⟨lost, ?_, hlost, hlen⟩, hcl, hdi, ?_, ?_⟩
    · simp only [consumedOf, pendingW, h1] at hcont ⊢
      exact hcont
    · rw [List.perm_iff_count]; intro i; have := hperm i
      simp only [idsOf, heldW, h1] at this ⊢
      exact this
    · exact ⟨fun _ => rfl, fun _ => rfl⟩
    · intro _; exact ⟨h3, h2⟩
  | wWrite b h1 =>
    refine ⟨hcap, ?_, ⟨lost, ?_, hlost, hlen⟩, hcl, hdi, ?_, ?_⟩
    · simp only [consumedOf, pendingW, h1, List.append_nil] at hcont ⊢
      rw [hcont]
    · rw [List.perm_iff_count]; intro i; have := hperm i
      simp only [idsOf, heldW, h1] at this ⊢
      exact this
    · simp only [h1, reduceCtorEq] at hfc ⊢; exact hfc
    · intro h; cases h
  | wReturn b h1 h2 =>
    refine ⟨hcap, ?_, ⟨lost, ?_, hlost, hlen⟩, hcl, hdi, ?_, ?_⟩
    · simp only [consumedOf, pendingW, h1, List.append_nil] at hcont ⊢
      exact hcont
    · rw [List.perm_iff_count]; intro i; have := hperm i
      simp only [idsOf, heldW, h1, List.map_append, List.map_cons, List.map_nil, List.count_append,
        List.count_cons, List.count_nil] at this ⊢
      omega
    · simp only [h1, reduceCtorEq] at hfc ⊢; exact hfc
    · intro h; cases h

theorem hinv_reach {cap : Nat} {input : List (List Nat)} {s : St} (hr : Reach (init cap input) s) :
    HInv cap input s := by
  induction hr with
  | refl => exact hinv_init cap input
  | step _ hs ih => exact hinv_step ih hs

/-! ## consequences of the invariant -/

theorem HInv.ids_nodup {cap : Nat} {input : List (List Nat)} {s : St} (h : HInv cap input s) :
    (idsOf s).Nodup := by
  obtain ⟨lost, hperm, _, _⟩ := h.ids
  have hn : (idsOf s ++ lost).Nodup := hperm.nodup_iff.mpr List.nodup_range
  exact (List.nodup_append.mp hn).1

theorem HInv.ids_lt {cap : Nat} {input : List (List Nat)} {s : St} (h : HInv cap input s) :
    ∀ i ∈ idsOf s, i < cap := by
  obtain ⟨lost, hperm, _, _⟩ := h.ids
  intro i hi
  exact List.mem_range.mp (hperm.mem_iff.mp (List.mem_append_left _ hi))

/-- all `cap` buffers are accounted for, except the one the reader took with it when it returned -/
theorem HInv.ids_length {cap : Nat} {input : List (List Nat)} {s : St} (h : HInv cap input s) :
    ∃ k, k ≤ 1 ∧ (s.reader ≠ .done → k = 0) ∧
      s.spent.length + (held s.reader).length + s.queue.length + (heldW s.writer).length + k = cap := by
  obtain ⟨lost, hperm, hl, hlen⟩ := h.ids
  refine ⟨lost.length, hlen, fun hnd => by rw [hl hnd]; rfl, ?_⟩
  have := hperm.length_eq
  simp only [idsOf, List.length_append, List.length_map, List.length_range] at this
  exact this

theorem HInv.ids_perm {cap : Nat} {input : List (List Nat)} {s : St} (h : HInv cap input s)
    (hnd : s.reader ≠ .done) : (idsOf s).Perm (List.range cap) := by
  obtain ⟨lost, hperm, hl, _⟩ := h.ids
  rw [hl hnd, List.append_nil] at hperm
  exact hperm

/-- the id of a buffer held by the reader occurs nowhere else -/
theorem HInv.reader_id_unique {cap : Nat} {input : List (List Nat)} {s : St} (h : HInv cap input s)
    {i : Nat} (hi : i ∈ held s.reader) :
    i ∉ s.spent.map (·.id) ∧ i ∉ s.queue.map (·.id) ∧ i ∉ heldW s.writer := by
  have hc := List.nodup_iff_count.mp h.ids_nodup i
  have h1 : 0 < List.count i (held s.reader) := List.count_pos_iff.mpr hi
  simp only [idsOf, List.count_append] at hc
  refine ⟨?_, ?_, ?_⟩ <;> rw [← List.count_eq_zero] <;> omega

/-- the id of a buffer held by the writer occurs nowhere else -/
theorem HInv.writer_id_unique {cap : Nat} {input : List (List Nat)} {s : St} (h : HInv cap input s)
    {i : Nat} (hi : i ∈ heldW s.writer) :
    i ∉ s.spent.map (·.id) ∧ i ∉ s.queue.map (·.id) ∧ i ∉ held s.reader := by
  have hc := List.nodup_iff_count.mp h.ids_nodup i
  have h1 : 0 < List.count i (heldW s.writer) := List.count_pos_iff.mpr hi
  simp only [idsOf, List.count_append] at hc
  refine ⟨?_, ?_, ?_⟩ <;> rw [← List.count_eq_zero] <;> omega

/-- a queued buffer is not also in the spent channel, and the queue has no duplicates -/
theorem HInv.queue_spent_disjoint {cap : Nat} {input : List (List Nat)} {s : St}
    (h : HInv cap input s) :
    (s.queue.map (·.id)).Nodup ∧ (s.spent.map (·.id)).Nodup ∧
      ∀ i ∈ s.queue.map (·.id), i ∉ s.spent.map (·.id) := by
  have hc := List.nodup_iff_count.mp h.ids_nodup
  simp only [idsOf, List.count_append] at hc
  refine ⟨List.nodup_iff_count.mpr fun i => ?_, List.nodup_iff_count.mpr fun i => ?_, ?_⟩
  · have := hc i; omega
  · have := hc i; omega
  · intro i hi
    have h1 : 0 < List.count i (s.queue.map (·.id)) := List.count_pos_iff.mpr hi
    rw [← List.count_eq_zero]
    have := hc i; omega

end TR.C18
