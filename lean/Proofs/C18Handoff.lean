import TR.Handoff

/-!
# C18 (hand-off part) — the inductive invariant of the reader/writer buffer hand-off

Core library only.  `HInv cap input s` holds in every state reachable from `init cap input`
(`hinv_reach`), whatever the interleaving of the two goroutines.
-/
namespace TR.C18
open TR.Handoff

/-- the frame the writer has received but not written yet -/
def pendingW : WPhase → List (List Nat)
  | .holding b => [b.content]
  | _ => []

/-- the frame the reader has read but not sent yet -/
def pendingR : RPhase → List (List Nat)
  | .filled b => [b.content]
  | _ => []

/-- id of the buffer the reader holds -/
def held : RPhase → List Nat
  | .holding b => [b.id]
  | .filled b => [b.id]
  | _ => []

/-- id of the buffer the writer holds -/
def heldW : WPhase → List Nat
  | .holding b => [b.id]
  | .written b => [b.id]
  | _ => []

/-- where the buffers are: spent channel, reader, queue channel, writer -/
def idsOf (s : St) : List Nat :=
  s.spent.map (·.id) ++ held s.reader ++ s.queue.map (·.id) ++ heldW s.writer

/-- the frames taken off the socket so far, oldest first -/
def consumedOf (s : St) : List (List Nat) :=
  s.out ++ pendingW s.writer ++ s.queue.map (·.content) ++ pendingR s.reader

structure HInv (cap : Nat) (input : List (List Nat)) (s : St) : Prop where
  cap_eq : s.cap = cap
  content : input = consumedOf s ++ s.input
  ids : (idsOf s).Perm (List.range cap)
  closed_iff : s.closed = true ↔ s.reader = .done
  done_input : s.reader = .done → s.input = []
  fileClosed_iff : s.fileClosed = true ↔ s.writer = .done
  wdone : s.writer = .done → s.closed = true ∧ s.queue = []

theorem hinv_init (cap : Nat) (input : List (List Nat)) : HInv cap input (init cap input) := by
  refine ⟨rfl, ?_, ?_, ?_, ?_, ?_, ?_⟩
  · simp only [init, consumedOf, pendingW, pendingR, List.map_nil, List.append_nil, List.nil_append]
  · simp only [init, idsOf, held, heldW, List.map_nil, List.append_nil, List.map_map]
    rw [List.map_congr_left (g := id) (fun _ _ => rfl), List.map_id]
  · simp only [init]; exact ⟨fun h => by cases h, fun h => by cases h⟩
  · intro h; cases h
  · simp only [init]; exact ⟨fun h => by cases h, fun h => by cases h⟩
  · intro h; cases h

theorem hinv_step {cap : Nat} {input : List (List Nat)} {s t : St} (h : HInv cap input s)
    (hstep : Step s t) : HInv cap input t := by
  obtain ⟨hcap, hcont, hids, hcl, hdi, hfc, hwd⟩ := h
  rw [List.perm_iff_count] at hids
  cases hstep with
  | rTake b rest h1 h2 =>
    refine ⟨hcap, ?_, ?_, ?_, ?_, hfc, hwd⟩
    · simp only [consumedOf, pendingR, h1] at hcont ⊢
      exact hcont
    · rw [List.perm_iff_count]; intro i; have := hids i
      simp only [idsOf, held, h1, h2, List.map_cons, List.count_append, List.count_cons,
        List.count_nil] at this ⊢
      omega
    · simp only [h1, reduceCtorEq] at hcl ⊢; exact hcl
    · intro h; cases h
  | rFill b f more h1 h2 =>
    refine ⟨hcap, ?_, ?_, ?_, ?_, hfc, hwd⟩
    · simp only [consumedOf, pendingR, h1, h2, List.append_nil] at hcont ⊢
      rw [hcont]; simp only [List.append_assoc, List.cons_append, List.nil_append]
    · rw [List.perm_iff_count]; intro i; have := hids i
      simp only [idsOf, held, h1] at this ⊢
      exact this
    · simp only [h1, reduceCtorEq] at hcl ⊢; exact hcl
    · intro h; cases h
  | rEOF b h1 h2 =>
    refine ⟨hcap, ?_, ?_, ?_, ?_, hfc, ?_⟩
    · simp only [consumedOf, pendingR, h1] at hcont ⊢
      exact hcont
    · rw [List.perm_iff_count]; intro i; have := hids i
      simp only [idsOf, held, h1] at this ⊢
      sorry
    · simp only
    · intro _; exact h2
    · intro h; exact ⟨rfl, (hwd h).2⟩
  | rSend b h1 h2 => sorry
  | wRecv b rest h1 h2 => sorry
  | wClose h1 h2 h3 => sorry
  | wWrite b h1 => sorry
  | wReturn b h1 h2 => sorry

end TR.C18
