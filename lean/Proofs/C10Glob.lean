import TR.FS
import Proofs.FSC10

/-!
# Proofs.C10Glob — helper lemmas for the characterisation of the start-up clean-up on ARBITRARY names

Part A: `* lit *` matches exactly the subjects that contain `lit` as a contiguous block.
Part B: when appending a tail `w` to a list cannot create a new occurrence of `lit`.
-/
namespace TR.C10Glob
open TR.FS TR.C10

/-! ## Part A — `* lit *` is "contains `lit`" -/

/-- a leading `*` may match the empty string -/
theorem glob_star_empty (ps s : List Char) (h : globMatch ps s = true) :
    globMatch ('*' :: ps) s = true := by
  cases s with
  | nil => rw [glob_star_nil]; exact h
  | cons c cs => rw [glob_star_cons, h, Bool.true_or]

/-- a leading `*` may match one character (whatever it is, a `'*'` of the subject included) -/
theorem glob_star_one (ps : List Char) (c : Char) (s : List Char) (h : globMatch ps s = true) :
    globMatch ('*' :: ps) (c :: s) = true := by
  rw [glob_star_cons, glob_star_empty ps s h, Bool.or_true]

/-- a pattern matches itself followed by whatever the rest of the pattern matches; no hypothesis on
`lit`: a `'*'` inside `lit` is a wildcard, and a wildcard matches a `'*'` of the subject too -/
theorem glob_self_prefix (lit ps s : List Char) (h : globMatch ps s = true) :
    globMatch (lit ++ ps) (lit ++ s) = true := by
  induction lit with
  | nil => exact h
  | cons c lit ih =>
    by_cases hc : c = '*'
    · subst hc
      exact glob_star_one _ _ _ ih
    · rw [List.cons_append, List.cons_append, glob_lit_cons _ _ _ _ hc, ih]
      simp

/-- every subject that contains `lit` is matched by `* lit *` (for ANY `lit`) -/
theorem glob_of_infix (lit s : List Char) (h : lit <:+: s) :
    globMatch ('*' :: (lit ++ ['*'])) s = true := by
  obtain ⟨a, b, rfl⟩ := h
  rw [List.append_assoc]
  apply glob_star_skip
  exact glob_star_empty _ _ (glob_self_prefix lit ['*'] b (glob_star_all b))

/-- whatever `* lit *` matches contains `lit`, when `lit` has no `'*'` -/
theorem infix_of_glob (lit : List Char) (hl : ∀ c ∈ lit, c ≠ '*') (s : List Char)
    (h : globMatch ('*' :: (lit ++ ['*'])) s = true) : lit <:+: s := by
  induction s with
  | nil =>
    rw [glob_star_nil] at h
    obtain ⟨t, ht, _⟩ := glob_lit_inv lit ['*'] [] hl h
    exact ⟨[], t, by simpa using ht.symm⟩
  | cons x xs ih =>
    rw [glob_star_cons, Bool.or_eq_true] at h
    rcases h with h | h
    · obtain ⟨t, ht, _⟩ := glob_lit_inv lit ['*'] (x :: xs) hl h
      exact ⟨[], t, by simpa using ht.symm⟩
    · exact List.infix_cons (ih h)

/-! ## Part B — appending a tail that cannot complete an occurrence -/

/-- `NoOverlap lit w`: no non-empty prefix of `w` is the end of `lit`, and `lit` is not the end of a
prefix of `w` — so an occurrence of `lit` in `st ++ w` cannot end inside `w` (decidable) -/
def NoOverlap (lit w : List Char) : Prop :=
  ∀ k, k < w.length → ¬ w.take (k + 1) <:+ lit ∧ ¬ lit <:+ w.take (k + 1)

instance (lit w : List Char) : Decidable (NoOverlap lit w) := by
  unfold NoOverlap; exact inferInstance

theorem infix_append_take (lit st w : List Char) (h : NoOverlap lit w) :
    ∀ k, k ≤ w.length → (lit <:+: st ++ w.take k ↔ lit <:+: st) := by
  intro k
  induction k with
  | zero => intro _; simp
  | succ k ih =>
    intro hk
    have hk' : k < w.length := hk
    rw [List.take_succ_eq_append_getElem hk', ← List.append_assoc, List.infix_concat_iff,
      ih (Nat.le_of_lt hk')]
    refine ⟨fun hh => ?_, Or.inr⟩
    rcases hh with hs | hi
    · exfalso
      rw [List.append_assoc, ← List.take_succ_eq_append_getElem hk'] at hs
      rcases List.suffix_or_suffix_of_suffix hs (List.suffix_append st (w.take (k + 1))) with h1 | h1
      · exact (h k hk').2 h1
      · exact (h k hk').1 h1
    · exact hi

/-- if `w` does not overlap the end of `lit`, then `st ++ w` contains `lit` iff `st` does -/
theorem infix_append_noOverlap (lit st w : List Char) (h : NoOverlap lit w) :
    lit <:+: st ++ w ↔ lit <:+: st := by
  have := infix_append_take lit st w h w.length (Nat.le_refl _)
  rwa [List.take_length] at this

end TR.C10Glob
