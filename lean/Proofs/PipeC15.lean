import Proofs.PipeC04
/-!
# Proofs.PipeC15 — the header of a motion file is the detector state at the frame that started it

C15, last clause, for the composed pipeline over whole histories with changing gates (`Proofs.PipeC04`: `GOp`,
`Pipe.gop`, `runG`, `motionStarts`).

* §A  `motionFile? p i` — motion file number `i`, counted from the oldest; what one step (an `Ext` of the file
      list) does to it: an old file keeps its header (`FileLe`), a new one sits among the files added;
* §B  every step extends the file list (`gop_ext`, `runG_ext`): headers of existing files never change;
* §C  `detAfter`, `HdrAt`, `StartedAt`; the induction over the history, generic in the two facts that differ
      between the unthrottled and the throttled pipeline (`stored_induct`, `started_induct`);
* §D  the unthrottled step (`unthr_step`);
* §E  the throttled step: with `minLenFrames ≥ 1` a base file is opened only by the upstream `StartRecording`
      call itself, right after `threshOfStart` was set from the detector (`thdr_obs`, `thdr_fold`, `thr_step`);
* §F  where a given motion file number is started is unique (`start_step_unique`).
-/
namespace TR.PipeC15
open TR TR.C01Spec TR.PipeC04 TR.PipeLemmas

/-! ## (A) motion file number `i` -/

theorem mot_append (a b : List RecFile) : mot (a ++ b) = mot a ++ mot b := by
  simp only [mot, List.filter_append]

theorem mot_mem {fs : List RecFile} {f : RecFile} (h : f ∈ mot fs) : f ∈ fs := (List.mem_filter.mp h).1

theorem mem_mot {fs : List RecFile} {f : RecFile} (h : f ∈ fs) (hk : f.kind = .motion) : f ∈ mot fs :=
  List.mem_filter.mpr ⟨h, by simp [hk]⟩

/-- position-wise `FileLe` survives the restriction to motion files (the kind is part of the header) -/
theorem pw_mot : ∀ {a b : List RecFile}, PW a b → PW (mot a) (mot b)
  | [], [], _ => trivial
  | [], _ :: _, h => h.elim
  | _ :: _, [], h => h.elim
  | x :: xs, y :: ys, h => by
    have hk : x.kind = y.kind := h.1.1
    by_cases hx : x.kind = .motion
    · rw [mot_cons_motion _ _ hx, mot_cons_motion _ _ (hk ▸ hx)]
      exact ⟨h.1, pw_mot h.2⟩
    · rw [mot_cons_other _ _ hx, mot_cons_other _ _ (hk ▸ hx)]
      exact pw_mot h.2

theorem ext_mot {old new : List RecFile} (h : Ext old new) : Ext (mot old) (mot new) := by
  obtain ⟨added, upd, e, p⟩ := h
  exact ⟨mot added, mot upd, by rw [e, mot_append], pw_mot p⟩

theorem FileLe.hdr {a b : RecFile} (h : FileLe a b) :
    b.kind = a.kind ∧ b.thresh = a.thresh ∧ b.bg = a.bg ∧ b.bgSeeded = a.bgSeeded :=
  ⟨h.1.symm, h.2.1.symm, h.2.2.1.symm, h.2.2.2.1.symm⟩

section defs
variable {F : FloatOps}

/-- motion file number `i` of a pipeline state, counted from the oldest (the file list is newest-first) -/
def motionFile? (p : Pipe F) (i : Nat) : Option RecFile := (mot p.files).reverse[i]?

theorem motionFile?_lt {p : Pipe F} {i : Nat} {f : RecFile} (h : motionFile? p i = some f) : i < motionStarts p := by
  obtain ⟨hi, _⟩ := List.getElem?_eq_some_iff.mp h
  rw [motionStarts_eq]
  simpa using hi

theorem motionFile?_some {p : Pipe F} {i : Nat} (h : i < motionStarts p) : ∃ f, motionFile? p i = some f := by
  rw [motionStarts_eq] at h
  exact ⟨_, List.getElem?_eq_getElem (by simpa using h)⟩

theorem motionFile?_mem {p : Pipe F} {i : Nat} {f : RecFile} (h : motionFile? p i = some f) :
    f ∈ p.files ∧ f.kind = .motion := by
  have hm : f ∈ mot p.files := List.mem_reverse.mp (List.mem_of_getElem? h)
  exact ⟨mot_mem hm, mot_kind hm⟩

theorem mem_motionFile? {p : Pipe F} {f : RecFile} (h : f ∈ p.files) (hk : f.kind = .motion) :
    ∃ i, motionFile? p i = some f := by
  have hm : f ∈ (mot p.files).reverse := List.mem_reverse.mpr (mem_mot h hk)
  obtain ⟨i, hi, e⟩ := List.getElem_of_mem hm
  exact ⟨i, List.getElem?_eq_some_iff.mpr ⟨hi, e⟩⟩

/-- the frame-id list of motion file `i` is entry `i` of `motionFiles` -/
theorem motionFile?_frames (p : Pipe F) (i : Nat) :
    (motionFiles p)[i]? = (motionFile? p i).map (·.frames) := by
  rw [motionFiles_eq, motionFile?, ← List.map_reverse, List.getElem?_map]

end defs

/-- motion file `i` after an extension `added ++ upd` of the list `old`: either it was there before (same
header, frames extended), or it is one of the added files and its number is beyond the old ones -/
theorem step_files {old added upd : List RecFile} (hpw : PW old upd) (i : Nat) (f : RecFile)
    (h : (mot (added ++ upd)).reverse[i]? = some f) :
    (∃ f₀, (mot old).reverse[i]? = some f₀ ∧ FileLe f₀ f) ∨
    ((mot old).length ≤ i ∧ f ∈ added ∧ f.kind = .motion) := by
  have hpm := pw_mot hpw
  have hlen := PW.length_eq hpm
  rw [mot_append, List.reverse_append] at h
  by_cases hi : i < (mot old).length
  · left
    rw [List.getElem?_append_left (by simpa [← hlen] using hi)] at h
    obtain ⟨hi2, e⟩ := List.getElem?_eq_some_iff.mp h
    obtain ⟨_, hle⟩ := (Ext.of_PW hpm).reverse_getElem i hi
    refine ⟨_, List.getElem?_eq_getElem (by simpa using hi), ?_⟩
    rw [← e]
    exact hle
  · right
    have hi' : (mot upd).reverse.length ≤ i := by simp only [List.length_reverse]; omega
    rw [List.getElem?_append_right hi'] at h
    have hm : f ∈ mot added := List.mem_reverse.mp (List.mem_of_getElem? h)
    exact ⟨by omega, mot_mem hm, mot_kind hm⟩

/-- if exactly one motion file was added, it is motion file number `(mot old).length` -/
theorem step_new_file {old added upd : List RecFile} (hpw : PW old upd) (h1 : (mot added).length = 1) :
    ∃ x, x ∈ added ∧ x.kind = .motion ∧ (mot (added ++ upd)).reverse[(mot old).length]? = some x := by
  have hlen := PW.length_eq (pw_mot hpw)
  match hm : mot added, h1 with
  | [x], _ =>
    have hx : x ∈ mot added := by rw [hm]; exact List.mem_singleton.mpr rfl
    refine ⟨x, mot_mem hx, mot_kind hx, ?_⟩
    rw [mot_append, List.reverse_append, hm, hlen,
      List.getElem?_append_right (by simp only [List.length_reverse]; exact Nat.le_refl _)]
    simp

/-! ## (B) every step extends the file list -/

section ext
variable {F : FloatOps}

theorem item_ext (c : PipeCfg) (p : Pipe F) (it : Socket.Item) : Ext p.files (Pipe.item c p it).files := by
  cases it with
  | clear =>
    rw [item_clear]
    exact applyObs_fold_ext c _ { p with proc := _ }
  | frame bytes =>
    cases hres : parseItem c bytes with
    | bad y x =>
      rw [item_bad c p bytes y x hres]
      exact applyObs_fold_ext c _ { p with proc := _ }
    | ok pix tel =>
      rw [item_ok c p bytes pix tel hres]
      exact applyObs_fold_ext c _ { p with det := _, accepted := _, proc := _ }

/-- one step with the gates of the moment: files are added at the head, the old ones stay in place, each with
the same `kind`, `thresh`, `bg`, `bgSeeded`, its frames a prefix of the new ones, unchanged once closed -/
theorem gop_ext (c : PipeCfg) (p : Pipe F) (g : GOp) : Ext p.files (Pipe.gop c p g).files := by
  obtain ⟨w, d, o⟩ := g
  cases o with
  | item it => exact item_ext (withGates c ⟨w, d, .item it⟩) p it
  | testReq => exact Ext.refl _

theorem fold_ext (c : PipeCfg) : ∀ (more : List GOp) (p : Pipe F), Ext p.files (more.foldl (Pipe.gop c) p).files := by
  intro more
  induction more with
  | nil => intro p; exact Ext.refl _
  | cons g more ih => intro p; exact Ext.trans (gop_ext c p g) (ih _)

theorem runG_append (c : PipeCfg) (gs more : List GOp) :
    runG F c (gs ++ more) = more.foldl (Pipe.gop c) (runG F c gs) := by
  simp only [runG, List.foldl_append]

theorem runG_ext (c : PipeCfg) (gs more : List GOp) : Ext (runG F c gs).files (runG F c (gs ++ more)).files := by
  rw [runG_append]
  exact fold_ext c more _

/-- a motion file keeps its number and its header when the file list is extended -/
theorem motionFile?_ext {p q : Pipe F} (h : Ext p.files q.files) (i : Nat) (f₀ : RecFile)
    (h0 : motionFile? p i = some f₀) : ∃ f, motionFile? q i = some f ∧ FileLe f₀ f := by
  obtain ⟨hi, e⟩ := List.getElem?_eq_some_iff.mp h0
  have hi' : i < (mot p.files).length := by simpa using hi
  obtain ⟨h2, hle⟩ := (ext_mot h).reverse_getElem i hi'
  refine ⟨_, List.getElem?_eq_getElem h2, ?_⟩
  rw [← e]
  exact hle

theorem motionStarts_mono (c : PipeCfg) (gs more : List GOp) :
    motionStarts (runG F c gs) ≤ motionStarts (runG F c (gs ++ more)) := by
  rw [motionStarts_eq, motionStarts_eq]
  exact (ext_mot (runG_ext c gs more)).length_le

end ext

/-! ## (C) the induction over the history -/

section induct
variable {F : FloatOps}

/-- the detector state right after an accepted frame has been examined in pipeline state `p` (the expression
`Pipe.item` uses; its second component is `verdict c p pix tel`) -/
def detAfter (c : PipeCfg) (p : Pipe F) (pix : Frame) (tel : Parse.Telemetry) : Det F :=
  (Det.detect c.det p.det pix
    (Det.affectedBy c.det ((tel.timeOnMs : Int) * 1000000) ((tel.lastFFCMs : Int) * 1000000))).1

/-- the header of `f` is taken from the detector state `d` -/
def HdrAt (c : PipeCfg) (d : Det F) (f : RecFile) : Prop :=
  f.thresh = d.tempThresh ∧ f.bg = d.background c.det ∧ f.bgSeeded = d.bgSeeded

theorem HdrAt.of_le {c : PipeCfg} {d : Det F} {f g : RecFile} (h : HdrAt c d f) (hfg : FileLe f g) : HdrAt c d g := by
  obtain ⟨_, t, b, s⟩ := FileLe.hdr hfg
  exact ⟨t.trans h.1, b.trans h.2.1, s.trans h.2.2⟩

/-- motion file number `i`, with header `f`, was started at a step `g` of the history `gs = pre ++ g :: post`:
an accepted frame with both gates open, at which the number of motion files went from `i` to `i + 1`, and the
header is the detector state right after that frame -/
def StartedAt (F : FloatOps) (c : PipeCfg) (gs : List GOp) (i : Nat) (f : RecFile) : Prop :=
  ∃ (pre : List GOp) (g : GOp) (post : List GOp) (bytes : List Nat) (pix : Frame) (tel : Parse.Telemetry),
    gs = pre ++ g :: post ∧ g.op = .item (.frame bytes) ∧ parseItem c bytes = .ok pix tel ∧
    g.windowOpen = true ∧ g.diskOk = true ∧
    motionStarts (runG F c pre) = i ∧ motionStarts (Pipe.gop c (runG F c pre) g) = i + 1 ∧
    HdrAt c (detAfter c (runG F c pre) pix tel) f

theorem StartedAt.mono {c : PipeCfg} {gs : List GOp} {i : Nat} {f f' : RecFile} (h : StartedAt F c gs i f)
    (hle : FileLe f f') (more : List GOp) : StartedAt F c (gs ++ more) i f' := by
  obtain ⟨pre, g, post, bytes, pix, tel, e, h1, h2, h3, h4, h5, h6, h7⟩ := h
  exact ⟨pre, g, post ++ more, bytes, pix, tel, by rw [e, List.append_assoc, List.cons_append], h1, h2, h3, h4, h5,
    h6, h7.of_le hle⟩

/-- what the induction needs to know about a step that starts a motion file -/
def StepFact (F : FloatOps) (c : PipeCfg) : Prop :=
  ∀ (gs : List GOp) (g : GOp), motionStarts (Pipe.gop c (runG F c gs) g) > motionStarts (runG F c gs) →
    motionStarts (Pipe.gop c (runG F c gs) g) = motionStarts (runG F c gs) + 1 ∧
    ∃ bytes pix tel, g.op = .item (.frame bytes) ∧ parseItem c bytes = .ok pix tel ∧
      g.windowOpen = true ∧ g.diskOk = true ∧
      ∃ added upd, (Pipe.gop c (runG F c gs) g).files = added ++ upd ∧ PW (runG F c gs).files upd ∧
        ∀ f ∈ added, f.kind = .motion → HdrAt c (detAfter c (runG F c gs) pix tel) f

theorem stored_step (c : PipeCfg) (hstep : StepFact F c) (gs : List GOp) (g : GOp)
    (ih : ∀ i f, motionFile? (runG F c gs) i = some f → StartedAt F c gs i f) :
    ∀ i f, motionFile? (runG F c (gs ++ [g])) i = some f → StartedAt F c (gs ++ [g]) i f := by
  intro i f h
  have hlt := motionFile?_lt h
  rw [runG_snoc] at h hlt
  by_cases hgrow : motionStarts (Pipe.gop c (runG F c gs) g) > motionStarts (runG F c gs)
  · obtain ⟨hone, bytes, pix, tel, hop, hparse, hw, hd, added, upd, hfiles, hpw, hhdr⟩ := hstep gs g hgrow
    unfold motionFile? at h
    rw [hfiles] at h
    rcases step_files hpw i f h with ⟨f₀, h0, hle⟩ | ⟨hge, hmem, hkind⟩
    · exact (ih i f₀ h0).mono hle [g]
    · have hi : motionStarts (runG F c gs) = i := by
        have e1 := motionStarts_eq (runG F c gs)
        omega
      exact ⟨gs, g, [], bytes, pix, tel, rfl, hop, hparse, hw, hd, hi, by rw [hone, hi], hhdr f hmem hkind⟩
  · obtain ⟨added, upd, hfiles, hpw⟩ := gop_ext c (runG F c gs) g
    unfold motionFile? at h
    rw [hfiles] at h
    rcases step_files hpw i f h with ⟨f₀, h0, hle⟩ | ⟨hge, _, _⟩
    · exact (ih i f₀ h0).mono hle [g]
    · have e1 := motionStarts_eq (runG F c gs)
      omega

/-- **every motion file was started at some step of the history, and carries the detector state of that step** -/
theorem stored_induct (c : PipeCfg) (hstep : StepFact F c) :
    ∀ (gs : List GOp) (i : Nat) (f : RecFile), motionFile? (runG F c gs) i = some f → StartedAt F c gs i f := by
  have key : ∀ (more gs : List GOp),
      (∀ i f, motionFile? (runG F c gs) i = some f → StartedAt F c gs i f) →
      ∀ i f, motionFile? (runG F c (gs ++ more)) i = some f → StartedAt F c (gs ++ more) i f := by
    intro more
    induction more with
    | nil => intro gs h; simpa using h
    | cons g more ih =>
      intro gs h
      have := ih (gs ++ [g]) (stored_step c hstep gs g h)
      simpa [List.append_assoc] using this
  intro gs
  have := key gs [] (by
    intro i f h
    have := motionFile?_lt h
    rw [runG_nil] at this
    exact absurd this (Nat.not_lt_zero _))
  simpa using this

/-- **the file a step starts carries the detector state of that step** — forward direction: the step `g` after
`pre` raises the number of motion files; then motion file number `motionStarts (runG pre)` exists at the end of
every continuation `post` and its header is the detector state right after `g`'s frame -/
theorem started_induct (c : PipeCfg) (hstep : StepFact F c) (pre : List GOp) (g : GOp) (post : List GOp)
    (bytes : List Nat) (pix : Frame) (tel : Parse.Telemetry)
    (hop : g.op = .item (.frame bytes)) (hparse : parseItem c bytes = .ok pix tel)
    (hgrow : motionStarts (Pipe.gop c (runG F c pre) g) > motionStarts (runG F c pre)) :
    ∃ f, motionFile? (runG F c (pre ++ g :: post)) (motionStarts (runG F c pre)) = some f ∧
      HdrAt c (detAfter c (runG F c pre) pix tel) f := by
  obtain ⟨hone, bytes', pix', tel', hop', hparse', _, _, added, upd, hfiles, hpw, hhdr⟩ := hstep pre g hgrow
  have hb : bytes' = bytes := by
    rw [hop] at hop'
    injection hop' with h1
    injection h1 with h2
    exact h2.symm
  subst hb
  rw [hparse] at hparse'
  injection hparse' with hp ht
  subst hp; subst ht
  have h1 : (mot added).length = 1 := by
    have hl := PW.length_eq (pw_mot hpw)
    rw [motionStarts_eq, motionStarts_eq, hfiles, mot_append, List.length_append, ← hl] at hone
    omega
  obtain ⟨x, hx, hk, hidx⟩ := step_new_file hpw h1
  have h0 : motionFile? (runG F c (pre ++ [g])) (motionStarts (runG F c pre)) = some x := by
    rw [runG_snoc, motionStarts_eq]
    unfold motionFile?
    rw [hfiles]
    exact hidx
  obtain ⟨f, hf, hle⟩ := motionFile?_ext (runG_ext c (pre ++ [g]) post) _ x h0
  refine ⟨f, ?_, (hhdr x hx hk).of_le hle⟩
  rw [List.append_assoc, List.singleton_append] at hf
  exact hf

end induct

/-! ## (D) the unthrottled step -/

section unthr
variable {F : FloatOps}

theorem gop_frame (c : PipeCfg) (p : Pipe F) (g : GOp) (bytes : List Nat) (hop : g.op = .item (.frame bytes)) :
    Pipe.gop c p g = Pipe.item (withGates c g) p (.frame bytes) := by
  unfold Pipe.gop
  rw [hop]
  rfl

/-- throttle off: the files an accepted frame adds carry the detector state right after that frame -/
theorem unthr_frame_files (c : PipeCfg) (hthr : c.throttle = false) (p : Pipe F) (g : GOp) (bytes : List Nat)
    (pix : Frame) (tel : Parse.Telemetry) (hop : g.op = .item (.frame bytes))
    (hparse : parseItem c bytes = .ok pix tel) :
    ∃ added upd, (Pipe.gop c p g).files = added ++ upd ∧ PW p.files upd ∧
      ∀ f ∈ added, f.kind = .motion → HdrAt c (detAfter c p pix tel) f := by
  rw [gop_frame c _ g bytes hop, item_ok (withGates c g) _ bytes pix tel hparse]
  obtain ⟨_, _, added, upd, e, pw, h⟩ := applyObs_fold_started (withGates c g)
    (PState.processFrame (withGates c g).proc p.proc
      (Det.detect (withGates c g).det p.det pix
        (Det.affectedBy (withGates c g).det ((tel.timeOnMs : Int) * 1000000) ((tel.lastFFCMs : Int) * 1000000))).2
      (Pipe.faults (withGates c g))).2
    { p with
      det := (Det.detect (withGates c g).det p.det pix
        (Det.affectedBy (withGates c g).det ((tel.timeOnMs : Int) * 1000000) ((tel.lastFFCMs : Int) * 1000000))).1,
      accepted := { pix := pix, tel := tel } :: p.accepted,
      proc := (PState.processFrame (withGates c g).proc p.proc
        (Det.detect (withGates c g).det p.det pix
          (Det.affectedBy (withGates c g).det ((tel.timeOnMs : Int) * 1000000) ((tel.lastFFCMs : Int) * 1000000))).2
        (Pipe.faults (withGates c g))).1 }
  refine ⟨added, upd, e, pw, ?_⟩
  intro f hf hk
  obtain ⟨h1, h2, _, h4⟩ := h f hf
  refine ⟨?_, h1, h2⟩
  rcases h4 hk with h | ⟨ht, _⟩
  · exact h
  · rw [withGates_throttle, hthr] at ht; cases ht

end unthr

/-! ## (E) the throttled step -/

section thr
variable {F : FloatOps}
open TR.PipeThr

/-- across processor observations with the throttle on: the detector is untouched, the old files keep their
places and headers, and every MOTION file added carries the header of that detector (threshold included) -/
def TStarted (c : PipeCfg) (p q : Pipe F) : Prop :=
  q.det = p.det ∧ ∃ added upd, q.files = added ++ upd ∧ PW p.files upd ∧
    ∀ f ∈ added, f.kind = .motion → HdrAt c p.det f

theorem TStarted.refl (c : PipeCfg) (p : Pipe F) : TStarted c p p :=
  ⟨rfl, [], p.files, rfl, PW.refl _, fun _ h => by cases h⟩

theorem TStarted.of_pw {c : PipeCfg} {p q : Pipe F} (hd : q.det = p.det) (hf : PW p.files q.files) : TStarted c p q :=
  ⟨hd, [], q.files, rfl, hf, fun _ h => by cases h⟩

theorem TStarted.trans {c : PipeCfg} {p q r : Pipe F} (h₁ : TStarted c p q) (h₂ : TStarted c q r) :
    TStarted c p r := by
  obtain ⟨d1, a1, u1, e1, p1, hd1⟩ := h₁
  obtain ⟨d2, a2, u2, e2, p2, hd2⟩ := h₂
  rw [e1] at p2
  obtain ⟨la, lu, hl, hla, hlu⟩ := PW.split_left a1 u1 p2
  refine ⟨d2.trans d1, a2 ++ la, lu, ?_, PW.trans p1 hlu, ?_⟩
  · rw [e2, hl, List.append_assoc]
  · intro f hf hk
    rcases List.mem_append.mp hf with hf | hf
    · have := hd2 f hf hk
      rw [d1] at this
      exact this
    · obtain ⟨g, hg, hgf⟩ := PW.mem_right hla f hf
      exact (hd1 g hg (by rw [hgf.1]; exact hk)).of_le hgf

theorem TStarted.other_start (c : PipeCfg) (p : Pipe F) (k : FileKind) (t : Nat) (hk : k ≠ .motion) :
    TStarted c p (Pipe.startFile c p k t) := by
  refine ⟨rfl, [_], p.files, rfl, PW.refl _, ?_⟩
  intro f hf hkf
  rw [List.mem_singleton] at hf
  subst hf
  exact absurd hkf hk

/-- with `minLen ≥ 1` and the processor protocol respected, one processor observation adds a motion file only
through the upstream `StartRecording` call — and that call has just copied the detector's threshold into
`threshOfStart` -/
theorem thdr_obs (c : PipeCfg) (hthr : c.throttle = true) (hM : 0 < c.minLenFrames) (p : Pipe F) (a : RecAcc)
    (m : M12s) (o : Obs) (hm : m.mo = a.cur.isSome) (hf : (M12s.obs m o).fails = []) (h : TI c p a) :
    TStarted c p (Pipe.applyObs c p o) := by
  cases o with
  | md => exact TStarted.refl c p
  | rs => exact TStarted.refl c p
  | re => exact TStarted.refl c p
  | panic => exact TStarted.refl c p
  | call s cl ok =>
    cases s with
    | const =>
      cases cl with
      | can => cases ok <;> exact TStarted.refl c p
      | start =>
        cases ok with
        | false => exact TStarted.refl c p
        | true => exact TStarted.other_start c p .const 0 (by simp)
      | write id => exact TStarted.of_pw rfl (writeFile_pw p .const id)
      | stop => exact TStarted.of_pw rfl (stopFile_pw p .const)
    | test =>
      cases cl with
      | can => cases ok <;> exact TStarted.refl c p
      | start =>
        cases ok with
        | false => exact TStarted.refl c p
        | true => exact TStarted.other_start c p .test 0 (by simp)
      | write id => exact TStarted.of_pw rfl (writeFile_pw p .test id)
      | stop => exact TStarted.of_pw rfl (stopFile_pw p .test)
    | motion =>
      cases ok with
      | false => cases cl <;> exact TStarted.refl c p
      | true =>
        cases cl with
        | can =>
          show TStarted c p (Pipe.motionCall c p .can)
          rw [mc_can c hthr]; exact TStarted.refl c p
        | start =>
          have hc := start_not_open m a hm hf
          show TStarted c p (Pipe.motionCall c p .start)
          rw [mc_start c hthr]
          by_cases hge : p.thr.minLen ≤ p.thr.bucket.avail
          · rw [(start0_yes p.thr 0 hge).1]
            refine ⟨rfl, [_], p.files, rfl, PW.refl _, ?_⟩
            intro f hf _
            rw [List.mem_singleton] at hf
            subst hf
            exact ⟨rfl, rfl, rfl⟩
          · rw [(start0_no p.thr 0 (tinv_idle_of_none h hc) (by omega)).1]
            exact TStarted.of_pw rfl (PW.refl _)
        | write id =>
          obtain ⟨r, hcur⟩ := write_open m a id true hm hf
          show TStarted c p (Pipe.motionCall c p (.write id))
          rw [mc_write c hthr]
          cases hr : p.thr.recording with
          | true =>
            by_cases hz : p.thr.bucket.avail = 0
            · rw [(write0_rec_no p.thr id hr hz).1]
              exact TStarted.of_pw rfl
                (stopFile_pw { p with thr := (p.thr.step (.write 0 id true true true)).1 } .motion)
            · rw [(write0_rec_yes p.thr id hr (by omega)).1]
              exact TStarted.of_pw rfl
                (writeFile_pw { p with thr := (p.thr.step (.write 0 id true true true)).1 } .motion id)
          | false =>
            have hlt : p.thr.bucket.avail < p.thr.minLen := by
              have hml := h.ml
              rcases h.cut hr r hcur with h1 | h1
              · omega
              · omega
            rw [(write0_idle_lt p.thr id hr hlt).1]
            exact TStarted.of_pw rfl (PW.refl _)
        | stop =>
          show TStarted c p (Pipe.motionCall c p .stop)
          rw [mc_stop c hthr]
          cases hr : p.thr.recording with
          | true =>
            rw [(stop0_rec p.thr hr).1]
            exact TStarted.of_pw rfl (stopFile_pw { p with thr := (p.thr.step (.stop true)).1 } .motion)
          | false =>
            rw [(stop0_idle p.thr hr).1]
            exact TStarted.of_pw rfl (PW.refl _)

theorem thdr_fold (c : PipeCfg) (hthr : c.throttle = true) (hM : 0 < c.minLenFrames) :
    ∀ (os : List Obs) (p : Pipe F) (a : RecAcc) (m : M12s),
    os.all clean = true → m.mo = a.cur.isSome → (os.foldl M12s.obs m).fails = [] → TI c p a →
    TStarted c p (os.foldl (Pipe.applyObs c) p) := by
  intro os
  induction os with
  | nil => intro p a m _ _ _ _; exact TStarted.refl c p
  | cons o os ih =>
    intro p a m hcl hm hf h
    simp only [List.all_cons, Bool.and_eq_true] at hcl
    simp only [List.foldl_cons] at hf ⊢
    have hf1 := m12s_fold_fails os _ hf
    exact TStarted.trans (thdr_obs c hthr hM p a m o hm hf1 h)
      (ih _ _ (M12s.obs m o) hcl.2 (mo_obs m a o hm) hf (ti_obs c hthr p a m o hcl.1 hm hf1 h))

/-- throttle on, `minLenFrames ≥ 1`: the motion files an accepted frame adds carry the detector state right
after that frame — the threshold too, because a base file is opened only by the upstream start of this very
frame -/
theorem thr_frame_files (c : PipeCfg) (hK : 0 < c.proc.K) (hthr : c.throttle = true) (hM : 0 < c.minLenFrames)
    (p : Pipe F) (g : GOp) (h : PIT c p) (bytes : List Nat) (pix : Frame) (tel : Parse.Telemetry)
    (hop : g.op = .item (.frame bytes)) (hparse : parseItem c bytes = .ok pix tel) :
    ∃ added upd, (Pipe.gop c p g).files = added ++ upd ∧ PW p.files upd ∧
      ∀ f ∈ added, f.kind = .motion → HdrAt c (detAfter c p pix tel) f := by
  obtain ⟨evs, hev, hp, hti, _⟩ := h
  have he : PipeEv (.frame (verdict c p pix tel) (gfaults g)) := ⟨rfl, rfl⟩
  have h12 := c12_protocol_all c.proc hK (evs ++ [.frame (verdict c p pix tel) (gfaults g)])
  rw [trace_snoc, ← hp] at h12
  simp only [monC12, List.foldl_append, List.foldl_cons, List.foldl_nil] at h12
  rw [gop_frame c _ g bytes hop, item_ok (withGates c g) _ bytes pix tel hparse]
  have hb := thdr_fold (withGates c g) hthr hM
    (PState.step c.proc p.proc (.frame (verdict c p pix tel) (gfaults g))).2
    { p with
      det := detAfter c p pix tel,
      accepted := { pix := pix, tel := tel } :: p.accepted,
      proc := (PState.step c.proc p.proc (.frame (verdict c p pix tel) (gfaults g))).1 }
    (recAcc (PState.trace c.proc (PState.init c.proc) evs)) _
    (step_clean c.proc p.proc _ he.1 he.2)
    (by rw [recAcc_eq]; exact mo_trace _ {} {} rfl) h12
    (ti_congr c p _ _ rfl rfl hti)
  obtain ⟨_, added, upd, e, pw, hh⟩ := hb
  exact ⟨added, upd, e, pw, hh⟩

end thr

/-! ## (F) the step at which a given motion file number is started is unique -/

theorem split_longer {α : Type} (pre pre' post post' : List α) (g g' : α)
    (e : pre ++ g :: post = pre' ++ g' :: post') (hl : pre.length < pre'.length) :
    ∃ mid, pre' = pre ++ g :: mid := by
  rcases List.append_eq_append_iff.mp e with ⟨a', h1, h2⟩ | ⟨c', h1, _⟩
  · cases a' with
    | nil => rw [h1, List.append_nil] at hl; exact absurd hl (Nat.lt_irrefl _)
    | cons x a'' =>
      rw [List.cons_append] at h2
      injection h2 with hx _
      exact ⟨a'', by rw [h1, hx]⟩
  · rw [h1, List.length_append] at hl
    omega

section unique
variable {F : FloatOps}

theorem not_both (c : PipeCfg) (pre pre' post post' : List GOp) (g g' : GOp) (i : Nat)
    (e : pre ++ g :: post = pre' ++ g' :: post')
    (h2 : motionStarts (Pipe.gop c (runG F c pre) g) = i + 1) (h1' : motionStarts (runG F c pre') = i) :
    ¬ pre.length < pre'.length := by
  intro hl
  obtain ⟨mid, hm⟩ := split_longer pre pre' post post' g g' e hl
  have := motionStarts_mono (F := F) c (pre ++ [g]) mid
  rw [runG_snoc, List.append_assoc, List.singleton_append, ← hm] at this
  omega

/-- motion file number `i` is started at one step of the history only -/
theorem start_step_unique (c : PipeCfg) (pre pre' post post' : List GOp) (g g' : GOp) (i : Nat)
    (e : pre ++ g :: post = pre' ++ g' :: post')
    (h1 : motionStarts (runG F c pre) = i) (h2 : motionStarts (Pipe.gop c (runG F c pre) g) = i + 1)
    (h1' : motionStarts (runG F c pre') = i) (h2' : motionStarts (Pipe.gop c (runG F c pre') g') = i + 1) :
    pre = pre' ∧ g = g' ∧ post = post' := by
  have a := not_both c pre pre' post post' g g' i e h2 h1'
  have b := not_both c pre' pre post' post g' g i e.symm h2' h1
  have hl : pre.length = pre'.length := by omega
  obtain ⟨e1, e2⟩ := List.append_inj e hl
  injection e2 with e3 e4
  exact ⟨e1, e3, e4⟩

end unique

end TR.PipeC15
