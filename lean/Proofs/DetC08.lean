import TR.DetSpec
/-!
# Proofs.DetC08 — relational (two-run) invariants of the detector model

Two runs of `Det.stepEv` over event lists with the same skeleton are kept in a relation `Rel1`
(frames equal on the interior, any threshold mode) resp. `Rel2` (frames equal on the interior after
raising to the fixed threshold); related states give equal verdicts.
-/
namespace TR.C08
open TR

variable {F : FloatOps}

/-! ## Statement vocabulary -/

/-- two frames agree on every interior pixel -/
def IntEq (c : DCfg) (f g : Frame) : Prop := ∀ y x, c.inI y x = true → f y x = g y x

/-- two event lists with the same skeleton (resets, FFC flags) whose frames agree on the interior -/
inductive SameInterior (c : DCfg) : List DEv → List DEv → Prop
  | nil : SameInterior c [] []
  | frame {f g : Frame} {ffc : Bool} {as bs : List DEv} : IntEq c f g → SameInterior c as bs →
      SameInterior c (.frame f ffc :: as) (.frame g ffc :: bs)
  | reset {as bs : List DEv} : SameInterior c as bs → SameInterior c (.reset :: as) (.reset :: bs)

/-- two frames agree on the interior once both are raised to the threshold T -/
def FloorEq (c : DCfg) (f g : Frame) : Prop :=
  ∀ y x, c.inI y x = true → max (f y x) c.tempThresh = max (g y x) c.tempThresh

/-- same shape as `SameInterior`, frames related by `FloorEq` -/
inductive SameFloored (c : DCfg) : List DEv → List DEv → Prop
  | nil : SameFloored c [] []
  | frame {f g : Frame} {ffc : Bool} {as bs : List DEv} : FloorEq c f g → SameFloored c as bs →
      SameFloored c (.frame f ffc :: as) (.frame g ffc :: bs)
  | reset {as bs : List DEv} : SameFloored c as bs → SameFloored c (.reset :: as) (.reset :: bs)

theorem IntEq.refl (c : DCfg) (f : Frame) : IntEq c f f := fun _ _ _ => rfl
theorem FloorEq.refl (c : DCfg) (f : Frame) : FloorEq c f f := fun _ _ _ => rfl

/-! ## Interior list / interior predicate -/

theorem mem_interior_inI (c : DCfg) (p : Nat × Nat) (h : p ∈ c.interior) : c.inI p.1 p.2 = true := by
  simp only [DCfg.interior, DCfg.rows, DCfg.cols, List.mem_flatMap, List.mem_map,
    List.mem_range'_1] at h
  obtain ⟨y, ⟨hy1, hy2⟩, x, ⟨hx1, hx2⟩, rfl⟩ := h
  simp only [DCfg.inI, Bool.and_eq_true, decide_eq_true_eq]
  simp only [DCfg.rowStop, DCfg.colStop] at *
  omega

theorem clampY_ge (c : DCfg) (h : 2 * c.edge < c.resY) (y : Nat) : c.edge ≤ c.clampY y := by
  unfold DCfg.clampY DCfg.rowStop
  split
  · omega
  · split <;> omega

theorem clampY_lt (c : DCfg) (h : 2 * c.edge < c.resY) (y : Nat) : c.clampY y < c.rowStop := by
  unfold DCfg.clampY DCfg.rowStop
  split
  · omega
  · split <;> omega

theorem clampX_ge (c : DCfg) (h : 2 * c.edge < c.resX) (x : Nat) : c.edge ≤ c.clampX x := by
  unfold DCfg.clampX DCfg.colStop
  split
  · omega
  · split <;> omega

theorem clampX_lt (c : DCfg) (h : 2 * c.edge < c.resX) (x : Nat) : c.clampX x < c.colStop := by
  unfold DCfg.clampX DCfg.colStop
  split
  · omega
  · split <;> omega

theorem inI_clamp (c : DCfg) (hne : 2 * c.edge < c.resX ∧ 2 * c.edge < c.resY) (y x : Nat) :
    c.inI (c.clampY y) (c.clampX x) = true := by
  obtain ⟨hx, hy⟩ := hne
  simp only [DCfg.inI, Bool.and_eq_true, decide_eq_true_eq]
  exact ⟨⟨⟨clampY_ge c hy y, clampY_lt c hy y⟩, clampX_ge c hx x⟩, clampX_lt c hx x⟩

/-! ## Congruence of list traversals on their members -/

theorem foldl_congr_mem {α β : Type} (l : List α) (f g : β → α → β)
    (h : ∀ b, ∀ a ∈ l, f b a = g b a) (b0 : β) : l.foldl f b0 = l.foldl g b0 := by
  induction l generalizing b0 with
  | nil => rfl
  | cons a l ih =>
    simp only [List.foldl_cons]
    rw [h b0 a (by simp)]
    exact ih (fun b a' ha' => h b a' (by simp [ha'])) _

theorem any_congr_mem {α : Type} (l : List α) (p q : α → Bool)
    (h : ∀ a ∈ l, p a = q a) : l.any p = l.any q := by
  induction l with
  | nil => rfl
  | cons a l ih =>
    simp only [List.any_cons]
    rw [h a (by simp), ih (fun a' ha' => h a' (by simp [ha']))]

theorem meanOf_congr (c : DCfg) {a b : Frame} (h : IntEq c a b) :
    Det.meanOf F c a = Det.meanOf F c b := by
  unfold Det.meanOf
  apply foldl_congr_mem
  intro acc p hp
  rw [h _ _ (mem_interior_inI c p hp)]

theorem countChanged_congr (c : DCfg) {a b u v : Frame} (hd : IntEq c a b) (hp : IntEq c u v)
    (o : Bool) :
    Det.countChanged c a (if o then none else some u) =
      Det.countChanged c b (if o then none else some v) := by
  cases o
  · simp only [Bool.false_eq_true, if_false, Det.countChanged]
    congr 1
    apply List.filter_congr
    intro p hm
    have hi := mem_interior_inI c p hm
    rw [hd _ _ hi, hp _ _ hi]
  · simp only [if_true, Det.countChanged]
    congr 1
    apply List.filter_congr
    intro p hm
    have hi := mem_interior_inI c p hm
    rw [hd _ _ hi]

/-! ## Related rings -/

/-- same structure, slot contents related by `P` -/
structure RingRel (P : Frame → Frame → Prop) (a b : Ring Frame) : Prop where
  size : a.size = b.size
  cur : a.cur = b.cur
  full : a.full = b.full
  oldest : a.oldest = b.oldest
  slots : ∀ i, P (a.slots i) (b.slots i)

namespace RingRel
variable {P : Frame → Frame → Prop} {a b : Ring Frame}

theorem new (n : Nat) (z : Frame) (hz : P z z) : RingRel P (Ring.new n z) (Ring.new n z) :=
  ⟨rfl, rfl, rfl, rfl, fun _ => hz⟩

theorem write (h : RingRel P a b) {v w : Frame} (hv : P v w) :
    RingRel P (a.write v) (b.write w) :=
  ⟨h.size, h.cur, h.full, h.oldest, fun i => by
    show P (if i = a.cur then v else a.slots i) (if i = b.cur then w else b.slots i)
    rw [h.cur]
    split
    · exact hv
    · exact h.slots i⟩

theorem move (h : RingRel P a b) : RingRel P a.move b.move := by
  refine ⟨h.size, ?_, ?_, ?_, h.slots⟩
  · show (a.cur + 1) % a.size = (b.cur + 1) % b.size
    rw [h.cur, h.size]
  · show (a.full || (a.cur + 1) % a.size == 0) = (b.full || (b.cur + 1) % b.size == 0)
    rw [h.cur, h.size, h.full]
  · show (if a.oldest = some ((a.cur + 1) % a.size) then none else a.oldest) =
      (if b.oldest = some ((b.cur + 1) % b.size) then none else b.oldest)
    rw [h.cur, h.size, h.oldest]

theorem reset (h : RingRel P a b) : RingRel P a.reset b.reset :=
  ⟨h.size, rfl, rfl, rfl, h.slots⟩

theorem setAsOldest (h : RingRel P a b) : RingRel P a.setAsOldest b.setAsOldest :=
  ⟨h.size, h.cur, h.full, by show some a.cur = some b.cur; rw [h.cur], h.slots⟩

theorem current (h : RingRel P a b) : P a.current b.current := by
  show P (a.slots a.cur) (b.slots b.cur)
  rw [h.cur]; exact h.slots _

theorem oldestIdx (h : RingRel P a b) : a.oldestIdx = b.oldestIdx := by
  unfold Ring.oldestIdx Ring.next
  rw [h.oldest, h.cur, h.size]

theorem oldestFrame (h : RingRel P a b) : P a.oldestFrame b.oldestFrame := by
  show P (a.slots a.oldestIdx) (b.slots b.oldestIdx)
  rw [h.oldestIdx]; exact h.slots _

end RingRel

/-! ## The model functions, unfolded into named pieces -/

/-- the diff frame written by `pixelsChanged` -/
def pcDiff (c : DCfg) (d : Det F) (f : Frame) : Frame := fun y x =>
  if c.inI y x then
    pixDiff c.warmerOnly d.tempThresh (f y x) ((d.floored.write f).oldestFrame y x)
  else d.diffs.current y x

/-- the diff ring after `pixelsChanged` -/
def pcDfs (c : DCfg) (d : Det F) (f : Frame) : Ring Frame := (d.diffs.write (pcDiff c d f)).move

theorem pixelsChanged_eq (c : DCfg) (d : Det F) (f : Frame) (ffc p : Bool) :
    Det.pixelsChanged c d f ffc p =
      if !d.firstDiff then
        ({ d with floored := (d.floored.write f).move, diffs := pcDfs c d f, firstDiff := true },
          false)
      else if ffc || p then
        ({ d with floored := (d.floored.write f).setAsOldest.move, diffs := pcDfs c d f,
                  firstDiff := false }, false)
      else
        ({ d with floored := (d.floored.write f).move, diffs := pcDfs c d f },
          decide (Det.countChanged c (pcDiff c d f)
            (if c.useOneDiff then none else some (pcDfs c d f).current) ≥ c.countThresh)) := rfl

theorem pixelsChanged_first (c : DCfg) (d : Det F) (f : Frame) (ffc p : Bool)
    (h : d.firstDiff = false) :
    Det.pixelsChanged c d f ffc p =
      ({ d with floored := (d.floored.write f).move, diffs := pcDfs c d f, firstDiff := true },
        false) := by
  rw [pixelsChanged_eq, if_pos (by rw [h]; rfl)]

theorem pixelsChanged_ffc (c : DCfg) (d : Det F) (f : Frame) (ffc p : Bool)
    (h : d.firstDiff = true) (hq : (ffc || p) = true) :
    Det.pixelsChanged c d f ffc p =
      ({ d with floored := (d.floored.write f).setAsOldest.move, diffs := pcDfs c d f,
                firstDiff := false }, false) := by
  rw [pixelsChanged_eq, if_neg (by rw [h]; decide), if_pos hq]

theorem pixelsChanged_count (c : DCfg) (d : Det F) (f : Frame) (ffc p : Bool)
    (h : d.firstDiff = true) (hq : ¬ (ffc || p) = true) :
    Det.pixelsChanged c d f ffc p =
      ({ d with floored := (d.floored.write f).move, diffs := pcDfs c d f },
        decide (Det.countChanged c (pcDiff c d f)
          (if c.useOneDiff then none else some (pcDfs c d f).current) ≥ c.countThresh)) := by
  rw [pixelsChanged_eq, if_neg (by rw [h]; decide), if_neg hq]

/-- first-frame background of `updateBackground` -/
def ubBg1 (c : DCfg) (d : Det F) (f : Frame) : Frame := fun y x =>
  if c.inI y x then f y x else d.bg y x

/-- the per-pixel replace decision of `updateBackground` -/
def ubRepl (d : Det F) (f : Frame) (p : Bool) : Nat → Nat → Bool := fun y x =>
  p || F.lower (f y x) (d.weight y x) (d.bg y x)

def ubBg2 (c : DCfg) (d : Det F) (f : Frame) (p : Bool) : Frame := fun y x =>
  if c.inI y x && ubRepl d f p y x then f y x else d.bg y x

def ubW (c : DCfg) (d : Det F) (f : Frame) (p : Bool) : Nat → Nat → F.ω := fun y x =>
  if c.inI y x then (if ubRepl d f p y x then F.w0 else F.bump (d.weight y x)) else d.weight y x

theorem updateBackground_eq (c : DCfg) (d : Det F) (f : Frame) (p : Bool) :
    Det.updateBackground c d f p =
      if d.backgroundFrames + 1 = 1 then
        ({ d with backgroundFrames := d.backgroundFrames + 1, bg := ubBg1 c d f, bgSeeded := true },
          Det.meanOf F c (ubBg1 c d f), true)
      else
        ({ d with backgroundFrames := d.backgroundFrames + 1, bg := ubBg2 c d f p,
                  bgSeeded := true, weight := ubW c d f p },
          Det.meanOf F c (ubBg2 c d f p), c.interior.any fun q => ubRepl d f p q.1 q.2) := rfl

/-- the threshold update of `Detect` applied to the result of `updateBackground` -/
def setTh (c : DCfg) (r : Det F × F.α × Bool) : Det F :=
  if r.2.2 && decide (r.1.backgroundFrames > c.previewFrames) then
    { r.1 with tempThresh := Det.clampThresh c (F.trunc r.2.1) }
  else r.1

/-- the detector state `Detect` hands to `pixelsChanged` -/
def pre (c : DCfg) (d : Det F) (f : Frame) (ffc : Bool) : Det F :=
  if c.dynamic && !ffc then
    setTh c (Det.updateBackground c { d with affected := ffc } f d.affected)
  else { d with affected := ffc }

theorem detect_eq (c : DCfg) (d : Det F) (f : Frame) (ffc : Bool) :
    Det.detect c d f ffc = Det.pixelsChanged c (pre c d f ffc) f ffc d.affected := rfl

theorem pre_fixed (c : DCfg) (hdyn : c.dynamic = false) (d : Det F) (f : Frame) (ffc : Bool) :
    pre c d f ffc = { d with affected := ffc } := by
  simp only [pre, hdyn, Bool.false_and, Bool.false_eq_true, if_false]

/-! ## (1) interior-equal runs -/

/-- the relation between the two runs for `c08_border` -/
structure Rel1 (c : DCfg) (dA dB : Det F) : Prop where
  floored : RingRel (IntEq c) dA.floored dB.floored
  diffs : RingRel (IntEq c) dA.diffs dB.diffs
  firstDiff : dA.firstDiff = dB.firstDiff
  tempThresh : dA.tempThresh = dB.tempThresh
  bg : IntEq c dA.bg dB.bg
  bgSeeded : dA.bgSeeded = dB.bgSeeded
  weight : ∀ y x, c.inI y x = true → dA.weight y x = dB.weight y x
  backgroundFrames : dA.backgroundFrames = dB.backgroundFrames
  affected : dA.affected = dB.affected

theorem Rel1.init (F : FloatOps) (c : DCfg) : Rel1 c (Det.init F c) (Det.init F c) :=
  ⟨RingRel.new _ _ (IntEq.refl c _), RingRel.new _ _ (IntEq.refl c _), rfl, rfl,
    IntEq.refl c _, rfl, fun _ _ _ => rfl, rfl, rfl⟩

theorem Rel1.reset {c : DCfg} {dA dB : Det F} (h : Rel1 c dA dB) : Rel1 c dA.reset dB.reset :=
  ⟨h.floored.reset, h.diffs.reset, h.firstDiff, h.tempThresh, h.bg, h.bgSeeded, h.weight, rfl,
    h.affected⟩

theorem Rel1.pcDiff {c : DCfg} {dA dB : Det F} (h : Rel1 c dA dB) {f g : Frame}
    (hfg : IntEq c f g) : IntEq c (pcDiff c dA f) (pcDiff c dB g) := by
  intro y x hi
  simp only [C08.pcDiff, hi, if_true]
  rw [h.tempThresh, hfg y x hi, (h.floored.write hfg).oldestFrame y x hi]

theorem Rel1.pixelsChanged {c : DCfg} {dA dB : Det F} (h : Rel1 c dA dB) {f g : Frame}
    (hfg : IntEq c f g) (ffc p : Bool) :
    Rel1 c (Det.pixelsChanged c dA f ffc p).1 (Det.pixelsChanged c dB g ffc p).1 ∧
      (Det.pixelsChanged c dA f ffc p).2 = (Det.pixelsChanged c dB g ffc p).2 := by
  have hfl := h.floored.write hfg
  have hdiff := h.pcDiff hfg
  have hdfs : RingRel (IntEq c) (pcDfs c dA f) (pcDfs c dB g) := (h.diffs.write hdiff).move
  rcases Bool.eq_false_or_eq_true dB.firstDiff with hb | hb
  · have ha : dA.firstDiff = true := h.firstDiff.trans hb
    by_cases hq : (ffc || p) = true
    · rw [pixelsChanged_ffc c dA f ffc p ha hq, pixelsChanged_ffc c dB g ffc p hb hq]
      exact ⟨⟨hfl.setAsOldest.move, hdfs, rfl, h.tempThresh, h.bg, h.bgSeeded, h.weight,
        h.backgroundFrames, h.affected⟩, rfl⟩
    · rw [pixelsChanged_count c dA f ffc p ha hq, pixelsChanged_count c dB g ffc p hb hq]
      refine ⟨⟨hfl.move, hdfs, h.firstDiff, h.tempThresh, h.bg, h.bgSeeded, h.weight,
        h.backgroundFrames, h.affected⟩, ?_⟩
      show decide (_ ≥ _) = decide (_ ≥ _)
      rw [countChanged_congr c hdiff hdfs.current]
  · have ha : dA.firstDiff = false := h.firstDiff.trans hb
    rw [pixelsChanged_first c dA f ffc p ha, pixelsChanged_first c dB g ffc p hb]
    exact ⟨⟨hfl.move, hdfs, rfl, h.tempThresh, h.bg, h.bgSeeded, h.weight,
      h.backgroundFrames, h.affected⟩, rfl⟩

theorem Rel1.setAffected {c : DCfg} {dA dB : Det F} (h : Rel1 c dA dB) (b : Bool) :
    Rel1 c { dA with affected := b } { dB with affected := b } :=
  ⟨h.floored, h.diffs, h.firstDiff, h.tempThresh, h.bg, h.bgSeeded, h.weight,
    h.backgroundFrames, rfl⟩

theorem Rel1.setThresh {c : DCfg} {dA dB : Det F} (h : Rel1 c dA dB) (t : Nat) :
    Rel1 c { dA with tempThresh := t } { dB with tempThresh := t } :=
  ⟨h.floored, h.diffs, h.firstDiff, rfl, h.bg, h.bgSeeded, h.weight,
    h.backgroundFrames, h.affected⟩

theorem Rel1.ubRepl {c : DCfg} {dA dB : Det F} (h : Rel1 c dA dB) {f g : Frame}
    (hfg : IntEq c f g) (p : Bool) (y x : Nat) (hi : c.inI y x = true) :
    ubRepl dA f p y x = ubRepl dB g p y x := by
  simp only [C08.ubRepl]
  rw [hfg y x hi, h.weight y x hi, h.bg y x hi]

theorem Rel1.updateBackground {c : DCfg} {dA dB : Det F} (h : Rel1 c dA dB) {f g : Frame}
    (hfg : IntEq c f g) (p : Bool) :
    Rel1 c (Det.updateBackground c dA f p).1 (Det.updateBackground c dB g p).1 ∧
      (Det.updateBackground c dA f p).2.1 = (Det.updateBackground c dB g p).2.1 ∧
      (Det.updateBackground c dA f p).2.2 = (Det.updateBackground c dB g p).2.2 := by
  rw [updateBackground_eq, updateBackground_eq]
  by_cases hn : dB.backgroundFrames + 1 = 1
  · have hnA : dA.backgroundFrames + 1 = 1 := by rw [h.backgroundFrames]; exact hn
    rw [if_pos hn, if_pos hnA]
    have hbg : IntEq c (ubBg1 c dA f) (ubBg1 c dB g) := by
      intro y x hi
      simp only [ubBg1, hi, if_true]
      exact hfg y x hi
    refine ⟨⟨h.floored, h.diffs, h.firstDiff, h.tempThresh, hbg, rfl, h.weight, ?_, h.affected⟩,
      meanOf_congr c hbg, rfl⟩
    show dA.backgroundFrames + 1 = dB.backgroundFrames + 1
    rw [h.backgroundFrames]
  · have hnA : ¬ dA.backgroundFrames + 1 = 1 := by rw [h.backgroundFrames]; exact hn
    rw [if_neg hn, if_neg hnA]
    have hbg : IntEq c (ubBg2 c dA f p) (ubBg2 c dB g p) := by
      intro y x hi
      simp only [ubBg2]
      rw [h.ubRepl hfg p y x hi, hfg y x hi, h.bg y x hi]
    have hw : ∀ y x, c.inI y x = true → ubW c dA f p y x = ubW c dB g p y x := by
      intro y x hi
      simp only [ubW]
      rw [h.ubRepl hfg p y x hi, h.weight y x hi]
    refine ⟨⟨h.floored, h.diffs, h.firstDiff, h.tempThresh, hbg, rfl, hw, ?_, h.affected⟩,
      meanOf_congr c hbg, ?_⟩
    · show dA.backgroundFrames + 1 = dB.backgroundFrames + 1
      rw [h.backgroundFrames]
    · show (c.interior.any fun q => C08.ubRepl dA f p q.1 q.2) =
        (c.interior.any fun q => C08.ubRepl dB g p q.1 q.2)
      apply any_congr_mem
      intro q hq
      exact h.ubRepl hfg p q.1 q.2 (mem_interior_inI c q hq)

theorem Rel1.setTh {c : DCfg} {rA rB : Det F × F.α × Bool} (h : Rel1 c rA.1 rB.1)
    (hm : rA.2.1 = rB.2.1) (hc : rA.2.2 = rB.2.2) : Rel1 c (setTh c rA) (setTh c rB) := by
  unfold C08.setTh
  rw [hm, hc, h.backgroundFrames]
  by_cases hq : (rB.2.2 && decide (rB.1.backgroundFrames > c.previewFrames)) = true
  · rw [if_pos hq, if_pos hq]
    exact h.setThresh _
  · rw [if_neg hq, if_neg hq]
    exact h

theorem Rel1.pre {c : DCfg} {dA dB : Det F} (h : Rel1 c dA dB) {f g : Frame}
    (hfg : IntEq c f g) (ffc : Bool) : Rel1 c (pre c dA f ffc) (pre c dB g ffc) := by
  unfold C08.pre
  by_cases hd : (c.dynamic && !ffc) = true
  · rw [if_pos hd, if_pos hd, h.affected]
    obtain ⟨hr, hm, hc⟩ := (h.setAffected ffc).updateBackground hfg dB.affected
    exact hr.setTh hm hc
  · rw [if_neg hd, if_neg hd]
    exact h.setAffected ffc

theorem Rel1.detect {c : DCfg} {dA dB : Det F} (h : Rel1 c dA dB) {f g : Frame}
    (hfg : IntEq c f g) (ffc : Bool) :
    Rel1 c (Det.detect c dA f ffc).1 (Det.detect c dB g ffc).1 ∧
      (Det.detect c dA f ffc).2 = (Det.detect c dB g ffc).2 := by
  rw [detect_eq, detect_eq, h.affected]
  exact (h.pre hfg ffc).pixelsChanged hfg ffc dB.affected

theorem Rel1.run {c : DCfg} {as bs : List DEv} (hs : SameInterior c as bs) :
    ∀ dA dB : Det F, Rel1 c dA dB →
      Det.outputs c dA as = Det.outputs c dB bs ∧ Rel1 c (Det.after c dA as) (Det.after c dB bs) := by
  induction hs with
  | nil => intro dA dB h; exact ⟨rfl, h⟩
  | frame hfg _ ih =>
    intro dA dB h
    obtain ⟨hr, ho⟩ := h.detect hfg _
    obtain ⟨io, ia⟩ := ih _ _ hr
    simp only [Det.outputs, Det.after, Det.stepEv]
    exact ⟨by rw [ho, io], ia⟩
  | reset _ ih =>
    intro dA dB h
    obtain ⟨io, ia⟩ := ih _ _ h.reset
    simp only [Det.outputs, Det.after, Det.stepEv]
    exact ⟨io, ia⟩

/-! ## (2) fixed threshold: runs equal after raising to the threshold -/

theorem pixDiff_congr (w : Bool) (T a a' b b' : Nat) (ha : max a T = max a' T)
    (hb : max b T = max b' T) : pixDiff w T a b = pixDiff w T a' b' := by
  simp only [pixDiff, ha, hb]

/-- the relation between the two runs for `c08_cold` -/
structure Rel2 (c : DCfg) (dA dB : Det F) : Prop where
  floored : RingRel (FloorEq c) dA.floored dB.floored
  diffs : RingRel (IntEq c) dA.diffs dB.diffs
  firstDiff : dA.firstDiff = dB.firstDiff
  affected : dA.affected = dB.affected
  thA : dA.tempThresh = c.tempThresh
  thB : dB.tempThresh = c.tempThresh

theorem Rel2.init (F : FloatOps) (c : DCfg) : Rel2 c (Det.init F c) (Det.init F c) :=
  ⟨RingRel.new _ _ (FloorEq.refl c _), RingRel.new _ _ (IntEq.refl c _), rfl, rfl, rfl, rfl⟩

theorem Rel2.reset {c : DCfg} {dA dB : Det F} (h : Rel2 c dA dB) : Rel2 c dA.reset dB.reset :=
  ⟨h.floored.reset, h.diffs.reset, h.firstDiff, h.affected, h.thA, h.thB⟩

theorem Rel2.setAffected {c : DCfg} {dA dB : Det F} (h : Rel2 c dA dB) (b : Bool) :
    Rel2 c { dA with affected := b } { dB with affected := b } :=
  ⟨h.floored, h.diffs, h.firstDiff, rfl, h.thA, h.thB⟩

theorem Rel2.pcDiff {c : DCfg} {dA dB : Det F} (h : Rel2 c dA dB) {f g : Frame}
    (hfg : FloorEq c f g) : IntEq c (pcDiff c dA f) (pcDiff c dB g) := by
  intro y x hi
  simp only [C08.pcDiff, hi, if_true]
  rw [h.thA, h.thB]
  exact pixDiff_congr _ _ _ _ _ _ (hfg y x hi) ((h.floored.write hfg).oldestFrame y x hi)

theorem Rel2.pixelsChanged {c : DCfg} {dA dB : Det F} (h : Rel2 c dA dB) {f g : Frame}
    (hfg : FloorEq c f g) (ffc p : Bool) :
    Rel2 c (Det.pixelsChanged c dA f ffc p).1 (Det.pixelsChanged c dB g ffc p).1 ∧
      (Det.pixelsChanged c dA f ffc p).2 = (Det.pixelsChanged c dB g ffc p).2 := by
  have hfl := h.floored.write hfg
  have hdiff := h.pcDiff hfg
  have hdfs : RingRel (IntEq c) (pcDfs c dA f) (pcDfs c dB g) := (h.diffs.write hdiff).move
  rcases Bool.eq_false_or_eq_true dB.firstDiff with hb | hb
  · have ha : dA.firstDiff = true := h.firstDiff.trans hb
    by_cases hq : (ffc || p) = true
    · rw [pixelsChanged_ffc c dA f ffc p ha hq, pixelsChanged_ffc c dB g ffc p hb hq]
      exact ⟨⟨hfl.setAsOldest.move, hdfs, rfl, h.affected, h.thA, h.thB⟩, rfl⟩
    · rw [pixelsChanged_count c dA f ffc p ha hq, pixelsChanged_count c dB g ffc p hb hq]
      refine ⟨⟨hfl.move, hdfs, h.firstDiff, h.affected, h.thA, h.thB⟩, ?_⟩
      show decide (_ ≥ _) = decide (_ ≥ _)
      rw [countChanged_congr c hdiff hdfs.current]
  · have ha : dA.firstDiff = false := h.firstDiff.trans hb
    rw [pixelsChanged_first c dA f ffc p ha, pixelsChanged_first c dB g ffc p hb]
    exact ⟨⟨hfl.move, hdfs, rfl, h.affected, h.thA, h.thB⟩, rfl⟩

theorem Rel2.detect {c : DCfg} (hdyn : c.dynamic = false) {dA dB : Det F} (h : Rel2 c dA dB)
    {f g : Frame} (hfg : FloorEq c f g) (ffc : Bool) :
    Rel2 c (Det.detect c dA f ffc).1 (Det.detect c dB g ffc).1 ∧
      (Det.detect c dA f ffc).2 = (Det.detect c dB g ffc).2 := by
  rw [detect_eq, detect_eq, pre_fixed c hdyn, pre_fixed c hdyn, h.affected]
  exact (h.setAffected ffc).pixelsChanged hfg ffc dB.affected

theorem Rel2.run {c : DCfg} (hdyn : c.dynamic = false) {as bs : List DEv}
    (hs : SameFloored c as bs) :
    ∀ dA dB : Det F, Rel2 c dA dB →
      Det.outputs c dA as = Det.outputs c dB bs ∧ Rel2 c (Det.after c dA as) (Det.after c dB bs) := by
  induction hs with
  | nil => intro dA dB h; exact ⟨rfl, h⟩
  | frame hfg _ ih =>
    intro dA dB h
    obtain ⟨hr, ho⟩ := h.detect hdyn hfg _
    obtain ⟨io, ia⟩ := ih _ _ hr
    simp only [Det.outputs, Det.after, Det.stepEv]
    exact ⟨by rw [ho, io], ia⟩
  | reset _ ih =>
    intro dA dB h
    obtain ⟨io, ia⟩ := ih _ _ h.reset
    simp only [Det.outputs, Det.after, Det.stepEv]
    exact ⟨io, ia⟩

/-- interior equality of frames implies equality after raising to the threshold -/
theorem SameInterior.toFloored {c : DCfg} {as bs : List DEv} (h : SameInterior c as bs) :
    SameFloored c as bs := by
  induction h with
  | nil => exact .nil
  | frame hfg _ ih => exact .frame (fun y x hi => by rw [hfg y x hi]) ih
  | reset _ ih => exact .reset ih

end TR.C08
