import TR.ProcMon
import TR.Pipeline
import Proofs.ProcProto01
import Proofs.ProcProto03
import Proofs.ProcProto12
import Proofs.PipeLemmas
/-!
# Proofs.C01Spec — what acceptance by the C01/C02 monitor means, as a plain list specification

`recordings tr` cuts the motion-sink calls of an observed trace into recordings (a fold that does not
mention the monitor `M12`).  `monC01C02_sound`: if `monC01C02 K tr = []` and no step dictates a failing
motion-sink write, every recording is a contiguous ascending run of ids and, across recordings, ids
strictly increase — for EVERY trace, the model's or one recorded from the real code.

The second half relates the unthrottled composed pipeline (`TR.Pipeline`) to the processor trace it
induces: its motion files are exactly the recordings of that trace.
-/
namespace TR.C01Spec
open TR

/-! ## (A) the recordings of a trace -/

structure RecAcc where
  done : List (List Nat) := []      -- closed recordings, oldest first
  cur  : Option (List Nat) := none  -- the open recording, if any

def RecAcc.obs (a : RecAcc) : Obs → RecAcc
  | .call .motion .start true => { done := a.done ++ a.cur.toList, cur := some [] }
  | .call .motion (.write id) _ => { a with cur := a.cur.map (· ++ [id]) }
  | .call .motion .stop _ => { done := a.done ++ a.cur.toList, cur := none }
  | _ => a

/-- closed recordings followed by the open one -/
def RecAcc.all (a : RecAcc) : List (List Nat) := a.done ++ a.cur.toList

/-- the accumulator after all motion-sink calls of a trace, in order -/
def recAcc (tr : List Step) : RecAcc := (tr.flatMap (·.obs)).foldl RecAcc.obs {}

/-- the motion recordings of a trace: the id lists written between a successful `StartRecording` and the
next `StopRecording` (or the next successful start, or the end of the trace), oldest first.  Writes outside
a recording are ignored here (the C12 monitor flags them). -/
def recordings (tr : List Step) : List (List Nat) := (recAcc tr).all

/-! ### the accumulator, call by call -/

theorem acc_start (a : RecAcc) :
    a.obs (.call .motion .start true) = { done := a.all, cur := some [] } := rfl
theorem acc_stop (a : RecAcc) (ok : Bool) :
    a.obs (.call .motion .stop ok) = { done := a.all, cur := none } := rfl
theorem acc_write (a : RecAcc) (id : Nat) (ok : Bool) :
    a.obs (.call .motion (.write id) ok) = { a with cur := a.cur.map (· ++ [id]) } := rfl

theorem acc_write_none (a : RecAcc) (id : Nat) (ok : Bool) (h : a.cur = none) :
    a.obs (.call .motion (.write id) ok) = a := by
  obtain ⟨d, cu⟩ := a
  simp only at h
  subst h
  rfl

theorem acc_write_some (a : RecAcc) (id : Nat) (ok : Bool) (r : List Nat) (h : a.cur = some r) :
    a.obs (.call .motion (.write id) ok) = { done := a.done, cur := some (r ++ [id]) } := by
  obtain ⟨d, cu⟩ := a
  simp only at h
  subst h
  rfl

theorem all_none (a : RecAcc) (h : a.cur = none) : a.all = a.done := by
  simp [RecAcc.all, h]

theorem all_some (a : RecAcc) (r : List Nat) (h : a.cur = some r) : a.all = a.done ++ [r] := by
  simp [RecAcc.all, h]

/-- calls the accumulator ignores: everything but a successful start, a write, a stop on the motion sink -/
def accQuiet : Obs → Bool
  | .call .motion .start true => false
  | .call .motion (.write _) _ => false
  | .call .motion .stop _ => false
  | _ => true

theorem acc_quiet (a : RecAcc) (o : Obs) (h : accQuiet o = true) : a.obs o = a := by
  cases o with
  | call s cl ok =>
    cases s <;> cases cl <;> cases ok <;> first | rfl | exact absurd h (by simp [accQuiet])
  | _ => rfl

/-! ## (B) soundness of the monitor -/

/-- what an accepting, untainted monitor state (`last`, `nextFree`) knows about the accumulator -/
structure JJ (tainted : Bool) (last : Option Nat) (nextFree : Nat) (a : RecAcc) : Prop where
  taint : tainted = false
  runs : ∀ r ∈ a.done, ∃ s, r = List.range' s r.length
  sorted : a.all.flatten.Pairwise (· < ·)
  bound : ∀ id ∈ a.all.flatten, id < nextFree
  cur : ∀ r, a.cur = some r →
    (r = [] ∧ last = none) ∨ (∃ s n, r = List.range' s (n + 1) ∧ last = some (s + n) ∧ nextFree = s + n + 1)

/-- the invariant: as long as the monitor has reported nothing, `JJ` holds -/
def Inv (m : M12) (a : RecAcc) : Prop := m.fails = [] → JJ m.tainted m.last m.nextFree a

theorem jj_all_runs {t : Bool} {l : Option Nat} {nf : Nat} {a : RecAcc} (h : JJ t l nf a) :
    ∀ r ∈ a.all, ∃ s, r = List.range' s r.length := by
  intro r hr
  simp only [RecAcc.all, List.mem_append, Option.mem_toList] at hr
  rcases hr with hr | hr
  · exact h.runs r hr
  · rcases h.cur r hr with ⟨rfl, _⟩ | ⟨s, n, rfl, _, _⟩
    · exact ⟨0, rfl⟩
    · exact ⟨s, by simp⟩

theorem inv_init : Inv {} {} := by
  intro _
  refine ⟨rfl, ?_, ?_, ?_, ?_⟩
  · intro r hr; cases hr
  · simp [RecAcc.all]
  · intro id hid; simp [RecAcc.all] at hid
  · intro r hr; cases hr

theorem inv_write (K : Nat) (m : M12) (a : RecAcc) (id : Nat) (ok : Bool) (h : Inv m a) :
    Inv (M12.obs K m (.call .motion (.write id) ok)) (a.obs (.call .motion (.write id) ok)) := by
  intro hf'
  obtain ⟨o, cu, n, last, nf, t, fails⟩ := m
  simp only [M12.obs, List.append_eq_nil_iff] at hf'
  obtain ⟨hf, hchk⟩ := hf'
  have hj := h hf
  simp only at hj
  have ht : t = false := hj.taint
  subst ht
  simp only [Bool.false_eq_true, if_false] at hchk
  show JJ false (some id) (max nf (id + 1)) _
  cases hc : a.cur with
  | none =>
    rw [acc_write_none a id ok hc]
    refine ⟨rfl, hj.runs, hj.sorted, ?_, ?_⟩
    · intro x hx; have := hj.bound x hx; omega
    · intro r hr; rw [hc] at hr; cases hr
  | some r =>
    rw [acc_write_some a id ok r hc]
    have hall : a.all.flatten = a.done.flatten ++ r := by
      rw [all_some a r hc]; simp
    have hall' : (RecAcc.all { done := a.done, cur := some (r ++ [id]) }).flatten = a.all.flatten ++ [id] := by
      rw [hall]; simp [RecAcc.all]
    have key : (∀ x ∈ a.all.flatten, x < id) ∧ max nf (id + 1) = id + 1 ∧
        ∃ s n, r ++ [id] = List.range' s (n + 1) ∧ id = s + n := by
      rcases hj.cur r hc with ⟨hr, hl⟩ | ⟨s, n, hr, hl, hn⟩
      · subst hl
        simp only at hchk
        have h1 : ¬ id < nf := by
          intro hlt
          simp [hlt] at hchk
        refine ⟨?_, by omega, id, 0, by simp [hr], rfl⟩
        intro x hx; have := hj.bound x hx; omega
      · subst hl
        simp only at hchk
        have h1 : id = s + n + 1 := by
          by_cases he : id = s + n + 1
          · exact he
          · simp [he] at hchk
        refine ⟨?_, by omega, s, n + 1, ?_, by omega⟩
        · intro x hx; have := hj.bound x hx; omega
        · rw [hr, h1, List.range'_concat (s := s) (n := n + 1)]; simp; omega
    obtain ⟨k1, k2, s, n, k3, k4⟩ := key
    refine ⟨rfl, hj.runs, ?_, ?_, ?_⟩
    · rw [hall', List.pairwise_append]
      refine ⟨hj.sorted, by simp, ?_⟩
      intro x hx y hy
      simp only [List.mem_singleton] at hy
      subst hy; exact k1 x hx
    · intro x hx
      rw [hall', List.mem_append, List.mem_singleton] at hx
      rcases hx with hx | hx
      · have := k1 x hx; omega
      · omega
    · intro r' hr'
      simp only [Option.some.injEq] at hr'
      subst hr'
      exact Or.inr ⟨s, n, k3, by rw [k4], by omega⟩

theorem inv_obs (K : Nat) (m : M12) (a : RecAcc) (o : Obs) (h : Inv m a) :
    Inv (M12.obs K m o) (a.obs o) := by
  cases o with
  | md => exact h
  | rs => exact h
  | re => exact h
  | panic => exact h
  | call s cl ok =>
    cases s with
    | const => rw [P01.obs_off K m _ rfl, acc_quiet a _ (by cases cl <;> rfl)]; exact h
    | test => rw [P01.obs_off K m _ rfl, acc_quiet a _ (by cases cl <;> rfl)]; exact h
    | motion =>
      cases cl with
      | can => exact h
      | write id => exact inv_write K m a id ok h
      | stop =>
        intro hf
        have hj := h hf
        rw [acc_stop]
        show JJ m.tainted m.last m.nextFree _
        refine ⟨hj.taint, jj_all_runs hj, ?_, ?_, ?_⟩
        · simpa [RecAcc.all] using hj.sorted
        · simpa [RecAcc.all] using hj.bound
        · intro r hr; cases hr
      | start =>
        cases ok with
        | false => exact h
        | true =>
          intro hf
          have hj := h hf
          rw [acc_start]
          show JJ m.tainted none m.nextFree _
          refine ⟨hj.taint, jj_all_runs hj, ?_, ?_, ?_⟩
          · simpa [RecAcc.all] using hj.sorted
          · simpa [RecAcc.all] using hj.bound
          · intro r hr
            simp only [Option.some.injEq] at hr
            exact Or.inl ⟨hr.symm, rfl⟩

theorem inv_fold (K : Nat) : ∀ (os : List Obs) (m : M12) (a : RecAcc), Inv m a →
    Inv (os.foldl (M12.obs K) m) (os.foldl RecAcc.obs a) := by
  intro os
  induction os with
  | nil => intro m a h; exact h
  | cons o os ih => intro m a h; exact ih _ _ (inv_obs K m a o h)

theorem inv_step (K : Nat) (m : M12) (a : RecAcc) (st : Step) (hnf : st.motionWriteFault = false)
    (h : Inv m a) : Inv (M12.step K m st) (st.obs.foldl RecAcc.obs a) := by
  rw [P01.step_eq, hnf]
  have h0 : Inv (P01.pre m false) a := h
  have h1 := inv_fold K st.obs _ _ h0
  split
  · exact h1
  · exact h1

/-- the accumulator started from `a` -/
theorem foldl_flatMap_obs (tr : List Step) (a : RecAcc) :
    (tr.flatMap (·.obs)).foldl RecAcc.obs a = tr.foldl (fun a st => st.obs.foldl RecAcc.obs a) a := by
  induction tr generalizing a with
  | nil => rfl
  | cons st tr ih => simp only [List.flatMap_cons, List.foldl_append, List.foldl_cons, ih]

theorem recAcc_eq (tr : List Step) : recAcc tr = tr.foldl (fun a st => st.obs.foldl RecAcc.obs a) {} :=
  foldl_flatMap_obs tr {}

theorem recAcc_append (tr : List Step) (st : Step) :
    recAcc (tr ++ [st]) = st.obs.foldl RecAcc.obs (recAcc tr) := by
  simp only [recAcc_eq, List.foldl_append, List.foldl_cons, List.foldl_nil]

theorem inv_trace (K : Nat) : ∀ (tr : List Step) (m : M12) (a : RecAcc),
    (∀ st ∈ tr, st.motionWriteFault = false) → Inv m a →
    Inv (tr.foldl (M12.step K) m) (tr.foldl (fun a st => st.obs.foldl RecAcc.obs a) a) := by
  intro tr
  induction tr with
  | nil => intro m a _ h; exact h
  | cons st tr ih =>
    intro m a hnf h
    simp only [List.foldl_cons]
    exact ih _ _ (fun s hs => hnf s (List.mem_cons_of_mem _ hs))
      (inv_step K m a st (hnf st (List.mem_cons_self ..)) h)

/-- the invariant at the end of an accepted trace -/
theorem jj_final (K : Nat) (tr : List Step)
    (hacc : monC01C02 K tr = []) (hnf : ∀ st ∈ tr, st.motionWriteFault = false) :
    JJ false (tr.foldl (M12.step K) {}).last (tr.foldl (M12.step K) {}).nextFree (recAcc tr) := by
  have h := inv_trace K tr {} {} hnf inv_init hacc
  rw [← recAcc_eq] at h
  have ht := h.taint
  rw [ht] at h
  exact h

/-- **Soundness of the C01/C02 monitor**, for every trace: if the monitor accepts and no step dictates a
failing motion-sink write, every recording is a contiguous ascending run of ids, and the concatenation of
all recordings is strictly increasing (no id recorded twice, recordings in stream order). -/
theorem monC01C02_sound (K : Nat) (tr : List Step)
    (hacc : monC01C02 K tr = []) (hnf : ∀ st ∈ tr, st.motionWriteFault = false) :
    (∀ r ∈ recordings tr, ∃ a, r = List.range' a r.length) ∧
    (recordings tr).flatten.Pairwise (· < ·) := by
  have h := jj_final K tr hacc hnf
  exact ⟨jj_all_runs h, h.sorted⟩

/-- every recorded id is below the monitor's final `nextFree` (one more than the largest id written to the
motion sink, see `P01.trace_nextFree`) -/
theorem monC01C02_ids_lt_nextFree (K : Nat) (tr : List Step)
    (hacc : monC01C02 K tr = []) (hnf : ∀ st ∈ tr, st.motionWriteFault = false) :
    ∀ id ∈ (recordings tr).flatten, id < (tr.foldl (M12.step K) {}).nextFree :=
  (jj_final K tr hacc hnf).bound

/-- the recordings contain only ids that were written to the motion sink (no hypothesis) -/
theorem acc_ids_written (Q : Nat → Prop) : ∀ (os : List Obs) (a : RecAcc),
    (∀ id ∈ a.all.flatten, Q id) → (∀ id ok, Obs.call .motion (.write id) ok ∈ os → Q id) →
    ∀ id ∈ (os.foldl RecAcc.obs a).all.flatten, Q id := by
  intro os
  induction os with
  | nil => intro a h _; exact h
  | cons o os ih =>
    intro a h hw
    rw [List.foldl_cons]
    refine ih _ ?_ (fun id ok hm => hw id ok (List.mem_cons_of_mem _ hm))
    by_cases hq : accQuiet o = true
    · rw [acc_quiet a o hq]; exact h
    · cases o with
      | call s cl ok =>
        cases s with
        | motion =>
          cases cl with
          | can => exact absurd rfl hq
          | start =>
            cases ok with
            | false => exact absurd rfl hq
            | true => rw [acc_start]; simpa [RecAcc.all] using h
          | stop => rw [acc_stop]; simpa [RecAcc.all] using h
          | write id =>
            cases hc : a.cur with
            | none => rw [acc_write_none a id ok hc]; exact h
            | some r =>
              rw [acc_write_some a id ok r hc]
              have hall : a.all.flatten = a.done.flatten ++ r := by rw [all_some a r hc]; simp
              intro x hx
              have hx' : x ∈ a.all.flatten ∨ x = id := by
                rw [hall]; simpa [RecAcc.all, or_assoc] using hx
              rcases hx' with hx' | rfl
              · exact h x hx'
              · exact hw x ok (List.mem_cons_self ..)
        | const => cases cl <;> exact absurd rfl hq
        | test => cases cl <;> exact absurd rfl hq
      | md => exact absurd rfl hq
      | rs => exact absurd rfl hq
      | re => exact absurd rfl hq
      | panic => exact absurd rfl hq

theorem recordings_ids_written (tr : List Step) :
    ∀ id ∈ (recordings tr).flatten, ∃ st ∈ tr, ∃ ok, Obs.call .motion (.write id) ok ∈ st.obs := by
  refine acc_ids_written _ (tr.flatMap (·.obs)) {} (by intro id hid; simp [RecAcc.all] at hid) ?_
  intro id ok hm
  obtain ⟨st, hst, ho⟩ := List.mem_flatMap.mp hm
  exact ⟨st, hst, ok, ho⟩

/-! ## (D) the model's trace: no write faults, frame count, `nextFree` -/

theorem stopConst_mwf (c : PCfg) (s : PState) (f : Faults) :
    P03.mwf (PState.stopConstantRecorder c s f).2 = false := by
  unfold PState.stopConstantRecorder
  split <;> simp [P03.mwf_cons, P03.mwf_nil]

/-- an event without a dictated write failure produces no failing motion-sink write -/
theorem step_mwf (c : PCfg) (s : PState) (ev : Ev) (hf : ev.faults.mWriteFail = 0) :
    P03.mwf (PState.step c s ev).2 = false := by
  cases ev with
  | frame m f =>
    show P03.mwf (PState.processFrame c s m f).2 = false
    rw [(P03.frame_spec c s m f).2.2.2.2.1]
    exact P03.process_nofault c _ m f hf
  | bad f =>
    show P03.mwf (PState.processBad c s f).2 = false
    simp only [PState.processBad, andThen_snd, P03.mwf_append, P03.stopRecording_mwf, stopConst_mwf,
      Bool.or_self]
  | reset f => exact P03.stopRecording_mwf s f.mStop
  | testReq => rfl

theorem trace_no_write_fault (c : PCfg) : ∀ (evs : List Ev) (s : PState),
    (∀ ev ∈ evs, ev.faults.mWriteFail = 0) →
    ∀ st ∈ PState.trace c s evs, st.motionWriteFault = false := by
  intro evs
  induction evs with
  | nil => intro s _ st hst; cases hst
  | cons e es ih =>
    intro s hw st hst
    simp only [PState.trace, List.mem_cons] at hst
    rcases hst with rfl | hst
    · exact step_mwf c s e (hw e (List.mem_cons_self ..))
    · exact ih _ (fun ev hev => hw ev (List.mem_cons_of_mem _ hev)) st hst

theorem step_n (c : PCfg) (s : PState) (ev : Ev) :
    (PState.step c s ev).1.n = s.n + (if ev.isFrame then 1 else 0) := by
  cases ev with
  | frame m f => exact (processFrame_fields c s m f).2
  | bad f => exact PipeLemmas.processBad_n c s f
  | reset f => exact PipeLemmas.stopRecording_n s f.mStop
  | testReq => rfl

theorem after_n (c : PCfg) : ∀ (evs : List Ev) (s : PState),
    (PState.after c s evs).n = s.n + (evs.filter Ev.isFrame).length := by
  intro evs
  induction evs with
  | nil => intro s; rfl
  | cons e es ih =>
    intro s
    simp only [PState.after]
    rw [ih, step_n, List.filter_cons]
    cases e <;> simp [Ev.isFrame] <;> omega

theorem after_append (c : PCfg) (s : PState) (a b : List Ev) :
    PState.after c s (a ++ b) = PState.after c (PState.after c s a) b := by
  induction a generalizing s with
  | nil => rfl
  | cons e es ih => simp only [List.cons_append, PState.after, ih]

theorem trace_snoc (c : PCfg) (s : PState) (evs : List Ev) (e : Ev) :
    PState.trace c s (evs ++ [e]) =
      PState.trace c s evs ++ [⟨e, (PState.step c (PState.after c s evs) e).2⟩] := by
  rw [trace_append]; rfl

theorem trace_frames (c : PCfg) : ∀ (evs : List Ev) (s : PState),
    ((PState.trace c s evs).filter (·.ev.isFrame)).length = (evs.filter Ev.isFrame).length := by
  intro evs
  induction evs with
  | nil => intro s; rfl
  | cons e es ih =>
    intro s
    simp only [PState.trace, List.filter_cons]
    cases h : e.isFrame <;> simp [ih]

/-- on the model's trace the monitor's `nextFree` never exceeds the number of accepted frames -/
theorem model_nextFree_le (c : PCfg) (hK : 0 < c.K) (evs : List Ev)
    (hw : ∀ ev ∈ evs, ev.faults.mWriteFail = 0) :
    ((PState.trace c (PState.init c) evs).foldl (M12.step c.K) {}).nextFree ≤
      (evs.filter Ev.isFrame).length := by
  obtain ⟨_, _, mark, hb, hrec, hnrec⟩ := P01.pinv_trace c evs (PState.init c) {} hw (P01.pinv_init c hK)
  have hn := after_n c evs (PState.init c)
  have h0 : (PState.init c).n = 0 := rfl
  rw [h0, Nat.zero_add] at hn
  have hle := rbase_mark_le hb
  cases hr : (PState.after c (PState.init c) evs).isRec with
  | true => rw [(hrec hr).2.2, hn]; exact Nat.le_refl _
  | false => rw [← hnrec hr, ← hn]; exact hle

/-! ## (E) the composed pipeline without the throttle -/

section pipeline
variable {F : FloatOps}

inductive PipeOp
  | item (it : Socket.Item)
  | testReq

/-- one step of the composed pipeline: a socket item or a test-recording request -/
def Pipe.op (c : PipeCfg) (p : Pipe F) : PipeOp → Pipe F
  | .item it => Pipe.item c p it
  | .testReq => Pipe.testRequest c p

/-- frame-id lists of the motion files, oldest first -/
def motionFiles (p : Pipe F) : List (List Nat) :=
  (p.files.reverse.filter (·.kind == .motion)).map (·.frames)

/-- the motion files, newest first -/
def mot (fs : List RecFile) : List RecFile := fs.filter (·.kind == .motion)

theorem mot_kind {fs : List RecFile} {f : RecFile} (h : f ∈ mot fs) : f.kind = .motion := by
  have := (List.mem_filter.mp h).2
  simpa using this

theorem motionFiles_eq (p : Pipe F) : motionFiles p = ((mot p.files).map (·.frames)).reverse := by
  simp only [motionFiles, mot, List.filter_reverse, List.map_reverse]

theorem mot_cons_motion (x : RecFile) (fs : List RecFile) (h : x.kind = .motion) : mot (x :: fs) = x :: mot fs := by
  simp [mot, h]

theorem mot_cons_other (x : RecFile) (fs : List RecFile) (h : x.kind ≠ .motion) : mot (x :: fs) = mot fs := by
  simp [mot, h]

theorem updOpen_mot_other (fs : List RecFile) (k : FileKind) (u : RecFile → RecFile) (hk : k ≠ .motion)
    (hu : ∀ x, (u x).kind = x.kind) : mot (Pipe.updOpen fs k u) = mot fs := by
  induction fs with
  | nil => rfl
  | cons x xs ih =>
    simp only [Pipe.updOpen]
    split
    · next h =>
      simp only [Bool.and_eq_true, beq_iff_eq] at h
      have hx : x.kind ≠ .motion := by rw [h.1]; exact hk
      rw [mot_cons_other _ _ (by rw [hu]; exact hx), mot_cons_other _ _ hx]
    · by_cases hx : x.kind = .motion
      · rw [mot_cons_motion _ _ hx, mot_cons_motion _ _ hx, ih]
      · rw [mot_cons_other _ _ hx, mot_cons_other _ _ hx, ih]

theorem updOpen_mot_motion (fs : List RecFile) (u : RecFile → RecFile) (hu : ∀ x, (u x).kind = x.kind) :
    mot (Pipe.updOpen fs .motion u) = Pipe.updOpen (mot fs) .motion u := by
  induction fs with
  | nil => rfl
  | cons x xs ih =>
    simp only [Pipe.updOpen]
    split
    · next h =>
      have h' := h
      simp only [Bool.and_eq_true, beq_iff_eq] at h'
      rw [mot_cons_motion _ _ (by rw [hu]; exact h'.1), mot_cons_motion _ _ h'.1]
      simp only [Pipe.updOpen, h, if_true]
    · next h =>
      by_cases hx : x.kind = .motion
      · rw [mot_cons_motion _ _ hx, mot_cons_motion _ _ hx, ih]
        simp only [Pipe.updOpen, h, Bool.false_eq_true, if_false]
      · rw [mot_cons_other _ _ hx, mot_cons_other _ _ hx, ih]

theorem updOpen_all_closed (ms : List RecFile) (k : FileKind) (u : RecFile → RecFile)
    (h : ∀ f ∈ ms, f.closed = true) : Pipe.updOpen ms k u = ms := by
  induction ms with
  | nil => rfl
  | cons x xs ih =>
    have hx := h x (List.mem_cons_self ..)
    simp only [Pipe.updOpen, hx, Bool.not_true, Bool.and_false, Bool.false_eq_true, if_false]
    rw [ih (fun f hf => h f (List.mem_cons_of_mem _ hf))]

theorem updOpen_head_open (x : RecFile) (rest : List RecFile) (u : RecFile → RecFile)
    (hk : x.kind = .motion) (hc : x.closed = false) :
    Pipe.updOpen (x :: rest) .motion u = u x :: rest := by
  simp [Pipe.updOpen, hk, hc]

/-- the motion files (newest first) mirror the accumulator: the closed recordings below, the open one —
the only file still open — on top -/
def FRel (ms : List RecFile) (a : RecAcc) : Prop :=
  ∃ rest, (∀ f ∈ rest, f.closed = true) ∧ rest.map (·.frames) = a.done.reverse ∧
    match a.cur with
    | none => ms = rest
    | some r => ∃ x, ms = x :: rest ∧ x.closed = false ∧ x.frames = r

theorem frel_motionFiles (p : Pipe F) (a : RecAcc) (h : FRel (mot p.files) a) : motionFiles p = a.all := by
  obtain ⟨rest, _, hmap, hcur⟩ := h
  rw [motionFiles_eq]
  cases hc : a.cur with
  | none =>
    rw [hc] at hcur
    simp only at hcur
    rw [hcur, hmap, List.reverse_reverse, all_none a hc]
  | some r =>
    rw [hc] at hcur
    obtain ⟨x, hx, _, hfr⟩ := hcur
    rw [hx, List.map_cons, hmap, hfr, all_some a r hc]
    simp

/-- no failed `WriteFrame` / `StopRecording` on the motion sink (the composed pipeline's sinks never fail) -/
def clean : Obs → Bool
  | .call .motion (.write _) false => false
  | .call .motion .stop false => false
  | _ => true

/-! ### the C12 monitor's motion flag is "a recording is open" -/

theorem m12s_obs_fails (m : M12s) (o : Obs) : ∃ l, (M12s.obs m o).fails = m.fails ++ l := by
  cases o with
  | call s cl ok =>
    cases cl with
    | can => exact ⟨[], by simp [M12s.obs]⟩
    | start =>
      simp only [M12s.obs]
      cases hg : m.get s <;> cases ok <;> cases s <;> simp [M12s.set]
    | write id =>
      simp only [M12s.obs]
      cases hg : m.get s <;> simp
    | stop => cases s <;> exact ⟨[], by simp [M12s.obs, M12s.set]⟩
  | panic => exact ⟨_, rfl⟩
  | md => exact ⟨[], by simp [M12s.obs]⟩
  | rs => exact ⟨[], by simp [M12s.obs]⟩
  | re => exact ⟨[], by simp [M12s.obs]⟩

theorem m12s_fold_fails : ∀ (os : List Obs) (m : M12s), (os.foldl M12s.obs m).fails = [] → m.fails = [] := by
  intro os
  induction os with
  | nil => intro m h; exact h
  | cons o os ih =>
    intro m h
    have h1 := ih _ h
    obtain ⟨l, hl⟩ := m12s_obs_fails m o
    rw [hl] at h1
    exact (List.append_eq_nil_iff.mp h1).1

theorem mo_obs (m : M12s) (a : RecAcc) (o : Obs) (h : m.mo = a.cur.isSome) :
    (M12s.obs m o).mo = (a.obs o).cur.isSome := by
  obtain ⟨mo, co, te, fails⟩ := m
  simp only at h
  cases o with
  | call s cl ok =>
    cases s <;> cases cl <;> cases ok <;> cases mo <;> cases co <;> cases te <;>
      simp_all [M12s.obs, M12s.get, M12s.set, RecAcc.obs]
  | panic => exact h
  | md => exact h
  | rs => exact h
  | re => exact h

theorem mo_fold : ∀ (os : List Obs) (m : M12s) (a : RecAcc), m.mo = a.cur.isSome →
    (os.foldl M12s.obs m).mo = (os.foldl RecAcc.obs a).cur.isSome := by
  intro os
  induction os with
  | nil => intro m a h; exact h
  | cons o os ih => intro m a h; exact ih _ _ (mo_obs m a o h)

theorem mo_trace : ∀ (tr : List Step) (m : M12s) (a : RecAcc), m.mo = a.cur.isSome →
    (tr.foldl (fun m s => s.obs.foldl M12s.obs m) m).mo =
      (tr.foldl (fun a st => st.obs.foldl RecAcc.obs a) a).cur.isSome := by
  intro tr
  induction tr with
  | nil => intro m a h; exact h
  | cons st tr ih => intro m a h; exact ih _ _ (mo_fold st.obs m a h)

/-! ### with the pipeline's fault record the model emits no failed write / stop on the motion sink -/

theorem off_clean (o : Obs) (h : P01.offMotion o = true) : clean o = true := by
  cases o with
  | call s cl ok =>
    cases s with
    | motion => exact absurd h (by simp [P01.offMotion])
    | const => cases cl <;> cases ok <;> rfl
    | test => cases cl <;> cases ok <;> rfl
  | _ => rfl

theorem all_off_clean (os : List Obs) (h : os.all P01.offMotion = true) : os.all clean = true := by
  rw [List.all_eq_true] at h ⊢
  intro o ho
  exact off_clean o (h o ho)

theorem preTrigger_clean (ids : List Nat) (k : Nat) : (PState.preTrigger 0 ids k).1.all clean = true := by
  rw [P01.preTrigger_ok, List.all_eq_true]
  intro o ho
  obtain ⟨id, _, rfl⟩ := List.mem_map.mp ho
  rfl

theorem pDetect_clean (c : PCfg) (s : PState) (motion : Bool) (f : Faults) (hf : f.mWriteFail = 0) :
    (pDetect c s motion f).1.2.all clean = true := by
  unfold pDetect
  simp only [hf]
  repeat' split
  all_goals simp [clean, preTrigger_clean]

theorem pWrite_clean (id k : Nat) (f : Faults) (s : PState) (hf : f.mWriteFail = 0) :
    (pWrite id k f s).2.all clean = true := by
  unfold pWrite
  split <;> simp [clean, hf]

theorem stopRecording_clean (s : PState) : (s.stopRecording true).2.all clean = true := by
  unfold PState.stopRecording
  split <;> simp [clean]

theorem pStop_clean (f : Faults) (s : PState) (h2 : f.mStop = true) : (pStop f s).2.all clean = true := by
  unfold pStop
  rw [h2]
  split
  · exact stopRecording_clean _
  · rfl

theorem process_clean (c : PCfg) (s : PState) (motion : Bool) (f : Faults)
    (hf : f.mWriteFail = 0) (h2 : f.mStop = true) : (PState.process c s motion f).2.all clean = true := by
  rw [process_eq]
  simp only [andThen_snd, andThen_fst, List.all_append, pDetect_clean c s motion f hf, pWrite_clean _ _ f _ hf,
    pStop_clean f _ h2, Bool.and_self]

theorem step_clean (c : PCfg) (s : PState) (e : Ev) (hf : e.faults.mWriteFail = 0) (h2 : e.faults.mStop = true) :
    (PState.step c s e).2.all clean = true := by
  cases e with
  | frame m f =>
    show (PState.processFrame c s m f).2.all clean = true
    rw [processFrame_eq]
    simp only [andThen_snd, andThen_fst, List.all_append, process_clean c _ m f hf h2,
      all_off_clean _ (P01.const_spec c _ s.n f).2.2.2, all_off_clean _ (P01.snap_spec c _ s.n f).2.2.2,
      Bool.and_self]
  | bad f =>
    show (PState.processBad c s f).2.all clean = true
    have h2' : f.mStop = true := h2
    simp only [PState.processBad, andThen_snd, List.all_append, h2', stopRecording_clean,
      all_off_clean _ (P01.stopConst_spec c _ f).2.2.2, Bool.and_self]
  | reset f =>
    have h2' : f.mStop = true := h2
    show (s.stopRecording f.mStop).2.all clean = true
    rw [h2']; exact stopRecording_clean s
  | testReq => rfl

/-! ### one observation, applied to the files and to the accumulator -/

theorem frel_other_start (c : PipeCfg) (p : Pipe F) (a : RecAcc) (k : FileKind) (t : Nat) (hk : k ≠ .motion)
    (h : FRel (mot p.files) a) : FRel (mot (Pipe.startFile c p k t).files) a := by
  show FRel (mot (_ :: p.files)) a
  rw [mot_cons_other _ _ hk]; exact h

theorem frel_other_write (p : Pipe F) (a : RecAcc) (k : FileKind) (id : Nat) (hk : k ≠ .motion)
    (h : FRel (mot p.files) a) : FRel (mot (Pipe.writeFile p k id).files) a := by
  show FRel (mot (Pipe.updOpen p.files k _)) a
  rw [updOpen_mot_other p.files k (fun f => { f with frames := f.frames ++ [id] }) hk (fun _ => rfl)]; exact h

theorem frel_other_stop (p : Pipe F) (a : RecAcc) (k : FileKind) (hk : k ≠ .motion)
    (h : FRel (mot p.files) a) : FRel (mot (Pipe.stopFile p k).files) a := by
  show FRel (mot (Pipe.updOpen p.files k _)) a
  rw [updOpen_mot_other p.files k (fun f => { f with closed := true }) hk (fun _ => rfl)]; exact h

theorem frel_start (c : PipeCfg) (p : Pipe F) (a : RecAcc) (t : Nat) (hc : a.cur = none)
    (h : FRel (mot p.files) a) :
    FRel (mot (Pipe.startFile c p .motion t).files) (a.obs (.call .motion .start true)) := by
  obtain ⟨rest, hcl, hmap, hcur⟩ := h
  rw [hc] at hcur
  simp only at hcur
  show FRel (mot (_ :: p.files)) _
  rw [mot_cons_motion _ _ rfl, acc_start, all_none a hc, hcur]
  exact ⟨rest, hcl, hmap, _, rfl, rfl, rfl⟩

theorem frel_write (p : Pipe F) (a : RecAcc) (id : Nat) (h : FRel (mot p.files) a) :
    FRel (mot (Pipe.writeFile p .motion id).files) (a.obs (.call .motion (.write id) true)) := by
  obtain ⟨rest, hcl, hmap, hcur⟩ := h
  show FRel (mot (Pipe.updOpen p.files .motion _)) _
  rw [updOpen_mot_motion p.files (fun f => { f with frames := f.frames ++ [id] }) (fun _ => rfl)]
  cases hc : a.cur with
  | none =>
    rw [hc] at hcur
    simp only at hcur
    rw [acc_write_none a id true hc, hcur, updOpen_all_closed _ _ _ hcl]
    refine ⟨rest, hcl, hmap, ?_⟩
    rw [hc]
  | some r =>
    rw [hc] at hcur
    obtain ⟨x, hx, hxc, hxf⟩ := hcur
    have hk : x.kind = .motion := mot_kind (by rw [hx]; exact List.mem_cons_self ..)
    rw [acc_write_some a id true r hc, hx, updOpen_head_open x rest _ hk hxc]
    exact ⟨rest, hcl, hmap, _, rfl, hxc, by rw [← hxf]⟩

theorem frel_stop (p : Pipe F) (a : RecAcc) (h : FRel (mot p.files) a) :
    FRel (mot (Pipe.stopFile p .motion).files) (a.obs (.call .motion .stop true)) := by
  obtain ⟨rest, hcl, hmap, hcur⟩ := h
  show FRel (mot (Pipe.updOpen p.files .motion _)) _
  rw [updOpen_mot_motion p.files (fun f => { f with closed := true }) (fun _ => rfl), acc_stop]
  cases hc : a.cur with
  | none =>
    rw [hc] at hcur
    simp only at hcur
    rw [hcur, updOpen_all_closed _ _ _ hcl, all_none a hc]
    exact ⟨rest, hcl, hmap, rfl⟩
  | some r =>
    rw [hc] at hcur
    obtain ⟨x, hx, hxc, hxf⟩ := hcur
    have hk : x.kind = .motion := mot_kind (by rw [hx]; exact List.mem_cons_self ..)
    rw [hx, updOpen_head_open x rest _ hk hxc, all_some a r hc]
    refine ⟨_, ?_, ?_, rfl⟩
    · intro f hf
      rcases List.mem_cons.mp hf with rfl | hf
      · rfl
      · exact hcl f hf
    · simp [hmap, hxf]

theorem start_not_open (m : M12s) (a : RecAcc) (hm : m.mo = a.cur.isSome)
    (hf : (M12s.obs m (.call .motion .start true)).fails = []) : a.cur = none := by
  obtain ⟨mo, co, te, fails⟩ := m
  simp only at hm
  cases hc : a.cur with
  | none => rfl
  | some r =>
    rw [hc] at hm
    simp only [Option.isSome_some] at hm
    subst hm
    simp [M12s.obs, M12s.get, M12s.set] at hf

theorem frel_obs (c : PipeCfg) (hthr : c.throttle = false) (p : Pipe F) (a : RecAcc) (m : M12s) (o : Obs)
    (hcl : clean o = true) (hm : m.mo = a.cur.isSome) (hf : (M12s.obs m o).fails = [])
    (h : FRel (mot p.files) a) : FRel (mot (Pipe.applyObs c p o).files) (a.obs o) := by
  cases o with
  | md => exact h
  | rs => exact h
  | re => exact h
  | panic => exact h
  | call s cl ok =>
    cases s with
    | const =>
      rw [acc_quiet a _ (by cases cl <;> rfl)]
      cases cl with
      | can => cases ok <;> exact h
      | start =>
        cases ok with
        | false => exact h
        | true => exact frel_other_start c p a .const 0 (by simp) h
      | write id => exact frel_other_write p a .const id (by simp) h
      | stop => exact frel_other_stop p a .const (by simp) h
    | test =>
      rw [acc_quiet a _ (by cases cl <;> rfl)]
      cases cl with
      | can => cases ok <;> exact h
      | start =>
        cases ok with
        | false => exact h
        | true => exact frel_other_start c p a .test 0 (by simp) h
      | write id => exact frel_other_write p a .test id (by simp) h
      | stop => exact frel_other_stop p a .test (by simp) h
    | motion =>
      cases ok with
      | false =>
        cases cl with
        | can => exact h
        | start => exact h
        | write id => exact absurd hcl (by simp [clean])
        | stop => exact absurd hcl (by simp [clean])
      | true =>
        cases cl with
        | can =>
          have e : Pipe.applyObs c p (.call .motion .can true) = p := by
            simp only [Pipe.applyObs, Pipe.motionCall, hthr, Bool.false_eq_true, if_false]
          rw [e]; exact h
        | start =>
          have e : Pipe.applyObs c p (.call .motion .start true) = Pipe.startFile c p .motion p.det.tempThresh := by
            simp only [Pipe.applyObs, Pipe.motionCall, hthr, Bool.false_eq_true, if_false]
          rw [e]; exact frel_start c p a _ (start_not_open m a hm hf) h
        | write id =>
          have e : Pipe.applyObs c p (.call .motion (.write id) true) = Pipe.writeFile p .motion id := by
            simp only [Pipe.applyObs, Pipe.motionCall, hthr, Bool.false_eq_true, if_false]
          rw [e]; exact frel_write p a id h
        | stop =>
          have e : Pipe.applyObs c p (.call .motion .stop true) = Pipe.stopFile p .motion := by
            simp only [Pipe.applyObs, Pipe.motionCall, hthr, Bool.false_eq_true, if_false]
          rw [e]; exact frel_stop p a h

theorem frel_fold (c : PipeCfg) (hthr : c.throttle = false) : ∀ (os : List Obs) (p : Pipe F) (a : RecAcc) (m : M12s),
    os.all clean = true → m.mo = a.cur.isSome → (os.foldl M12s.obs m).fails = [] →
    FRel (mot p.files) a → FRel (mot (os.foldl (Pipe.applyObs c) p).files) (os.foldl RecAcc.obs a) := by
  intro os
  induction os with
  | nil => intro p a m _ _ _ h; exact h
  | cons o os ih =>
    intro p a m hcl hm hf h
    simp only [List.all_cons, Bool.and_eq_true] at hcl
    simp only [List.foldl_cons] at hf ⊢
    exact ih _ _ (M12s.obs m o) hcl.2 (mo_obs m a o hm) hf
      (frel_obs c hthr p a m o hcl.1 hm (m12s_fold_fails os _ hf) h)

/-! ### the pipeline and the processor trace it induces -/

/-- events the pipeline feeds to the processor: no write fault, `StopRecording` succeeds -/
def PipeEv (e : Ev) : Prop := e.faults.mWriteFail = 0 ∧ e.faults.mStop = true

/-- the pipeline state is the one induced by a processor event list -/
def PI (c : PipeCfg) (p : Pipe F) : Prop :=
  ∃ evs : List Ev, (∀ e ∈ evs, PipeEv e) ∧
    p.proc = PState.after c.proc (PState.init c.proc) evs ∧
    FRel (mot p.files) (recAcc (PState.trace c.proc (PState.init c.proc) evs)) ∧
    (evs.filter Ev.isFrame).length = p.accepted.length

theorem pi_init (c : PipeCfg) : PI c (Pipe.init F c) := by
  refine ⟨[], ?_, rfl, ⟨[], ?_, rfl, rfl⟩, rfl⟩
  · intro e he; cases he
  · intro f hf; cases hf

theorem pi_event (c : PipeCfg) (hK : 0 < c.proc.K) (hthr : c.throttle = false) (p p' p₀ : Pipe F) (e : Ev)
    (he : PipeEv e) (h : PI c p) (h0 : p₀.files = p.files)
    (hproc : p'.proc = (PState.step c.proc p.proc e).1)
    (hfiles : p'.files = ((PState.step c.proc p.proc e).2.foldl (Pipe.applyObs c) p₀).files)
    (hacc : p'.accepted.length = p.accepted.length + (if e.isFrame then 1 else 0)) : PI c p' := by
  obtain ⟨evs, hev, hp, hfr, hcount⟩ := h
  refine ⟨evs ++ [e], ?_, ?_, ?_, ?_⟩
  · intro e' he'
    rcases List.mem_append.mp he' with he' | he'
    · exact hev e' he'
    · rw [List.mem_singleton] at he'; subst he'; exact he
  · rw [after_append, ← hp, hproc]; rfl
  · rw [trace_snoc, recAcc_append, hfiles, ← hp]
    have h12 := c12_protocol_all c.proc hK (evs ++ [e])
    rw [trace_snoc, ← hp] at h12
    simp only [monC12, List.foldl_append, List.foldl_cons, List.foldl_nil] at h12
    refine frel_fold c hthr _ p₀ _ _ (step_clean c.proc p.proc e he.1 he.2) ?_ h12 (by rw [h0]; exact hfr)
    rw [recAcc_eq]
    exact mo_trace _ {} {} rfl
  · rw [List.filter_append, List.length_append, hcount, hacc]
    cases e <;> rfl

/-- applying processor observations leaves `proc` and `accepted` alone -/
theorem fold_proc_accepted (c : PipeCfg) (obs : List Obs) (p : Pipe F) :
    (obs.foldl (Pipe.applyObs c) p).proc = p.proc ∧ (obs.foldl (Pipe.applyObs c) p).accepted = p.accepted :=
  PipeLemmas.applyObs_fold_rel c (fun p q => q.proc = p.proc ∧ q.accepted = p.accepted)
    (fun _ => ⟨rfl, rfl⟩) (fun _ _ _ h₁ h₂ => ⟨h₂.1.trans h₁.1, h₂.2.trans h₁.2⟩)
    (fun _ _ _ => ⟨rfl, rfl⟩) (fun _ _ _ => ⟨rfl, rfl⟩) (fun _ _ => ⟨rfl, rfl⟩) (fun _ _ => ⟨rfl, rfl⟩)
    (fun _ _ => ⟨rfl, rfl⟩) obs p

theorem pi_of_fold (c : PipeCfg) (hK : 0 < c.proc.K) (hthr : c.throttle = false) (p p' p₀ : Pipe F) (e : Ev)
    (he : PipeEv e) (h : PI c p)
    (hq : p' = (PState.step c.proc p.proc e).2.foldl (Pipe.applyObs c) p₀)
    (h0 : p₀.files = p.files) (h1 : p₀.proc = (PState.step c.proc p.proc e).1)
    (h2 : p₀.accepted.length = p.accepted.length + (if e.isFrame then 1 else 0)) : PI c p' := by
  subst hq
  have hfr := fold_proc_accepted c (PState.step c.proc p.proc e).2 p₀
  exact pi_event c hK hthr p _ p₀ e he h h0 (hfr.1.trans h1) rfl (by rw [hfr.2]; exact h2)

theorem pi_testRequest (c : PipeCfg) (hK : 0 < c.proc.K) (hthr : c.throttle = false) (p : Pipe F) (h : PI c p) :
    PI c (Pipe.testRequest c p) :=
  pi_event c hK hthr p _ p .testReq ⟨rfl, rfl⟩ h rfl rfl rfl rfl

theorem pi_item (c : PipeCfg) (hK : 0 < c.proc.K) (hthr : c.throttle = false) (p : Pipe F) (it : Socket.Item)
    (h : PI c p) : PI c (Pipe.item c p it) := by
  cases it with
  | clear =>
    have hfr := fold_proc_accepted c (PState.stopRecording p.proc true).2
      { p with proc := (PState.stopRecording p.proc true).1 }
    refine pi_event c hK hthr p _ { p with proc := (PState.stopRecording p.proc true).1 }
      (.reset (Pipe.faults c)) ⟨rfl, rfl⟩ h rfl ?_ ?_ ?_
    · rw [PipeLemmas.item_clear]; exact hfr.1
    · rw [PipeLemmas.item_clear]; rfl
    · rw [PipeLemmas.item_clear]
      show (Pipe.accepted (List.foldl _ _ _)).length = _
      rw [hfr.2]; rfl
  | frame bytes =>
    cases hres : (if c.lepton then Parse.parseLepton (fun i => bytes.toArray.getD i 0) c.det.resX c.det.resY c.det.edge
             else Parse.parseBoson (fun i => bytes.toArray.getD i 0) c.det.resX c.det.resY c.det.edge) with
    | bad y x =>
      have hfr := fold_proc_accepted c (PState.processBad c.proc p.proc (Pipe.faults c)).2
        { p with proc := (PState.processBad c.proc p.proc (Pipe.faults c)).1 }
      refine pi_event c hK hthr p _ { p with proc := (PState.processBad c.proc p.proc (Pipe.faults c)).1 }
        (.bad (Pipe.faults c)) ⟨rfl, rfl⟩ h rfl ?_ ?_ ?_
      · rw [PipeLemmas.item_bad c p bytes y x hres]; exact hfr.1
      · rw [PipeLemmas.item_bad c p bytes y x hres]; rfl
      · rw [PipeLemmas.item_bad c p bytes y x hres]
        show (Pipe.accepted (List.foldl _ _ _)).length = _
        rw [hfr.2]; rfl
    | ok pix tel =>
      have hq := PipeLemmas.item_ok c p bytes pix tel hres
      simp only at hq
      exact pi_of_fold c hK hthr p _ _ (.frame _ (Pipe.faults c)) ⟨rfl, rfl⟩ h hq (by rfl) (by rfl) (by rfl)

theorem pi_ops (c : PipeCfg) (hK : 0 < c.proc.K) (hthr : c.throttle = false) :
    ∀ (ops : List PipeOp) (p : Pipe F), PI c p → PI c (ops.foldl (Pipe.op c) p) := by
  intro ops
  induction ops with
  | nil => intro p h; exact h
  | cons o ops ih =>
    intro p h
    rw [List.foldl_cons]
    refine ih _ ?_
    cases o with
    | item it => exact pi_item c hK hthr p it h
    | testReq => exact pi_testRequest c hK hthr p h

end pipeline

end TR.C01Spec
