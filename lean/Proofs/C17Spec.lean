import TR.ProcMon
import Proofs.ProcProto12
import Proofs.C01Spec
/-!
# Proofs.C17Spec — what acceptance by the C17 monitor means, as a plain list specification

`filesOf s tr` cuts the calls an observed trace makes on sink `s` into files (a fold that does not mention
the monitor `M17`; for the motion sink it is `C01Spec.recordings`).  Frame events are numbered 0, 1, 2, … in
order (`numFrames`, `frameIds`, `frameIdAt`).

For EVERY trace that `monC17` accepts, whose steps dictate no fault on the continuous / test sink, whose
test requests do not overlap (`reqsSpaced`, a fold over the events only) and whose non-frame steps are
`quiet` (the monitor does not look at the continuous sink during `.reset` / `.testReq` steps, nor at the test
sink during any step that is not a frame):

* the continuous files are the `chunksOf (maxF + 1)` of the `segments` (frame ids between bad frames);
* the test files are the runs `List.range' a (testLast + 1)`, `a` ranging over `testStarts` (ids of the first
  frame after a request), the last one cut at the end of the trace.
-/
namespace TR.C17Spec
open TR

/-! ## (A) the files of a sink; numbering of the frame events -/

structure FAcc where
  done : List (List Nat) := []      -- closed files, oldest first
  cur  : Option (List Nat) := none  -- the open file, if any

/-- one call, seen from sink `s`: a successful `StartRecording` opens a file (closing an open one), every
`WriteFrame` appends its id to the open file, `StopRecording` closes it; everything else is ignored -/
def FAcc.obs (s : Sink) (a : FAcc) : Obs → FAcc
  | .call s' .start true => if s' = s then { done := a.done ++ a.cur.toList, cur := some [] } else a
  | .call s' (.write id) _ => if s' = s then { a with cur := a.cur.map (· ++ [id]) } else a
  | .call s' .stop _ => if s' = s then { done := a.done ++ a.cur.toList, cur := none } else a
  | _ => a

/-- the accumulator after all calls of a trace, in order -/
def fileAcc (s : Sink) (tr : List Step) : FAcc := (tr.flatMap (·.obs)).foldl (FAcc.obs s) {}

/-- files of sink `s` that were closed by a `StopRecording` (or a new successful start), oldest first -/
def closedFilesOf (s : Sink) (tr : List Step) : List (List Nat) := (fileAcc s tr).done
/-- the file of sink `s` still open at the end of the trace -/
def openFileOf (s : Sink) (tr : List Step) : Option (List Nat) := (fileAcc s tr).cur
/-- all files of sink `s`: the closed ones followed by the open one -/
def filesOf (s : Sink) (tr : List Step) : List (List Nat) := closedFilesOf s tr ++ (openFileOf s tr).toList

/-- number of frame events (valid frames) -/
def numFrames (tr : List Step) : Nat := (tr.filter (·.ev.isFrame)).length
/-- the ids of the frame events, in order: the `i`-th valid frame has id `i` -/
def frameIds (tr : List Step) : List Nat := List.range (numFrames tr)
/-- the id of the frame event at position `i` of the trace (= number of frame events before it) -/
def frameIdAt (tr : List Step) (i : Nat) : Nat := numFrames (tr.take i)

/-! ## (B) segments and chunks -/

structure SegAcc where
  n : Nat := 0                      -- frame events so far
  done : List (List Nat) := []      -- segments closed by a bad frame
  cur : List Nat := []              -- frame ids since the last bad frame

def SegAcc.step (g : SegAcc) : Ev → SegAcc
  | .frame _ _ => { g with n := g.n + 1, cur := g.cur ++ [g.n] }
  | .bad _ => { g with done := g.done ++ [g.cur], cur := [] }
  | _ => g

def segAcc (tr : List Step) : SegAcc := tr.foldl (fun g st => g.step st.ev) {}

/-- the frame ids cut at the `.bad` events (`b` bad events give `b + 1` segments, some possibly empty) -/
def segments (tr : List Step) : List (List Nat) := (segAcc tr).done ++ [(segAcc tr).cur]

/-- `chunkAux k acc l`: `acc` is the chunk being filled -/
def chunkAux (k : Nat) : List Nat → List Nat → List (List Nat)
  | acc, [] => if acc.isEmpty then [] else [acc]
  | acc, x :: xs => if k ≤ acc.length + 1 then (acc ++ [x]) :: chunkAux k [] xs else chunkAux k (acc ++ [x]) xs

/-- cut a list into consecutive chunks of `k` elements (the last one may be shorter; no empty chunk) -/
def chunksOf (k : Nat) (l : List Nat) : List (List Nat) := chunkAux k [] l

/-! ## (C) test requests -/

structure TAcc where
  n : Nat := 0
  pending : Bool := false           -- a request was made since the last frame event
  starts : List Nat := []

def TAcc.step (t : TAcc) : Ev → TAcc
  | .frame _ _ => { n := t.n + 1, pending := false, starts := t.starts ++ (if t.pending then [t.n] else []) }
  | .testReq => { t with pending := true }
  | _ => t

def tAcc (tr : List Step) : TAcc := tr.foldl (fun t st => t.step st.ev) {}

/-- ids of the frame events that are the first frame event after a `.testReq` event -/
def testStarts (tr : List Step) : List Nat := (tAcc tr).starts

/-- `since = some j`: `j` frame events since the last request.  A request is admissible when the previous
one was followed by at least `k` frame events. -/
def spacedFrom (k : Nat) : Option Nat → List Ev → Bool
  | _, [] => true
  | s, .testReq :: es => (match s with | none => true | some j => decide (k ≤ j)) && spacedFrom k (some 0) es
  | s, .frame _ _ :: es => spacedFrom k (s.map (· + 1)) es
  | s, _ :: es => spacedFrom k s es

/-- test requests do not overlap: between two consecutive `.testReq` events there are at least
`testLast + 1` frame events (the first serves the request, `testLast` more complete the recording) -/
def reqsSpaced (c : PCfg) (tr : List Step) : Bool := spacedFrom (c.testLast + 1) none (tr.map (·.ev))

/-- the part of a trace the monitor does not look at: calls on the test sink during a step that is not a
frame, calls on the continuous sink during a `.reset` or `.testReq` step -/
def quietStep (st : Step) : Bool :=
  match st.ev with
  | .frame _ _ => true
  | .bad _ => (obsOf .test st.obs).isEmpty
  | _ => (obsOf .const st.obs).isEmpty && (obsOf .test st.obs).isEmpty

/-! ## the file accumulator, call by call -/

theorem facc_start (s : Sink) (a : FAcc) :
    a.obs s (.call s .start true) = { done := a.done ++ a.cur.toList, cur := some [] } := by
  simp [FAcc.obs]
theorem facc_stop (s : Sink) (a : FAcc) (ok : Bool) :
    a.obs s (.call s .stop ok) = { done := a.done ++ a.cur.toList, cur := none } := by
  simp [FAcc.obs]
theorem facc_write (s : Sink) (a : FAcc) (id : Nat) (ok : Bool) :
    a.obs s (.call s (.write id) ok) = { a with cur := a.cur.map (· ++ [id]) } := by
  simp [FAcc.obs]

/-- is this a call on sink `s`? -/
def onSink (s : Sink) : Obs → Bool
  | .call s' _ _ => s' == s
  | _ => false

theorem obsOf_eq_filter (s : Sink) (os : List Obs) : obsOf s os = os.filter (onSink s) := by
  unfold obsOf
  congr 1

/-- calls on other sinks (and listener notifications) are ignored -/
theorem facc_other (s : Sink) (a : FAcc) (o : Obs) (h : onSink s o = false) : a.obs s o = a := by
  cases o with
  | call s' cl ok =>
    have hne : ¬ s' = s := by simpa [onSink] using h
    cases cl <;> cases ok <;> simp [FAcc.obs, hne]
  | _ => rfl

/-- the accumulator of sink `s` sees only `obsOf s` -/
theorem facc_fold_obsOf (s : Sink) : ∀ (os : List Obs) (a : FAcc),
    os.foldl (FAcc.obs s) a = (obsOf s os).foldl (FAcc.obs s) a := by
  intro os
  induction os with
  | nil => intro a; rfl
  | cons o os ih =>
    intro a
    rw [obsOf_eq_filter] at ih ⊢
    cases h : onSink s o with
    | false =>
      rw [List.filter_cons_of_neg (by simp [h]), List.foldl_cons, facc_other s a o h, ih]
    | true =>
      rw [List.filter_cons_of_pos h, List.foldl_cons, List.foldl_cons, ih]

theorem foldl_flatMap_obs (s : Sink) (tr : List Step) (a : FAcc) :
    (tr.flatMap (·.obs)).foldl (FAcc.obs s) a = tr.foldl (fun a st => st.obs.foldl (FAcc.obs s) a) a := by
  induction tr generalizing a with
  | nil => rfl
  | cons st tr ih => simp only [List.flatMap_cons, List.foldl_append, List.foldl_cons, ih]

theorem fileAcc_eq (s : Sink) (tr : List Step) :
    fileAcc s tr = tr.foldl (fun a st => st.obs.foldl (FAcc.obs s) a) {} :=
  foldl_flatMap_obs s tr {}

/-- for the motion sink the files are the recordings of `Proofs.C01Spec` -/
theorem facc_motion (a : FAcc) (o : Obs) :
    (⟨(a.obs .motion o).done, (a.obs .motion o).cur⟩ : C01Spec.RecAcc) =
      C01Spec.RecAcc.obs ⟨a.done, a.cur⟩ o := by
  cases o with
  | call s cl ok => cases s <;> cases cl <;> cases ok <;> rfl
  | _ => rfl

theorem facc_motion_fold : ∀ (os : List Obs) (a : FAcc),
    (⟨(os.foldl (FAcc.obs .motion) a).done, (os.foldl (FAcc.obs .motion) a).cur⟩ : C01Spec.RecAcc) =
      os.foldl C01Spec.RecAcc.obs ⟨a.done, a.cur⟩ := by
  intro os
  induction os with
  | nil => intro a; rfl
  | cons o os ih => intro a; rw [List.foldl_cons, List.foldl_cons, ih, facc_motion]

theorem filesOf_motion (tr : List Step) : filesOf .motion tr = C01Spec.recordings tr := by
  have h := facc_motion_fold (tr.flatMap (·.obs)) {}
  show (fileAcc .motion tr).done ++ (fileAcc .motion tr).cur.toList = (C01Spec.recAcc tr).all
  unfold C01Spec.recAcc C01Spec.RecAcc.all fileAcc
  rw [← h]

/-! ## chunks: the defining equations, lengths, and the left-to-right form used by the invariant -/

theorem chunksOf_nil (k : Nat) : chunksOf k [] = [] := rfl

theorem chunkAux_flatten (k : Nat) : ∀ (l acc : List Nat), (chunkAux k acc l).flatten = acc ++ l := by
  intro l
  induction l with
  | nil =>
    intro acc
    cases acc <;> simp [chunkAux]
  | cons x xs ih =>
    intro acc
    simp only [chunkAux]
    split
    · simp [ih]
    · simp [ih]

/-- cutting loses and reorders nothing -/
theorem chunksOf_flatten (k : Nat) (l : List Nat) : (chunksOf k l).flatten = l := by
  simpa [chunksOf] using chunkAux_flatten k l []

theorem chunkAux_take_drop (k : Nat) : ∀ (l acc : List Nat), acc.length < k → k ≤ acc.length + l.length →
    chunkAux k acc l = (acc ++ l.take (k - acc.length)) :: chunkAux k [] (l.drop (k - acc.length)) := by
  intro l
  induction l with
  | nil => intro acc h1 h2; simp at h2; omega
  | cons x xs ih =>
    intro acc h1 h2
    simp only [chunkAux]
    split
    · next h =>
      have e : k - acc.length = 1 := by omega
      rw [e]; simp
    · next h =>
      have e : k - acc.length = (k - (acc ++ [x]).length) + 1 := by simp; omega
      rw [ih (acc ++ [x]) (by simp; omega) (by simp at h2 ⊢; omega), e]
      simp

theorem chunkAux_short (k : Nat) : ∀ (l acc : List Nat), acc.length + l.length < k →
    chunkAux k acc l = if (acc ++ l).isEmpty then [] else [acc ++ l] := by
  intro l
  induction l with
  | nil => intro acc _; simp [chunkAux]
  | cons x xs ih =>
    intro acc h
    simp only [List.length_cons] at h
    simp only [chunkAux]
    rw [if_neg (by omega), ih (acc ++ [x]) (by simp; omega)]
    simp

/-- the usual recursion: the first `k` elements, then the chunks of the rest -/
theorem chunksOf_eq (k : Nat) (hk : 0 < k) (l : List Nat) (hl : l ≠ []) :
    chunksOf k l = l.take k :: chunksOf k (l.drop k) := by
  unfold chunksOf
  by_cases h : k ≤ l.length
  · have := chunkAux_take_drop k l [] (by simpa using hk) (by simpa using h)
    simpa using this
  · have h' : l.length < k := by omega
    rw [chunkAux_short k l [] (by simpa using h'), List.take_of_length_le (by omega),
      List.drop_of_length_le (by omega)]
    cases l with
    | nil => exact absurd rfl hl
    | cons x xs => simp [chunkAux]

theorem chunkAux_lengths (k : Nat) (hk : 0 < k) : ∀ (l acc : List Nat), acc.length < k →
    (∀ x ∈ chunkAux k acc l, 0 < x.length ∧ x.length ≤ k) ∧
    (∀ init last, chunkAux k acc l = init ++ [last] → ∀ x ∈ init, x.length = k) := by
  intro l
  induction l with
  | nil =>
    intro acc h
    simp only [chunkAux]
    cases acc with
    | nil => simp
    | cons a as =>
      simp only [List.isEmpty_cons, Bool.false_eq_true, if_false, List.mem_singleton]
      refine ⟨fun x hx => by subst hx; simp at h ⊢; omega, ?_⟩
      intro init last he x hx
      cases init with
      | nil => cases hx
      | cons y ys =>
        have := congrArg List.length he
        simp at this
  | cons x xs ih =>
    intro acc h
    simp only [chunkAux]
    split
    · next hle =>
      obtain ⟨i1, i2⟩ := ih [] (by simpa using hk)
      refine ⟨?_, ?_⟩
      · intro y hy
        rcases List.mem_cons.mp hy with rfl | hy
        · simp; omega
        · exact i1 y hy
      · intro init last he y hy
        cases init with
        | nil => cases hy
        | cons z zs =>
          simp only [List.cons_append, List.cons.injEq] at he
          rcases List.mem_cons.mp hy with rfl | hy
          · rw [← he.1]; simp; omega
          · exact i2 zs last he.2 y hy
    · next hle => exact ih (acc ++ [x]) (by simp; omega)

/-- every chunk is non-empty and has at most `k` elements -/
theorem chunksOf_length (k : Nat) (hk : 0 < k) (l x : List Nat) (hx : x ∈ chunksOf k l) :
    0 < x.length ∧ x.length ≤ k :=
  (chunkAux_lengths k hk l [] (by simpa using hk)).1 x hx

/-- every chunk but the last has exactly `k` elements -/
theorem chunksOf_full (k : Nat) (hk : 0 < k) (l : List Nat) (init : List (List Nat)) (last : List Nat)
    (h : chunksOf k l = init ++ [last]) : ∀ x ∈ init, x.length = k :=
  (chunkAux_lengths k hk l [] (by simpa using hk)).2 init last h

/-- left-to-right: closed chunks and the chunk being filled -/
def push (k : Nat) (p : List (List Nat) × List Nat) (x : Nat) : List (List Nat) × List Nat :=
  if k ≤ p.2.length + 1 then (p.1 ++ [p.2 ++ [x]], []) else (p.1, p.2 ++ [x])

def fin (p : List (List Nat) × List Nat) : List (List Nat) := p.1 ++ (if p.2.isEmpty then [] else [p.2])

theorem chunkAux_fold (k : Nat) : ∀ (l : List Nat) (d : List (List Nat)) (acc : List Nat),
    d ++ chunkAux k acc l = fin (l.foldl (push k) (d, acc)) := by
  intro l
  induction l with
  | nil => intro d acc; rfl
  | cons x xs ih =>
    intro d acc
    simp only [chunkAux, List.foldl_cons, push]
    split
    · rw [← ih]; simp
    · rw [← ih]

theorem chunksOf_eq_fold (k : Nat) (l : List Nat) : chunksOf k l = fin (l.foldl (push k) ([], [])) := by
  rw [← chunkAux_fold]; rfl

/-! ## the monitor, step by step -/

def expC (c : PCfg) (m : M17) : List Obs :=
  if !c.constOn then [] else
    (if m.cPos = 0 then [Obs.call .const .start true] else []) ++
    [Obs.call .const (.write m.n) true] ++
    (if m.cPos + 1 > c.maxF then [Obs.call .const .stop true] else [])

def nextCPos (c : PCfg) (m : M17) : Nat :=
  if !c.constOn then 0 else if m.cPos + 1 > c.maxF then 0 else m.cPos + 1

def tStarting (m : M17) : Bool := m.pending && !m.tOpen
def tOpenNow (m : M17) : Bool := m.tOpen || tStarting m
def tCountNow (m : M17) : Nat := if tOpenNow m then m.tCount + 1 else m.tCount
def tClosing (c : PCfg) (m : M17) : Bool := tOpenNow m && decide (tCountNow m > c.testLast)

def expT (c : PCfg) (m : M17) : List Obs :=
  (if tStarting m then [Obs.call .test .start true] else []) ++
  (if tOpenNow m then [Obs.call .test (.write m.n) true] else []) ++
  (if tClosing c m then [Obs.call .test .stop true] else [])

theorem step_frame (c : PCfg) (m : M17) (mo : Bool) (f : Faults) (obs : List Obs)
    (hs : sinkFault obs = false) :
    M17.step c m ⟨.frame mo f, obs⟩ =
      { m with n := m.n + 1, cPos := nextCPos c m, tOpen := tOpenNow m && !tClosing c m,
               tCount := if tClosing c m then 0 else tCountNow m, pending := false,
               fails := m.fails ++ (if m.tainted then [] else
                 (if obsOf .const obs = expC c m then [] else ["C17:continuous-file-layout"]) ++
                 (if obsOf .test obs = expT c m then [] else ["C17:test-recording-layout"])) } := by
  simp only [M17.step, hs]
  rfl

theorem step_bad (c : PCfg) (m : M17) (f : Faults) (obs : List Obs) (hs : sinkFault obs = false) :
    M17.step c m ⟨.bad f, obs⟩ =
      { m with cPos := 0, fails := m.fails ++ (if m.tainted then [] else
          if obsOf .const obs = (if c.constOn then [Obs.call .const .stop true] else []) then []
          else ["C17:continuous-file-layout"]) } := by
  simp only [M17.step, hs]
  rfl

theorem step_reset (c : PCfg) (m : M17) (f : Faults) (obs : List Obs) (hs : sinkFault obs = false) :
    M17.step c m ⟨.reset f, obs⟩ = m := by
  simp only [M17.step, hs]
  rfl

theorem step_testReq (c : PCfg) (m : M17) (obs : List Obs) (hs : sinkFault obs = false) :
    M17.step c m ⟨.testReq, obs⟩ =
      if m.tOpen || m.pending then { m with tainted := true, pending := true } else { m with pending := true } := by
  simp only [M17.step, hs]
  rfl

/-- `tainted` never clears, and a dictated fault on the continuous / test sink sets it -/
theorem step_tainted (c : PCfg) (m : M17) (st : Step) (h : (M17.step c m st).tainted = false) :
    m.tainted = false ∧ sinkFault st.obs = false := by
  obtain ⟨ev, obs⟩ := st
  cases hs : sinkFault obs with
  | true =>
    exfalso
    cases ev <;> simp only [M17.step, hs, if_true] at h
    · exact absurd h (by simp)
    · exact absurd h (by simp)
    · exact absurd h (by simp)
    · split at h <;> exact absurd h (by simp)
  | false =>
    refine ⟨?_, rfl⟩
    cases ev with
    | frame mo f => rw [step_frame c m mo f obs hs] at h; exact h
    | bad f => rw [step_bad c m f obs hs] at h; exact h
    | reset f => rw [step_reset c m f obs hs] at h; exact h
    | testReq =>
      rw [step_testReq c m obs hs] at h
      split at h
      · exact absurd h (by simp)
      · exact h

theorem step_fails (c : PCfg) (m : M17) (st : Step) (h : (M17.step c m st).fails = []) : m.fails = [] := by
  obtain ⟨ev, obs⟩ := st
  cases ev <;> simp only [M17.step] at h
  · split at h <;> exact (List.append_eq_nil_iff.mp h).1
  · split at h <;> exact (List.append_eq_nil_iff.mp h).1
  · split at h <;> exact h
  · split at h <;> split at h <;> exact h

/-! ## spaced requests keep the monitor untainted -/

/-- the monitor's test-recording counters are a function of the events alone -/
def TaintRel (k : Nat) (since : Option Nat) (m : M17) : Prop :=
  match since with
  | none => m.pending = false ∧ m.tOpen = false ∧ m.tCount = 0
  | some j => m.pending = decide (j = 0) ∧ m.tOpen = decide (0 < j ∧ j < k) ∧
      m.tCount = if 0 < j ∧ j < k then j else 0

theorem taintRel_frame (c : PCfg) (since : Option Nat) (m : M17) (mo : Bool) (f : Faults) (obs : List Obs)
    (hs : sinkFault obs = false) (h : TaintRel (c.testLast + 1) since m) :
    TaintRel (c.testLast + 1) (since.map (· + 1)) (M17.step c m ⟨.frame mo f, obs⟩) := by
  rw [step_frame c m mo f obs hs]
  cases since with
  | none =>
    obtain ⟨h1, h2, h3⟩ := h
    simp [TaintRel, tOpenNow, tStarting, tClosing, tCountNow, h1, h2, h3]
  | some j =>
    obtain ⟨h1, h2, h3⟩ := h
    simp only [TaintRel, Option.map_some, tOpenNow, tStarting, tClosing, tCountNow, h1, h2, h3]
    by_cases j0 : j = 0
    · subst j0
      by_cases ht : c.testLast = 0
      · simp [ht]
      · have : 1 < c.testLast + 1 := by omega
        have h2 : ¬ (1 > c.testLast) := by omega
        simp [this, h2]
    · by_cases jk : j < c.testLast + 1
      · have a1 : (0 < j ∧ j < c.testLast + 1) := ⟨by omega, jk⟩
        by_cases jk' : j + 1 < c.testLast + 1
        · have a2 : ¬ (j + 1 > c.testLast) := by omega
          simp [j0, a1, jk', a2]
        · have a2 : j + 1 > c.testLast := by omega
          simp [j0, a1, jk', a2]
      · have a1 : ¬ (0 < j ∧ j < c.testLast + 1) := by omega
        have a2 : ¬ (j + 1 < c.testLast + 1) := by omega
        simp [j0, a1, a2]

theorem untainted_fold (c : PCfg) : ∀ (tr : List Step) (since : Option Nat) (m : M17),
    (∀ st ∈ tr, sinkFault st.obs = false) → spacedFrom (c.testLast + 1) since (tr.map (·.ev)) = true →
    TaintRel (c.testLast + 1) since m → m.tainted = false → (tr.foldl (M17.step c) m).tainted = false := by
  intro tr
  induction tr with
  | nil => intro _ m _ _ _ ht; exact ht
  | cons st tr ih =>
    intro since m hsf hsp hrel ht
    have hs := hsf st (List.mem_cons_self ..)
    have hsf' : ∀ s ∈ tr, sinkFault s.obs = false := fun s hs => hsf s (List.mem_cons_of_mem _ hs)
    obtain ⟨ev, obs⟩ := st
    simp only [List.foldl_cons]
    simp only [List.map_cons] at hsp
    cases ev with
    | frame mo f =>
      simp only [spacedFrom] at hsp
      refine ih _ _ hsf' hsp (taintRel_frame c since m mo f obs hs hrel) ?_
      rw [step_frame c m mo f obs hs]; exact ht
    | bad f =>
      simp only [spacedFrom] at hsp
      refine ih since _ hsf' hsp ?_ ?_
      · rw [step_bad c m f obs hs]
        cases since <;> exact hrel
      · rw [step_bad c m f obs hs]; exact ht
    | reset f =>
      simp only [spacedFrom] at hsp
      rw [step_reset c m f obs hs]
      exact ih since m hsf' hsp hrel ht
    | testReq =>
      simp only [spacedFrom, Bool.and_eq_true] at hsp
      have hfree : m.tOpen = false ∧ m.pending = false ∧ m.tCount = 0 := by
        cases since with
        | none => exact ⟨hrel.2.1, hrel.1, hrel.2.2⟩
        | some j =>
          obtain ⟨h1, h2, h3⟩ := hrel
          have hj : c.testLast + 1 ≤ j := by simpa using hsp.1
          have a1 : ¬ (0 < j ∧ j < c.testLast + 1) := by omega
          have a0 : ¬ j = 0 := by omega
          simp only [a1, a0, decide_false, if_false] at h1 h2 h3
          exact ⟨h2, h1, h3⟩
      have e : M17.step c m ⟨.testReq, obs⟩ = { m with pending := true } := by
        rw [step_testReq c m obs hs]
        simp [hfree.1, hfree.2.1]
      rw [e]
      refine ih (some 0) _ hsf' hsp.2 ?_ ht
      simp [TaintRel, hfree.1, hfree.2.2]

/-- with no dictated fault on the continuous / test sink and spaced requests the monitor keeps judging -/
theorem untainted_of_spaced (c : PCfg) (tr : List Step)
    (hsf : ∀ st ∈ tr, sinkFault st.obs = false) (hsp : reqsSpaced c tr = true) :
    (tr.foldl (M17.step c) {}).tainted = false :=
  untainted_fold c tr none {} hsf hsp ⟨rfl, rfl, rfl⟩ rfl

/-! ## generic: an invariant along an accepted, untainted run of the monitor -/

theorem fold_tainted (c : PCfg) : ∀ (tr : List Step) (m : M17),
    (tr.foldl (M17.step c) m).tainted = false → m.tainted = false := by
  intro tr
  induction tr with
  | nil => intro m h; exact h
  | cons st tr ih => intro m h; exact (step_tainted c m st (ih _ h)).1

theorem fold_fails (c : PCfg) : ∀ (tr : List Step) (m : M17),
    (tr.foldl (M17.step c) m).fails = [] → m.fails = [] := by
  intro tr
  induction tr with
  | nil => intro m h; exact h
  | cons st tr ih => intro m h; exact step_fails c m st (ih _ h)

theorem fold_inv {X : Type} (c : PCfg) (stepX : X → Step → X) (J : M17 → X → Prop)
    (hstep : ∀ m x st, quietStep st = true → (M17.step c m st).tainted = false → (M17.step c m st).fails = [] →
      J m x → J (M17.step c m st) (stepX x st)) :
    ∀ (tr : List Step) (m : M17) (x : X), (∀ st ∈ tr, quietStep st = true) → J m x →
      (tr.foldl (M17.step c) m).tainted = false → (tr.foldl (M17.step c) m).fails = [] →
      J (tr.foldl (M17.step c) m) (tr.foldl stepX x) := by
  intro tr
  induction tr with
  | nil => intro m x _ h _ _; exact h
  | cons st tr ih =>
    intro m x hq h ht hf
    simp only [List.foldl_cons] at ht hf ⊢
    exact ih _ _ (fun s hs => hq s (List.mem_cons_of_mem _ hs))
      (hstep m x st (hq st (List.mem_cons_self ..)) (fold_tainted c tr _ ht) (fold_fails c tr _ hf) h) ht hf

/-! ## (B) the continuous sink -/

/-- monitor counters ↔ file accumulator ↔ segment accumulator (continuous recorder on) -/
def ConstJ (c : PCfg) (n cPos : Nat) (a : FAcc) (g : SegAcc) : Prop :=
  g.n = n ∧ ∃ d r, g.cur.foldl (push (c.maxF + 1)) ([], []) = (d, r) ∧ r.length = cPos ∧ cPos ≤ c.maxF ∧
    a.done = g.done.flatMap (chunksOf (c.maxF + 1)) ++ d ∧ a.cur = if cPos = 0 then none else some r

theorem facc_expC (c : PCfg) (m : M17) (a : FAcc) (r : List Nat) (hc : c.constOn = true)
    (hr : r.length = m.cPos) (ha : a.cur = if m.cPos = 0 then none else some r) :
    (expC c m).foldl (FAcc.obs .const) a =
      if m.cPos + 1 > c.maxF then ⟨a.done ++ [r ++ [m.n]], none⟩ else ⟨a.done, some (r ++ [m.n])⟩ := by
  obtain ⟨ad, ac⟩ := a
  obtain ⟨n, cPos, tO, tC, pe, ta, fa⟩ := m
  simp only at ha hr ⊢
  subst ha
  cases cPos with
  | zero =>
    have hr' : r = [] := List.eq_nil_of_length_eq_zero hr
    subst hr'
    by_cases h1 : 0 + 1 > c.maxF <;>
      simp [expC, hc, h1, facc_start, facc_write, facc_stop]
  | succ p =>
    by_cases h1 : p + 1 + 1 > c.maxF <;>
      simp [expC, hc, h1, facc_write, facc_stop]

theorem frame_accepts (c : PCfg) (m : M17) (mo : Bool) (f : Faults) (obs : List Obs)
    (ht : (M17.step c m ⟨.frame mo f, obs⟩).tainted = false)
    (hf : (M17.step c m ⟨.frame mo f, obs⟩).fails = []) :
    sinkFault obs = false ∧ obsOf .const obs = expC c m ∧ obsOf .test obs = expT c m := by
  obtain ⟨ht0, hs⟩ := step_tainted c m _ ht
  simp only at hs
  rw [step_frame c m mo f obs hs] at hf
  simp only [ht0, Bool.false_eq_true, if_false, List.append_eq_nil_iff] at hf
  refine ⟨hs, ?_, ?_⟩
  · by_cases h : obsOf .const obs = expC c m
    · exact h
    · have := hf.2.1; simp [h] at this
  · by_cases h : obsOf .test obs = expT c m
    · exact h
    · have := hf.2.2; simp [h] at this

theorem bad_accepts (c : PCfg) (m : M17) (f : Faults) (obs : List Obs)
    (ht : (M17.step c m ⟨.bad f, obs⟩).tainted = false)
    (hf : (M17.step c m ⟨.bad f, obs⟩).fails = []) :
    sinkFault obs = false ∧
    obsOf .const obs = (if c.constOn then [Obs.call .const .stop true] else []) := by
  obtain ⟨ht0, hs⟩ := step_tainted c m _ ht
  simp only at hs
  rw [step_bad c m f obs hs] at hf
  simp only [ht0, Bool.false_eq_true, if_false, List.append_eq_nil_iff] at hf
  refine ⟨hs, ?_⟩
  by_cases h : obsOf .const obs = (if c.constOn then [Obs.call .const .stop true] else [])
  · exact h
  · have := hf.2; simp [h] at this

theorem testReq_fields (c : PCfg) (m : M17) (obs : List Obs) :
    (M17.step c m ⟨.testReq, obs⟩).n = m.n ∧ (M17.step c m ⟨.testReq, obs⟩).cPos = m.cPos := by
  simp only [M17.step]
  split <;> split <;> exact ⟨rfl, rfl⟩

def constStep (x : FAcc × SegAcc) (st : Step) : FAcc × SegAcc :=
  (st.obs.foldl (FAcc.obs .const) x.1, x.2.step st.ev)

theorem const_step (c : PCfg) (hc : c.constOn = true) (m : M17) (x : FAcc × SegAcc) (st : Step)
    (hq : quietStep st = true) (ht : (M17.step c m st).tainted = false) (hf : (M17.step c m st).fails = [])
    (h : ConstJ c m.n m.cPos x.1 x.2) :
    ConstJ c (M17.step c m st).n (M17.step c m st).cPos (constStep x st).1 (constStep x st).2 := by
  obtain ⟨a, g⟩ := x
  obtain ⟨ev, obs⟩ := st
  obtain ⟨hn, d, r, hpush, hr, hle, hdone, hcur⟩ := h
  simp only at hn hpush hr hle hdone hcur
  simp only [constStep]
  rw [facc_fold_obsOf]
  cases ev with
  | frame mo f =>
    obtain ⟨hs, hC, _⟩ := frame_accepts c m mo f obs ht hf
    rw [hC, facc_expC c m a r hc hr hcur, step_frame c m mo f obs hs]
    simp only [SegAcc.step, nextCPos, hc, Bool.not_true, Bool.false_eq_true, if_false]
    refine ⟨by rw [hn], ?_⟩
    rw [List.foldl_append, hpush, hn]
    simp only [List.foldl_cons, List.foldl_nil, push, hr]
    by_cases h1 : m.cPos + 1 > c.maxF
    · have h2 : c.maxF + 1 ≤ m.cPos + 1 := by omega
      simp only [h1, h2, if_true]
      refine ⟨_, _, rfl, rfl, Nat.zero_le _, by rw [hdone, List.append_assoc], ?_⟩
      trivial
    · have h2 : ¬ c.maxF + 1 ≤ m.cPos + 1 := by omega
      simp only [h1, h2, if_false]
      refine ⟨_, _, rfl, by simp [hr], by omega, hdone, ?_⟩
      simp
  | bad f =>
    obtain ⟨hs, hC⟩ := bad_accepts c m f obs ht hf
    rw [hC, step_bad c m f obs hs]
    simp only [hc, if_true, List.foldl_cons, List.foldl_nil, facc_stop, SegAcc.step]
    refine ⟨hn, [], [], rfl, rfl, Nat.zero_le _, ?_, rfl⟩
    rw [List.flatMap_append, hdone, hcur, List.append_nil, List.append_assoc]
    congr 1
    simp only [List.flatMap_cons, List.flatMap_nil, List.append_nil]
    rw [chunksOf_eq_fold, hpush]
    by_cases h0 : m.cPos = 0
    · have hr' : r = [] := List.eq_nil_of_length_eq_zero (by omega)
      simp [fin, h0, hr']
    · have hr' : r ≠ [] := by intro e; rw [e] at hr; simp at hr; omega
      simp [fin, h0, hr']
  | reset f =>
    obtain ⟨_, hs⟩ := step_tainted c m _ ht
    simp only at hs
    simp only [quietStep, Bool.and_eq_true, List.isEmpty_iff] at hq
    rw [hq.1, step_reset c m f obs hs]
    exact ⟨hn, d, r, hpush, hr, hle, hdone, hcur⟩
  | testReq =>
    simp only [quietStep, Bool.and_eq_true, List.isEmpty_iff] at hq
    rw [hq.1, (testReq_fields c m obs).1, (testReq_fields c m obs).2]
    exact ⟨hn, d, r, hpush, hr, hle, hdone, hcur⟩

theorem constOff_step (c : PCfg) (hc : c.constOn = false) (m : M17) (a : FAcc) (st : Step)
    (hq : quietStep st = true) (ht : (M17.step c m st).tainted = false) (hf : (M17.step c m st).fails = []) :
    st.obs.foldl (FAcc.obs .const) a = a := by
  obtain ⟨ev, obs⟩ := st
  rw [facc_fold_obsOf]
  cases ev with
  | frame mo f =>
    obtain ⟨_, hC, _⟩ := frame_accepts c m mo f obs ht hf
    rw [hC]; simp [expC, hc]
  | bad f =>
    obtain ⟨_, hC⟩ := bad_accepts c m f obs ht hf
    rw [hC]; simp [hc]
  | reset f =>
    simp only [quietStep, Bool.and_eq_true, List.isEmpty_iff] at hq
    rw [hq.1]; rfl
  | testReq =>
    simp only [quietStep, Bool.and_eq_true, List.isEmpty_iff] at hq
    rw [hq.1]; rfl

theorem fold_pair {A B : Type} (fa : A → Step → A) (fb : B → Step → B) : ∀ (tr : List Step) (a : A) (b : B),
    tr.foldl (fun x st => (fa x.1 st, fb x.2 st)) (a, b) = (tr.foldl fa a, tr.foldl fb b) := by
  intro tr
  induction tr with
  | nil => intro a b; rfl
  | cons st tr ih => intro a b; simp only [List.foldl_cons, ih]

/-- the invariant at the end of an accepted, untainted trace (continuous recorder on) -/
theorem const_final (c : PCfg) (hc : c.constOn = true) (tr : List Step)
    (hq : ∀ st ∈ tr, quietStep st = true) (hun : (tr.foldl (M17.step c) {}).tainted = false)
    (hacc : monC17 c tr = []) :
    ConstJ c (tr.foldl (M17.step c) {}).n (tr.foldl (M17.step c) {}).cPos (fileAcc .const tr) (segAcc tr) := by
  have h := fold_inv c constStep (fun m x => ConstJ c m.n m.cPos x.1 x.2)
    (fun m x st hq ht hf hj => const_step c hc m x st hq ht hf hj) tr {} ({}, {}) hq
    ⟨rfl, [], [], rfl, rfl, Nat.zero_le _, rfl, rfl⟩ hun hacc
  have e : tr.foldl constStep ({}, {}) = (fileAcc .const tr, segAcc tr) := by
    rw [fileAcc_eq, segAcc]
    exact fold_pair (fun (a : FAcc) st => st.obs.foldl (FAcc.obs .const) a) (fun (g : SegAcc) st => g.step st.ev) tr {} {}
  rw [e] at h
  exact h

/-- **continuous files = chunks of the segments** -/
theorem const_files (c : PCfg) (hc : c.constOn = true) (tr : List Step)
    (hq : ∀ st ∈ tr, quietStep st = true) (hun : (tr.foldl (M17.step c) {}).tainted = false)
    (hacc : monC17 c tr = []) :
    filesOf .const tr = (segments tr).flatMap (chunksOf (c.maxF + 1)) ∧
    ∀ r, openFileOf .const tr = some r → 0 < r.length ∧ r.length ≤ c.maxF := by
  obtain ⟨_, d, r, hpush, hr, hle, hdone, hcur⟩ := const_final c hc tr hq hun hacc
  generalize (tr.foldl (M17.step c) {}).cPos = cPos at hr hle hcur
  refine ⟨?_, ?_⟩
  · show (fileAcc .const tr).done ++ (fileAcc .const tr).cur.toList = _
    rw [segments, List.flatMap_append, hdone, hcur, List.append_assoc]
    congr 1
    simp only [List.flatMap_cons, List.flatMap_nil, List.append_nil]
    rw [chunksOf_eq_fold, hpush]
    by_cases h0 : cPos = 0
    · have hr' : r = [] := List.eq_nil_of_length_eq_zero (by omega)
      simp [fin, h0, hr']
    · have hr' : r ≠ [] := by intro e; rw [e] at hr; simp at hr; omega
      simp [fin, h0, hr']
  · intro r' h'
    have h'' : (fileAcc .const tr).cur = some r' := h'
    rw [hcur] at h''
    by_cases h0 : cPos = 0
    · simp [h0] at h''
    · simp only [h0, if_false, Option.some.injEq] at h''
      subst h''
      omega

/-- continuous recorder off: no continuous file -/
theorem constOff_files (c : PCfg) (hc : c.constOn = false) (tr : List Step)
    (hq : ∀ st ∈ tr, quietStep st = true) (hun : (tr.foldl (M17.step c) {}).tainted = false)
    (hacc : monC17 c tr = []) : filesOf .const tr = [] := by
  have h := fold_inv c (fun a st => st.obs.foldl (FAcc.obs .const) a) (fun _ a => a.done = [] ∧ a.cur = none)
    (fun m a st hq ht hf hj => by rw [constOff_step c hc m a st hq ht hf]; exact hj) tr {} {} hq
    ⟨rfl, rfl⟩ hun hacc
  rw [← fileAcc_eq] at h
  show (fileAcc .const tr).done ++ (fileAcc .const tr).cur.toList = []
  rw [h.1, h.2]; rfl

/-! ### the segments partition the frame ids -/

theorem numFrames_cons (st : Step) (tr : List Step) :
    numFrames (st :: tr) = (if st.ev.isFrame then 1 else 0) + numFrames tr := by
  unfold numFrames
  rw [List.filter_cons]
  cases st.ev.isFrame <;> simp <;> omega

theorem numFrames_nil : numFrames [] = 0 := rfl

theorem seg_fold : ∀ (tr : List Step) (g : SegAcc),
    (tr.foldl (fun g st => g.step st.ev) g).n = g.n + numFrames tr ∧
    (tr.foldl (fun g st => g.step st.ev) g).done.flatten ++ (tr.foldl (fun g st => g.step st.ev) g).cur =
      g.done.flatten ++ g.cur ++ List.range' g.n (numFrames tr) := by
  intro tr
  induction tr with
  | nil => intro g; simp [numFrames_nil]
  | cons st tr ih =>
    intro g
    obtain ⟨i1, i2⟩ := ih (g.step st.ev)
    rw [List.foldl_cons, i1, i2, numFrames_cons]
    obtain ⟨ev, obs⟩ := st
    cases ev with
    | frame mo f =>
      simp only [SegAcc.step, Ev.isFrame, if_true]
      refine ⟨by omega, ?_⟩
      rw [Nat.add_comm 1 (numFrames tr), List.range'_succ]
      simp
    | bad f => simp [SegAcc.step, Ev.isFrame]
    | reset f => simp [SegAcc.step, Ev.isFrame]
    | testReq => simp [SegAcc.step, Ev.isFrame]

/-- every frame id lies in exactly one segment, in order -/
theorem segments_flatten (tr : List Step) : (segments tr).flatten = frameIds tr := by
  have h := (seg_fold tr {}).2
  simp only [segments, segAcc, frameIds, List.flatten_append, List.flatten_cons, List.flatten_nil,
    List.append_nil, List.range_eq_range']
  rw [h]; simp

theorem segAcc_n (tr : List Step) : (segAcc tr).n = numFrames tr := by
  have h := (seg_fold tr {}).1
  simpa [segAcc] using h

theorem flatMap_chunks_flatten (k : Nat) (L : List (List Nat)) : (L.flatMap (chunksOf k)).flatten = L.flatten := by
  induction L with
  | nil => rfl
  | cons l L ih => simp [List.flatMap_cons, chunksOf_flatten, ih]

/-! ## (C) the test sink -/

/-- monitor counters ↔ file accumulator of the test sink ↔ request accumulator -/
def TestJ (c : PCfg) (n : Nat) (tOpen : Bool) (tCount : Nat) (pending : Bool) (a : FAcc) (t : TAcc) : Prop :=
  t.n = n ∧ t.pending = pending ∧ (pending && tOpen) = false ∧
  (tOpen = false → tCount = 0 ∧ a.cur = none ∧ a.done = t.starts.map (List.range' · (c.testLast + 1)) ∧
    ∀ b ∈ t.starts, b + (c.testLast + 1) ≤ n) ∧
  (tOpen = true → 0 < tCount ∧ tCount ≤ c.testLast ∧ ∃ s0 b, t.starts = s0 ++ [b] ∧
    a.done = s0.map (List.range' · (c.testLast + 1)) ∧ a.cur = some (List.range' b tCount) ∧ b + tCount = n ∧
    ∀ b' ∈ s0, b' + (c.testLast + 1) ≤ n)

def testStep (x : FAcc × TAcc) (st : Step) : FAcc × TAcc :=
  (st.obs.foldl (FAcc.obs .test) x.1, x.2.step st.ev)

theorem test_frame (c : PCfg) (m : M17) (a : FAcc) (t : TAcc) (mo : Bool) (f : Faults) (obs : List Obs)
    (ht : (M17.step c m ⟨.frame mo f, obs⟩).tainted = false)
    (hf : (M17.step c m ⟨.frame mo f, obs⟩).fails = [])
    (h : TestJ c m.n m.tOpen m.tCount m.pending a t) :
    TestJ c (m.n + 1) (tOpenNow m && !tClosing c m) (if tClosing c m then 0 else tCountNow m) false
      (obs.foldl (FAcc.obs .test) a) (t.step (.frame mo f)) := by
  obtain ⟨_, _, hT⟩ := frame_accepts c m mo f obs ht hf
  rw [facc_fold_obsOf, hT]
  obtain ⟨n, cPos, tOpen, tCount, pending, tainted, fails⟩ := m
  obtain ⟨ad, ac⟩ := a
  obtain ⟨tn, tp, ts⟩ := t
  obtain ⟨h1, h2, h3, h4, h5⟩ := h
  simp only at h1 h2 h3 h4 h5
  subst h1 h2
  cases tOpen with
  | false =>
    obtain ⟨rfl, rfl, rfl, hb⟩ := h4 rfl
    cases tp with
    | false =>
      simp only [TestJ, expT, tStarting, tOpenNow, tClosing, tCountNow, TAcc.step]
      refine ⟨by trivial, by trivial, by trivial, fun _ => ⟨rfl, rfl, by simp, ?_⟩, fun hh => by simp at hh⟩
      intro b hb'
      simp only [Bool.false_eq_true, if_false, List.append_nil] at hb'
      have := hb b hb'; omega
    | true =>
      by_cases hl : c.testLast = 0
      · simp only [TestJ, expT, tStarting, tOpenNow, tClosing, tCountNow, TAcc.step, hl]
        refine ⟨by trivial, by trivial, by trivial, fun _ => ⟨by simp, by simp [facc_start, facc_write, facc_stop], ?_, ?_⟩,
          fun hh => by simp at hh⟩
        · simp [facc_start, facc_write, facc_stop, List.range']
        · intro b hb'
          simp only [if_true, List.mem_append, List.mem_singleton] at hb'
          rcases hb' with hb' | rfl
          · have := hb b hb'; omega
          · omega
      · have hl' : ¬ (1 > c.testLast) := by omega
        simp only [TestJ, expT, tStarting, tOpenNow, tClosing, tCountNow, TAcc.step]
        refine ⟨by trivial, by trivial, by trivial, fun hh => by simp [hl'] at hh, fun _ => ?_⟩
        refine ⟨by simp [hl'], by simp [hl']; omega, ts, tn, by simp, ?_, ?_, ?_, ?_⟩
        · simp [hl', facc_start, facc_write]
        · simp [hl', facc_start, facc_write, List.range']
        · simp [hl']
        · intro b hb'; have := hb b hb'; omega
  | true =>
    obtain ⟨hc0, hcl, s0, b, rfl, rfl, rfl, hbn, hb⟩ := h5 rfl
    have hp : tp = false := by simpa using h3
    subst hp
    have hrun : List.range' b tCount ++ [tn] = List.range' b (tCount + 1) := by
      rw [List.range'_concat]; simp [hbn]
    by_cases hcl' : tCount + 1 > c.testLast
    · have e : tCount + 1 = c.testLast + 1 := by omega
      simp only [TestJ, expT, tStarting, tOpenNow, tClosing, tCountNow, TAcc.step]
      refine ⟨by trivial, by trivial, by trivial, fun _ => ⟨by simp [hcl'], ?_, ?_, ?_⟩, fun hh => by simp [hcl'] at hh⟩
      · simp [hcl', facc_write, facc_stop]
      · simp [facc_write, facc_stop, hrun, e]
      · intro b' hb'
        simp only [Bool.false_eq_true, if_false, List.append_nil, List.mem_append, List.mem_singleton] at hb'
        rcases hb' with hb' | rfl
        · have := hb b' hb'; omega
        · omega
    · simp only [TestJ, expT, tStarting, tOpenNow, tClosing, tCountNow, TAcc.step]
      refine ⟨by trivial, by trivial, by trivial, fun hh => by simp [hcl'] at hh, fun _ => ?_⟩
      refine ⟨by simp [hcl'], by simp [hcl']; omega, s0, b, by simp, ?_, ?_, ?_, ?_⟩
      · simp [hcl', facc_write]
      · simp [hcl', facc_write, hrun]
      · simp [hcl']; omega
      · intro b' hb'; have := hb b' hb'; omega

theorem test_step (c : PCfg) (m : M17) (x : FAcc × TAcc) (st : Step)
    (hq : quietStep st = true) (ht : (M17.step c m st).tainted = false) (hf : (M17.step c m st).fails = [])
    (h : TestJ c m.n m.tOpen m.tCount m.pending x.1 x.2) :
    TestJ c (M17.step c m st).n (M17.step c m st).tOpen (M17.step c m st).tCount (M17.step c m st).pending
      (testStep x st).1 (testStep x st).2 := by
  obtain ⟨a, t⟩ := x
  obtain ⟨ev, obs⟩ := st
  obtain ⟨_, hs⟩ := step_tainted c m _ ht
  simp only at hs
  simp only [testStep]
  cases ev with
  | frame mo f =>
    have := test_frame c m a t mo f obs ht hf h
    rw [step_frame c m mo f obs hs]
    exact this
  | bad f =>
    simp only [quietStep, List.isEmpty_iff] at hq
    rw [facc_fold_obsOf, hq, step_bad c m f obs hs]
    exact h
  | reset f =>
    simp only [quietStep, Bool.and_eq_true, List.isEmpty_iff] at hq
    rw [facc_fold_obsOf, hq.2, step_reset c m f obs hs]
    exact h
  | testReq =>
    simp only [quietStep, Bool.and_eq_true, List.isEmpty_iff] at hq
    rw [step_testReq c m obs hs] at ht ⊢
    rw [facc_fold_obsOf, hq.2]
    split at ht
    · exact absurd ht (by simp)
    · next hfree =>
      rw [if_neg hfree]
      have ho : m.tOpen = false := by cases h' : m.tOpen <;> simp_all
      obtain ⟨h1, h2, h3, h4, h5⟩ := h
      simp only at h1 h2 h3 h4 h5
      refine ⟨h1, rfl, by simp [ho], h4, ?_⟩
      intro hh; rw [ho] at hh; cases hh

/-- the invariant at the end of an accepted, untainted trace -/
theorem test_final (c : PCfg) (tr : List Step)
    (hq : ∀ st ∈ tr, quietStep st = true) (hun : (tr.foldl (M17.step c) {}).tainted = false)
    (hacc : monC17 c tr = []) :
    TestJ c (tr.foldl (M17.step c) {}).n (tr.foldl (M17.step c) {}).tOpen (tr.foldl (M17.step c) {}).tCount
      (tr.foldl (M17.step c) {}).pending (fileAcc .test tr) (tAcc tr) := by
  have h := fold_inv c testStep (fun m x => TestJ c m.n m.tOpen m.tCount m.pending x.1 x.2)
    (fun m x st hq ht hf hj => test_step c m x st hq ht hf hj) tr {} ({}, {}) hq
    ⟨rfl, rfl, rfl, fun _ => ⟨rfl, rfl, rfl, fun b hb => by cases hb⟩, fun hh => by cases hh⟩ hun hacc
  have e : tr.foldl testStep ({}, {}) = (fileAcc .test tr, tAcc tr) := by
    rw [fileAcc_eq, tAcc]
    exact fold_pair (fun (a : FAcc) st => st.obs.foldl (FAcc.obs .test) a) (fun (t : TAcc) st => t.step st.ev) tr {} {}
  rw [e] at h
  exact h

theorem tacc_fold_n : ∀ (tr : List Step) (t : TAcc),
    (tr.foldl (fun t st => t.step st.ev) t).n = t.n + numFrames tr := by
  intro tr
  induction tr with
  | nil => intro t; simp [numFrames_nil]
  | cons st tr ih =>
    intro t
    rw [List.foldl_cons, ih, numFrames_cons]
    obtain ⟨ev, obs⟩ := st
    cases ev <;> simp [TAcc.step, Ev.isFrame] <;> omega

theorem tAcc_n (tr : List Step) : (tAcc tr).n = numFrames tr := by
  have h := tacc_fold_n tr {}
  simpa [tAcc] using h

/-- **test files = runs of `testLast + 1` ids from the first frame after each request**, the last one cut at
the end of the trace; closed files are complete, an open one is shorter -/
theorem test_files (c : PCfg) (tr : List Step)
    (hq : ∀ st ∈ tr, quietStep st = true) (hun : (tr.foldl (M17.step c) {}).tainted = false)
    (hacc : monC17 c tr = []) :
    filesOf .test tr =
      (testStarts tr).map (fun a => List.range' a (min (c.testLast + 1) (numFrames tr - a))) ∧
    (∀ r ∈ closedFilesOf .test tr, ∃ a ∈ testStarts tr, a + (c.testLast + 1) ≤ numFrames tr ∧
      r = List.range' a (c.testLast + 1)) ∧
    (∀ r, openFileOf .test tr = some r → ∃ s0 a, testStarts tr = s0 ++ [a] ∧ a < numFrames tr ∧
      numFrames tr - a ≤ c.testLast ∧ r = List.range' a (numFrames tr - a)) := by
  obtain ⟨h1, _, _, h4, h5⟩ := test_final c tr hq hun hacc
  rw [tAcc_n] at h1
  rw [← h1] at h4 h5
  generalize (tr.foldl (M17.step c) {}).tOpen = tOpen at h4 h5
  generalize (tr.foldl (M17.step c) {}).tCount = tCount at h4 h5
  cases tOpen with
  | false =>
    obtain ⟨_, hcur, hdone, hb⟩ := h4 rfl
    refine ⟨?_, ?_, ?_⟩
    · show (fileAcc .test tr).done ++ (fileAcc .test tr).cur.toList = _
      rw [hdone, hcur]
      simp only [Option.toList_none, List.append_nil]
      apply List.map_congr_left
      intro a ha
      have := hb a ha
      rw [Nat.min_eq_left (by omega)]
    · intro r hr
      have hr' : r ∈ (fileAcc .test tr).done := hr
      rw [hdone] at hr'
      obtain ⟨a, ha, rfl⟩ := List.mem_map.mp hr'
      exact ⟨a, ha, hb a ha, rfl⟩
    · intro r hr
      have hr' : (fileAcc .test tr).cur = some r := hr
      rw [hcur] at hr'; cases hr'
  | true =>
    obtain ⟨hc0, hcl, s0, b, hst, hdone, hcur, hbn, hb⟩ := h5 rfl
    have hst' : testStarts tr = s0 ++ [b] := hst
    refine ⟨?_, ?_, ?_⟩
    · show (fileAcc .test tr).done ++ (fileAcc .test tr).cur.toList = _
      rw [hdone, hcur, hst', List.map_append]
      simp only [Option.toList_some, List.map_cons, List.map_nil]
      congr 1
      · apply List.map_congr_left
        intro a ha
        have := hb a ha
        rw [Nat.min_eq_left (by omega)]
      · rw [Nat.min_eq_right (by omega)]
        have : numFrames tr - b = tCount := by omega
        rw [this]
    · intro r hr
      have hr' : r ∈ (fileAcc .test tr).done := hr
      rw [hdone] at hr'
      obtain ⟨a, ha, rfl⟩ := List.mem_map.mp hr'
      exact ⟨a, by rw [hst']; exact List.mem_append_left _ ha, hb a ha, rfl⟩
    · intro r hr
      have hr' : (fileAcc .test tr).cur = some r := hr
      rw [hcur] at hr'
      simp only [Option.some.injEq] at hr'
      subst hr'
      refine ⟨s0, b, hst', by omega, by omega, ?_⟩
      have : numFrames tr - b = tCount := by omega
      rw [this]

/-! ## (D) the model satisfies the side conditions -/

/-- the event dictates no failure on the continuous / test sink -/
def cleanEv (e : Ev) : Bool :=
  e.faults.cStart && e.faults.cWrite && e.faults.cStop && e.faults.tStart && e.faults.tWrite && e.faults.tStop

theorem pcr_noFault (c : PCfg) (s : PState) (id : Nat) (f : Faults)
    (h1 : f.cStart = true) (h2 : f.cWrite = true) (h3 : f.cStop = true) :
    sinkFault (PState.processConstantRecorder c s id f).2 = false := by
  simp only [PState.processConstantRecorder]
  cases hc : c.constOn
  · simp [sinkFault]
  · by_cases k2 : s.crFrames + 1 > c.maxF <;> simp only [k2, ↓reduceIte] <;>
      by_cases k1 : s.crFrames = 0 <;> simp [sinkFault, k1, h1, h2, h3]

theorem psn_noFault (c : PCfg) (s : PState) (id : Nat) (f : Faults)
    (h1 : f.tStart = true) (h2 : f.tWrite = true) (h3 : f.tStop = true) :
    sinkFault (PState.processSnapshot c s id f).2 = false := by
  simp only [PState.processSnapshot]
  cases k0 : s.startSnap <;> cases k1 : s.snapRec <;>
    by_cases k2 : c.testLast < s.snapFrames + 1 <;>
    simp [sinkFault, k0, k1, k2, h1, h2, h3]

theorem scr_noFault (c : PCfg) (s : PState) (f : Faults) (h3 : f.cStop = true) :
    sinkFault (PState.stopConstantRecorder c s f).2 = false := by
  simp only [PState.stopConstantRecorder, h3]
  split <;> simp [sinkFault]

theorem scr_noTest (c : PCfg) (s : PState) (f : Faults) :
    obsOf .test (PState.stopConstantRecorder c s f).2 = [] := by
  simp only [PState.stopConstantRecorder]
  split <;> simp [obsOf]

theorem step_noSinkFault (c : PCfg) (s : PState) (e : Ev) (h : cleanEv e = true) :
    sinkFault (PState.step c s e).2 = false := by
  simp only [cleanEv, Bool.and_eq_true] at h
  obtain ⟨⟨⟨⟨⟨h1, h2⟩, h3⟩, h4⟩, h5⟩, h6⟩ := h
  cases e with
  | frame mo f =>
    show sinkFault (PState.processFrame c s mo f).2 = false
    rw [processFrame_eq]
    simp only [andThen_snd, andThen_fst, sinkFault_append, (process_motOnly c _ mo f).2.2,
      pcr_noFault c _ _ f h1 h2 h3, psn_noFault c _ _ f h4 h5 h6, Bool.or_self]
  | bad f =>
    show sinkFault (PState.processBad c s f).2 = false
    simp only [PState.processBad, andThen_snd, sinkFault_append, (stopRecording_motOnly _ f.mStop).2.2,
      scr_noFault c _ f h3, Bool.or_self]
  | reset f => exact (stopRecording_motOnly s f.mStop).2.2
  | testReq => rfl

theorem step_quiet (c : PCfg) (s : PState) (e : Ev) : quietStep ⟨e, (PState.step c s e).2⟩ = true := by
  cases e with
  | frame mo f => rfl
  | bad f =>
    show (obsOf .test (PState.processBad c s f).2).isEmpty = true
    simp only [PState.processBad, andThen_snd, obsOf_append, (stopRecording_motOnly _ f.mStop).2.1,
      scr_noTest, List.append_nil, List.isEmpty_nil]
  | reset f =>
    have h := stopRecording_motOnly s f.mStop
    show ((obsOf .const (s.stopRecording f.mStop).2).isEmpty && (obsOf .test (s.stopRecording f.mStop).2).isEmpty) = true
    rw [h.1, h.2.1]; rfl
  | testReq => rfl

theorem trace_quiet (c : PCfg) : ∀ (evs : List Ev) (s : PState), ∀ st ∈ PState.trace c s evs, quietStep st = true := by
  intro evs
  induction evs with
  | nil => intro s st hst; cases hst
  | cons e es ih =>
    intro s st hst
    simp only [PState.trace, List.mem_cons] at hst
    rcases hst with rfl | hst
    · exact step_quiet c s e
    · exact ih _ st hst

theorem trace_noSinkFault (c : PCfg) : ∀ (evs : List Ev) (s : PState), (∀ e ∈ evs, cleanEv e = true) →
    ∀ st ∈ PState.trace c s evs, sinkFault st.obs = false := by
  intro evs
  induction evs with
  | nil => intro s _ st hst; cases hst
  | cons e es ih =>
    intro s hcl st hst
    simp only [PState.trace, List.mem_cons] at hst
    rcases hst with rfl | hst
    · exact step_noSinkFault c s e (hcl e (List.mem_cons_self ..))
    · exact ih _ (fun e' he' => hcl e' (List.mem_cons_of_mem _ he')) st hst

theorem trace_evs (c : PCfg) : ∀ (evs : List Ev) (s : PState), (PState.trace c s evs).map (·.ev) = evs := by
  intro evs
  induction evs with
  | nil => intro s; rfl
  | cons e es ih => intro s; simp only [PState.trace, List.map_cons, ih]

theorem trace_numFrames (c : PCfg) (evs : List Ev) (s : PState) :
    numFrames (PState.trace c s evs) = (evs.filter Ev.isFrame).length :=
  C01Spec.trace_frames c evs s

/-! ## `testStarts` by positions in the trace -/

theorem snoc_induction {α : Type} {P : List α → Prop} (h0 : P [])
    (hs : ∀ l x, P l → P (l ++ [x])) : ∀ l, P l := by
  have h : ∀ r : List α, P r.reverse := by
    intro r
    induction r with
    | nil => exact h0
    | cons x r ih => rw [List.reverse_cons]; exact hs _ _ ih
  intro l
  rw [← List.reverse_reverse l]
  exact h _

/-- a decomposition of `l ++ [x]` either ends in `x` or decomposes `l` -/
theorem snoc_eq_append_cons {α : Type} (l pre post : List α) (x q : α) (h : l ++ [x] = pre ++ q :: post) :
    (post = [] ∧ l = pre ∧ x = q) ∨ ∃ post', post = post' ++ [x] ∧ l = pre ++ q :: post' := by
  rcases List.eq_nil_or_concat post with rfl | ⟨post', y, rfl⟩
  · obtain ⟨e1, e2⟩ := List.append_inj' h rfl
    exact Or.inl ⟨rfl, e1, by simpa using e2⟩
  · rw [List.concat_eq_append] at h ⊢
    have h' : l ++ [x] = (pre ++ q :: post') ++ [y] := by rw [h]; simp
    obtain ⟨e1, e2⟩ := List.append_inj' h' rfl
    have e3 : x = y := by simpa using e2
    subst e3
    exact Or.inr ⟨post', rfl, e1⟩

theorem tAcc_snoc (tr : List Step) (st : Step) : tAcc (tr ++ [st]) = (tAcc tr).step st.ev := by
  simp only [tAcc, List.foldl_append, List.foldl_cons, List.foldl_nil]

theorem numFrames_append (a b : List Step) : numFrames (a ++ b) = numFrames a + numFrames b := by
  simp [numFrames, List.filter_append]

/-- a request is pending: the trace ends with a `.testReq` step followed by steps that are not frames -/
def Pend (tr : List Step) : Prop :=
  ∃ pre q mid, tr = pre ++ q :: mid ∧ q.ev = .testReq ∧ ∀ s ∈ mid, s.ev.isFrame = false

theorem pending_iff : ∀ tr : List Step, (tAcc tr).pending = true ↔ Pend tr := by
  apply snoc_induction
  · constructor
    · intro h; cases h
    · rintro ⟨pre, q, mid, h, _⟩
      cases pre <;> cases h
  · intro tr st ih
    rw [tAcc_snoc]
    have hback : ∀ (hne : st.ev ≠ .testReq), Pend (tr ++ [st]) → st.ev.isFrame = false ∧ Pend tr := by
      rintro hne ⟨pre, q, mid, h, hq, hmid⟩
      rcases snoc_eq_append_cons tr pre mid st q h with ⟨_, _, rfl⟩ | ⟨mid', rfl, rfl⟩
      · exact absurd hq hne
      · exact ⟨hmid st (by simp), pre, q, mid', rfl, hq, fun s hs => hmid s (by simp [hs])⟩
    cases hev : st.ev with
    | testReq =>
      simp only [TAcc.step, true_iff]
      exact ⟨tr, st, [], rfl, hev, fun s hs => by cases hs⟩
    | frame mo f =>
      simp only [TAcc.step]
      constructor
      · intro h; cases h
      · intro h
        have := (hback (by rw [hev]; intro e; cases e) h).1
        rw [hev] at this; cases this
    | bad f =>
      simp only [TAcc.step]
      rw [ih]
      constructor
      · rintro ⟨pre, q, mid, rfl, hq, hmid⟩
        refine ⟨pre, q, mid ++ [st], by simp, hq, ?_⟩
        intro s hs
        rcases List.mem_append.mp hs with hs | hs
        · exact hmid s hs
        · rw [List.mem_singleton] at hs; subst hs; rw [hev]; rfl
      · intro h; exact (hback (by rw [hev]; intro e; cases e) h).2
    | reset f =>
      simp only [TAcc.step]
      rw [ih]
      constructor
      · rintro ⟨pre, q, mid, rfl, hq, hmid⟩
        refine ⟨pre, q, mid ++ [st], by simp, hq, ?_⟩
        intro s hs
        rcases List.mem_append.mp hs with hs | hs
        · exact hmid s hs
        · rw [List.mem_singleton] at hs; subst hs; rw [hev]; rfl
      · intro h; exact (hback (by rw [hev]; intro e; cases e) h).2

/-- `a` is a test start iff it is the id of a frame step that is the first frame step after a `.testReq`
step: the trace reads `pre ++ f :: post` with `f` a frame step, `a` the number of frame steps in `pre`, and
`pre` ending in a request followed by non-frame steps only -/
theorem mem_testStarts : ∀ (tr : List Step) (a : Nat), a ∈ testStarts tr ↔
    ∃ pre f post, tr = pre ++ f :: post ∧ f.ev.isFrame = true ∧ Pend pre ∧ a = numFrames pre := by
  apply snoc_induction
  · intro a
    constructor
    · intro h; cases h
    · rintro ⟨pre, f, post, h, _⟩
      cases pre <;> cases h
  · intro tr st ih a
    have hdec : (∃ pre f post, tr ++ [st] = pre ++ f :: post ∧ f.ev.isFrame = true ∧ Pend pre ∧ a = numFrames pre) ↔
        (a ∈ testStarts tr ∨ (st.ev.isFrame = true ∧ Pend tr ∧ a = numFrames tr)) := by
      rw [ih]
      constructor
      · rintro ⟨pre, f, post, h, hf, hp, ha⟩
        rcases snoc_eq_append_cons tr pre post st f h with ⟨_, rfl, rfl⟩ | ⟨post', rfl, rfl⟩
        · exact Or.inr ⟨hf, hp, ha⟩
        · exact Or.inl ⟨pre, f, post', rfl, hf, hp, ha⟩
      · rintro (⟨pre, f, post, rfl, hf, hp, ha⟩ | ⟨hf, hp, ha⟩)
        · exact ⟨pre, f, post ++ [st], by simp, hf, hp, ha⟩
        · exact ⟨tr, st, [], rfl, hf, hp, ha⟩
    rw [hdec]
    show a ∈ (tAcc (tr ++ [st])).starts ↔ _
    rw [tAcc_snoc, ← pending_iff, ← tAcc_n]
    cases hev : st.ev with
    | frame mo f =>
      simp only [TAcc.step, List.mem_append, Ev.isFrame, true_and]
      cases hp : (tAcc tr).pending
      · simp [testStarts]
      · simp [testStarts]
    | bad f => simp [TAcc.step, Ev.isFrame, testStarts]
    | reset f => simp [TAcc.step, Ev.isFrame, testStarts]
    | testReq => simp [TAcc.step, Ev.isFrame, testStarts]

/-- in `pre ++ f :: post` the step `f` sits at position `pre.length`; its frame id is `numFrames pre` -/
theorem frameIdAt_append (pre : List Step) (f : Step) (post : List Step) :
    frameIdAt (pre ++ f :: post) pre.length = numFrames pre := by
  simp [frameIdAt]

end TR.C17Spec
