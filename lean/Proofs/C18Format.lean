import TR.CPTR

/-!
# C18 (format part) — helper lemmas: the CPTR encoder and decoder of `TR.CPTR` are inverse

Core library only.  The main results are `decodeFields_encode`, `decodeFrames_encode` and
`decodeFile_encodeFile`; the well-formedness facts (`headerFields_size_lt`, `encodeFile_byteList`)
say that every size byte really is a byte and that the encoded file is a list of bytes.
-/
namespace TR.C18
open TR.CPTR

/-- every element is a byte -/
def ByteList (l : List Nat) : Prop := ∀ b ∈ l, b < 256

/-! ## little-endian integers -/

theorem le_length (n v : Nat) : (le n v).length = n := by
  simp only [le, List.length_map, List.length_range]

theorem le_succ (n v : Nat) : le (n + 1) v = v % 256 :: le n (v / 256) := by
  simp only [le, List.range_succ_eq_map, List.map_cons, List.map_map, Nat.pow_zero, Nat.div_one]
  congr 1
  apply List.map_congr_left
  intro i _
  simp only [Function.comp, Nat.succ_eq_add_one, Nat.pow_succ', Nat.div_div_eq_div_mul]

theorem fromLe_cons (b : Nat) (bs : List Nat) : fromLe (b :: bs) = b + 256 * fromLe bs := rfl

theorem fromLe_le (n v : Nat) : fromLe (le n v) = v % 256 ^ n := by
  induction n generalizing v with
  | zero => simp only [le, List.range_zero, List.map_nil, fromLe, List.foldr_nil, Nat.pow_zero, Nat.mod_one]
  | succ n ih =>
    rw [le_succ, fromLe_cons, ih, Nat.pow_succ', Nat.mod_mul]

theorem fromLe_le_of_lt {n v : Nat} (h : v < 256 ^ n) : fromLe (le n v) = v := by
  rw [fromLe_le, Nat.mod_eq_of_lt h]

theorem le_byteList (n v : Nat) : ByteList (le n v) := by
  intro b hb
  simp only [le, List.mem_map] at hb
  obtain ⟨i, _, rfl⟩ := hb
  exact Nat.mod_lt _ (by decide)

/-! ## fields -/

theorem encodeFields_nil : encodeFields [] = [] := rfl

theorem encodeFields_cons (f : Field) (fs : List Field) :
    encodeFields (f :: fs) = f.data.length :: f.code :: (f.data ++ encodeFields fs) := by
  simp only [encodeFields, List.flatMap_cons, encodeField, List.cons_append]

/-- the field decoder undoes the field encoder, whatever follows -/
theorem decodeFields_encode (fs : List Field) (rest : List Nat) :
    decodeFields fs.length (encodeFields fs ++ rest) = some (fs, rest) := by
  induction fs with
  | nil => simp only [List.length_nil, encodeFields_nil, List.nil_append, decodeFields]
  | cons f fs ih =>
    rw [encodeFields_cons, List.length_cons, List.cons_append, List.cons_append, List.append_assoc,
      decodeFields]
    have hlen : ¬ (f.data ++ (encodeFields fs ++ rest)).length < f.data.length := by
      rw [List.length_append]; omega
    rw [if_neg hlen, List.drop_left, ih, List.take_left]

theorem strField_size_le (code : Nat) (s : List Nat) : ∀ f ∈ strField code s, f.data.length ≤ 255 := by
  intro f hf
  unfold strField at hf
  split at hf
  · exact absurd hf List.not_mem_nil
  · rw [List.mem_singleton] at hf
    subst hf
    show s.length ≤ 255
    omega

theorem strField_code (code : Nat) (s : List Nat) : ∀ f ∈ strField code s, f.code = code ∧ f.data = s := by
  intro f hf
  unfold strField at hf
  split at hf
  · exact absurd hf List.not_mem_nil
  · rw [List.mem_singleton] at hf
    subst hf
    exact ⟨rfl, rfl⟩

/-- every header field's payload fits the one-byte size prefix -/
theorem headerFields_size_lt (h : Header) : ∀ f ∈ headerFields h, f.data.length < 256 := by
  intro f hf
  simp only [headerFields, List.mem_append, List.mem_cons, List.not_mem_nil,
    or_false] at hf
  rcases hf with ((((hf | hf) | hf) | hf | hf | hf | hf) | hf) | hf
  · subst hf; show (le 8 _).length < 256; rw [le_length]; decide
  · exact Nat.lt_succ_of_le (strField_size_le _ _ f hf)
  · exact Nat.lt_succ_of_le (strField_size_le _ _ f hf)
  · subst hf; show (le 1 _).length < 256; rw [le_length]; decide
  · subst hf; show (le 4 _).length < 256; rw [le_length]; decide
  · subst hf; show (le 4 _).length < 256; rw [le_length]; decide
  · subst hf; decide
  · exact Nat.lt_succ_of_le (strField_size_le _ _ f hf)
  · subst hf; show (le 4 _).length < 256; rw [le_length]; decide

theorem strField_length_le (code : Nat) (s : List Nat) : (strField code s).length ≤ 1 := by
  unfold strField; split <;> simp only [List.length_nil, List.length_cons] <;> omega

/-- between 6 and 9 header fields: the count byte is a byte -/
theorem headerFields_length (h : Header) : 6 ≤ (headerFields h).length ∧ (headerFields h).length ≤ 9 := by
  have a := strField_length_le 69 h.model
  have b := strField_length_le 66 h.brand
  have c := strField_length_le 68 h.deviceName
  simp only [headerFields, List.length_append, List.length_cons, List.length_nil]
  omega

/-! ## frames -/

theorem encodeFrame_eq (f : List Nat) :
    encodeFrame f = 70 :: 1 :: (encodeFields [⟨102, le 4 f.length⟩] ++ f) := by
  simp only [encodeFrame, encodeFields, List.flatMap_cons, List.flatMap_nil, List.append_nil,
    List.cons_append, List.nil_append]

theorem encodeFrame_length (f : List Nat) : (encodeFrame f).length = f.length + 8 := by
  simp only [encodeFrame, encodeField, List.length_append, List.length_cons, List.length_nil, le_length]
  omega

/-- the frame decoder undoes the frame encoder when it is given more fuel than there are bytes -/
theorem decodeFrames_encode (frames : List (List Nat)) (hf : ∀ f ∈ frames, f.length < 2 ^ 32)
    (fuel : Nat) (hfuel : (frames.flatMap encodeFrame).length < fuel) :
    decodeFrames fuel (frames.flatMap encodeFrame) = some frames := by
  induction frames generalizing fuel with
  | nil => simp only [List.flatMap_nil, decodeFrames]
  | cons f frames ih =>
    have hflen : f.length < 2 ^ 32 := hf f List.mem_cons_self
    have hf' : ∀ g ∈ frames, g.length < 2 ^ 32 := fun g hg => hf g (List.mem_cons_of_mem _ hg)
    rw [List.flatMap_cons, List.length_append, encodeFrame_length] at hfuel
    cases fuel with
    | zero => omega
    | succ fuel =>
      have hdec := decodeFields_encode [⟨102, le 4 f.length⟩] (f ++ frames.flatMap encodeFrame)
      rw [List.length_singleton] at hdec
      rw [List.flatMap_cons, encodeFrame_eq, List.cons_append, List.cons_append, List.append_assoc,
        decodeFrames, hdec]
      have hfrom : fromLe (le 4 f.length) = f.length := fromLe_le_of_lt hflen
      have hcond : ¬ ((le 4 f.length).length ≠ 4 ∨
          (f ++ frames.flatMap encodeFrame).length < f.length) := by
        rw [le_length, List.length_append]; omega
      simp only [hfrom, List.drop_left, List.take_left]
      rw [if_neg hcond, ih hf' fuel (by omega)]
      rfl

/-! ## whole file -/

theorem encodeFile_eq (h : Header) (frames : List (List Nat)) :
    encodeFile h frames =
      67 :: 80 :: 84 :: 82 :: 2 :: 72 :: (headerFields h).length ::
        (encodeFields (headerFields h) ++ frames.flatMap encodeFrame) := by
  simp only [encodeFile, encodeHeader, magic, List.cons_append, List.nil_append]

theorem decodeFile_encodeFile (h : Header) (frames : List (List Nat))
    (hf : ∀ f ∈ frames, f.length < 2 ^ 32) :
    decodeFile (encodeFile h frames) = some (headerFields h, frames) := by
  rw [encodeFile_eq, decodeFile, decodeFields_encode]
  simp only []
  rw [decodeFrames_encode frames hf _ (Nat.lt_succ_self _)]
  rfl

/-! ## the encoded file is a list of bytes -/

theorem byteList_nil : ByteList [] := fun _ h => absurd h List.not_mem_nil

theorem byteList_cons {b : Nat} {l : List Nat} (hb : b < 256) (hl : ByteList l) : ByteList (b :: l) := by
  intro x hx
  rcases List.mem_cons.mp hx with rfl | hx
  · exact hb
  · exact hl x hx

theorem byteList_append {l₁ l₂ : List Nat} (h₁ : ByteList l₁) (h₂ : ByteList l₂) : ByteList (l₁ ++ l₂) := by
  intro x hx
  rcases List.mem_append.mp hx with hx | hx
  · exact h₁ x hx
  · exact h₂ x hx

theorem encodeFields_byteList (fs : List Field)
    (h : ∀ f ∈ fs, f.data.length < 256 ∧ f.code < 256 ∧ ByteList f.data) : ByteList (encodeFields fs) := by
  induction fs with
  | nil => exact byteList_nil
  | cons f fs ih =>
    rw [encodeFields_cons]
    obtain ⟨h1, h2, h3⟩ := h f List.mem_cons_self
    exact byteList_cons h1 (byteList_cons h2 (byteList_append h3
      (ih fun g hg => h g (List.mem_cons_of_mem _ hg))))

theorem flatMap_byteList {α : Type} (l : List α) (g : α → List Nat) (h : ∀ a ∈ l, ByteList (g a)) :
    ByteList (l.flatMap g) := by
  intro b hb
  obtain ⟨a, ha, hba⟩ := List.mem_flatMap.mp hb
  exact h a ha b hba

theorem encodeFrame_byteList (f : List Nat) (h : ByteList f) : ByteList (encodeFrame f) := by
  rw [encodeFrame_eq]
  refine byteList_cons (by decide) (byteList_cons (by decide) (byteList_append ?_ h))
  apply encodeFields_byteList
  intro g hg
  rw [List.mem_singleton] at hg
  subst hg
  refine ⟨?_, (by decide : (102 : Nat) < 256), le_byteList _ _⟩
  show (le 4 _).length < 256
  rw [le_length]; decide

theorem headerFields_wf (h : Header) (hm : ByteList h.model) (hb : ByteList h.brand)
    (hd : ByteList h.deviceName) :
    ∀ f ∈ headerFields h, f.data.length < 256 ∧ f.code < 256 ∧ ByteList f.data := by
  intro f hf
  refine ⟨headerFields_size_lt h f hf, ?_⟩
  simp only [headerFields, List.mem_append, List.mem_cons, List.not_mem_nil,
    or_false] at hf
  rcases hf with ((((hf | hf) | hf) | hf | hf | hf | hf) | hf) | hf
  · subst hf; exact ⟨(by decide : (84 : Nat) < 256), le_byteList _ _⟩
  · obtain ⟨h1, h2⟩ := strField_code _ _ f hf; rw [h1, h2]; exact ⟨by decide, hm⟩
  · obtain ⟨h1, h2⟩ := strField_code _ _ f hf; rw [h1, h2]; exact ⟨by decide, hb⟩
  · subst hf; exact ⟨(by decide : (90 : Nat) < 256), le_byteList _ _⟩
  · subst hf; exact ⟨(by decide : (88 : Nat) < 256), le_byteList _ _⟩
  · subst hf; exact ⟨(by decide : (89 : Nat) < 256), le_byteList _ _⟩
  · subst hf; exact ⟨by decide, by intro b hb; rw [List.mem_singleton.mp hb]; decide⟩
  · obtain ⟨h1, h2⟩ := strField_code _ _ f hf; rw [h1, h2]; exact ⟨by decide, hd⟩
  · subst hf; exact ⟨(by decide : (73 : Nat) < 256), le_byteList _ _⟩

/-- if the strings and the frames are byte lists, so is the encoded file -/
theorem encodeFile_byteList (h : Header) (frames : List (List Nat)) (hm : ByteList h.model)
    (hb : ByteList h.brand) (hd : ByteList h.deviceName) (hfr : ∀ f ∈ frames, ByteList f) :
    ByteList (encodeFile h frames) := by
  rw [encodeFile_eq]
  have hl := (headerFields_length h).2
  refine byteList_cons (by decide) (byteList_cons (by decide) (byteList_cons (by decide)
    (byteList_cons (by decide) (byteList_cons (by decide) (byteList_cons (by decide)
    (byteList_cons (by omega) (byteList_append ?_ ?_)))))))
  · exact encodeFields_byteList _ (headerFields_wf h hm hb hd)
  · exact flatMap_byteList _ _ fun f hf => encodeFrame_byteList f (hfr f hf)

/-- header used by the non-vacuity examples of `Props/C18.lean` -/
def exHeader : Header :=
  { timestampUs := 1790000000000000, model := [108, 101, 112], brand := [102], fps := 9,
    resX := 160, resY := 120, deviceName := [], deviceID := 7 }

end TR.C18
