import TR.ProcMon
/-!
# Proofs.C13Spec — what acceptance by the C13 monitor means, as a plain statement about positions

`monC13` (`TR.ProcMon`) folds the state machine `M13.step` over an observed trace.  Here the monitor is
characterised, for EVERY trace, by a statement that does not mention it.

* `Step.isBad` — the step's event is a frame the parser rejected;
* `openAfter tr` — a motion recording is open after the steps `tr`, the way C13 counts it: a successful
  `StartRecording` on the motion sink observed on a step that is not a bad frame opens one; a
  `StopRecording` on the motion sink (any step) and a bad frame close it (`openAfter_iff`);
  `openBefore tr i = openAfter (tr.take i)`;
* `BadFrameRule tr` — no step writes the id `garbage` to any sink, and a bad-frame step has no write at all,
  no start attempt on the motion sink, and carries the motion stop if a recording was open before it;
* `monC13_iff' : monC13 tr = [] ↔ BadFrameRule tr`.
-/
namespace TR.C13Spec
open TR

/-! ## (A) the plain specification -/

/-- the step's event is a frame the parser rejected -/
def _root_.TR.Step.isBad (s : Step) : Bool :=
  match s.ev with
  | .bad _ => true
  | _ => false

/-- the effect of one step on "a motion recording is open", as C13 counts it: a bad frame closes; on any
other step a successful start opens and a stop closes (the stop wins when both are observed) -/
def nextOpen (o : Bool) (s : Step) : Bool := !s.isBad && (o || hasStartOk s.obs) && !hasStop s.obs

/-- "a motion recording is open" after the steps `l`, when it was `o` before them -/
def openFrom (o : Bool) (l : List Step) : Bool := l.foldl nextOpen o

/-- a motion recording is open after the steps `tr` (initially none is); see `openAfter_iff` -/
def openAfter (tr : List Step) : Bool := openFrom false tr

/-- a motion recording is open before step `i` -/
def openBefore (tr : List Step) (i : Nat) : Bool := openAfter (tr.take i)

/-- **the plain rule**: the id `garbage` (content of a rejected frame) is never written to any sink; and a
bad-frame step has no write at all, no start attempt on the motion sink, and — if a motion recording was
open before it — carries the motion stop -/
def BadFrameRule (tr : List Step) : Prop :=
  (∀ st ∈ tr, writesGarbage st.obs = false) ∧
  ∀ i (h : i < tr.length) (f : Faults), tr[i].ev = .bad f →
    anyWrite tr[i].obs = false ∧ hasStartAny tr[i].obs = false ∧
    (openBefore tr i = true → hasStop tr[i].obs = true)

/-! ## `openBefore` step by step -/

theorem openFrom_snoc (o : Bool) (l : List Step) (s : Step) :
    openFrom o (l ++ [s]) = nextOpen (openFrom o l) s := by
  simp only [openFrom, List.foldl_append, List.foldl_cons, List.foldl_nil]

theorem openBefore_succ (tr : List Step) (i : Nat) (h : i < tr.length) :
    openBefore tr (i + 1) = nextOpen (openBefore tr i) tr[i] := by
  simp only [openBefore, openAfter]
  rw [← List.take_append_getElem h, openFrom_snoc]

/-! ## `openAfter`, read as a statement about positions -/

/-- the step keeps an open recording open: it is not a bad frame and carries no motion stop -/
def _root_.TR.Step.keepsOpen (s : Step) : Bool := !s.isBad && !hasStop s.obs

/-- every step of `l` keeps an open recording open -/
def AllKeep (l : List Step) : Prop := ∀ s ∈ l, s.keepsOpen = true

theorem allKeep_cons (s : Step) (l : List Step) : AllKeep (s :: l) ↔ s.keepsOpen = true ∧ AllKeep l := by
  simp [AllKeep]

theorem nextOpen_eq (o : Bool) (s : Step) : nextOpen o s = ((o || hasStartOk s.obs) && s.keepsOpen) := by
  simp only [nextOpen, Step.keepsOpen]
  generalize s.isBad = b
  generalize hasStartOk s.obs = st
  generalize hasStop s.obs = sp
  cases o <;> cases b <;> cases st <;> cases sp <;> rfl

theorem openFrom_iff : ∀ (l : List Step) (o : Bool),
    openFrom o l = true ↔
      (o = true ∧ AllKeep l) ∨
        ∃ pre st post, l = pre ++ st :: post ∧ hasStartOk st.obs = true ∧ AllKeep (st :: post) := by
  intro l
  induction l with
  | nil =>
    intro o
    constructor
    · intro h; exact Or.inl ⟨h, fun _ hm => by cases hm⟩
    · rintro (⟨h, _⟩ | ⟨pre, st, post, h, _⟩)
      · exact h
      · cases pre <;> cases h
  | cons a l ih =>
    intro o
    have hstep : openFrom o (a :: l) = openFrom (nextOpen o a) l := rfl
    rw [hstep, ih, nextOpen_eq]
    constructor
    · rintro (⟨h, hn⟩ | ⟨pre, st, post, h, hs, hn⟩)
      · simp only [Bool.and_eq_true, Bool.or_eq_true] at h
        obtain ⟨h1 | h1, h2⟩ := h
        · exact Or.inl ⟨h1, (allKeep_cons a l).mpr ⟨h2, hn⟩⟩
        · exact Or.inr ⟨[], a, l, rfl, h1, (allKeep_cons a l).mpr ⟨h2, hn⟩⟩
      · exact Or.inr ⟨a :: pre, st, post, by rw [h]; rfl, hs, hn⟩
    · rintro (⟨h, hn⟩ | ⟨pre, st, post, h, hs, hn⟩)
      · obtain ⟨h2, hn⟩ := (allKeep_cons a l).mp hn
        exact Or.inl ⟨by simp [h, h2], hn⟩
      · cases pre with
        | nil =>
          simp only [List.nil_append, List.cons.injEq] at h
          obtain ⟨rfl, rfl⟩ := h
          obtain ⟨h2, hn⟩ := (allKeep_cons _ _).mp hn
          exact Or.inl ⟨by simp [hs, h2], hn⟩
        | cons p pre =>
          simp only [List.cons_append, List.cons.injEq] at h
          exact Or.inr ⟨pre, st, post, h.2, hs, hn⟩

/-- **`openAfter` in words**: a motion recording is open after `tr` iff some step of `tr` carries a
successful start and neither that step nor any later one is a bad frame or carries a motion stop -/
theorem openAfter_iff (tr : List Step) :
    openAfter tr = true ↔
      ∃ pre st post, tr = pre ++ st :: post ∧ hasStartOk st.obs = true ∧ AllKeep (st :: post) := by
  rw [openAfter, openFrom_iff]
  constructor
  · rintro (⟨h, _⟩ | h)
    · cases h
    · exact h
  · exact Or.inr

/-! ## the Bool version of `BadFrameRule` (for `decide`, and as the induction vehicle) -/

/-- what the rule demands of one step, given the flag before it -/
def stepOk (o : Bool) (s : Step) : Bool :=
  !writesGarbage s.obs &&
    (!s.isBad || (!anyWrite s.obs && !hasStartAny s.obs && (!o || hasStop s.obs)))

/-- the rule for the steps `l`, started with flag `o` -/
def ruleFrom : Bool → List Step → Bool
  | _, [] => true
  | o, s :: rest => stepOk o s && ruleFrom (nextOpen o s) rest

/-- executable `BadFrameRule` -/
def badFrameRuleB (tr : List Step) : Bool := ruleFrom false tr

theorem ruleFrom_iff : ∀ (l : List Step) (o : Bool),
    ruleFrom o l = true ↔ ∀ i (h : i < l.length), stepOk (openFrom o (l.take i)) l[i] = true := by
  intro l
  induction l with
  | nil =>
    intro o
    constructor
    · intro _ i h; exact absurd h (Nat.not_lt_zero _)
    · intro _; rfl
  | cons a l ih =>
    intro o
    simp only [ruleFrom, Bool.and_eq_true]
    rw [ih]
    constructor
    · rintro ⟨h0, hs⟩ i h
      cases i with
      | zero => exact h0
      | succ i => exact hs i (Nat.lt_of_succ_lt_succ h)
    · intro h
      exact ⟨h 0 (Nat.zero_lt_succ _), fun i hi => h (i + 1) (Nat.succ_lt_succ hi)⟩

theorem isBad_iff (s : Step) : s.isBad = true ↔ ∃ f, s.ev = .bad f := by
  obtain ⟨ev, obs⟩ := s
  cases ev <;> simp [Step.isBad]

theorem stepOk_iff (o : Bool) (s : Step) :
    stepOk o s = true ↔
      writesGarbage s.obs = false ∧
      ∀ f, s.ev = .bad f →
        anyWrite s.obs = false ∧ hasStartAny s.obs = false ∧ (o = true → hasStop s.obs = true) := by
  cases hb : s.isBad
  · have hnb : ∀ f, s.ev ≠ .bad f := by
      intro f he
      have := (isBad_iff s).mpr ⟨f, he⟩
      rw [hb] at this; cases this
    simp only [stepOk, hb, Bool.and_eq_true, Bool.not_eq_true', Bool.not_false, Bool.true_or, and_true]
    exact ⟨fun h => ⟨h, fun f he => absurd he (hnb f)⟩, fun h => h.1⟩
  · obtain ⟨f, he⟩ := (isBad_iff s).mp hb
    simp only [stepOk, hb, Bool.and_eq_true, Bool.not_eq_true', Bool.not_true, Bool.false_or,
      Bool.or_eq_true]
    constructor
    · rintro ⟨h1, ⟨h2, h3⟩, h4⟩
      refine ⟨h1, fun _ _ => ⟨h2, h3, fun ho => ?_⟩⟩
      rcases h4 with h4 | h4
      · rw [ho] at h4; cases h4
      · exact h4
    · rintro ⟨h1, h⟩
      obtain ⟨h2, h3, h4⟩ := h f he
      refine ⟨h1, ⟨h2, h3⟩, ?_⟩
      cases o
      · exact Or.inl rfl
      · exact Or.inr (h4 rfl)

theorem badFrameRule_iff (tr : List Step) : BadFrameRule tr ↔ badFrameRuleB tr = true := by
  rw [badFrameRuleB, ruleFrom_iff]
  constructor
  · rintro ⟨hg, hb⟩ i hi
    exact (stepOk_iff _ _).mpr ⟨hg _ (List.getElem_mem hi), hb i hi⟩
  · intro h
    refine ⟨fun st hm => ?_, fun i hi => ((stepOk_iff _ _).mp (h i hi)).2⟩
    obtain ⟨i, hi, rfl⟩ := List.mem_iff_getElem.mp hm
    exact ((stepOk_iff _ _).mp (h i hi)).1

instance (tr : List Step) : Decidable (BadFrameRule tr) :=
  decidable_of_iff _ (badFrameRule_iff tr).symm

/-! ## (B) the monitor, one step at a time -/

theorem m13_open (m : M13) (s : Step) : (M13.step m s).openRec = nextOpen m.openRec s := by
  obtain ⟨ev, obs⟩ := s
  cases ev <;> simp [M13.step, nextOpen, Step.isBad]

theorem ite_nil_iff {b : Bool} {l : List String} (hl : l ≠ []) :
    (if b = true then l else []) = [] ↔ b = false := by
  cases b <;> simp [hl]

/-- `fails` stays empty iff it was empty and the step passes the check -/
theorem m13_fails (m : M13) (s : Step) :
    (M13.step m s).fails = [] ↔ m.fails = [] ∧ stepOk m.openRec s = true := by
  obtain ⟨ev, obs⟩ := s
  cases ev with
  | bad f =>
    simp only [M13.step, stepOk, Step.isBad, List.append_eq_nil_iff]
    rw [ite_nil_iff (by simp), ite_nil_iff (by simp), ite_nil_iff (by simp), ite_nil_iff (by simp)]
    cases writesGarbage obs <;> cases anyWrite obs <;> cases hasStartAny obs <;> cases m.openRec <;>
      cases hasStop obs <;> simp
  | frame mo f =>
    simp only [M13.step, stepOk, Step.isBad, List.append_eq_nil_iff]
    rw [ite_nil_iff (by simp)]
    cases writesGarbage obs <;> simp
  | reset f =>
    simp only [M13.step, stepOk, Step.isBad, List.append_eq_nil_iff]
    rw [ite_nil_iff (by simp)]
    cases writesGarbage obs <;> simp
  | testReq =>
    simp only [M13.step, stepOk, Step.isBad, List.append_eq_nil_iff]
    rw [ite_nil_iff (by simp)]
    cases writesGarbage obs <;> simp

/-- **the monitor, from any state** -/
theorem fold_fails_iff : ∀ (tr : List Step) (m : M13),
    (tr.foldl M13.step m).fails = [] ↔ m.fails = [] ∧ ruleFrom m.openRec tr = true := by
  intro tr
  induction tr with
  | nil => intro m; simp [ruleFrom]
  | cons s tr ih =>
    intro m
    rw [List.foldl_cons, ih, m13_fails, m13_open, ruleFrom, Bool.and_eq_true, and_assoc]

/-- the invariant behind the equivalence, on its own: the monitor's flag is `openAfter` of the steps
processed so far -/
theorem fold_state : ∀ (tr : List Step) (m : M13),
    (tr.foldl M13.step m).openRec = openFrom m.openRec tr := by
  intro tr
  induction tr with
  | nil => intro m; rfl
  | cons s tr ih =>
    intro m
    rw [List.foldl_cons]
    have := ih (M13.step m s)
    rw [m13_open] at this
    exact this

/-- **the C13 monitor accepts exactly the traces that obey the plain rule** -/
theorem monC13_iff' (tr : List Step) : monC13 tr = [] ↔ BadFrameRule tr := by
  rw [monC13, fold_fails_iff, badFrameRule_iff, badFrameRuleB]
  exact ⟨fun h => h.2, fun h => ⟨rfl, h⟩⟩

end TR.C13Spec
