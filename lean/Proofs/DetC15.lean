import TR.DetSpec
/-!
# Proofs.DetC15 — helper lemmas for C15 (dynamic threshold / background estimate)

What `pixelsChanged` leaves alone, what `updateBackground` does to the background, the threshold
and the frame counter, the decomposition of `detect` into these two, the geometry of the border
clamp, the arithmetic of `clampThresh`, and `after` over an appended event.
Core Lean only.
-/
namespace TR.P15
open TR TR.Det
variable {F : FloatOps}

/-! ## `pixelsChanged` does not touch the background machinery -/

theorem pixelsChanged_bg (c : DCfg) (d : Det F) (f : Frame) (a b : Bool) :
    (pixelsChanged c d f a b).1.bg = d.bg := by
  unfold pixelsChanged
  simp only []
  split
  · rfl
  · split <;> rfl

theorem pixelsChanged_tempThresh (c : DCfg) (d : Det F) (f : Frame) (a b : Bool) :
    (pixelsChanged c d f a b).1.tempThresh = d.tempThresh := by
  unfold pixelsChanged
  simp only []
  split
  · rfl
  · split <;> rfl

theorem pixelsChanged_bgSeeded (c : DCfg) (d : Det F) (f : Frame) (a b : Bool) :
    (pixelsChanged c d f a b).1.bgSeeded = d.bgSeeded := by
  unfold pixelsChanged
  simp only []
  split
  · rfl
  · split <;> rfl

theorem pixelsChanged_backgroundFrames (c : DCfg) (d : Det F) (f : Frame) (a b : Bool) :
    (pixelsChanged c d f a b).1.backgroundFrames = d.backgroundFrames := by
  unfold pixelsChanged
  simp only []
  split
  · rfl
  · split <;> rfl

theorem pixelsChanged_affected (c : DCfg) (d : Det F) (f : Frame) (a b : Bool) :
    (pixelsChanged c d f a b).1.affected = d.affected := by
  unfold pixelsChanged
  simp only []
  split
  · rfl
  · split <;> rfl

theorem pixelsChanged_weight (c : DCfg) (d : Det F) (f : Frame) (a b : Bool) :
    (pixelsChanged c d f a b).1.weight = d.weight := by
  unfold pixelsChanged
  simp only []
  split
  · rfl
  · split <;> rfl

/-! ## `updateBackground` -/

theorem updateBackground_tempThresh (c : DCfg) (d : Det F) (f : Frame) (p : Bool) :
    (updateBackground c d f p).1.tempThresh = d.tempThresh := by
  unfold updateBackground
  simp only []
  split <;> rfl

theorem updateBackground_backgroundFrames (c : DCfg) (d : Det F) (f : Frame) (p : Bool) :
    (updateBackground c d f p).1.backgroundFrames = d.backgroundFrames + 1 := by
  unfold updateBackground
  simp only []
  split <;> rfl

theorem updateBackground_bgSeeded (c : DCfg) (d : Det F) (f : Frame) (p : Bool) :
    (updateBackground c d f p).1.bgSeeded = true := by
  unfold updateBackground
  simp only []
  split <;> rfl

theorem updateBackground_affected (c : DCfg) (d : Det F) (f : Frame) (p : Bool) :
    (updateBackground c d f p).1.affected = d.affected := by
  unfold updateBackground
  simp only []
  split <;> rfl

/-- the average handed back is the mean of the background just written -/
theorem updateBackground_mean (c : DCfg) (d : Det F) (f : Frame) (p : Bool) :
    (updateBackground c d f p).2.1 = meanOf F c (updateBackground c d f p).1.bg := by
  unfold updateBackground
  simp only []
  split <;> rfl

/-- outside the interior the stored interior-function is not touched -/
theorem updateBackground_bg_outside (c : DCfg) (d : Det F) (f : Frame) (p : Bool) (y x : Nat)
    (h : c.inI y x = false) : (updateBackground c d f p).1.bg y x = d.bg y x := by
  unfold updateBackground
  simp only []
  split <;> simp [h]

/-- the first background frame since start-up / reset is a copy of the frame -/
theorem updateBackground_bg_first (c : DCfg) (d : Det F) (f : Frame) (p : Bool) (y x : Nat)
    (h0 : d.backgroundFrames = 0) (h : c.inI y x = true) :
    (updateBackground c d f p).1.bg y x = f y x := by
  unfold updateBackground
  simp only []
  split
  · simp [h]
  · omega

/-- after an FFC-affected frame every interior pixel is replaced -/
theorem updateBackground_bg_prevFFC (c : DCfg) (d : Det F) (f : Frame) (y x : Nat)
    (h : c.inI y x = true) : (updateBackground c d f true).1.bg y x = f y x := by
  unfold updateBackground
  simp only []
  split <;> simp [h]

/-- each interior pixel of the new background is the frame's or the old one -/
theorem updateBackground_bg_cases (c : DCfg) (d : Det F) (f : Frame) (p : Bool) (y x : Nat) :
    (updateBackground c d f p).1.bg y x = f y x ∨ (updateBackground c d f p).1.bg y x = d.bg y x := by
  unfold updateBackground
  simp only []
  split
  · dsimp only
    split
    · exact Or.inl rfl
    · exact Or.inr rfl
  · dsimp only
    split
    · exact Or.inl rfl
    · exact Or.inr rfl

/-- the heart of C15: under the one law about `lower`, the new interior background is never
warmer than the frame -/
theorem updateBackground_bg_le (hl : ∀ (new bg : Nat) (w : F.ω), new < bg → F.lower new w bg = true)
    (c : DCfg) (d : Det F) (f : Frame) (p : Bool) (y x : Nat) (h : c.inI y x = true) :
    (updateBackground c d f p).1.bg y x ≤ f y x := by
  unfold updateBackground
  simp only []
  split
  · simp [h]
  · simp only [h, Bool.true_and]
    split
    · exact Nat.le_refl _
    · rename_i hr
      apply Nat.le_of_not_lt
      intro hlt
      apply hr
      rw [hl _ _ _ hlt]
      simp

/-- the new interior background is the pointwise minimum-or-keep: it never rises above the old
background unless it is re-seeded (`prevFFC`, first frame) — more precisely, a kept pixel is the old one -/
theorem updateBackground_bg_keep (c : DCfg) (d : Det F) (f : Frame) (y x : Nat)
    (hn : d.backgroundFrames ≠ 0)
    (hk : F.lower (f y x) (d.weight y x) (d.bg y x) = false) :
    (updateBackground c d f false).1.bg y x = d.bg y x := by
  unfold updateBackground
  simp only []
  split
  · omega
  · simp [hk]

/-! ## the interior list is the interior predicate; `changed` -/

theorem mem_interior_iff (c : DCfg) (y x : Nat) : (y, x) ∈ c.interior ↔ c.inI y x = true := by
  unfold DCfg.interior DCfg.rows DCfg.cols DCfg.inI
  simp only [List.mem_flatMap, List.mem_map, List.mem_range'_1, Prod.mk.injEq, Bool.and_eq_true,
    decide_eq_true_eq]
  constructor
  · rintro ⟨y', hy, x', hx, rfl, rfl⟩
    omega
  · intro h
    exact ⟨y, by omega, x, by omega, rfl, rfl⟩

/-- `changed` is reported iff this is the first background frame of the epoch or some interior
pixel was replaced (after an FFC-affected frame: always, provided the interior is not empty) -/
theorem updateBackground_changed_iff (c : DCfg) (d : Det F) (f : Frame) (p : Bool) :
    (updateBackground c d f p).2.2 = true ↔
      d.backgroundFrames = 0 ∨
        ∃ y x, c.inI y x = true ∧ (p || F.lower (f y x) (d.weight y x) (d.bg y x)) = true := by
  unfold updateBackground
  simp only []
  split
  · rename_i h
    simp only [true_iff]
    left
    omega
  · rename_i h
    simp only [List.any_eq_true]
    constructor
    · rintro ⟨⟨y, x⟩, hm, hr⟩
      exact Or.inr ⟨y, x, (mem_interior_iff c y x).1 hm, hr⟩
    · rintro (h0 | ⟨y, x, hi, hr⟩)
      · omega
      · exact ⟨(y, x), (mem_interior_iff c y x).2 hi, hr⟩

/-- when nothing `changed` the interior background is the old one -/
theorem updateBackground_unchanged (c : DCfg) (d : Det F) (f : Frame) (p : Bool)
    (h : (updateBackground c d f p).2.2 = false) (y x : Nat) :
    (updateBackground c d f p).1.bg y x = d.bg y x := by
  cases hi : c.inI y x
  · exact updateBackground_bg_outside c d f p y x hi
  · have hn : ¬ ((updateBackground c d f p).2.2 = true) := by simp [h]
    rw [updateBackground_changed_iff] at hn
    have h0 : d.backgroundFrames ≠ 0 := fun h0 => hn (Or.inl h0)
    have hr : (p || F.lower (f y x) (d.weight y x) (d.bg y x)) = false := by
      cases hr : (p || F.lower (f y x) (d.weight y x) (d.bg y x))
      · rfl
      · exact absurd (Or.inr ⟨y, x, hi, hr⟩) hn
    unfold updateBackground
    simp only []
    split
    · omega
    · simp [hr]

/-! ## `detect` = background update (dynamic, non-FFC frame only) ∘ `pixelsChanged` -/

/-- the detector handed to `updateBackground` by `detect` -/
abbrev pre (d : Det F) (ffc : Bool) : Det F := { d with affected := ffc }

theorem detect_bg_static (c : DCfg) (d : Det F) (f : Frame) (ffc : Bool)
    (h : (c.dynamic && !ffc) = false) : (detect c d f ffc).1.bg = d.bg := by
  unfold detect
  simp only [h, pixelsChanged_bg]
  rfl

theorem detect_tempThresh_static (c : DCfg) (d : Det F) (f : Frame) (ffc : Bool)
    (h : (c.dynamic && !ffc) = false) : (detect c d f ffc).1.tempThresh = d.tempThresh := by
  unfold detect
  simp only [h, pixelsChanged_tempThresh]
  rfl

theorem detect_backgroundFrames_static (c : DCfg) (d : Det F) (f : Frame) (ffc : Bool)
    (h : (c.dynamic && !ffc) = false) :
    (detect c d f ffc).1.backgroundFrames = d.backgroundFrames := by
  unfold detect
  simp only [h, pixelsChanged_backgroundFrames]
  rfl

theorem detect_bg_dyn (c : DCfg) (d : Det F) (f : Frame) (hdyn : c.dynamic = true) :
    (detect c d f false).1.bg = (updateBackground c (pre d false) f d.affected).1.bg := by
  unfold detect
  simp only [hdyn, pixelsChanged_bg, Bool.not_false, Bool.and_self, if_true]
  split <;> rfl

theorem detect_backgroundFrames_dyn (c : DCfg) (d : Det F) (f : Frame) (hdyn : c.dynamic = true) :
    (detect c d f false).1.backgroundFrames = d.backgroundFrames + 1 := by
  unfold detect
  simp only [hdyn, pixelsChanged_backgroundFrames, Bool.not_false, Bool.and_self, if_true]
  split
  · exact updateBackground_backgroundFrames c (pre d false) f d.affected
  · exact updateBackground_backgroundFrames c (pre d false) f d.affected

theorem detect_bgSeeded_dyn (c : DCfg) (d : Det F) (f : Frame) (hdyn : c.dynamic = true) :
    (detect c d f false).1.bgSeeded = true := by
  unfold detect
  simp only [hdyn, pixelsChanged_bgSeeded, Bool.not_false, Bool.and_self, if_true]
  split
  · exact updateBackground_bgSeeded c (pre d false) f d.affected
  · exact updateBackground_bgSeeded c (pre d false) f d.affected

theorem detect_affected (c : DCfg) (d : Det F) (f : Frame) (ffc : Bool) :
    (detect c d f ffc).1.affected = ffc := by
  unfold detect
  simp only [pixelsChanged_affected]
  split
  · split
    · exact updateBackground_affected c (pre d ffc) f d.affected
    · exact updateBackground_affected c (pre d ffc) f d.affected
  · rfl

/-- the threshold after a dynamic non-FFC frame, as an `if` -/
theorem detect_tempThresh_dyn (c : DCfg) (d : Det F) (f : Frame) (hdyn : c.dynamic = true) :
    (detect c d f false).1.tempThresh =
      if (updateBackground c (pre d false) f d.affected).2.2 = true ∧
          d.backgroundFrames + 1 > c.previewFrames then
        clampThresh c (F.trunc (meanOf F c (detect c d f false).1.bg))
      else d.tempThresh := by
  rw [detect_bg_dyn c d f hdyn, ← updateBackground_mean]
  unfold detect
  simp only [hdyn, pixelsChanged_tempThresh, Bool.not_false, Bool.and_self, if_true,
    updateBackground_backgroundFrames, Bool.and_eq_true, decide_eq_true_eq]
  split
  · rfl
  · exact updateBackground_tempThresh c (pre d false) f d.affected

/-! ## the border clamp -/

theorem clampY_idem (c : DCfg) (y : Nat) (h : 2 * c.edge < c.resY) :
    c.clampY (c.clampY y) = c.clampY y := by
  unfold DCfg.clampY DCfg.rowStop
  split
  · simp only [Nat.lt_irrefl, if_false]
    split
    · omega
    · rfl
  · split
    · split
      · omega
      · split
        · rfl
        · rfl
    · rfl

theorem clampX_idem (c : DCfg) (x : Nat) (h : 2 * c.edge < c.resX) :
    c.clampX (c.clampX x) = c.clampX x := by
  unfold DCfg.clampX DCfg.colStop
  split
  · simp only [Nat.lt_irrefl, if_false]
    split
    · omega
    · rfl
  · split
    · split
      · omega
      · split
        · rfl
        · rfl
    · rfl

theorem clampY_range (c : DCfg) (y : Nat) (h : 2 * c.edge < c.resY) :
    c.edge ≤ c.clampY y ∧ c.clampY y < c.rowStop := by
  unfold DCfg.clampY DCfg.rowStop
  split
  · omega
  · split <;> omega

theorem clampX_range (c : DCfg) (x : Nat) (h : 2 * c.edge < c.resX) :
    c.edge ≤ c.clampX x ∧ c.clampX x < c.colStop := by
  unfold DCfg.clampX DCfg.colStop
  split
  · omega
  · split <;> omega

/-- an interior coordinate is its own nearest interior coordinate -/
theorem clamp_of_inI (c : DCfg) (y x : Nat) (h : c.inI y x = true) :
    c.clampY y = y ∧ c.clampX x = x := by
  unfold DCfg.inI at h
  simp only [Bool.and_eq_true, decide_eq_true_eq] at h
  unfold DCfg.clampY DCfg.clampX
  constructor
  · split
    · omega
    · split
      · omega
      · rfl
  · split
    · omega
    · split
      · omega
      · rfl

theorem inI_clamp (c : DCfg) (y x : Nat) (h : 2 * c.edge < c.resX ∧ 2 * c.edge < c.resY) :
    c.inI (c.clampY y) (c.clampX x) = true := by
  have hy := clampY_range c y h.2
  have hx := clampX_range c x h.1
  unfold DCfg.inI
  simp only [Bool.and_eq_true, decide_eq_true_eq]
  omega

/-- the clamp moves a coordinate by no more than its distance to the interior (it is the *nearest*
interior coordinate): every interior coordinate is at least as far away -/
theorem clampY_nearest (c : DCfg) (y y' : Nat) (h : c.edge ≤ y' ∧ y' < c.rowStop) :
    (c.clampY y - y) + (y - c.clampY y) ≤ (y' - y) + (y - y') := by
  unfold DCfg.clampY
  split
  · omega
  · split <;> omega

theorem clampX_nearest (c : DCfg) (x x' : Nat) (h : c.edge ≤ x' ∧ x' < c.colStop) :
    (c.clampX x - x) + (x - c.clampX x) ≤ (x' - x) + (x - x') := by
  unfold DCfg.clampX
  split
  · omega
  · split <;> omega

/-! ## `clampThresh` -/

theorem clampThresh_ge_min (c : DCfg) (a : Nat) (hmin : c.threshMin ≠ 0)
    (hmm : c.threshMax = 0 ∨ c.threshMin ≤ c.threshMax) : c.threshMin ≤ clampThresh c a := by
  unfold clampThresh
  simp only [hmin, ne_eq, not_false_eq_true, if_true]
  split <;> omega

theorem clampThresh_le_max (c : DCfg) (a : Nat) (hmax : c.threshMax ≠ 0) :
    clampThresh c a ≤ c.threshMax := by
  unfold clampThresh
  simp only [hmax, ne_eq, not_false_eq_true, if_true]
  omega

theorem clampThresh_inside (c : DCfg) (a : Nat) (hmin : c.threshMin = 0 ∨ c.threshMin ≤ a)
    (hmax : c.threshMax = 0 ∨ a ≤ c.threshMax) : clampThresh c a = a := by
  unfold clampThresh
  simp only []
  split <;> split <;> omega

theorem clampThresh_below (c : DCfg) (a : Nat) (hmin : c.threshMin ≠ 0) (ha : a ≤ c.threshMin)
    (hmm : c.threshMax = 0 ∨ c.threshMin ≤ c.threshMax) : clampThresh c a = c.threshMin := by
  unfold clampThresh
  simp only [hmin, ne_eq, not_false_eq_true, if_true]
  split <;> omega

theorem clampThresh_above (c : DCfg) (a : Nat) (hmax : c.threshMax ≠ 0) (ha : c.threshMax ≤ a) :
    clampThresh c a = c.threshMax := by
  unfold clampThresh
  simp only [hmax, ne_eq, not_false_eq_true, if_true]
  split <;> omega

/-! ## runs -/

theorem after_append (c : DCfg) (d : Det F) (es₁ es₂ : List DEv) :
    after c d (es₁ ++ es₂) = after c (after c d es₁) es₂ := by
  induction es₁ generalizing d with
  | nil => rfl
  | cons e es ih => exact ih (stepEv c d e).1

theorem after_snoc_frame (c : DCfg) (d : Det F) (es : List DEv) (f : Frame) (ffc : Bool) :
    after c d (es ++ [.frame f ffc]) = (detect c (after c d es) f ffc).1 := by
  rw [after_append]
  rfl

theorem after_snoc_reset (c : DCfg) (d : Det F) (es : List DEv) :
    after c d (es ++ [.reset]) = (after c d es).reset := by
  rw [after_append]
  rfl

/-- a property kept by every frame and by reset holds after every run -/
theorem after_invariant (c : DCfg) (P : Det F → Prop)
    (hframe : ∀ d f ffc, P d → P (detect c d f ffc).1) (hreset : ∀ d, P d → P d.reset)
    (d : Det F) (h : P d) (evs : List DEv) : P (after c d evs) := by
  induction evs generalizing d with
  | nil => exact h
  | cons e es ih =>
    cases e with
    | frame f ffc => exact ih _ (hframe d f ffc h)
    | reset => exact ih _ (hreset d h)

end TR.P15
