import TR.Conc
import Generated.Facts
import Proofs.Ring
/-!
# Proofs.ConcC16 — helper lemmas for C16 (snapshots concurrent with frame processing)

* `CInv` — the inductive invariant of the `TR.Conc.Step` transition system for capacity ≥ 2,
  `cinv_init`, `cinv_step`, `cinv_reach`.
* `n_mono_step`, `fresh_reach` — `n` never decreases and `nAtLock` is the `n` of the lock step.
* `splitFuel` — a structurally recursive copy of `String.splitOnAux` (which is defined by
  well-founded recursion and therefore does not reduce in the kernel), used to evaluate
  `racyVars` on the generated access table by `decide`.
* `Lock.*` — an abstract trace model of mutexes and the lemma that two accesses under a common
  lock are separated by a release/acquire pair.
-/
namespace TR.C16
open TR.Conc

/-! ## 1. Arithmetic -/

/-- the slot before the current one is the slot of the last completed frame -/
theorem prev_slot (n size : Nat) (hs : 1 ≤ size) (hn : 1 ≤ n) :
    (n % size + size - 1) % size = (n - 1) % size := by
  have e1 : n % size + size - 1 = n % size + (size - 1) := by omega
  rw [e1, Nat.mod_add_mod]
  have e2 : n + (size - 1) = (n - 1) + size := by omega
  rw [e2, Nat.add_mod_right]

/-- with capacity ≥ 2 the slot being copied is not the slot being written -/
theorem prev_slot_ne (n size : Nat) (hs : 2 ≤ size) (hn : 1 ≤ n) : (n - 1) % size ≠ n % size := by
  intro h
  have := TR.mod_window_inj (n - 1) n size (by omega) (by omega) h
  omega

/-! ## 2. The invariant -/

/-- Inductive invariant of the interleaved system (capacity `size`, `words` words per frame). -/
structure CInv (content : Nat → Nat → Nat) (size words : Nat) (s : St) : Prop where
  hsize : s.size = size
  hwords : s.words = words
  hcur : s.cur = s.n % size
  hfpos : s.fpos ≤ words
  /-- the part of frame `n` already written into the current slot -/
  hpart : ∀ i, i < s.fpos → s.slots s.cur i = content s.n i
  /-- completed frames still in the ring (the last `size − 1`) are intact -/
  hwin : ∀ k, k < s.n → s.n < k + size → ∀ i, i < words → s.slots (k % size) i = content k i
  hidle : s.r = .idle → s.lockedByReq = false
  hread : ∀ slot pos, s.r = .reading slot pos →
    s.lockedByReq = true ∧ s.n = s.nAtLock ∧ pos ≤ words ∧
    (1 ≤ s.nAtLock → slot = (s.nAtLock - 1) % size) ∧
    (1 ≤ s.nAtLock → ∀ i, i < pos → s.copy i = content (s.nAtLock - 1) i)
  hdone : s.r = .done →
    s.lockedByReq = false ∧ (1 ≤ s.nAtLock → ∀ i, i < words → s.copy i = content (s.nAtLock - 1) i)

theorem cinv_init (content : Nat → Nat → Nat) (size words : Nat) :
    CInv content size words (init size words) := by
  refine ⟨rfl, rfl, ?_, Nat.zero_le _, ?_, ?_, fun _ => rfl, ?_, ?_⟩
  · simp [init]
  · intro i hi; simp [init] at hi
  · intro k hk; simp [init] at hk
  · intro slot pos h; simp [init] at h
  · intro h; simp [init] at h

theorem cinv_step {content : Nat → Nat → Nat} {size words : Nat} (h2 : 2 ≤ size) {s t : St}
    (h : CInv content size words s) (hs : Step content s t) : CInv content size words t := by
  obtain ⟨hsize, hwords, hcur, hfpos, hpart, hwin, hidle, hread, hdone⟩ := h
  cases hs with
  | fWrite hlt =>
    refine ⟨hsize, hwords, hcur, ?_, ?_, ?_, hidle, hread, hdone⟩
    · show s.fpos + 1 ≤ words
      omega
    · intro i hi
      show (if s.cur = s.cur ∧ i = s.fpos then content s.n s.fpos else s.slots s.cur i) = content s.n i
      have hi' : i < s.fpos + 1 := hi
      by_cases he : i = s.fpos
      · subst he; simp
      · have : ¬ (s.cur = s.cur ∧ i = s.fpos) := fun hc => he hc.2
        rw [if_neg this]
        exact hpart i (by omega)
    · intro k hk1 hk2 i hi
      show (if k % size = s.cur ∧ i = s.fpos then content s.n s.fpos else s.slots (k % size) i) = content k i
      have hk1' : k < s.n := hk1
      have hk2' : s.n < k + size := hk2
      have hne : k % size ≠ s.cur := by
        rw [hcur]; intro heq
        have := TR.mod_window_inj k s.n size (by omega) hk2' heq
        omega
      have : ¬ (k % size = s.cur ∧ i = s.fpos) := fun hc => hne hc.1
      rw [if_neg this]
      exact hwin k hk1' hk2' i hi
  | fMove hfull hlock =>
    refine ⟨hsize, hwords, ?_, Nat.zero_le _, ?_, ?_, hidle, ?_, hdone⟩
    · show (s.cur + 1) % s.size = (s.n + 1) % size
      rw [hsize, hcur, Nat.mod_add_mod]
    · intro i hi
      exact absurd hi (Nat.not_lt_zero _)
    · intro k hk1 hk2 i hi
      show s.slots (k % size) i = content k i
      have hk1' : k < s.n + 1 := hk1
      have hk2' : s.n + 1 < k + size := hk2
      by_cases hk : k = s.n
      · subst hk
        rw [← hcur]
        exact hpart i (by omega)
      · exact hwin k (by omega) (by omega) i hi
    · intro slot pos hr
      have hr' : s.r = .reading slot pos := hr
      have := (hread slot pos hr').1
      rw [hlock] at this
      exact absurd this (by decide)
  | rLock hid hlock =>
    refine ⟨hsize, hwords, hcur, hfpos, hpart, hwin, ?_, ?_, ?_⟩
    · intro hr
      exact absurd hr (by simp)
    · intro slot pos hr
      have hr' : RPhase.reading ((s.cur + s.size - 1) % s.size) 0 = .reading slot pos := hr
      injection hr' with e1 e2
      subst e2
      refine ⟨rfl, rfl, Nat.zero_le _, ?_, ?_⟩
      · intro hn
        have hn' : 1 ≤ s.n := hn
        show slot = (s.n - 1) % size
        rw [← e1, hsize, hcur]
        exact prev_slot s.n size (by omega) hn'
      · intro _ i hi
        exact absurd hi (Nat.not_lt_zero _)
    · intro hr
      exact absurd hr (by simp)
  | rRead slot pos hrd hlt =>
    obtain ⟨hl, hn, hp, hslot, hcopy⟩ := hread slot pos hrd
    refine ⟨hsize, hwords, hcur, hfpos, hpart, hwin, ?_, ?_, ?_⟩
    · intro hr
      exact absurd hr (by simp)
    · intro slot' pos' hr
      have hr' : RPhase.reading slot (pos + 1) = .reading slot' pos' := hr
      injection hr' with e1 e2
      subst e1 e2
      refine ⟨hl, hn, ?_, hslot, ?_⟩
      · omega
      · intro h1 i hi
        have h1' : 1 ≤ s.nAtLock := h1
        show (if i = pos then s.slots slot pos else s.copy i) = content (s.nAtLock - 1) i
        by_cases he : i = pos
        · subst he
          rw [if_pos rfl, hslot h1']
          exact hwin (s.nAtLock - 1) (by omega) (by omega) i (by omega)
        · rw [if_neg he]
          exact hcopy h1' i (by omega)
    · intro hr
      exact absurd hr (by simp)
  | rUnlock slot hrd =>
    obtain ⟨hl, hn, hp, hslot, hcopy⟩ := hread slot s.words hrd
    refine ⟨hsize, hwords, hcur, hfpos, hpart, hwin, ?_, ?_, ?_⟩
    · intro hr
      exact absurd hr (by simp)
    · intro slot' pos' hr
      exact absurd hr (by simp)
    · intro _
      refine ⟨rfl, ?_⟩
      intro h1 i hi
      exact hcopy h1 i (by omega)

theorem cinv_reach {content : Nat → Nat → Nat} {size words : Nat} (h2 : 2 ≤ size) {s : St}
    (hr : Reach content (init size words) s) : CInv content size words s := by
  induction hr with
  | refl => exact cinv_init content size words
  | step _ hs ih => exact cinv_step h2 ih hs

/-! ## 3. Paths -/

theorem reach_trans {content : Nat → Nat → Nat} {a b c : St}
    (h1 : Reach content a b) (h2 : Reach content b c) : Reach content a c := by
  induction h2 with
  | refl => exact h1
  | step _ hs ih => exact Reach.step ih hs

/-- `n` never decreases -/
theorem n_mono_step {content : Nat → Nat → Nat} {s t : St} (hs : Step content s t) : s.n ≤ t.n := by
  cases hs <;> simp

theorem n_mono_reach {content : Nat → Nat → Nat} {s t : St} (h : Reach content s t) : s.n ≤ t.n := by
  induction h with
  | refl => exact Nat.le_refl _
  | step _ hs ih => exact Nat.le_trans ih (n_mono_step hs)

/-- the requester's phase only moves forward, and `nAtLock` is only assigned by `rLock` -/
theorem fresh_step {content : Nat → Nat → Nat} (m : Nat) {s t : St} (hs : Step content s t)
    (hn : m ≤ s.n) (h : s.r = .idle ∨ m ≤ s.nAtLock) : t.r = .idle ∨ m ≤ t.nAtLock := by
  cases hs with
  | fWrite _ => exact h
  | fMove _ _ => exact h
  | rLock _ _ => exact Or.inr hn
  | rRead slot pos hrd _ =>
    rcases h with h | h
    · rw [hrd] at h; exact absurd h (by simp)
    · exact Or.inr h
  | rUnlock slot hrd =>
    rcases h with h | h
    · rw [hrd] at h; exact absurd h (by simp)
    · exact Or.inr h

theorem fresh_reach {content : Nat → Nat → Nat} {s t : St} (h : Reach content s t)
    (hi : s.r = .idle) : s.n ≤ t.n ∧ (t.r = .idle ∨ s.n ≤ t.nAtLock) := by
  induction h with
  | refl => exact ⟨Nat.le_refl _, Or.inl hi⟩
  | step _ hs ih => exact ⟨Nat.le_trans ih.1 (n_mono_step hs), fresh_step s.n hs ih.1 ih.2⟩

/-- demo contents for the concrete paths in `Props.C16`: frame `k` is `k+1` in every word -/
def demoContent : Nat → Nat → Nat := fun k _ => k + 1

/-! ## 4. Evaluating `racyVars` in the kernel -/

open String.Pos.Raw in
/-- `String.splitOnAux` with fuel (structural recursion, so it reduces in the kernel) -/
def splitFuel (s sep : String) :
    Nat → String.Pos.Raw → String.Pos.Raw → String.Pos.Raw → List String → Option (List String)
  | 0, _, _, _, _ => none
  | fuel+1, b, i, j, r =>
    if atEnd s i then some (extract s b i :: r).reverse
    else if get s i == get sep j then
      if atEnd sep (next sep j) then
        splitFuel s sep fuel (next s i) (next s i) 0
          (extract s b ((next s i).unoffsetBy (next sep j)) :: r)
      else splitFuel s sep fuel b (next s i) (next sep j) r
    else splitFuel s sep fuel b (next s (i.unoffsetBy j)) 0 r

theorem splitFuel_sound (s sep : String) (fuel : Nat) :
    ∀ (b i j : String.Pos.Raw) (r l : List String),
      splitFuel s sep fuel b i j r = some l → s.splitOnAux sep b i j r = l := by
  induction fuel with
  | zero => intro b i j r l h; simp [splitFuel] at h
  | succ f ih =>
    intro b i j r l h
    rw [String.splitOnAux.eq_1]
    simp only [splitFuel] at h
    split at h
    · next h1 => simp only [h1, if_true]; exact Option.some.inj h
    · next h1 =>
      simp only [h1]
      split at h
      · next h2 =>
        simp only [h2, if_true]
        split at h
        · next h3 => simp only [h3, if_true]; exact ih _ _ _ _ _ h
        · next h3 => simp only [h3]; exact ih _ _ _ _ _ h
      · next h2 => simp only [h2]; exact ih _ _ _ _ _ h

/-- `locksOf` through the fuelled splitter -/
def locksOfF (a : Access) : List String :=
  if a.2.2.2 == "" then [] else (splitFuel a.2.2.2 "+" 64 0 0 0 []).getD []

theorem locksOf_eq_F (a : Access) (h : (splitFuel a.2.2.2 "+" 64 0 0 0 []).isSome = true) :
    locksOf a = locksOfF a := by
  unfold locksOf locksOfF
  split
  · rfl
  · obtain ⟨l, hl⟩ := Option.isSome_iff_exists.mp h
    rw [hl]
    simp only [String.splitOn, Option.getD_some]
    have : ("+" == "") = false := by decide
    simp only [this]
    exact splitFuel_sound _ _ _ _ _ _ _ _ hl

/-- `conflict` / `racyVars` with the lock-list function as a parameter -/
def conflictW (lk : Access → List String) (a b : Access) : Bool :=
  a.2.1 == b.2.1 && (a.2.2.1 == "W" || b.2.2.1 == "W") && concurrent a b &&
  !((lk a).any fun l => (lk b).contains l)

def racyVarsW (lk : Access → List String) (t : List Access) : List String :=
  (t.filterMap fun a => if t.any (conflictW lk a) then some a.2.1 else none).eraseDups

theorem racyVars_eq_W (t : List Access) : racyVars t = racyVarsW locksOf t := rfl

theorem filterMap_congr' {α β : Type} (f g : α → Option β) (l : List α)
    (h : ∀ a ∈ l, f a = g a) : l.filterMap f = l.filterMap g := by
  induction l with
  | nil => rfl
  | cons x xs ih =>
    simp only [List.filterMap_cons, h x (List.mem_cons_self ..)]
    rw [ih fun a ha => h a (List.mem_cons_of_mem _ ha)]

theorem any_congr' {α : Type} (p q : α → Bool) (l : List α)
    (h : ∀ a ∈ l, p a = q a) : l.any p = l.any q := by
  induction l with
  | nil => rfl
  | cons x xs ih =>
    simp only [List.any_cons, h x (List.mem_cons_self ..)]
    rw [ih fun a ha => h a (List.mem_cons_of_mem _ ha)]

theorem racyVarsW_congr (lk lk' : Access → List String) (t : List Access)
    (h : ∀ a ∈ t, lk a = lk' a) : racyVarsW lk t = racyVarsW lk' t := by
  unfold racyVarsW
  congr 1
  apply filterMap_congr'
  intro a ha
  have : t.any (conflictW lk a) = t.any (conflictW lk' a) := by
    apply any_congr'
    intro b hb
    simp only [conflictW, h a ha, h b hb]
  rw [this]

theorem racy_accesses :
    racyVars Facts.accesses = ["CurrentFrame", "StartSnapshot", "headerInfo", "processor"] := by
  rw [racyVars_eq_W, racyVarsW_congr locksOf locksOfF Facts.accesses
    (fun a ha => locksOf_eq_F a (by revert a; decide))]
  decide

/-! ## 5. Locksets: a common lock orders the accesses -/

namespace Lock

/-- trace events: thread `t` acquires / releases lock `l`, or accesses variable `v` (`w` = write) -/
inductive Ev
  | acq (t l : Nat)
  | rel (t l : Nat)
  | acc (t v : Nat) (w : Bool)
  deriving DecidableEq, Repr

/-- who holds each lock -/
abbrev Holders := Nat → Option Nat

def upd (h : Holders) (l : Nat) (o : Option Nat) : Holders := fun l' => if l' = l then o else h l'

/-- one event; `none` = the event is impossible for a mutex (acquire of a held lock, release by a
non-holder) -/
def step1 (h : Holders) : Ev → Option Holders
  | .acq t l => if h l = none then some (upd h l (some t)) else none
  | .rel t l => if h l = some t then some (upd h l none) else none
  | .acc _ _ _ => some h

def run (h : Holders) : List Ev → Option Holders
  | [] => some h
  | e :: es => (step1 h e).bind fun h' => run h' es

/-- a trace is well-formed if every event is possible, starting with all locks free -/
def WF (tr : List Ev) : Prop := (run (fun _ => none) tr).isSome = true

instance (tr : List Ev) : Decidable (WF tr) := inferInstanceAs (Decidable (_ = true))

/-- after the prefix `tr`, thread `t` holds lock `l` -/
def HoldsAfter (tr : List Ev) (t l : Nat) : Prop := ∃ h, run (fun _ => none) tr = some h ∧ h l = some t

theorem run_append (h : Holders) (a b : List Ev) :
    run h (a ++ b) = (run h a).bind fun h' => run h' b := by
  induction a generalizing h with
  | nil => rfl
  | cons e es ih =>
    simp only [List.cons_append, run]
    cases step1 h e with
    | none => rfl
    | some h' => simp only [Option.bind_some]; exact ih h'

/-- if `t` holds `l` before `mid` and no longer after it, `mid` contains `rel t l`, and `l` is
free right after that release -/
theorem find_rel (t l : Nat) (mid : List Ev) : ∀ (h h' : Holders), run h mid = some h' →
    h l = some t → h' l ≠ some t →
    ∃ m1 m2 hm, mid = m1 ++ Ev.rel t l :: m2 ∧ run hm m2 = some h' ∧ hm l = none := by
  induction mid with
  | nil =>
    intro h h' hr h1 h2
    simp only [run, Option.some.injEq] at hr
    subst hr
    exact absurd h1 h2
  | cons e es ih =>
    intro h h' hr h1 h2
    simp only [run] at hr
    cases hs : step1 h e with
    | none => rw [hs] at hr; simp at hr
    | some g =>
      rw [hs] at hr
      simp only [Option.bind_some] at hr
      by_cases hg : g l = some t
      · obtain ⟨m1, m2, hm, e1, e2, e3⟩ := ih g h' hr hg h2
        exact ⟨e :: m1, m2, hm, by rw [e1]; rfl, e2, e3⟩
      · -- the event changed the holder of `l` away from `t`: it is `rel t l`
        cases e with
        | acq t' l' =>
          simp only [step1] at hs
          split at hs
          · next hfree =>
            simp only [Option.some.injEq] at hs
            subst hs
            by_cases hl : l = l'
            · subst hl; rw [h1] at hfree; simp at hfree
            · simp only [upd, hl, if_false] at hg; exact absurd h1 hg
          · simp at hs
        | rel t' l' =>
          simp only [step1] at hs
          split at hs
          · next hheld =>
            simp only [Option.some.injEq] at hs
            subst hs
            by_cases hl : l = l'
            · subst hl
              rw [h1] at hheld
              simp only [Option.some.injEq] at hheld
              subst hheld
              exact ⟨[], es, upd h l none, rfl, hr, by simp [upd]⟩
            · simp only [upd, hl, if_false] at hg; exact absurd h1 hg
          · simp at hs
        | acc t' v w =>
          simp only [step1, Option.some.injEq] at hs
          subst hs
          exact absurd h1 hg

/-- if `t` does not hold `l` before `mid` and holds it after, `mid` contains `acq t l` -/
theorem find_acq (t l : Nat) (mid : List Ev) : ∀ (h h' : Holders), run h mid = some h' →
    h l ≠ some t → h' l = some t → ∃ m1 m2, mid = m1 ++ Ev.acq t l :: m2 := by
  induction mid with
  | nil =>
    intro h h' hr h1 h2
    simp only [run, Option.some.injEq] at hr
    subst hr
    exact absurd h2 h1
  | cons e es ih =>
    intro h h' hr h1 h2
    simp only [run] at hr
    cases hs : step1 h e with
    | none => rw [hs] at hr; simp at hr
    | some g =>
      rw [hs] at hr
      simp only [Option.bind_some] at hr
      by_cases hg : g l = some t
      · cases e with
        | acq t' l' =>
          simp only [step1] at hs
          split at hs
          · simp only [Option.some.injEq] at hs
            subst hs
            by_cases hl : l = l'
            · subst hl
              simp only [upd, if_true, Option.some.injEq] at hg
              subst hg
              exact ⟨[], es, rfl⟩
            · simp only [upd, hl, if_false] at hg; exact absurd hg h1
          · simp at hs
        | rel t' l' =>
          simp only [step1] at hs
          split at hs
          · simp only [Option.some.injEq] at hs
            subst hs
            by_cases hl : l = l'
            · subst hl; simp [upd] at hg
            · simp only [upd, hl, if_false] at hg; exact absurd hg h1
          · simp at hs
        | acc t' v w =>
          simp only [step1, Option.some.injEq] at hs
          subst hs
          exact absurd hg h1
      · obtain ⟨m1, m2, e1⟩ := ih g h' hr hg h2
        exact ⟨e :: m1, m2, by rw [e1]; rfl⟩

/-- Two accesses by different threads, each performed while its thread holds the common lock `l`,
are separated by `rel t1 l` followed (later) by `acq t2 l`. -/
theorem common_lock_orders (pre mid : List Ev) (t1 t2 v l : Nat) (w1 : Bool)
    (h1 : HoldsAfter pre t1 l) (h2 : HoldsAfter (pre ++ Ev.acc t1 v w1 :: mid) t2 l)
    (hne : t1 ≠ t2) :
    ∃ m1 m2 m3, mid = m1 ++ Ev.rel t1 l :: (m2 ++ Ev.acq t2 l :: m3) := by
  obtain ⟨H1, hr1, hl1⟩ := h1
  obtain ⟨H2, hr2, hl2⟩ := h2
  rw [run_append, hr1] at hr2
  simp only [Option.bind_some, run, step1] at hr2
  have hne' : H2 l ≠ some t1 := by
    rw [hl2]; intro h; exact hne (Option.some.inj h).symm
  obtain ⟨m1, m2, hm, e1, e2, e3⟩ := find_rel t1 l mid H1 H2 hr2 hl1 hne'
  obtain ⟨a, b, e4⟩ := find_acq t2 l m2 hm H2 e2 (by rw [e3]; simp) hl2
  exact ⟨m1, a, b, by rw [e1, e4]⟩

end Lock

end TR.C16
