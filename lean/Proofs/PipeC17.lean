import Proofs.C17Spec
import Proofs.PipeC04
/-!
# Proofs.PipeC17 — the continuous and the test recorder of the composed pipeline

* §A  `filesOfKind`, `constFiles`, `testFiles`: the frame-id lists of the files of one kind, oldest first;
      what `updOpen` / `startFile` do to the files of one kind;
* §B  the relation `KRel` between the files of a kind (newest first) and the file accumulator
      `C17Spec.FAcc` of the matching sink, one observation at a time — for the continuous and the test sink,
      throttle on or off (the throttle sits on the motion sink only);
* §C  the invariant `PIK` along `runG`: `constFiles (runG F c gs) = C17Spec.filesOf .const tr`, …
* §D  processor level: the calls on the continuous sink are a function of `(n, crFrames)` and the KIND of the
      event, those on the test sink of `(n, startSnap, snapRec, snapFrames)` and the kind of the event;
      consequences for whole traces (`constAcc_shape`, `testAcc_shape`, `constAcc_dropReq`);
* §E  the induced events of two histories with the same ops; spacing of the requests on the history itself;
* §F  "without disturbing a motion recording": test requests change nothing but the test files and the three
      snapshot fields of the processor (`Sim`), throttle on or off.
-/
namespace TR.PipeC17
open TR TR.C01Spec TR.PipeC04 TR.C17Spec

/-! ## (A) the files of one kind -/

/-- the file kind a sink writes to -/
def kindOf : Sink → FileKind
  | .motion => .motion
  | .const => .const
  | .test => .test

/-- the files of kind `k`, newest first -/
def kf (k : FileKind) (fs : List RecFile) : List RecFile := fs.filter (·.kind == k)

section files
variable {F : FloatOps}

/-- frame-id lists of the files of kind `k`, oldest first -/
def filesOfKind (k : FileKind) (p : Pipe F) : List (List Nat) :=
  (p.files.reverse.filter (·.kind == k)).map (·.frames)

/-- frame-id lists of the continuous recorder's files, oldest first -/
def constFiles (p : Pipe F) : List (List Nat) := filesOfKind .const p
/-- frame-id lists of the test recordings, oldest first -/
def testFiles (p : Pipe F) : List (List Nat) := filesOfKind .test p

theorem motionFiles_eq_kind (p : Pipe F) : motionFiles p = filesOfKind .motion p := rfl

theorem filesOfKind_eq (k : FileKind) (p : Pipe F) :
    filesOfKind k p = ((kf k p.files).map (·.frames)).reverse := by
  simp only [filesOfKind, kf, List.filter_reverse, List.map_reverse]

end files

theorem kf_kind {k : FileKind} {fs : List RecFile} {f : RecFile} (h : f ∈ kf k fs) : f.kind = k := by
  have := (List.mem_filter.mp h).2
  simpa using this

theorem kf_cons_same (k : FileKind) (x : RecFile) (fs : List RecFile) (h : x.kind = k) :
    kf k (x :: fs) = x :: kf k fs := by
  simp [kf, h]

theorem kf_cons_other (k : FileKind) (x : RecFile) (fs : List RecFile) (h : x.kind ≠ k) :
    kf k (x :: fs) = kf k fs := by
  simp [kf, h]

theorem kf_motion (fs : List RecFile) : kf .motion fs = mot fs := rfl

theorem updOpen_kf_other (k k' : FileKind) (fs : List RecFile) (u : RecFile → RecFile) (hk : k' ≠ k)
    (hu : ∀ x, (u x).kind = x.kind) : kf k (Pipe.updOpen fs k' u) = kf k fs := by
  induction fs with
  | nil => rfl
  | cons x xs ih =>
    simp only [Pipe.updOpen]
    split
    · next h =>
      simp only [Bool.and_eq_true, beq_iff_eq] at h
      have hx : x.kind ≠ k := by rw [h.1]; exact hk
      rw [kf_cons_other _ _ _ (by rw [hu]; exact hx), kf_cons_other _ _ _ hx]
    · by_cases hx : x.kind = k
      · rw [kf_cons_same _ _ _ hx, kf_cons_same _ _ _ hx, ih]
      · rw [kf_cons_other _ _ _ hx, kf_cons_other _ _ _ hx, ih]

theorem updOpen_kf_same (k : FileKind) (fs : List RecFile) (u : RecFile → RecFile)
    (hu : ∀ x, (u x).kind = x.kind) : kf k (Pipe.updOpen fs k u) = Pipe.updOpen (kf k fs) k u := by
  induction fs with
  | nil => rfl
  | cons x xs ih =>
    simp only [Pipe.updOpen]
    split
    · next h =>
      have h' := h
      simp only [Bool.and_eq_true, beq_iff_eq] at h'
      rw [kf_cons_same _ _ _ (by rw [hu]; exact h'.1), kf_cons_same _ _ _ h'.1]
      simp only [Pipe.updOpen, h, if_true]
    · next h =>
      by_cases hx : x.kind = k
      · rw [kf_cons_same _ _ _ hx, kf_cons_same _ _ _ hx, ih]
        simp only [Pipe.updOpen, h, Bool.false_eq_true, if_false]
      · rw [kf_cons_other _ _ _ hx, kf_cons_other _ _ _ hx, ih]

theorem updOpen_head_open_k (k : FileKind) (x : RecFile) (rest : List RecFile) (u : RecFile → RecFile)
    (hk : x.kind = k) (hc : x.closed = false) : Pipe.updOpen (x :: rest) k u = u x :: rest := by
  simp [Pipe.updOpen, hk, hc]

section kfops
variable {F : FloatOps}

theorem kf_start_same (c : PipeCfg) (p : Pipe F) (k : FileKind) (t : Nat) :
    ∃ x : RecFile, x.kind = k ∧ x.closed = false ∧ x.frames = [] ∧
      kf k (Pipe.startFile c p k t).files = x :: kf k p.files :=
  ⟨_, rfl, rfl, rfl, kf_cons_same k _ p.files rfl⟩

theorem kf_start_other (c : PipeCfg) (p : Pipe F) (k k' : FileKind) (t : Nat) (hk : k' ≠ k) :
    kf k (Pipe.startFile c p k' t).files = kf k p.files :=
  kf_cons_other k _ p.files hk

theorem kf_write_other (p : Pipe F) (k k' : FileKind) (id : Nat) (hk : k' ≠ k) :
    kf k (Pipe.writeFile p k' id).files = kf k p.files :=
  updOpen_kf_other k k' p.files (fun f => { f with frames := f.frames ++ [id] }) hk (fun _ => rfl)

theorem kf_stop_other (p : Pipe F) (k k' : FileKind) (hk : k' ≠ k) :
    kf k (Pipe.stopFile p k').files = kf k p.files :=
  updOpen_kf_other k k' p.files (fun f => { f with closed := true }) hk (fun _ => rfl)

theorem kf_write_same (p : Pipe F) (k : FileKind) (id : Nat) :
    kf k (Pipe.writeFile p k id).files =
      Pipe.updOpen (kf k p.files) k (fun f => { f with frames := f.frames ++ [id] }) :=
  updOpen_kf_same k p.files _ (fun _ => rfl)

theorem kf_stop_same (p : Pipe F) (k : FileKind) :
    kf k (Pipe.stopFile p k).files = Pipe.updOpen (kf k p.files) k (fun f => { f with closed := true }) :=
  updOpen_kf_same k p.files _ (fun _ => rfl)

/-- a base-recorder call of the throttle touches motion files only -/
theorem kf_applyTObs (c : PipeCfg) (k : FileKind) (hk : k ≠ .motion) (p : Pipe F) (t : TObs) :
    kf k (Pipe.applyTObs c p t).files = kf k p.files := by
  cases t with
  | bStart tag ok => exact kf_start_other c p k .motion _ (Ne.symm hk)
  | bWrite id ok => exact kf_write_other p k .motion id (Ne.symm hk)
  | bStop ok => exact kf_stop_other p k .motion (Ne.symm hk)
  | throttled => rfl
  | ret ok => rfl

theorem kf_applyTObs_fold (c : PipeCfg) (k : FileKind) (hk : k ≠ .motion) :
    ∀ (ts : List TObs) (p : Pipe F), kf k (ts.foldl (Pipe.applyTObs c) p).files = kf k p.files := by
  intro ts
  induction ts with
  | nil => intro p; rfl
  | cons t ts ih => intro p; rw [List.foldl_cons, ih, kf_applyTObs c k hk]

/-- **a call on the motion sink — throttled or not — leaves the continuous and the test files alone** -/
theorem kf_motionCall (c : PipeCfg) (k : FileKind) (hk : k ≠ .motion) (p : Pipe F) (call : Call) :
    kf k (Pipe.motionCall c p call).files = kf k p.files := by
  cases hthr : c.throttle with
  | false =>
    cases call with
    | can => simp only [Pipe.motionCall, hthr, Bool.false_eq_true, if_false]
    | start =>
      simp only [Pipe.motionCall, hthr, Bool.false_eq_true, if_false]
      exact kf_start_other c p k .motion _ (Ne.symm hk)
    | write id =>
      simp only [Pipe.motionCall, hthr, Bool.false_eq_true, if_false]
      exact kf_write_other p k .motion id (Ne.symm hk)
    | stop =>
      simp only [Pipe.motionCall, hthr, Bool.false_eq_true, if_false]
      exact kf_stop_other p k .motion (Ne.symm hk)
  | true =>
    cases call with
    | can => simp only [Pipe.motionCall, hthr, if_true]
    | start =>
      simp only [Pipe.motionCall, hthr, if_true]
      rw [kf_applyTObs_fold c k hk]
    | write id =>
      simp only [Pipe.motionCall, hthr, if_true]
      rw [kf_applyTObs_fold c k hk]
    | stop =>
      simp only [Pipe.motionCall, hthr, if_true]
      rw [kf_applyTObs_fold c k hk]

end kfops

/-! ## (B) files of a kind ↔ file accumulator of the sink -/

/-- the files of a kind (newest first) mirror the accumulator: the closed files below, the open one — the
only file of that kind still open — on top -/
def KRel (ms : List RecFile) (a : FAcc) : Prop :=
  ∃ rest, (∀ f ∈ rest, f.closed = true) ∧ rest.map (·.frames) = a.done.reverse ∧
    match a.cur with
    | none => ms = rest
    | some r => ∃ x, ms = x :: rest ∧ x.closed = false ∧ x.frames = r

theorem krel_init : KRel [] {} := ⟨[], (fun f hf => by cases hf), rfl, rfl⟩

theorem krel_files {F : FloatOps} (k : FileKind) (p : Pipe F) (a : FAcc) (h : KRel (kf k p.files) a) :
    filesOfKind k p = a.done ++ a.cur.toList := by
  obtain ⟨rest, _, hmap, hcur⟩ := h
  rw [filesOfKind_eq]
  cases hc : a.cur with
  | none =>
    rw [hc] at hcur
    simp only at hcur
    rw [hcur, hmap, List.reverse_reverse]; simp
  | some r =>
    rw [hc] at hcur
    obtain ⟨x, hx, _, hfr⟩ := hcur
    rw [hx, List.map_cons, hmap, hfr]
    simp

theorem krel_start (ms : List RecFile) (a : FAcc) (x : RecFile) (hc : a.cur = none)
    (hx1 : x.closed = false) (hx2 : x.frames = []) (h : KRel ms a) :
    KRel (x :: ms) { done := a.done ++ a.cur.toList, cur := some [] } := by
  obtain ⟨rest, hcl, hmap, hcur⟩ := h
  rw [hc] at hcur
  simp only at hcur
  rw [hc, hcur]
  exact ⟨rest, hcl, by simpa using hmap, x, rfl, hx1, hx2⟩

theorem krel_write (k : FileKind) (ms : List RecFile) (a : FAcc) (id : Nat) (hk : ∀ f ∈ ms, f.kind = k)
    (h : KRel ms a) :
    KRel (Pipe.updOpen ms k (fun f => { f with frames := f.frames ++ [id] }))
      { a with cur := a.cur.map (· ++ [id]) } := by
  obtain ⟨rest, hcl, hmap, hcur⟩ := h
  cases hc : a.cur with
  | none =>
    rw [hc] at hcur
    simp only at hcur
    rw [hcur, updOpen_all_closed _ _ _ hcl]
    exact ⟨rest, hcl, hmap, by simp⟩
  | some r =>
    rw [hc] at hcur
    obtain ⟨x, hx, hxc, hxf⟩ := hcur
    have hkx : x.kind = k := hk x (by rw [hx]; exact List.mem_cons_self ..)
    rw [hx, updOpen_head_open_k k x rest _ hkx hxc]
    exact ⟨rest, hcl, hmap, _, rfl, hxc, by simp [hxf]⟩

theorem krel_stop (k : FileKind) (ms : List RecFile) (a : FAcc) (hk : ∀ f ∈ ms, f.kind = k)
    (h : KRel ms a) :
    KRel (Pipe.updOpen ms k (fun f => { f with closed := true }))
      { done := a.done ++ a.cur.toList, cur := none } := by
  obtain ⟨rest, hcl, hmap, hcur⟩ := h
  cases hc : a.cur with
  | none =>
    rw [hc] at hcur
    simp only at hcur
    rw [hcur, updOpen_all_closed _ _ _ hcl]
    exact ⟨rest, hcl, by simpa using hmap, rfl⟩
  | some r =>
    rw [hc] at hcur
    obtain ⟨x, hx, hxc, hxf⟩ := hcur
    have hkx : x.kind = k := hk x (by rw [hx]; exact List.mem_cons_self ..)
    rw [hx, updOpen_head_open_k k x rest _ hkx hxc]
    refine ⟨_, ?_, ?_, rfl⟩
    · intro f hf
      rcases List.mem_cons.mp hf with rfl | hf
      · rfl
      · exact hcl f hf
    · simp [hmap, hxf]

/-! ### the C12 monitor's flag of a sink is "a file of that sink is open" -/

theorem get_obs (s : Sink) (m : M12s) (a : FAcc) (o : Obs) (h : m.get s = a.cur.isSome) :
    (M12s.obs m o).get s = (a.obs s o).cur.isSome := by
  obtain ⟨mo, co, te, fails⟩ := m
  obtain ⟨d, cu⟩ := a
  cases o with
  | call s' cl ok =>
    cases s <;> cases s' <;> cases cl <;> cases ok <;> cases mo <;> cases co <;> cases te <;> cases cu <;>
      simp_all [M12s.obs, M12s.get, M12s.set, FAcc.obs]
  | panic => exact h
  | md => exact h
  | rs => exact h
  | re => exact h

theorem get_fold (s : Sink) : ∀ (os : List Obs) (m : M12s) (a : FAcc), m.get s = a.cur.isSome →
    (os.foldl M12s.obs m).get s = (os.foldl (FAcc.obs s) a).cur.isSome := by
  intro os
  induction os with
  | nil => intro m a h; exact h
  | cons o os ih => intro m a h; exact ih _ _ (get_obs s m a o h)

theorem get_trace (s : Sink) : ∀ (tr : List Step) (m : M12s) (a : FAcc), m.get s = a.cur.isSome →
    (tr.foldl (fun m st => st.obs.foldl M12s.obs m) m).get s =
      (tr.foldl (fun a st => st.obs.foldl (FAcc.obs s) a) a).cur.isSome := by
  intro tr
  induction tr with
  | nil => intro m a h; exact h
  | cons st tr ih => intro m a h; exact ih _ _ (get_fold s st.obs m a h)

theorem start_not_open_k (s : Sink) (m : M12s) (a : FAcc) (hm : m.get s = a.cur.isSome)
    (hf : (M12s.obs m (.call s .start true)).fails = []) : a.cur = none := by
  cases hc : a.cur with
  | none => rfl
  | some r =>
    rw [hc] at hm
    simp only [Option.isSome_some] at hm
    exfalso
    obtain ⟨mo, co, te, fails⟩ := m
    cases s <;> simp_all [M12s.obs, M12s.get, M12s.set]

/-! ### one observation, applied to the files and to the accumulator -/

section obsSec
variable {F : FloatOps}

theorem kindOf_ne_motion {s : Sink} (hs : s ≠ .motion) : kindOf s ≠ .motion := by
  cases s with
  | motion => exact absurd rfl hs
  | const => intro h; cases h
  | test => intro h; cases h

theorem kindOf_inj {s s' : Sink} (h : kindOf s' = kindOf s) : s' = s := by
  cases s <;> cases s' <;> first | rfl | cases h

theorem applyObs_same_start (c : PipeCfg) (p : Pipe F) (s : Sink) (hs : s ≠ .motion) :
    Pipe.applyObs c p (.call s .start true) = Pipe.startFile c p (kindOf s) 0 := by
  cases s with
  | motion => exact absurd rfl hs
  | const => rfl
  | test => rfl

theorem applyObs_same_write (c : PipeCfg) (p : Pipe F) (s : Sink) (hs : s ≠ .motion) (id : Nat) (ok : Bool) :
    Pipe.applyObs c p (.call s (.write id) ok) = Pipe.writeFile p (kindOf s) id := by
  cases s with
  | motion => exact absurd rfl hs
  | const => cases ok <;> rfl
  | test => cases ok <;> rfl

theorem applyObs_same_stop (c : PipeCfg) (p : Pipe F) (s : Sink) (hs : s ≠ .motion) (ok : Bool) :
    Pipe.applyObs c p (.call s .stop ok) = Pipe.stopFile p (kindOf s) := by
  cases s with
  | motion => exact absurd rfl hs
  | const => cases ok <;> rfl
  | test => cases ok <;> rfl

theorem applyObs_same_can (c : PipeCfg) (p : Pipe F) (s : Sink) (hs : s ≠ .motion) (ok : Bool) :
    Pipe.applyObs c p (.call s .can ok) = p := by
  cases s with
  | motion => exact absurd rfl hs
  | const => cases ok <;> rfl
  | test => cases ok <;> rfl

theorem applyObs_same_start_fail (c : PipeCfg) (p : Pipe F) (s : Sink) (hs : s ≠ .motion) :
    Pipe.applyObs c p (.call s .start false) = p := by
  cases s with
  | motion => exact absurd rfl hs
  | const => rfl
  | test => rfl

/-- a call on another sink leaves the files of the kind of `s` alone (`s` the continuous or the test sink) -/
theorem applyObs_other_kf (c : PipeCfg) (p : Pipe F) (s s' : Sink) (hs : s ≠ .motion) (hne : s' ≠ s)
    (cl : Call) (ok : Bool) :
    kf (kindOf s) (Pipe.applyObs c p (.call s' cl ok)).files = kf (kindOf s) p.files := by
  have hk : kindOf s' ≠ kindOf s := fun h => hne (kindOf_inj h)
  by_cases hs' : s' = .motion
  · subst hs'
    cases ok with
    | false => cases cl <;> rfl
    | true => exact kf_motionCall c (kindOf s) (kindOf_ne_motion hs) p cl
  · cases cl with
    | can => rw [applyObs_same_can c p s' hs']
    | start =>
      cases ok with
      | false => rw [applyObs_same_start_fail c p s' hs']
      | true => rw [applyObs_same_start c p s' hs']; exact kf_start_other c p _ _ 0 hk
    | write id => rw [applyObs_same_write c p s' hs']; exact kf_write_other p _ _ id hk
    | stop => rw [applyObs_same_stop c p s' hs']; exact kf_stop_other p _ _ hk

theorem onSink_other {s s' : Sink} (hne : s' ≠ s) (cl : Call) (ok : Bool) : onSink s (.call s' cl ok) = false := by
  simp [onSink, hne]

/-- **one observation**: the files of the continuous (test) kind follow the accumulator of the continuous
(test) sink — throttle on or off -/
theorem krel_obs (c : PipeCfg) (s : Sink) (hs : s ≠ .motion) (p : Pipe F) (a : FAcc) (m : M12s) (o : Obs)
    (hm : m.get s = a.cur.isSome) (hf : (M12s.obs m o).fails = [])
    (h : KRel (kf (kindOf s) p.files) a) : KRel (kf (kindOf s) (Pipe.applyObs c p o).files) (a.obs s o) := by
  cases o with
  | md => exact h
  | rs => exact h
  | re => exact h
  | panic => exact h
  | call s' cl ok =>
    by_cases hne : s' = s
    · subst hne
      cases cl with
      | can =>
        have : a.obs s' (.call s' .can ok) = a := by cases ok <;> rfl
        rw [applyObs_same_can c p s' hs, this]
        exact h
      | start =>
        cases ok with
        | false =>
          rw [applyObs_same_start_fail c p s' hs]
          have : a.obs s' (.call s' .start false) = a := by simp [FAcc.obs]
          rw [this]; exact h
        | true =>
          rw [applyObs_same_start c p s' hs, facc_start]
          obtain ⟨x, _, hx2, hx3, hx4⟩ := kf_start_same c p (kindOf s') 0
          rw [hx4]
          exact krel_start _ a x (start_not_open_k s' m a hm hf) hx2 hx3 h
      | write id =>
        rw [applyObs_same_write c p s' hs, facc_write, kf_write_same]
        exact krel_write (kindOf s') _ a id (fun f hf => kf_kind hf) h
      | stop =>
        rw [applyObs_same_stop c p s' hs, facc_stop, kf_stop_same]
        exact krel_stop (kindOf s') _ a (fun f hf => kf_kind hf) h
    · rw [applyObs_other_kf c p s s' hs hne, facc_other s a _ (onSink_other hne cl ok)]
      exact h

theorem krel_fold (c : PipeCfg) (s : Sink) (hs : s ≠ .motion) :
    ∀ (os : List Obs) (p : Pipe F) (a : FAcc) (m : M12s),
    m.get s = a.cur.isSome → (os.foldl M12s.obs m).fails = [] → KRel (kf (kindOf s) p.files) a →
    KRel (kf (kindOf s) (os.foldl (Pipe.applyObs c) p).files) (os.foldl (FAcc.obs s) a) := by
  intro os
  induction os with
  | nil => intro p a m _ _ h; exact h
  | cons o os ih =>
    intro p a m hm hf h
    simp only [List.foldl_cons] at hf ⊢
    exact ih _ _ (M12s.obs m o) (get_obs s m a o hm) hf
      (krel_obs c s hs p a m o hm (m12s_fold_fails os _ hf) h)

end obsSec

/-! ## (C) the invariant along a history -/

theorem fileAcc_snoc (s : Sink) (tr : List Step) (st : Step) :
    fileAcc s (tr ++ [st]) = st.obs.foldl (FAcc.obs s) (fileAcc s tr) := by
  simp only [fileAcc_eq, List.foldl_append, List.foldl_cons, List.foldl_nil]

section inv
variable {F : FloatOps}

/-- the pipeline state is the one induced by `evs`, as far as the continuous and the test recorder go — no
hypothesis on the throttle -/
def PIK (c : PipeCfg) (p : Pipe F) (evs : List Ev) : Prop :=
  p.proc = PState.after c.proc (PState.init c.proc) evs ∧
  KRel (kf .const p.files) (fileAcc .const (PState.trace c.proc (PState.init c.proc) evs)) ∧
  KRel (kf .test p.files) (fileAcc .test (PState.trace c.proc (PState.init c.proc) evs)) ∧
  (evs.filter Ev.isFrame).length = p.accepted.length

theorem pik_withGates (c : PipeCfg) (g : GOp) (p : Pipe F) (evs : List Ev) :
    PIK (withGates c g) p evs ↔ PIK c p evs := Iff.rfl

theorem pik_init (c : PipeCfg) : PIK c (Pipe.init F c) [] := ⟨rfl, krel_init, krel_init, rfl⟩

theorem pik_op (c : PipeCfg) (hK : 0 < c.proc.K) (p : Pipe F) (evs : List Ev) (o : PipeOp)
    (h : PIK c p evs) : PIK c (Pipe.op c p o) (evs ++ [Pipe.evOfOp c p o]) := by
  obtain ⟨p₀, h0, _, hproc, hfiles, _, hacc⟩ := op_shape c p o
  obtain ⟨hp, hC, hT, hcount⟩ := h
  have h12 := c12_protocol_all c.proc hK (evs ++ [Pipe.evOfOp c p o])
  rw [trace_snoc, ← hp] at h12
  simp only [monC12, List.foldl_append, List.foldl_cons, List.foldl_nil] at h12
  refine ⟨?_, ?_, ?_, ?_⟩
  · rw [after_append, ← hp, hproc]; rfl
  · rw [trace_snoc, fileAcc_snoc, hfiles, ← hp]
    refine krel_fold c .const (by simp) _ p₀ _ _ ?_ h12 (by rw [h0]; exact hC)
    rw [fileAcc_eq]
    exact get_trace .const _ {} {} rfl
  · rw [trace_snoc, fileAcc_snoc, hfiles, ← hp]
    refine krel_fold c .test (by simp) _ p₀ _ _ ?_ h12 (by rw [h0]; exact hT)
    rw [fileAcc_eq]
    exact get_trace .test _ {} {} rfl
  · rw [List.filter_append, List.length_append, hcount, hacc]
    cases (Pipe.evOfOp c p o) <;> rfl

theorem pik_gop (c : PipeCfg) (hK : 0 < c.proc.K) (p : Pipe F) (evs : List Ev) (g : GOp) (h : PIK c p evs) :
    PIK c (Pipe.gop c p g) (evs ++ [Pipe.evOf c p g]) :=
  (pik_withGates c g _ _).mp (pik_op (withGates c g) hK p evs g.op ((pik_withGates c g p evs).mpr h))

theorem pik_fold (c : PipeCfg) (hK : 0 < c.proc.K) :
    ∀ (gs : List GOp) (p : Pipe F) (evs : List Ev), PIK c p evs →
      PIK c (gs.foldl (Pipe.gop c) p) (evs ++ evsFrom c p gs) := by
  intro gs
  induction gs with
  | nil => intro p evs h; simpa [evsFrom] using h
  | cons g gs ih =>
    intro p evs h
    have := ih _ _ (pik_gop c hK p evs g h)
    rw [List.append_assoc] at this
    exact this

/-- the invariant at the end of every history, throttle on or off -/
theorem pik_runG (c : PipeCfg) (hK : 0 < c.proc.K) (gs : List GOp) : PIK c (runG F c gs) (evsG F c gs) := by
  have := pik_fold c hK gs (Pipe.init F c) [] (pik_init c)
  simpa [runG, evsG] using this

/-- **the continuous files are the files of the continuous sink of the induced trace** -/
theorem constFiles_eq (c : PipeCfg) (hK : 0 < c.proc.K) (gs : List GOp) :
    constFiles (runG F c gs) = filesOf .const (PState.trace c.proc (PState.init c.proc) (evsG F c gs)) :=
  krel_files .const _ _ (pik_runG c hK gs).2.1

/-- **the test files are the files of the test sink of the induced trace** -/
theorem testFiles_eq (c : PipeCfg) (hK : 0 < c.proc.K) (gs : List GOp) :
    testFiles (runG F c gs) = filesOf .test (PState.trace c.proc (PState.init c.proc) (evsG F c gs)) :=
  krel_files .test _ _ (pik_runG c hK gs).2.2.1

end inv

/-! ## (D) processor level: what the continuous and the test sink depend on -/

section procDep
open PState

/-- the kind of an event: all that the continuous and the test recorder see of it -/
inductive EvKind | frame | bad | reset | testReq
  deriving DecidableEq, Repr

def evKind : Ev → EvKind
  | .frame _ _ => .frame
  | .bad _ => .bad
  | .reset _ => .reset
  | .testReq => .testReq

/-- no failure dictated on the continuous sink -/
def CClean (f : Faults) : Prop := f.cStart = true ∧ f.cWrite = true ∧ f.cStop = true
/-- no failure dictated on the test sink -/
def TClean (f : Faults) : Prop := f.tStart = true ∧ f.tWrite = true ∧ f.tStop = true

theorem cleanEv_split (e : Ev) (h : cleanEv e = true) : CClean e.faults ∧ TClean e.faults := by
  simp only [cleanEv, Bool.and_eq_true] at h
  obtain ⟨⟨⟨⟨⟨h1, h2⟩, h3⟩, h4⟩, h5⟩, h6⟩ := h
  exact ⟨⟨h1, h2, h3⟩, ⟨h4, h5, h6⟩⟩

/-- the part of the processor state the continuous recorder reads and writes -/
def CEq (s s' : PState) : Prop := s.n = s'.n ∧ s.crFrames = s'.crFrames
/-- the part of the processor state the test recorder reads and writes -/
def TEq (s s' : PState) : Prop :=
  s.n = s'.n ∧ s.startSnap = s'.startSnap ∧ s.snapRec = s'.snapRec ∧ s.snapFrames = s'.snapFrames

theorem pcr_dep (c : PCfg) (x x' : PState) (id : Nat) (f f' : Faults) (h : x.crFrames = x'.crFrames)
    (hf : CClean f) (hf' : CClean f') :
    (processConstantRecorder c x id f).2 = (processConstantRecorder c x' id f').2 ∧
    (processConstantRecorder c x id f).1.crFrames = (processConstantRecorder c x' id f').1.crFrames := by
  obtain ⟨a1, a2, a3⟩ := hf
  obtain ⟨b1, b2, b3⟩ := hf'
  simp only [processConstantRecorder, h, a1, a2, a3, b1, b2, b3]
  cases hc : c.constOn
  · simp [h]
  · by_cases k2 : x'.crFrames + 1 > c.maxF
    · simp [k2]
    · simp [k2]

theorem pcr_noTest (c : PCfg) (x : PState) (id : Nat) (f : Faults) :
    obsOf .test (processConstantRecorder c x id f).2 = [] := by
  simp only [processConstantRecorder]
  repeat' split
  all_goals simp [obsOf]

theorem psn_noConst (c : PCfg) (x : PState) (id : Nat) (f : Faults) :
    obsOf .const (processSnapshot c x id f).2 = [] := by
  simp only [processSnapshot]
  repeat' split
  all_goals simp [obsOf]

theorem psn_dep (c : PCfg) (x x' : PState) (id : Nat) (f f' : Faults)
    (h1 : x.startSnap = x'.startSnap) (h2 : x.snapRec = x'.snapRec) (h3 : x.snapFrames = x'.snapFrames)
    (hf : TClean f) (hf' : TClean f') :
    (processSnapshot c x id f).2 = (processSnapshot c x' id f').2 ∧
    (processSnapshot c x id f).1.startSnap = (processSnapshot c x' id f').1.startSnap ∧
    (processSnapshot c x id f).1.snapRec = (processSnapshot c x' id f').1.snapRec ∧
    (processSnapshot c x id f).1.snapFrames = (processSnapshot c x' id f').1.snapFrames := by
  obtain ⟨a1, a2, a3⟩ := hf
  obtain ⟨b1, b2, b3⟩ := hf'
  cases k0 : x'.startSnap <;> cases k1 : x'.snapRec <;> by_cases k2 : c.testLast < x'.snapFrames + 1 <;>
    simp [processSnapshot, h1, h2, h3, k0, k1, k2, a1, a2, a3, b1, b2, b3]

theorem scr_dep (c : PCfg) (x x' : PState) (f f' : Faults) (h : x.crFrames = x'.crFrames)
    (hf : CClean f) (hf' : CClean f') :
    (stopConstantRecorder c x f).2 = (stopConstantRecorder c x' f').2 ∧
    (stopConstantRecorder c x f).1.crFrames = (stopConstantRecorder c x' f').1.crFrames := by
  cases hc : c.constOn <;> simp [stopConstantRecorder, hc, h, hf.2.2, hf'.2.2]

/-- an accepted frame, seen from the continuous sink: `processConstantRecorder` on a state with the old
`crFrames` -/
theorem frame_const (c : PCfg) (s : PState) (m : Bool) (f : Faults) :
    ∃ x : PState, x.crFrames = s.crFrames ∧
      obsOf .const (processFrame c s m f).2 = obsOf .const (processConstantRecorder c x s.n f).2 ∧
      (processFrame c s m f).1.crFrames = (processConstantRecorder c x s.n f).1.crFrames := by
  refine ⟨(process c { s with ring := s.ring.write s.n } m f).1,
    (process_fields c { s with ring := s.ring.write s.n } m f).2.2.1, ?_, ?_⟩
  · rw [processFrame_eq]
    simp only [andThen_snd, andThen_fst, obsOf_append, (process_motOnly c _ m f).1, psn_noConst,
      List.nil_append, List.append_nil]
  · rw [processFrame_eq]
    simp only [andThen_fst]
    obtain ⟨a, b, k, hs⟩ := psn_shape c (processConstantRecorder c
      (process c { s with ring := s.ring.write s.n } m f).1 s.n f).1 s.n f
    rw [hs]

/-- an accepted frame, seen from the test sink: `processSnapshot` on a state with the old snapshot fields -/
theorem frame_test (c : PCfg) (s : PState) (m : Bool) (f : Faults) :
    ∃ x : PState, x.startSnap = s.startSnap ∧ x.snapRec = s.snapRec ∧ x.snapFrames = s.snapFrames ∧
      obsOf .test (processFrame c s m f).2 = obsOf .test (processSnapshot c x s.n f).2 ∧
      (processFrame c s m f).1.startSnap = (processSnapshot c x s.n f).1.startSnap ∧
      (processFrame c s m f).1.snapRec = (processSnapshot c x s.n f).1.snapRec ∧
      (processFrame c s m f).1.snapFrames = (processSnapshot c x s.n f).1.snapFrames := by
  obtain ⟨_, _, _, p4, p5, p6⟩ := process_fields c { s with ring := s.ring.write s.n } m f
  obtain ⟨k, hk⟩ := pcr_shape c (process c { s with ring := s.ring.write s.n } m f).1 s.n f
  refine ⟨(processConstantRecorder c (process c { s with ring := s.ring.write s.n } m f).1 s.n f).1,
    ?_, ?_, ?_, ?_, rfl, rfl, rfl⟩
  · rw [hk]; exact p4
  · rw [hk]; exact p5
  · rw [hk]; exact p6
  · rw [processFrame_eq]
    simp only [andThen_snd, andThen_fst, obsOf_append, (process_motOnly c _ m f).2.1, pcr_noTest,
      List.nil_append]

/-- **the calls on the continuous sink and the next `(n, crFrames)` are a function of `(n, crFrames)` and the
kind of the event** (no failure dictated on that sink) -/
theorem step_const_dep (c : PCfg) (s s' : PState) (e e' : Ev) (h : CEq s s') (hk : evKind e = evKind e')
    (hf : CClean e.faults) (hf' : CClean e'.faults) :
    CEq (PState.step c s e).1 (PState.step c s' e').1 ∧
    obsOf .const (PState.step c s e).2 = obsOf .const (PState.step c s' e').2 := by
  obtain ⟨hn, hcr⟩ := h
  cases e with
  | frame m f =>
    cases e' with
    | frame m' f' =>
      obtain ⟨x, hx, ho, hc⟩ := frame_const c s m f
      obtain ⟨x', hx', ho', hc'⟩ := frame_const c s' m' f'
      obtain ⟨d1, d2⟩ := pcr_dep c x x' s.n f f' (by rw [hx, hx', hcr]) hf hf'
      refine ⟨⟨?_, ?_⟩, ?_⟩
      · show (processFrame c s m f).1.n = (processFrame c s' m' f').1.n
        rw [(processFrame_fields c s m f).2, (processFrame_fields c s' m' f').2, hn]
      · show (processFrame c s m f).1.crFrames = (processFrame c s' m' f').1.crFrames
        rw [hc, hc', ← hn, d2]
      · show obsOf .const (processFrame c s m f).2 = obsOf .const (processFrame c s' m' f').2
        rw [ho, ho', ← hn, d1]
    | bad f' => cases hk
    | reset f' => cases hk
    | testReq => cases hk
  | bad f =>
    cases e' with
    | bad f' =>
      have a := stopRecording_fields { s with ring := s.ring.write garbage } f.mStop
      have a' := stopRecording_fields { s' with ring := s'.ring.write garbage } f'.mStop
      obtain ⟨d1, d2⟩ := scr_dep c (stopRecording { s with ring := s.ring.write garbage } f.mStop).1
        (stopRecording { s' with ring := s'.ring.write garbage } f'.mStop).1 f f'
        (by rw [a.2.2.2.1, a'.2.2.2.1]; exact hcr) hf hf'
      refine ⟨⟨?_, ?_⟩, ?_⟩
      · show (processBad c s f).1.n = (processBad c s' f').1.n
        rw [PipeLemmas.processBad_n, PipeLemmas.processBad_n, hn]
      · show (processBad c s f).1.crFrames = (processBad c s' f').1.crFrames
        simp only [processBad, andThen_fst]
        exact d2
      · show obsOf .const (processBad c s f).2 = obsOf .const (processBad c s' f').2
        simp only [processBad, andThen_snd, obsOf_append, (stopRecording_motOnly _ _).1, List.nil_append]
        rw [d1]
    | frame m' f' => cases hk
    | reset f' => cases hk
    | testReq => cases hk
  | reset f =>
    cases e' with
    | reset f' =>
      have a := stopRecording_fields s f.mStop
      have a' := stopRecording_fields s' f'.mStop
      refine ⟨⟨?_, ?_⟩, ?_⟩
      · show (s.stopRecording f.mStop).1.n = (s'.stopRecording f'.mStop).1.n
        rw [a.2.1, a'.2.1, hn]
      · show (s.stopRecording f.mStop).1.crFrames = (s'.stopRecording f'.mStop).1.crFrames
        rw [a.2.2.2.1, a'.2.2.2.1, hcr]
      · show obsOf .const (s.stopRecording f.mStop).2 = obsOf .const (s'.stopRecording f'.mStop).2
        rw [(stopRecording_motOnly _ _).1, (stopRecording_motOnly _ _).1]
    | frame m' f' => cases hk
    | bad f' => cases hk
    | testReq => cases hk
  | testReq =>
    cases e' with
    | testReq => exact ⟨⟨hn, hcr⟩, rfl⟩
    | frame m' f' => cases hk
    | bad f' => cases hk
    | reset f' => cases hk

/-- a test request is invisible to the continuous recorder -/
theorem step_const_req (c : PCfg) (s : PState) :
    CEq (PState.step c s .testReq).1 s ∧ (PState.step c s .testReq).2 = [] := ⟨⟨rfl, rfl⟩, rfl⟩

/-- **the calls on the test sink and the next snapshot fields are a function of `n`, the snapshot fields and
the kind of the event** (no failure dictated on that sink) -/
theorem step_test_dep (c : PCfg) (s s' : PState) (e e' : Ev) (h : TEq s s') (hk : evKind e = evKind e')
    (hf : TClean e.faults) (hf' : TClean e'.faults) :
    TEq (PState.step c s e).1 (PState.step c s' e').1 ∧
    obsOf .test (PState.step c s e).2 = obsOf .test (PState.step c s' e').2 := by
  obtain ⟨hn, h1, h2, h3⟩ := h
  cases e with
  | frame m f =>
    cases e' with
    | frame m' f' =>
      obtain ⟨x, x1, x2, x3, ho, y1, y2, y3⟩ := frame_test c s m f
      obtain ⟨x', x1', x2', x3', ho', y1', y2', y3'⟩ := frame_test c s' m' f'
      obtain ⟨d0, d1, d2, d3⟩ := psn_dep c x x' s.n f f' (by rw [x1, x1', h1]) (by rw [x2, x2', h2])
        (by rw [x3, x3', h3]) hf hf'
      refine ⟨⟨?_, ?_, ?_, ?_⟩, ?_⟩
      · show (processFrame c s m f).1.n = (processFrame c s' m' f').1.n
        rw [(processFrame_fields c s m f).2, (processFrame_fields c s' m' f').2, hn]
      · show (processFrame c s m f).1.startSnap = (processFrame c s' m' f').1.startSnap
        rw [y1, y1', ← hn, d1]
      · show (processFrame c s m f).1.snapRec = (processFrame c s' m' f').1.snapRec
        rw [y2, y2', ← hn, d2]
      · show (processFrame c s m f).1.snapFrames = (processFrame c s' m' f').1.snapFrames
        rw [y3, y3', ← hn, d3]
      · show obsOf .test (processFrame c s m f).2 = obsOf .test (processFrame c s' m' f').2
        rw [ho, ho', ← hn, d0]
    | bad f' => cases hk
    | reset f' => cases hk
    | testReq => cases hk
  | bad f =>
    cases e' with
    | bad f' =>
      have a := stopRecording_fields { s with ring := s.ring.write garbage } f.mStop
      have a' := stopRecording_fields { s' with ring := s'.ring.write garbage } f'.mStop
      obtain ⟨k, hk1⟩ := scr_shape c (stopRecording { s with ring := s.ring.write garbage } f.mStop).1 f
      obtain ⟨k', hk1'⟩ := scr_shape c (stopRecording { s' with ring := s'.ring.write garbage } f'.mStop).1 f'
      refine ⟨⟨?_, ?_, ?_, ?_⟩, ?_⟩
      · show (processBad c s f).1.n = (processBad c s' f').1.n
        rw [PipeLemmas.processBad_n, PipeLemmas.processBad_n, hn]
      · show (processBad c s f).1.startSnap = (processBad c s' f').1.startSnap
        simp only [processBad, andThen_fst]
        rw [hk1, hk1']
        show (stopRecording _ _).1.startSnap = (stopRecording _ _).1.startSnap
        rw [a.2.2.2.2.1, a'.2.2.2.2.1]; exact h1
      · show (processBad c s f).1.snapRec = (processBad c s' f').1.snapRec
        simp only [processBad, andThen_fst]
        rw [hk1, hk1']
        show (stopRecording _ _).1.snapRec = (stopRecording _ _).1.snapRec
        rw [a.2.2.2.2.2.1, a'.2.2.2.2.2.1]; exact h2
      · show (processBad c s f).1.snapFrames = (processBad c s' f').1.snapFrames
        simp only [processBad, andThen_fst]
        rw [hk1, hk1']
        show (stopRecording _ _).1.snapFrames = (stopRecording _ _).1.snapFrames
        rw [a.2.2.2.2.2.2, a'.2.2.2.2.2.2]; exact h3
      · show obsOf .test (processBad c s f).2 = obsOf .test (processBad c s' f').2
        simp only [processBad, andThen_snd, obsOf_append, (stopRecording_motOnly _ _).2.1, scr_noTest]
    | frame m' f' => cases hk
    | reset f' => cases hk
    | testReq => cases hk
  | reset f =>
    cases e' with
    | reset f' =>
      have a := stopRecording_fields s f.mStop
      have a' := stopRecording_fields s' f'.mStop
      refine ⟨⟨?_, ?_, ?_, ?_⟩, ?_⟩
      · show (s.stopRecording f.mStop).1.n = (s'.stopRecording f'.mStop).1.n
        rw [a.2.1, a'.2.1, hn]
      · show (s.stopRecording f.mStop).1.startSnap = (s'.stopRecording f'.mStop).1.startSnap
        rw [a.2.2.2.2.1, a'.2.2.2.2.1, h1]
      · show (s.stopRecording f.mStop).1.snapRec = (s'.stopRecording f'.mStop).1.snapRec
        rw [a.2.2.2.2.2.1, a'.2.2.2.2.2.1, h2]
      · show (s.stopRecording f.mStop).1.snapFrames = (s'.stopRecording f'.mStop).1.snapFrames
        rw [a.2.2.2.2.2.2, a'.2.2.2.2.2.2, h3]
      · show obsOf .test (s.stopRecording f.mStop).2 = obsOf .test (s'.stopRecording f'.mStop).2
        rw [(stopRecording_motOnly _ _).2.1, (stopRecording_motOnly _ _).2.1]
    | frame m' f' => cases hk
    | bad f' => cases hk
    | testReq => cases hk
  | testReq =>
    cases e' with
    | testReq => exact ⟨⟨hn, rfl, h2, h3⟩, rfl⟩
    | frame m' f' => cases hk
    | bad f' => cases hk
    | reset f' => cases hk

/-! ### whole traces -/

/-- the accumulator of sink `s` over a trace, started from `a` (`fileAcc s tr = accFrom s tr {}`) -/
def accFrom (s : Sink) (tr : List Step) (a : FAcc) : FAcc :=
  tr.foldl (fun a st => st.obs.foldl (FAcc.obs s) a) a

theorem fileAcc_accFrom (s : Sink) (tr : List Step) : fileAcc s tr = accFrom s tr {} := fileAcc_eq s tr

theorem accFrom_cons (s : Sink) (st : Step) (tr : List Step) (a : FAcc) :
    accFrom s (st :: tr) a = accFrom s tr ((obsOf s st.obs).foldl (FAcc.obs s) a) := by
  simp only [accFrom, List.foldl_cons, facc_fold_obsOf s st.obs a]

/-- an event that is not a test request -/
def notReq : Ev → Bool
  | .testReq => false
  | _ => true

theorem constAcc_shape (c : PCfg) : ∀ (evs evs' : List Ev) (s s' : PState) (a : FAcc), CEq s s' →
    evs.map evKind = evs'.map evKind → (∀ e ∈ evs, CClean e.faults) → (∀ e ∈ evs', CClean e.faults) →
    accFrom .const (PState.trace c s evs) a = accFrom .const (PState.trace c s' evs') a := by
  intro evs
  induction evs with
  | nil =>
    intro evs' s s' a _ hk _ _
    cases evs' with
    | nil => rfl
    | cons e' es' => cases hk
  | cons e es ih =>
    intro evs' s s' a h hk hf hf'
    cases evs' with
    | nil => cases hk
    | cons e' es' =>
      simp only [List.map_cons, List.cons.injEq] at hk
      obtain ⟨d1, d2⟩ := step_const_dep c s s' e e' h hk.1 (hf e (List.mem_cons_self ..))
        (hf' e' (List.mem_cons_self ..))
      simp only [PState.trace]
      rw [accFrom_cons, accFrom_cons]
      simp only
      rw [d2]
      exact ih es' _ _ _ d1 hk.2 (fun x hx => hf x (List.mem_cons_of_mem _ hx))
        (fun x hx => hf' x (List.mem_cons_of_mem _ hx))

theorem testAcc_shape (c : PCfg) : ∀ (evs evs' : List Ev) (s s' : PState) (a : FAcc), TEq s s' →
    evs.map evKind = evs'.map evKind → (∀ e ∈ evs, TClean e.faults) → (∀ e ∈ evs', TClean e.faults) →
    accFrom .test (PState.trace c s evs) a = accFrom .test (PState.trace c s' evs') a := by
  intro evs
  induction evs with
  | nil =>
    intro evs' s s' a _ hk _ _
    cases evs' with
    | nil => rfl
    | cons e' es' => cases hk
  | cons e es ih =>
    intro evs' s s' a h hk hf hf'
    cases evs' with
    | nil => cases hk
    | cons e' es' =>
      simp only [List.map_cons, List.cons.injEq] at hk
      obtain ⟨d1, d2⟩ := step_test_dep c s s' e e' h hk.1 (hf e (List.mem_cons_self ..))
        (hf' e' (List.mem_cons_self ..))
      simp only [PState.trace]
      rw [accFrom_cons, accFrom_cons]
      simp only
      rw [d2]
      exact ih es' _ _ _ d1 hk.2 (fun x hx => hf x (List.mem_cons_of_mem _ hx))
        (fun x hx => hf' x (List.mem_cons_of_mem _ hx))

/-- **test requests are invisible to the continuous recorder**: dropping them from the event list leaves the
accumulator of the continuous sink unchanged -/
theorem constAcc_dropReq (c : PCfg) : ∀ (evs : List Ev) (s s' : PState) (a : FAcc), CEq s s' →
    (∀ e ∈ evs, CClean e.faults) →
    accFrom .const (PState.trace c s evs) a = accFrom .const (PState.trace c s' (evs.filter notReq)) a := by
  intro evs
  induction evs with
  | nil => intro s s' a _ _; rfl
  | cons e es ih =>
    intro s s' a h hf
    have hf2 : ∀ x ∈ es, CClean x.faults := fun x hx => hf x (List.mem_cons_of_mem _ hx)
    cases e with
    | testReq =>
      have e1 : (Ev.testReq :: es).filter notReq = es.filter notReq := by simp [notReq]
      rw [e1]
      simp only [PState.trace]
      rw [accFrom_cons]
      exact ih _ s' _ ⟨h.1, h.2⟩ hf2
    | frame m f =>
      have e1 : (Ev.frame m f :: es).filter notReq = Ev.frame m f :: es.filter notReq := rfl
      have hc := hf _ (List.mem_cons_self ..)
      obtain ⟨d1, d2⟩ := step_const_dep c s s' (.frame m f) (.frame m f) h rfl hc hc
      rw [e1]
      simp only [PState.trace]
      rw [accFrom_cons, accFrom_cons]
      simp only
      rw [d2]
      exact ih _ _ _ d1 hf2
    | bad f =>
      have e1 : (Ev.bad f :: es).filter notReq = Ev.bad f :: es.filter notReq := rfl
      have hc := hf _ (List.mem_cons_self ..)
      obtain ⟨d1, d2⟩ := step_const_dep c s s' (.bad f) (.bad f) h rfl hc hc
      rw [e1]
      simp only [PState.trace]
      rw [accFrom_cons, accFrom_cons]
      simp only
      rw [d2]
      exact ih _ _ _ d1 hf2
    | reset f =>
      have e1 : (Ev.reset f :: es).filter notReq = Ev.reset f :: es.filter notReq := rfl
      have hc := hf _ (List.mem_cons_self ..)
      obtain ⟨d1, d2⟩ := step_const_dep c s s' (.reset f) (.reset f) h rfl hc hc
      rw [e1]
      simp only [PState.trace]
      rw [accFrom_cons, accFrom_cons]
      simp only
      rw [d2]
      exact ih _ _ _ d1 hf2

/-! ### `segments`, `testStarts`, the number of frames and the spacing read the kinds of the events only -/

theorem segAcc_trace (c : PCfg) (s : PState) (evs : List Ev) :
    segAcc (PState.trace c s evs) = evs.foldl SegAcc.step {} := by
  have h : ∀ (tr : List Step) (g : SegAcc),
      tr.foldl (fun g st => g.step st.ev) g = (tr.map (·.ev)).foldl SegAcc.step g := by
    intro tr
    induction tr with
    | nil => intro g; rfl
    | cons st tr ih => intro g; simp only [List.foldl_cons, List.map_cons, ih]
  rw [segAcc, h, trace_evs]

theorem segFold_dropReq : ∀ (evs : List Ev) (g : SegAcc),
    evs.foldl SegAcc.step g = (evs.filter notReq).foldl SegAcc.step g := by
  intro evs
  induction evs with
  | nil => intro g; rfl
  | cons e es ih =>
    intro g
    cases e with
    | testReq =>
      have e1 : (Ev.testReq :: es).filter notReq = es.filter notReq := by simp [notReq]
      rw [e1, List.foldl_cons]
      exact ih _
    | frame m f => simp only [List.filter_cons, notReq, if_true, List.foldl_cons, ih]
    | bad f => simp only [List.filter_cons, notReq, if_true, List.foldl_cons, ih]
    | reset f => simp only [List.filter_cons, notReq, if_true, List.foldl_cons, ih]

/-- the segments do not see test requests -/
theorem segments_dropReq (c : PCfg) (s s' : PState) (evs : List Ev) :
    segments (PState.trace c s evs) = segments (PState.trace c s' (evs.filter notReq)) := by
  simp only [segments, segAcc_trace, ← segFold_dropReq]

theorem segFold_kinds : ∀ (evs evs' : List Ev) (g : SegAcc), evs.map evKind = evs'.map evKind →
    evs.foldl SegAcc.step g = evs'.foldl SegAcc.step g := by
  intro evs
  induction evs with
  | nil =>
    intro evs' g hk
    cases evs' with
    | nil => rfl
    | cons e' es' => cases hk
  | cons e es ih =>
    intro evs' g hk
    cases evs' with
    | nil => cases hk
    | cons e' es' =>
      simp only [List.map_cons, List.cons.injEq] at hk
      simp only [List.foldl_cons]
      have : g.step e = g.step e' := by
        cases e <;> cases e' <;> first | rfl | exact absurd hk.1 (by simp [evKind])
      rw [this]
      exact ih es' _ hk.2

/-- the segments are a function of the kinds of the events -/
theorem segments_kinds (c : PCfg) (s s' : PState) (evs evs' : List Ev) (hk : evs.map evKind = evs'.map evKind) :
    segments (PState.trace c s evs) = segments (PState.trace c s' evs') := by
  simp only [segments, segAcc_trace, segFold_kinds evs evs' _ hk]

theorem frames_dropReq (evs : List Ev) : (evs.filter notReq).filter Ev.isFrame = evs.filter Ev.isFrame := by
  rw [List.filter_filter]
  congr 1
  funext e
  cases e <;> rfl

/-- `spacedFrom` on the kinds of the events -/
def spacedK (k : Nat) : Option Nat → List EvKind → Bool
  | _, [] => true
  | s, .testReq :: es => (match s with | none => true | some j => decide (k ≤ j)) && spacedK k (some 0) es
  | s, .frame :: es => spacedK k (s.map (· + 1)) es
  | s, _ :: es => spacedK k s es

theorem spacedFrom_kinds (k : Nat) : ∀ (evs : List Ev) (s : Option Nat),
    spacedFrom k s evs = spacedK k s (evs.map evKind) := by
  intro evs
  induction evs with
  | nil => intro s; rfl
  | cons e es ih =>
    intro s
    cases e with
    | testReq =>
      simp only [List.map_cons, evKind, spacedFrom, spacedK, ih]
      cases s <;> rfl
    | frame m f => simp only [List.map_cons, evKind, spacedFrom, spacedK, ih]
    | bad f => simp only [List.map_cons, evKind, spacedFrom, spacedK, ih]
    | reset f => simp only [List.map_cons, evKind, spacedFrom, spacedK, ih]

theorem spacedFrom_noReq (k : Nat) : ∀ (evs : List Ev) (s : Option Nat), (∀ e ∈ evs, notReq e = true) →
    spacedFrom k s evs = true := by
  intro evs
  induction evs with
  | nil => intro s _; rfl
  | cons e es ih =>
    intro s h
    have h2 : ∀ x ∈ es, notReq x = true := fun x hx => h x (List.mem_cons_of_mem _ hx)
    cases e with
    | testReq => exact absurd (h _ (List.mem_cons_self ..)) (by simp [notReq])
    | frame m f => simp only [spacedFrom]; exact ih _ h2
    | bad f => simp only [spacedFrom]; exact ih _ h2
    | reset f => simp only [spacedFrom]; exact ih _ h2

end procDep

/-! ## (E) the induced events of a history: kinds and cleanliness -/

section induced
variable {F : FloatOps}

/-- the kind of the event a pipeline op induces: it depends on the op (and the parser) only — not on the gates,
not on the detector, not on the state -/
def opKind (c : PipeCfg) : PipeOp → EvKind
  | .testReq => .testReq
  | .item .clear => .reset
  | .item (.frame bytes) =>
    match parseItem c bytes with
    | .bad _ _ => .bad
    | .ok _ _ => .frame

theorem evOf_kind (c : PipeCfg) (p : Pipe F) (g : GOp) : evKind (Pipe.evOf c p g) = opKind c g.op := by
  rcases evOf_cases c p g with ⟨h1, h2⟩ | ⟨h1, h2⟩ | ⟨bytes, y, x, h1, hp, h2⟩ | ⟨bytes, pix, tel, h1, hp, h2⟩
  · rw [h1, h2]; rfl
  · rw [h1, h2]; rfl
  · rw [h1, h2]; simp only [opKind, hp, evKind]
  · rw [h1, h2]; simp only [opKind, hp, evKind]

/-- **under the pipeline's fault record every induced event is `cleanEv`**: the window and the disk gate are
the only things that vary, every call on the continuous and the test sink succeeds -/
theorem evOf_clean (c : PipeCfg) (p : Pipe F) (g : GOp) : cleanEv (Pipe.evOf c p g) = true := by
  rcases evOf_cases c p g with ⟨_, h2⟩ | ⟨_, h2⟩ | ⟨_, _, _, _, _, h2⟩ | ⟨_, _, _, _, _, h2⟩ <;>
    rw [h2] <;> rfl

theorem evsFrom_kinds (c : PipeCfg) : ∀ (gs : List GOp) (p : Pipe F),
    (evsFrom c p gs).map evKind = gs.map (fun g => opKind c g.op) := by
  intro gs
  induction gs with
  | nil => intro p; rfl
  | cons g gs ih => intro p; simp only [evsFrom, List.map_cons, evOf_kind, ih]

theorem evsFrom_clean (c : PipeCfg) : ∀ (gs : List GOp) (p : Pipe F), ∀ e ∈ evsFrom c p gs, cleanEv e = true := by
  intro gs
  induction gs with
  | nil => intro p e he; cases he
  | cons g gs ih =>
    intro p e he
    simp only [evsFrom, List.mem_cons] at he
    rcases he with rfl | he
    · exact evOf_clean c p g
    · exact ih _ e he

theorem evsG_kinds (c : PipeCfg) (gs : List GOp) :
    (evsG F c gs).map evKind = gs.map (fun g => opKind c g.op) := evsFrom_kinds c gs _

theorem evsG_clean (c : PipeCfg) (gs : List GOp) : ∀ e ∈ evsG F c gs, cleanEv e = true := evsFrom_clean c gs _

/-- two histories with the same ops induce events of the same kinds, whatever the gates -/
theorem evsG_kinds_of_ops (c : PipeCfg) (gs gs' : List GOp) (h : gs.map (·.op) = gs'.map (·.op)) :
    (evsG F c gs).map evKind = (evsG F c gs').map evKind := by
  rw [evsG_kinds, evsG_kinds]
  have : ∀ l : List GOp, l.map (fun g => opKind c g.op) = (l.map (·.op)).map (opKind c) := by
    intro l; rw [List.map_map]; rfl
  rw [this, this, h]

/-! ### segments and test starts, read off the ops of the history -/

/-- `SegAcc.step` on the kind of an event -/
def segStepK (g : SegAcc) : EvKind → SegAcc
  | .frame => { g with n := g.n + 1, cur := g.cur ++ [g.n] }
  | .bad => { g with done := g.done ++ [g.cur], cur := [] }
  | _ => g

/-- `TAcc.step` on the kind of an event -/
def tStepK (t : TAcc) : EvKind → TAcc
  | .frame => { n := t.n + 1, pending := false, starts := t.starts ++ (if t.pending then [t.n] else []) }
  | .testReq => { t with pending := true }
  | _ => t

theorem segFoldK : ∀ (evs : List Ev) (g : SegAcc),
    evs.foldl SegAcc.step g = (evs.map evKind).foldl segStepK g := by
  intro evs
  induction evs with
  | nil => intro g; rfl
  | cons e es ih =>
    intro g
    simp only [List.foldl_cons, List.map_cons, ih]
    cases e <;> rfl

theorem tFoldK : ∀ (evs : List Ev) (t : TAcc), evs.foldl TAcc.step t = (evs.map evKind).foldl tStepK t := by
  intro evs
  induction evs with
  | nil => intro t; rfl
  | cons e es ih =>
    intro t
    simp only [List.foldl_cons, List.map_cons, ih]
    cases e <;> rfl

theorem tAcc_trace (c : PCfg) (s : PState) (evs : List Ev) :
    tAcc (PState.trace c s evs) = evs.foldl TAcc.step {} := by
  have h : ∀ (tr : List Step) (t : TAcc),
      tr.foldl (fun t st => t.step st.ev) t = (tr.map (·.ev)).foldl TAcc.step t := by
    intro tr
    induction tr with
    | nil => intro t; rfl
    | cons st tr ih => intro t; simp only [List.foldl_cons, List.map_cons, ih]
  rw [tAcc, h, trace_evs]

/-- the kinds of the events a history induces -/
def opKinds (c : PipeCfg) (gs : List GOp) : List EvKind := gs.map (fun g => opKind c g.op)

/-- the accepted-frame ids of a history cut at the rejected frames — read off the ops alone -/
def opSegments (c : PipeCfg) (gs : List GOp) : List (List Nat) :=
  ((opKinds c gs).foldl segStepK {}).done ++ [((opKinds c gs).foldl segStepK {}).cur]

/-- the ids of the accepted frames that are the first accepted frame after a test request — read off the ops
alone -/
def reqStarts (c : PipeCfg) (gs : List GOp) : List Nat := ((opKinds c gs).foldl tStepK {}).starts

/-- between two test requests of the history at least `k` frames are accepted — read off the ops alone -/
def reqsSpacedG (c : PipeCfg) (k : Nat) (gs : List GOp) : Bool := spacedK k none (opKinds c gs)

theorem segments_evsG (c : PipeCfg) (s : PState) (gs : List GOp) :
    segments (PState.trace c.proc s (evsG F c gs)) = opSegments c gs := by
  simp only [segments, segAcc_trace, segFoldK, evsG_kinds, opSegments, opKinds]

theorem testStarts_evsG (c : PipeCfg) (s : PState) (gs : List GOp) :
    testStarts (PState.trace c.proc s (evsG F c gs)) = reqStarts c gs := by
  simp only [testStarts, tAcc_trace, tFoldK, evsG_kinds, reqStarts, opKinds]

theorem spaced_evsG (c : PipeCfg) (k : Nat) (gs : List GOp) :
    spacedFrom k none (evsG F c gs) = reqsSpacedG c k gs := by
  rw [spacedFrom_kinds, evsG_kinds]; rfl

/-! ### finished files of a kind -/

/-- frame-id lists of the files of kind `k` that were closed by `StopRecording`, oldest first -/
def closedFilesOfKind (k : FileKind) (p : Pipe F) : List (List Nat) :=
  (p.files.reverse.filter (fun f => f.kind == k && f.closed)).map (·.frames)

theorem krel_closed (k : FileKind) (p : Pipe F) (a : FAcc) (h : KRel (kf k p.files) a) :
    closedFilesOfKind k p = a.done := by
  obtain ⟨rest, hcl, hmap, hcur⟩ := h
  have e : closedFilesOfKind k p = ((((kf k p.files).filter (·.closed))).map (·.frames)).reverse := by
    simp only [closedFilesOfKind, kf, List.filter_reverse, List.map_reverse, List.filter_filter]
    congr 3
    funext f
    exact Bool.and_comm _ _
  have hrest : rest.filter (·.closed) = rest := List.filter_eq_self.mpr hcl
  rw [e]
  cases hc : a.cur with
  | none =>
    rw [hc] at hcur
    simp only at hcur
    rw [hcur, hrest, hmap, List.reverse_reverse]
  | some r =>
    rw [hc] at hcur
    obtain ⟨x, hx, hxc, _⟩ := hcur
    rw [hx, List.filter_cons_of_neg (by simp [hxc]), hrest, hmap, List.reverse_reverse]

/-- the finished test files are the closed files of the test sink of the induced trace -/
theorem closedTestFiles_eq (c : PipeCfg) (hK : 0 < c.proc.K) (gs : List GOp) :
    closedFilesOfKind .test (runG F c gs) =
      closedFilesOf .test (PState.trace c.proc (PState.init c.proc) (evsG F c gs)) :=
  krel_closed .test _ _ (pik_runG c hK gs).2.2.1

theorem closedConstFiles_eq (c : PipeCfg) (hK : 0 < c.proc.K) (gs : List GOp) :
    closedFilesOfKind .const (runG F c gs) =
      closedFilesOf .const (PState.trace c.proc (PState.init c.proc) (evsG F c gs)) :=
  krel_closed .const _ _ (pik_runG c hK gs).2.1

end induced

/-! ## (F) test requests disturb nothing but the test files -/

section snap
open PState

/-- the observations that are not calls on the test sink -/
def nonTest (obs : List Obs) : List Obs := obs.filter (fun o => !onSink .test o)

theorem nonTest_append (a b : List Obs) : nonTest (a ++ b) = nonTest a ++ nonTest b := by
  simp [nonTest]

/-- overwrite the three snapshot fields -/
def setSnap (s : PState) (a b : Bool) (k : Nat) : PState :=
  { s with startSnap := a, snapRec := b, snapFrames := k }

theorem setSnap_setSnap (s : PState) (a b : Bool) (k : Nat) (a' b' : Bool) (k' : Nat) :
    setSnap (setSnap s a b k) a' b' k' = setSnap s a' b' k' := rfl

/-- equal up to the three snapshot fields -/
def SnapEq (s s' : PState) : Prop := ∃ a b k, s' = setSnap s a b k

theorem snapEq_refl (s : PState) : SnapEq s s := ⟨s.startSnap, s.snapRec, s.snapFrames, rfl⟩

theorem pDetect_snap (c : PCfg) (s : PState) (m : Bool) (f : Faults) (a b : Bool) (k : Nat) :
    pDetect c (setSnap s a b k) m f =
      ((setSnap (pDetect c s m f).1.1 a b k, (pDetect c s m f).1.2), (pDetect c s m f).2) := by
  unfold pDetect setSnap
  simp only
  repeat' split
  all_goals rfl

theorem pWrite_snap (id j : Nat) (f : Faults) (s : PState) (a b : Bool) (k : Nat) :
    pWrite id j f (setSnap s a b k) = (setSnap (pWrite id j f s).1 a b k, (pWrite id j f s).2) := by
  unfold pWrite setSnap
  simp only
  split <;> rfl

theorem stopRecording_snap (s : PState) (ok : Bool) (a b : Bool) (k : Nat) :
    stopRecording (setSnap s a b k) ok = (setSnap (stopRecording s ok).1 a b k, (stopRecording s ok).2) := by
  unfold stopRecording setSnap
  simp only
  split <;> rfl

theorem pStop_snap (f : Faults) (s : PState) (a b : Bool) (k : Nat) :
    pStop f (setSnap s a b k) = (setSnap (pStop f s).1 a b k, (pStop f s).2) := by
  unfold pStop
  have e : ({ setSnap s a b k with ring := (setSnap s a b k).ring.move } : PState) =
      setSnap { s with ring := s.ring.move } a b k := rfl
  have e1 : (setSnap s a b k).isRec = s.isRec := rfl
  have e2 : (setSnap s a b k).framesWritten = s.framesWritten := rfl
  have e3 : (setSnap s a b k).writeUntil = s.writeUntil := rfl
  rw [e, e1, e2, e3]
  split
  · exact stopRecording_snap { s with ring := s.ring.move } f.mStop a b k
  · rfl

/-- `process` neither reads nor writes the snapshot fields -/
theorem process_snap (c : PCfg) (s : PState) (m : Bool) (f : Faults) (a b : Bool) (k : Nat) :
    process c (setSnap s a b k) m f = (setSnap (process c s m f).1 a b k, (process c s m f).2) := by
  rw [process_eq, process_eq, pDetect_snap c s m f a b k]
  have en : (setSnap s a b k).n = s.n := rfl
  rw [en]
  simp only [andThen]
  rw [pWrite_snap, pStop_snap]

theorem pcr_snap (c : PCfg) (s : PState) (id : Nat) (f : Faults) (a b : Bool) (k : Nat) :
    processConstantRecorder c (setSnap s a b k) id f =
      (setSnap (processConstantRecorder c s id f).1 a b k, (processConstantRecorder c s id f).2) := by
  unfold setSnap
  simp only [processConstantRecorder]
  repeat' split
  all_goals rfl

theorem scr_snap (c : PCfg) (s : PState) (f : Faults) (a b : Bool) (k : Nat) :
    stopConstantRecorder c (setSnap s a b k) f =
      (setSnap (stopConstantRecorder c s f).1 a b k, (stopConstantRecorder c s f).2) := by
  unfold setSnap
  simp only [stopConstantRecorder]
  split <;> rfl

theorem psn_nonTest (c : PCfg) (x : PState) (id : Nat) (f : Faults) :
    nonTest (processSnapshot c x id f).2 = [] := by
  simp only [processSnapshot]
  repeat' split
  all_goals simp [nonTest, onSink]

theorem psn_setSnap (c : PCfg) (x : PState) (id : Nat) (f : Faults) :
    ∃ a b k, (processSnapshot c x id f).1 = setSnap x a b k := psn_shape c x id f

/-- overwrite the frame counter -/
def setN (s : PState) (n : Nat) : PState := { s with n := n }

theorem setN_setSnap (s : PState) (a b : Bool) (k n : Nat) : setN (setSnap s a b k) n = setSnap (setN s n) a b k := rfl

theorem processFrame_pieces (c : PCfg) (s : PState) (m : Bool) (f : Faults) :
    processFrame c s m f =
      (setN (processSnapshot c (processConstantRecorder c
          (process c { s with ring := s.ring.write s.n } m f).1 s.n f).1 s.n f).1 (s.n + 1),
        (process c { s with ring := s.ring.write s.n } m f).2 ++
        (processConstantRecorder c (process c { s with ring := s.ring.write s.n } m f).1 s.n f).2 ++
        (processSnapshot c (processConstantRecorder c
          (process c { s with ring := s.ring.write s.n } m f).1 s.n f).1 s.n f).2) := rfl

theorem processFrame_snap (c : PCfg) (s : PState) (m : Bool) (f : Faults) (a b : Bool) (k : Nat) :
    SnapEq (processFrame c s m f).1 (processFrame c (setSnap s a b k) m f).1 ∧
    nonTest (processFrame c (setSnap s a b k) m f).2 = nonTest (processFrame c s m f).2 := by
  rw [processFrame_pieces, processFrame_pieces]
  have e0 : ({ setSnap s a b k with ring := (setSnap s a b k).ring.write (setSnap s a b k).n } : PState) =
      setSnap { s with ring := s.ring.write s.n } a b k := rfl
  have en : (setSnap s a b k).n = s.n := rfl
  rw [e0, en, process_snap c _ m f a b k]
  generalize process c { s with ring := s.ring.write s.n } m f = P
  simp only
  rw [pcr_snap c P.1 s.n f a b k]
  generalize processConstantRecorder c P.1 s.n f = Q
  simp only
  obtain ⟨a1, b1, k1, h1⟩ := psn_setSnap c Q.1 s.n f
  obtain ⟨a2, b2, k2, h2⟩ := psn_setSnap c (setSnap Q.1 a b k) s.n f
  refine ⟨?_, ?_⟩
  · rw [h1, h2, setSnap_setSnap, setN_setSnap, setN_setSnap]
    exact ⟨a2, b2, k2, rfl⟩
  · simp only [nonTest_append, psn_nonTest, List.append_nil]

/-- **one event that is not a test request**: from two states that differ in the snapshot fields only, the
results differ in the snapshot fields only and the observations differ in calls on the test sink only -/
theorem step_snap_dep (c : PCfg) (s s' : PState) (e : Ev) (h : SnapEq s s') :
    SnapEq (PState.step c s e).1 (PState.step c s' e).1 ∧
    nonTest (PState.step c s' e).2 = nonTest (PState.step c s e).2 := by
  obtain ⟨a, b, k, rfl⟩ := h
  cases e with
  | frame m f => exact processFrame_snap c s m f a b k
  | bad f =>
    show SnapEq (processBad c s f).1 (processBad c _ f).1 ∧
      nonTest (processBad c _ f).2 = nonTest (processBad c s f).2
    simp only [processBad, andThen_fst, andThen_snd]
    have e0 : ({ setSnap s a b k with ring := (setSnap s a b k).ring.write garbage } : PState) =
        setSnap { s with ring := s.ring.write garbage } a b k := rfl
    rw [e0, stopRecording_snap _ _ a b k]
    simp only
    rw [scr_snap c _ f a b k]
    exact ⟨⟨a, b, k, rfl⟩, rfl⟩
  | reset f =>
    show SnapEq (s.stopRecording f.mStop).1 (stopRecording _ f.mStop).1 ∧
      nonTest (stopRecording _ f.mStop).2 = nonTest (s.stopRecording f.mStop).2
    rw [stopRecording_snap s _ a b k]
    exact ⟨⟨a, b, k, rfl⟩, rfl⟩
  | testReq => exact ⟨⟨true, b, k, rfl⟩, rfl⟩

/-- a test request changes the snapshot fields only and calls nothing -/
theorem step_req_snap (c : PCfg) (s s' : PState) (h : SnapEq s s') :
    SnapEq s (PState.step c s' .testReq).1 := by
  obtain ⟨a, b, k, rfl⟩ := h
  exact ⟨true, b, k, rfl⟩

end snap

/-! ### the pipeline state minus the processor and the test files -/

section sim
variable {F : FloatOps}

/-- the files that are not test recordings, newest first -/
def nt (fs : List RecFile) : List RecFile := fs.filter (fun f => f.kind != .test)

/-- everything of a pipeline state except the processor state and the test files: detector, throttle, stored
threshold, accepted frames, counters, and the motion and continuous files with their headers, in start order -/
def view (p : Pipe F) : Det F × TState × Nat × List Accepted × Nat × Nat × List RecFile :=
  (p.det, p.thr, p.threshOfStart, p.accepted, p.badFrames, p.resets, nt p.files)

theorem view_ext {p p' : Pipe F} (h1 : p.det = p'.det) (h2 : p.thr = p'.thr)
    (h3 : p.threshOfStart = p'.threshOfStart) (h4 : p.accepted = p'.accepted) (h5 : p.badFrames = p'.badFrames)
    (h6 : p.resets = p'.resets) (h7 : nt p.files = nt p'.files) : view p = view p' := by
  simp only [view, h1, h2, h3, h4, h5, h6, h7]

theorem view_fields {p p' : Pipe F} (h : view p = view p') :
    p.det = p'.det ∧ p.thr = p'.thr ∧ p.threshOfStart = p'.threshOfStart ∧ p.accepted = p'.accepted ∧
    p.badFrames = p'.badFrames ∧ p.resets = p'.resets ∧ nt p.files = nt p'.files := by
  simpa only [view, Prod.mk.injEq] using h

theorem nt_cons_keep (x : RecFile) (fs : List RecFile) (h : x.kind ≠ .test) : nt (x :: fs) = x :: nt fs := by
  simp [nt, h]

theorem nt_cons_drop (x : RecFile) (fs : List RecFile) (h : x.kind = .test) : nt (x :: fs) = nt fs := by
  simp [nt, h]

theorem updOpen_nt_test (fs : List RecFile) (u : RecFile → RecFile) (hu : ∀ x, (u x).kind = x.kind) :
    nt (Pipe.updOpen fs .test u) = nt fs := by
  induction fs with
  | nil => rfl
  | cons x xs ih =>
    simp only [Pipe.updOpen]
    split
    · next h =>
      simp only [Bool.and_eq_true, beq_iff_eq] at h
      rw [nt_cons_drop _ _ (by rw [hu]; exact h.1), nt_cons_drop _ _ h.1]
    · by_cases hx : x.kind = .test
      · rw [nt_cons_drop _ _ hx, nt_cons_drop _ _ hx, ih]
      · rw [nt_cons_keep _ _ hx, nt_cons_keep _ _ hx, ih]

theorem updOpen_nt_other (k : FileKind) (hk : k ≠ .test) (fs : List RecFile) (u : RecFile → RecFile)
    (hu : ∀ x, (u x).kind = x.kind) : nt (Pipe.updOpen fs k u) = Pipe.updOpen (nt fs) k u := by
  induction fs with
  | nil => rfl
  | cons x xs ih =>
    simp only [Pipe.updOpen]
    split
    · next h =>
      have h' := h
      simp only [Bool.and_eq_true, beq_iff_eq] at h'
      have hx : x.kind ≠ .test := by rw [h'.1]; exact hk
      rw [nt_cons_keep _ _ (by rw [hu]; exact hx), nt_cons_keep _ _ hx]
      simp only [Pipe.updOpen, h, if_true]
    · next h =>
      by_cases hx : x.kind = .test
      · rw [nt_cons_drop _ _ hx, nt_cons_drop _ _ hx, ih]
      · rw [nt_cons_keep _ _ hx, nt_cons_keep _ _ hx, ih]
        simp only [Pipe.updOpen, h, Bool.false_eq_true, if_false]

/-- the files of a kind other than test are among the non-test files -/
theorem kf_nt (k : FileKind) (hk : k ≠ .test) (fs : List RecFile) : kf k (nt fs) = kf k fs := by
  simp only [kf, nt, List.filter_filter]
  congr 1
  funext f
  by_cases h : f.kind = k
  · simp [h, hk]
  · simp [h]

/-! #### operations on the test files do not show in the view -/

theorem vA_start (c : PipeCfg) (p : Pipe F) (t : Nat) : view (Pipe.startFile c p .test t) = view p :=
  view_ext rfl rfl rfl rfl rfl rfl (nt_cons_drop _ _ rfl)

theorem vA_write (p : Pipe F) (id : Nat) : view (Pipe.writeFile p .test id) = view p :=
  view_ext rfl rfl rfl rfl rfl rfl (updOpen_nt_test p.files _ (fun _ => rfl))

theorem vA_stop (p : Pipe F) : view (Pipe.stopFile p .test) = view p :=
  view_ext rfl rfl rfl rfl rfl rfl (updOpen_nt_test p.files _ (fun _ => rfl))

/-- a call on the test sink does not show in the view -/
theorem vA_obs (c : PipeCfg) (p : Pipe F) (cl : Call) (ok : Bool) :
    view (Pipe.applyObs c p (.call .test cl ok)) = view p := by
  cases cl with
  | can => cases ok <;> rfl
  | start =>
    cases ok with
    | false => rfl
    | true => exact vA_start c p 0
  | write id => cases ok <;> exact vA_write p id
  | stop => cases ok <;> exact vA_stop p

/-! #### every other operation acts on the view -/

theorem vB_start (c : PipeCfg) (p p' : Pipe F) (k : FileKind) (hk : k ≠ .test) (t : Nat) (h : view p = view p') :
    view (Pipe.startFile c p k t) = view (Pipe.startFile c p' k t) := by
  obtain ⟨h1, h2, h3, h4, h5, h6, h7⟩ := view_fields h
  refine view_ext h1 h2 h3 h4 h5 h6 ?_
  show nt (_ :: p.files) = nt (_ :: p'.files)
  rw [nt_cons_keep _ _ hk, nt_cons_keep _ _ hk, h7, h1]

theorem vB_write (p p' : Pipe F) (k : FileKind) (hk : k ≠ .test) (id : Nat) (h : view p = view p') :
    view (Pipe.writeFile p k id) = view (Pipe.writeFile p' k id) := by
  obtain ⟨h1, h2, h3, h4, h5, h6, h7⟩ := view_fields h
  refine view_ext h1 h2 h3 h4 h5 h6 ?_
  have e := updOpen_nt_other k hk p.files (fun f => { f with frames := f.frames ++ [id] }) (fun _ => rfl)
  have e' := updOpen_nt_other k hk p'.files (fun f => { f with frames := f.frames ++ [id] }) (fun _ => rfl)
  show nt (Pipe.updOpen p.files k _) = nt (Pipe.updOpen p'.files k _)
  rw [e, e', h7]

theorem vB_stop (p p' : Pipe F) (k : FileKind) (hk : k ≠ .test) (h : view p = view p') :
    view (Pipe.stopFile p k) = view (Pipe.stopFile p' k) := by
  obtain ⟨h1, h2, h3, h4, h5, h6, h7⟩ := view_fields h
  refine view_ext h1 h2 h3 h4 h5 h6 ?_
  have e := updOpen_nt_other k hk p.files (fun f => { f with closed := true }) (fun _ => rfl)
  have e' := updOpen_nt_other k hk p'.files (fun f => { f with closed := true }) (fun _ => rfl)
  show nt (Pipe.updOpen p.files k _) = nt (Pipe.updOpen p'.files k _)
  rw [e, e', h7]

theorem vB_thr (p p' : Pipe F) (t : TState) (h : view p = view p') :
    view { p with thr := t } = view { p' with thr := t } := by
  obtain ⟨h1, _, h3, h4, h5, h6, h7⟩ := view_fields h
  exact view_ext h1 rfl h3 h4 h5 h6 h7

theorem vB_tos (p p' : Pipe F) (n : Nat) (h : view p = view p') :
    view { p with threshOfStart := n } = view { p' with threshOfStart := n } := by
  obtain ⟨h1, h2, _, h4, h5, h6, h7⟩ := view_fields h
  exact view_ext h1 h2 rfl h4 h5 h6 h7

theorem vB_tobs (c : PipeCfg) (p p' : Pipe F) (t : TObs) (h : view p = view p') :
    view (Pipe.applyTObs c p t) = view (Pipe.applyTObs c p' t) := by
  cases t with
  | bStart tag ok =>
    show view (Pipe.startFile c p .motion p.threshOfStart) = view (Pipe.startFile c p' .motion p'.threshOfStart)
    rw [← (view_fields h).2.2.1]
    exact vB_start c p p' .motion (by simp) _ h
  | bWrite id ok => exact vB_write p p' .motion (by simp) id h
  | bStop ok => exact vB_stop p p' .motion (by simp) h
  | throttled => exact h
  | ret ok => exact h

theorem vB_tfold (c : PipeCfg) : ∀ (ts : List TObs) (p p' : Pipe F), view p = view p' →
    view (ts.foldl (Pipe.applyTObs c) p) = view (ts.foldl (Pipe.applyTObs c) p') := by
  intro ts
  induction ts with
  | nil => intro p p' h; exact h
  | cons t ts ih => intro p p' h; exact ih _ _ (vB_tobs c p p' t h)

/-- a call on the motion sink — throttled or not — acts on the view -/
theorem vB_motionCall (c : PipeCfg) (p p' : Pipe F) (call : Call) (h : view p = view p') :
    view (Pipe.motionCall c p call) = view (Pipe.motionCall c p' call) := by
  obtain ⟨h1, h2, _⟩ := view_fields h
  obtain ⟨det, proc, thr, tos, acc, files, bf, rs⟩ := p
  obtain ⟨det', proc', thr', tos', acc', files', bf', rs'⟩ := p'
  simp only at h1 h2
  subst h1 h2
  cases hthr : c.throttle with
  | false =>
    cases call with
    | can => simp only [Pipe.motionCall, hthr, Bool.false_eq_true, if_false]; exact h
    | start =>
      simp only [Pipe.motionCall, hthr, Bool.false_eq_true, if_false]
      exact vB_start c _ _ .motion (by simp) _ h
    | write id =>
      simp only [Pipe.motionCall, hthr, Bool.false_eq_true, if_false]
      exact vB_write _ _ .motion (by simp) id h
    | stop =>
      simp only [Pipe.motionCall, hthr, Bool.false_eq_true, if_false]
      exact vB_stop _ _ .motion (by simp) h
  | true =>
    cases call with
    | can => simp only [Pipe.motionCall, hthr, if_true]; exact h
    | start =>
      simp only [Pipe.motionCall, hthr, if_true]
      exact vB_tfold c _ _ _ (vB_thr _ _ _ (vB_tos _ _ _ h))
    | write id =>
      simp only [Pipe.motionCall, hthr, if_true]
      exact vB_tfold c _ _ _ (vB_thr _ _ _ h)
    | stop =>
      simp only [Pipe.motionCall, hthr, if_true]
      exact vB_tfold c _ _ _ (vB_thr _ _ _ h)

/-- an observation that is not a call on the test sink acts on the view -/
theorem vB_obs (c : PipeCfg) (p p' : Pipe F) (o : Obs) (ho : onSink .test o = false) (h : view p = view p') :
    view (Pipe.applyObs c p o) = view (Pipe.applyObs c p' o) := by
  cases o with
  | md => exact h
  | rs => exact h
  | re => exact h
  | panic => exact h
  | call s cl ok =>
    cases s with
    | test => exact absurd ho (by simp [onSink])
    | motion =>
      cases ok with
      | false => cases cl <;> exact h
      | true => exact vB_motionCall c p p' cl h
    | const =>
      cases cl with
      | can => cases ok <;> exact h
      | start =>
        cases ok with
        | false => exact h
        | true => exact vB_start c p p' .const (by simp) 0 h
      | write id => cases ok <;> exact vB_write p p' .const (by simp) id h
      | stop => cases ok <;> exact vB_stop p p' .const (by simp) h

theorem v_fold_filter (c : PipeCfg) : ∀ (os : List Obs) (p p' : Pipe F), view p = view p' →
    view (os.foldl (Pipe.applyObs c) p) = view ((nonTest os).foldl (Pipe.applyObs c) p') := by
  intro os
  induction os with
  | nil => intro p p' h; exact h
  | cons o os ih =>
    intro p p' h
    cases ho : onSink .test o with
    | true =>
      have e : nonTest (o :: os) = nonTest os := by simp [nonTest, ho]
      rw [e, List.foldl_cons]
      refine ih _ _ ?_
      cases o with
      | call s cl ok =>
        cases s with
        | test => rw [vA_obs]; exact h
        | motion => exact absurd ho (by simp [onSink])
        | const => exact absurd ho (by simp [onSink])
      | md => exact absurd ho (by simp [onSink])
      | rs => exact absurd ho (by simp [onSink])
      | re => exact absurd ho (by simp [onSink])
      | panic => exact absurd ho (by simp [onSink])
    | false =>
      have e : nonTest (o :: os) = o :: nonTest os := by simp [nonTest, ho]
      rw [e, List.foldl_cons, List.foldl_cons]
      exact ih _ _ (vB_obs c p p' o ho h)

/-- two observation lists that differ in calls on the test sink only, applied to states with the same view -/
theorem v_fold_two (c : PipeCfg) (os os' : List Obs) (p p' : Pipe F) (h : view p = view p')
    (ho : nonTest os' = nonTest os) :
    view (os.foldl (Pipe.applyObs c) p) = view (os'.foldl (Pipe.applyObs c) p') := by
  rw [v_fold_filter c os p p rfl, v_fold_filter c os' p' p h.symm, ho]

/-! ### the simulation: a history and the same history without its test requests -/

/-- the two pipeline states agree on everything but the test files and the processor's snapshot fields -/
def Sim (p p' : Pipe F) : Prop := view p = view p' ∧ SnapEq p.proc p'.proc

theorem sim_refl (p : Pipe F) : Sim p p := ⟨rfl, snapEq_refl _⟩

theorem sim_of_fold (c : PipeCfg) (q q' : Pipe F) (obs obs' : List Obs) (hv : view q = view q')
    (hs : SnapEq q.proc q'.proc) (ho : nonTest obs' = nonTest obs) :
    Sim (obs.foldl (Pipe.applyObs c) q) (obs'.foldl (Pipe.applyObs c) q') := by
  refine ⟨v_fold_two c obs obs' q q' hv ho, ?_⟩
  rw [(fold_proc_accepted c obs q).1, (fold_proc_accepted c obs' q').1]
  exact hs

/-- a test request in the second history only -/
theorem sim_req (c : PipeCfg) (p p' : Pipe F) (h : Sim p p') : Sim p (Pipe.testRequest c p') :=
  ⟨h.1, step_req_snap c.proc p.proc p'.proc h.2⟩

/-- the same socket item in both histories -/
theorem sim_item (c : PipeCfg) (p p' : Pipe F) (it : Socket.Item) (h : Sim p p') :
    Sim (Pipe.item c p it) (Pipe.item c p' it) := by
  obtain ⟨hv, hs⟩ := h
  obtain ⟨h1, h2, h3, h4, h5, h6, h7⟩ := view_fields hv
  cases it with
  | clear =>
    rw [PipeLemmas.item_clear, PipeLemmas.item_clear]
    obtain ⟨d1, d2⟩ := step_snap_dep c.proc p.proc p'.proc (.reset (Pipe.faults c)) hs
    have hf := sim_of_fold c { p with proc := (PState.stopRecording p.proc true).1 }
      { p' with proc := (PState.stopRecording p'.proc true).1 } (PState.stopRecording p.proc true).2
      (PState.stopRecording p'.proc true).2 (view_ext h1 h2 h3 h4 h5 h6 h7) d1 d2
    obtain ⟨k1, k2, k3, k4, k5, k6, k7⟩ := view_fields hf.1
    exact ⟨view_ext (by simp only [k1]) k2 k3 k4 k5 (by simp only [k6]) k7, hf.2⟩
  | frame bytes =>
    cases hres : parseItem c bytes with
    | bad y x =>
      rw [PipeLemmas.item_bad c p bytes y x hres, PipeLemmas.item_bad c p' bytes y x hres]
      obtain ⟨d1, d2⟩ := step_snap_dep c.proc p.proc p'.proc (.bad (Pipe.faults c)) hs
      have hf := sim_of_fold c { p with proc := (PState.processBad c.proc p.proc (Pipe.faults c)).1 }
        { p' with proc := (PState.processBad c.proc p'.proc (Pipe.faults c)).1 }
        (PState.processBad c.proc p.proc (Pipe.faults c)).2 (PState.processBad c.proc p'.proc (Pipe.faults c)).2
        (view_ext h1 h2 h3 h4 h5 h6 h7) d1 d2
      obtain ⟨k1, k2, k3, k4, k5, k6, k7⟩ := view_fields hf.1
      exact ⟨view_ext k1 k2 k3 k4 (by simp only [k5]) k6 k7, hf.2⟩
    | ok pix tel =>
      rw [PipeLemmas.item_ok c p bytes pix tel hres, PipeLemmas.item_ok c p' bytes pix tel hres]
      simp only
      rw [← h1]
      obtain ⟨d1, d2⟩ := step_snap_dep c.proc p.proc p'.proc
        (.frame (Det.detect c.det p.det pix
          (Det.affectedBy c.det ((tel.timeOnMs : Int) * 1000000) ((tel.lastFFCMs : Int) * 1000000))).2
          (Pipe.faults c)) hs
      exact sim_of_fold c _ _ _ _ (view_ext rfl h2 h3 (by simp only [h4]) h5 h6 h7) d1 d2

/-- is this op a test request? -/
def isReqOp : PipeOp → Bool
  | .testReq => true
  | .item _ => false

/-- the history without its test requests -/
def dropReqs (gs : List GOp) : List GOp := gs.filter (fun g => !isReqOp g.op)

theorem sim_fold (c : PipeCfg) : ∀ (gs : List GOp) (p p' : Pipe F), Sim p p' →
    Sim ((dropReqs gs).foldl (Pipe.gop c) p) (gs.foldl (Pipe.gop c) p') := by
  intro gs
  induction gs with
  | nil => intro p p' h; exact h
  | cons g gs ih =>
    intro p p' h
    obtain ⟨w, d, o⟩ := g
    cases o with
    | testReq =>
      have e : dropReqs (⟨w, d, .testReq⟩ :: gs) = dropReqs gs := rfl
      rw [e, List.foldl_cons]
      exact ih _ _ (sim_req (withGates c ⟨w, d, .testReq⟩) p p' h)
    | item it =>
      have e : dropReqs (⟨w, d, .item it⟩ :: gs) = ⟨w, d, .item it⟩ :: dropReqs gs := rfl
      rw [e, List.foldl_cons, List.foldl_cons]
      exact ih _ _ (sim_item (withGates c ⟨w, d, .item it⟩) p p' it h)

/-- **the history without its test requests ends in the same state**, up to the test files and the snapshot
fields of the processor -/
theorem sim_runG (c : PipeCfg) (gs : List GOp) : Sim (runG F c (dropReqs gs)) (runG F c gs) :=
  sim_fold c gs _ _ (sim_refl _)

end sim


section simFiles
variable {F : FloatOps}

/-- states with the same view have the same files of every kind but test — as full `RecFile`s -/
theorem view_kf {p p' : Pipe F} (h : view p = view p') (k : FileKind) (hk : k ≠ .test) :
    kf k p.files = kf k p'.files := by
  rw [← kf_nt k hk p.files, ← kf_nt k hk p'.files, (view_fields h).2.2.2.2.2.2]

theorem view_filesOfKind {p p' : Pipe F} (h : view p = view p') (k : FileKind) (hk : k ≠ .test) :
    filesOfKind k p = filesOfKind k p' := by
  rw [filesOfKind_eq, filesOfKind_eq, view_kf h k hk]

end simFiles

end TR.PipeC17
