import TR.ProcMon
import Proofs.ProcBase
/-!
# Proofs.ProcProto12 — invariants behind C12 (sink protocol, recovery), C13 (bad frames), C17
(continuous / test sink layout)

`process` is cut into three pieces (`pDetect`, `pWrite`, `pStop`) chained with `andThen`
(`process_eq`, by `rfl`); every piece gets one lemma per monitor.
-/
namespace TR
open PState

/-! ## decomposition of `process` / `processFrame` -/

/-- detection branch of `process` (the `let`s substituted) -/
def pDetect (c : PCfg) (s : PState) (motion : Bool) (f : Faults) : R × Nat :=
  if motion then
    if s.isRec then
      (({ s with triggered := s.triggered + 1, writeUntil := min (s.framesWritten + c.minF) c.maxF }, [Obs.md]), 0)
    else if s.triggered + 1 < c.trig then (({ s with triggered := s.triggered + 1 }, [Obs.md]), 0)
    else if !f.win then (({ s with triggered := s.triggered + 1 }, [Obs.md]), 0)
    else if !f.can then (({ s with triggered := s.triggered + 1 }, [Obs.md, Obs.call .motion .can false]), 0)
    else if !f.mStart then
      (({ s with triggered := s.triggered + 1 },
        [Obs.md, Obs.call .motion .can true, Obs.call .motion .start false]), 0)
    else
      match s.ring.history with
      | none =>
        (({ s with triggered := s.triggered + 1, isRec := true },
          [Obs.md, Obs.call .motion .can true, Obs.call .motion .start true, Obs.rs] ++ [Obs.panic]), 0)
      | some h =>
        if (preTrigger f.mWriteFail h.dropLast 0).2.1 then
          (({ s with triggered := s.triggered + 1, isRec := true, writeUntil := c.minF },
            [Obs.md, Obs.call .motion .can true, Obs.call .motion .start true, Obs.rs] ++
              (preTrigger f.mWriteFail h.dropLast 0).1), (preTrigger f.mWriteFail h.dropLast 0).2.2)
        else
          (({ s with triggered := s.triggered + 1, isRec := true },
            [Obs.md, Obs.call .motion .can true, Obs.call .motion .start true, Obs.rs] ++
              (preTrigger f.mWriteFail h.dropLast 0).1), (preTrigger f.mWriteFail h.dropLast 0).2.2)
  else (({ s with triggered := 0 }, []), 0)

/-- "if recording, write the frame" -/
def pWrite (id k : Nat) (f : Faults) (s : PState) : R :=
  if s.isRec then
    ({ s with framesWritten := s.framesWritten + 1 },
     [Obs.call .motion (.write id) (decide (k + 1 ≠ f.mWriteFail))])
  else (s, [])

/-- `Move`, then stop when `framesWritten ≥ writeUntil` -/
def pStop (f : Faults) (s : PState) : R :=
  if s.isRec && decide (s.framesWritten ≥ s.writeUntil) then
    ({ s with ring := s.ring.move } : PState).stopRecording f.mStop
  else ({ s with ring := s.ring.move }, [])

theorem process_eq (c : PCfg) (s : PState) (motion : Bool) (f : Faults) :
    process c s motion f =
      andThen (andThen (pDetect c s motion f).1 (pWrite s.n (pDetect c s motion f).2 f)) (pStop f) := rfl

theorem processFrame_eq (c : PCfg) (s : PState) (motion : Bool) (f : Faults) :
    processFrame c s motion f =
      ({ (andThen (andThen (process c { s with ring := s.ring.write s.n } motion f)
            (fun s' => processConstantRecorder c s' s.n f)) (fun s' => processSnapshot c s' s.n f)).1
          with n := s.n + 1 },
       (andThen (andThen (process c { s with ring := s.ring.write s.n } motion f)
            (fun s' => processConstantRecorder c s' s.n f)) (fun s' => processSnapshot c s' s.n f)).2) := rfl

@[simp] theorem andThen_fst (r : R) (g : PState → R) : (andThen r g).1 = (g r.1).1 := rfl
@[simp] theorem andThen_snd (r : R) (g : PState → R) : (andThen r g).2 = r.2 ++ (g r.1).2 := rfl

/-! ## which fields a piece touches -/

theorem pDetect_shape (c : PCfg) (s : PState) (motion : Bool) (f : Faults) :
    ∃ t w b, (pDetect c s motion f).1.1 = { s with triggered := t, writeUntil := w, isRec := b } := by
  unfold pDetect
  repeat' split
  all_goals exact ⟨_, _, _, rfl⟩

theorem pDetect_fields (c : PCfg) (s : PState) (motion : Bool) (f : Faults) :
    (pDetect c s motion f).1.1.ring = s.ring ∧ (pDetect c s motion f).1.1.n = s.n ∧
    (pDetect c s motion f).1.1.crFrames = s.crFrames ∧ (pDetect c s motion f).1.1.startSnap = s.startSnap ∧
    (pDetect c s motion f).1.1.snapRec = s.snapRec ∧ (pDetect c s motion f).1.1.snapFrames = s.snapFrames := by
  obtain ⟨t, w, b, h⟩ := pDetect_shape c s motion f
  rw [h]; simp

theorem pWrite_fields (id k : Nat) (f : Faults) (s : PState) :
    (pWrite id k f s).1.ring = s.ring ∧ (pWrite id k f s).1.n = s.n ∧ (pWrite id k f s).1.isRec = s.isRec ∧
    (pWrite id k f s).1.triggered = s.triggered ∧
    (pWrite id k f s).1.crFrames = s.crFrames ∧ (pWrite id k f s).1.startSnap = s.startSnap ∧
    (pWrite id k f s).1.snapRec = s.snapRec ∧ (pWrite id k f s).1.snapFrames = s.snapFrames := by
  unfold pWrite
  split <;> simp

theorem stopRecording_fields (s : PState) (ok : Bool) :
    ((s.stopRecording ok).1.ring = s.ring ∨ (s.stopRecording ok).1.ring = s.ring.setAsOldest) ∧
    (s.stopRecording ok).1.n = s.n ∧ (s.stopRecording ok).1.isRec = false ∧
    (s.stopRecording ok).1.crFrames = s.crFrames ∧ (s.stopRecording ok).1.startSnap = s.startSnap ∧
    (s.stopRecording ok).1.snapRec = s.snapRec ∧ (s.stopRecording ok).1.snapFrames = s.snapFrames := by
  unfold stopRecording
  cases h : s.isRec <;> simp [h]

theorem pStop_fields (f : Faults) (s : PState) :
    ((pStop f s).1.ring = s.ring.move ∨ (pStop f s).1.ring = s.ring.move.setAsOldest) ∧
    (pStop f s).1.n = s.n ∧
    (pStop f s).1.crFrames = s.crFrames ∧ (pStop f s).1.startSnap = s.startSnap ∧
    (pStop f s).1.snapRec = s.snapRec ∧ (pStop f s).1.snapFrames = s.snapFrames := by
  unfold pStop
  split
  · have h := stopRecording_fields { s with ring := s.ring.move } f.mStop
    simpa using ⟨h.1, h.2.1, h.2.2.2⟩
  · simp

theorem pcr_shape (c : PCfg) (s : PState) (id : Nat) (f : Faults) :
    ∃ k, (processConstantRecorder c s id f).1 = { s with crFrames := k } := by
  simp only [processConstantRecorder]
  repeat' split
  all_goals exact ⟨_, rfl⟩

theorem psn_shape (c : PCfg) (s : PState) (id : Nat) (f : Faults) :
    ∃ a b k, (processSnapshot c s id f).1 = { s with startSnap := a, snapRec := b, snapFrames := k } := by
  simp only [processSnapshot]
  repeat' split
  all_goals exact ⟨_, _, _, rfl⟩

theorem scr_shape (c : PCfg) (s : PState) (f : Faults) :
    ∃ k, (stopConstantRecorder c s f).1 = { s with crFrames := k } := by
  simp only [stopConstantRecorder]
  repeat' split
  all_goals exact ⟨_, rfl⟩

theorem process_fields (c : PCfg) (s : PState) (motion : Bool) (f : Faults) :
    ((process c s motion f).1.ring = s.ring.move ∨ (process c s motion f).1.ring = s.ring.move.setAsOldest) ∧
    (process c s motion f).1.n = s.n ∧
    (process c s motion f).1.crFrames = s.crFrames ∧ (process c s motion f).1.startSnap = s.startSnap ∧
    (process c s motion f).1.snapRec = s.snapRec ∧ (process c s motion f).1.snapFrames = s.snapFrames := by
  rw [process_eq]
  simp only [andThen_fst]
  have h1 := pDetect_fields c s motion f
  have h2 := pWrite_fields s.n (pDetect c s motion f).2 f (pDetect c s motion f).1.1
  have h3 := pStop_fields f (pWrite s.n (pDetect c s motion f).2 f (pDetect c s motion f).1.1).1
  obtain ⟨a1, a2, a3, a4, a5, a6⟩ := h1
  obtain ⟨b1, b2, _, _, b3, b4, b5, b6⟩ := h2
  obtain ⟨c1, c2, c3, c4, c5, c6⟩ := h3
  rw [b1, a1] at c1
  refine ⟨c1, ?_, ?_, ?_, ?_, ?_⟩
  · rw [c2, b2, a2]
  · rw [c3, b3, a3]
  · rw [c4, b4, a4]
  · rw [c5, b5, a5]
  · rw [c6, b6, a6]

theorem processFrame_fields (c : PCfg) (s : PState) (motion : Bool) (f : Faults) :
    ((processFrame c s motion f).1.ring = (s.ring.write s.n).move ∨
      (processFrame c s motion f).1.ring = (s.ring.write s.n).move.setAsOldest) ∧
    (processFrame c s motion f).1.n = s.n + 1 := by
  rw [processFrame_eq]
  simp only [andThen_fst]
  obtain ⟨h1, _⟩ := process_fields c { s with ring := s.ring.write s.n } motion f
  obtain ⟨k, hk⟩ := pcr_shape c (process c { s with ring := s.ring.write s.n } motion f).1 s.n f
  obtain ⟨a, b, k', hs⟩ := psn_shape c (processConstantRecorder c
    (process c { s with ring := s.ring.write s.n } motion f).1 s.n f).1 s.n f
  rw [hs, hk]
  exact ⟨h1, rfl⟩

/-! ## the ring invariant along every run -/

def Good (c : PCfg) (s : PState) : Prop := ∃ mark, RBase c.K s.ring s.n mark

theorem good_init (c : PCfg) (hK : 0 < c.K) : Good c (PState.init c) := ⟨0, rbase_init c.K hK⟩

theorem good_of_ring {c : PCfg} {s s' : PState} (h : Good c s) (hn : s'.n = s.n)
    (hr : s'.ring = s.ring ∨ s'.ring = s.ring.setAsOldest) : Good c s' := by
  obtain ⟨mark, hb⟩ := h
  rcases hr with hr | hr
  · exact ⟨mark, by rw [hr, hn]; exact hb⟩
  · exact ⟨s.n, by rw [hr, hn]; exact rbase_mark hb⟩

theorem good_step (c : PCfg) (s : PState) (e : Ev) (h : Good c s) : Good c (PState.step c s e).1 := by
  cases e with
  | frame m f =>
    obtain ⟨mark, hb⟩ := h
    obtain ⟨hr, hn⟩ := processFrame_fields c s m f
    simp only [PState.step]
    rcases hr with hr | hr
    · exact ⟨mark, by rw [hr, hn]; exact rbase_accept hb⟩
    · exact ⟨s.n + 1, by rw [hr, hn]; exact rbase_mark (rbase_accept hb)⟩
  | bad f =>
    simp only [PState.step, processBad, andThen_fst]
    have hw : Good c { s with ring := s.ring.write garbage } := by
      obtain ⟨mark, hb⟩ := h
      exact ⟨mark, rbase_write garbage hb⟩
    obtain ⟨k, hk⟩ := scr_shape c (stopRecording { s with ring := s.ring.write garbage } f.mStop).1 f
    have hf := stopRecording_fields { s with ring := s.ring.write garbage } f.mStop
    rw [hk]
    exact good_of_ring hw hf.2.1 hf.1
  | reset f =>
    simp only [PState.step]
    have hf := stopRecording_fields s f.mStop
    exact good_of_ring h hf.2.1 hf.1
  | testReq => exact h

/-- under the ring invariant `GetHistory` (after parsing frame `n` into the current slot) is the id
list `lo … n` -/
theorem good_history {c : PCfg} {s : PState} (h : Good c s) :
    ∃ lo, lo ≤ s.n ∧ (s.ring.write s.n).history = some (List.range' lo (s.n + 1 - lo)) := by
  obtain ⟨mark, hb⟩ := h
  exact ⟨loOf c.K s.n mark, loOf_le _ _ _ (rbase_size hb) (rbase_mark_le hb), rbase_history hb⟩

/-! ## generic induction over event lists (indexed by the number of events consumed) -/

theorem trace_fold_inv {μ : Type} (c : PCfg) (stepM : μ → Step → μ) (I : Nat → PState → μ → Prop)
    (hstep : ∀ k s m e, I k s m → I (k + 1) (PState.step c s e).1 (stepM m ⟨e, (PState.step c s e).2⟩)) :
    ∀ (evs : List Ev) (k : Nat) (s : PState) (m : μ), I k s m →
      I (k + evs.length) (PState.after c s evs) ((PState.trace c s evs).foldl stepM m) := by
  intro evs
  induction evs with
  | nil => intro k s m h; exact h
  | cons e es ih =>
    intro k s m h
    have := ih (k + 1) _ _ (hstep k s m e h)
    simp only [List.length_cons, PState.after, PState.trace, List.foldl_cons]
    have e1 : k + (es.length + 1) = k + 1 + es.length := by omega
    rw [e1]; exact this

end TR
