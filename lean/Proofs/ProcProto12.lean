import TR.ProcMon
import Proofs.ProcBase
/-!
# Proofs.ProcProto12 — invariants behind C12 (sink protocol, recovery), C13 (bad frames), C17
(continuous / test sink layout)

`process` is cut into three pieces (`pDetect`, `pWrite`, `pStop`) chained with `andThen`
(`process_eq`, by `rfl`); every piece gets one lemma per monitor.
-/
namespace TR
open PState

/-! ## decomposition of `process` / `processFrame` -/

/-- detection branch of `process` (the `let`s substituted) -/
def pDetect (c : PCfg) (s : PState) (motion : Bool) (f : Faults) : R × Nat :=
  if motion then
    if s.isRec then
      (({ s with triggered := s.triggered + 1, writeUntil := min (s.framesWritten + c.minF) c.maxF }, [Obs.md]), 0)
    else if s.triggered + 1 < c.trig then (({ s with triggered := s.triggered + 1 }, [Obs.md]), 0)
    else if !f.win then (({ s with triggered := s.triggered + 1 }, [Obs.md]), 0)
    else if !f.can then (({ s with triggered := s.triggered + 1 }, [Obs.md, Obs.call .motion .can false]), 0)
    else if !f.mStart then
      (({ s with triggered := s.triggered + 1 },
        [Obs.md, Obs.call .motion .can true, Obs.call .motion .start false]), 0)
    else
      match s.ring.history with
      | none =>
        (({ s with triggered := s.triggered + 1, isRec := true },
          [Obs.md, Obs.call .motion .can true, Obs.call .motion .start true, Obs.rs] ++ [Obs.panic]), 0)
      | some h =>
        if (preTrigger f.mWriteFail h.dropLast 0).2.1 then
          (({ s with triggered := s.triggered + 1, isRec := true, writeUntil := c.minF },
            [Obs.md, Obs.call .motion .can true, Obs.call .motion .start true, Obs.rs] ++
              (preTrigger f.mWriteFail h.dropLast 0).1), (preTrigger f.mWriteFail h.dropLast 0).2.2)
        else
          (({ s with triggered := s.triggered + 1, isRec := true },
            [Obs.md, Obs.call .motion .can true, Obs.call .motion .start true, Obs.rs] ++
              (preTrigger f.mWriteFail h.dropLast 0).1), (preTrigger f.mWriteFail h.dropLast 0).2.2)
  else (({ s with triggered := 0 }, []), 0)

/-- "if recording, write the frame" -/
def pWrite (id k : Nat) (f : Faults) (s : PState) : R :=
  if s.isRec then
    ({ s with framesWritten := s.framesWritten + 1 },
     [Obs.call .motion (.write id) (decide (k + 1 ≠ f.mWriteFail))])
  else (s, [])

/-- `Move`, then stop when `framesWritten ≥ writeUntil` -/
def pStop (f : Faults) (s : PState) : R :=
  if s.isRec && decide (s.framesWritten ≥ s.writeUntil) then
    ({ s with ring := s.ring.move } : PState).stopRecording f.mStop
  else ({ s with ring := s.ring.move }, [])

theorem process_eq (c : PCfg) (s : PState) (motion : Bool) (f : Faults) :
    process c s motion f =
      andThen (andThen (pDetect c s motion f).1 (pWrite s.n (pDetect c s motion f).2 f)) (pStop f) := rfl

theorem processFrame_eq (c : PCfg) (s : PState) (motion : Bool) (f : Faults) :
    processFrame c s motion f =
      ({ (andThen (andThen (process c { s with ring := s.ring.write s.n } motion f)
            (fun s' => processConstantRecorder c s' s.n f)) (fun s' => processSnapshot c s' s.n f)).1
          with n := s.n + 1 },
       (andThen (andThen (process c { s with ring := s.ring.write s.n } motion f)
            (fun s' => processConstantRecorder c s' s.n f)) (fun s' => processSnapshot c s' s.n f)).2) := rfl

@[simp] theorem andThen_fst (r : R) (g : PState → R) : (andThen r g).1 = (g r.1).1 := rfl
@[simp] theorem andThen_snd (r : R) (g : PState → R) : (andThen r g).2 = r.2 ++ (g r.1).2 := rfl

/-! ## which fields a piece touches -/

theorem pDetect_shape (c : PCfg) (s : PState) (motion : Bool) (f : Faults) :
    ∃ t w b, (pDetect c s motion f).1.1 = { s with triggered := t, writeUntil := w, isRec := b } := by
  unfold pDetect
  repeat' split
  all_goals exact ⟨_, _, _, rfl⟩

theorem pDetect_fields (c : PCfg) (s : PState) (motion : Bool) (f : Faults) :
    (pDetect c s motion f).1.1.ring = s.ring ∧ (pDetect c s motion f).1.1.n = s.n ∧
    (pDetect c s motion f).1.1.crFrames = s.crFrames ∧ (pDetect c s motion f).1.1.startSnap = s.startSnap ∧
    (pDetect c s motion f).1.1.snapRec = s.snapRec ∧ (pDetect c s motion f).1.1.snapFrames = s.snapFrames := by
  obtain ⟨t, w, b, h⟩ := pDetect_shape c s motion f
  rw [h]; simp

theorem pWrite_fields (id k : Nat) (f : Faults) (s : PState) :
    (pWrite id k f s).1.ring = s.ring ∧ (pWrite id k f s).1.n = s.n ∧ (pWrite id k f s).1.isRec = s.isRec ∧
    (pWrite id k f s).1.triggered = s.triggered ∧
    (pWrite id k f s).1.crFrames = s.crFrames ∧ (pWrite id k f s).1.startSnap = s.startSnap ∧
    (pWrite id k f s).1.snapRec = s.snapRec ∧ (pWrite id k f s).1.snapFrames = s.snapFrames := by
  unfold pWrite
  split <;> simp

theorem stopRecording_fields (s : PState) (ok : Bool) :
    ((s.stopRecording ok).1.ring = s.ring ∨ (s.stopRecording ok).1.ring = s.ring.setAsOldest) ∧
    (s.stopRecording ok).1.n = s.n ∧ (s.stopRecording ok).1.isRec = false ∧
    (s.stopRecording ok).1.crFrames = s.crFrames ∧ (s.stopRecording ok).1.startSnap = s.startSnap ∧
    (s.stopRecording ok).1.snapRec = s.snapRec ∧ (s.stopRecording ok).1.snapFrames = s.snapFrames := by
  unfold stopRecording
  cases h : s.isRec <;> simp [h]

theorem pStop_fields (f : Faults) (s : PState) :
    ((pStop f s).1.ring = s.ring.move ∨ (pStop f s).1.ring = s.ring.move.setAsOldest) ∧
    (pStop f s).1.n = s.n ∧
    (pStop f s).1.crFrames = s.crFrames ∧ (pStop f s).1.startSnap = s.startSnap ∧
    (pStop f s).1.snapRec = s.snapRec ∧ (pStop f s).1.snapFrames = s.snapFrames := by
  unfold pStop
  split
  · have h := stopRecording_fields { s with ring := s.ring.move } f.mStop
    simpa using ⟨h.1, h.2.1, h.2.2.2⟩
  · simp

theorem pcr_shape (c : PCfg) (s : PState) (id : Nat) (f : Faults) :
    ∃ k, (processConstantRecorder c s id f).1 = { s with crFrames := k } := by
  simp only [processConstantRecorder]
  repeat' split
  all_goals exact ⟨_, rfl⟩

theorem psn_shape (c : PCfg) (s : PState) (id : Nat) (f : Faults) :
    ∃ a b k, (processSnapshot c s id f).1 = { s with startSnap := a, snapRec := b, snapFrames := k } := by
  simp only [processSnapshot]
  repeat' split
  all_goals exact ⟨_, _, _, rfl⟩

theorem scr_shape (c : PCfg) (s : PState) (f : Faults) :
    ∃ k, (stopConstantRecorder c s f).1 = { s with crFrames := k } := by
  simp only [stopConstantRecorder]
  repeat' split
  all_goals exact ⟨_, rfl⟩

theorem process_fields (c : PCfg) (s : PState) (motion : Bool) (f : Faults) :
    ((process c s motion f).1.ring = s.ring.move ∨ (process c s motion f).1.ring = s.ring.move.setAsOldest) ∧
    (process c s motion f).1.n = s.n ∧
    (process c s motion f).1.crFrames = s.crFrames ∧ (process c s motion f).1.startSnap = s.startSnap ∧
    (process c s motion f).1.snapRec = s.snapRec ∧ (process c s motion f).1.snapFrames = s.snapFrames := by
  rw [process_eq]
  simp only [andThen_fst]
  have h1 := pDetect_fields c s motion f
  have h2 := pWrite_fields s.n (pDetect c s motion f).2 f (pDetect c s motion f).1.1
  have h3 := pStop_fields f (pWrite s.n (pDetect c s motion f).2 f (pDetect c s motion f).1.1).1
  obtain ⟨a1, a2, a3, a4, a5, a6⟩ := h1
  obtain ⟨b1, b2, _, _, b3, b4, b5, b6⟩ := h2
  obtain ⟨c1, c2, c3, c4, c5, c6⟩ := h3
  rw [b1, a1] at c1
  refine ⟨c1, ?_, ?_, ?_, ?_, ?_⟩
  · rw [c2, b2, a2]
  · rw [c3, b3, a3]
  · rw [c4, b4, a4]
  · rw [c5, b5, a5]
  · rw [c6, b6, a6]

theorem processFrame_fields (c : PCfg) (s : PState) (motion : Bool) (f : Faults) :
    ((processFrame c s motion f).1.ring = (s.ring.write s.n).move ∨
      (processFrame c s motion f).1.ring = (s.ring.write s.n).move.setAsOldest) ∧
    (processFrame c s motion f).1.n = s.n + 1 := by
  rw [processFrame_eq]
  simp only [andThen_fst]
  obtain ⟨h1, _⟩ := process_fields c { s with ring := s.ring.write s.n } motion f
  obtain ⟨k, hk⟩ := pcr_shape c (process c { s with ring := s.ring.write s.n } motion f).1 s.n f
  obtain ⟨a, b, k', hs⟩ := psn_shape c (processConstantRecorder c
    (process c { s with ring := s.ring.write s.n } motion f).1 s.n f).1 s.n f
  rw [hs, hk]
  exact ⟨h1, trivial⟩

/-! ## the ring invariant along every run -/

def Good (c : PCfg) (s : PState) : Prop := ∃ mark, RBase c.K s.ring s.n mark

theorem good_init (c : PCfg) (hK : 0 < c.K) : Good c (PState.init c) := ⟨0, rbase_init c.K hK⟩

theorem good_of_ring {c : PCfg} {s s' : PState} (h : Good c s) (hn : s'.n = s.n)
    (hr : s'.ring = s.ring ∨ s'.ring = s.ring.setAsOldest) : Good c s' := by
  obtain ⟨mark, hb⟩ := h
  rcases hr with hr | hr
  · exact ⟨mark, by rw [hr, hn]; exact hb⟩
  · exact ⟨s.n, by rw [hr, hn]; exact rbase_mark hb⟩

theorem good_step (c : PCfg) (s : PState) (e : Ev) (h : Good c s) : Good c (PState.step c s e).1 := by
  cases e with
  | frame m f =>
    obtain ⟨mark, hb⟩ := h
    obtain ⟨hr, hn⟩ := processFrame_fields c s m f
    simp only [PState.step]
    rcases hr with hr | hr
    · exact ⟨mark, by rw [hr, hn]; exact rbase_accept hb⟩
    · exact ⟨s.n + 1, by rw [hr, hn]; exact rbase_mark (rbase_accept hb)⟩
  | bad f =>
    simp only [PState.step, processBad, andThen_fst]
    have hw : Good c { s with ring := s.ring.write garbage } := by
      obtain ⟨mark, hb⟩ := h
      exact ⟨mark, rbase_write garbage hb⟩
    obtain ⟨k, hk⟩ := scr_shape c (stopRecording { s with ring := s.ring.write garbage } f.mStop).1 f
    have hf := stopRecording_fields { s with ring := s.ring.write garbage } f.mStop
    rw [hk]
    exact good_of_ring hw hf.2.1 hf.1
  | reset f =>
    simp only [PState.step]
    have hf := stopRecording_fields s f.mStop
    exact good_of_ring h hf.2.1 hf.1
  | testReq => exact h

/-- under the ring invariant `GetHistory` (after parsing frame `n` into the current slot) is the id
list `lo … n` -/
theorem good_history {c : PCfg} {s : PState} (h : Good c s) :
    ∃ lo, lo ≤ s.n ∧ (s.ring.write s.n).history = some (List.range' lo (s.n + 1 - lo)) := by
  obtain ⟨mark, hb⟩ := h
  exact ⟨loOf c.K s.n mark, loOf_le _ _ _ (rbase_size hb) (rbase_mark_le hb), rbase_history hb⟩

/-! ## generic induction over event lists (indexed by the number of events consumed) -/

theorem trace_fold_inv {μ : Type} (c : PCfg) (stepM : μ → Step → μ) (I : Nat → PState → μ → Prop)
    (hstep : ∀ k s m e, I k s m → I (k + 1) (PState.step c s e).1 (stepM m ⟨e, (PState.step c s e).2⟩)) :
    ∀ (evs : List Ev) (k : Nat) (s : PState) (m : μ), I k s m →
      I (k + evs.length) (PState.after c s evs) ((PState.trace c s evs).foldl stepM m) := by
  intro evs
  induction evs with
  | nil => intro k s m h; exact h
  | cons e es ih =>
    intro k s m h
    have := ih (k + 1) _ _ (hstep k s m e h)
    simp only [List.length_cons, PState.after, PState.trace, List.foldl_cons]
    have e1 : k + (es.length + 1) = k + 1 + es.length := by omega
    rw [e1]; exact this

/-! ## C12 — protocol monitor -/

/-- monitor state ↔ model state -/
def Rel12 (c : PCfg) (s : PState) (m : M12s) : Prop :=
  m.mo = s.isRec ∧ m.co = (c.constOn && decide (s.crFrames ≠ 0)) ∧ m.te = s.snapRec ∧ m.fails = []

theorem preTrigger_fold12 (fa : Nat) (ids : List Nat) (k : Nat) (m : M12s) (hm : m.mo = true) :
    (preTrigger fa ids k).1.foldl M12s.obs m = m := by
  induction ids generalizing k with
  | nil => rfl
  | cons id rest ih =>
    simp only [preTrigger]
    split
    · simp [M12s.obs, M12s.get, hm]
    · simp [M12s.obs, M12s.get, hm, ih]

theorem pDetect_rel12 (c : PCfg) (s : PState) (motion : Bool) (f : Faults) (m : M12s)
    (hh : s.ring.history ≠ none) (h : Rel12 c s m) :
    Rel12 c (pDetect c s motion f).1.1 ((pDetect c s motion f).1.2.foldl M12s.obs m) := by
  obtain ⟨h1, h2, h3, h4⟩ := h
  unfold pDetect
  repeat' split
  all_goals first
    | contradiction
    | simp_all [Rel12, M12s.obs, M12s.get, M12s.set, preTrigger_fold12]

theorem pWrite_rel12 (c : PCfg) (id k : Nat) (f : Faults) (s : PState) (m : M12s) (h : Rel12 c s m) :
    Rel12 c (pWrite id k f s).1 ((pWrite id k f s).2.foldl M12s.obs m) := by
  obtain ⟨h1, h2, h3, h4⟩ := h
  unfold pWrite
  split <;> simp_all [Rel12, M12s.obs, M12s.get]

theorem stopRecording_rel12 (c : PCfg) (s : PState) (ok : Bool) (m : M12s) (h : Rel12 c s m) :
    Rel12 c (s.stopRecording ok).1 ((s.stopRecording ok).2.foldl M12s.obs m) := by
  obtain ⟨h1, h2, h3, h4⟩ := h
  unfold stopRecording
  split <;> simp_all [Rel12, M12s.obs, M12s.set]

theorem pStop_rel12 (c : PCfg) (f : Faults) (s : PState) (m : M12s) (h : Rel12 c s m) :
    Rel12 c (pStop f s).1 ((pStop f s).2.foldl M12s.obs m) := by
  unfold pStop
  split
  · exact stopRecording_rel12 c _ _ m h
  · exact h

theorem process_rel12 (c : PCfg) (s : PState) (motion : Bool) (f : Faults) (m : M12s)
    (hh : s.ring.history ≠ none) (h : Rel12 c s m) :
    Rel12 c (process c s motion f).1 ((process c s motion f).2.foldl M12s.obs m) := by
  rw [process_eq]
  simp only [andThen_fst, andThen_snd, List.foldl_append]
  exact pStop_rel12 c f _ _ (pWrite_rel12 c _ _ f _ _ (pDetect_rel12 c s motion f m hh h))

theorem pcr_rel12 (c : PCfg) (s : PState) (id : Nat) (f : Faults) (m : M12s) (h : Rel12 c s m) :
    Rel12 c (processConstantRecorder c s id f).1 ((processConstantRecorder c s id f).2.foldl M12s.obs m) := by
  obtain ⟨h1, h2, h3, h4⟩ := h
  simp only [processConstantRecorder]
  repeat' split
  all_goals simp_all [Rel12, M12s.obs, M12s.get, M12s.set]

theorem scr_rel12 (c : PCfg) (s : PState) (f : Faults) (m : M12s) (h : Rel12 c s m) :
    Rel12 c (stopConstantRecorder c s f).1 ((stopConstantRecorder c s f).2.foldl M12s.obs m) := by
  obtain ⟨h1, h2, h3, h4⟩ := h
  simp only [stopConstantRecorder]
  repeat' split
  all_goals simp_all [Rel12, M12s.obs, M12s.set]

theorem psn_rel12 (c : PCfg) (s : PState) (id : Nat) (f : Faults) (m : M12s) (h : Rel12 c s m) :
    Rel12 c (processSnapshot c s id f).1 ((processSnapshot c s id f).2.foldl M12s.obs m) := by
  obtain ⟨h1, h2, h3, h4⟩ := h
  simp only [processSnapshot]
  repeat' split
  all_goals simp_all [Rel12, M12s.obs, M12s.get, M12s.set]

def Inv12 (c : PCfg) (s : PState) (m : M12s) : Prop := Good c s ∧ Rel12 c s m

theorem inv12_init (c : PCfg) (hK : 0 < c.K) : Inv12 c (PState.init c) {} :=
  ⟨good_init c hK, by simp [Rel12, PState.init]⟩

theorem step_inv12 (c : PCfg) (s : PState) (m : M12s) (e : Ev) (h : Inv12 c s m) :
    Inv12 c (PState.step c s e).1 ((PState.step c s e).2.foldl M12s.obs m) := by
  refine ⟨good_step c s e h.1, ?_⟩
  obtain ⟨hg, hr⟩ := h
  cases e with
  | frame mo f =>
    simp only [PState.step]
    rw [processFrame_eq]
    simp only [andThen_fst, andThen_snd, List.foldl_append]
    obtain ⟨lo, _, hh⟩ := good_history hg
    have hh' : ({ s with ring := s.ring.write s.n } : PState).ring.history ≠ none := by
      simp only [hh]; exact Option.some_ne_none _
    have hr0 : Rel12 c { s with ring := s.ring.write s.n } m := hr
    exact psn_rel12 c _ s.n f _ (pcr_rel12 c _ s.n f _ (process_rel12 c _ mo f m hh' hr0))
  | bad f =>
    simp only [PState.step, processBad, andThen_fst, andThen_snd, List.foldl_append]
    have hr0 : Rel12 c { s with ring := s.ring.write garbage } m := hr
    exact scr_rel12 c _ f _ (stopRecording_rel12 c _ f.mStop m hr0)
  | reset f => exact stopRecording_rel12 c s f.mStop m hr
  | testReq => exact hr

theorem c12_protocol_all (c : PCfg) (hK : 0 < c.K) (evs : List Ev) :
    monC12 (PState.trace c (PState.init c) evs) = [] := by
  have h := trace_fold_inv c (fun (m : M12s) (st : Step) => st.obs.foldl M12s.obs m)
    (fun _ s m => Inv12 c s m) (fun _ s m e hi => step_inv12 c s m e hi) evs 0 _ _ (inv12_init c hK)
  exact h.2.2.2.2

/-! ### C12 recovery -/

theorem pDetect_recover (c : PCfg) (s : PState) :
    (pDetect c s true {}).1.1.isRec = true ∨
    (s.isRec = false ∧ s.triggered + 1 < c.trig ∧
      (pDetect c s true {}).1.1 = { s with triggered := s.triggered + 1 }) := by
  unfold pDetect
  repeat' split
  all_goals simp_all

theorem processFrame_recover (c : PCfg) (s : PState) :
    Obs.call .motion (.write s.n) true ∈ (processFrame c s true {}).2 ∨
    (s.triggered + 1 < c.trig ∧ (processFrame c s true {}).1.triggered = s.triggered + 1) := by
  rw [processFrame_eq, process_eq]
  simp only [andThen_fst, andThen_snd]
  rcases pDetect_recover c { s with ring := s.ring.write s.n } with h | ⟨h1, h2, h3⟩
  · left
    simp [pWrite, h]
  · right
    refine ⟨h2, ?_⟩
    have hw : ∀ k, pWrite s.n k {} (pDetect c { s with ring := s.ring.write s.n } true {}).1.1
        = ((pDetect c { s with ring := s.ring.write s.n } true {}).1.1, []) := by
      intro k; simp [pWrite, h3, h1]
    rw [hw]
    have hs : pStop {} (pDetect c { s with ring := s.ring.write s.n } true {}).1.1
        = ({ (pDetect c { s with ring := s.ring.write s.n } true {}).1.1 with
              ring := (pDetect c { s with ring := s.ring.write s.n } true {}).1.1.ring.move }, []) := by
      simp [pStop, h3, h1]
    simp only [hs]
    obtain ⟨k, hk⟩ := pcr_shape c ({ (pDetect c { s with ring := s.ring.write s.n } true {}).1.1 with
              ring := (pDetect c { s with ring := s.ring.write s.n } true {}).1.1.ring.move }) s.n {}
    obtain ⟨a, b, k', hsn⟩ := psn_shape c (processConstantRecorder c
      ({ (pDetect c { s with ring := s.ring.write s.n } true {}).1.1 with
              ring := (pDetect c { s with ring := s.ring.write s.n } true {}).1.1.ring.move }) s.n {}).1 s.n {}
    rw [hsn, hk, h3]

theorem recover_aux (c : PCfg) : ∀ (n : Nat) (s : PState), 1 ≤ n → c.trig ≤ s.triggered + n →
    ∃ id, Obs.call .motion (.write id) true ∈
      (PState.trace c s (List.replicate n (Ev.frame true {}))).flatMap (·.obs) := by
  intro n
  induction n with
  | zero => intro s h; omega
  | succ n ih =>
    intro s _ ht
    simp only [List.replicate_succ, PState.trace, List.flatMap_cons, PState.step]
    rcases processFrame_recover c s with h | ⟨h1, h2⟩
    · exact ⟨s.n, List.mem_append_left _ h⟩
    · obtain ⟨id, hid⟩ := ih (processFrame c s true {}).1 (by omega) (by omega)
      exact ⟨id, List.mem_append_right _ hid⟩

theorem c12_recovery_all (c : PCfg) (s : PState) :
    ∃ id, Obs.call .motion (.write id) true ∈
      (PState.trace c s (List.replicate (max c.trig 1) (Ev.frame true {}))).flatMap (·.obs) :=
  recover_aux c (max c.trig 1) s (by omega) (by omega)

/-! ## C13 — bad frames -/

theorem hasStop_append (a b : List Obs) : hasStop (a ++ b) = (hasStop a || hasStop b) := by
  simp [hasStop]
theorem hasStartOk_append (a b : List Obs) : hasStartOk (a ++ b) = (hasStartOk a || hasStartOk b) := by
  simp [hasStartOk]
theorem writesGarbage_append (a b : List Obs) :
    writesGarbage (a ++ b) = (writesGarbage a || writesGarbage b) := by
  simp [writesGarbage]

theorem preTrigger_c13 (fa : Nat) (ids : List Nat) (k : Nat) (hids : ∀ id ∈ ids, id ≠ garbage) :
    hasStop (preTrigger fa ids k).1 = false ∧ hasStartOk (preTrigger fa ids k).1 = false ∧
    writesGarbage (preTrigger fa ids k).1 = false := by
  induction ids generalizing k with
  | nil => simp [preTrigger, hasStop, hasStartOk, writesGarbage]
  | cons id rest ih =>
    have h1 : id ≠ garbage := hids id (List.mem_cons_self ..)
    have h2 := ih (k + 1) (fun i hi => hids i (List.mem_cons_of_mem _ hi))
    simp only [preTrigger]
    split
    · simp [hasStop, hasStartOk, writesGarbage, h1]
    · simp only [hasStop, hasStartOk, writesGarbage] at h2 ⊢
      simp [h1, h2]

/-- summary of one piece for C13: no stop / start before-or-after, nothing garbage written -/
theorem pDetect_c13 (c : PCfg) (s : PState) (motion : Bool) (f : Faults)
    (hh : ∀ h, s.ring.history = some h → ∀ id ∈ h, id ≠ garbage) :
    hasStop (pDetect c s motion f).1.2 = false ∧
    (pDetect c s motion f).1.1.isRec = (s.isRec || hasStartOk (pDetect c s motion f).1.2) ∧
    writesGarbage (pDetect c s motion f).1.2 = false := by
  have hp : ∀ h, s.ring.history = some h →
      hasStop (preTrigger f.mWriteFail h.dropLast 0).1 = false ∧
      hasStartOk (preTrigger f.mWriteFail h.dropLast 0).1 = false ∧
      writesGarbage (preTrigger f.mWriteFail h.dropLast 0).1 = false :=
    fun h heq => preTrigger_c13 f.mWriteFail h.dropLast 0
      (fun id hid => hh h heq id (List.dropLast_subset h hid))
  simp only [hasStop, hasStartOk, writesGarbage] at hp ⊢
  unfold pDetect
  repeat' split
  all_goals simp_all

theorem pWrite_c13 (id k : Nat) (f : Faults) (s : PState) (hid : id ≠ garbage) :
    hasStop (pWrite id k f s).2 = false ∧ hasStartOk (pWrite id k f s).2 = false ∧
    writesGarbage (pWrite id k f s).2 = false := by
  unfold pWrite
  split <;> simp [hasStop, hasStartOk, writesGarbage, hid]

theorem pStop_c13 (f : Faults) (s : PState) :
    hasStartOk (pStop f s).2 = false ∧ writesGarbage (pStop f s).2 = false ∧
    (pStop f s).1.isRec = (s.isRec && !hasStop (pStop f s).2) := by
  unfold pStop stopRecording
  repeat' split
  all_goals simp_all [hasStop, hasStartOk, writesGarbage]

theorem pcr_c13 (c : PCfg) (s : PState) (id : Nat) (f : Faults) (hid : id ≠ garbage) :
    hasStop (processConstantRecorder c s id f).2 = false ∧
    hasStartOk (processConstantRecorder c s id f).2 = false ∧
    writesGarbage (processConstantRecorder c s id f).2 = false := by
  simp only [processConstantRecorder]
  repeat' split
  all_goals simp [hasStop, hasStartOk, writesGarbage, hid]

theorem psn_c13 (c : PCfg) (s : PState) (id : Nat) (f : Faults) (hid : id ≠ garbage) :
    hasStop (processSnapshot c s id f).2 = false ∧
    hasStartOk (processSnapshot c s id f).2 = false ∧
    writesGarbage (processSnapshot c s id f).2 = false := by
  simp only [processSnapshot]
  repeat' split
  all_goals simp [hasStop, hasStartOk, writesGarbage, hid]

theorem processFrame_c13 (c : PCfg) (s : PState) (motion : Bool) (f : Faults)
    (hg : Good c s) (hn : s.n < garbage) :
    (processFrame c s motion f).1.isRec =
      ((s.isRec || hasStartOk (processFrame c s motion f).2) && !hasStop (processFrame c s motion f).2) ∧
    writesGarbage (processFrame c s motion f).2 = false := by
  have hid : s.n ≠ garbage := by omega
  obtain ⟨lo, hlo, hh⟩ := good_history hg
  have hh' : ∀ h, ({ s with ring := s.ring.write s.n } : PState).ring.history = some h →
      ∀ id ∈ h, id ≠ garbage := by
    intro h heq id hmem
    simp only [hh, Option.some.injEq] at heq
    subst heq
    rw [List.mem_range'_1] at hmem
    omega
  rw [processFrame_eq, process_eq]
  simp only [andThen_fst, andThen_snd, hasStop_append, hasStartOk_append, writesGarbage_append]
  obtain ⟨d1, d2, d3⟩ := pDetect_c13 c { s with ring := s.ring.write s.n } motion f hh'
  generalize pDetect c { s with ring := s.ring.write s.n } motion f = d at *
  obtain ⟨w1, w2, w3⟩ := pWrite_c13 s.n d.2 f d.1.1 hid
  have w4 := (pWrite_fields s.n d.2 f d.1.1).2.2.1
  generalize pWrite s.n d.2 f d.1.1 = w at *
  obtain ⟨s1, s2, s3⟩ := pStop_c13 f w.1
  generalize pStop f w.1 = st at *
  obtain ⟨c1, c2, c3⟩ := pcr_c13 c st.1 s.n f hid
  obtain ⟨k, hk⟩ := pcr_shape c st.1 s.n f
  generalize processConstantRecorder c st.1 s.n f = cr at *
  obtain ⟨n1, n2, n3⟩ := psn_c13 c cr.1 s.n f hid
  obtain ⟨a, b, k', hsn⟩ := psn_shape c cr.1 s.n f
  generalize processSnapshot c cr.1 s.n f = sn at *
  rw [hsn, hk]
  simp [d1, d2, d3, w1, w2, w3, w4, s1, s2, s3, c1, c2, c3, n1, n2, n3]

def Rel13 (s : PState) (m : M13) : Prop := m.openRec = s.isRec ∧ m.fails = []

theorem step_rel13 (c : PCfg) (s : PState) (m : M13) (e : Ev) (hg : Good c s) (hn : s.n < garbage)
    (hr : Rel13 s m) : Rel13 (PState.step c s e).1 (M13.step m ⟨e, (PState.step c s e).2⟩) := by
  obtain ⟨h1, h2⟩ := hr
  cases e with
  | frame mo f =>
    obtain ⟨a, b⟩ := processFrame_c13 c s mo f hg hn
    simp only [M13.step, PState.step, Rel13]
    simp [a, b, h1, h2]
  | bad f =>
    simp only [M13.step, PState.step, Rel13, processBad, stopRecording, stopConstantRecorder]
    cases hrec : s.isRec <;> cases hc : c.constOn <;>
      simp [h1, h2, hrec, anyWrite, writesGarbage, hasStop, hasStartAny]
  | reset f =>
    cases hrec : s.isRec <;>
      simp [M13.step, PState.step, Rel13, stopRecording, h1, h2, hrec, writesGarbage, hasStop, hasStartOk]
  | testReq =>
    simp [M13.step, PState.step, Rel13, h1, h2, writesGarbage, hasStop, hasStartOk]

theorem step_n_le (c : PCfg) (s : PState) (e : Ev) : (PState.step c s e).1.n ≤ s.n + 1 := by
  cases e with
  | frame mo f => simp only [PState.step]; rw [(processFrame_fields c s mo f).2]; exact Nat.le_refl _
  | bad f =>
    simp only [PState.step, processBad, andThen_fst]
    obtain ⟨k, hk⟩ := scr_shape c (stopRecording { s with ring := s.ring.write garbage } f.mStop).1 f
    have hf := stopRecording_fields { s with ring := s.ring.write garbage } f.mStop
    rw [hk]
    simp only [hf.2.1]; omega
  | reset f =>
    simp only [PState.step]
    rw [(stopRecording_fields s f.mStop).2.1]; omega
  | testReq => simp [PState.step]

/-- C13 for every run of at most `garbage` events (ids are frame indices; the sentinel id
`garbage = 4000000000` must stay unused for the monitor's "rejected content written" check to be
meaningful) -/
theorem c13_bounded (c : PCfg) (hK : 0 < c.K) (evs : List Ev) (hlen : evs.length ≤ garbage) :
    monC13 (PState.trace c (PState.init c) evs) = [] := by
  have h := trace_fold_inv c M13.step
    (fun k s m => Good c s ∧ s.n ≤ k ∧ (k ≤ garbage → Rel13 s m))
    (fun k s m e hi => by
      obtain ⟨hg, hn, hr⟩ := hi
      refine ⟨good_step c s e hg, ?_, ?_⟩
      · have := step_n_le c s e; omega
      · intro hk
        exact step_rel13 c s m e hg (by omega) (hr (by omega)))
    evs 0 (PState.init c) {} ⟨good_init c hK, Nat.le_refl _, fun _ => ⟨rfl, rfl⟩⟩
  exact (h.2.2 (by omega)).2

/-! ## C17 — continuous / test sink layout -/

theorem obsOf_append (k : Sink) (a b : List Obs) : obsOf k (a ++ b) = obsOf k a ++ obsOf k b := by
  simp [obsOf]
theorem sinkFault_append (a b : List Obs) : sinkFault (a ++ b) = (sinkFault a || sinkFault b) := by
  simp [sinkFault]

/-- the observation list touches neither the continuous nor the test sink -/
def MotOnly (obs : List Obs) : Prop :=
  obsOf .const obs = [] ∧ obsOf .test obs = [] ∧ sinkFault obs = false

theorem motOnly_nil : MotOnly [] := by simp [MotOnly, obsOf, sinkFault]

theorem motOnly_append {a b : List Obs} (ha : MotOnly a) (hb : MotOnly b) : MotOnly (a ++ b) := by
  obtain ⟨a1, a2, a3⟩ := ha
  obtain ⟨b1, b2, b3⟩ := hb
  simp [MotOnly, obsOf_append, sinkFault_append, a1, a2, a3, b1, b2, b3]

theorem preTrigger_motOnly (fa : Nat) (ids : List Nat) (k : Nat) : MotOnly (preTrigger fa ids k).1 := by
  induction ids generalizing k with
  | nil => exact motOnly_nil
  | cons id rest ih =>
    simp only [preTrigger]
    split
    · simp [MotOnly, obsOf, sinkFault]
    · have h := ih (k + 1)
      simp only [MotOnly, obsOf, sinkFault] at h ⊢
      simp [h]

theorem pDetect_motOnly (c : PCfg) (s : PState) (motion : Bool) (f : Faults) :
    MotOnly (pDetect c s motion f).1.2 := by
  have hp : ∀ h : List Nat, MotOnly (preTrigger f.mWriteFail h.dropLast 0).1 :=
    fun h => preTrigger_motOnly _ _ _
  simp only [MotOnly, obsOf, sinkFault] at hp ⊢
  unfold pDetect
  repeat' split
  all_goals simp_all
  all_goals exact hp _

theorem pWrite_motOnly (id k : Nat) (f : Faults) (s : PState) : MotOnly (pWrite id k f s).2 := by
  unfold pWrite
  split <;> simp [MotOnly, obsOf, sinkFault]

theorem pStop_motOnly (f : Faults) (s : PState) : MotOnly (pStop f s).2 := by
  unfold pStop stopRecording
  repeat' split
  all_goals simp [MotOnly, obsOf, sinkFault]

theorem stopRecording_motOnly (s : PState) (ok : Bool) : MotOnly (s.stopRecording ok).2 := by
  unfold stopRecording
  split <;> simp [MotOnly, obsOf, sinkFault]

theorem process_motOnly (c : PCfg) (s : PState) (motion : Bool) (f : Faults) :
    MotOnly (process c s motion f).2 := by
  rw [process_eq]
  simp only [andThen_fst, andThen_snd]
  exact motOnly_append (motOnly_append (pDetect_motOnly ..) (pWrite_motOnly ..)) (pStop_motOnly ..)

theorem pcr_c17 (c : PCfg) (s : PState) (id : Nat) (f : Faults) (h0 : c.constOn = false → s.crFrames = 0) :
    obsOf .test (processConstantRecorder c s id f).2 = [] ∧
    (c.constOn = false → (processConstantRecorder c s id f).1.crFrames = 0) ∧
    (sinkFault (processConstantRecorder c s id f).2 = false →
      obsOf .const (processConstantRecorder c s id f).2 =
        (if !c.constOn then [] else
          (if s.crFrames = 0 then [Obs.call .const .start true] else []) ++
          [Obs.call .const (.write id) true] ++
          (if s.crFrames + 1 > c.maxF then [Obs.call .const .stop true] else [])) ∧
      (processConstantRecorder c s id f).1.crFrames =
        (if !c.constOn then 0 else if s.crFrames + 1 > c.maxF then 0 else s.crFrames + 1)) := by
  simp only [processConstantRecorder]
  cases hc : c.constOn
  · simp [obsOf, sinkFault, h0 hc]
  · by_cases h2 : s.crFrames + 1 > c.maxF <;> simp only [h2, ↓reduceIte] <;>
      by_cases h1 : s.crFrames = 0 <;>
      cases h3 : f.cStart <;> cases h4 : f.cWrite <;> cases h5 : f.cStop <;>
      simp [obsOf, sinkFault, h1]

theorem psn_c17 (c : PCfg) (s : PState) (id : Nat) (f : Faults) (hx : (s.startSnap && s.snapRec) = false) :
    obsOf .const (processSnapshot c s id f).2 = [] ∧
    (sinkFault (processSnapshot c s id f).2 = false →
      obsOf .test (processSnapshot c s id f).2 =
        (if s.startSnap && !s.snapRec then [Obs.call .test .start true] else []) ++
        (if s.snapRec || (s.startSnap && !s.snapRec) then [Obs.call .test (.write id) true] else []) ++
        (if (s.snapRec || (s.startSnap && !s.snapRec)) &&
            decide ((if s.snapRec || (s.startSnap && !s.snapRec) then s.snapFrames + 1 else s.snapFrames)
              > c.testLast)
          then [Obs.call .test .stop true] else []) ∧
      (processSnapshot c s id f).1.snapRec =
        ((s.snapRec || (s.startSnap && !s.snapRec)) &&
          !((s.snapRec || (s.startSnap && !s.snapRec)) &&
            decide ((if s.snapRec || (s.startSnap && !s.snapRec) then s.snapFrames + 1 else s.snapFrames)
              > c.testLast))) ∧
      (processSnapshot c s id f).1.snapFrames =
        (if (s.snapRec || (s.startSnap && !s.snapRec)) &&
            decide ((if s.snapRec || (s.startSnap && !s.snapRec) then s.snapFrames + 1 else s.snapFrames)
              > c.testLast)
          then 0 else (if s.snapRec || (s.startSnap && !s.snapRec) then s.snapFrames + 1 else s.snapFrames)) ∧
      (processSnapshot c s id f).1.startSnap = false) := by
  have hcases : (s.startSnap = false ∧ s.snapRec = false) ∨ (s.startSnap = false ∧ s.snapRec = true) ∨
      (s.startSnap = true ∧ s.snapRec = false) := by
    cases h0 : s.startSnap <;> cases h1 : s.snapRec <;> simp_all
  simp only [processSnapshot]
  rcases hcases with ⟨h0, h1⟩ | ⟨h0, h1⟩ | ⟨h0, h1⟩ <;>
    by_cases h2 : c.testLast < s.snapFrames + 1 <;>
    cases h3 : f.tStart <;> cases h4 : f.tWrite <;> cases h5 : f.tStop <;>
    simp [obsOf, sinkFault, h0, h1, h2]

/-- monitor state ↔ model state; nothing is claimed about the bookkeeping once tainted -/
def Rel17 (c : PCfg) (s : PState) (m : M17) : Prop :=
  m.fails = [] ∧ (m.tainted = false →
    m.n = s.n ∧ m.cPos = s.crFrames ∧ (c.constOn = false → s.crFrames = 0) ∧
    m.tOpen = s.snapRec ∧ m.tCount = s.snapFrames ∧ m.pending = s.startSnap ∧
    (s.startSnap && s.snapRec) = false)

theorem frame_rel17 (c : PCfg) (s : PState) (m : M17) (mo : Bool) (f : Faults) (hr : Rel17 c s m) :
    Rel17 c (processFrame c s mo f).1 (M17.step c m ⟨.frame mo f, (processFrame c s mo f).2⟩) := by
  rw [processFrame_eq]
  simp only [andThen_fst, andThen_snd]
  obtain ⟨p1, p2, p3⟩ := process_motOnly c { s with ring := s.ring.write s.n } mo f
  obtain ⟨_, _, q3, q4, q5, q6⟩ := process_fields c { s with ring := s.ring.write s.n } mo f
  generalize process c { s with ring := s.ring.write s.n } mo f = p at *
  have hcr := pcr_c17 c p.1 s.n f
  obtain ⟨k, hk⟩ := pcr_shape c p.1 s.n f
  generalize processConstantRecorder c p.1 s.n f = cr at *
  have hsn := psn_c17 c cr.1 s.n f
  obtain ⟨a, b, k', hs⟩ := psn_shape c cr.1 s.n f
  generalize processSnapshot c cr.1 s.n f = sn at *
  obtain ⟨mn, cPos, tOpen, tCount, pending, tainted, fails⟩ := m
  obtain ⟨hf, ht⟩ := hr
  simp only at hf ht
  subst hf
  simp only [M17.step, Rel17, obsOf_append, sinkFault_append, p1, p2, p3, List.nil_append, Bool.false_or]
  cases tainted
  · obtain ⟨rfl, rfl, h0, rfl, rfl, rfl, hx⟩ := ht rfl
    simp only at q3 q4 q5 q6
    have e1 : cr.1.startSnap = s.startSnap := by rw [hk]; exact q4
    have e2 : cr.1.snapRec = s.snapRec := by rw [hk]; exact q5
    have e3 : cr.1.snapFrames = s.snapFrames := by rw [hk]; exact q6
    have e4 : sn.1.crFrames = cr.1.crFrames := by rw [hs]
    rw [q3] at hcr
    rw [e1, e2, e3] at hsn
    obtain ⟨c1, c2, c3⟩ := hcr h0
    obtain ⟨n1, n2⟩ := hsn hx
    cases hsf1 : sinkFault cr.2
    · cases hsf2 : sinkFault sn.2
      · obtain ⟨c4, c5⟩ := c3 hsf1
        obtain ⟨n3, n4, n5, n6⟩ := n2 hsf2
        simp only [Bool.or_self, Bool.false_eq_true, if_false, List.nil_append, c1, n1, c4, n3,
          List.append_nil, if_true, true_and, forall_const, e4, c5, n4, n5, n6, Bool.false_and, and_true]
        intro hc
        simp [hc]
      · simp
    · simp
  · simp

theorem bad_rel17 (c : PCfg) (s : PState) (m : M17) (f : Faults) (hr : Rel17 c s m) :
    Rel17 c (processBad c s f).1 (M17.step c m ⟨.bad f, (processBad c s f).2⟩) := by
  obtain ⟨hf, ht⟩ := hr
  simp only [processBad, andThen_fst, andThen_snd]
  obtain ⟨p1, p2, p3⟩ := stopRecording_motOnly { s with ring := s.ring.write garbage } f.mStop
  obtain ⟨_, q2, _, q3, q4, q5, q6⟩ := stopRecording_fields { s with ring := s.ring.write garbage } f.mStop
  generalize stopRecording { s with ring := s.ring.write garbage } f.mStop = p at *
  simp only at q2 q3 q4 q5 q6
  simp only [M17.step, Rel17, obsOf_append, sinkFault_append, p1, p3, List.nil_append, Bool.false_or,
    stopConstantRecorder]
  cases hc : c.constOn <;> cases h5 : f.cStop <;> cases htt : m.tainted <;>
    simp_all [obsOf, sinkFault]

theorem reset_rel17 (c : PCfg) (s : PState) (m : M17) (f : Faults) (hr : Rel17 c s m) :
    Rel17 c (s.stopRecording f.mStop).1 (M17.step c m ⟨.reset f, (s.stopRecording f.mStop).2⟩) := by
  obtain ⟨hf, ht⟩ := hr
  obtain ⟨p1, p2, p3⟩ := stopRecording_motOnly s f.mStop
  obtain ⟨_, q2, _, q3, q4, q5, q6⟩ := stopRecording_fields s f.mStop
  generalize stopRecording s f.mStop = p at *
  simp only [M17.step, Rel17, p3]
  simp_all

theorem testReq_rel17 (c : PCfg) (s : PState) (m : M17) (hr : Rel17 c s m) :
    Rel17 c { s with startSnap := true } (M17.step c m ⟨.testReq, []⟩) := by
  obtain ⟨hf, ht⟩ := hr
  simp only [M17.step, Rel17, sinkFault]
  cases htt : m.tainted <;> cases h1 : m.tOpen <;> cases h2 : m.pending <;> simp_all

theorem step_rel17 (c : PCfg) (s : PState) (m : M17) (e : Ev) (hr : Rel17 c s m) :
    Rel17 c (PState.step c s e).1 (M17.step c m ⟨e, (PState.step c s e).2⟩) := by
  cases e with
  | frame mo f => exact frame_rel17 c s m mo f hr
  | bad f => exact bad_rel17 c s m f hr
  | reset f => exact reset_rel17 c s m f hr
  | testReq => exact testReq_rel17 c s m hr

theorem c17_all (c : PCfg) (evs : List Ev) : monC17 c (PState.trace c (PState.init c) evs) = [] := by
  have h := trace_fold_inv c (M17.step c) (fun _ s m => Rel17 c s m)
    (fun _ s m e hi => step_rel17 c s m e hi) evs 0 (PState.init c) {}
    ⟨rfl, fun _ => ⟨rfl, rfl, fun _ => rfl, rfl, rfl, rfl, rfl⟩⟩
  exact h.1

/-! ## the length bound in `c13_bounded` is needed

Frame ids are frame indices and the monitor uses the id `garbage` as the "rejected content"
sentinel, so the frame with index `garbage` itself (the 4 000 000 001st accepted frame, ≈ 14 years
at 9 fps) is flagged when the continuous recorder writes it.  This is an artefact of the id
encoding, not of the processor; it is recorded here so that the hypothesis is not dropped silently. -/

theorem trace_append (c : PCfg) (s : PState) (a b : List Ev) :
    PState.trace c s (a ++ b) = PState.trace c s a ++ PState.trace c (PState.after c s a) b := by
  induction a generalizing s with
  | nil => rfl
  | cons e es ih => simp [PState.trace, PState.after, ih]

theorem after_frames_n (c : PCfg) (k : Nat) (mo : Bool) (f : Faults) : ∀ s : PState,
    (PState.after c s (List.replicate k (Ev.frame mo f))).n = s.n + k := by
  induction k with
  | zero => intro s; rfl
  | succ k ih =>
    intro s
    simp only [List.replicate_succ, PState.after, PState.step]
    rw [ih, (processFrame_fields c s mo f).2]; omega

theorem pcr_writes_id (c : PCfg) (s : PState) (id : Nat) (hc : c.constOn = true) :
    Obs.call .const (.write id) true ∈ (processConstantRecorder c s id {}).2 := by
  simp only [processConstantRecorder]
  repeat' split
  all_goals simp_all

/-- with the continuous recorder on, the run of `garbage + 1` plain frames is flagged (stated with
a variable `n = garbage` so that nothing ever evaluates a four-billion-element list) -/
theorem c13_needs_bound (c : PCfg) (hc : c.constOn = true) (n : Nat) (hn : n = garbage) :
    monC13 (PState.trace c (PState.init c) (List.replicate (n + 1) (Ev.frame false {}))) ≠ [] := by
  rw [List.replicate_succ', trace_append]
  simp only [monC13, List.foldl_append, PState.trace, List.foldl_cons, List.foldl_nil, PState.step]
  have h1 := after_frames_n c n false {} (PState.init c)
  generalize PState.after c (PState.init c) (List.replicate n (Ev.frame false {})) = s at *
  generalize List.foldl M13.step {} _ = m
  have hn' : s.n = garbage := by rw [h1, ← hn]; simp [PState.init]
  have hw : writesGarbage (processFrame c s false {}).2 = true := by
    rw [writesGarbage, List.any_eq_true]
    refine ⟨Obs.call .const (.write garbage) true, ?_, by simp⟩
    rw [processFrame_eq]
    simp only [andThen_snd, andThen_fst, hn']
    exact List.mem_append_left _ (List.mem_append_right _ (pcr_writes_id _ _ _ hc))
  simp [M13.step, hw]

end TR
