import TR.ProcMon
/-!
# Proofs.C12Spec — what acceptance by the C12 monitor means, as a plain list specification

`monC12` (`TR.ProcMon`) folds the state machine `M12s.obs` over all observations of a trace.  Here the
monitor is characterised, for EVERY trace, by a statement that does not mention it:

* `allObs tr` — all observations, in order; `callsOf s os` — the calls made on sink `s` with their outcome;
* `openAfter cs` — "a recording is open after the calls `cs`": the last successful `start` comes after the
  last `stop` (`openAfter_iff`);
* `WellFormed cs` — position by position: a `write` only when the calls before it leave a recording open, a
  `start` (attempt) only when they leave none open;
* `monC12_iff : monC12 tr = [] ↔ Obs.panic ∉ allObs tr ∧ ∀ s, WellFormed (callsOf s (allObs tr))`.

The proof: `fails` only grows; the monitor's flag for sink `s` is `openAfter` of the calls on `s` processed
so far; the interleaving of the three sinks is handled one observation at a time (`wf_call`).
-/
namespace TR.C12Spec
open TR

/-! ## (A) the plain specification -/

/-- all observations of a trace, in order -/
def allObs (tr : List Step) : List Obs := tr.flatMap (·.obs)

/-- the calls made on sink `s`, in order, with their outcome -/
def callsOf (s : Sink) (os : List Obs) : List (Call × Bool) :=
  os.filterMap fun o => match o with
    | .call s' c ok => if s' = s then some (c, ok) else none
    | _ => none

/-- the effect of one call on "a recording is open": a successful `start` opens, a `stop` closes whatever
its outcome, everything else (failed `start`, `write`, `can`) changes nothing -/
def nextOpen (isOpen : Bool) : Call × Bool → Bool
  | (.start, true) => true
  | (.stop, _) => false
  | _ => isOpen

/-- "a recording is open on this sink after these calls": initially none is; see `openAfter_iff` — the last
successful start comes after the last stop -/
def openAfter (cs : List (Call × Bool)) : Bool := cs.foldl nextOpen false

/-- the plain protocol, position by position -/
def WellFormed (cs : List (Call × Bool)) : Prop :=
  ∀ i (h : i < cs.length), match cs[i] with
    | (.write _, _) => openAfter (cs.take i) = true    -- a write (successful or not) only inside a recording
    | (.start, _)   => openAfter (cs.take i) = false   -- no start (attempt) while a recording is open
    | _ => True                                        -- `stop` and `can` are always allowed

/-! ### `openAfter`, read as a statement about positions -/

/-- no `stop` (successful or not) among these calls -/
def NoStop (cs : List (Call × Bool)) : Prop := ∀ ok, (Call.stop, ok) ∉ cs

theorem openAfter_nil : openAfter [] = false := rfl

theorem openAfter_snoc (cs : List (Call × Bool)) (c : Call × Bool) :
    openAfter (cs ++ [c]) = nextOpen (openAfter cs) c := by
  simp only [openAfter, List.foldl_append, List.foldl_cons, List.foldl_nil]

/-- every call is a successful start, a stop, or leaves the flag alone (and is not a stop) -/
theorem call_cases (c : Call × Bool) :
    c = (.start, true) ∨ (∃ ok, c = (.stop, ok)) ∨
      ((∀ o, nextOpen o c = o) ∧ ∀ ok, c ≠ (.stop, ok)) := by
  obtain ⟨cl, ok⟩ := c
  cases cl with
  | start =>
    cases ok with
    | true => exact Or.inl rfl
    | false => exact Or.inr (Or.inr ⟨fun _ => rfl, fun _ h => by cases h⟩)
  | stop => exact Or.inr (Or.inl ⟨ok, rfl⟩)
  | can => exact Or.inr (Or.inr ⟨fun _ => rfl, fun _ h => by cases h⟩)
  | write id => exact Or.inr (Or.inr ⟨fun _ => rfl, fun _ h => by cases h⟩)

theorem noStop_nil : NoStop [] := fun _ h => by cases h

theorem noStop_cons (c : Call × Bool) (cs : List (Call × Bool)) :
    NoStop (c :: cs) ↔ (∀ ok, c ≠ (.stop, ok)) ∧ NoStop cs := by
  constructor
  · intro h
    exact ⟨fun ok e => h ok (by rw [e]; exact List.mem_cons_self ..),
      fun ok hm => h ok (List.mem_cons_of_mem _ hm)⟩
  · intro h ok hm
    rcases List.mem_cons.mp hm with e | hm
    · exact h.1 ok e.symm
    · exact h.2 ok hm

/-- the flag after `cs`, started from `o`: either it was set and no stop followed, or some successful start
is followed by no stop -/
theorem foldl_nextOpen_iff : ∀ (cs : List (Call × Bool)) (o : Bool),
    cs.foldl nextOpen o = true ↔
      (o = true ∧ NoStop cs) ∨ ∃ pre post, cs = pre ++ (Call.start, true) :: post ∧ NoStop post := by
  intro cs
  induction cs with
  | nil =>
    intro o
    constructor
    · intro h; exact Or.inl ⟨h, noStop_nil⟩
    · rintro (⟨h, _⟩ | ⟨pre, post, h, _⟩)
      · exact h
      · cases pre <;> cases h
  | cons c cs ih =>
    intro o
    rw [List.foldl_cons, ih]
    constructor
    · rintro (⟨h, hn⟩ | ⟨pre, post, h, hn⟩)
      · rcases call_cases c with rfl | ⟨ok, rfl⟩ | ⟨hc, hs⟩
        · exact Or.inr ⟨[], cs, rfl, hn⟩
        · cases h
        · rw [hc] at h
          exact Or.inl ⟨h, (noStop_cons c cs).mpr ⟨hs, hn⟩⟩
      · exact Or.inr ⟨c :: pre, post, by rw [h]; rfl, hn⟩
    · rintro (⟨h, hn⟩ | ⟨pre, post, h, hn⟩)
      · obtain ⟨hs, hn⟩ := (noStop_cons c cs).mp hn
        refine Or.inl ⟨?_, hn⟩
        rcases call_cases c with rfl | ⟨ok, rfl⟩ | ⟨hc, _⟩
        · rfl
        · exact absurd rfl (hs ok)
        · rw [hc]; exact h
      · cases pre with
        | nil =>
          simp only [List.nil_append, List.cons.injEq] at h
          obtain ⟨rfl, rfl⟩ := h
          exact Or.inl ⟨rfl, hn⟩
        | cons p pre =>
          simp only [List.cons_append, List.cons.injEq] at h
          exact Or.inr ⟨pre, post, h.2, hn⟩

/-- **`openAfter` in words**: a recording is open after `cs` iff some successful `start` in `cs` is followed
by no `stop` (successful or not) — i.e. the last successful start comes after the last stop -/
theorem openAfter_iff (cs : List (Call × Bool)) :
    openAfter cs = true ↔ ∃ pre post, cs = pre ++ (Call.start, true) :: post ∧ NoStop post := by
  rw [openAfter, foldl_nextOpen_iff]
  constructor
  · rintro (⟨h, _⟩ | h)
    · cases h
    · exact h
  · exact Or.inr

/-! ## the Bool version of `WellFormed` (for `decide`, and as the induction vehicle) -/

/-- may this call be made when a recording is / is not open? -/
def okWhen (isOpen : Bool) : Call × Bool → Bool
  | (.write _, _) => isOpen
  | (.start, _) => !isOpen
  | _ => true

/-- the calls `cs` are in order when the flag starts as `o` -/
def wfFrom : Bool → List (Call × Bool) → Bool
  | _, [] => true
  | o, c :: cs => okWhen o c && wfFrom (nextOpen o c) cs

/-- executable `WellFormed` -/
def wellFormedB (cs : List (Call × Bool)) : Bool := wfFrom false cs

theorem wfFrom_iff : ∀ (cs : List (Call × Bool)) (o : Bool),
    wfFrom o cs = true ↔
      ∀ i (h : i < cs.length), okWhen ((cs.take i).foldl nextOpen o) cs[i] = true := by
  intro cs
  induction cs with
  | nil =>
    intro o
    constructor
    · intro _ i h; exact absurd h (Nat.not_lt_zero _)
    · intro _; rfl
  | cons c cs ih =>
    intro o
    simp only [wfFrom, Bool.and_eq_true]
    rw [ih]
    constructor
    · rintro ⟨h0, hs⟩ i h
      cases i with
      | zero => exact h0
      | succ i => exact hs i (Nat.lt_of_succ_lt_succ h)
    · intro h
      exact ⟨h 0 (Nat.zero_lt_succ _), fun i hi => h (i + 1) (Nat.succ_lt_succ hi)⟩

/-- the `match` of `WellFormed` is `okWhen` -/
theorem match_iff_okWhen (o : Bool) (c : Call × Bool) :
    (match c with
      | (.write _, _) => o = true
      | (.start, _) => o = false
      | _ => True) ↔ okWhen o c = true := by
  obtain ⟨cl, ok⟩ := c
  cases cl with
  | write id => exact Iff.rfl
  | start => cases o <;> simp [okWhen]
  | can => simp [okWhen]
  | stop => simp [okWhen]

theorem wellFormed_iff (cs : List (Call × Bool)) : WellFormed cs ↔ wellFormedB cs = true := by
  rw [wellFormedB, wfFrom_iff]
  constructor
  · intro h i hi
    exact (match_iff_okWhen _ _).mp (h i hi)
  · intro h i hi
    exact (match_iff_okWhen _ _).mpr (h i hi)

instance (cs : List (Call × Bool)) : Decidable (WellFormed cs) :=
  decidable_of_iff _ (wellFormed_iff cs).symm

/-- a statement about all three sinks -/
theorem forall_sink {p : Sink → Prop} : (∀ s, p s) ↔ p .motion ∧ p .const ∧ p .test :=
  ⟨fun h => ⟨h _, h _, h _⟩, fun ⟨h1, h2, h3⟩ s => by cases s <;> assumption⟩

/-- `∀ s : Sink, …` is decidable (only inside this namespace) -/
scoped instance {p : Sink → Prop} [DecidablePred p] : Decidable (∀ s, p s) :=
  decidable_of_iff _ forall_sink.symm

/-! ## (B) the monitor, one observation at a time -/

/-- the monitor is a fold over `allObs` -/
theorem fold_allObs (tr : List Step) (m : M12s) :
    tr.foldl (fun m s => s.obs.foldl M12s.obs m) m = (allObs tr).foldl M12s.obs m := by
  induction tr generalizing m with
  | nil => rfl
  | cons st tr ih =>
    simp only [allObs, List.flatMap_cons, List.foldl_append, List.foldl_cons] at ih ⊢
    exact ih _

theorem monC12_eq (tr : List Step) : monC12 tr = ((allObs tr).foldl M12s.obs {}).fails := by
  rw [monC12, fold_allObs]

/-! ### getters and setters of the monitor state -/

theorem set_fails (m : M12s) (s : Sink) (b : Bool) : (m.set s b).fails = m.fails := by
  cases s <;> rfl

theorem get_set (m : M12s) (s' s : Sink) (b : Bool) :
    (m.set s' b).get s = if s' = s then b else m.get s := by
  cases s' <;> cases s <;> simp [M12s.set, M12s.get]

theorem get_fails (m : M12s) (f : List String) (s : Sink) :
    ({ m with fails := f } : M12s).get s = m.get s := by
  cases s <;> rfl

/-- what the monitor checks at one observation -/
def obsOk (m : M12s) : Obs → Bool
  | .panic => false
  | .call s c ok => okWhen (m.get s) (c, ok)
  | _ => true

/-- `fails` stays empty iff it was empty and the observation passes the check -/
theorem obs_fails (m : M12s) (o : Obs) :
    (M12s.obs m o).fails = [] ↔ m.fails = [] ∧ obsOk m o = true := by
  cases o with
  | md => simp [M12s.obs, obsOk]
  | rs => simp [M12s.obs, obsOk]
  | re => simp [M12s.obs, obsOk]
  | panic => simp [M12s.obs, obsOk]
  | call s cl ok =>
    cases cl with
    | can => simp [M12s.obs, obsOk, okWhen]
    | stop => simp [M12s.obs, obsOk, okWhen, set_fails]
    | write id =>
      simp only [M12s.obs, obsOk, okWhen]
      cases hg : m.get s <;> simp
    | start =>
      simp only [M12s.obs, obsOk, okWhen]
      cases hg : m.get s <;> cases ok <;> simp [set_fails]

/-- the flag of sink `s` after one call on sink `s'` -/
theorem obs_get_call (m : M12s) (s' s : Sink) (cl : Call) (ok : Bool) :
    (M12s.obs m (.call s' cl ok)).get s = if s' = s then nextOpen (m.get s') (cl, ok) else m.get s := by
  cases cl with
  | can => simp only [M12s.obs, nextOpen]; split <;> simp_all
  | stop => simp only [M12s.obs, nextOpen, get_set]
  | write id =>
    simp only [M12s.obs, nextOpen]
    cases hg : m.get s'
    · simp only [Bool.false_eq_true, if_false, get_fails]
      split
      · next h => rw [← h, hg]
      · rfl
    · simp only [if_true]
      split
      · next h => rw [← h, hg]
      · rfl
  | start =>
    simp only [M12s.obs]
    cases hg : m.get s' <;> cases ok <;>
      simp only [Bool.false_eq_true, if_false, if_true, get_set, get_fails, nextOpen]
    all_goals
      split
      · next h => first | rfl | rw [← h, hg]
      · rfl

theorem callsOf_cons_call (s' s : Sink) (cl : Call) (ok : Bool) (os : List Obs) :
    callsOf s (.call s' cl ok :: os) = if s' = s then (cl, ok) :: callsOf s os else callsOf s os := by
  simp only [callsOf, List.filterMap_cons]
  split <;> simp_all

theorem callsOf_cons_quiet (s : Sink) (o : Obs) (os : List Obs) (h : ∀ s' cl ok, o ≠ .call s' cl ok) :
    callsOf s (o :: os) = callsOf s os := by
  cases o with
  | call s' cl ok => exact absurd rfl (h s' cl ok)
  | _ => rfl

/-- one call on sink `s'`: the three per-sink conditions before it ⟺ its own check and the three conditions
after it -/
theorem wf_call (m : M12s) (s' : Sink) (cl : Call) (ok : Bool) (os : List Obs) :
    (∀ s, wfFrom (m.get s) (callsOf s (.call s' cl ok :: os)) = true) ↔
      okWhen (m.get s') (cl, ok) = true ∧
        ∀ s, wfFrom ((M12s.obs m (.call s' cl ok)).get s) (callsOf s os) = true := by
  constructor
  · intro h
    refine ⟨?_, fun s => ?_⟩
    · have := h s'
      rw [callsOf_cons_call, if_pos rfl, wfFrom, Bool.and_eq_true] at this
      exact this.1
    · have := h s
      rw [callsOf_cons_call] at this
      rw [obs_get_call]
      by_cases e : s' = s
      · subst e
        rw [if_pos rfl] at this ⊢
        rw [wfFrom, Bool.and_eq_true] at this
        exact this.2
      · rw [if_neg e] at this ⊢
        exact this
  · rintro ⟨h0, h⟩ s
    have := h s
    rw [obs_get_call] at this
    rw [callsOf_cons_call]
    by_cases e : s' = s
    · subst e
      rw [if_pos rfl] at this ⊢
      rw [wfFrom, Bool.and_eq_true]
      exact ⟨h0, this⟩
    · rw [if_neg e] at this ⊢
      exact this

/-- **the monitor, from any state**: the fold reports nothing iff nothing was reported before, no
observation is a panic, and on every sink the calls are in order starting from the monitor's flag -/
theorem fold_fails_iff : ∀ (os : List Obs) (m : M12s),
    (os.foldl M12s.obs m).fails = [] ↔
      m.fails = [] ∧ Obs.panic ∉ os ∧ ∀ s, wfFrom (m.get s) (callsOf s os) = true := by
  intro os
  induction os with
  | nil =>
    intro m
    constructor
    · intro h; exact ⟨h, List.not_mem_nil, fun _ => rfl⟩
    · intro h; exact h.1
  | cons o os ih =>
    intro m
    rw [List.foldl_cons, ih, obs_fails]
    cases o with
    | panic =>
      constructor
      · rintro ⟨⟨_, h⟩, _⟩; cases h
      · rintro ⟨_, h, _⟩; exact absurd (List.mem_cons_self ..) h
    | call s' cl ok =>
      rw [wf_call]
      have hp : Obs.panic ∉ Obs.call s' cl ok :: os ↔ Obs.panic ∉ os := by
        simp
      rw [hp]
      constructor
      · rintro ⟨⟨h1, h2⟩, h3, h4⟩; exact ⟨h1, h3, h2, h4⟩
      · rintro ⟨h1, h3, h2, h4⟩; exact ⟨⟨h1, h2⟩, h3, h4⟩
    | md =>
      have hp : Obs.panic ∉ Obs.md :: os ↔ Obs.panic ∉ os := by simp
      rw [hp]
      constructor
      · rintro ⟨⟨h1, _⟩, h3, h4⟩; exact ⟨h1, h3, h4⟩
      · rintro ⟨h1, h3, h4⟩; exact ⟨⟨h1, rfl⟩, h3, h4⟩
    | rs =>
      have hp : Obs.panic ∉ Obs.rs :: os ↔ Obs.panic ∉ os := by simp
      rw [hp]
      constructor
      · rintro ⟨⟨h1, _⟩, h3, h4⟩; exact ⟨h1, h3, h4⟩
      · rintro ⟨h1, h3, h4⟩; exact ⟨⟨h1, rfl⟩, h3, h4⟩
    | re =>
      have hp : Obs.panic ∉ Obs.re :: os ↔ Obs.panic ∉ os := by simp
      rw [hp]
      constructor
      · rintro ⟨⟨h1, _⟩, h3, h4⟩; exact ⟨h1, h3, h4⟩
      · rintro ⟨h1, h3, h4⟩; exact ⟨⟨h1, rfl⟩, h3, h4⟩

/-- the invariant behind the equivalence, on its own: the monitor's flag for sink `s` is `openAfter` of the
calls made on `s` so far -/
theorem fold_get : ∀ (os : List Obs) (m : M12s) (s : Sink),
    (os.foldl M12s.obs m).get s = (callsOf s os).foldl nextOpen (m.get s) := by
  intro os
  induction os with
  | nil => intro m s; rfl
  | cons o os ih =>
    intro m s
    rw [List.foldl_cons, ih]
    cases o with
    | call s' cl ok =>
      rw [obs_get_call, callsOf_cons_call]
      by_cases e : s' = s
      · rw [if_pos e, if_pos e, List.foldl_cons, e]
      · rw [if_neg e, if_neg e]
    | md => rfl
    | rs => rfl
    | re => rfl
    | panic => rw [callsOf_cons_quiet s _ os (fun _ _ _ h => by cases h)]; rw [M12s.obs, get_fails]

theorem monitor_flag (os : List Obs) (s : Sink) :
    (os.foldl M12s.obs {}).get s = openAfter (callsOf s os) := by
  rw [fold_get]
  cases s <;> rfl

/-- **the C12 monitor accepts exactly the well-formed traces** -/
theorem monC12_iff' (tr : List Step) :
    monC12 tr = [] ↔ (Obs.panic ∉ allObs tr ∧ ∀ s : Sink, WellFormed (callsOf s (allObs tr))) := by
  rw [monC12_eq, fold_fails_iff]
  constructor
  · rintro ⟨_, hp, hw⟩
    refine ⟨hp, fun s => (wellFormed_iff _).mpr ?_⟩
    have := hw s
    cases s <;> exact this
  · rintro ⟨hp, hw⟩
    refine ⟨rfl, hp, fun s => ?_⟩
    have := (wellFormed_iff _).mp (hw s)
    cases s <;> exact this

end TR.C12Spec
